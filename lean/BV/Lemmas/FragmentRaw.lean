/-
C01 / fragment writers, part 2: the pieces shared by both qualities on the byte storage: `blit` (the bits a
`BV.Huffman` builder returned), `store_meta_block_header`, `RewindBitPosition`, `EmitUncompressedMetaBlock`
(two-pass flavour), the final ISLAST/ISLASTEMPTY bits — each is "append these bits" (`Wr`), and the appended
bits are the ones the RFC reader lemmas of `BV/Lemmas/MetaBlockWmbi.lean` are stated for (`storedBits`,
`emptyLastBits`, `headerBits`).
-/
import BV.Lemmas.FragmentSto
import BV.Lemmas.MetaBlockWmbi
import BV.Props.C18

namespace BV.Fragment
open BV.Bits BV.MetaBlock
open BV.Stored (nibsOf)

theorem bind_ok' {α β : Type} (a : α) (f : α → Out β) : (Out.ok a >>= f) = f a := rfl

theorem bitsOf_bit (b : Bool) : bitsOf 1 (if b then 1 else 0) = [b] := by cases b <;> decide

theorem blit_ok : ∀ (bs : List Bool) (s : Sto), Good s → (s.ix + bs.length) / 8 + 8 ≤ s.bytes.size →
    ∃ s', blit bs s = .ok s' ∧ Wr s s' bs
  | [], s, hg, _ => ⟨s, rfl, Wr.refl s hg⟩
  | b :: bs, s, hg, hr => by
    simp only [List.length_cons] at hr
    obtain ⟨s1, h1, w1⟩ := writeBits_ok 1 (if b then 1 else 0) s hg (by cases b <;> decide) (by decide) (by omega)
    rw [bitsOf_bit] at w1
    have hix : s1.ix = s.ix + 1 := by rw [w1.ix]; rfl
    obtain ⟨s2, h2, w2⟩ := blit_ok bs s1 w1.good (by rw [hix, w1.size]; omega)
    refine ⟨s2, ?_, by simpa using w1.trans w2⟩
    unfold blit
    rw [h1, bind_ok', h2]

/-- the header bits of `store_meta_block_header` -/
def hdrBits (len : Nat) (unc : Bool) : List Bool :=
  false :: (bitsOf 2 (nibsOf len - 4) ++ (bitsOf (4 * nibsOf len) (len - 1) ++ [unc]))

theorem hdrBits_length (len : Nat) (unc : Bool) : (hdrBits len unc).length = 4 + 4 * nibsOf len := by
  simp [hdrBits, length_bitsOf]; omega

theorem nibsOf_cases (len : Nat) : nibsOf len = 4 ∨ nibsOf len = 5 ∨ nibsOf len = 6 := by
  unfold nibsOf; split; · simp
  split <;> simp

theorem storeHeader_ok (len : Nat) (unc : Bool) (s : Sto) (hg : Good s) (h1 : 1 ≤ len) (h2 : len ≤ 2 ^ 24)
    (hr : (s.ix + 28) / 8 + 8 ≤ s.bytes.size) :
    ∃ s', storeMetaBlockHeader len unc s = .ok s' ∧ Wr s s' (hdrBits len unc) := by
  have p16 : (2 : Nat) ^ 16 = 65536 := by decide
  have p20 : (2 : Nat) ^ 20 = 1048576 := by decide
  have p24 : (2 : Nat) ^ 24 = 16777216 := by decide
  have hnib : (if len ≤ 65536 then 4 else if len ≤ 1048576 then 5 else 6) = nibsOf len := by
    unfold nibsOf; rw [p16, p20]
  have hn := nibsOf_cases len
  have hlen1 : (len + two64 - 1) % two64 = len - 1 := by
    have e : two64 = 18446744073709551616 := rfl
    rw [e]; omega
  have hfit : len - 1 < 2 ^ (4 * nibsOf len) := by
    unfold nibsOf
    split
    · show _ < 2 ^ 16; omega
    · split
      · show _ < 2 ^ 20; omega
      · show _ < 2 ^ 24; omega
  obtain ⟨s1, e1, w1⟩ := writeBits_ok 1 0 s hg (by decide) (by decide) (by omega)
  have i1 : s1.ix = s.ix + 1 := by rw [w1.ix, length_bitsOf]
  obtain ⟨s2, e2, w2⟩ := writeBits_ok 2 (nibsOf len - 4) s1 w1.good (by rcases hn with h | h | h <;> rw [h] <;> decide)
    (by decide) (by rw [i1, w1.size]; omega)
  have i2 : s2.ix = s.ix + 3 := by rw [w2.ix, length_bitsOf, i1]
  obtain ⟨s3, e3, w3⟩ := writeBits_ok (4 * nibsOf len) (len - 1) s2 w2.good hfit (by omega)
    (by rw [i2, w2.size, w1.size]; omega)
  have i3 : s3.ix = s.ix + 3 + 4 * nibsOf len := by rw [w3.ix, length_bitsOf, i2]
  obtain ⟨s4, e4, w4⟩ := writeBits_ok 1 (if unc then 1 else 0) s3 w3.good (by cases unc <;> decide) (by decide)
    (by rw [i3, w3.size, w2.size, w1.size]; omega)
  rw [bitsOf_bit] at w4
  refine ⟨s4, ?_, ?_⟩
  · unfold storeMetaBlockHeader
    simp only [hnib, Nat.mul_comm (nibsOf len) 4, hlen1]
    rw [e1, bind_ok', e2, bind_ok', e3, bind_ok', e4]
  · have := ((w1.trans w2).trans w3).trans w4
    have hb : bitsOf 1 0 = [false] := by decide
    rw [hb] at this
    simpa [hdrBits, List.append_assoc] using this

theorem hdrBits_true (len : Nat) : hdrBits len true = storedHeaderBits len := by
  have hn := nibsOf_cases len
  have e : 4 + (nibsOf len - 4) = nibsOf len := by omega
  simp [hdrBits, storedHeaderBits, e]

/-- extensionality for "the stream grew by `bs`" -/
theorem bits_ext (s s' : Sto) (bs : List Bool) (hix : s'.ix = s.ix + bs.length)
    (hold : ∀ i, i < s.ix → bitAt s'.bytes i = bitAt s.bytes i)
    (hnew : ∀ t, t < bs.length → bs[t]? = some (bitAt s'.bytes (s.ix + t))) :
    s'.bits = s.bits ++ bs := by
  simp only [Sto.bits]
  rw [hix, List.range_add, List.map_append, List.map_map]
  have h1 : List.map (bitAt s'.bytes) (List.range s.ix) = List.map (bitAt s.bytes) (List.range s.ix) :=
    List.map_congr_left (fun i hi => hold i (List.mem_range.mp hi))
  rw [h1]
  congr 1
  apply List.ext_getElem?
  intro t
  by_cases ht : t < bs.length
  · rw [hnew t ht]
    simp [ht]
  · rw [List.getElem?_eq_none (by simpa using ht), List.getElem?_eq_none (by simpa using ht)]

theorem bits_length (s : Sto) : s.bits.length = s.ix := by simp [Sto.bits]

/-- `RewindBitPosition` to an earlier position: the stream is truncated there and (W1) holds again,
whatever the storage holds behind the new position (stale bits of the abandoned attempt). -/
theorem rewind_ok (newIx : Nat) (s : Sto) (hsz : s.bytes.size < 1152921504606846976)
    (hin : newIx / 8 < s.bytes.size) (hle : newIx ≤ s.ix) :
    ∃ s', rewindBitPosition newIx s = .ok s' ∧ s'.ix = newIx ∧ s'.bytes.size = s.bytes.size ∧
      Good s' ∧ s'.bits = s.bits.take newIx := by
  refine ⟨⟨s.bytes.setIfInBounds (newIx / 8) (s.bytes.getD (newIx / 8) 0 % 2 ^ (newIx % 8)), newIx⟩,
    by unfold rewindBitPosition; rw [if_pos hin], rfl, by simp, ⟨?_, by simpa using hsz⟩, ?_⟩
  · show (s.bytes.setIfInBounds _ _).getD (newIx / 8) 0 < _
    rw [getD_set, if_pos ⟨rfl, hin⟩]
    exact Nat.mod_lt _ (Nat.pow_pos (by decide))
  · simp only [Sto.bits]
    rw [← List.map_take, List.take_range, Nat.min_eq_left hle]
    apply List.map_congr_left
    intro i hi
    have hi := List.mem_range.mp hi
    unfold bitAt
    rw [getD_set]
    by_cases hb : newIx / 8 = i / 8
    · rw [if_pos ⟨hb, hin⟩, Nat.testBit_mod_two_pow, hb]
      have : i % 8 < newIx % 8 := by omega
      simp [this]
    · rw [if_neg (by omega)]

theorem copyInto_size : ∀ (data : List Nat) (a : Array Nat) (off : Nat), (copyInto a off data).size = a.size
  | [], _, _ => rfl
  | b :: bs, a, off => by rw [copyInto, copyInto_size bs]; simp

theorem copyInto_get : ∀ (data : List Nat) (a : Array Nat) (off j : Nat), off + data.length ≤ a.size →
    (copyInto a off data).getD j 0 = if off ≤ j ∧ j < off + data.length then data.getD (j - off) 0 else a.getD j 0
  | [], a, off, j, _ => by
    rw [copyInto, if_neg (by simp)]
  | b :: bs, a, off, j, h => by
    simp only [List.length_cons] at h
    rw [copyInto, copyInto_get bs _ (off + 1) j (by simp; omega), getD_set]
    simp only [List.length_cons]
    by_cases h1 : off + 1 ≤ j ∧ j < off + 1 + bs.length
    · rw [if_pos h1, if_pos (by omega)]
      have : j - off = (j - (off + 1)) + 1 := by omega
      rw [this, List.getD_cons_succ]
    · rw [if_neg h1]
      by_cases h2 : off = j
      · subst h2
        rw [if_pos ⟨rfl, by omega⟩, if_pos (by omega)]
        simp
      · rw [if_neg (by omega), if_neg (by omega)]

theorem flatMap_bits_get : ∀ (data : List Nat) (t : Nat), t < 8 * data.length →
    (data.flatMap (bitsOf 8))[t]? = some ((data.getD (t / 8) 0).testBit (t % 8))
  | [], t, h => by simp at h
  | b :: bs, t, h => by
    simp only [List.length_cons] at h
    rw [List.flatMap_cons]
    by_cases ht : t < 8
    · rw [List.getElem?_append_left (by rw [length_bitsOf]; exact ht), bitsOf_eq]
      have e1 : t / 8 = 0 := by omega
      have e2 : t % 8 = t := by omega
      rw [e1, e2]
      simp [ht]
    · rw [List.getElem?_append_right (by rw [length_bitsOf]; omega), length_bitsOf,
        flatMap_bits_get bs (t - 8) (by omega)]
      have e1 : t / 8 = (t - 8) / 8 + 1 := by omega
      have e2 : (t - 8) % 8 = t % 8 := by omega
      rw [e1, e2, List.getD_cons_succ]

theorem alignIx_eq (ix : Nat) (h : ix < 9223372036854775800) : alignIx ix = (ix + 7) / 8 * 8 := by
  unfold alignIx
  rw [ix_mod _ (by omega)]

/-- `EmitUncompressedMetaBlock` (two-pass flavour) on a storage with (W1): it appends exactly the bits of a
stored meta-block — header, zero padding (the unused bits of the partial byte ARE zero by (W1)), the bytes —
and re-establishes (W1) by clearing the byte behind the data.  The bytes behind the header may hold anything
(stale storage): they are overwritten. -/
theorem emitUncompressed_ok (data : List Nat) (s : Sto) (hg : Good s) (h1 : 1 ≤ data.length)
    (h2 : data.length ≤ 2 ^ 24)
    (hr : (s.ix + 28) / 8 + 8 + data.length + 1 ≤ s.bytes.size) :
    ∃ s', emitUncompressedMetaBlock data s = .ok s' ∧ Wr s s' (storedBits data s.ix) := by
  have p24 : (2 : Nat) ^ 24 = 16777216 := by decide
  have hsz := hg.small
  obtain ⟨s1, e1, w1⟩ := storeHeader_ok data.length true s hg h1 h2 (by omega)
  have hn := nibsOf_cases data.length
  have hl1 := hdrBits_length data.length true
  have i1 : s1.ix = s.ix + (4 + 4 * nibsOf data.length) := by rw [w1.ix, hl1]
  have hA := alignIx_eq s1.ix (by omega)
  -- the final storage
  have hsz1 := w1.size
  have hfit : (s1.ix + 7) / 8 * 8 / 8 + data.length ≤ s1.bytes.size := by omega
  have hixm : ((s1.ix + 7) / 8 * 8 + data.length * 8) % two64 = (s1.ix + 7) / 8 * 8 + data.length * 8 :=
    ix_mod _ (by omega)
  have hcs := copyInto_size data s1.bytes ((s1.ix + 7) / 8 * 8 / 8)
  have hE : emitUncompressedMetaBlock data s = .ok
      ⟨(copyInto s1.bytes ((s1.ix + 7) / 8 * 8 / 8) data).setIfInBounds
        (((s1.ix + 7) / 8 * 8 + data.length * 8) / 8) 0, (s1.ix + 7) / 8 * 8 + data.length * 8⟩ := by
    unfold emitUncompressedMetaBlock
    rw [e1, bind_ok']
    simp only [hA, hixm]
    rw [if_neg (by omega), if_pos (by rw [hcs]; omega)]
  obtain ⟨B, hB⟩ : ∃ B, B = (copyInto s1.bytes ((s1.ix + 7) / 8 * 8 / 8) data).setIfInBounds
        (((s1.ix + 7) / 8 * 8 + data.length * 8) / 8) 0 := ⟨_, rfl⟩
  have hget : ∀ j, B.getD j 0 =
      if j = (s1.ix + 7) / 8 + data.length then 0
      else if (s1.ix + 7) / 8 ≤ j ∧ j < (s1.ix + 7) / 8 + data.length then data.getD (j - (s1.ix + 7) / 8) 0
      else s1.bytes.getD j 0 := by
    intro j
    rw [hB, getD_set, hcs, copyInto_get data s1.bytes _ j hfit]
    have ea : (s1.ix + 7) / 8 * 8 / 8 = (s1.ix + 7) / 8 := by omega
    have eb : ((s1.ix + 7) / 8 * 8 + data.length * 8) / 8 = (s1.ix + 7) / 8 + data.length := by omega
    rw [ea, eb]
    by_cases hj : j = (s1.ix + 7) / 8 + data.length
    · rw [if_pos ⟨hj.symm, by omega⟩, if_pos hj]
    · rw [if_neg (by omega), if_neg hj]
  rw [← hB] at hE
  have hBsz : B.size = s1.bytes.size := by rw [hB, Array.size_setIfInBounds, hcs]
  -- one step from `s1`
  have w2 : Wr s1 ⟨B, (s1.ix + 7) / 8 * 8 + data.length * 8⟩
      (padTo8 s1.ix ++ data.flatMap (bitsOf 8)) := by
    have hpl : (padTo8 s1.ix).length = (s1.ix + 7) / 8 * 8 - s1.ix := by
      simp only [padTo8, List.length_replicate]; omega
    have hfl := flatMap_bits_length data
    have hlen : (s1.ix + 7) / 8 * 8 + data.length * 8 = s1.ix + (padTo8 s1.ix ++ data.flatMap (bitsOf 8)).length := by
      rw [List.length_append, hpl, hfl]; omega
    refine ⟨hlen, hBsz, ?_, ⟨?_, by rw [hBsz, hsz1]; exact hsz⟩⟩
    · apply bits_ext _ _ _ hlen
      · intro i hi
        show bitAt B i = _
        unfold bitAt
        rw [hget, if_neg (by omega), if_neg (by omega)]
      · intro t ht
        rw [List.length_append, hpl, hfl] at ht
        show _ = some (bitAt B (s1.ix + t))
        by_cases hp : t < (s1.ix + 7) / 8 * 8 - s1.ix
        · rw [List.getElem?_append_left (by rw [hpl]; exact hp)]
          simp only [padTo8]
          rw [List.getElem?_replicate, if_pos (by omega)]
          unfold bitAt
          rw [hget, if_neg (by omega), if_neg (by omega)]
          have e1 : (s1.ix + t) / 8 = s1.ix / 8 := by omega
          rw [e1]
          congr 1
          symm
          apply Nat.testBit_lt_two_pow
          exact Nat.lt_of_lt_of_le w1.good.clean (Nat.pow_le_pow_right (by decide) (by omega))
        · rw [List.getElem?_append_right (by rw [hpl]; omega), hpl,
            flatMap_bits_get data _ (by omega)]
          unfold bitAt
          rw [hget, if_neg (by omega), if_pos (by omega)]
          congr 2
          · congr 1; omega
          · omega
    · show B.getD (((s1.ix + 7) / 8 * 8 + data.length * 8) / 8) 0 < _
      rw [hget, if_pos (by omega)]
      exact Nat.pow_pos (by decide)
  refine ⟨_, hE, ?_⟩
  have := w1.trans w2
  rw [hdrBits_true] at this
  have hpos : s.ix + (storedHeaderBits data.length).length = s1.ix := by
    rw [← hdrBits_true, hl1, i1]
  simpa [storedBits, hpos, List.append_assoc] using this

/-- the two final bits and the jump to the byte boundary -/
theorem writeLastEmpty_ok (s : Sto) (hg : Good s) (hr : (s.ix + 2) / 8 + 9 ≤ s.bytes.size) :
    ∃ s', writeLastEmpty s = .ok s' ∧ s'.ix = s.ix + (emptyLastBits s.ix).length ∧
      s'.bytes.size = s.bytes.size ∧ s'.bits = s.bits ++ emptyLastBits s.ix := by
  have hsz := hg.small
  obtain ⟨s1, e1, w1⟩ := writeBits_ok 1 1 s hg (by decide) (by decide) (by omega)
  have i1 : s1.ix = s.ix + 1 := by rw [w1.ix, length_bitsOf]
  obtain ⟨s2, e2, w2⟩ := writeBits_ok 1 1 s1 w1.good (by decide) (by decide) (by rw [i1, w1.size]; omega)
  have i2 : s2.ix = s.ix + 2 := by rw [w2.ix, length_bitsOf, i1]
  have hA := alignIx_eq s2.ix (by rw [i2]; omega)
  have hb : bitsOf 1 1 = [true] := by decide
  have w12 := w1.trans w2
  rw [hb] at w12
  have hpl : (padTo8 (s.ix + 2)).length = (s2.ix + 7) / 8 * 8 - s2.ix := by
    simp only [padTo8, List.length_replicate, i2]; omega
  refine ⟨⟨s2.bytes, alignIx s2.ix⟩, ?_, ?_, by simp [w12.size], ?_⟩
  · unfold writeLastEmpty
    rw [e1, bind_ok', e2, bind_ok']
  · show alignIx s2.ix = _
    rw [hA]
    simp only [emptyLastBits, List.length_append, hpl, List.length_cons, List.length_nil]
    omega
  · have hpad : (⟨s2.bytes, alignIx s2.ix⟩ : Sto).bits = s2.bits ++ padTo8 (s.ix + 2) := by
      apply bits_ext
      · show alignIx s2.ix = _
        rw [hA, hpl]; omega
      · intro i _; rfl
      · intro t ht
        rw [hpl] at ht
        simp only [padTo8]
        rw [List.getElem?_replicate, if_pos (by rw [i2] at ht; omega)]
        show some false = some (bitAt s2.bytes (s2.ix + t))
        unfold bitAt
        have e1 : (s2.ix + t) / 8 = s2.ix / 8 := by omega
        rw [e1]
        congr 1
        symm
        apply Nat.testBit_lt_two_pow
        exact Nat.lt_of_lt_of_le w2.good.clean (Nat.pow_le_pow_right (by decide) (by omega))
    rw [hpad, w12.bits]
    simp [emptyLastBits, List.append_assoc]

theorem encodeMlen_nibs (len : Nat) (h1 : 1 ≤ len) (h2 : len ≤ 2 ^ 24) :
    BV.PrefixArith.encodeMlen len = (len - 1, 4 * nibsOf len, nibsOf len - 4) := by
  obtain ⟨e1, e2, e3, e4, e5⟩ := BV.Props.C18.mlen_exact len h1 h2
  have p16 : (2 : Nat) ^ 16 = 65536 := by decide
  have p20 : (2 : Nat) ^ 20 = 1048576 := by decide
  have p24 : (2 : Nat) ^ 24 = 16777216 := by decide
  have q16 : (2 : Nat) ^ (4 * (1 + 3)) = 65536 := by decide
  have q20 : (2 : Nat) ^ (4 * (2 + 3)) = 1048576 := by decide
  generalize BV.PrefixArith.encodeMlen len = m at *
  obtain ⟨a, b, c⟩ := m
  simp only at e1 e2 e3 e4 e5
  have hc : c = nibsOf len - 4 := by
    unfold nibsOf
    rw [p16, p20]
    have hc3 : c = 0 ∨ c = 1 ∨ c = 2 := by omega
    rcases hc3 with rfl | rfl | rfl
    · have : b = 16 := by omega
      rw [this, p16] at e4
      split
      · rfl
      · omega
    · have : b = 20 := by omega
      rw [this, p20] at e4
      have := e5 (by decide)
      rw [q16] at this
      split
      · omega
      · split
        · rfl
        · omega
    · have := e5 (by decide)
      rw [q20] at this
      split
      · omega
      · split
        · omega
        · rfl
  have hn := nibsOf_cases len
  have ha : a = len - 1 := by omega
  have hb : b = 4 * nibsOf len := by omega
  rw [ha, hb, hc]

theorem hdrBits_false (len : Nat) (h1 : 1 ≤ len) (h2 : len ≤ 2 ^ 24) :
    hdrBits len false = headerBits false len := by
  simp [hdrBits, headerBits, encodeMlen_nibs len h1 h2]

end BV.Fragment
