/-
Lemmas about `BV/Model/Stored.lean` (C08): closed form of
`BrotliEncoderMaxCompressedSize`, the chunk header word of
`MakeUncompressedStream`, one iteration of its loop, its length, absence of
panics when the output buffer has the advertised size.
-/
import BV.Model.Stored
import BV.Lemmas.HeaderBits
namespace BV.Stored
open BV.Bits BV.Header BV.Bits.Out

/-! ## the bound -/

theorem maxResult_eq (n : Nat) (hn : n < 2 ^ 64) :
    ∃ t, (t = 3 ∨ t = 4) ∧ (n < 2 ^ 54 → (t = 3 ↔ n < 2 ^ 14)) ∧
      maxResult n = (n + (2 + 4 * (n / 2 ^ 14) + t + 1)) % 2 ^ 64 := by
  simp only [maxResult, lit, litsMax, BV.Gen.lits_MaxCompressedSize, List.getD_cons_zero, List.getD_cons_succ, W64,
    Nat.shiftRight_eq_div_pow, Nat.shiftLeft_eq]
  have h4 : 4 * (n / 2 ^ 14) % 2 ^ 64 = 4 * (n / 2 ^ 14) := by
    apply Nat.mod_eq_of_lt; omega
  rw [h4]
  by_cases ht : (n + 2 ^ 64 - n / 2 ^ 14 * 2 ^ 24 % 2 ^ 64) % 2 ^ 64 > 1 * 2 ^ 20
  · refine ⟨4, Or.inr rfl, ?_, ?_⟩
    · intro h54
      constructor
      · intro h; omega
      · intro h14
        exfalso
        have : n / 2 ^ 14 = 0 := by omega
        rw [this] at ht
        omega
    · simp only [ht, if_true]
      have : (2 + 4 * (n / 2 ^ 14) + 4 + 1) % 2 ^ 64 = 2 + 4 * (n / 2 ^ 14) + 4 + 1 := by
        apply Nat.mod_eq_of_lt; omega
      rw [this]
  · refine ⟨3, Or.inl rfl, ?_, ?_⟩
    · intro h54
      constructor
      · intro _
        by_cases h14 : n < 2 ^ 14
        · exact h14
        · exfalso
          apply ht
          have hm : n / 2 ^ 14 * 2 ^ 24 % 2 ^ 64 = n / 2 ^ 14 * 2 ^ 24 := by
            apply Nat.mod_eq_of_lt; omega
          rw [hm]
          have ha1 : 1 ≤ n / 2 ^ 14 := by omega
          have ha2 : n / 2 ^ 14 < 2 ^ 40 := by omega
          have hlt : n < n / 2 ^ 14 * 2 ^ 24 := by omega
          have hc : n + 2 ^ 64 - n / 2 ^ 14 * 2 ^ 24 < 2 ^ 64 := by omega
          rw [Nat.mod_eq_of_lt hc]
          omega
      · intro _; rfl
    · simp only [ht, if_false]
      have : (2 + 4 * (n / 2 ^ 14) + 3 + 1) % 2 ^ 64 = 2 + 4 * (n / 2 ^ 14) + 3 + 1 := by
        apply Nat.mod_eq_of_lt; omega
      rw [this]

/-! ## chunk headers of `MakeUncompressedStream` -/

/-- chunk length taken by one iteration -/
def chunkOf (size : Nat) : Nat := if size > 2 ^ 24 then 2 ^ 24 else size
/-- MNIBBLES code of a chunk -/
def nibOf (c : Nat) : Nat := if c > 2 ^ 16 then (if c > 2 ^ 20 then 2 else 1) else 0
/-- the 32-bit header word -/
def wordOf (c : Nat) : Nat := nibOf c * 2 + (c - 1) * 8 + 2 ^ (19 + 4 * nibOf c)
/-- header bytes of a chunk -/
def hdrBytes (c : Nat) : List Nat :=
  [wordOf c % 256, wordOf c / 2 ^ 8 % 256, wordOf c / 2 ^ 16 % 256] ++ (if nibOf c = 2 then [wordOf c / 2 ^ 24 % 256] else [])

theorem or_eq_add_shift (a b k : Nat) (h : a < 2 ^ k) : a ||| (b * 2 ^ k) = a + b * 2 ^ k := by
  rw [Nat.or_comm, ← Nat.shiftLeft_eq, ← Nat.shiftLeft_add_eq_or_of_lt h, Nat.add_comm]

theorem chunkHeader_eq (c : Nat) (h1 : 1 ≤ c) (h2 : c ≤ 2 ^ 24) :
    chunkHeader c = (nibOf c, wordOf c) := by
  simp only [chunkHeader, lit, litsMus, BV.Gen.lits_MakeUncompressedStream, List.getD_cons_zero, List.getD_cons_succ,
    nibOf, wordOf]
  have e16 : (1 : Nat) <<< 16 = 2 ^ 16 := by decide
  have e20 : (1 : Nat) <<< 20 = 2 ^ 20 := by decide
  rw [e16, e20]
  have hc : (c + 2 ^ 32 - 1) % 2 ^ 32 = c - 1 := by omega
  rw [hc]
  by_cases h16 : c > 2 ^ 16
  · by_cases h20 : c > 2 ^ 20
    · simp only [h16, h20, if_true]
      refine Prod.ext rfl ?_
      dsimp only
      have a1 : (2 <<< 1) % 2 ^ 32 = 4 := by decide
      have a2 : ((c - 1) <<< 3) % 2 ^ 32 = (c - 1) * 2 ^ 3 := by
        rw [Nat.shiftLeft_eq]; apply Nat.mod_eq_of_lt; omega
      have a3 : (1 <<< ((19 + 4 * 2 % 2 ^ 32) % 2 ^ 32)) % 2 ^ 32 = 1 * 2 ^ 27 := by decide
      rw [a1, a2, a3]
      rw [or_eq_add_shift 4 (c - 1) 3 (by decide)]
      rw [or_eq_add_shift _ 1 27 (by omega)]
    · simp only [h16, h20, if_true, if_false]
      refine Prod.ext rfl ?_
      dsimp only
      have a1 : (1 <<< 1) % 2 ^ 32 = 2 := by decide
      have a2 : ((c - 1) <<< 3) % 2 ^ 32 = (c - 1) * 2 ^ 3 := by
        rw [Nat.shiftLeft_eq]; apply Nat.mod_eq_of_lt; omega
      have a3 : (1 <<< ((19 + 4 * 1 % 2 ^ 32) % 2 ^ 32)) % 2 ^ 32 = 1 * 2 ^ 23 := by decide
      rw [a1, a2, a3]
      rw [or_eq_add_shift 2 (c - 1) 3 (by decide)]
      rw [or_eq_add_shift _ 1 23 (by omega)]
  · have h20 : ¬ c > 2 ^ 20 := by omega
    simp only [h16, if_false]
    refine Prod.ext rfl ?_
    dsimp only
    have a1 : (0 <<< 1) % 2 ^ 32 = 0 := by decide
    have a2 : ((c - 1) <<< 3) % 2 ^ 32 = (c - 1) * 2 ^ 3 := by
      rw [Nat.shiftLeft_eq]; apply Nat.mod_eq_of_lt; omega
    have a3 : (1 <<< ((19 + 4 * 0 % 2 ^ 32) % 2 ^ 32)) % 2 ^ 32 = 1 * 2 ^ 19 := by decide
    rw [a1, a2, a3]
    rw [or_eq_add_shift 0 (c - 1) 3 (by decide)]
    rw [or_eq_add_shift _ 1 19 (by omega)]

/-! ## one iteration of the `while size > 0` loop -/

theorem chunk_eq (size : Nat) :
    (if size > (lit litsMus 12) <<< (lit litsMus 13) then (lit litsMus 14) <<< (lit litsMus 15) else size % 2 ^ 32)
      = chunkOf size := by
  simp only [lit, litsMus, BV.Gen.lits_MakeUncompressedStream, List.getD_cons_zero, List.getD_cons_succ, chunkOf]
  have e : (1 : Nat) <<< 24 = 2 ^ 24 := by decide
  rw [e]
  split
  · rfl
  · apply Nat.mod_eq_of_lt; omega

theorem chunkOf_pos (size : Nat) (h : 0 < size) : 1 ≤ chunkOf size ∧ chunkOf size ≤ size ∧ chunkOf size ≤ 2 ^ 24 := by
  simp only [chunkOf]; split <;> omega

theorem hdrBytes_length (c : Nat) : (hdrBytes c).length = if nibOf c = 2 then 4 else 3 := by
  simp only [hdrBytes]; split <;> simp

theorem push_ok (cap : Nat) (out : List Nat) (v : Nat) (h : out.length < cap) : push cap out v = ok (out ++ [v]) := by
  simp [push, h]

theorem slice_ok (l : List Nat) (a n : Nat) (h : a + n ≤ l.length) : slice l a n = ok ((l.drop a).take n) := by
  simp [slice, h]

/-- one successful iteration -/
theorem musLoop_step (cap : Nat) (input : List Nat) (size offset : Nat) (out : List Nat)
    (hs : 0 < size) (hcap : out.length + (hdrBytes (chunkOf size)).length + chunkOf size ≤ cap)
    (hin : offset + chunkOf size ≤ input.length) :
    musLoop cap input size offset out =
      musLoop cap input (size - chunkOf size) (offset + chunkOf size)
        (out ++ hdrBytes (chunkOf size) ++ (input.drop offset).take (chunkOf size)) := by
  obtain ⟨c1, c2, c3⟩ := chunkOf_pos size hs
  rw [musLoop]
  simp only [hs, dif_pos, chunk_eq, chunkHeader_eq (chunkOf size) c1 c3]
  have hl := hdrBytes_length (chunkOf size)
  simp only [lit, litsMus, BV.Gen.lits_MakeUncompressedStream, List.getD_cons_zero, List.getD_cons_succ,
    Nat.shiftRight_eq_div_pow]
  by_cases hn : nibOf (chunkOf size) = 2
  · rw [hn] at hl
    simp only [if_true] at hl
    rw [push_ok _ _ _ (by omega)]
    simp only [Out.bind]
    rw [push_ok _ _ _ (by simp; omega)]
    simp only []
    rw [push_ok _ _ _ (by simp; omega)]
    simp only [hn, if_true]
    rw [push_ok _ _ _ (by simp; omega)]
    simp only []
    have h1 : ¬ ((out ++ [wordOf (chunkOf size) % 256] ++ [wordOf (chunkOf size) / 2 ^ 8 % 256] ++
        [wordOf (chunkOf size) / 2 ^ 16 % 256] ++ [wordOf (chunkOf size) / 2 ^ 24 % 256]).length + chunkOf size > cap) := by
      simp; omega
    simp only [h1, if_false]
    rw [slice_ok _ _ _ hin]
    simp only []
    have h2 : ¬ (chunkOf size = 0 ∨ chunkOf size > size) := by omega
    simp only [h2, dif_neg, not_false_eq_true]
    simp [hdrBytes, hn]
  · rw [if_neg hn] at hl
    rw [push_ok _ _ _ (by omega)]
    simp only [Out.bind]
    rw [push_ok _ _ _ (by simp; omega)]
    simp only []
    rw [push_ok _ _ _ (by simp; omega)]
    simp only [hn, if_false]
    have h1 : ¬ ((out ++ [wordOf (chunkOf size) % 256] ++ [wordOf (chunkOf size) / 2 ^ 8 % 256] ++
        [wordOf (chunkOf size) / 2 ^ 16 % 256]).length + chunkOf size > cap) := by
      simp; omega
    simp only [h1, if_false]
    rw [slice_ok _ _ _ hin]
    simp only []
    have h2 : ¬ (chunkOf size = 0 ∨ chunkOf size > size) := by omega
    simp only [h2, dif_neg, not_false_eq_true]
    simp [hdrBytes, hn]

theorem musLoop_zero (cap : Nat) (input : List Nat) (offset : Nat) (out : List Nat) :
    musLoop cap input 0 offset out = push cap out 3 := by
  rw [musLoop]; simp [lit, litsMus, BV.Gen.lits_MakeUncompressedStream]

/-- bytes the loop adds for `size` input bytes (headers + payload), without the final `03` -/
def storedBody (size : Nat) : Nat :=
  if h : size > 0 then
    (if nibOf (chunkOf size) = 2 then 4 else 3) + chunkOf size + storedBody (size - chunkOf size)
  else 0
termination_by size
decreasing_by have := chunkOf_pos size h; omega

theorem storedBody_le (size : Nat) : storedBody size ≤ size + 4 * (size / 2 ^ 24) + (if size = 0 then 0 else 4) := by
  induction size using Nat.strongRecOn with
  | _ size ih =>
    rw [storedBody]
    by_cases hs : size > 0
    · simp only [hs, dif_pos]
      obtain ⟨c1, c2, c3⟩ := chunkOf_pos size hs
      have ih' := ih (size - chunkOf size) (by omega)
      by_cases hbig : size > 2 ^ 24
      · have hc : chunkOf size = 2 ^ 24 := by simp [chunkOf, hbig]
        rw [hc] at ih' ⊢
        have : (size - 2 ^ 24) / 2 ^ 24 = size / 2 ^ 24 - 1 := by omega
        rw [this] at ih'
        have hne : ¬ (size - 2 ^ 24 = 0) := by omega
        simp only [hne, if_false] at ih'
        have h1 : 1 ≤ size / 2 ^ 24 := by omega
        split <;> split <;> omega
      · have hc : chunkOf size = size := by simp [chunkOf, hbig]
        rw [hc, Nat.sub_self] at ih' ⊢
        have : storedBody 0 = 0 := by rw [storedBody]; simp
        rw [this]
        split <;> split <;> omega
    · have : size = 0 := by omega
      subst this; simp

theorem storedBody_small (size : Nat) (h0 : 0 < size) (h : size ≤ 2 ^ 16) : storedBody size = size + 3 := by
  rw [storedBody]
  have hc : chunkOf size = size := by simp [chunkOf]; omega
  have hn : nibOf size = 0 := by simp [nibOf]; omega
  simp only [h0, dif_pos, hc, hn, Nat.sub_self]
  have : storedBody 0 = 0 := by rw [storedBody]; simp
  rw [this]; simp; omega

/-- the loop cannot panic, cannot run out of fuel, and produces exactly
`storedBody size + 1` more bytes, when the buffer has room for them and the
input slice is long enough -/
theorem musLoop_ok (cap : Nat) (input : List Nat) :
    ∀ (size offset : Nat) (out : List Nat), offset + size ≤ input.length →
      out.length + storedBody size + 1 ≤ cap →
      ∃ r, musLoop cap input size offset out = ok r ∧ r.length = out.length + storedBody size + 1 := by
  intro size
  induction size using Nat.strongRecOn with
  | _ size ih =>
    intro offset out hin hcap
    by_cases hs : size > 0
    · obtain ⟨c1, c2, c3⟩ := chunkOf_pos size hs
      have hb : storedBody size = (if nibOf (chunkOf size) = 2 then 4 else 3) + chunkOf size
          + storedBody (size - chunkOf size) := by
        rw [storedBody]; simp [hs]
      have hl := hdrBytes_length (chunkOf size)
      rw [musLoop_step cap input size offset out hs (by rw [hl]; omega) (by omega)]
      obtain ⟨r, h1, h2⟩ := ih (size - chunkOf size) (by omega) (offset + chunkOf size)
        (out ++ hdrBytes (chunkOf size) ++ (input.drop offset).take (chunkOf size)) (by omega)
        (by simp [hl]; omega)
      refine ⟨r, h1, ?_⟩
      rw [h2]; simp [hl]; omega
    · have : size = 0 := by omega
      subst this
      have hb : storedBody 0 = 0 := by rw [storedBody]; simp
      rw [musLoop_zero, hb] at *
      rw [push_ok _ _ _ (by omega)]
      exact ⟨_, rfl, by simp⟩

/-! ## the stored stream fits the bound -/

theorem max_closed (n : Nat) (hn : n < 2 ^ 54) :
    maxCompressedSize n = if n = 0 then 17 else if n < 2 ^ 14 then n + 22 else n + 4 * (n / 2 ^ 14) + 23 := by
  obtain ⟨t, ht, h54, hr⟩ := maxResult_eq n (by omega)
  have h54 := h54 hn
  simp only [maxCompressedSize, hr, lit, litsMax, BV.Gen.lits_MaxCompressedSize, List.getD_cons_zero,
    List.getD_cons_succ, W64]
  by_cases h0 : n = 0
  · simp [h0]
  · simp only [h0, if_false]
    have hlt : n + (2 + 4 * (n / 2 ^ 14) + t + 1) < 2 ^ 64 - 16 := by omega
    rw [Nat.mod_eq_of_lt (by omega)]
    have : ¬ (n + (2 + 4 * (n / 2 ^ 14) + t + 1) < n) := by omega
    simp only [this, if_false]
    rw [Nat.mod_eq_of_lt (by omega)]
    by_cases h14 : n < 2 ^ 14
    · have : t = 3 := h54.mpr h14
      simp only [h14, if_true]; omega
    · have : t = 4 := by rcases ht with h | h; exact absurd (h54.mp h) h14; exact h
      simp only [h14, if_false]; omega

theorem mus_fits (x : List Nat) (cap : Nat) (hn : x.length < 2 ^ 54) (hcap : maxCompressedSize x.length ≤ cap) :
    ∃ out, makeUncompressedStream x x.length cap = ok out ∧ out.length ≤ maxCompressedSize x.length ∧
      out.length = if x.length = 0 then 1 else 3 + storedBody x.length := by
  have hm := max_closed x.length hn
  simp only [makeUncompressedStream, lit, litsMus, BV.Gen.lits_MakeUncompressedStream, List.getD_cons_zero,
    List.getD_cons_succ]
  by_cases h0 : x.length = 0
  · have h17 : maxCompressedSize x.length = 17 := by rw [hm]; simp [h0]
    simp only [h0, if_true]
    rw [push_ok _ _ _ (by simp; omega)]
    exact ⟨_, rfl, by rw [← h0, h17]; decide, by simp⟩
  · simp only [h0, if_false] at hm ⊢
    have hb := storedBody_le x.length
    simp only [h0, if_false] at hb
    have hfit : 3 + storedBody x.length ≤ maxCompressedSize x.length := by
      rw [hm]
      by_cases h14 : x.length < 2 ^ 14
      · simp only [h14, if_true]
        rw [storedBody_small _ (by omega) (by omega)]; omega
      · simp only [h14, if_false]
        have : x.length / 2 ^ 24 ≤ x.length / 2 ^ 14 := by omega
        omega
    rw [push_ok _ _ _ (by simp; omega)]
    simp only [Out.bind]
    rw [push_ok _ _ _ (by simp; omega)]
    simp only []
    obtain ⟨r, h1, h2⟩ := musLoop_ok cap x x.length 0 ([] ++ [33] ++ [3]) (by omega) (by simp; omega)
    refine ⟨r, h1, ?_, ?_⟩
    · rw [h2]; simp; omega
    · rw [h2]; simp; omega

/-- a concrete stored stream (non-vacuity) -/
theorem stored_example : makeUncompressedStream [1, 2, 3] 3 (maxCompressedSize 3) = ok [0x21, 0x03, 0x10, 0x00, 0x08, 1, 2, 3, 0x03] := by
  have hm : maxCompressedSize 3 = 25 := by decide
  rw [hm]
  simp only [makeUncompressedStream, lit, litsMus, BV.Gen.lits_MakeUncompressedStream, List.getD_cons_zero,
    List.getD_cons_succ]
  simp only [show ¬ (3 = 0) by decide, if_false]
  rw [push_ok _ _ _ (by decide)]
  simp only [Out.bind]
  rw [push_ok _ _ _ (by decide)]
  simp only []
  rw [musLoop_step _ _ _ _ _ (by decide) (by decide) (by decide)]
  have : 3 - chunkOf 3 = 0 := by decide
  rw [this, musLoop_zero, push_ok _ _ _ (by decide)]
  decide

end BV.Stored
