import BV.Lemmas.StreamSched3
import BV.Lemmas.StreamStore2
import BV.Lemmas.StreamTiny2
namespace BV.Stream
open BV.Bits

/-- the catable prelude's bookkeeping: while the two first bytes have not both been stored
uncompressed, `last_processed_pos_` counts how many were (so the assertion
`last_processed_pos_ < 2` of `encode_data` holds), and the ghost copy of the first input bytes is
complete -/
structure PreOK (s : St) : Prop where
  f2 : s.params.catable = true → s.first2.length = min 3 s.inputPos
  lp0 : s.params.catable = true → (s.isFirstMb = .nothing ∨ s.isFirstMb = .header) → s.lastProcessedPos = 0
  lp1 : s.params.catable = true → s.isFirstMb = .firstCatable → s.lastProcessedPos = 1

/-- … and in the middle of `encode_data`, after the prelude: everything unprocessed but the stored
bytes is about to be processed -/
structure PreMid (s : St) : Prop where
  f2 : s.params.catable = true → s.first2.length = min 3 s.inputPos
  lp0 : s.params.catable = true → (s.isFirstMb = .nothing ∨ s.isFirstMb = .header) → s.lastProcessedPos = 0 ∧ s.inputPos = 0
  lp1 : s.params.catable = true → s.isFirstMb = .firstCatable → s.lastProcessedPos = 1 ∧ s.inputPos = 1

theorem preOK_of_eq {s s' : St} (h : PreOK s) (h1 : s'.params = s.params) (h2 : s'.isFirstMb = s.isFirstMb)
    (h3 : s'.lastProcessedPos = s.lastProcessedPos) (h4 : s'.inputPos = s.inputPos) (h5 : s'.first2 = s.first2) : PreOK s' := by
  refine ⟨?_, ?_, ?_⟩
  · rw [h1, h4, h5]; exact h.f2
  · rw [h1, h2, h3]; exact h.lp0
  · rw [h1, h2, h3]; exact h.lp1

theorem preOK_fresh {s : St} (h : IsFresh s) : PreOK (ensureInitialized s) := by
  obtain ⟨p, rfl⟩ := h
  refine ⟨fun _ => ?_, fun _ _ => ?_, fun _ hh => ?_⟩
  · simp [ensureInitialized, St.new]
  · simp [ensureInitialized, St.new]
  · simp [ensureInitialized, St.new] at hh

/-- **the catable-prelude assertion never fires** and the ghost bytes are there -/
theorem encPrelude_no_panic {s : St} {w : Writer} {hdr bytes : Nat} (hP : PreOK s) (hfl : s.lastFlushPos ≤ s.lastProcessedPos)
    (hlp : s.lastProcessedPos ≤ s.inputPos) (hb : bytes ≤ s.inputPos - s.lastProcessedPos) :
    encPrelude s w hdr bytes ≠ .panic := by
  unfold encPrelude
  split
  · intro h; cases h
  · rename_i hnb
    split
    · intro h; cases h
    · rename_i hcat
      have hc : s.params.catable = true := by simpa using hcat
      split
      · rename_i hbz
        have hf2 := hP.f2 hc
        have hlp2 : s.lastProcessedPos < 2 := by
          cases hfm : s.isFirstMb with
          | nothing => have := hP.lp0 hc (Or.inl hfm); omega
          | header => have := hP.lp0 hc (Or.inr hfm); omega
          | firstCatable => have := hP.lp1 hc hfm; omega
          | bothCatable => exact absurd hfm hnb
        rw [if_neg (by omega)]
        simp only
        have hlen : ¬ ((s.first2.drop s.lastFlushPos).take (min 2 bytes)).length < min 2 bytes := by
          rw [List.length_take, List.length_drop, hf2]
          omega
        rw [if_neg hlen]
        intro h; cases h
      · intro h; cases h

theorem encPrelude_pre {s s' : St} {w w' : Writer} {hdr hdr' bytes : Nat} (hP : PreOK s)
    (hlp : s.lastProcessedPos ≤ s.inputPos) (hb : bytes = s.inputPos - s.lastProcessedPos)
    (h : encPrelude s w hdr bytes = .ok (s', w', hdr')) : PreMid s' := by
  unfold encPrelude at h
  split at h
  · rename_i hb3
    simp only [Out.ok.injEq, Prod.mk.injEq] at h
    obtain ⟨rfl, _, _⟩ := h
    exact ⟨hP.f2, fun _ hh => by rw [hb3] at hh; simp at hh, fun _ hh => by rw [hb3] at hh; simp at hh⟩
  · rename_i hnb
    split at h
    · rename_i hcat
      simp only [Out.ok.injEq, Prod.mk.injEq] at h
      obtain ⟨rfl, _, _⟩ := h
      have hc : s.params.catable = false := by simpa using hcat
      exact ⟨fun hh => by simp [hc] at hh, fun hh => by simp [hc] at hh, fun hh => by simp [hc] at hh⟩
    · rename_i hcat
      have hc : s.params.catable = true := by simpa using hcat
      split at h
      · rename_i hbz
        split at h
        · simp at h
        · simp only at h
          split at h
          · simp at h
          · simp only [Out.ok.injEq, Prod.mk.injEq] at h
            obtain ⟨rfl, _, _⟩ := h
            refine ⟨hP.f2, ?_, ?_⟩
            · intro _ hh
              simp only at hh ⊢
              cases hfm : s.isFirstMb with
              | nothing =>
                have := hP.lp0 hc (Or.inl hfm)
                rw [hfm] at hh
                split at hh
                · simp at hh
                · simp at hh
              | header =>
                have := hP.lp0 hc (Or.inr hfm)
                rw [hfm] at hh
                split at hh
                · simp at hh
                · simp at hh
              | firstCatable =>
                rw [hfm] at hh
                split at hh
                · simp at hh
                · simp at hh
              | bothCatable => exact absurd hfm hnb
            · intro _ hh
              simp only at hh ⊢
              cases hfm : s.isFirstMb with
              | nothing =>
                have := hP.lp0 hc (Or.inl hfm)
                rw [hfm] at hh
                split at hh
                · simp at hh
                · omega
              | header =>
                have := hP.lp0 hc (Or.inr hfm)
                rw [hfm] at hh
                split at hh
                · simp at hh
                · omega
              | firstCatable =>
                rw [hfm] at hh
                split at hh
                · simp at hh
                · simp at hh
              | bothCatable => exact absurd hfm hnb
      · rename_i hbz
        simp only [Out.ok.injEq, Prod.mk.injEq] at h
        obtain ⟨rfl, _, _⟩ := h
        have hz : bytes = 0 := by
          by_cases hh : bytes = 0
          · exact hh
          · exact absurd hh hbz
        refine ⟨hP.f2, fun hcc hh => ?_, fun hcc hh => ?_⟩
        · have := hP.lp0 hcc hh; omega
        · have := hP.lp1 hcc hh; omega


theorem ringInv_block_lt {s : St} {inp : Bytes} (h : RingInv s inp) : s.blockSize < two32 := by
  obtain ⟨h1, _, _⟩ := geom_bounds h.ok.geom
  have := h.ok.geom.tail
  rw [← h.tail]
  unfold two32
  omega

theorem preOK_encMagic {s : St} (w0 : Writer) (h : PreOK s) : PreOK (encMagic s w0).1 := by
  unfold encMagic
  split
  · rename_i hm
    exact ⟨h.f2, fun hc _ => h.lp0 hc (Or.inl hm.1), fun _ hh => by simp at hh⟩
  · exact h

theorem preOK_encEntry {s : St} (il : Bool) (h : PreOK s) : PreOK (encEntry s il) := by
  obtain ⟨f, _, e3, _, _, _, e7, _⟩ := encEntry_fields s il
  rw [St.frame_eq_iff] at f
  exact preOK_of_eq h f.1 e7 e3 f.2.1 f.2.2.2.2.2.2

theorem encPayload_pre {s s' : St} {ans : Ans} {w0 w : Writer} {hdr : Nat} {il ff res : Bool} (hM : PreMid s)
    (h : encPayload s ans w0 w hdr il ff = .ok (s', res)) : PreOK s' := by
  have hk : s'.params = s.params ∧ s'.isFirstMb = s.isFirstMb ∧ s'.inputPos = s.inputPos ∧ s'.first2 = s.first2
      ∧ (s'.lastProcessedPos = s.lastProcessedPos ∨ s'.lastProcessedPos = s.inputPos) := by
    unfold encPayload at h
    simp only at h
    split_all h
    all_goals first
      | (simp at h; done)
      | (simp only [Out.ok.injEq, Prod.mk.injEq] at h; obtain ⟨rfl, _⟩ := h; simp)
  obtain ⟨k1, k2, k3, k4, k5⟩ := hk
  refine ⟨?_, ?_, ?_⟩
  · rw [k1, k3, k4]; exact hM.f2
  · rw [k1, k2]; intro hc hh
    have := hM.lp0 hc hh
    rcases k5 with k5 | k5 <;> rw [k5] <;> omega
  · rw [k1, k2]; intro hc hh
    have := hM.lp1 hc hh
    rcases k5 with k5 | k5 <;> rw [k5] <;> omega

/-- `PreOK` through `encode_data` -/
theorem encodeData_pre {o : Oracle} {s s' : St} {site : Nat} {il ff res : Bool} {req : Req} (hI : Inv s) (hP : PreOK s)
    (hbs : s.blockSize < two32) (h : encodeData o s site il ff = .ok (s', res, req)) : PreOK s' := by
  obtain ⟨_, hc⟩ := encodeData_ok_cases h
  rcases hc with ⟨_, _, rfl⟩ | ⟨_, _, _, rfl⟩ | ⟨_, hle, hrest⟩
  · obtain ⟨f, _, e3, _, _, _, _, _, _, _, e11, _⟩ := encFail_fields s (o s.nEnc (reqOf s site il ff)) false
    rw [St.frame_eq_iff] at f
    exact preOK_of_eq hP f.1 e11 e3 f.2.1 f.2.2.2.2.2.2
  · obtain ⟨f, _, e3, _, _, _, _, _, _, _, e11, _⟩ := encFail_fields s (o s.nEnc (reqOf s site il ff)) il
    rw [St.frame_eq_iff] at f
    exact preOK_of_eq hP f.1 e11 e3 f.2.1 f.2.2.2.2.2.2
  · obtain ⟨s2, w, hdr, hpre3, hpay⟩ := encRest_split hrest
    have hpre : encPrelude (encMagic (encEntry s il) s.carry).1 (encMagic (encEntry s il) s.carry).2.1
        (encMagic (encEntry s il) s.carry).2.2 (s.unprocessed % two32) = .ok (s2, w, hdr) := hpre3
    have hPm := preOK_encMagic s.carry (preOK_encEntry il hP)
    obtain ⟨f1, _, e3, _⟩ := encEntry_fields s il
    obtain ⟨f2, _, m3, _⟩ := encMagic_frame (encEntry s il) s.carry
    rw [St.frame_eq_iff] at f1 f2
    have hu := hI.unprocessed
    have hlp := hI.lp_le
    have hmod : s.unprocessed % two32 = s.unprocessed := Nat.mod_eq_of_lt (by omega)
    have hM : PreMid s2 := by
      refine encPrelude_pre hPm ?_ ?_ hpre
      · rw [m3, e3, f2.2.1, f1.2.1]; exact hlp
      · rw [m3, e3, f2.2.1, f1.2.1, hmod, hu]
    exact encPayload_pre hM hpay

/-- **`encode_data` never panics**: not on `storage_` (`encodeData_panic_only_prelude`) and not in
the catable-prelude assertion -/
theorem encodeData_no_panic {o : Oracle} {s : St} {site : Nat} {il ff : Bool} (hO : OracleOK o) (hsite : site ≠ 2)
    (hI : Inv s) (hl : s.lastBytesBits ≤ 14) (hsmall : s.inputPos < 4611686018427387904) (hP : PreOK s) :
    encodeData o s site il ff ≠ .panic := by
  intro h
  have hp := encodeData_panic_only_prelude hO hsite hI hl hsmall h
  have hPm := preOK_encMagic s.carry (preOK_encEntry il hP)
  obtain ⟨f1, e2, e3, _⟩ := encEntry_fields s il
  obtain ⟨f2, m2, m3, _⟩ := encMagic_frame (encEntry s il) s.carry
  rw [St.frame_eq_iff] at f1 f2
  have hu := hI.unprocessed
  have hb : s.unprocessed % two32 ≤ s.unprocessed := Nat.mod_le _ _
  refine encPrelude_no_panic (w := (encMagic (encEntry s il) s.carry).2.1) (hdr := (encMagic (encEntry s il) s.carry).2.2) hPm ?_ ?_ ?_ hp
  · rw [m2, m3, e2, e3]; exact hI.fl_le
  · rw [m3, e3, f2.2.1, f1.2.1]; exact hI.lp_le
  · rw [m3, e3, f2.2.1, f1.2.1]; omega


/-! ### the carry bound and `PreOK` through every atomic step -/

/-- what the two invariants look at -/
def St.pk (s : St) : Bool × IsFirst × Nat × Nat × Bytes × Nat :=
  (s.params.catable, s.isFirstMb, s.lastProcessedPos, s.inputPos, s.first2, s.lastBytesBits)

def SafeP (s : St) : Prop := s.lastBytesBits ≤ 14 ∧ PreOK s

theorem safeP_of_pk {s s' : St} (h : SafeP s) (hk : s'.pk = s.pk) : SafeP s' := by
  unfold St.pk at hk
  simp only [Prod.mk.injEq] at hk
  obtain ⟨k1, k2, k3, k4, k5, k6⟩ := hk
  refine ⟨by rw [k6]; exact h.1, ?_, ?_, ?_⟩
  · rw [k1, k4, k5]; exact h.2.f2
  · rw [k1, k2, k3]; exact h.2.lp0
  · rw [k1, k2, k3]; exact h.2.lp1

/-- same, when only the carry changed (to something short) -/
theorem safeP_of_pk' {s s' : St} (h : SafeP s) (hl : s'.lastBytesBits ≤ 14)
    (hk : (s'.params.catable, s'.isFirstMb, s'.lastProcessedPos, s'.inputPos, s'.first2)
        = (s.params.catable, s.isFirstMb, s.lastProcessedPos, s.inputPos, s.first2)) : SafeP s' := by
  simp only [Prod.mk.injEq] at hk
  obtain ⟨k1, k2, k3, k4, k5⟩ := hk
  refine ⟨hl, ?_, ?_, ?_⟩
  · rw [k1, k4, k5]; exact h.2.f2
  · rw [k1, k2, k3]; exact h.2.lp0
  · rw [k1, k2, k3]; exact h.2.lp1

theorem pk_updateSizeHint (s : St) (n : Nat) : (updateSizeHint s n).pk = s.pk := by
  by_cases h : s.params.sizeHint = 0 <;> simp [updateSizeHint, St.pk, h]

theorem pk_markAfterEncode (s : St) (il ff : Bool) : (markAfterEncode s il ff).pk = s.pk := by
  unfold markAfterEncode; cases il <;> cases ff <;> rfl

theorem pk_checkFlushComplete (s : St) : (checkFlushComplete s).pk = s.pk := by
  unfold checkFlushComplete; split <;> rfl

theorem pk_mdEnter (s : St) (n : Nat) : (mdEnter s n).pk = s.pk := by
  unfold mdEnter; split <;> rfl

theorem pk_fastStorage (s : St) (ip : Bool) (n : Nat) : (fastStorage s ip n).pk = s.pk := by
  unfold fastStorage growStorage; split
  · rfl
  · split <;> rfl

theorem fastEncode_pk (s : St) (io : Io) (ans : Ans) (req : Req) (bs : Nat) (ip il ff : Bool) :
    (fastEncode s io ans req bs ip il ff).1.lastBytesBits < 8
    ∧ ((fastEncode s io ans req bs ip il ff).1.params.catable, (fastEncode s io ans req bs ip il ff).1.isFirstMb,
        (fastEncode s io ans req bs ip il ff).1.lastProcessedPos, (fastEncode s io ans req bs ip il ff).1.inputPos,
        (fastEncode s io ans req bs ip il ff).1.first2)
      = (s.params.catable, s.isFirstMb, s.lastProcessedPos, s.inputPos, s.first2) := by
  have := (carryOf_lt (bitsOf s.lastBytesBits s.lastBytes ++ ans.bits)).2
  unfold fastEncode
  cases ip
  · exact ⟨this, rfl⟩
  · exact ⟨this, rfl⟩

theorem copy_first2 {s s' : St} {chunk : Bytes} {avail : Nat} (hi : s.isInitialized = true)
    (h : copyInputToRingBuffer s chunk avail = .ok s') :
    s'.first2 = if s.first2.length < 3 ∧ s.inputPos < 3 then (s.first2 ++ chunk).take 3 else s.first2 := by
  unfold copyInputToRingBuffer at h
  rw [ensureInitialized_id hi] at h
  simp only at h
  split at h
  · split at h
    · simp at h
    · simp only [Out.ok.injEq] at h
      rw [← h]
  · simp at h
  · simp at h

theorem copy_safeP {s s' : St} {chunk : Bytes} {avail : Nat} (hi : s.isInitialized = true)
    (hw : s.inputPos + chunk.length < two64) (hS : SafeP s)
    (h : copyInputToRingBuffer s chunk avail = .ok s') : SafeP s' := by
  obtain ⟨c1, c2, _, _, _, _, c7, _, _, _, c11, _, _, _, c15, _⟩ := copy_fields hi h
  have cf := copy_first2 hi h
  rw [Nat.mod_eq_of_lt hw] at c2
  refine ⟨by rw [c11]; exact hS.1, ?_, ?_, ?_⟩
  · rw [c1, c2, cf]
    intro hc
    have := hS.2.f2 hc
    split
    · rw [List.length_take, List.length_append]; omega
    · omega
  · rw [c1, c15, c7]; exact hS.2.lp0
  · rw [c1, c15, c7]; exact hS.2.lp1

theorem encodeData_safeP {o : Oracle} {s s' : St} {site : Nat} {il ff res : Bool} {req : Req} (hI : Inv s) (hS : SafeP s)
    (hbs : s.blockSize < two32) (h : encodeData o s site il ff = .ok (s', res, req)) : SafeP s' := by
  refine ⟨?_, encodeData_pre hI hS.2 hbs h⟩
  rcases encodeData_lbb h with h8 | h8
  · omega
  · rw [h8]; exact hS.1

set_option maxRecDepth 4000 in
/-- **the carry bound and the prelude bookkeeping through every atomic step** -/
theorem step_safeP {o : Oracle} {op : Nat} {s s' : St} {io io' : Io} {e : Ev} (hS : SafeP s)
    (hbs : s.isInitialized = true → s.blockSize < two32)
    (h : Step o op (s, io) e (s', io')) : SafeP s' := by
  cases h with
  | init hf => exact ⟨ensureInitialized_lbb s (isFreshInit hf), preOK_fresh hf⟩
  | copy hI hw hop hnf hst hrm hc hn h =>
    refine copy_safeP hI.init ?_ hS h
    rw [List.length_take]
    have : min (copyN s io) io.input.length ≤ io.availIn := by
      unfold copyN; omega
    omega
  | pad hI hc hz h =>
    obtain ⟨f, _, p3, _, p5, _, p7, _⟩ := pad_frame h
    rw [St.frame_eq_iff] at f
    refine safeP_of_pk' hS (by omega) ?_
    rw [f.1, p7, p3, f.2.1, f.2.2.2.2.2.2]
  | push hI hc h =>
    obtain ⟨f, _, p3, _, _, p6, _⟩ := push_frame h
    rw [St.frame_eq_iff] at f
    have hl : s'.lastBytesBits = s.lastBytesBits := by
      rcases push_shape hc h with rfl | ⟨_, _, h3, _⟩
      · rfl
      · exact h3
    refine safeP_of_pk' hS (by rw [hl]; exact hS.1) ?_
    rw [f.1, p6, p3, f.2.1, f.2.2.2.2.2.2]
  | encSlow hI hop hnf hrm hnc hnp hpend hst hgo h =>
    rename_i s2 req
    have h1 := safeP_of_pk hS (pk_updateSizeHint s io.availIn)
    have hb1 : (updateSizeHint s io.availIn).blockSize < two32 := by
      rw [blockSize_congr (updateSizeHint_fields s io.availIn).1]; exact hbs hI.init
    have h2 := encodeData_safeP (inv_updateSizeHint hI io.availIn) h1 hb1 h
    exact safeP_of_pk h2 (pk_markAfterEncode s2 _ _)
  | cfc hI hop hrm hnp hfl => exact safeP_of_pk hS (pk_checkFlushComplete s)
  | fastFlush hI hfm hrm hnp hpend hst hop1 hz => exact safeP_of_pk hS rfl
  | fastBlock hI hfm hop hrm hnp hpend hst hgo hnf hcap hin hfit =>
    have h1 : SafeP (fastS1 s io) := safeP_of_pk hS (pk_fastStorage s _ _)
    obtain ⟨e1, e2⟩ := fastEncode_pk (fastS1 s io) io (o s.nEnc (fastReq op s io)) (fastReq op s io) (fastBs s io) (fastInplace s io)
        (fastReq op s io).isLast (fastReq op s io).forceFlush
    exact safeP_of_pk' (s' := (fastRes o op s io).1) h1 (by unfold fastRes; omega) e2
  | mdEnter hI hop hentry =>
    exact safeP_of_pk hS ((pk_mdEnter _ _).trans (pk_updateSizeHint s 0))
  | mdEnc hM hop hpend hne h => exact encodeData_safeP hM.inv hS (hbs hM.inv.init) h
  | mdHead hM hop hpend hlf hst hok => exact safeP_of_pk' hS (by simp [mdHeadSt]) rfl
  | mdDone hM hop hpend hlf hst hz => exact safeP_of_pk hS rfl
  | mdOut hM hop hpend hlf hst hnz hao hle => exact safeP_of_pk hS rfl
  | mdTiny hM hop hpend hlf hst hnz hao hle => exact safeP_of_pk hS rfl

end BV.Stream
