/-
`concat_bits`: the whole output of a concatenation as an LSB-first bit string (C03).
-/
import BV.Lemmas.ConcatWhole

namespace BV.Concat
open Outcome BV.Gen

/-- a later member with the facts the concatenator derives from its look-ahead: `wo` window
bits, first meta-block header ends at bit `v`; its own end marker sits on `n` data bits `D`
in its last two bytes -/
structure MemberData where
  m : List Nat
  wo : Nat
  v : Nat
  n : Nat
  D : Nat

/-- look-ahead length of the member -/
abbrev MemberData.la (d : MemberData) : Nat := need (d.m.headD 0)
/-- first whole byte after the first meta-block header -/
abbrev MemberData.src (d : MemberData) : Nat := (d.v + 7) / 8

/-- the member is acceptable behind an output whose header declares `ws` -/
structure MemberOK (ws : Nat) (d : MemberData) : Prop where
  bytes : ∀ y, y ∈ d.m → y < 256
  long : d.la + 1 ≤ d.m.length
  parse : ∃ wsz, parseWindowSize (d.m.take d.la) = ok (some (wsz, d.wo)) ∧ ¬ wsz > (ws &&& NOT_LARGE_WINDOW_FLAG)
  form : ¬ (decide (d.wo = 14)) ≠ (decide ((ws &&& LARGE_WINDOW_FLAG) ≠ 0))
  det : detectVarlenOffset (d.m.take d.la) = ok (some d.v)
  fit : d.src ≤ d.la
  room : d.src + 2 ≤ d.m.length
  marker : ∃ pre a b, d.m = pre ++ [a, b] ∧ Marked (a + (b <<< 8)) d.n d.D

/-- the member's header bits between its window field and `v`, glued behind `nprev mod 8`
kept bits, with the zero padding to the next output byte boundary -/
def gapBits (nprev : Nat) (d : MemberData) : List Bool :=
  ((bytesToBits (d.m.take d.la)).drop d.wo).take (d.v - d.wo) ++
  List.replicate (8 * (((if nprev < 8 then nprev else nprev - 8) + d.v - d.wo + 7) / 8)
    - (if nprev < 8 then nprev else nprev - 8) - (d.v - d.wo)) false

/-- the rest of the member from its first whole byte on, without its end marker -/
def restData (d : MemberData) : List Bool :=
  bytesToBits ((d.m.drop d.src).take ((d.m.drop d.src).length - 2)) ++ bitsOf d.n d.D

/-- what the later members contribute to the output -/
def laterBits : Nat → List MemberData → List Bool
  | _, [] => []
  | nprev, d :: ds => gapBits nprev d ++ restData d ++ laterBits d.n ds

/-- alignment of the last end marker -/
def lastN : Nat → List MemberData → Nat
  | n, [] => n
  | _, d :: ds => lastN d.n ds

/-- state at a member boundary: pass-through, full tail `[a, b]` carrying an end marker on `n`
data bits `D`; `data` = all data bits of the logical output so far -/
structure Boundary (s : State) (acc : List Nat) (n D : Nat) (data : List Bool) : Prop where
  inv : Inv s
  pending : s.new_stream_pending = none
  ws : s.window_size ≠ 0
  len : s.last_bytes_len = 2
  marked : Marked (s.last_bytes.1 + (s.last_bytes.2 <<< 8)) n D
  lo : s.last_bytes.1 < 256
  hi : s.last_bytes.2 < 256
  data : bytesToBits acc ++ bitsOf n D = data

/-- how the members were fed: for each member its input buffers and capacity schedule -/
inductive Fed : List MemberData → List (List (List Nat) × List Nat) → Prop where
  | nil : Fed [] []
  | cons (d : MemberData) (ds : List MemberData) (bufs : List (List Nat)) (caps : List Nat)
      (rest : List (List (List Nat) × List Nat)) (hne : bufs ≠ []) (hfl : bufs.flatten = d.m) (h : Fed ds rest) :
      Fed (d :: ds) ((bufs, caps) :: rest)

theorem marked_fits {T n D : Nat} (h : Marked T n D) (hT : T < 2 ^ 16) : n + 2 ≤ 16 := by
  obtain ⟨_, _, h3, _⟩ := h.bounds
  rcases Nat.lt_or_ge (n + 1) 16 with h16 | h16
  · omega
  · have : 2 ^ 16 ≤ 2 ^ (n + 1) := Nat.pow_le_pow_right (by decide) h16
    omega

theorem tail_of_total (total front held' : List Nat) (body : List Nat) (a b : Nat)
    (h : front ++ held' = total ++ body ++ [a, b]) (hl : held'.length = 2) :
    held' = [a, b] ∧ front = total ++ body := by
  have : front ++ held' = (total ++ body) ++ [a, b] := h
  obtain ⟨e1, e2⟩ := List.append_inj' this (by simp [hl])
  exact ⟨e2, e1⟩

/-- one later member moves the boundary -/
theorem boundary_step (fuel : Nat) (s : State) (acc : List Nat) (n D : Nat) (data : List Bool) (d : MemberData)
    (bufs : List (List Nat)) (caps : List Nat) (R : Run)
    (hB : Boundary s acc n D data) (hok : MemberOK s.window_size d) (hne : bufs ≠ []) (hfl : bufs.flatten = d.m)
    (h : runAll fuel (newBrotliFile s) bufs caps acc = some R) :
    R.code = NEEDS_MORE_INPUT ∧ R.st.window_size = s.window_size ∧
    Boundary R.st R.emitted d.n d.D (data ++ gapBits n d ++ restData d) := by
  obtain ⟨wsz, hparse, hwle⟩ := hok.parse
  obtain ⟨pre, a, b, hm, hmark⟩ := hok.marker
  have hla : d.la ≤ d.m.length := by have := hok.long; omega
  obtain ⟨hcode, hpend, hinv, hws, hlen, G, hcons, hG⟩ :=
    member_step_bits fuel s d.m bufs caps acc R n D wsz d.wo d.v hB.inv hB.pending hB.ws (Or.inr hB.len)
      (by rw [hB.len]; exact marked_fits hB.marked (by
        have h1 := hB.lo; have h2 := hB.hi
        rw [Nat.shiftLeft_eq]; omega))
      hB.marked hla hok.bytes hparse hwle hok.form hok.det hok.fit hne hfl h
  have hlen2 : R.st.last_bytes_len = 2 := by
    have hla_def : d.la = need (d.m.headD 0) := rfl
    rw [hlen]; have := hok.long; omega
  -- the member's tail
  have hsrcpre : d.src ≤ pre.length := by
    have := hok.room
    rw [hm] at this
    simp only [List.length_append, List.length_cons, List.length_nil] at this
    omega
  have hdrop : d.m.drop d.src = pre.drop d.src ++ [a, b] := by
    rw [hm, List.drop_append_of_le_length hsrcpre]
  have hheld : (held R.st).length = 2 := by rw [held_length R.st hpend hinv.len_le, hlen2]
  have hcons' : R.emitted ++ held R.st = (acc ++ G) ++ pre.drop d.src ++ [a, b] := by
    rw [hcons, hdrop]; simp [List.append_assoc]
  obtain ⟨e1, e2⟩ := tail_of_total (acc ++ G) R.emitted (held R.st) (pre.drop d.src) a b hcons' hheld
  rw [held_none R.st hpend, hlen2] at e1
  simp only [List.take_succ_cons, List.take_zero, List.cons.injEq, and_true] at e1
  obtain ⟨ea, eb⟩ := e1
  have ha : a < 256 := hok.bytes a (by rw [hm]; simp)
  have hb : b < 256 := hok.bytes b (by rw [hm]; simp)
  refine ⟨hcode, hws, ⟨hinv, hpend, by rw [hws]; exact hB.ws, hlen2, by rw [ea, eb]; exact hmark,
    by rw [ea]; exact ha, by rw [eb]; exact hb, ?_⟩⟩
  rw [e2, bytesToBits_append, bytesToBits_append, hG, ← hB.data]
  unfold gapBits restData
  have : (d.m.drop d.src).take ((d.m.drop d.src).length - 2) = pre.drop d.src := by
    rw [hdrop]; simp
  rw [this]
  simp only [List.append_assoc]

/-- all later members -/
theorem later_members (fuel : Nat) : ∀ (ds : List MemberData) (rest : List (List (List Nat) × List Nat)),
    Fed ds rest → ∀ (s : State) (acc : List Nat) (n D : Nat) (data : List Bool) (R : Run),
    Boundary s acc n D data → (∀ d, d ∈ ds → MemberOK s.window_size d) →
    concatAll fuel s rest acc = some R →
    R.code = NEEDS_MORE_INPUT ∧ ∃ D', Boundary R.st R.emitted (lastN n ds) D' (data ++ laterBits n ds) := by
  intro ds rest hfed
  induction hfed with
  | nil =>
    intro s acc n D data R hB _ h
    simp only [concatAll, Option.some.injEq] at h
    subst h
    exact ⟨rfl, D, by simpa [lastN, laterBits] using hB⟩
  | cons d ds bufs caps rest hne hfl _ ih =>
    intro s acc n D data R hB hok h
    unfold concatAll at h
    cases hr : runAll fuel (newBrotliFile s) bufs caps acc with
    | none => rw [hr] at h; simp at h
    | some r =>
      rw [hr] at h
      dsimp only at h
      obtain ⟨hcode, hws, hB'⟩ := boundary_step fuel s acc n D data d bufs caps r hB (hok d (by simp)) hne hfl hr
      have hnt : isTerminal r.code = false := by rw [hcode]; rfl
      rw [hnt] at h
      simp only [Bool.false_eq_true, if_false] at h
      obtain ⟨hc, D', hfin⟩ := ih r.st r.emitted d.n d.D _ R hB'
        (fun d' hd' => by rw [hws]; exact hok d' (by simp [hd'])) h
      refine ⟨hc, D', ?_⟩
      simpa [lastN, laterBits, List.append_assoc] using hfin

/-- the first member establishes the first boundary -/
theorem first_boundary (fuel : Nat) (s : State) (m pre : List Nat) (a b n D wsz wo : Nat)
    (bufs : List (List Nat)) (caps : List Nat) (R : Run)
    (hI : Inv s) (hws : s.window_size = 0) (hbytes : ∀ y, y ∈ m → y < 256)
    (hlong : need (m.headD 0) + 1 ≤ m.length)
    (hparse : parseWindowSize (m.take (need (m.headD 0))) = ok (some (wsz, wo)))
    (hm : m = pre ++ [a, b]) (hmark : Marked (a + (b <<< 8)) n D)
    (hne : bufs ≠ []) (hfl : bufs.flatten = m)
    (h : runAll fuel (newBrotliFile s) bufs caps [] = some R) :
    R.code = NEEDS_MORE_INPUT ∧
    R.st.window_size = (wsz ||| (if wo = 14 then LARGE_WINDOW_FLAG else 0)) ∧
    Boundary R.st R.emitted n D (bytesToBits pre ++ bitsOf n D) := by
  obtain ⟨hcons, hcode, hpend, hlen, hinv, hwsR⟩ :=
    first_member_bytes fuel s m bufs caps [] R hI hws (by omega) wsz wo hparse hne hfl h
  have hlen2 : R.st.last_bytes_len = 2 := by rw [hlen]; omega
  have hheld : (held R.st).length = 2 := by rw [held_length R.st hpend hinv.len_le, hlen2]
  have hcons' : R.emitted ++ held R.st = ([] ++ pre) ++ [a, b] := by rw [hcons, hm]; simp
  obtain ⟨e1, e2⟩ := List.append_inj' hcons' (by simp [hheld])
  rw [held_none R.st hpend, hlen2] at e2
  simp only [List.take_succ_cons, List.take_zero, List.cons.injEq, and_true] at e2
  obtain ⟨ea, eb⟩ := e2
  have hw10 : 10 ≤ wsz := by
    have hl : 2 ≤ (m.take (need (m.headD 0))).length := by
      rw [List.length_take]; unfold need at hlong ⊢; split at hlong <;> split <;> omega
    have := parseWindowSize_sat _ hl
    rw [hparse, sat_ok] at this
    exact (this wsz wo rfl).1
  refine ⟨hcode, hwsR, ⟨hinv, hpend, ?_, hlen2, by rw [ea, eb]; exact hmark,
    by rw [ea]; exact hbytes a (by rw [hm]; simp), by rw [eb]; exact hbytes b (by rw [hm]; simp), ?_⟩⟩
  · rw [hwsR]
    have := @Nat.left_le_or wsz (if wo = 14 then LARGE_WINDOW_FLAG else 0)
    omega
  · rw [e1]; simp

/-- `finish` at a boundary: the tail goes out unchanged; the whole output is data ++ marker ++ padding -/
theorem finish_boundary (s : State) (acc : List Nat) (n D : Nat) (data : List Bool) (cap : Nat)
    (hB : Boundary s acc n D data) (hcap : 2 ≤ cap) :
    ∃ st p, finish s cap = ok ⟨st, SUCCESS, 0, p⟩ ∧
      bytesToBits (acc ++ p) = data ++ [true, true] ++ List.replicate (14 - n) false := by
  have hns : s.last_byte_sanitized = false := by
    cases hs : s.last_byte_sanitized with
    | false => rfl
    | true => have := (hB.inv.san hs).1; rw [hB.pending] at this; simp at this
  obtain ⟨st, hst⟩ := finish_passthrough s cap hB.pending hns (Or.inr hB.len) hcap
  refine ⟨st, held s, hst, ?_⟩
  rw [held_none s hB.pending, hB.len, bytesToBits_append, ← hB.data]
  have hT : [s.last_bytes.1, s.last_bytes.2].take 2
      = [(s.last_bytes.1 + (s.last_bytes.2 <<< 8)) % 256, (s.last_bytes.1 + (s.last_bytes.2 <<< 8)) / 256] := by
    have h1 := hB.lo
    rw [Nat.shiftLeft_eq]
    simp only [List.take_succ_cons, List.take_zero]
    congr 1
    · omega
    · congr 1; omega
  have hn16 : n + 2 ≤ 16 := marked_fits hB.marked (by
    have h1 := hB.lo; have h2 := hB.hi
    rw [Nat.shiftLeft_eq]; omega)
  rw [hT, bits_le2, hB.marked.bits 16 hn16]
  have : 16 - n - 2 = 14 - n := by omega
  simp [List.append_assoc, this]

end BV.Concat
