/-
`concat_bits`: the whole output of a concatenation as an LSB-first bit string (C03).
-/
import BV.Lemmas.ConcatWhole

namespace BV.Concat
open Outcome BV.Gen

/-- a later member with the facts the concatenator derives from its look-ahead: `wo` window
bits, first meta-block header ends at bit `v`; its own end marker sits on `n` data bits `D`
in its last two bytes -/
structure MemberData where
  m : List Nat
  wo : Nat
  v : Nat
  n : Nat
  D : Nat

/-- look-ahead length of the member -/
def MemberData.la (d : MemberData) : Nat := need (d.m.headD 0)
/-- first whole byte after the first meta-block header -/
def MemberData.src (d : MemberData) : Nat := (d.v + 7) / 8

/-- the member is acceptable behind an output whose header declares `ws` -/
structure MemberOK (ws : Nat) (d : MemberData) : Prop where
  bytes : ∀ y, y ∈ d.m → y < 256
  long : d.la + 1 ≤ d.m.length
  parse : ∃ wsz, parseWindowSize (d.m.take d.la) = ok (some (wsz, d.wo)) ∧ ¬ wsz > (ws &&& NOT_LARGE_WINDOW_FLAG)
  form : ¬ (decide (d.wo = 14)) ≠ (decide ((ws &&& LARGE_WINDOW_FLAG) ≠ 0))
  det : detectVarlenOffset (d.m.take d.la) = ok (some d.v)
  fit : d.src ≤ d.la
  room : d.src + 2 ≤ d.m.length
  marker : ∃ pre a b, d.m = pre ++ [a, b] ∧ Marked (a + (b <<< 8)) d.n d.D

/-- the member's header bits between its window field and `v`, glued behind `nprev mod 8`
kept bits, with the zero padding to the next output byte boundary -/
def gapBits (nprev : Nat) (d : MemberData) : List Bool :=
  ((bytesToBits (d.m.take d.la)).drop d.wo).take (d.v - d.wo) ++
  List.replicate (8 * (((if nprev < 8 then nprev else nprev - 8) + d.v - d.wo + 7) / 8)
    - (if nprev < 8 then nprev else nprev - 8) - (d.v - d.wo)) false

/-- the rest of the member from its first whole byte on, without its end marker -/
def restData (d : MemberData) : List Bool :=
  bytesToBits ((d.m.drop d.src).dropLast 2) ++ bitsOf d.n d.D

/-- what the later members contribute to the output -/
def laterBits : Nat → List MemberData → List Bool
  | _, [] => []
  | nprev, d :: ds => gapBits nprev d ++ restData d ++ laterBits d.n ds

/-- alignment of the last end marker -/
def lastN : Nat → List MemberData → Nat
  | n, [] => n
  | _, d :: ds => lastN d.n ds

/-- state at a member boundary: pass-through, full tail `[a, b]` carrying an end marker on `n`
data bits `D`; `data` = all data bits of the logical output so far -/
structure Boundary (s : State) (acc : List Nat) (n D : Nat) (data : List Bool) : Prop where
  inv : Inv s
  pending : s.new_stream_pending = none
  ws : s.window_size ≠ 0
  len : s.last_bytes_len = 2
  marked : Marked (s.last_bytes.1 + (s.last_bytes.2 <<< 8)) n D
  lo : s.last_bytes.1 < 256
  hi : s.last_bytes.2 < 256
  data : bytesToBits acc ++ bitsOf n D = data

/-- how the members were fed: for each member its input buffers and capacity schedule -/
inductive Fed : List MemberData → List (List (List Nat) × List Nat) → Prop where
  | nil : Fed [] []
  | cons (d : MemberData) (ds : List MemberData) (bufs : List (List Nat)) (caps : List Nat)
      (rest : List (List (List Nat) × List Nat)) (hne : bufs ≠ []) (hfl : bufs.flatten = d.m) (h : Fed ds rest) :
      Fed (d :: ds) ((bufs, caps) :: rest)

theorem tail_of_total (total front held' : List Nat) (body : List Nat) (a b : Nat)
    (h : front ++ held' = total ++ body ++ [a, b]) (hl : held'.length = 2) :
    held' = [a, b] ∧ front = total ++ body := by
  have : front ++ held' = (total ++ body) ++ [a, b] := h
  obtain ⟨e1, e2⟩ := List.append_inj' this (by simp [hl])
  exact ⟨e2, e1⟩

/-- one later member moves the boundary -/
theorem boundary_step (fuel : Nat) (s : State) (acc : List Nat) (n D : Nat) (data : List Bool) (d : MemberData)
    (bufs : List (List Nat)) (caps : List Nat) (R : Run)
    (hB : Boundary s acc n D data) (hok : MemberOK s.window_size d) (hne : bufs ≠ []) (hfl : bufs.flatten = d.m)
    (h : runAll fuel (newBrotliFile s) bufs caps acc = some R) :
    R.code = NEEDS_MORE_INPUT ∧ R.st.window_size = s.window_size ∧
    Boundary R.st R.emitted d.n d.D (data ++ gapBits n d ++ restData d) := by
  obtain ⟨wsz, hparse, hwle⟩ := hok.parse
  obtain ⟨pre, a, b, hm, hmark⟩ := hok.marker
  have hla : d.la ≤ d.m.length := by have := hok.long; omega
  obtain ⟨hcode, hpend, hinv, hws, hlen, G, hcons, hG⟩ :=
    member_step_bits fuel s d.m bufs caps acc R n D wsz d.wo d.v hB.inv hB.pending hB.ws (Or.inr hB.len)
      (by rw [hB.len]; have := hB.marked.bounds; have := hB.marked.lt; exact marked_fits hB.marked (by
        have h1 := hB.lo; have h2 := hB.hi
        rw [Nat.shiftLeft_eq]; omega))
      hB.marked hla hok.bytes hparse hwle hok.form hok.det hok.fit hne hfl h
  have hlen2 : R.st.last_bytes_len = 2 := by
    rw [hlen]; have := hok.long; unfold MemberData.la at this; omega
  -- the member's tail
  have hsrcpre : d.src ≤ pre.length := by
    have := hok.room
    rw [hm] at this
    simp only [List.length_append, List.length_cons, List.length_nil] at this
    omega
  have hdrop : d.m.drop d.src = pre.drop d.src ++ [a, b] := by
    rw [hm, List.drop_append_of_le_length hsrcpre]
  have hheld : (held R.st).length = 2 := by rw [held_length R.st hpend hinv.len_le, hlen2]
  have hcons' : R.emitted ++ held R.st = (acc ++ G) ++ pre.drop d.src ++ [a, b] := by
    rw [hcons]; unfold MemberData.src at hdrop; rw [hdrop]; simp [List.append_assoc]
  obtain ⟨e1, e2⟩ := tail_of_total (acc ++ G) R.emitted (held R.st) (pre.drop d.src) a b hcons' hheld
  rw [held_none R.st hpend, hlen2] at e1
  simp only [List.take_succ_cons, List.take_zero, List.cons.injEq, and_true] at e1
  obtain ⟨ea, eb⟩ := e1
  have ha : a < 256 := hok.bytes a (by rw [hm]; simp)
  have hb : b < 256 := hok.bytes b (by rw [hm]; simp)
  refine ⟨hcode, hws, ⟨hinv, hpend, by rw [hws]; exact hB.ws, hlen2, by rw [ea, eb]; exact hmark,
    by rw [ea]; exact ha, by rw [eb]; exact hb, ?_⟩⟩
  rw [e2, bytesToBits_append, bytesToBits_append, hG, ← hB.data]
  unfold gapBits restData MemberData.la MemberData.src
  have : (d.m.drop ((d.v + 7) / 8)).dropLast 2 = pre.drop ((d.v + 7) / 8) := by
    unfold MemberData.src at hdrop
    rw [hdrop]; simp
  rw [this]
  simp [List.append_assoc]

end BV.Concat
