/-
Lemmas for C17 part 7: the simple prefix code forms (NSYM = 1..4) written by
`StoreSimpleHuffmanTree` / the fast builder are read back by the RFC 7932 §3.4 reader.
-/
import BV.Lemmas.HuffmanEntry
import BV.Lemmas.HuffmanStoreRead
import BV.Lemmas.HuffmanOptRle

namespace BV.Lemmas.HuffmanSimple
open BV.Bits BV.Huffman BV.Lemmas.HuffmanCanon BV.Lemmas.HuffmanRead BV.Lemmas.HuffmanStoreRead
open BV.Lemmas.HuffmanCreate BV.Lemmas.HuffmanMerge BV.Lemmas.HuffmanOptRle

def omap {α β : Type} (f : α → β) : Out α → Out β
  | .ok a => .ok (f a)
  | .panic => .panic
  | .fuel => .fuel

theorem getAt_map (g : Nat → Nat) (l : List Nat) (j : Nat) :
    getAt (l.map g) j = omap g (getAt l j) := by
  simp only [getAt, List.getElem?_map]
  cases l[j]? <;> rfl

theorem setAt_map (g : Nat → Nat) (l : List Nat) (j x : Nat) :
    setAt (l.map g) j (g x) = omap (List.map g) (setAt l j x) := by
  simp only [setAt, List.length_map]
  split
  · simp [omap, List.map_set]
  · rfl

/-- the exchange sort only compares keys: run on positions `π` with the key list, it does
what it does on the symbols `π.map g` with the depth array -/
theorem sortInner_natural (depths keys : List Nat) (g : Nat → Nat) (i : Nat)
    (hk : ∀ k, k < 4 → getAt depths (g k) = getAt keys k) :
    ∀ (c j : Nat) (π : List Nat), (∀ x ∈ π, x < 4) →
    sortSymbolsInner depths i c j (π.map g) = omap (List.map g) (sortSymbolsInner keys i c j π) := by
  intro c
  induction c with
  | zero => intro j π _; rfl
  | succ c ih =>
    intro j π hπ
    simp only [sortSymbolsInner, getAt_map]
    cases hj : getAt π j with
    | panic => rfl
    | fuel => rfl
    | ok pj =>
    cases hi : getAt π i with
    | panic => rfl
    | fuel => rfl
    | ok pi =>
    have hpj : pj < 4 := hπ pj (getAt_ok hj).2.2
    have hpi : pi < 4 := hπ pi (getAt_ok hi).2.2
    simp only [omap, Out.bind_ok, hk pj hpj, hk pi hpi]
    cases getAt keys pj with
    | panic => rfl
    | fuel => rfl
    | ok dj =>
    cases getAt keys pi with
    | panic => rfl
    | fuel => rfl
    | ok di =>
    simp only [Out.bind_ok]
    by_cases hlt : dj < di
    · simp only [hlt, ↓reduceIte, setAt_map]
      cases hs1 : setAt π j pi with
      | panic => rfl
      | fuel => rfl
      | ok π1 =>
        simp only [omap, Out.bind_ok, setAt_map]
        cases hs2 : setAt π1 i pj with
        | panic => rfl
        | fuel => rfl
        | ok π2 =>
          simp only [omap, Out.bind_ok]
          apply ih (j + 1) π2
          intro x hx
          have e1 : π1 = π.set j pi := by
            unfold setAt at hs1; split at hs1
            · injection hs1 with h; exact h.symm
            · cases hs1
          have e2 : π2 = π1.set i pj := by
            unfold setAt at hs2; split at hs2
            · injection hs2 with h; exact h.symm
            · cases hs2
          rw [e2] at hx
          rcases List.mem_or_eq_of_mem_set hx with h | h
          · rw [e1] at h
            rcases List.mem_or_eq_of_mem_set h with h' | h'
            · exact hπ x h'
            · rw [h']; exact hpi
          · rw [h]; exact hpj
    · simp only [hlt, ↓reduceIte, Out.bind_ok]
      exact ih (j + 1) π hπ


theorem sortInner_mem (keys : List Nat) (i : Nat) : ∀ (c j : Nat) (π π' : List Nat),
    sortSymbolsInner keys i c j π = .ok π' → π'.length = π.length ∧ ∀ x ∈ π', x ∈ π := by
  intro c
  induction c with
  | zero => intro j π π' h; simp only [sortSymbolsInner] at h; injection h with h; subst h; simp
  | succ c ih =>
    intro j π π' h
    simp only [sortSymbolsInner] at h
    cases hj : getAt π j with
    | panic => rw [hj] at h; cases h
    | fuel => rw [hj] at h; cases h
    | ok pj =>
    cases hi : getAt π i with
    | panic => rw [hj, hi] at h; cases h
    | fuel => rw [hj, hi] at h; cases h
    | ok pi =>
    rw [hj, hi] at h
    simp only [Out.bind_ok] at h
    cases hdj : getAt keys pj with
    | panic => rw [hdj] at h; cases h
    | fuel => rw [hdj] at h; cases h
    | ok dj =>
    cases hdi : getAt keys pi with
    | panic => rw [hdj, hdi] at h; cases h
    | fuel => rw [hdj, hdi] at h; cases h
    | ok di =>
    rw [hdj, hdi] at h
    simp only [Out.bind_ok] at h
    by_cases hlt : dj < di
    · simp only [hlt, ↓reduceIte] at h
      cases hs1 : setAt π j pi with
      | panic => rw [hs1] at h; cases h
      | fuel => rw [hs1] at h; cases h
      | ok π1 =>
        rw [hs1] at h
        simp only [Out.bind_ok] at h
        cases hs2 : setAt π1 i pj with
        | panic => rw [hs2] at h; cases h
        | fuel => rw [hs2] at h; cases h
        | ok π2 =>
          rw [hs2] at h
          simp only [Out.bind_ok] at h
          obtain ⟨_, e1⟩ := setAt_ok hs1
          obtain ⟨_, e2⟩ := setAt_ok hs2
          obtain ⟨hl, hm⟩ := ih (j + 1) π2 π' h
          refine ⟨by rw [hl, e2, e1]; simp, ?_⟩
          intro x hx
          have := hm x hx
          rw [e2] at this
          rcases List.mem_or_eq_of_mem_set this with h' | h'
          · rw [e1] at h'
            rcases List.mem_or_eq_of_mem_set h' with h'' | h''
            · exact h''
            · rw [h'']; exact (getAt_ok hi).2.2
          · rw [h']; exact (getAt_ok hj).2.2
    · simp only [hlt, ↓reduceIte, Out.bind_ok] at h
      exact ih (j + 1) π π' h

theorem sortOuter_natural (depths keys : List Nat) (g : Nat → Nat) (n : Nat)
    (hk : ∀ k, k < 4 → getAt depths (g k) = getAt keys k) :
    ∀ (c i : Nat) (π : List Nat), (∀ x ∈ π, x < 4) →
    sortSymbolsOuter depths n c i (π.map g) = omap (List.map g) (sortSymbolsOuter keys n c i π) := by
  intro c
  induction c with
  | zero => intro i π _; rfl
  | succ c ih =>
    intro i π hπ
    simp only [sortSymbolsOuter, sortInner_natural depths keys g i hk _ _ π hπ]
    cases hs : sortSymbolsInner keys i (n - (i + 1)) (i + 1) π with
    | panic => rfl
    | fuel => rfl
    | ok π1 =>
      simp only [omap, Out.bind_ok]
      exact ih (i + 1) π1 (fun x hx => hπ x ((sortInner_mem keys i _ _ π π1 hs).2 x hx))

/-! ### what the sort does on every possible key pattern (kernel-checked) -/

/-- code space of a key -/
def kterm (k : Nat) : Nat := if k = 0 then 0 else 2 ^ (15 - k)

/-- the lengths the RFC reader gives to the symbols of a simple code, in the order
they are listed (`sel` = the tree-select bit, only read for NSYM = 4) -/
def simplePattern (n : Nat) (sel : Bool) : List Nat :=
  if n = 2 then [1, 1] else if n = 3 then [1, 2, 2] else if sel then [1, 2, 3, 3] else [2, 2, 2, 2]

/-- Bool checker: the sort of positions `[0,1,2,3]` by the keys `ks` permutes the first
`n` positions, leaves the others, and lists the keys in the order of the RFC pattern
selected by `key of the first = 1` -/
def chkSort (ks : List Nat) (n : Nat) : Bool :=
  match sortSymbolsOuter ks n n 0 [0, 1, 2, 3] with
  | .ok p =>
    decide ((p.take n).Perm (List.range n)) && decide (p.length = 4) &&
    decide ((p.take n).map (fun k => ks.getD k 0)
      = simplePattern n (decide (ks.getD (p.getD 0 0) 0 = 1)))
  | _ => false

theorem chkSort_spec (ks : List Nat) (n : Nat) (h : chkSort ks n = true) :
    ∃ p, sortSymbolsOuter ks n n 0 [0, 1, 2, 3] = .ok p ∧ (p.take n).Perm (List.range n) ∧
      p.length = 4 ∧
      (p.take n).map (fun k => ks.getD k 0) = simplePattern n (decide (ks.getD (p.getD 0 0) 0 = 1)) := by
  unfold chkSort at h
  split at h
  · rename_i p hp
    simp only [Bool.and_eq_true, decide_eq_true_eq] at h
    exact ⟨p, hp, h.1.1, h.1.2, h.2⟩
  · cases h

theorem sort2_fact : ∀ y z : Fin 16, chkSort [1, 1, y.val, z.val] 2 = true := by decide

theorem sort3_fact : ∀ a b c : Fin 3, a.val ≠ 0 → b.val ≠ 0 → c.val ≠ 0 →
    kterm a.val + kterm b.val + kterm c.val = 32768 →
    ∀ z : Fin 16, chkSort [a.val, b.val, c.val, z.val] 3 = true := by
  decide

theorem sort4_fact : ∀ a b c d : Fin 4, a.val ≠ 0 → b.val ≠ 0 → c.val ≠ 0 → d.val ≠ 0 →
    kterm a.val + kterm b.val + kterm c.val + kterm d.val = 32768 →
    chkSort [a.val, b.val, c.val, d.val] 4 = true := by
  decide


/-! ### the bits of a simple code and the reader -/

/-- the bits after the 4-bit head of a simple code with `n` symbols -/
def simpleBody (n w s0 s1 s2 s3 : Nat) (sel : Bool) : List Bool :=
  bitsOf w s0 ++ (bitsOf w s1 ++
    (if n = 2 then [] else bitsOf w s2 ++
      (if n = 3 then [] else bitsOf w s3 ++ bitsOf 1 (if sel then 1 else 0))))

theorem storeSimpleTail_spec (d : List Nat) (n w s0 s1 s2 s3 d0 : Nat) (wr : Writer)
    (hn : n = 2 ∨ n = 3 ∨ n = 4) (hw : w ≤ 56)
    (h0 : s0 < 2 ^ w) (h1 : s1 < 2 ^ w) (h2 : s2 < 2 ^ w) (h3 : s3 < 2 ^ w)
    (hd0 : getAt d s0 = .ok d0) :
    storeSimpleTail d [s0, s1, s2, s3] n w wr
      = .ok (wr ++ simpleBody n w s0 s1 s2 s3 (decide (d0 = 1))) := by
  have hwm : w % 256 = w := Nat.mod_eq_of_lt (by omega)
  unfold storeSimpleTail simpleBody
  simp only [hwm, getAt, List.getElem?_cons_zero, List.getElem?_cons_succ, Out.bind_ok,
    writeBits_ok w s0 _ h0 hw, writeBits_ok w s1 _ h1 hw]
  rcases hn with rfl | rfl | rfl
  · simp
  · simp only [show ¬ (3 = 2) by decide, ↓reduceIte, Out.bind_ok, writeBits_ok w s2 _ h2 hw]
    simp
  · simp only [show ¬ (4 = 2) by decide, show ¬ (4 = 3) by decide, ↓reduceIte, Out.bind_ok,
      writeBits_ok w s2 _ h2 hw, writeBits_ok w s3 _ h3 hw]
    unfold getAt at hd0
    rw [hd0]
    simp only [Out.bind_ok]
    by_cases h : d0 = 1
    · simp [h, writeBits_ok 1 1 _ (by decide) (by decide)]
    · simp [h, writeBits_ok 1 0 _ (by decide) (by decide)]

theorem readSimple_spec (A n s0 s1 s2 s3 : Nat) (sel : Bool) (rest : List Bool)
    (hn : n = 2 ∨ n = 3 ∨ n = 4)
    (h0 : s0 < 2 ^ alphabetBits A) (h1 : s1 < 2 ^ alphabetBits A) (h2 : s2 < 2 ^ alphabetBits A)
    (h3 : s3 < 2 ^ alphabetBits A) :
    readPrefixCode A (bitsOf 2 1 ++ (bitsOf 2 (n - 1) ++
        (simpleBody n (alphabetBits A) s0 s1 s2 s3 sel ++ rest)))
      = some (placeLens A ([s0, s1, s2, s3].take n) (simplePattern n sel), rest) := by
  unfold readPrefixCode simpleBody
  rw [takeBits_bitsOf 2 1 _ (by decide)]
  simp only [Option.bind_eq_bind, Option.bind_some, ↓reduceIte]
  rcases hn with rfl | rfl | rfl
  · rw [takeBits_bitsOf 2 1 _ (by decide)]
    simp only [Option.bind_some, ↓reduceIte, List.append_assoc, List.nil_append]
    rw [takeBits_bitsOf _ s0 _ h0]
    simp only [Option.bind_some, show ¬ (1 = 0) by decide, ↓reduceIte]
    rw [takeBits_bitsOf _ s1 _ h1]
    simp [simplePattern]
  · rw [takeBits_bitsOf 2 2 _ (by decide)]
    simp only [Option.bind_some, show ¬ (3 = 2) by decide, ↓reduceIte, List.append_assoc,
      List.nil_append]
    rw [takeBits_bitsOf _ s0 _ h0]
    simp only [Option.bind_some, show ¬ (2 = 0) by decide, ↓reduceIte]
    rw [takeBits_bitsOf _ s1 _ h1]
    simp only [Option.bind_some, show ¬ (2 = 1) by decide, ↓reduceIte]
    rw [takeBits_bitsOf _ s2 _ h2]
    simp [simplePattern]
  · rw [takeBits_bitsOf 2 3 _ (by decide)]
    simp only [Option.bind_some, show ¬ (4 = 2) by decide, show ¬ (4 = 3) by decide, ↓reduceIte,
      List.append_assoc]
    rw [takeBits_bitsOf _ s0 _ h0]
    simp only [Option.bind_some, show ¬ (3 = 0) by decide, ↓reduceIte]
    rw [takeBits_bitsOf _ s1 _ h1]
    simp only [Option.bind_some, show ¬ (3 = 1) by decide, ↓reduceIte]
    rw [takeBits_bitsOf _ s2 _ h2]
    simp only [Option.bind_some, show ¬ (3 = 2) by decide, ↓reduceIte]
    rw [takeBits_bitsOf _ s3 _ h3]
    simp only [Option.bind_some]
    cases sel
    · simp only [Bool.false_eq_true, ↓reduceIte]
      rw [takeBits_bitsOf 1 0 _ (by decide)]
      simp [simplePattern]
    · simp only [↓reduceIte]
      rw [takeBits_bitsOf 1 1 _ (by decide)]
      simp [simplePattern]

/-- the vector the reader builds: length `A`, `f x` at the listed symbols, 0 elsewhere -/
theorem placeLens_spec (A : Nat) (f : Nat → Nat) : ∀ (S : List Nat), (∀ s ∈ S, s < A) →
    (placeLens A S (S.map f)).length = A ∧
      ∀ x, (placeLens A S (S.map f)).getD x 0 = if x ∈ S then f x else 0 := by
  intro S
  induction S with
  | nil =>
    intro _
    refine ⟨by simp [placeLens], fun x => ?_⟩
    simp only [List.map_nil, placeLens, List.not_mem_nil, ↓reduceIte]
    exact replicate_getD A x
  | cons s S ih =>
    intro hlt
    obtain ⟨h1, h2⟩ := ih (fun x hx => hlt x (List.mem_cons_of_mem _ hx))
    have hs := hlt s (by simp)
    simp only [List.map_cons, placeLens]
    refine ⟨by simp [h1], fun x => ?_⟩
    rw [getD_set _ _ _ _ (by rw [h1]; exact hs), h2 x]
    by_cases hsx : s = x
    · subst hsx; simp
    · have : ¬ x = s := fun h => hsx h.symm
      simp [hsx, this]


theorem ext_getD (l1 l2 : List Nat) (hl : l1.length = l2.length)
    (h : ∀ x, l1.getD x 0 = l2.getD x 0) : l1 = l2 := by
  apply List.ext_getElem?
  intro x
  by_cases hx : x < l1.length
  · have := h x
    rw [List.getD_eq_getElem?_getD, List.getD_eq_getElem?_getD, List.getElem?_eq_getElem hx,
      List.getElem?_eq_getElem (by omega)] at this
    rw [List.getElem?_eq_getElem hx, List.getElem?_eq_getElem (by omega)]
    simpa using this
  · rw [List.getElem?_eq_none (by omega), List.getElem?_eq_none (by omega)]

/-- symbols `[a0..a3]`, of which the first `n` are the used ones; `d` the depth array.
Whatever order the exchange sort leaves them in, the simple description is read
back as: `d[x]` at the used symbols, 0 elsewhere. -/
theorem simple_core (d : List Nat) (A n : Nat) (a0 a1 a2 a3 k0 k1 k2 k3 : Nat) (wr rest : List Bool)
    (hn : n = 2 ∨ n = 3 ∨ n = 4) (hw : alphabetBits A ≤ 56)
    (hk0 : getAt d a0 = .ok k0) (hk1 : getAt d a1 = .ok k1) (hk2 : getAt d a2 = .ok k2)
    (hk3 : getAt d a3 = .ok k3) (hchk : chkSort [k0, k1, k2, k3] n = true)
    (hb : ∀ a ∈ [a0, a1, a2, a3], a < 2 ^ alphabetBits A)
    (hA : ∀ a ∈ [a0, a1, a2, a3].take n, a < A) :
    ∃ bits V, storeSimpleHuffmanTree d [a0, a1, a2, a3] n (alphabetBits A) wr = .ok (wr ++ bits) ∧
      readPrefixCode A (bits ++ rest) = some (V, rest) ∧ V.length = A ∧
      ∀ x, V.getD x 0 = if x ∈ [a0, a1, a2, a3].take n then d.getD x 0 else 0 := by
  obtain ⟨p, hp, hperm, hplen, hpat⟩ := chkSort_spec _ n hchk
  let g : Nat → Nat := fun k => [a0, a1, a2, a3].getD k 0
  have hg : [a0, a1, a2, a3] = [0, 1, 2, 3].map g := by simp [g]
  have hkeys : ∀ k, k < 4 → getAt d (g k) = getAt [k0, k1, k2, k3] k := by
    intro k hk
    have : k = 0 ∨ k = 1 ∨ k = 2 ∨ k = 3 := by omega
    rcases this with rfl | rfl | rfl | rfl
    · show getAt d a0 = _; rw [hk0]; rfl
    · show getAt d a1 = _; rw [hk1]; rfl
    · show getAt d a2 = _; rw [hk2]; rfl
    · show getAt d a3 = _; rw [hk3]; rfl
  have hsort := sortOuter_natural d [k0, k1, k2, k3] g n hkeys n 0 [0, 1, 2, 3] (by decide)
  rw [← hg, hp] at hsort
  simp only [omap] at hsort
  -- the sorted symbols
  obtain ⟨p0, p1, p2, p3, rfl⟩ : ∃ p0 p1 p2 p3, p = [p0, p1, p2, p3] := by
    match p, hplen with
    | [p0, p1, p2, p3], _ => exact ⟨p0, p1, p2, p3, rfl⟩
  have hpmem : ∀ x ∈ [p0, p1, p2, p3], x < 4 := by
    intro x hx
    have := (sortInner_mem [k0, k1, k2, k3] 0 0 0 [0,1,2,3] [0,1,2,3] rfl).2
    -- entries of `p` come from `[0,1,2,3]`
    have hm : ∀ (c i : Nat) (π π' : List Nat), sortSymbolsOuter [k0, k1, k2, k3] n c i π = .ok π' →
        ∀ x ∈ π', x ∈ π := by
      intro c
      induction c with
      | zero => intro i π π' h; simp only [sortSymbolsOuter] at h; injection h with h; subst h; simp
      | succ c ih =>
        intro i π π' h x hx
        simp only [sortSymbolsOuter] at h
        cases hs : sortSymbolsInner [k0, k1, k2, k3] i (n - (i + 1)) (i + 1) π with
        | panic => rw [hs] at h; cases h
        | fuel => rw [hs] at h; cases h
        | ok π1 =>
          rw [hs] at h
          simp only [Out.bind_ok] at h
          exact (sortInner_mem _ i _ _ π π1 hs).2 x (ih (i + 1) π1 π' h x hx)
    have := hm n 0 [0, 1, 2, 3] [p0, p1, p2, p3] hp x hx
    simp at this; omega
  have hgb : ∀ k, k < 4 → g k < 2 ^ alphabetBits A := by
    intro k hk
    apply hb
    have : k = 0 ∨ k = 1 ∨ k = 2 ∨ k = 3 := by omega
    rcases this with rfl | rfl | rfl | rfl <;> simp [g]
  have hd0 : getAt d (g p0) = .ok ([k0, k1, k2, k3].getD p0 0) := by
    rw [hkeys p0 (hpmem p0 (by simp))]
    exact getAt_getD _ _ (by simp; exact hpmem p0 (by simp))
  refine ⟨bitsOf 2 1 ++ (bitsOf 2 (n - 1) ++ simpleBody n (alphabetBits A) (g p0) (g p1) (g p2) (g p3)
      (decide ([k0, k1, k2, k3].getD p0 0 = 1))), placeLens A (([p0, p1, p2, p3].map g).take n)
      (simplePattern n (decide ([k0, k1, k2, k3].getD p0 0 = 1))), ?_, ?_, ?_⟩
  · unfold storeSimpleHuffmanTree
    rw [writeBits_ok 2 1 wr (by decide) (by decide)]
    simp only [Out.bind_ok]
    have h1 : 2 ≤ n := by omega
    have h4 : n ≤ 4 := by omega
    have hm : (n + u64 - 1) % u64 = n - 1 := by
      have : n + u64 - 1 = (n - 1) + u64 := by unfold u64; omega
      rw [this, Nat.add_mod_right, Nat.mod_eq_of_lt (by unfold u64; omega)]
    have hlt4 : n - 1 < 2 ^ 2 := by
      have : (2:Nat) ^ 2 = 4 := rfl
      omega
    rw [hm, writeBits_ok 2 (n - 1) _ hlt4 (by decide)]
    simp only [Out.bind_ok, hsort, List.map_cons, List.map_nil]
    rw [storeSimpleTail_spec d n (alphabetBits A) (g p0) (g p1) (g p2) (g p3) _ _ hn hw
      (hgb p0 (hpmem p0 (by simp))) (hgb p1 (hpmem p1 (by simp))) (hgb p2 (hpmem p2 (by simp)))
      (hgb p3 (hpmem p3 (by simp))) hd0]
    simp [List.append_assoc]
  · have := readSimple_spec A n (g p0) (g p1) (g p2) (g p3)
      (decide ([k0, k1, k2, k3].getD p0 0 = 1)) rest hn
      (hgb p0 (hpmem p0 (by simp))) (hgb p1 (hpmem p1 (by simp))) (hgb p2 (hpmem p2 (by simp)))
      (hgb p3 (hpmem p3 (by simp)))
    simp only [List.append_assoc] at this ⊢
    simpa using this
  · -- the reader's vector
    have hpat' : simplePattern n (decide ([k0, k1, k2, k3].getD p0 0 = 1))
        = (([p0, p1, p2, p3].map g).take n).map (fun x => d.getD x 0) := by
      rw [← List.map_take, List.map_map]
      have hpat2 : List.map (fun k => [k0, k1, k2, k3].getD k 0) (List.take n [p0, p1, p2, p3])
          = simplePattern n (decide ([k0, k1, k2, k3].getD p0 0 = 1)) := by
        simpa using hpat
      rw [← hpat2]
      apply List.map_congr_left
      intro k hk
      have hk4 := hpmem k (List.mem_of_mem_take hk)
      have h1 := hkeys k hk4
      have h2 := getAt_getD [k0, k1, k2, k3] k (by simp; exact hk4)
      rw [h2] at h1
      simp only [Function.comp]
      exact (getAt_ok h1).2.1
    have hSlt : ∀ s ∈ ([p0, p1, p2, p3].map g).take n, s < A := by
      intro s hs
      rw [← List.map_take] at hs
      obtain ⟨k, hk, rfl⟩ := List.mem_map.mp hs
      apply hA
      have : k ∈ List.range n := (hperm.mem_iff).mp hk
      have hkn : k < n := List.mem_range.mp this
      rw [hg, ← List.map_take]
      apply List.mem_map.mpr
      refine ⟨k, ?_, rfl⟩
      have h4 : n ≤ 4 := by omega
      rw [show ([0, 1, 2, 3] : List Nat) = List.range 4 from rfl, List.take_range, Nat.min_eq_left h4]
      exact List.mem_range.mpr hkn
    rw [hpat']
    obtain ⟨hl, hv⟩ := placeLens_spec A (fun x => d.getD x 0) _ hSlt
    refine ⟨hl, fun x => ?_⟩
    rw [hv x]
    have hmemiff : x ∈ ([p0, p1, p2, p3].map g).take n ↔ x ∈ [a0, a1, a2, a3].take n := by
      rw [← List.map_take, hg, ← List.map_take]
      have h4 : n ≤ 4 := by omega
      have hr : ([0, 1, 2, 3] : List Nat).take n = List.range n := by
        rw [show ([0, 1, 2, 3] : List Nat) = List.range 4 from rfl, List.take_range,
          Nat.min_eq_left h4]
      rw [hr]
      exact (hperm.map g).mem_iff
    by_cases hx : x ∈ [a0, a1, a2, a3].take n
    · rw [if_pos (hmemiff.mpr hx), if_pos hx]
    · rw [if_neg (fun h => hx (hmemiff.mp h)), if_neg hx]

end BV.Lemmas.HuffmanSimple
