/-
Lemmas for C17 part 7: the simple prefix code forms (NSYM = 1..4) written by
`StoreSimpleHuffmanTree` / the fast builder are read back by the RFC 7932 §3.4 reader.
-/
import BV.Lemmas.HuffmanEntry
import BV.Lemmas.HuffmanStoreRead
import BV.Lemmas.HuffmanOptRle
import BV.Lemmas.HuffmanStoreTree

namespace BV.Lemmas.HuffmanSimple
open BV.Bits BV.Huffman BV.Lemmas.HuffmanCanon BV.Lemmas.HuffmanRead BV.Lemmas.HuffmanStoreRead
open BV.Lemmas.HuffmanCreate BV.Lemmas.HuffmanMerge BV.Lemmas.HuffmanOptRle BV.Lemmas.HuffmanEntry
open BV.Lemmas.HuffmanFib

def omap {α β : Type} (f : α → β) : Out α → Out β
  | .ok a => .ok (f a)
  | .panic => .panic
  | .fuel => .fuel

theorem getAt_map (g : Nat → Nat) (l : List Nat) (j : Nat) :
    getAt (l.map g) j = omap g (getAt l j) := by
  simp only [getAt, List.getElem?_map]
  cases l[j]? <;> rfl

theorem setAt_map (g : Nat → Nat) (l : List Nat) (j x : Nat) :
    setAt (l.map g) j (g x) = omap (List.map g) (setAt l j x) := by
  simp only [setAt, List.length_map]
  split
  · simp [omap, List.map_set]
  · rfl

/-- the exchange sort only compares keys: run on positions `π` with the key list, it does
what it does on the symbols `π.map g` with the depth array -/
theorem sortInner_natural (depths keys : List Nat) (g : Nat → Nat) (i : Nat)
    (hk : ∀ k, k < 4 → getAt depths (g k) = getAt keys k) :
    ∀ (c j : Nat) (π : List Nat), (∀ x ∈ π, x < 4) →
    sortSymbolsInner depths i c j (π.map g) = omap (List.map g) (sortSymbolsInner keys i c j π) := by
  intro c
  induction c with
  | zero => intro j π _; rfl
  | succ c ih =>
    intro j π hπ
    simp only [sortSymbolsInner, getAt_map]
    cases hj : getAt π j with
    | panic => rfl
    | fuel => rfl
    | ok pj =>
    cases hi : getAt π i with
    | panic => rfl
    | fuel => rfl
    | ok pi =>
    have hpj : pj < 4 := hπ pj (getAt_ok hj).2.2
    have hpi : pi < 4 := hπ pi (getAt_ok hi).2.2
    simp only [omap, Out.bind_ok, hk pj hpj, hk pi hpi]
    cases getAt keys pj with
    | panic => rfl
    | fuel => rfl
    | ok dj =>
    cases getAt keys pi with
    | panic => rfl
    | fuel => rfl
    | ok di =>
    simp only [Out.bind_ok]
    by_cases hlt : dj < di
    · simp only [hlt, ↓reduceIte, setAt_map]
      cases hs1 : setAt π j pi with
      | panic => rfl
      | fuel => rfl
      | ok π1 =>
        simp only [omap, Out.bind_ok, setAt_map]
        cases hs2 : setAt π1 i pj with
        | panic => rfl
        | fuel => rfl
        | ok π2 =>
          simp only [Out.bind_ok]
          apply ih (j + 1) π2
          intro x hx
          have e1 : π1 = π.set j pi := by
            unfold setAt at hs1; split at hs1
            · injection hs1 with h; exact h.symm
            · cases hs1
          have e2 : π2 = π1.set i pj := by
            unfold setAt at hs2; split at hs2
            · injection hs2 with h; exact h.symm
            · cases hs2
          rw [e2] at hx
          rcases List.mem_or_eq_of_mem_set hx with h | h
          · rw [e1] at h
            rcases List.mem_or_eq_of_mem_set h with h' | h'
            · exact hπ x h'
            · rw [h']; exact hpi
          · rw [h]; exact hpj
    · simp only [hlt, ↓reduceIte, Out.bind_ok]
      exact ih (j + 1) π hπ


theorem sortInner_mem (keys : List Nat) (i : Nat) : ∀ (c j : Nat) (π π' : List Nat),
    sortSymbolsInner keys i c j π = .ok π' → π'.length = π.length ∧ ∀ x ∈ π', x ∈ π := by
  intro c
  induction c with
  | zero => intro j π π' h; simp only [sortSymbolsInner] at h; injection h with h; subst h; simp
  | succ c ih =>
    intro j π π' h
    simp only [sortSymbolsInner] at h
    cases hj : getAt π j with
    | panic => rw [hj] at h; cases h
    | fuel => rw [hj] at h; cases h
    | ok pj =>
    cases hi : getAt π i with
    | panic => rw [hj, hi] at h; cases h
    | fuel => rw [hj, hi] at h; cases h
    | ok pi =>
    rw [hj, hi] at h
    simp only [Out.bind_ok] at h
    cases hdj : getAt keys pj with
    | panic => rw [hdj] at h; cases h
    | fuel => rw [hdj] at h; cases h
    | ok dj =>
    cases hdi : getAt keys pi with
    | panic => rw [hdj, hdi] at h; cases h
    | fuel => rw [hdj, hdi] at h; cases h
    | ok di =>
    rw [hdj, hdi] at h
    simp only [Out.bind_ok] at h
    by_cases hlt : dj < di
    · simp only [hlt, ↓reduceIte] at h
      cases hs1 : setAt π j pi with
      | panic => rw [hs1] at h; cases h
      | fuel => rw [hs1] at h; cases h
      | ok π1 =>
        rw [hs1] at h
        simp only [Out.bind_ok] at h
        cases hs2 : setAt π1 i pj with
        | panic => rw [hs2] at h; cases h
        | fuel => rw [hs2] at h; cases h
        | ok π2 =>
          rw [hs2] at h
          simp only [Out.bind_ok] at h
          obtain ⟨_, e1⟩ := setAt_ok hs1
          obtain ⟨_, e2⟩ := setAt_ok hs2
          obtain ⟨hl, hm⟩ := ih (j + 1) π2 π' h
          refine ⟨by rw [hl, e2, e1]; simp, ?_⟩
          intro x hx
          have := hm x hx
          rw [e2] at this
          rcases List.mem_or_eq_of_mem_set this with h' | h'
          · rw [e1] at h'
            rcases List.mem_or_eq_of_mem_set h' with h'' | h''
            · exact h''
            · rw [h'']; exact (getAt_ok hi).2.2
          · rw [h']; exact (getAt_ok hj).2.2
    · simp only [hlt, ↓reduceIte, Out.bind_ok] at h
      exact ih (j + 1) π π' h

theorem sortOuter_natural (depths keys : List Nat) (g : Nat → Nat) (n : Nat)
    (hk : ∀ k, k < 4 → getAt depths (g k) = getAt keys k) :
    ∀ (c i : Nat) (π : List Nat), (∀ x ∈ π, x < 4) →
    sortSymbolsOuter depths n c i (π.map g) = omap (List.map g) (sortSymbolsOuter keys n c i π) := by
  intro c
  induction c with
  | zero => intro i π _; rfl
  | succ c ih =>
    intro i π hπ
    simp only [sortSymbolsOuter, sortInner_natural depths keys g i hk _ _ π hπ]
    cases hs : sortSymbolsInner keys i (n - (i + 1)) (i + 1) π with
    | panic => rfl
    | fuel => rfl
    | ok π1 =>
      simp only [omap, Out.bind_ok]
      exact ih (i + 1) π1 (fun x hx => hπ x ((sortInner_mem keys i _ _ π π1 hs).2 x hx))

/-! ### what the sort does on every possible key pattern (kernel-checked) -/

/-- code space of a key -/
def kterm (k : Nat) : Nat := if k = 0 then 0 else 2 ^ (15 - k)

/-- the lengths the RFC reader gives to the symbols of a simple code, in the order
they are listed (`sel` = the tree-select bit, only read for NSYM = 4) -/
def simplePattern (n : Nat) (sel : Bool) : List Nat :=
  if n = 2 then [1, 1] else if n = 3 then [1, 2, 2] else if sel then [1, 2, 3, 3] else [2, 2, 2, 2]

/-- Bool checker: the sort of positions `[0,1,2,3]` by the keys `ks` permutes the first
`n` positions, leaves the others, and lists the keys in the order of the RFC pattern
selected by `key of the first = 1` -/
def chkSort (ks : List Nat) (n : Nat) : Bool :=
  match sortSymbolsOuter ks n n 0 [0, 1, 2, 3] with
  | .ok p =>
    decide ((p.take n).Perm (List.range n)) && decide (p.length = 4) &&
    decide ((p.take n).map (fun k => ks.getD k 0)
      = simplePattern n (decide (ks.getD (p.getD 0 0) 0 = 1)))
  | _ => false

theorem chkSort_spec (ks : List Nat) (n : Nat) (h : chkSort ks n = true) :
    ∃ p, sortSymbolsOuter ks n n 0 [0, 1, 2, 3] = .ok p ∧ (p.take n).Perm (List.range n) ∧
      p.length = 4 ∧
      (p.take n).map (fun k => ks.getD k 0) = simplePattern n (decide (ks.getD (p.getD 0 0) 0 = 1)) := by
  unfold chkSort at h
  split at h
  · rename_i p hp
    simp only [Bool.and_eq_true, decide_eq_true_eq] at h
    exact ⟨p, hp, h.1.1, h.1.2, h.2⟩
  · cases h

theorem sort2_fact : ∀ y z : Fin 16, chkSort [1, 1, y.val, z.val] 2 = true := by decide

theorem sort3_fact : ∀ a b c : Fin 3, a.val ≠ 0 → b.val ≠ 0 → c.val ≠ 0 →
    kterm a.val + kterm b.val + kterm c.val = 32768 →
    ∀ z : Fin 16, chkSort [a.val, b.val, c.val, z.val] 3 = true := by
  decide

theorem sort4_fact : ∀ a b c d : Fin 4, a.val ≠ 0 → b.val ≠ 0 → c.val ≠ 0 → d.val ≠ 0 →
    kterm a.val + kterm b.val + kterm c.val + kterm d.val = 32768 →
    chkSort [a.val, b.val, c.val, d.val] 4 = true := by
  decide


/-! ### the bits of a simple code and the reader -/

/-- the bits after the 4-bit head of a simple code with `n` symbols -/
def simpleBody (n w s0 s1 s2 s3 : Nat) (sel : Bool) : List Bool :=
  bitsOf w s0 ++ (bitsOf w s1 ++
    (if n = 2 then [] else bitsOf w s2 ++
      (if n = 3 then [] else bitsOf w s3 ++ bitsOf 1 (if sel then 1 else 0))))

theorem storeSimpleTail_spec (d : List Nat) (n w s0 s1 s2 s3 d0 : Nat) (wr : Writer)
    (hn : n = 2 ∨ n = 3 ∨ n = 4) (hw : w ≤ 56)
    (h0 : s0 < 2 ^ w) (h1 : s1 < 2 ^ w) (h2 : s2 < 2 ^ w) (h3 : s3 < 2 ^ w)
    (hd0 : getAt d s0 = .ok d0) :
    storeSimpleTail d [s0, s1, s2, s3] n w wr
      = .ok (wr ++ simpleBody n w s0 s1 s2 s3 (decide (d0 = 1))) := by
  have hwm : w % 256 = w := Nat.mod_eq_of_lt (by omega)
  unfold storeSimpleTail simpleBody
  simp only [hwm, getAt, List.getElem?_cons_zero, List.getElem?_cons_succ, Out.bind_ok,
    writeBits_ok w s0 _ h0 hw, writeBits_ok w s1 _ h1 hw]
  rcases hn with rfl | rfl | rfl
  · simp
  · simp only [show ¬ (3 = 2) by decide, ↓reduceIte, Out.bind_ok, writeBits_ok w s2 _ h2 hw]
    simp
  · simp only [show ¬ (4 = 2) by decide, show ¬ (4 = 3) by decide, ↓reduceIte, Out.bind_ok,
      writeBits_ok w s2 _ h2 hw, writeBits_ok w s3 _ h3 hw]
    unfold getAt at hd0
    rw [hd0]
    simp only [Out.bind_ok]
    by_cases h : d0 = 1
    · simp [h, writeBits_ok 1 1 _ (by decide) (by decide)]
    · simp [h, writeBits_ok 1 0 _ (by decide) (by decide)]

theorem readSimple_spec (A n s0 s1 s2 s3 : Nat) (sel : Bool) (rest : List Bool)
    (hn : n = 2 ∨ n = 3 ∨ n = 4)
    (h0 : s0 < 2 ^ alphabetBits A) (h1 : s1 < 2 ^ alphabetBits A) (h2 : s2 < 2 ^ alphabetBits A)
    (h3 : s3 < 2 ^ alphabetBits A) :
    readPrefixCode A (bitsOf 2 1 ++ (bitsOf 2 (n - 1) ++
        (simpleBody n (alphabetBits A) s0 s1 s2 s3 sel ++ rest)))
      = some (placeLens A ([s0, s1, s2, s3].take n) (simplePattern n sel), rest) := by
  unfold readPrefixCode simpleBody
  rw [takeBits_bitsOf 2 1 _ (by decide)]
  simp only [Option.bind_eq_bind, Option.bind_some, ↓reduceIte]
  rcases hn with rfl | rfl | rfl
  · rw [takeBits_bitsOf 2 1 _ (by decide)]
    simp only [Option.bind_some, ↓reduceIte, List.append_assoc, List.nil_append]
    rw [takeBits_bitsOf _ s0 _ h0]
    simp only [Option.bind_some, show ¬ (1 = 0) by decide, ↓reduceIte]
    rw [takeBits_bitsOf _ s1 _ h1]
    simp [simplePattern]
  · rw [takeBits_bitsOf 2 2 _ (by decide)]
    simp only [Option.bind_some, show ¬ (3 = 2) by decide, ↓reduceIte, List.append_assoc,
      List.nil_append]
    rw [takeBits_bitsOf _ s0 _ h0]
    simp only [Option.bind_some, show ¬ (2 = 0) by decide, ↓reduceIte]
    rw [takeBits_bitsOf _ s1 _ h1]
    simp only [Option.bind_some, show ¬ (2 = 1) by decide, ↓reduceIte]
    rw [takeBits_bitsOf _ s2 _ h2]
    simp [simplePattern]
  · rw [takeBits_bitsOf 2 3 _ (by decide)]
    simp only [Option.bind_some, show ¬ (4 = 2) by decide, show ¬ (4 = 3) by decide, ↓reduceIte,
      List.append_assoc]
    rw [takeBits_bitsOf _ s0 _ h0]
    simp only [Option.bind_some, show ¬ (3 = 0) by decide, ↓reduceIte]
    rw [takeBits_bitsOf _ s1 _ h1]
    simp only [Option.bind_some, show ¬ (3 = 1) by decide, ↓reduceIte]
    rw [takeBits_bitsOf _ s2 _ h2]
    simp only [Option.bind_some, show ¬ (3 = 2) by decide, ↓reduceIte]
    rw [takeBits_bitsOf _ s3 _ h3]
    simp only [Option.bind_some]
    cases sel
    · simp only [Bool.false_eq_true, ↓reduceIte]
      rw [takeBits_bitsOf 1 0 _ (by decide)]
      simp [simplePattern]
    · simp only [↓reduceIte]
      rw [takeBits_bitsOf 1 1 _ (by decide)]
      simp [simplePattern]

/-- the vector the reader builds: length `A`, `f x` at the listed symbols, 0 elsewhere -/
theorem placeLens_spec (A : Nat) (f : Nat → Nat) : ∀ (S : List Nat), (∀ s ∈ S, s < A) →
    (placeLens A S (S.map f)).length = A ∧
      ∀ x, (placeLens A S (S.map f)).getD x 0 = if x ∈ S then f x else 0 := by
  intro S
  induction S with
  | nil =>
    intro _
    refine ⟨by simp [placeLens], fun x => ?_⟩
    simp only [placeLens, List.not_mem_nil, ↓reduceIte]
    exact replicate_getD A x
  | cons s S ih =>
    intro hlt
    obtain ⟨h1, h2⟩ := ih (fun x hx => hlt x (List.mem_cons_of_mem _ hx))
    have hs := hlt s (by simp)
    simp only [List.map_cons, placeLens]
    refine ⟨by simp [h1], fun x => ?_⟩
    rw [getD_set _ _ _ _ (by rw [h1]; exact hs), h2 x]
    by_cases hsx : s = x
    · subst hsx; simp
    · have : ¬ x = s := fun h => hsx h.symm
      simp [hsx, this]


theorem ext_getD (l1 l2 : List Nat) (hl : l1.length = l2.length)
    (h : ∀ x, l1.getD x 0 = l2.getD x 0) : l1 = l2 := by
  apply List.ext_getElem?
  intro x
  by_cases hx : x < l1.length
  · have := h x
    rw [List.getD_eq_getElem?_getD, List.getD_eq_getElem?_getD, List.getElem?_eq_getElem hx,
      List.getElem?_eq_getElem (by omega)] at this
    rw [List.getElem?_eq_getElem hx, List.getElem?_eq_getElem (by omega)]
    simpa using this
  · rw [List.getElem?_eq_none (by omega), List.getElem?_eq_none (by omega)]

/-- symbols `[a0..a3]`, of which the first `n` are the used ones; `d` the depth array.
Whatever order the exchange sort leaves them in, the simple description is read
back as: `d[x]` at the used symbols, 0 elsewhere. -/
theorem simple_core (d : List Nat) (A n : Nat) (a0 a1 a2 a3 k0 k1 k2 k3 : Nat) (wr rest : List Bool)
    (hn : n = 2 ∨ n = 3 ∨ n = 4) (hw : alphabetBits A ≤ 56)
    (hk0 : getAt d a0 = .ok k0) (hk1 : getAt d a1 = .ok k1) (hk2 : getAt d a2 = .ok k2)
    (hk3 : getAt d a3 = .ok k3) (hchk : chkSort [k0, k1, k2, k3] n = true)
    (hb : ∀ a ∈ [a0, a1, a2, a3], a < 2 ^ alphabetBits A)
    (hA : ∀ a ∈ [a0, a1, a2, a3].take n, a < A) :
    ∃ bits V, storeSimpleHuffmanTree d [a0, a1, a2, a3] n (alphabetBits A) wr = .ok (wr ++ bits) ∧
      readPrefixCode A (bits ++ rest) = some (V, rest) ∧ V.length = A ∧
      ∀ x, V.getD x 0 = if x ∈ [a0, a1, a2, a3].take n then d.getD x 0 else 0 := by
  obtain ⟨p, hp, hperm, hplen, hpat⟩ := chkSort_spec _ n hchk
  let g : Nat → Nat := fun k => [a0, a1, a2, a3].getD k 0
  have hg : [a0, a1, a2, a3] = [0, 1, 2, 3].map g := by simp [g]
  have hkeys : ∀ k, k < 4 → getAt d (g k) = getAt [k0, k1, k2, k3] k := by
    intro k hk
    have : k = 0 ∨ k = 1 ∨ k = 2 ∨ k = 3 := by omega
    rcases this with rfl | rfl | rfl | rfl
    · show getAt d a0 = _; rw [hk0]; rfl
    · show getAt d a1 = _; rw [hk1]; rfl
    · show getAt d a2 = _; rw [hk2]; rfl
    · show getAt d a3 = _; rw [hk3]; rfl
  have hsort := sortOuter_natural d [k0, k1, k2, k3] g n hkeys n 0 [0, 1, 2, 3] (by decide)
  rw [← hg, hp] at hsort
  simp only [omap] at hsort
  -- the sorted symbols
  obtain ⟨p0, p1, p2, p3, rfl⟩ : ∃ p0 p1 p2 p3, p = [p0, p1, p2, p3] := by
    match p, hplen with
    | [p0, p1, p2, p3], _ => exact ⟨p0, p1, p2, p3, rfl⟩
  have hpmem : ∀ x ∈ [p0, p1, p2, p3], x < 4 := by
    intro x hx
    have := (sortInner_mem [k0, k1, k2, k3] 0 0 0 [0,1,2,3] [0,1,2,3] rfl).2
    -- entries of `p` come from `[0,1,2,3]`
    have hm : ∀ (c i : Nat) (π π' : List Nat), sortSymbolsOuter [k0, k1, k2, k3] n c i π = .ok π' →
        ∀ x ∈ π', x ∈ π := by
      intro c
      induction c with
      | zero => intro i π π' h; simp only [sortSymbolsOuter] at h; injection h with h; subst h; simp
      | succ c ih =>
        intro i π π' h x hx
        simp only [sortSymbolsOuter] at h
        cases hs : sortSymbolsInner [k0, k1, k2, k3] i (n - (i + 1)) (i + 1) π with
        | panic => rw [hs] at h; cases h
        | fuel => rw [hs] at h; cases h
        | ok π1 =>
          rw [hs] at h
          simp only [Out.bind_ok] at h
          exact (sortInner_mem _ i _ _ π π1 hs).2 x (ih (i + 1) π1 π' h x hx)
    have := hm n 0 [0, 1, 2, 3] [p0, p1, p2, p3] hp x hx
    simp at this; omega
  have hgb : ∀ k, k < 4 → g k < 2 ^ alphabetBits A := by
    intro k hk
    apply hb
    have : k = 0 ∨ k = 1 ∨ k = 2 ∨ k = 3 := by omega
    rcases this with rfl | rfl | rfl | rfl <;> simp [g]
  have hd0 : getAt d (g p0) = .ok ([k0, k1, k2, k3].getD p0 0) := by
    rw [hkeys p0 (hpmem p0 (by simp))]
    exact getAt_getD _ _ (by simp; exact hpmem p0 (by simp))
  refine ⟨bitsOf 2 1 ++ (bitsOf 2 (n - 1) ++ simpleBody n (alphabetBits A) (g p0) (g p1) (g p2) (g p3)
      (decide ([k0, k1, k2, k3].getD p0 0 = 1))), placeLens A (([p0, p1, p2, p3].map g).take n)
      (simplePattern n (decide ([k0, k1, k2, k3].getD p0 0 = 1))), ?_, ?_, ?_⟩
  · have h1 : 2 ≤ n := by omega
    have h4 : n ≤ 4 := by omega
    have hm : (n + u64 - 1) % u64 = n - 1 := by
      have : n + u64 - 1 = (n - 1) + u64 := by unfold u64; omega
      rw [this, Nat.add_mod_right, Nat.mod_eq_of_lt (by unfold u64; omega)]
    have hlt4 : n - 1 < 2 ^ 2 := by
      have : (2:Nat) ^ 2 = 4 := rfl
      omega
    unfold storeSimpleHuffmanTree
    rw [hm]
    rw [writeBits_ok 2 1 wr (by decide) (by decide)]
    simp only [Out.bind_ok]
    rw [writeBits_ok 2 (n - 1) _ hlt4 (by decide)]
    simp only [Out.bind_ok, hsort, List.map_cons, List.map_nil]
    rw [storeSimpleTail_spec d n (alphabetBits A) (g p0) (g p1) (g p2) (g p3) _ _ hn hw
      (hgb p0 (hpmem p0 (by simp))) (hgb p1 (hpmem p1 (by simp))) (hgb p2 (hpmem p2 (by simp)))
      (hgb p3 (hpmem p3 (by simp))) hd0]
    simp [List.append_assoc]
  · have := readSimple_spec A n (g p0) (g p1) (g p2) (g p3)
      (decide ([k0, k1, k2, k3].getD p0 0 = 1)) rest hn
      (hgb p0 (hpmem p0 (by simp))) (hgb p1 (hpmem p1 (by simp))) (hgb p2 (hpmem p2 (by simp)))
      (hgb p3 (hpmem p3 (by simp)))
    simp only [List.append_assoc] at this ⊢
    simpa using this
  · -- the reader's vector
    have hpat' : simplePattern n (decide ([k0, k1, k2, k3].getD p0 0 = 1))
        = (([p0, p1, p2, p3].map g).take n).map (fun x => d.getD x 0) := by
      rw [← List.map_take, List.map_map]
      have hpat2 : List.map (fun k => [k0, k1, k2, k3].getD k 0) (List.take n [p0, p1, p2, p3])
          = simplePattern n (decide ([k0, k1, k2, k3].getD p0 0 = 1)) := by
        simpa using hpat
      rw [← hpat2]
      apply List.map_congr_left
      intro k hk
      have hk4 := hpmem k (List.mem_of_mem_take hk)
      have h1 := hkeys k hk4
      have h2 := getAt_getD [k0, k1, k2, k3] k (by simp; exact hk4)
      rw [h2] at h1
      simp only [Function.comp]
      exact (getAt_ok h1).2.1
    have hSlt : ∀ s ∈ ([p0, p1, p2, p3].map g).take n, s < A := by
      intro s hs
      rw [← List.map_take] at hs
      obtain ⟨k, hk, rfl⟩ := List.mem_map.mp hs
      apply hA
      have : k ∈ List.range n := (hperm.mem_iff).mp hk
      have hkn : k < n := List.mem_range.mp this
      rw [hg, ← List.map_take]
      apply List.mem_map.mpr
      refine ⟨k, ?_, rfl⟩
      have h4 : n ≤ 4 := by omega
      rw [show ([0, 1, 2, 3] : List Nat) = List.range 4 from rfl, List.take_range, Nat.min_eq_left h4]
      exact List.mem_range.mpr hkn
    rw [hpat']
    obtain ⟨hl, hv⟩ := placeLens_spec A (fun x => d.getD x 0) _ hSlt
    refine ⟨hl, fun x => ?_⟩
    rw [hv x]
    have hmemiff : x ∈ ([p0, p1, p2, p3].map g).take n ↔ x ∈ [a0, a1, a2, a3].take n := by
      rw [← List.map_take, hg, ← List.map_take]
      have h4 : n ≤ 4 := by omega
      have hr : ([0, 1, 2, 3] : List Nat).take n = List.range n := by
        rw [show ([0, 1, 2, 3] : List Nat) = List.range 4 from rfl, List.take_range,
          Nat.min_eq_left h4]
      rw [hr]
      exact (hperm.map g).mem_iff
    by_cases hx : x ∈ [a0, a1, a2, a3].take n
    · rw [if_pos (hmemiff.mpr hx), if_pos hx]
    · rw [if_neg (fun h => hx (hmemiff.mp h)), if_neg hx]


/-! ### the used symbols in ascending order -/

/-- indices `i ≤ v < i + cnt` with a non-zero entry, ascending -/
def ascNZ (h : List Nat) : Nat → Nat → List Nat
  | 0, _ => []
  | c + 1, i => if h.getD i 0 = 0 then ascNZ h c (i + 1) else i :: ascNZ h c (i + 1)

theorem mem_ascNZ (h : List Nat) : ∀ (c i v : Nat),
    v ∈ ascNZ h c i ↔ i ≤ v ∧ v < i + c ∧ h.getD v 0 ≠ 0 := by
  intro c
  induction c with
  | zero =>
    intro i v
    simp only [ascNZ, List.not_mem_nil, false_iff]
    rintro ⟨a, b, _⟩; omega
  | succ c ih =>
    intro i v
    simp only [ascNZ]
    by_cases h0 : h.getD i 0 = 0
    · simp only [h0, ↓reduceIte, ih]
      constructor
      · rintro ⟨a, b, c'⟩; exact ⟨by omega, by omega, c'⟩
      · rintro ⟨a, b, c'⟩
        have : v ≠ i := by rintro rfl; exact c' h0
        exact ⟨by omega, by omega, c'⟩
    · simp only [h0, ↓reduceIte, List.mem_cons, ih]
      constructor
      · rintro (rfl | ⟨a, b, c'⟩)
        · exact ⟨Nat.le_refl _, by omega, h0⟩
        · exact ⟨by omega, by omega, c'⟩
      · rintro ⟨a, b, c'⟩
        by_cases hv : v = i
        · left; exact hv
        · right; exact ⟨by omega, by omega, c'⟩

theorem nodup_ascNZ (h : List Nat) : ∀ (c i : Nat), (ascNZ h c i).Nodup := by
  intro c
  induction c with
  | zero => intro i; exact List.nodup_nil
  | succ c ih =>
    intro i
    simp only [ascNZ]
    split
    · exact ih (i + 1)
    · rw [List.nodup_cons]
      refine ⟨?_, ih (i + 1)⟩
      rw [mem_ascNZ]; omega

theorem length_ascNZ (h : List Nat) : ∀ (c i : Nat), i + c ≤ h.length →
    (ascNZ h c i).length = (((h.drop i).take c).filter (· ≠ 0)).length := by
  intro c
  induction c with
  | zero => intro i _; simp [ascNZ]
  | succ c ih =>
    intro i hi
    have hil : i < h.length := by omega
    have hd : (h.drop i).take (c + 1) = h.getD i 0 :: (h.drop (i + 1)).take c := by
      rw [List.drop_eq_getElem_cons hil, List.take_succ_cons, List.getD_eq_getElem?_getD,
        List.getElem?_eq_getElem hil]
      rfl
    rw [hd]
    simp only [ascNZ]
    generalize h.getD i 0 = x
    by_cases h0 : x = 0
    · simp only [h0, ↓reduceIte, ih (i + 1) (by omega)]
      simp
    · simp only [h0, ↓reduceIte, List.length_cons, ih (i + 1) (by omega)]
      simp [h0]

/-- `s4` with the entries from `c` on overwritten by `L` -/
def fillS (s4 : List Nat) : Nat → List Nat → List Nat
  | _, [] => s4
  | c, x :: xs => fillS (s4.set c x) (c + 1) xs

/-- the `'break31` scan when at most four symbols are in use: `count` = their number,
`s4` = these symbols in ascending order -/
theorem scanHistogram_full (histogram : List Nat) : ∀ (cnt i count : Nat) (s4 : List Nat),
    i + cnt ≤ histogram.length → count + (ascNZ histogram cnt i).length ≤ 4 →
    scanHistogram histogram cnt i count s4
      = .ok (count + (ascNZ histogram cnt i).length, fillS s4 count (ascNZ histogram cnt i)) := by
  intro cnt
  induction cnt with
  | zero => intro i count s4 _ _; simp [scanHistogram, ascNZ, fillS]
  | succ cnt ih =>
    intro i count s4 hlen h4
    have hi : i < histogram.length := by omega
    simp only [scanHistogram, getAt_getD histogram i hi, Out.bind_ok, ascNZ] at h4 ⊢
    by_cases h0 : histogram.getD i 0 = 0
    · simp only [h0, ne_eq, not_true_eq_false, ↓reduceIte] at h4 ⊢
      exact ih (i + 1) count s4 (by omega) h4
    · simp only [ne_eq, h0, not_false_eq_true, ↓reduceIte, List.length_cons] at h4 ⊢
      have hc4 : count < 4 := by omega
      simp only [hc4, ↓reduceIte]
      rw [ih (i + 1) (count + 1) (s4.set count i) (by omega) (by omega)]
      simp only [fillS]
      congr 2
      omega

/-! ### the depth vector as "lengths placed at the used symbols" -/

theorem kraft_placeLens (A : Nat) (f : Nat → Nat) : ∀ (S : List Nat), S.Nodup → (∀ s ∈ S, s < A) →
    kraftSum 15 (placeLens A S (S.map f)) = (S.map fun s => kterm (f s)).sum := by
  intro S
  induction S with
  | nil =>
    intro _ _
    simp only [List.map_nil, placeLens, List.sum_nil]
    exact kraftSum_replicate_zero 15 A
  | cons s S ih =>
    intro hnd hlt
    rw [List.nodup_cons] at hnd
    have hlt' : ∀ x ∈ S, x < A := fun x hx => hlt x (List.mem_cons_of_mem _ hx)
    obtain ⟨h1, h2⟩ := placeLens_spec A f S hlt'
    have hs := hlt s (by simp)
    simp only [List.map_cons, placeLens, List.sum_cons]
    have hold : (placeLens A S (S.map f)).getD s 0 = 0 := by rw [h2 s, if_neg hnd.1]
    have := BV.Lemmas.HuffmanShape.sum_map_set (fun l => if l = 0 then 0 else 2 ^ (15 - l))
      (placeLens A S (S.map f)) s (f s) (by rw [h1]; exact hs)
    rw [hold] at this
    simp only [↓reduceIte, Nat.add_zero] at this
    unfold kraftSum at ih ⊢
    rw [this, ih hnd.2 hlt']
    unfold kterm
    omega


/-! ### `max_bits` -/

theorem lt_pow_bitWidth : ∀ (f x : Nat), x < 2 ^ f → x < 2 ^ bitWidth f x := by
  intro f
  induction f with
  | zero => intro x h; simp at h; subst h; simp [bitWidth]
  | succ f ih =>
    intro x h
    simp only [bitWidth]
    by_cases h0 : x = 0
    · simp [h0]
    · simp only [h0, ↓reduceIte]
      have := ih (x / 2) (by rw [Nat.pow_succ] at h; omega)
      rw [Nat.pow_succ]
      omega

theorem bitWidth_le : ∀ (f x k : Nat), x < 2 ^ k → bitWidth f x ≤ k := by
  intro f
  induction f with
  | zero => intro x k _; simp [bitWidth]
  | succ f ih =>
    intro x k h
    simp only [bitWidth]
    by_cases h0 : x = 0
    · simp [h0]
    · simp only [h0, ↓reduceIte]
      cases k with
      | zero => simp at h; omega
      | succ k =>
        have := ih (x / 2) k (by rw [Nat.pow_succ] at h; omega)
        omega

theorem alphabetBits_facts (A : Nat) (h1 : 1 ≤ A) (hA : A ≤ 65536) :
    alphabetBits A ≤ 56 ∧ ∀ a, a < A → a < 2 ^ alphabetBits A := by
  unfold alphabetBits
  have hlt : A - 1 < 2 ^ 16 := by
    have : (2:Nat) ^ 16 = 65536 := by decide
    omega
  refine ⟨by have := bitWidth_le 64 (A - 1) 16 hlt; omega, ?_⟩
  intro a ha
  have h64 : A - 1 < 2 ^ 64 := by
    have : (2:Nat) ^ 16 ≤ 2 ^ 64 := Nat.pow_le_pow_right (by decide) (by decide)
    omega
  have := lt_pow_bitWidth 64 (A - 1) h64
  omega


/-! ### a depth vector with 2..4 used symbols, stored in the simple form -/

/-- what the builders guarantee about `d1[..len]` for the histogram `h` -/
structure SimpleIn (h d1 : List Nat) (len : Nat) : Prop where
  hl : len ≤ d1.length
  hsupp : ∀ v, v < len → (d1.getD v 0 ≠ 0 ↔ h.getD v 0 ≠ 0)
  hlim : ∀ v, v < len → d1.getD v 0 ≤ 15
  hcnt : ∀ v, v < len → d1.getD v 0 + 1 ≤ (ascNZ h len 0).length
  hkraft : kraftSum 15 (d1.take len) = 32768

theorem take_eq_placeLens (h d1 : List Nat) (len : Nat) (hin : SimpleIn h d1 len) :
    d1.take len = placeLens len (ascNZ h len 0) ((ascNZ h len 0).map fun x => d1.getD x 0) := by
  have hlt : ∀ s ∈ ascNZ h len 0, s < len := by
    intro s hs; have := (mem_ascNZ h len 0 s).mp hs; omega
  obtain ⟨h1, h2⟩ := placeLens_spec len (fun x => d1.getD x 0) _ hlt
  apply ext_getD
  · rw [h1, List.length_take]; have := hin.hl; omega
  · intro x
    rw [h2 x]
    by_cases hx : x < len
    · have e : (d1.take len).getD x 0 = d1.getD x 0 := by
        simp [List.getD_eq_getElem?_getD, hx]
      rw [e]
      by_cases hm : x ∈ ascNZ h len 0
      · rw [if_pos hm]
      · rw [if_neg hm]
        by_cases hz : d1.getD x 0 = 0
        · exact hz
        · exfalso
          apply hm
          rw [mem_ascNZ]
          exact ⟨Nat.zero_le _, by omega, (hin.hsupp x hx).mp hz⟩
    · have e : (d1.take len).getD x 0 = 0 := by
        simp [List.getD_eq_getElem?_getD, List.getElem?_take, hx]
      rw [e, if_neg]
      intro hm
      have := (mem_ascNZ h len 0 x).mp hm
      omega

theorem key_facts (h d1 : List Nat) (len : Nat) (hin : SimpleIn h d1 len) :
    ((ascNZ h len 0).map fun x => kterm (d1.getD x 0)).sum = 32768 ∧
    ∀ s ∈ ascNZ h len 0, s < len ∧ d1.getD s 0 ≠ 0 ∧ d1.getD s 0 + 1 ≤ (ascNZ h len 0).length := by
  have hlt : ∀ s ∈ ascNZ h len 0, s < len := by
    intro s hs; have := (mem_ascNZ h len 0 s).mp hs; omega
  constructor
  · have := kraft_placeLens len (fun x => d1.getD x 0) _ (nodup_ascNZ h len 0) hlt
    rw [← take_eq_placeLens h d1 len hin, hin.hkraft] at this
    exact this.symm
  · intro s hs
    have hm := (mem_ascNZ h len 0 s).mp hs
    have hsl : s < len := by omega
    exact ⟨hsl, (hin.hsupp s hsl).mpr hm.2.2, hin.hcnt s hsl⟩

/-- the simple forms NSYM = 2, 3, 4 in general: `StoreSimpleHuffmanTree` on such a
vector (symbols = the used ones in ascending order, as the histogram scan leaves
them) is read back to `d1[..len]` padded to the alphabet size -/
theorem simple_from_depths (h d1 : List Nat) (len A : Nat) (wr rest : List Bool)
    (hin : SimpleIn h d1 len) (hu : ∀ s ∈ ascNZ h len 0, s < A) (hA : A ≤ 65536)
    (hn : 2 ≤ (ascNZ h len 0).length ∧ (ascNZ h len 0).length ≤ 4) :
    ∃ bits, storeSimpleHuffmanTree d1 (fillS [0, 0, 0, 0] 0 (ascNZ h len 0))
        (ascNZ h len 0).length (alphabetBits A) wr = .ok (wr ++ bits) ∧
      readPrefixCode A (bits ++ rest)
        = some ((d1.take len ++ List.replicate (A - len) 0).take A, rest) := by
  obtain ⟨hsum, hfacts⟩ := key_facts h d1 len hin
  have hlen1 : 1 ≤ len ∧ 1 ≤ A := by
    cases hL : ascNZ h len 0 with
    | nil => rw [hL] at hn; simp at hn
    | cons a _ =>
      have := (hfacts a (by rw [hL]; simp)).1
      have := hu a (by rw [hL]; simp)
      omega
  obtain ⟨hw56, hbits⟩ := alphabetBits_facts A (by omega) hA
  have hd0 : 0 < d1.length := by have := hin.hl; omega
  have hget : ∀ a, a < len → getAt d1 a = .ok (d1.getD a 0) :=
    fun a ha => getAt_getD d1 a (by have := hin.hl; omega)
  have hz15 : d1.getD 0 0 < 16 := by have := hin.hlim 0 (by omega); omega
  have hlt : (d1.take len).length = len := by rw [List.length_take]; have := hin.hl; omega
  -- finish from `simple_core`
  have finish : ∀ (a0 a1 a2 a3 : Nat) (n : Nat), (n = 2 ∨ n = 3 ∨ n = 4) →
      [a0, a1, a2, a3].take n = ascNZ h len 0 → (∀ a ∈ [a0, a1, a2, a3], a < len ∧ a < A) →
      chkSort [d1.getD a0 0, d1.getD a1 0, d1.getD a2 0, d1.getD a3 0] n = true →
      ∃ bits, storeSimpleHuffmanTree d1 [a0, a1, a2, a3] n (alphabetBits A) wr = .ok (wr ++ bits) ∧
        readPrefixCode A (bits ++ rest)
          = some ((d1.take len ++ List.replicate (A - len) 0).take A, rest) := by
    intro a0 a1 a2 a3 n hn3 htake hall hchk
    obtain ⟨bits, V, hst, hrd, hVl, hVg⟩ := simple_core d1 A n a0 a1 a2 a3 _ _ _ _ wr rest hn3 hw56
      (hget a0 (hall a0 (by simp)).1) (hget a1 (hall a1 (by simp)).1) (hget a2 (hall a2 (by simp)).1)
      (hget a3 (hall a3 (by simp)).1) hchk
      (fun a ha => hbits a (hall a ha).2)
      (fun a ha => (hall a (List.mem_of_mem_take ha)).2)
    refine ⟨bits, hst, ?_⟩
    rw [hrd]
    congr 2
    apply ext_getD
    · rw [hVl, List.length_take, List.length_append, hlt, List.length_replicate]
      omega
    · intro x
      rw [hVg x, htake]
      have hR : ((d1.take len ++ List.replicate (A - len) 0).take A).getD x 0
          = if x < A ∧ x < len then d1.getD x 0 else 0 := by
        rw [List.getD_eq_getElem?_getD, List.getElem?_take]
        by_cases hxA : x < A
        · rw [if_pos hxA]
          by_cases hx : x < len
          · rw [List.getElem?_append_left (by omega), if_pos ⟨hxA, hx⟩]
            simp [List.getD_eq_getElem?_getD, hx]
          · rw [List.getElem?_append_right (by omega), List.getElem?_replicate,
              if_neg (fun h : x < A ∧ x < len => hx h.2)]
            split <;> rfl
        · rw [if_neg hxA, if_neg (by omega)]; rfl
      rw [hR]
      by_cases hm : x ∈ ascNZ h len 0
      · have := (mem_ascNZ h len 0 x).mp hm
        rw [if_pos hm, if_pos ⟨hu x hm, by omega⟩]
      · rw [if_neg hm]
        by_cases hx : x < A ∧ x < len
        · rw [if_pos hx]
          by_cases hz : d1.getD x 0 = 0
          · exact hz.symm
          · exfalso
            apply hm
            rw [mem_ascNZ]
            exact ⟨Nat.zero_le _, by omega, (hin.hsupp x hx.2).mp hz⟩
        · rw [if_neg hx]
  -- the three possible numbers of symbols
  match hL : ascNZ h len 0, hn with
  | [a, b], _ =>
    rw [hL] at hfacts hsum
    have ha := hfacts a (by simp)
    have hb := hfacts b (by simp)
    simp only [List.length_cons, List.length_nil] at ha hb
    have hka : d1.getD a 0 = 1 := by omega
    have hkb : d1.getD b 0 = 1 := by omega
    simp only [fillS, List.set_cons_zero, List.set_cons_succ, List.length_cons, List.length_nil]
    apply finish a b 0 0 2 (Or.inl rfl) (by rw [hL]; rfl)
      (by
        have hua := hu a (by rw [hL]; simp)
        have hub := hu b (by rw [hL]; simp)
        intro x hx; simp at hx; rcases hx with rfl | rfl | rfl | rfl <;> omega)
    rw [hka, hkb]
    exact sort2_fact ⟨d1.getD 0 0, hz15⟩ ⟨d1.getD 0 0, hz15⟩
  | [a, b, c], _ =>
    rw [hL] at hfacts hsum
    have ha := hfacts a (by simp)
    have hb := hfacts b (by simp)
    have hc := hfacts c (by simp)
    simp only [List.length_cons, List.length_nil] at ha hb hc
    simp only [List.map_cons, List.map_nil, List.sum_cons, List.sum_nil, Nat.add_zero] at hsum
    simp only [fillS, List.set_cons_zero, List.set_cons_succ, List.length_cons, List.length_nil]
    apply finish a b c 0 3 (Or.inr (Or.inl rfl)) (by rw [hL]; rfl)
      (by
        have hua := hu a (by rw [hL]; simp)
        have hub := hu b (by rw [hL]; simp)
        have huc := hu c (by rw [hL]; simp)
        intro x hx; simp at hx; rcases hx with rfl | rfl | rfl | rfl <;> omega)
    exact sort3_fact ⟨d1.getD a 0, by omega⟩ ⟨d1.getD b 0, by omega⟩ ⟨d1.getD c 0, by omega⟩
      ha.2.1 hb.2.1 hc.2.1 (by simpa [Nat.add_assoc] using hsum) ⟨d1.getD 0 0, hz15⟩
  | [a, b, c, e], _ =>
    rw [hL] at hfacts hsum
    have ha := hfacts a (by simp)
    have hb := hfacts b (by simp)
    have hc := hfacts c (by simp)
    have he := hfacts e (by simp)
    simp only [List.length_cons, List.length_nil] at ha hb hc he
    simp only [List.map_cons, List.map_nil, List.sum_cons, List.sum_nil, Nat.add_zero] at hsum
    simp only [fillS, List.set_cons_zero, List.set_cons_succ, List.length_cons, List.length_nil]
    apply finish a b c e 4 (Or.inr (Or.inr rfl)) (by rw [hL]; rfl)
      (by
        have hua := hu a (by rw [hL]; simp)
        have hub := hu b (by rw [hL]; simp)
        have huc := hu c (by rw [hL]; simp)
        have hue := hu e (by rw [hL]; simp)
        intro x hx; simp at hx; rcases hx with rfl | rfl | rfl | rfl <;> omega)
    exact sort4_fact ⟨d1.getD a 0, by omega⟩ ⟨d1.getD b 0, by omega⟩ ⟨d1.getD c 0, by omega⟩
      ⟨d1.getD e 0, by omega⟩ ha.2.1 hb.2.1 hc.2.1 he.2.1 (by simpa [Nat.add_assoc] using hsum)
  | [], hn' => simp at hn'
  | [_], hn' => simp at hn'
  | _ :: _ :: _ :: _ :: _ :: _, hn' => simp at hn'


/-! ### `BuildAndStoreHuffmanTree` with 2..4 symbols in use -/

theorem maxBits_eq (A : Nat) (h1 : 1 ≤ A) (hA : A ≤ 65536) :
    bitWidth 64 ((A + u64 - 1) % u64) = alphabetBits A := by
  have : (A + u64 - 1) % u64 = A - 1 := by
    have e : A + u64 - 1 = (A - 1) + u64 := by unfold u64; omega
    rw [e, Nat.add_mod_right, Nat.mod_eq_of_lt (by unfold u64; omega)]
  rw [this]; rfl

theorem ascNZ_length_filter (h : List Nat) (len : Nat) (hl : len ≤ h.length) :
    (ascNZ h len 0).length = ((h.take len).filter (· ≠ 0)).length := by
  have := length_ascNZ h len 0 (by omega)
  simpa using this

theorem simpleIn_of_good (h d0 d1 : List Nat) (len : Nat) (hl : len ≤ h.length)
    (hdl : len ≤ d0.length) (hg : GoodDepth h len 15 d0 d1) : SimpleIn h d1 len :=
  { hl := by rw [hg.hlen]; exact hdl, hsupp := hg.hsupp, hlim := hg.hlim,
    hcnt := by
      intro v hv
      have := hg.hcnt v hv
      rw [(descNZ_perm_filter h len hl).1, ← ascNZ_length_filter h len hl] at this
      exact this,
    hkraft := hg.hkraft }

/-- `BuildAndStoreHuffmanTree` when 2, 3 or 4 symbols are in use (`StoreSimpleHuffmanTree`,
NSYM = 2..4, including the sort of the symbols by depth and the tree-select bit), in a
bit-stream context: the RFC 7932 §3.4 reader returns the depths -/
theorem build_simple_roundtrip (histogram : List Nat) (len A : Nat) (tree : List Node)
    (depth bits : List Nat) (w rest : List Bool)
    (hlen : len ≤ histogram.length) (h704 : len ≤ 704) (hsum : (histogram.take len).sum ≤ 2 ^ 25)
    (hn : 2 ≤ (ascNZ histogram len 0).length ∧ (ascNZ histogram len 0).length ≤ 4)
    (htl : 2 * len + 1 ≤ tree.length) (hdl : len ≤ depth.length) (hbl : len ≤ bits.length)
    (hu : ∀ s ∈ ascNZ histogram len 0, s < A) (hA : A ≤ 65536) :
    ∃ depth' bits' sbits, buildAndStoreHuffmanTree histogram len A tree depth bits w
        = .ok (depth', bits', w ++ sbits) ∧
      GoodDepth histogram len 15 (List.replicate len 0 ++ depth.drop len) depth' ∧
      GoodBits len depth' bits bits' ∧
      readPrefixCode A (sbits ++ rest)
        = some ((depth'.take len ++ List.replicate (A - len) 0).take A, rest) := by
  have hA1 : 1 ≤ A := by
    cases hL : ascNZ histogram len 0 with
    | nil => rw [hL] at hn; simp at hn
    | cons a _ => have := hu a (by rw [hL]; simp); omega
  have hnf := ascNZ_length_filter histogram len hlen
  unfold buildAndStoreHuffmanTree
  rw [scanHistogram_full histogram len 0 0 [0, 0, 0, 0] (by omega) (by omega), maxBits_eq A hA1 hA]
  simp only [Out.bind_ok, Nat.zero_add]
  have hs4len : (fillS [0, 0, 0, 0] 0 (ascNZ histogram len 0)).length = 4 := by
    have : ∀ (L s4 : List Nat) (c : Nat), (fillS s4 c L).length = s4.length := by
      intro L
      induction L with
      | nil => intro s4 c; rfl
      | cons x xs ih => intro s4 c; simp only [fillS]; rw [ih]; simp
    rw [this]; rfl
  rw [getAt_getD _ 0 (by omega)]
  simp only [Out.bind_ok, show ¬ (ascNZ histogram len 0).length ≤ 1 by omega, ↓reduceIte]
  have hzp : zeroPrefix depth len = .ok (List.replicate len 0 ++ depth.drop len) := by
    simp [zeroPrefix, show ¬ len > depth.length by omega]
  rw [hzp]
  simp only [Out.bind_ok]
  have hf : fib (15 + 3) = 2584 := by decide
  have h1 : len * 2 ^ 15 ≤ 704 * 2 ^ 15 := Nat.mul_le_mul_right _ h704
  have e1 : (2:Nat) ^ 15 = 32768 := by decide
  have e2 : (2:Nat) ^ 25 = 33554432 := by decide
  rw [e1] at h1
  rw [e2] at hsum
  obtain ⟨d1, hd1, hg⟩ := create_total_gen histogram len 15 15 (by decide) hlen (by omega)
    (by rw [← hnf]; exact hn.1)
    tree htl (List.replicate len 0 ++ depth.drop len) (by simp)
    (zeroOff_zeroPrefix _ _ _) (by decide) (by rw [e1]; omega) (by rw [hf, e1]; omega)
  have hd1' : createHuffmanTree histogram len 15 tree (List.replicate len 0 ++ depth.drop len)
      = .ok d1 := hd1
  rw [hd1']
  simp only [Out.bind_ok]
  have hd1len : len ≤ d1.length := by rw [hg.hlen]; simp
  -- the bit patterns
  have hd15 : ∀ x ∈ d1.take len, x ≤ 15 := by
    intro x hx
    obtain ⟨i, hi, hxi⟩ := List.getElem_of_mem hx
    rw [List.length_take] at hi
    have := hg.hlim i (by omega)
    rw [List.getD_eq_getElem?_getD, List.getElem?_eq_getElem (by omega)] at this
    rw [List.getElem_take] at hxi
    simp only [Option.getD_some] at this
    omega
  obtain ⟨b1, hb1, _⟩ := convert_spec (d1.take len) bits hd15
    (by rw [List.length_take]; omega) (by rw [List.length_take]; omega)
  have hcv : convertBitDepthsToSymbols d1 len bits = .ok b1 := by
    rw [convert_take d1 len bits hd1len]; exact hb1
  rw [hcv]
  simp only [Out.bind_ok]
  rw [if_pos hn.2]
  have hgb := goodBits_of_convert d1 bits b1 len 15 (by decide) hd1len hg.hlim (by omega) hbl hcv
  obtain ⟨sbits, hst, hrd⟩ := simple_from_depths histogram d1 len A w rest
    (simpleIn_of_good histogram _ d1 len hlen (by simp) hg) hu hA hn
  rw [hst]
  simp only [Out.bind_ok]
  exact ⟨d1, b1, sbits, rfl, hg, hgb, hrd⟩


/-! ### NSYM = 1 -/

theorem placeLens_single (A s0 : Nat) : placeLens A [s0] [0] = List.replicate A 0 := by
  simp only [placeLens]
  apply ext_getD
  · simp
  · intro x
    by_cases h : s0 < A
    · rw [getD_set _ _ _ _ (by simpa using h)]
      split
      · rw [replicate_getD]
      · rfl
    · rw [List.set_eq_of_length_le (by simp; omega)]

/-- the single-symbol description: 4 bits `1`, then the symbol -/
theorem readSingle_spec (A s0 : Nat) (rest : List Bool) (h0 : s0 < 2 ^ alphabetBits A) :
    readPrefixCode A (bitsOf 4 1 ++ (bitsOf (alphabetBits A) s0 ++ rest))
      = some (List.replicate A 0, rest) := by
  have e : bitsOf 4 1 = bitsOf 2 1 ++ bitsOf 2 0 := by decide
  unfold readPrefixCode
  rw [e, List.append_assoc, takeBits_bitsOf 2 1 _ (by decide)]
  simp only [Option.bind_eq_bind, Option.bind_some, ↓reduceIte]
  rw [takeBits_bitsOf 2 0 _ (by decide)]
  simp only [Option.bind_some]
  rw [takeBits_bitsOf _ s0 _ h0]
  simp [placeLens_single]

/-- `BuildAndStoreHuffmanTree` when at most one symbol is in use (NSYM = 1): the symbol
is stored, its depth and bit pattern are zeroed, and the reader gets the all-zero vector
(a code with a single symbol has a code word of length zero) -/
theorem build_single_roundtrip (histogram : List Nat) (len A : Nat) (tree : List Node)
    (depth bits : List Nat) (w rest : List Bool)
    (hlen : len ≤ histogram.length) (hn : (ascNZ histogram len 0).length ≤ 1)
    (hs : (ascNZ histogram len 0).headD 0 < A) (hA1 : 1 ≤ A) (hA : A ≤ 65536)
    (hsd : (ascNZ histogram len 0).headD 0 < depth.length)
    (hsb : (ascNZ histogram len 0).headD 0 < bits.length) :
    ∃ sbits, sbits = bitsOf 4 1 ++ bitsOf (alphabetBits A) ((ascNZ histogram len 0).headD 0) ∧
      buildAndStoreHuffmanTree histogram len A tree depth bits w
        = .ok (depth.set ((ascNZ histogram len 0).headD 0) 0,
               bits.set ((ascNZ histogram len 0).headD 0) 0, w ++ sbits) ∧
      readPrefixCode A (sbits ++ rest) = some (List.replicate A 0, rest) := by
  obtain ⟨hw56, hbits⟩ := alphabetBits_facts A hA1 hA
  unfold buildAndStoreHuffmanTree
  rw [scanHistogram_full histogram len 0 0 [0, 0, 0, 0] (by omega) (by omega), maxBits_eq A hA1 hA]
  simp only [Out.bind_ok, Nat.zero_add]
  have hs40 : getAt (fillS [0, 0, 0, 0] 0 (ascNZ histogram len 0)) 0
      = .ok ((ascNZ histogram len 0).headD 0) := by
    match hL : ascNZ histogram len 0, hn with
    | [], _ => rfl
    | [a], _ => rfl
    | _ :: _ :: _, hn' => simp at hn'
  rw [hs40]
  simp only [Out.bind_ok]
  rw [if_pos hn, writeBits_ok 4 1 w (by decide) (by decide)]
  simp only [Out.bind_ok]
  have hwm : alphabetBits A % 256 = alphabetBits A := Nat.mod_eq_of_lt (by omega)
  rw [hwm, writeBits_ok _ _ _ (hbits _ hs) hw56]
  simp only [Out.bind_ok]
  rw [setAt_of_lt depth _ 0 hsd, setAt_of_lt bits _ 0 hsb]
  simp only [Out.bind_ok]
  refine ⟨bitsOf 4 1 ++ bitsOf (alphabetBits A) ((ascNZ histogram len 0).headD 0), rfl, ?_, ?_⟩
  · simp [List.append_assoc]
  · rw [List.append_assoc]
    exact readSingle_spec A _ rest (hbits _ hs)


/-! ### the fast builder (`BrotliBuildAndStoreHuffmanTreeFast`), at most four symbols -/

/-- the scan of the fast builder in terms of the used symbols -/
theorem fastScan_full (histogram : List Nat) : ∀ (hs : List Nat) (total len0 count : Nat)
    (symbols : List Nat) (c' len' : Nat) (s' : List Nat), hs = histogram.drop len0 →
    fastScan hs total len0 count symbols = .ok (c', s', len') →
    len0 ≤ len' ∧ len' ≤ max len0 histogram.length ∧
      c' = count + (ascNZ histogram (len' - len0) len0).length ∧
      (c' ≤ 4 → s' = fillS symbols count (ascNZ histogram (len' - len0) len0)) := by
  intro hs
  induction hs with
  | nil =>
    intro total len0 count symbols c' len' s' _ h
    simp only [fastScan] at h
    split at h
    · injection h with h; injection h with h1 h2; injection h2 with h2 h3
      subst h1 h2 h3
      simp [ascNZ, fillS]; omega
    · cases h
  | cons x xs ih =>
    intro total len0 count symbols c' len' s' hdrop h
    have hl0 : len0 < histogram.length := by
      by_cases hlt : len0 < histogram.length
      · exact hlt
      · rw [List.drop_eq_nil_of_le (by omega)] at hdrop; cases hdrop
    have hx : histogram.getD len0 0 = x := by
      rw [List.drop_eq_getElem_cons hl0] at hdrop
      injection hdrop with h1 h2
      rw [List.getD_eq_getElem?_getD, List.getElem?_eq_getElem hl0]; simp [h1]
    have hxs : xs = histogram.drop (len0 + 1) := by
      rw [List.drop_eq_getElem_cons hl0] at hdrop
      injection hdrop with h1 h2
    simp only [fastScan] at h
    by_cases ht : total = 0
    · simp only [ht, ↓reduceIte] at h
      injection h with h; injection h with h1 h2; injection h2 with h2 h3
      subst h1 h2 h3
      simp [ascNZ, fillS]; omega
    · simp only [ht, ↓reduceIte] at h
      by_cases hx0 : x = 0
      · simp only [hx0, ne_eq, not_true_eq_false, ↓reduceIte] at h
        obtain ⟨a, b, c, d⟩ := ih total (len0 + 1) count symbols c' len' s' hxs h
        have e : len' - len0 = (len' - (len0 + 1)) + 1 := by omega
        refine ⟨by omega, by omega, ?_, ?_⟩
        · rw [e]; simp only [ascNZ, hx, hx0, ↓reduceIte]; exact c
        · rw [e]; simp only [ascNZ, hx, hx0, ↓reduceIte]; exact d
      · simp only [ne_eq, hx0, not_false_eq_true, ↓reduceIte] at h
        obtain ⟨a, b, c, d⟩ := ih _ (len0 + 1) (count + 1) _ c' len' s' hxs h
        have e : len' - len0 = (len' - (len0 + 1)) + 1 := by omega
        refine ⟨by omega, by omega, ?_, ?_⟩
        · rw [e]; simp only [ascNZ, hx, hx0, ↓reduceIte, List.length_cons]; omega
        · intro hc4
          rw [e]; simp only [ascNZ, hx, hx0, ↓reduceIte, fillS]
          have hcnt : count < 4 := by omega
          rw [if_pos hcnt] at d
          exact d hc4

theorem kraft15_of_14 (l : List Nat) (h : ∀ x ∈ l, x ≤ 14) (hk : kraftSum 14 l = 2 ^ 14) :
    kraftSum 15 l = 32768 := by
  have := BV.Lemmas.HuffmanStoreTree.kraft_scale 14 1 l h
  rw [show 14 + 1 = 15 from rfl, hk] at this
  rw [this]

theorem simpleIn_of_good14 (h d0 d1 : List Nat) (len : Nat) (hl : len ≤ h.length)
    (hdl : len ≤ d0.length) (hg : GoodDepth h len 14 d0 d1) : SimpleIn h d1 len :=
  { hl := by rw [hg.hlen]; exact hdl, hsupp := hg.hsupp,
    hlim := fun v hv => by have := hg.hlim v hv; omega,
    hcnt := by
      intro v hv
      have := hg.hcnt v hv
      rw [(descNZ_perm_filter h len hl).1, ← ascNZ_length_filter h len hl] at this
      exact this,
    hkraft := by
      apply kraft15_of_14 _ _ hg.hkraft
      intro x hx
      obtain ⟨i, hi, hxi⟩ := List.getElem_of_mem hx
      rw [List.length_take] at hi
      have hdl1 : len ≤ d1.length := by rw [hg.hlen]; exact hdl
      have := hg.hlim i (by omega)
      rw [List.getD_eq_getElem?_getD, List.getElem?_eq_getElem (by omega)] at this
      rw [List.getElem_take] at hxi
      simp only [Option.getD_some] at this
      omega }

/-- `BrotliBuildAndStoreHuffmanTreeFast` when 2, 3 or 4 symbols are in use -/
theorem fast_simple_roundtrip (histogram : List Nat) (total A : Nat) (depth bits : List Nat)
    (w rest : List Bool) (count length : Nat) (symbols : List Nat)
    (hscan : fastScan histogram total 0 0 [0, 0, 0, 0] = .ok (count, symbols, length))
    (hc : 2 ≤ count ∧ count ≤ 4) (h704 : histogram.length ≤ 704) (hsum : histogram.sum ≤ 2 ^ 25)
    (hdl : length ≤ depth.length) (hbl : length ≤ bits.length)
    (hu : ∀ s ∈ ascNZ histogram length 0, s < A) (hA : A ≤ 65536) :
    ∃ depth' bits' sbits, buildAndStoreHuffmanTreeFast histogram total (alphabetBits A) depth bits w
        = .ok (depth', bits', w ++ sbits) ∧
      GoodDepth histogram length 14 (List.replicate length 0 ++ depth.drop length) depth' ∧
      GoodBits length depth' bits bits' ∧
      readPrefixCode A (sbits ++ rest)
        = some ((depth'.take length ++ List.replicate (A - length) 0).take A, rest) := by
  obtain ⟨_, hl, hcnt, hsym⟩ := fastScan_full histogram histogram total 0 0 [0, 0, 0, 0] count length
    symbols rfl hscan
  simp only [Nat.sub_zero, Nat.zero_add, Nat.zero_le, Nat.max_eq_right] at hl hcnt hsym
  have hsym' := hsym hc.2
  have hn : 2 ≤ (ascNZ histogram length 0).length ∧ (ascNZ histogram length 0).length ≤ 4 := by
    omega
  have hnf := ascNZ_length_filter histogram length hl
  unfold buildAndStoreHuffmanTreeFast
  rw [hscan]
  simp only [Out.bind_ok]
  have hs4len : symbols.length = 4 := by
    rw [hsym']
    have : ∀ (L s4 : List Nat) (c : Nat), (fillS s4 c L).length = s4.length := by
      intro L
      induction L with
      | nil => intro s4 c; rfl
      | cons x xs ih => intro s4 c; simp only [fillS]; rw [ih]; simp
    rw [this]; rfl
  rw [getAt_getD symbols 0 (by omega)]
  simp only [Out.bind_ok]
  rw [if_neg (by omega)]
  have hzp : zeroPrefix depth length = .ok (List.replicate length 0 ++ depth.drop length) := by
    simp [zeroPrefix, show ¬ length > depth.length by omega]
  rw [hzp]
  simp only [Out.bind_ok]
  have hf : fib 17 = 1597 := by decide
  have e1 : (2:Nat) ^ 16 = 65536 := by decide
  have e2 : (2:Nat) ^ 25 = 33554432 := by decide
  have h1 : length * 2 ^ 16 ≤ 704 * 2 ^ 16 := Nat.mul_le_mul_right _ (by omega)
  have hst := sum_take_le histogram length
  rw [e1] at h1
  rw [e2] at hsum
  obtain ⟨d1, hd1, hg⟩ := fast_total histogram length 16 hl (by omega) (by rw [← hnf]; exact hn.1)
    (List.replicate length 0 ++ depth.drop length) (by simp)
    (zeroOff_zeroPrefix _ _ _) (by decide) (by rw [e1]; omega) (by rw [hf, e1]; omega)
  rw [hd1]
  simp only [Out.bind_ok]
  have hd1len : length ≤ d1.length := by rw [hg.hlen]; simp
  have hd15 : ∀ x ∈ d1.take length, x ≤ 15 := by
    intro x hx
    obtain ⟨i, hi, hxi⟩ := List.getElem_of_mem hx
    rw [List.length_take] at hi
    have := hg.hlim i (by omega)
    rw [List.getD_eq_getElem?_getD, List.getElem?_eq_getElem (by omega)] at this
    rw [List.getElem_take] at hxi
    simp only [Option.getD_some] at this
    omega
  obtain ⟨b1, hb1, _⟩ := convert_spec (d1.take length) bits hd15
    (by rw [List.length_take]; omega) (by rw [List.length_take]; omega)
  have hcv : convertBitDepthsToSymbols d1 length bits = .ok b1 := by
    rw [convert_take d1 length bits hd1len]; exact hb1
  rw [hcv]
  simp only [Out.bind_ok]
  rw [if_pos hc.2]
  have hgb := goodBits_of_convert d1 bits b1 length 14 (by decide) hd1len hg.hlim (by omega) hbl hcv
  obtain ⟨sbits, hst, hrd⟩ := simple_from_depths histogram d1 length A w rest
    (simpleIn_of_good14 histogram _ d1 length hl (by simp) hg) hu hA hn
  -- the inlined simple writer of the fast builder is `StoreSimpleHuffmanTree`
  have hm : (count + u64 - 1) % u64 = count - 1 := by
    have e : count + u64 - 1 = (count - 1) + u64 := by unfold u64; omega
    rw [e, Nat.add_mod_right, Nat.mod_eq_of_lt (by unfold u64; omega)]
  unfold storeSimpleHuffmanTree at hst
  rw [← hcnt, ← hsym', hm] at hst
  cases ha : writeBits 2 1 w with
  | panic => rw [ha] at hst; cases hst
  | fuel => rw [ha] at hst; cases hst
  | ok w1 =>
    rw [ha] at hst
    simp only [Out.bind_ok] at hst ⊢
    cases hb : writeBits 2 (count - 1) w1 with
    | panic => rw [hb] at hst; cases hst
    | fuel => rw [hb] at hst; cases hst
    | ok w2 =>
      rw [hb] at hst
      simp only [Out.bind_ok] at hst ⊢
      cases hcs : sortSymbolsOuter d1 count count 0 symbols with
      | panic => rw [hcs] at hst; cases hst
      | fuel => rw [hcs] at hst; cases hst
      | ok s2 =>
        rw [hcs] at hst
        simp only [Out.bind_ok] at hst ⊢
        rw [hst]
        simp only [Out.bind_ok]
        exact ⟨d1, b1, sbits, rfl, hg, hgb, hrd⟩


/-- `BrotliBuildAndStoreHuffmanTreeFast` when at most one symbol is in use -/
theorem fast_single_roundtrip (histogram : List Nat) (total A : Nat) (depth bits : List Nat)
    (w rest : List Bool) (count length : Nat) (symbols : List Nat)
    (hscan : fastScan histogram total 0 0 [0, 0, 0, 0] = .ok (count, symbols, length))
    (hc : count ≤ 1) (hs : symbols.getD 0 0 < A) (hA1 : 1 ≤ A) (hA : A ≤ 65536)
    (hsd : symbols.getD 0 0 < depth.length) (hsb : symbols.getD 0 0 < bits.length) :
    ∃ sbits, sbits = bitsOf 4 1 ++ bitsOf (alphabetBits A) (symbols.getD 0 0) ∧
      buildAndStoreHuffmanTreeFast histogram total (alphabetBits A) depth bits w
        = .ok (depth.set (symbols.getD 0 0) 0, bits.set (symbols.getD 0 0) 0, w ++ sbits) ∧
      readPrefixCode A (sbits ++ rest) = some (List.replicate A 0, rest) := by
  obtain ⟨hw56, hbits⟩ := alphabetBits_facts A hA1 hA
  obtain ⟨_, _, _, hsym⟩ := fastScan_full histogram histogram total 0 0 [0, 0, 0, 0] count length
    symbols rfl hscan
  have hs4len : symbols.length = 4 := by
    rw [hsym (by omega)]
    have : ∀ (L s4 : List Nat) (c : Nat), (fillS s4 c L).length = s4.length := by
      intro L
      induction L with
      | nil => intro s4 c; rfl
      | cons x xs ih => intro s4 c; simp only [fillS]; rw [ih]; simp
    rw [this]; rfl
  unfold buildAndStoreHuffmanTreeFast
  rw [hscan]
  simp only [Out.bind_ok]
  rw [getAt_getD symbols 0 (by omega)]
  simp only [Out.bind_ok]
  rw [if_pos hc, writeBits_ok 4 1 w (by decide) (by decide)]
  simp only [Out.bind_ok]
  have hwm : alphabetBits A % 256 = alphabetBits A := Nat.mod_eq_of_lt (by omega)
  rw [hwm, writeBits_ok _ _ _ (hbits _ hs) hw56]
  simp only [Out.bind_ok]
  rw [setAt_of_lt depth _ 0 hsd, setAt_of_lt bits _ 0 hsb]
  simp only [Out.bind_ok]
  refine ⟨bitsOf 4 1 ++ bitsOf (alphabetBits A) (symbols.getD 0 0), rfl, ?_, ?_⟩
  · simp [List.append_assoc]
  · rw [List.append_assoc]
    exact readSingle_spec A _ rest (hbits _ hs)


/-! ### `BuildAndStoreHuffmanTree` with five or more symbols in use (complex form) -/

theorem scanHistogram_ge5 (histogram : List Nat) : ∀ (cnt i count : Nat) (s4 : List Nat),
    i + cnt ≤ histogram.length → s4.length = 4 → 5 ≤ count + (ascNZ histogram cnt i).length →
    ∃ c' s4', scanHistogram histogram cnt i count s4 = .ok (c', s4') ∧ 5 ≤ c' ∧ s4'.length = 4 := by
  intro cnt
  induction cnt with
  | zero => intro i count s4 _ hs h; exact ⟨count, s4, rfl, by simpa [ascNZ] using h, hs⟩
  | succ cnt ih =>
    intro i count s4 hlen hs h5
    have hi : i < histogram.length := by omega
    simp only [scanHistogram, getAt_getD histogram i hi, Out.bind_ok, ascNZ] at h5 ⊢
    by_cases h0 : histogram.getD i 0 = 0
    · simp only [h0, ne_eq, not_true_eq_false, ↓reduceIte] at h5 ⊢
      exact ih (i + 1) count s4 (by omega) hs h5
    · simp only [ne_eq, h0, not_false_eq_true, ↓reduceIte, List.length_cons] at h5 ⊢
      by_cases hc4 : count < 4
      · simp only [hc4, ↓reduceIte]
        exact ih (i + 1) (count + 1) (s4.set count i) (by omega) (by simp [hs]) (by omega)
      · simp only [hc4, ↓reduceIte]
        by_cases hc5 : count > 4
        · simp only [hc5, ↓reduceIte]
          exact ⟨count, s4, rfl, by omega, hs⟩
        · simp only [hc5, ↓reduceIte]
          exact ih (i + 1) (count + 1) s4 (by omega) hs (by omega)

/-- `BuildAndStoreHuffmanTree` when five or more symbols are in use, in a bit-stream
context and read with an alphabet size `A` below which all used symbols lie -/
theorem build_complex_roundtrip (histogram : List Nat) (len A : Nat) (tree : List Node)
    (depth bits : List Nat) (w rest : List Bool) (alphabetSize : Nat)
    (hlen : len ≤ histogram.length) (h704 : len ≤ 704) (hsum : (histogram.take len).sum ≤ 2 ^ 25)
    (hn : 5 ≤ (ascNZ histogram len 0).length)
    (htl : 2 * len + 1 ≤ tree.length) (ht37 : 37 ≤ tree.length) (hdl : len ≤ depth.length)
    (hbl : len ≤ bits.length) (hA : A ≤ len) (hu : ∀ s ∈ ascNZ histogram len 0, s < A) :
    ∃ depth' bits' sbits, buildAndStoreHuffmanTree histogram len alphabetSize tree depth bits w
        = .ok (depth', bits', w ++ sbits) ∧
      GoodDepth histogram len 15 (List.replicate len 0 ++ depth.drop len) depth' ∧
      GoodBits len depth' bits bits' ∧
      readPrefixCode A (sbits ++ rest) = some (depth'.take A, rest) := by
  have hnf := ascNZ_length_filter histogram len hlen
  obtain ⟨count, s4, hsc, hc5, hs4⟩ := scanHistogram_ge5 histogram len 0 0 [0, 0, 0, 0] (by omega) rfl
    (by omega)
  unfold buildAndStoreHuffmanTree
  rw [hsc]
  simp only [Out.bind_ok]
  rw [getAt_getD s4 0 (by omega)]
  simp only [Out.bind_ok]
  rw [if_neg (by omega)]
  have hzp : zeroPrefix depth len = .ok (List.replicate len 0 ++ depth.drop len) := by
    simp [zeroPrefix, show ¬ len > depth.length by omega]
  rw [hzp]
  simp only [Out.bind_ok]
  have hf : fib (15 + 3) = 2584 := by decide
  have h1 : len * 2 ^ 15 ≤ 704 * 2 ^ 15 := Nat.mul_le_mul_right _ h704
  have e1 : (2:Nat) ^ 15 = 32768 := by decide
  have e2 : (2:Nat) ^ 25 = 33554432 := by decide
  rw [e1] at h1
  rw [e2] at hsum
  obtain ⟨d1, hd1, hg⟩ := create_total_gen histogram len 15 15 (by decide) hlen (by omega)
    (by rw [← hnf]; omega)
    tree htl (List.replicate len 0 ++ depth.drop len) (by simp)
    (zeroOff_zeroPrefix _ _ _) (by decide) (by rw [e1]; omega) (by rw [hf, e1]; omega)
  have hd1' : createHuffmanTree histogram len 15 tree (List.replicate len 0 ++ depth.drop len)
      = .ok d1 := hd1
  rw [hd1']
  simp only [Out.bind_ok]
  have hd1len : len ≤ d1.length := by rw [hg.hlen]; simp
  have hd15 : ∀ x ∈ d1.take len, x ≤ 15 := by
    intro x hx
    obtain ⟨i, hi, hxi⟩ := List.getElem_of_mem hx
    rw [List.length_take] at hi
    have := hg.hlim i (by omega)
    rw [List.getD_eq_getElem?_getD, List.getElem?_eq_getElem (by omega)] at this
    rw [List.getElem_take] at hxi
    simp only [Option.getD_some] at this
    omega
  obtain ⟨b1, hb1, _⟩ := convert_spec (d1.take len) bits hd15
    (by rw [List.length_take]; omega) (by rw [List.length_take]; omega)
  have hcv : convertBitDepthsToSymbols d1 len bits = .ok b1 := by
    rw [convert_take d1 len bits hd1len]; exact hb1
  rw [hcv]
  simp only [Out.bind_ok]
  rw [if_neg (by omega)]
  have hgb := goodBits_of_convert d1 bits b1 len 15 (by decide) hd1len hg.hlim (by omega) hbl hcv
  obtain ⟨sbits, hst, hrd⟩ := BV.Lemmas.HuffmanStoreTree.store_tree_roundtrip_ctx d1 len A tree w rest
    hd1len h704 hd15 hg.hkraft ht37 hA (by
      intro i hi1 hi2
      by_cases hz : d1.getD i 0 = 0
      · exact hz
      · exfalso
        have := (hg.hsupp i hi2).mp hz
        have hm : i ∈ ascNZ histogram len 0 := (mem_ascNZ histogram len 0 i).mpr ⟨by omega, by omega, this⟩
        have := hu i hm
        omega)
  rw [hst]
  simp only [Out.bind_ok]
  exact ⟨d1, b1, sbits, rfl, hg, hgb, hrd⟩

end BV.Lemmas.HuffmanSimple
