/-
C01 / fragment writers, part 8: the index lists of `BuildAndStoreCommandPrefixCode` (two-pass) and what they
imply for an arbitrary depth array `D` with `D[0] = D[40] = 0`: the stored 704-entry vector `gat D idxC` has the
non-zero entries of the permuted 64-entry vector `gat D idxP` in the same order (`nz_all`, prefix-wise
`canon_stored`), hence the same canonical codes and the same Kraft sum as `D[0..64]` (`kraft_stored`).
-/
import BV.Lemmas.FragmentCode
namespace BV.Fragment
open BV.Bits BV.Huffman

/-- which command code the stored vector holds at each of the 704 symbols -/
def idxC : List Nat := (List.range 704).map invSym

theorem idxC_len : idxC.length = 704 := by simp [idxC]

theorem idxC_get (s : Nat) (h : s < 704) : idxC.getD s 0 = invSym s := by
  unfold idxC
  rw [List.getD_eq_getElem?_getD, List.getElem?_map, List.getElem?_range h]
  rfl

/-- the labels that can carry a non-zero depth: a command code other than 0 and 40 -/
def pK (k : Nat) : Bool := k != 0 && k != 40 && decide (k < 128)

theorem idx_all : idxC.filter pK = idxP.filter pK := by decide +kernel

def idxChk (c : Nat) : Bool :=
  !(pK c) || (invSym (q1Symbol c) == c && decide (q1Symbol c < 704) && idxP.getD (idxB.getD c 0) 0 == c &&
    decide (idxB.getD c 0 < 64) &&
    (idxC.take (q1Symbol c)).filter pK == (idxP.take (idxB.getD c 0)).filter pK)

theorem idx_each' : (List.range 64).all idxChk = true := by decide +kernel

theorem idx_each (c : Nat) (h : c < 64) (hp : pK c = true) :
    invSym (q1Symbol c) = c ∧ q1Symbol c < 704 ∧ idxP.getD (idxB.getD c 0) 0 = c ∧ idxB.getD c 0 < 64 ∧
    (idxC.take (q1Symbol c)).filter pK = (idxP.take (idxB.getD c 0)).filter pK := by
  have := List.all_eq_true.mp idx_each' c (List.mem_range.mpr h)
  simp [idxChk, hp] at this
  obtain ⟨⟨⟨⟨a, b⟩, c'⟩, d⟩, e⟩ := this
  simp
  exact ⟨a, b, c', d, e⟩

theorem idxP_perm : idxP.Perm (List.range 64) := by decide +kernel

theorem idxP_len : idxP.length = 64 := by decide
theorem idxB_len : idxB.length = 64 := by decide
theorem idxP_lt : ∀ k ∈ idxP, k < 64 := by decide +kernel

theorem invSym_range' : (List.range 704).all (fun s => decide (invSym s < 64) || invSym s == 128) = true := by
  decide +kernel

theorem invSym_range (s : Nat) (h : s < 704) : invSym s < 64 ∨ invSym s = 128 := by
  have := List.all_eq_true.mp invSym_range' s (List.mem_range.mpr h)
  simpa using this

/-- gather: the depth array read through a list of labels -/
def gat (D : List Nat) (idx : List Nat) : List Nat := idx.map fun k => D.getD k 0

theorem gat_range (D : List Nat) : gat D (List.range D.length) = D := by
  apply List.ext_getElem?
  intro i
  unfold gat
  rw [List.getElem?_map]
  by_cases h : i < D.length
  · rw [List.getElem?_range h, List.getElem?_eq_getElem h]
    simp [List.getD_eq_getElem?_getD, h]
  · rw [List.getElem?_eq_none (by simpa using h), List.getElem?_eq_none (by simpa using h)]
    rfl

theorem gat_zero (D : List Nat) (n : Nat) : gat D (List.replicate n D.length) = List.replicate n 0 := by
  unfold gat
  rw [List.map_replicate]
  congr 1
  rw [List.getD_eq_getElem?_getD, List.getElem?_eq_none (Nat.le_refl _)]
  rfl

theorem perm_D (D : List Nat) (h : D.length = 128) :
    q1Perm D (List.replicate 704 0) = .ok (gat D idxP ++ List.replicate 640 0) := by
  have := q1Perm_map (fun k => D.getD k 0) _ _ _ perm_labels
  have e1 := gat_range D
  have e2 := gat_zero D 704
  have e3 := gat_zero D 640
  rw [h] at e1 e2 e3
  unfold gat at e1 e2 e3
  rw [e1, e2, List.map_append, e3] at this
  exact this

theorem scatter_D (D : List Nat) (h : D.length = 128) :
    q1Scatter D (gat D idxP ++ List.replicate 640 0) (List.replicate 64 0)
      = .ok (gat D idxC) := by
  have hs : q1Scatter (List.range 128) (idxP ++ List.replicate 640 128) (List.replicate 64 128) = .ok idxC :=
    scatter_labels
  have := q1Scatter_map (fun k => D.getD k 0) _ _ _ _ hs
  have e1 := gat_range D
  have e2 := gat_zero D 64
  have e3 := gat_zero D 640
  rw [h] at e1 e2 e3
  unfold gat at e1 e2 e3
  rw [e1, e2, List.map_append, e3] at this
  exact this

theorem bits_D (cb : List Nat) (h : cb.length = 64) :
    q1Bits (List.replicate 128 0) cb
      = .ok (gat cb idxB ++ (gat cb (List.range' 40 8) ++ List.replicate 56 0)) := by
  have := q1Bits_map (fun k => cb.getD k 0) _ _ _ bits_labels
  have e1 := gat_range cb
  have e2 := gat_zero cb 128
  have e3 := gat_zero cb 56
  rw [h] at e1 e2 e3
  unfold gat at e1 e2 e3
  rw [e1, e2, List.map_append, List.map_append, e3] at this
  exact this

/-! ### the stored 704-entry vector against the permuted 64-entry vector -/

theorem pK_false (D : List Nat) (h : D.length = 128) (h0 : D.getD 0 0 = 0) (h40 : D.getD 40 0 = 0) (k : Nat)
    (hk : pK k = false) : D.getD k 0 = 0 := by
  unfold pK at hk
  simp only [Bool.and_eq_false_iff, bne_eq_false_iff_eq, decide_eq_false_iff_not] at hk
  rcases hk with (rfl | rfl) | hk
  · exact h0
  · exact h40
  · rw [List.getD_eq_getElem?_getD, List.getElem?_eq_none (by omega)]; rfl

theorem nz_gat (D : List Nat) (h : D.length = 128) (h0 : D.getD 0 0 = 0) (h40 : D.getD 40 0 = 0) (idx : List Nat) :
    nz (gat D idx) = nz (gat D (idx.filter pK)) :=
  nz_map_filter _ pK idx (fun k _ hk => pK_false D h h0 h40 k hk)

theorem nz_all (D : List Nat) (h : D.length = 128) (h0 : D.getD 0 0 = 0) (h40 : D.getD 40 0 = 0) :
    nz (gat D idxC) = nz (gat D idxP) := by
  rw [nz_gat D h h0 h40, idx_all, ← nz_gat D h h0 h40]

theorem gat_take (D idx : List Nat) (n : Nat) : (gat D idx).take n = gat D (idx.take n) := by
  unfold gat; rw [List.map_take]

theorem gat_getD (D idx : List Nat) (i : Nat) (hi : i < idx.length) : (gat D idx).getD i 0 = D.getD (idx.getD i 0) 0 := by
  unfold gat
  simp [List.getD_eq_getElem?_getD, List.getElem?_map, List.getElem?_eq_getElem hi]

theorem gat_length (D idx : List Nat) : (gat D idx).length = idx.length := by unfold gat; simp

/-- the canonical code of command code `c` in the stored vector is the one computed on the permuted vector -/
theorem canon_stored (D : List Nat) (h : D.length = 128) (h0 : D.getD 0 0 = 0) (h40 : D.getD 40 0 = 0)
    (c : Nat) (hc : c < 64) (hp : pK c = true) :
    (gat D idxC).getD (q1Symbol c) 0 = D.getD c 0 ∧
    (gat D idxP).getD (idxB.getD c 0) 0 = D.getD c 0 ∧
    (canonicalCodes (gat D idxC)).getD (q1Symbol c) 0
      = (canonicalCodes (gat D idxP)).getD (idxB.getD c 0) 0 := by
  obtain ⟨e1, e2, e3, e4, e5⟩ := idx_each c hc hp
  have hl := idxC_len
  have g1 : (gat D idxC).getD (q1Symbol c) 0 = D.getD c 0 := by
    rw [gat_getD _ _ _ (by rw [hl]; exact e2), idxC_get _ e2, e1]
  have g2 : (gat D idxP).getD (idxB.getD c 0) 0 = D.getD c 0 := by
    rw [gat_getD _ _ _ (by rw [idxP_len]; exact e4), e3]
  refine ⟨g1, g2, ?_⟩
  apply canon_embed
  · rw [gat_length, hl]; exact e2
  · rw [gat_length, idxP_len]; exact e4
  · exact nz_all D h h0 h40
  · rw [gat_take, gat_take, nz_gat D h h0 h40, e5, ← nz_gat D h h0 h40]
  · rw [g1, g2]

theorem kraft_gat_perm (L : Nat) (D : List Nat) (a b : List Nat) (hp : a.Perm b) :
    kraftSum L (gat D a) = kraftSum L (gat D b) := by
  unfold kraftSum gat
  rw [List.map_map, List.map_map]
  exact (hp.map _).sum_nat

theorem kraft_stored (D : List Nat) (h : D.length = 128) (h0 : D.getD 0 0 = 0) (h40 : D.getD 40 0 = 0) (L : Nat) :
    kraftSum L (gat D idxC) = kraftSum L (D.take 64) := by
  rw [kraftSum_nz, nz_all D h h0 h40, ← kraftSum_nz, kraft_gat_perm L D _ _ idxP_perm]
  congr 1
  apply List.ext_getElem?
  intro i
  unfold gat
  rw [List.getElem?_map, List.getElem?_take]
  by_cases hi : i < 64
  · rw [List.getElem?_range hi, if_pos hi, List.getElem?_eq_getElem (by omega)]
    simp [List.getD_eq_getElem?_getD, List.getElem?_eq_getElem (show i < D.length by omega)]
  · rw [List.getElem?_eq_none (by simpa using hi), if_neg hi]
    rfl

end BV.Fragment
