/-
Input-prefix invariance of the pass-through, capacity irrelevance of the end-marker
strip, and the one-split lemma for the header phase (C12).
-/
import BV.Lemmas.ConcatSlice
namespace BV.Concat
open Outcome BV.Gen

/-- shift the input cursor of a result -/
def Ret.shiftIn (k : Nat) (r : Ret) : Ret := { r with consumed := k + r.consumed }

def Outcome.map {α β} (f : α → β) : Outcome α → Outcome β
  | .ok v => .ok (f v)
  | .panic t => .panic t

@[simp] theorem map_ok {α β} (f : α → β) (v : α) : Outcome.map f (ok v) = ok (f v) := rfl
@[simp] theorem map_panic {α β} (f : α → β) (t : Site) : Outcome.map f (Outcome.panic t : Outcome α) = Outcome.panic t := rfl

theorem flushStrip_room (s : State) (lb index c1 c2 : Nat) (h1 : 1 ≤ c1) (h2 : 1 ≤ c2) :
    flushStrip s [] c1 lb index = flushStrip s [] c2 lb index := by
  unfold flushStrip push
  have a1 : ¬ (index ≥ 8 ∧ c1 ≤ ([] : List Nat).length) := by simp; omega
  have a2 : ¬ (index ≥ 8 ∧ c2 ≤ ([] : List Nat).length) := by simp; omega
  have b1 : c1 > ([] : List Nat).length := by simp; omega
  have b2 : c2 > ([] : List Nat).length := by simp; omega
  simp only [a1, a2, b1, b2, if_true, if_false]

theorem flush_room_irrelevant_gen (s : State) (c1 c2 : Nat) (h1 : 1 ≤ c1) (h2 : 1 ≤ c2) :
    flushPreviousStream s [] c1 = flushPreviousStream s [] c2 := by
  cases hs : s.last_byte_sanitized with
  | true => rw [flush_sanitized s [] c1 hs, flush_sanitized s [] c2 hs]
  | false =>
    by_cases h0 : s.last_bytes_len = 0
    · unfold flushPreviousStream; simp [hs, h0]
    · rw [flush_unsanitized s [] c1 hs h0, flush_unsanitized s [] c2 hs h0]
      simp only [flushStrip_room s _ _ c1 c2 h1 h2]

theorem streamCopy_prefix (s : State) (pre inp : List Nat) (inOff : Nat) (out : List Nat) (cap : Nat)
    (hin : inOff ≤ inp.length) :
    streamCopy s (pre ++ inp) (pre.length + inOff) out cap
      = Outcome.map (Ret.shiftIn pre.length) (streamCopy s inp inOff out cap) := by
  unfold streamCopy
  have e1 : (pre ++ inp).length - (pre.length + inOff) = inp.length - inOff := by simp; omega
  have e2 : ((pre ++ inp).length = pre.length + inOff) ↔ (inp.length = inOff) := by simp
  have e3 : ((pre ++ inp).length < pre.length + inOff) ↔ (inp.length < inOff) := by simp
  have e4 : List.drop (pre.length + inOff) (pre ++ inp) = List.drop inOff inp := by
    rw [List.drop_append]; simp
  have e5 : idx Site.streamInIndex (pre ++ inp) (pre.length + inOff) = idx Site.streamInIndex inp inOff := by
    unfold idx; rw [List.getElem?_append_right (by omega)]; simp
  simp only [e1, e2, e3, e4, e5]
  clear e1 e2 e3 e4 e5
  by_cases c1 : cap = out.length
  · simp [c1, Outcome.map, Ret.shiftIn]
  by_cases c2 : inp.length = inOff
  · simp [c1, c2, Outcome.map, Ret.shiftIn]
  by_cases c3 : cap < out.length
  · simp [c1, c2, c3, Outcome.map]
  by_cases c4 : inp.length < inOff
  · simp [c1, c2, c3, c4, Outcome.map]
  by_cases c5 : min (cap - out.length) (inp.length - inOff) = 0
  · simp only [c1, c2, c3, c4, c5, if_true, if_false, Outcome.map]
  by_cases c6 : min (cap - out.length) (inp.length - inOff) = 1
  · simp only [c1, c2, c3, c4, c6, if_true, if_false]
    cases hp : push Site.streamOutIndex out cap s.last_bytes.fst with
    | panic t => simp [Outcome.map]
    | ok o =>
      cases hi : idx Site.streamInIndex inp inOff with
      | panic t => simp [Outcome.map]
      | ok b =>
        simp only [bind_ok]
        by_cases hf : o.length = cap <;> simp [hf, Outcome.map, Ret.shiftIn, Nat.add_assoc]
  simp only [c1, c2, c3, c4, c5, c6, if_false]
  by_cases c7 : cap - out.length < 2
  · simp only [c7, if_true, Outcome.map]
  by_cases c8 : inp.length - inOff < min (cap - out.length) (inp.length - inOff)
  · simp only [c7, c8, if_true, if_false, Outcome.map]
  by_cases c9 : min (cap - out.length) (inp.length - inOff) < 2
  · simp only [c7, c8, c9, if_true, if_false, Outcome.map]
  simp only [c7, c8, c9, if_false]
  split
  · simp only [apply_ite (Outcome.map (Ret.shiftIn pre.length)), map_ok, map_panic, Ret.shiftIn, Nat.add_assoc]
  · simp [Outcome.map]

theorem idx_prefix (site : Site) (pre inp : List Nat) (i : Nat) :
    idx site (pre ++ inp) (pre.length + i) = idx site inp i := by
  unfold idx; rw [List.getElem?_append_right (by omega)]; simp

theorem streamTail_prefix (s : State) (pre inp : List Nat) (inOff : Nat) (out : List Nat) (cap : Nat)
    (hin : inOff ≤ inp.length) :
    streamTail s (pre ++ inp) (pre.length + inOff) out cap
      = Outcome.map (Ret.shiftIn pre.length) (streamTail s inp inOff out cap) := by
  unfold streamTail
  have e2 : ((pre ++ inp).length = pre.length + inOff) ↔ (inp.length = inOff) := by simp
  have e2' : ((pre ++ inp).length = pre.length + inOff + 1) ↔ (inp.length = inOff + 1) := by simp; omega
  have e5 := idx_prefix Site.streamInIndex pre inp inOff
  have e5' : idx Site.streamInIndex (pre ++ inp) (pre.length + inOff + 1) = idx Site.streamInIndex inp (inOff + 1) := by
    rw [Nat.add_assoc]; exact idx_prefix _ pre inp (inOff + 1)
  have k0 := streamCopy_prefix
  simp only [e2, e2', e5, e5']
  by_cases a0 : s.new_stream_pending.isSome = true
  · rw [if_pos a0, if_pos a0]; rfl
  rw [if_neg a0, if_neg a0]
  by_cases a1 : s.last_bytes_len ≠ 2
  · rw [if_pos a1, if_pos a1]
    by_cases c1 : cap = out.length
    · simp [c1, Ret.shiftIn]
    by_cases c2 : inp.length = inOff
    · simp [c1, c2, Ret.shiftIn]
    simp only [c1, c2, if_false]
    cases hi : idx Site.streamInIndex inp inOff with
    | panic t => simp
    | ok b =>
      simp only [bind_ok]
      cases hl : setLast s.last_bytes s.last_bytes_len b with
      | panic t => simp
      | ok lb =>
        simp only [bind_ok]
        by_cases c3 : s.last_bytes_len + 1 ≥ 256
        · simp [c3]
        simp only [c3, if_false]
        by_cases c4 : s.last_bytes_len + 1 ≠ 2
        · rw [if_pos c4, if_pos c4]
          by_cases c5 : inp.length = inOff + 1
          · simp [c5, Ret.shiftIn, Nat.add_assoc]
          simp only [c5, if_false]
          cases hi2 : idx Site.streamInIndex inp (inOff + 1) with
          | panic t => simp
          | ok b2 =>
            simp only [bind_ok]
            cases hl2 : setLast lb (s.last_bytes_len + 1) b2 with
            | panic t => simp
            | ok lb2 =>
              simp only [bind_ok]
              by_cases c6 : s.last_bytes_len + 1 + 1 ≥ 256
              · simp [c6]
              simp only [c6, if_false]
              have := streamCopy_prefix { s with last_bytes := lb2, last_bytes_len := s.last_bytes_len + 1 + 1 }
                pre inp (inOff + 1 + 1) out cap (by omega)
              rw [← this]
              simp [Nat.add_assoc]
        · rw [if_neg c4, if_neg c4]
          have := streamCopy_prefix { s with last_bytes := lb, last_bytes_len := s.last_bytes_len + 1 }
            pre inp (inOff + 1) out cap (by omega)
          rw [← this]
          simp [Nat.add_assoc]
  · rw [if_neg a1, if_neg a1]
    exact streamCopy_prefix s pre inp inOff out cap hin

theorem headerLoop_offset : ∀ (l : List Nat) (nsp : NewStreamData) (k off : Nat),
    headerLoop nsp l (k + off) = Outcome.map (fun r => (r.1, k + r.2)) (headerLoop nsp l off) := by
  intro l
  induction l with
  | nil => intro nsp k off; simp [headerLoop]
  | cons x rest ih =>
    intro nsp k off
    rw [headerLoop_cons, headerLoop_cons]
    by_cases hs : nsp.sufficient = true
    · simp [hs]
    · simp only [hs, Bool.false_eq_true, if_false]
      cases nsp.bytes_so_far.set? nsp.num_bytes_read x with
      | none => simp
      | some bsf =>
        dsimp only
        by_cases ho : nsp.num_bytes_read + 1 ≥ 256
        · simp [ho]
        · simp only [ho, if_false]
          rw [Nat.add_assoc]
          exact ih _ k (off + 1)

/-- One-split lemma for the header phase: a member whose first bytes `a` do not complete
the look-ahead.  The first call (any capacity `c1` for which the strip of the previous
end marker succeeds without emitting a byte) takes all of `a` and asks for more input;
the second call on `b` then behaves exactly like the unsplit call on `a ++ b` — same
state, same code, same output, input cursor shifted by `a.length`. -/
theorem header_phase_split_gen (s s1 : State) (nsp0 nspA : NewStreamData) (a b : List Nat) (c1 cap : Nat)
    (hp : s.new_stream_pending = some nsp0) (hw : nsp0.num_bytes_written = none)
    (hf1 : flushPreviousStream s [] c1 = ok (s1, [], SUCCESS))
    (hf : flushPreviousStream s [] cap = ok (s1, [], SUCCESS))
    (hsan : s1.last_byte_sanitized = true)
    (hl : headerLoop nsp0 a 0 = ok (nspA, a.length)) (hins : nspA.sufficient = false)
    (hr5 : nsp0.num_bytes_read ≤ 5) :
    stream s a c1 = ok ⟨{ s1 with new_stream_pending := some nspA }, NEEDS_MORE_INPUT, a.length, []⟩ ∧
    stream s (a ++ b) cap =
      Outcome.map (Ret.shiftIn a.length) (stream { s1 with new_stream_pending := some nspA } b cap) := by
  -- the look-ahead was not complete before `a` either
  have hlt0 : nsp0.num_bytes_read < 5 := by
    rcases Nat.lt_or_ge nsp0.num_bytes_read 5 with h | h
    · exact h
    · have hs0 : nsp0.sufficient = true := (sufficient_iff nsp0).mpr (Or.inr (by omega))
      rw [headerLoop_sufficient nsp0 hs0 a 0] at hl
      simp only [Outcome.ok.injEq, Prod.mk.injEq] at hl
      rw [← hl.1, hs0] at hins; simp at hins
  have hcond0 : nsp0.num_bytes_written.isNone = true ∧ nsp0.num_bytes_read < NUM_STREAM_HEADER_BYTES := by
    rw [hw, hdr5]; exact ⟨rfl, hlt0⟩
  have hsat := headerLoop_sat a nsp0 0 hr5
  rw [hl] at hsat
  obtain ⟨hwA, hr5A, _, _, _, _⟩ := hsat
  dsimp only at hwA hr5A
  have hltA : nspA.num_bytes_read < 5 := by
    rcases Nat.lt_or_ge nspA.num_bytes_read 5 with h | h
    · exact h
    · have := (sufficient_iff nspA).mpr (Or.inr (by omega))
      rw [this] at hins; simp at hins
  have hcondA : nspA.num_bytes_written.isNone = true ∧ nspA.num_bytes_read < NUM_STREAM_HEADER_BYTES := by
    rw [hwA, hw, hdr5]; exact ⟨rfl, hltA⟩
  constructor
  · rw [stream_of_flushed s s1 nsp0 a c1 hp hf1, if_pos hcond0, hl]
    simp only [bind_ok]
    rw [if_pos ⟨by rw [hwA, hw]; rfl, by rw [hins]; simp⟩]
  · have hpA : ({ s1 with new_stream_pending := some nspA } : State).new_stream_pending = some nspA := rfl
    rw [stream_of_flushed s s1 nsp0 (a ++ b) cap hp hf, if_pos hcond0,
      stream_of_flushed _ { s1 with new_stream_pending := some nspA } nspA b cap hpA
        (flush_sanitized _ [] cap hsan), if_pos hcondA]
    rw [headerLoop_append, hl]
    simp only [bind_ok]
    have hoff := headerLoop_offset b nspA a.length 0
    rw [Nat.add_zero] at hoff
    rw [hoff]
    cases hlb : headerLoop nspA b 0 with
    | panic t => simp
    | ok x =>
      obtain ⟨nspF, j⟩ := x
      have hj : j ≤ b.length := by
        have := headerLoop_sat b nspA 0 hr5A
        rw [hlb] at this
        have := this.2.2.2.1
        simpa using this
      simp only [map_ok, bind_ok]
      by_cases g1 : nspF.num_bytes_written.isNone = true ∧ ¬ nspF.sufficient = true
      · simp [g1, Ret.shiftIn]
      rw [if_neg g1, if_neg g1]
      by_cases g2 : cap = 0
      · simp [g2, Ret.shiftIn]
      rw [if_neg g2, if_neg g2]
      cases hsh : shiftAndCheckNewStreamHeader { s1 with new_stream_pending := some nspF } nspF [] cap with
      | panic t => simp
      | ok y =>
        simp only [bind_ok]
        by_cases g3 : y.2.2 ≠ SUCCESS
        · rw [if_pos g3, if_pos g3]; simp [Ret.shiftIn]
        rw [if_neg g3, if_neg g3]
        by_cases g4 : y.2.1.length = cap
        · rw [if_pos g4, if_pos g4]; simp [Ret.shiftIn]
        rw [if_neg g4, if_neg g4]
        exact streamTail_prefix y.1 a b j y.2.1 cap hj

end BV.Concat
