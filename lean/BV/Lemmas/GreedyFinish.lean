/-
C01 / greedy builder, part 3: `FinishBlock` preserves the invariant — first block and "new block type".
-/
import BV.Lemmas.GreedySplit

namespace BV.Greedy
open BV.Bits BV.Recoder BV.MetaBlock

/-- the symbols of the finished blocks, oldest first -/
def flat (rb : List Blk) : List (Nat × Nat) := (rb.reverse.map (fun b => b.chunk)).flatten

theorem flat_cons (b : Blk) (rb : List Blk) : flat (b :: rb) = flat rb ++ b.chunk := by
  simp [flat]

theorem doneCount_cons (b : Blk) (rb : List Blk) : doneCount (b :: rb) = b.chunk.length + doneCount rb := by
  simp [doneCount]

theorem allExact {F : Type} {N A K HH : Nat} {s : BS F} {rb : List Blk} {pend : List (Nat × Nat)}
    (h : Inv N A K HH s rb pend 0) : ∀ b ∈ rb, b.chunk.length = b.len := by
  intro b hb
  cases rb with
  | nil => simp at hb
  | cons b0 rest =>
    rcases List.mem_cons.mp hb with e | e
    · subst e; have := h.chunkHead b rfl; omega
    · exact h.chunkTail b e

theorem slotEntropy_length {F : Type} (ops : FOps F) (a : Nat) (slot : Slot) : (slotEntropy ops a slot).length = slot.length := by
  simp [slotEntropy]

/-- `if curr < *histograms_size { clear }`: the slot list afterwards -/
theorem clearIfRoom_spec {F : Type} (s : BS F) (curr : Nat) (hh : s.histosSize = s.slots.length) :
    ∃ slots', clearIfRoom s curr = .ok slots' ∧ slots'.length = s.slots.length ∧
      (∀ t, t ≠ curr → slots'.getD t [] = s.slots.getD t []) ∧
      (slotTotal (slots'.getD curr []) = 0) ∧
      (∀ slot ∈ slots', slot ∈ s.slots ∨ slot = zeroSlot s.nc s.H) := by
  unfold clearIfRoom
  by_cases hc : curr < s.histosSize
  · rw [if_pos hc, setAt_ok' _ _ _ (by omega)]
    refine ⟨_, rfl, by simp, fun t ht => getD_set_ne _ _ _ _ _ (fun e => ht e.symm), ?_, ?_⟩
    · rw [getD_set_eq _ _ _ _ (by omega)]; exact zeroSlot_total _ _
    · intro slot hs; exact List.mem_or_eq_of_mem_set hs
  · rw [if_neg hc]
    refine ⟨_, rfl, rfl, fun _ _ => rfl, ?_, fun slot hs => Or.inl hs⟩
    rw [getD_of_le _ _ _ (by omega)]; rfl

theorem mod32 (x : Nat) (h : x ≤ 2 ^ 25) : x % two32 = x := Nat.mod_eq_of_lt (by unfold two32; omega)
theorem mod64 (x : Nat) (h : x ≤ 2 ^ 25) : x % two64 = x := Nat.mod_eq_of_lt (by unfold two64; omega)

/-! ### first block -/

theorem firstBlock_inv {F : Type} (ops : FOps F) {N A K HH : Nat} {s : BS F} {pend : List (Nat × Nat)}
    (h : Inv N A K HH s [] pend 0) (hh : s.histosSize = s.slots.length)
    (hl1 : pend.length ≤ s.blockSize) (hl2 : s.minBlockSize ≤ s.blockSize) (hl3 : s.blockSize ≤ pend.length + s.minBlockSize) :
    ∃ s', firstBlock ops s = .ok s' ∧ Inv N A K HH s' [⟨0, s.blockSize, pend⟩] [] (s.blockSize - pend.length) ∧
      s'.blockSize = 0 ∧ s'.minBlockSize = s.minBlockSize ∧ s'.targetBlockSize = s.targetBlockSize ∧
      s'.slots.length = s.slots.length ∧ s'.histosSize = s.histosSize := by
  have hb := h.bound
  have htot := h.total
  simp only [doneCount, List.map_nil, List.sum_nil, Nat.zero_add] at htot
  obtain ⟨hnt, hcurr, hl0⟩ := h.nt0 rfl
  have hsl : 0 < s.slots.length := by have := curr_lt h; omega
  have hmb := maxBlocks_pos N s.minBlockSize
  obtain ⟨slots', e1, e2, e3, e4, e5⟩ := clearIfRoom_spec s ((s.curr + 1) % two64) hh
  have hc1 : (s.curr + 1) % two64 = 1 := by rw [hcurr]; rfl
  have hn1 : (s.numTypes + 1) % two64 = 1 := by rw [hnt]; rfl
  have hnb1 : (s.numBlocks + 1) % two64 = 1 := by rw [h.nb]; rfl
  rw [hc1] at e1 e3 e4
  have hbs : s.blockSize % two32 = s.blockSize := mod32 _ (by omega)
  unfold firstBlock
  rw [setAt_ok' _ _ _ (by rw [h.llen]; omega), Out.bind_ok, setAt_ok' _ _ _ (by rw [h.tlen]; omega), Out.bind_ok,
    getAt_getD' _ 0 [] hsl, Out.bind_ok]
  simp only [hc1, hn1, hnb1, hbs]
  rw [e1, Out.bind_ok]
  refine ⟨_, rfl, ?_, rfl, rfl, rfl, e2, rfl⟩
  have hshape0 := h.shaped _ (slot_mem s 0 hsl)
  refine { ncEq := h.ncEq, hEq := h.hEq, nc1 := h.nc1, min1 := h.min1, mbt1 := h.mbt1, mbt := h.mbt, mbtK := h.mbtK, bound := h.bound, AH := h.AH,
           tlen := by simp [h.tlen], llen := by simp [h.llen], slen := by rw [e2]; exact h.slen,
           shaped := ?_, zeroAbove := ?_, nb := rfl, typesEq := ?_, lensEq := ?_, chunkTail := by simp,
           chunkHead := ?_, chunkMin := ?_, slackLe := by dsimp only; omega, total := ?_, nt0 := by simp,
           curr := fun _ => rfl, ntPos := fun _ => Nat.le_refl _, ntMax := h.mbt1, ntNb := Nat.le_refl _, tlt := ?_, t0 := ?_,
           last0 := ?_, last1 := by simp, last1' := fun _ => h.last1' (by simp), single := fun _ => rfl,
           ent := fun _ => ?_, cov := ?_, pcov := by simp, tot := ?_, ptot := ?_ }
  · intro slot hs
    rcases e5 slot hs with h1 | h1
    · exact h.shaped slot h1
    · rw [h1]; exact zeroSlot_shaped _ _
  · intro slot hs c x hx
    rcases e5 slot hs with h1 | h1
    · exact h.zeroAbove slot h1 c x hx
    · rw [h1]; exact zeroSlot_cnt _ _ _ _
  · dsimp only
    have := take_set_snoc s.types 0 0 (by rw [h.tlen]; omega)
    simpa using this
  · dsimp only
    have := take_set_snoc s.lengths 0 s.blockSize (by rw [h.llen]; omega)
    simpa using this
  · intro b hb0
    simp only [List.head?_cons, Option.some.injEq] at hb0
    subst hb0; dsimp only; omega
  · intro b hb0
    simp only [List.mem_singleton] at hb0
    subst hb0; exact hl2
  · simp [doneCount]; omega
  · intro b hb0
    simp only [List.mem_singleton] at hb0
    subst hb0
    exact Nat.lt_succ_self 0
  · intro b hb0
    simp only [List.getLast?_singleton, Option.some.injEq] at hb0
    subst hb0; rfl
  · intro b hb0
    simp only [List.head?_cons, Option.some.injEq] at hb0
    subst hb0; exact hl0
  · refine ⟨_, _, rfl, ?_, fun _ => rfl⟩
    rw [slotEntropy_length]; exact hshape0.1
  · intro b hb0 p hp
    simp only [List.mem_singleton] at hb0
    subst hb0
    have := h.pcov p hp
    rw [hcurr] at this
    dsimp only
    rw [e3 0 (by decide)]; exact this
  · intro t ht
    have ht0 : t = 0 := by
      have h2 : t < 1 := ht
      omega
    subst ht0
    dsimp only
    rw [e3 0 (by decide)]
    have := h.ptot
    rw [hcurr] at this
    simp [doneCount]; exact this
  · dsimp only
    rw [e4]; exact Nat.le_refl _

/-! ### new block type -/

theorem splitBlock_inv {F : Type} {N A K HH : Nat} {s : BS F} {rb : List Blk} {pend : List (Nat × Nat)} (e : List F)
    (h : Inv N A K HH s rb pend 0) (hne : rb ≠ []) (hh : s.histosSize = s.slots.length) (he : e.length = s.nc)
    (hlt : s.numTypes < s.maxBlockTypes)
    (hl1 : pend.length ≤ s.blockSize) (hl2 : s.minBlockSize ≤ s.blockSize) (hl3 : s.blockSize ≤ pend.length + s.minBlockSize) :
    ∃ s', splitBlock s e = .ok s' ∧ Inv N A K HH s' (⟨s.numTypes, s.blockSize, pend⟩ :: rb) [] (s.blockSize - pend.length) ∧
      s'.blockSize = 0 ∧ s'.minBlockSize = s.minBlockSize ∧ s'.targetBlockSize = s.minBlockSize ∧
      s'.slots.length = s.slots.length ∧ s'.histosSize = s.histosSize := by
  have hb := h.bound
  have htot := h.total
  have hroom := room h
  have hcurr := h.curr hne
  have hntp := h.ntPos hne
  have hmbt := h.mbt
  have hcl := curr_lt h
  obtain ⟨slots', e1, e2, e3, e4, e5⟩ := clearIfRoom_spec s ((s.curr + 1) % two64) hh
  have hc1 : (s.curr + 1) % two64 = s.numTypes + 1 := by rw [hcurr]; exact mod64 _ (by omega)
  have hn1 : (s.numTypes + 1) % two64 = s.numTypes + 1 := mod64 _ (by omega)
  have hnb1 : (rb.length + 1) % two64 = rb.length + 1 := by
    exact mod64 _ (by have := h.tlen; unfold maxBlocks at hroom; have : N / s.minBlockSize ≤ N := Nat.div_le_self _ _; omega)
  have hbs : s.blockSize % two32 = s.blockSize := mod32 _ (by omega)
  have hn256 : s.numTypes % 256 = s.numTypes := Nat.mod_eq_of_lt (by omega)
  rw [hc1] at e1 e3 e4
  unfold splitBlock
  rw [h.nb, setAt_ok' _ _ _ (by rw [h.llen]; omega), Out.bind_ok, setAt_ok' _ _ _ (by rw [h.tlen]; omega), Out.bind_ok]
  simp only [hc1, hn1, hnb1, hbs, hn256, ite_self]
  rw [e1, Out.bind_ok]
  refine ⟨_, rfl, ?_, rfl, rfl, rfl, e2, rfl⟩
  have hex := allExact h
  refine { ncEq := h.ncEq, hEq := h.hEq, nc1 := h.nc1, min1 := h.min1, mbt1 := h.mbt1, mbt := h.mbt, mbtK := h.mbtK, bound := h.bound, AH := h.AH,
           tlen := by simp [h.tlen], llen := by simp [h.llen], slen := by rw [e2]; exact h.slen,
           shaped := ?_, zeroAbove := ?_, nb := rfl, typesEq := ?_, lensEq := ?_, chunkTail := ?_,
           chunkHead := ?_, chunkMin := ?_, slackLe := by dsimp only; omega, total := ?_, nt0 := by simp,
           curr := fun _ => rfl, ntPos := fun _ => Nat.succ_le_succ (Nat.zero_le _), ntMax := hlt,
           ntNb := ?_, tlt := ?_, t0 := ?_,
           last0 := ?_, last1 := ?_, last1' := ?_, single := ?_,
           ent := fun _ => ?_, cov := ?_, pcov := by simp, tot := ?_, ptot := ?_ }
  · intro slot hs
    rcases e5 slot hs with h1 | h1
    · exact h.shaped slot h1
    · rw [h1]; exact zeroSlot_shaped _ _
  · intro slot hs c x hx
    rcases e5 slot hs with h1 | h1
    · exact h.zeroAbove slot h1 c x hx
    · rw [h1]; exact zeroSlot_cnt _ _ _ _
  · dsimp only
    rw [List.length_cons, take_set_snoc _ _ _ (by rw [h.tlen]; omega), h.typesEq]
    simp
  · dsimp only
    rw [List.length_cons, take_set_snoc _ _ _ (by rw [h.llen]; omega), h.lensEq]
    simp
  · intro b hb0
    exact hex b hb0
  · intro b hb0
    simp only [List.head?_cons, Option.some.injEq] at hb0
    subst hb0; dsimp only; omega
  · intro b hb0
    rcases List.mem_cons.mp hb0 with e0 | e0
    · subst e0; exact hl2
    · exact h.chunkMin b e0
  · rw [doneCount_cons]; dsimp only [List.length_nil]; omega
  · dsimp only [List.length_cons]; have := h.ntNb; omega
  · intro b hb0
    rcases List.mem_cons.mp hb0 with e0 | e0
    · subst e0; exact Nat.lt_succ_self _
    · exact Nat.lt_succ_of_lt (h.tlt b e0)
  · intro b hb0
    rw [List.getLast?_cons_of_ne_nil hne] at hb0
    exact h.t0 b hb0
  · intro b hb0
    simp only [List.head?_cons, Option.some.injEq] at hb0
    subst hb0; rfl
  · intro b hb0
    exact h.last0 b hb0
  · intro hle
    have : 1 ≤ rb.length := List.length_pos_iff.mpr hne
    simp only [List.length_cons] at hle
    omega
  · intro h1
    dsimp only at h1
    omega
  · refine ⟨e, s.lastEntropy.take s.nc, rfl, he, fun h1 => ?_⟩
    dsimp only at h1
    omega
  · intro b hb0 p hp
    dsimp only
    rcases List.mem_cons.mp hb0 with e0 | e0
    · subst e0
      have := h.pcov p hp
      rw [hcurr] at this
      rw [e3 s.numTypes (by omega)]; exact this
    · have := h.tlt b e0
      rw [e3 b.t (by omega)]; exact h.cov b e0 p hp
  · intro t ht
    have ht' : t < s.numTypes + 1 := ht
    dsimp only
    rw [e3 t (by omega), doneCount_cons]
    by_cases htn : t < s.numTypes
    · have := h.tot t htn; omega
    · have : t = s.numTypes := by omega
      subst this
      have := h.ptot
      rw [hcurr] at this
      dsimp only; omega
  · dsimp only
    rw [e4]; exact Nat.le_refl _

end BV.Greedy
