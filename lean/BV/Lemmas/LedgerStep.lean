import BV.Lemmas.LedgerInv
/-!
From micro-actions to calls and histories: the invariant along `step` / `run`, and a symbolic
"is this slot empty afterwards" tracker (`Act.emptyAfter`) that is evaluated on the act lists of the
sites.
-/
namespace BV.Ledger

theorem acts_nil (w : W) : w.acts [] = w := rfl
theorem acts_cons (w : W) (a : Act) (as : List Act) : w.acts (a :: as) = (w.act a).acts as := rfl
theorem acts_append (w : W) (as bs : List Act) : w.acts (as ++ bs) = (w.acts as).acts bs := by
  simp [W.acts, List.foldl_append]

theorem acts_m8 (w : W) (as : List Act) : (w.acts as).m8 = w.m8 := by
  induction as generalizing w with
  | nil => rfl
  | cons a as ih => rw [acts_cons, ih, act_m8]

theorem Inv.acts {w : W} (hw : Inv w) (as : List Act) (h : ∀ a ∈ as, a.owned w.m8) : Inv (w.acts as) := by
  induction as generalizing w with
  | nil => exact hw
  | cons a as ih =>
    rw [acts_cons]
    apply ih (hw.act a (h a (by simp)))
    intro x hx
    rw [act_m8]
    exact h x (by simp [hx])

theorem acts_lost (w : W) (as : List Act) (h : ∀ a ∈ as, a.safe w.m8) : (w.acts as).lost = w.lost := by
  induction as generalizing w with
  | nil => rfl
  | cons a as ih =>
    rw [acts_cons, ih, act_lost_safe w a (h a (by simp))]
    intro x hx
    rw [act_m8]
    exact h x (by simp [hx])

theorem safe_owned {m8 : Nat} {a : Act} (h : a.safe m8) : a.owned m8 := by
  cases a <;> simp_all [Act.safe, Act.owned]

/-! ### is a slot empty after an action? (sound, not complete) -/

def Act.emptyAfter (s : Slot) (b : Bool) : Act → Bool
  | .free t => if t = s then true else b
  | .alloc _ t k => if t = s then b && (k == 0) else b
  | .lose t => if t = s then true else b
  | .move src dst => if src = dst then b else if src = s then true else if dst = s then false else b

def emptyAfterL (s : Slot) (b : Bool) (as : List Act) : Bool := as.foldl (Act.emptyAfter s) b

theorem fresh_zero (a n : Nat) : fresh a n 0 = [] := rfl

theorem act_emptyAfter (w : W) (s : Slot) (b : Bool) (a : Act) (hb : b = true → w.enc.get s = [])
    (h : a.emptyAfter s b = true) : (w.act a).enc.get s = [] := by
  cases a with
  | free t =>
    by_cases hts : t = s
    · subst hts; simp [W.act, Enc.get_set_same]
    · simp [Act.emptyAfter, hts] at h
      simp [W.act, Enc.get_set_ne _ _ hts, hb h]
  | alloc x t k =>
    by_cases hts : t = s
    · subst hts
      simp [Act.emptyAfter] at h
      obtain ⟨h1, h2⟩ := h
      subst h2
      simp [W.act, Enc.get_set_same, hb h1, fresh_zero]
    · simp [Act.emptyAfter, hts] at h
      simp [W.act, Enc.get_set_ne _ _ hts, hb h]
  | lose t =>
    by_cases hts : t = s
    · subst hts; simp [W.act, Enc.get_set_same]
    · simp [Act.emptyAfter, hts] at h
      simp [W.act, Enc.get_set_ne _ _ hts, hb h]
  | move src dst =>
    by_cases hsd : src = dst
    · simp [Act.emptyAfter, hsd] at h
      simp [W.act, hsd, hb h]
    · by_cases hss : src = s
      · subst hss
        simp [W.act, hsd, Enc.get_set_same]
      · by_cases hds : dst = s
        · simp [Act.emptyAfter, hsd, hss, hds] at h
        · simp [Act.emptyAfter, hsd, hss, hds] at h
          simp [W.act, hsd, Enc.get_set_ne _ _ hss, Enc.get_set_ne _ _ hds, hb h]

theorem acts_emptyAfter (s : Slot) (as : List Act) : ∀ (w : W) (b : Bool), (b = true → w.enc.get s = []) →
    emptyAfterL s b as = true → (w.acts as).enc.get s = [] := by
  induction as with
  | nil => intro w b hb h; exact hb h
  | cons a as ih =>
    intro w b hb h
    rw [acts_cons]
    exact ih (w.act a) (a.emptyAfter s b) (fun h' => act_emptyAfter w s b a hb h') h

theorem emptyAfterL_append (s : Slot) (b : Bool) (as bs : List Act) :
    emptyAfterL s b (as ++ bs) = emptyAfterL s (emptyAfterL s b as) bs := by
  simp [emptyAfterL, List.foldl_append]

/-! ### calls -/

theorem opBook_log (w : W) (op : Op) : (opBook w op).log = w.log := by cases op <;> rfl
theorem opBook_enc (w : W) (op : Op) : (opBook w op).enc = w.enc := by cases op <;> rfl
theorem opBook_lost (w : W) (op : Op) : (opBook w op).lost = w.lost := by cases op <;> rfl
theorem opBook_next (w : W) (op : Op) : (opBook w op).next = w.next := by cases op <;> rfl
theorem opBook_m8 (w : W) (op : Op) : (opBook w op).m8 = w.m8 := by cases op <;> rfl
theorem opBook_q (w : W) (op : Op) : (opBook w op).q = w.q := by cases op <;> rfl

theorem Inv.book {w : W} (hw : Inv w) (op : Op) : Inv (opBook w op) := by
  refine ⟨?_, ?_, ?_, ?_, ?_⟩
  · rw [opBook_log]; exact hw.bad
  · intro b; rw [opBook_log, opBook_enc, opBook_lost]; exact hw.live b
  · rw [opBook_log, opBook_next]; exact hw.ser
  · rw [opBook_log]; exact hw.nodup
  · rw [opBook_enc, opBook_m8]; exact hw.own

theorem step_ok {fl : Flags} {w w' : W} {op : Op} (h : step fl w op = .ok w') :
    opGuard w op = none ∧ w' = opBook (w.acts (opActs fl w.m8 op)) op := by
  unfold step at h
  split at h
  · cases h
  · rename_i hg
    cases h
    exact ⟨hg, rfl⟩

theorem step_m8 {fl : Flags} {w w' : W} {op : Op} (h : step fl w op = .ok w') : w'.m8 = w.m8 := by
  rw [(step_ok h).2, opBook_m8, acts_m8]

theorem act_q (w : W) (a : Act) : (w.act a).q = w.q := by
  cases a <;> simp [W.act]
  split <;> rfl

theorem acts_q (w : W) (as : List Act) : (w.acts as).q = w.q := by
  induction as generalizing w with
  | nil => rfl
  | cons a as ih => rw [acts_cons, ih, act_q]

theorem step_q {fl : Flags} {w w' : W} {op : Op} (h : step fl w op = .ok w') : w'.q = w.q := by
  rw [(step_ok h).2, opBook_q, acts_q]

end BV.Ledger
