import BV.Lemmas.StreamRunMd
import BV.Lemmas.HeaderSpec
/-
The pieces the stream machine writes itself, under the independent RFC 7932 §9.2 reader
`BV.HeaderSpec.readMetaBlock` (the one the streaming reader of BV/Props/C04Run.lean is built on):
the sync padding block behind ANY carry (0..7 bits, or the 14 bits of a large-window header) and a
whole metadata block (header for `n ≤ 2^24` bytes, zero fill, `n` payload bytes), at every bit position
congruent to the carry modulo 8.
-/
namespace BV.Stream
open BV.Bits

theorem pad_readMetaBlock (lbb pos : Nat) (hp : pos % 8 = lbb % 8) (rest : List Bool) :
    BV.HeaderSpec.readMetaBlock pos (padBits lbb ++ rest)
      = some (BV.HeaderSpec.MetaBlock.metadata [], pos + (padBits lbb).length, rest) := by
  have hk : (8 - (pos + 1 + 2 + 3 + 8 * 0) % 8) % 8 = 8 * ((lbb + 6 + 7) / 8) - lbb - 6 := by omega
  simp only [padBits, syncBits, List.cons_append, List.nil_append, BV.HeaderSpec.readMetaBlock]
  simp [BV.HeaderSpec.takeVal, valOf, BV.HeaderSpec.skipPad, BV.HeaderSpec.takeBytes, hk]
  omega

theorem takeBytes_exact : ∀ (n : Nat) (bits rest : List Bool), bits.length = 8 * n →
    ∃ bytes, BV.HeaderSpec.takeBytes n (bits ++ rest) = some (bytes, rest) := by
  intro n
  induction n with
  | zero =>
    intro bits rest h
    have : bits = [] := List.eq_nil_of_length_eq_zero (by omega)
    subst this
    exact ⟨[], rfl⟩
  | succ n ih =>
    intro bits rest h
    have h8 : 8 ≤ (bits ++ rest).length := by rw [List.length_append]; omega
    obtain ⟨bytes, hb⟩ := ih (bits.drop 8) rest (by rw [List.length_drop]; omega)
    refine ⟨valOf ((bits ++ rest).take 8) :: bytes, ?_⟩
    unfold BV.HeaderSpec.takeBytes BV.HeaderSpec.takeVal
    rw [if_pos h8]
    simp only []
    rw [List.drop_append_of_le_length (by omega), hb]

/-- a header built from `k ≤ 3` length bytes holding `v` (minimal), zero fill to the byte boundary, and
`len` payload bytes -/
theorem readMeta_build (k v : Nat) (hk : k ≤ 3) (hv : v < 2 ^ (8 * k))
    (hmin : k ≤ 1 ∨ 2 ^ (8 * (k - 1)) ≤ v) (pos : Nat) (payload rest : List Bool)
    (hpl : payload.length = 8 * (if k = 0 then 0 else v + 1)) :
    ∃ bytes, BV.HeaderSpec.readMetaBlock pos
        ([false, true, true, false] ++ bitsOf 2 k ++ bitsOf (8 * k) v
          ++ List.replicate ((8 - (pos + 6 + 8 * k) % 8) % 8) false ++ payload ++ rest)
      = some (BV.HeaderSpec.MetaBlock.metadata bytes,
          pos + 6 + 8 * k + (8 - (pos + 6 + 8 * k) % 8) % 8 + payload.length, rest) := by
  have hbits : bitsOf 2 k = [k % 2 == 1, k / 2 % 2 == 1] := by simp [bitsOf]
  have hkk : valOf [k % 2 == 1, k / 2 % 2 == 1] = k := by
    have : k = 0 ∨ k = 1 ∨ k = 2 ∨ k = 3 := by omega
    rcases this with rfl | rfl | rfl | rfl <;> rfl
  obtain ⟨bytes, hbytes⟩ := takeBytes_exact (if k = 0 then 0 else v + 1) payload rest hpl
  refine ⟨bytes, ?_⟩
  rw [hbits]
  simp only [List.cons_append, List.nil_append, List.append_assoc, BV.HeaderSpec.readMetaBlock]
  have t1 : ∀ R : List Bool, BV.HeaderSpec.takeVal 2 (true :: true :: R) = some (3, R) := by
    intro R; simp [BV.HeaderSpec.takeVal, valOf]
  have t2 : ∀ R : List Bool, BV.HeaderSpec.takeVal 2 ((k % 2 == 1) :: (k / 2 % 2 == 1) :: R) = some (k, R) := by
    intro R
    have := hkk
    simp [BV.HeaderSpec.takeVal, this]
  have t3 : ∀ R : List Bool, BV.HeaderSpec.takeVal (8 * k) (bitsOf (8 * k) v ++ R) = some (v, R) := by
    intro R
    unfold BV.HeaderSpec.takeVal
    rw [if_pos (by rw [List.length_append, bitsOf_length]; omega)]
    rw [List.take_append_of_le_length (by rw [bitsOf_length]; exact Nat.le_refl _),
      List.take_of_length_le (by rw [bitsOf_length]; exact Nat.le_refl _),
      List.drop_append_of_le_length (by rw [bitsOf_length]; exact Nat.le_refl _),
      List.drop_of_length_le (by rw [bitsOf_length]; exact Nat.le_refl _), valOf_bitsOf_lt hv]
    rfl
  have hnot : ¬ (k > 1 ∧ v / 2 ^ (8 * (k - 1)) = 0) := by
    intro ⟨hk1, hz⟩
    rcases hmin with h | h
    · omega
    · have hpos : 0 < 2 ^ (8 * (k - 1)) := Nat.pow_pos (by omega)
      have : 1 ≤ v / 2 ^ (8 * (k - 1)) := (Nat.le_div_iff_mul_le hpos).mpr (by omega)
      omega
  simp only [Bool.false_eq_true, if_false, t1, t2, t3, hnot]
  have hpe : pos + 1 + 2 + 3 + 8 * k = pos + 6 + 8 * k := by omega
  simp only [hpe]
  have hsk : BV.HeaderSpec.skipPad (pos + 6 + 8 * k)
      (List.replicate ((8 - (pos + 6 + 8 * k) % 8) % 8) false ++ (payload ++ rest)) = some (payload ++ rest) := by
    unfold BV.HeaderSpec.skipPad
    simp
  simp only [hsk]
  rw [if_pos trivial, hbytes, hpl]
  rfl

/-- **a whole metadata block**: header for `n ≤ 2^24` bytes behind a carry of `lbb` bits, zero fill, `n` payload
bytes — at any bit position congruent to `lbb` modulo 8 the reader consumes exactly that and reports a
metadata block (no content for the decoder) -/
theorem md_block_readMetaBlock (n lbb pos : Nat) (hn : n ≤ 16777216) (hp : pos % 8 = lbb % 8)
    (payload rest : List Bool) (hpl : payload.length = 8 * n) :
    ∃ bytes, BV.HeaderSpec.readMetaBlock pos (mdHeaderTail n lbb ++ payload ++ rest)
      = some (BV.HeaderSpec.MetaBlock.metadata bytes, pos + (mdHeaderTail n lbb ++ payload).length, rest) ∧
      (pos + (mdHeaderTail n lbb ++ payload).length) % 8 = 0 := by
  by_cases h0 : n = 0
  · subst h0
    have hpad : (8 - (lbb + (mdHeader 0).length) % 8) % 8 = (8 - (pos + 6 + 8 * 0) % 8) % 8 := by
      rw [mdHeader_length]; simp; omega
    obtain ⟨bytes, hb⟩ := readMeta_build 0 0 (by omega) (by simp) (Or.inl (by omega)) pos payload rest (by simpa using hpl)
    refine ⟨bytes, ?_, ?_⟩
    · unfold mdHeaderTail
      rw [hpad]
      have e : mdHeader 0 = [false, true, true, false] ++ bitsOf 2 0 ++ bitsOf (8 * 0) 0 := by simp [mdHeader]
      rw [e, hb]
      simp only [List.length_append, List.length_replicate, bitsOf_length, List.length_cons, List.length_nil,
        Option.some.injEq, Prod.mk.injEq, true_and, and_true]
      omega
    · have hl := mdHeader_length 0
      simp only [if_true] at hl
      unfold mdHeaderTail
      simp only [List.length_append, List.length_replicate, hpl]
      omega
  · obtain ⟨k1, k2, k3, k4⟩ := mdNbytes_spec (by omega : 1 ≤ n) hn
    have hpad : (8 - (lbb + (mdHeader n).length) % 8) % 8 = (8 - (pos + 6 + 8 * mdNbytes n) % 8) % 8 := by
      rw [mdHeader_length, if_neg h0]; omega
    have hkne : mdNbytes n ≠ 0 := by omega
    obtain ⟨bytes, hb⟩ := readMeta_build (mdNbytes n) (n - 1) k2 k3 k4 pos payload rest
      (by rw [if_neg hkne, hpl]; congr 1; omega)
    refine ⟨bytes, ?_, ?_⟩
    · unfold mdHeaderTail
      rw [hpad]
      have e : mdHeader n = [false, true, true, false] ++ bitsOf 2 (mdNbytes n) ++ bitsOf (8 * mdNbytes n) (n - 1) := by
        simp [mdHeader, h0]
      rw [e, hb]
      simp only [List.length_append, List.length_replicate, bitsOf_length, List.length_cons, List.length_nil,
        Option.some.injEq, Prod.mk.injEq, true_and, and_true]
      omega
    · have hl := mdHeader_length n
      rw [if_neg h0] at hl
      unfold mdHeaderTail
      simp only [List.length_append, List.length_replicate, hpl]
      omega
