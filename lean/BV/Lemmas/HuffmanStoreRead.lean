/-
Lemmas for C17 part 7: the code length symbols written by
`BrotliStoreHuffmanTreeToBitMask` are read back by the RFC 7932 §3.5 reader.
-/
import BV.Lemmas.HuffmanRead
import BV.Lemmas.HuffmanRle

namespace BV.Lemmas.HuffmanStoreRead
open BV.Bits BV.Huffman BV.Lemmas.HuffmanBits BV.Lemmas.HuffmanCanon BV.Lemmas.HuffmanPrefix
open BV.Lemmas.HuffmanRead BV.Lemmas.HuffmanRle

/-- a code-length code `cl` (18 lengths) with its bit patterns `clBits`, usable by
the symbol decoder: lengths `≤ 15`, Kraft sum `≤ 1`, at least two used symbols,
patterns = canonical codes bit-reversed -/
structure ClCode (cl clBits : List Nat) : Prop where
  hlen : cl.length = 18
  hblen : clBits.length = 18
  hall : ∀ x ∈ cl, x ≤ 15
  hk : kraftSum 15 cl ≤ 2 ^ 15
  h2 : 2 ≤ ((List.range cl.length).filter fun t => cl.getD t 0 != 0).length
  hbits : ∀ s, s < 18 → cl.getD s 0 ≠ 0 →
    clBits.getD s 0 = reverseBits (cl.getD s 0) ((canonicalCodes cl).getD s 0)

/-- an entry the encoder may emit: a used code-length symbol with extra bits in range -/
def ValidEntry (cl : List Nat) (e : Nat × Nat) : Prop :=
  e.1 < 18 ∧ cl.getD e.1 0 ≠ 0 ∧ (e.1 = 16 → e.2 < 4) ∧ (e.1 = 17 → e.2 < 8)

theorem writeBits_ok (n v : Nat) (w : Writer) (hv : v < 2 ^ n) (hn : n ≤ 56) :
    writeBits n v w = .ok (w ++ bitsOf n v) := by
  unfold writeBits
  rw [Nat.div_eq_of_lt hv]
  simp only [ne_eq, not_true_eq_false, ↓reduceIte, show ¬ n > 56 by omega]

/-- bits of one entry: the symbol's code word, then the extra bits of a repeat code -/
def entryBits (cl clBits : List Nat) (e : Nat × Nat) : List Bool :=
  bitsOf (cl.getD e.1 0) (clBits.getD e.1 0) ++
    (if e.1 = 16 then bitsOf 2 e.2 else if e.1 = 17 then bitsOf 3 e.2 else [])

/-- `BrotliStoreHuffmanTreeToBitMask` appends the entry bits, no assertion fails -/
theorem storeEntries_ok (cl clBits : List Nat) (hc : ClCode cl clBits) :
    ∀ (E : List (Nat × Nat)) (w : Writer), (∀ e ∈ E, ValidEntry cl e) →
    storeHuffmanTreeToBitMask cl clBits E w = .ok (w ++ (E.map (entryBits cl clBits)).flatten) := by
  intro E
  induction E with
  | nil => intro w _; simp [storeHuffmanTreeToBitMask]
  | cons e E ih =>
    intro w hv
    obtain ⟨ix, extra⟩ := e
    have hve := hv (ix, extra) (by simp)
    obtain ⟨h18, hused, h16, h17⟩ := hve
    simp only at h18 hused h16 h17
    have hmem : cl.getD ix 0 ∈ cl := by
      rw [List.getD_eq_getElem?_getD, List.getElem?_eq_getElem (by rw [hc.hlen]; exact h18)]; simp
    have hl15 := hc.hall _ hmem
    have hlt : clBits.getD ix 0 < 2 ^ cl.getD ix 0 := by
      rw [hc.hbits ix h18 hused, reverseBits_eq _ _ (by omega) (by omega)]
      exact revSpec_lt _ _
    simp only [storeHuffmanTreeToBitMask, getAt_getD cl ix (by rw [hc.hlen]; exact h18),
      getAt_getD clBits ix (by rw [hc.hblen]; exact h18), Out.bind_ok,
      writeBits_ok _ _ w hlt (by omega)]
    by_cases e16 : ix = 16
    · subst e16
      simp only [↓reduceIte, writeBits_ok 2 extra _ (h16 rfl) (by omega), Out.bind_ok]
      rw [ih _ (fun e he => hv e (List.mem_cons_of_mem _ he))]
      simp [entryBits]
    · by_cases e17 : ix = 17
      · subst e17
        simp only [e16, ↓reduceIte, writeBits_ok 3 extra _ (h17 rfl) (by omega), Out.bind_ok]
        rw [ih _ (fun e he => hv e (List.mem_cons_of_mem _ he))]
        simp [entryBits]
      · simp only [e16, e17, ↓reduceIte, Out.bind_ok]
        rw [ih _ (fun e he => hv e (List.mem_cons_of_mem _ he))]
        simp [entryBits, e16, e17]

/-- the reader on the bits of an entry list: as long as the code space is not used
up before the last entry, and is exactly used up after it, it returns the
expansion of the entries padded to the alphabet size -/
theorem readEntries (cl clBits : List Nat) (hc : ClCode cl clBits) (A : Nat) :
    ∀ (E : List (Nat × Nat)) (s0 : ExpandState) (f : Nat) (rest : List Bool),
    (∀ e ∈ E, ValidEntry cl e) → E.length + 1 ≤ f →
    (∀ k, k < E.length → (run s0 (E.take k)).out.length < A ∧
        kraftSum 15 (run s0 (E.take k)).out < 32768) →
    (run s0 E).out.length ≤ A → kraftSum 15 (run s0 E).out = 32768 →
    readLensGo cl A f s0 ((E.map (entryBits cl clBits)).flatten ++ rest)
      = some ((run s0 E).out ++ List.replicate (A - (run s0 E).out.length) 0, rest) := by
  intro E
  induction E with
  | nil =>
    intro s0 f rest _ hf _ hlen hkr
    obtain ⟨f', rfl⟩ : ∃ f', f = f' + 1 := ⟨f - 1, by simp at hf; omega⟩
    simp only [run_nil] at hlen hkr
    simp only [List.map_nil, List.flatten_nil, List.nil_append, readLensGo, run_nil, hkr]
    simp [show ¬ s0.out.length > A by omega]
  | cons e E ih =>
    intro s0 f rest hv hf hpre hlen hkr
    obtain ⟨f', rfl⟩ : ∃ f', f = f' + 1 := ⟨f - 1, by simp at hf; omega⟩
    obtain ⟨ix, extra⟩ := e
    obtain ⟨h18, hused, h16, h17⟩ := hv (ix, extra) (by simp)
    simp only at h18 hused h16 h17
    have h0 := hpre 0 (by simp)
    simp only [List.take_zero, run_nil] at h0
    have hgo : ¬ (s0.out.length ≥ A ∨ kraftSum 15 s0.out ≥ 32768) := by omega
    simp only [List.map_cons, List.flatten_cons, readLensGo, hgo, ↓reduceIte]
    -- the symbol
    have hsym := readSym_spec cl ix
      ((if ix = 16 then bitsOf 2 extra else if ix = 17 then bitsOf 3 extra else []) ++
        ((E.map (entryBits cl clBits)).flatten ++ rest))
      (by rw [hc.hlen]; exact h18) hc.hall hc.hk hused hc.h2
    rw [← hc.hbits ix h18 hused] at hsym
    have hassoc : entryBits cl clBits (ix, extra) ++ (List.map (entryBits cl clBits) E).flatten ++ rest
        = bitsOf (cl.getD ix 0) (clBits.getD ix 0) ++
          ((if ix = 16 then bitsOf 2 extra else if ix = 17 then bitsOf 3 extra else []) ++
            ((E.map (entryBits cl clBits)).flatten ++ rest)) := by
      simp [entryBits, List.append_assoc]
    rw [hassoc, hsym]
    simp only
    -- the recursive call
    have hrec : ∀ s1, s1 = expandStep s0 ix extra →
        readLensGo cl A f' s1 ((E.map (entryBits cl clBits)).flatten ++ rest)
          = some ((run s0 ((ix, extra) :: E)).out ++
              List.replicate (A - (run s0 ((ix, extra) :: E)).out.length) 0, rest) := by
      intro s1 hs1
      subst hs1
      apply ih (expandStep s0 ix extra) f' rest (fun e he => hv e (List.mem_cons_of_mem _ he))
        (by simp at hf; omega)
      · intro k hk
        have := hpre (k + 1) (by simp; omega)
        simpa using this
      · simpa using hlen
      · simpa using hkr
    by_cases hlit : ix < 16
    · have e16 : ¬ ix = 16 := by omega
      have e17 : ¬ ix = 17 := by omega
      simp only [hlit, ↓reduceIte, e16, e17, List.nil_append]
      have hes : expandStep s0 ix 0 = expandStep s0 ix extra := by
        simp [expandStep, hlit]
      rw [hes]
      exact hrec _ rfl
    · simp only [hlit, ↓reduceIte]
      by_cases e16 : ix = 16
      · subst e16
        simp only [↓reduceIte, takeBits_bitsOf 2 extra _ (h16 rfl)]
        exact hrec _ rfl
      · have e17 : ix = 17 := by omega
        subst e17
        simp only [show ¬ (17 = 16) by decide, ↓reduceIte, takeBits_bitsOf 3 extra _ (h17 rfl)]
        exact hrec _ rfl

end BV.Lemmas.HuffmanStoreRead
