/-
Lemmas for C17 part 7: the code length symbols written by
`BrotliStoreHuffmanTreeToBitMask` are read back by the RFC 7932 §3.5 reader.
-/
import BV.Lemmas.HuffmanRead
import BV.Lemmas.HuffmanRle

namespace BV.Lemmas.HuffmanStoreRead
open BV.Bits BV.Huffman BV.Lemmas.HuffmanBits BV.Lemmas.HuffmanCanon BV.Lemmas.HuffmanPrefix
open BV.Lemmas.HuffmanRead BV.Lemmas.HuffmanRle

/-- a code-length code `cl` (18 lengths) with its bit patterns `clBits`, usable by
the symbol decoder: lengths `≤ 15`, Kraft sum `≤ 1`, at least two used symbols,
patterns = canonical codes bit-reversed -/
structure ClCode (cl clBits : List Nat) : Prop where
  hlen : cl.length = 18
  hblen : clBits.length = 18
  hall : ∀ x ∈ cl, x ≤ 15
  hk : kraftSum 15 cl ≤ 2 ^ 15
  h2 : 2 ≤ ((List.range cl.length).filter fun t => cl.getD t 0 != 0).length
  hbits : ∀ s, s < 18 → cl.getD s 0 ≠ 0 →
    clBits.getD s 0 = reverseBits (cl.getD s 0) ((canonicalCodes cl).getD s 0)

/-- an entry the encoder may emit: a used code-length symbol with extra bits in range -/
def ValidEntry (cl : List Nat) (e : Nat × Nat) : Prop :=
  e.1 < 18 ∧ cl.getD e.1 0 ≠ 0 ∧ (e.1 = 16 → e.2 < 4) ∧ (e.1 = 17 → e.2 < 8)

theorem writeBits_ok (n v : Nat) (w : Writer) (hv : v < 2 ^ n) (hn : n ≤ 56) :
    writeBits n v w = .ok (w ++ bitsOf n v) := by
  unfold writeBits
  rw [Nat.div_eq_of_lt hv]
  simp only [ne_eq, not_true_eq_false, ↓reduceIte, show ¬ n > 56 by omega]

/-- bits of one entry: the symbol's code word, then the extra bits of a repeat code -/
def entryBits (cl clBits : List Nat) (e : Nat × Nat) : List Bool :=
  bitsOf (cl.getD e.1 0) (clBits.getD e.1 0) ++
    (if e.1 = 16 then bitsOf 2 e.2 else if e.1 = 17 then bitsOf 3 e.2 else [])

/-- `BrotliStoreHuffmanTreeToBitMask` appends the entry bits, no assertion fails -/
theorem storeEntries_ok (cl clBits : List Nat) (hc : ClCode cl clBits) :
    ∀ (E : List (Nat × Nat)) (w : Writer), (∀ e ∈ E, ValidEntry cl e) →
    storeHuffmanTreeToBitMask cl clBits E w = .ok (w ++ (E.map (entryBits cl clBits)).flatten) := by
  intro E
  induction E with
  | nil => intro w _; simp [storeHuffmanTreeToBitMask]
  | cons e E ih =>
    intro w hv
    obtain ⟨ix, extra⟩ := e
    have hve := hv (ix, extra) (by simp)
    obtain ⟨h18, hused, h16, h17⟩ := hve
    simp only at h18 hused h16 h17
    have hmem : cl.getD ix 0 ∈ cl := by
      rw [List.getD_eq_getElem?_getD, List.getElem?_eq_getElem (by rw [hc.hlen]; exact h18)]; simp
    have hl15 := hc.hall _ hmem
    have hlt : clBits.getD ix 0 < 2 ^ cl.getD ix 0 := by
      rw [hc.hbits ix h18 hused, reverseBits_eq _ _ (by omega) (by omega)]
      exact revSpec_lt _ _
    simp only [storeHuffmanTreeToBitMask, getAt_getD cl ix (by rw [hc.hlen]; exact h18),
      getAt_getD clBits ix (by rw [hc.hblen]; exact h18), Out.bind_ok,
      writeBits_ok _ _ w hlt (by omega)]
    by_cases e16 : ix = 16
    · subst e16
      simp only [↓reduceIte, writeBits_ok 2 extra _ (h16 rfl) (by omega), Out.bind_ok]
      rw [ih _ (fun e he => hv e (List.mem_cons_of_mem _ he))]
      simp [entryBits]
    · by_cases e17 : ix = 17
      · subst e17
        simp only [e16, ↓reduceIte, writeBits_ok 3 extra _ (h17 rfl) (by omega), Out.bind_ok]
        rw [ih _ (fun e he => hv e (List.mem_cons_of_mem _ he))]
        simp [entryBits]
      · simp only [e16, e17, ↓reduceIte]
        rw [ih _ (fun e he => hv e (List.mem_cons_of_mem _ he))]
        simp [entryBits, e16, e17]

/-- the reader on the bits of an entry list: as long as the code space is not used
up before the last entry, and is exactly used up after it, it returns the
expansion of the entries padded to the alphabet size -/
theorem readEntries (cl clBits : List Nat) (hc : ClCode cl clBits) (A : Nat) :
    ∀ (E : List (Nat × Nat)) (s0 : ExpandState) (f : Nat) (rest : List Bool),
    (∀ e ∈ E, ValidEntry cl e) → E.length + 1 ≤ f →
    (∀ k, k < E.length → (run s0 (E.take k)).out.length < A ∧
        kraftSum 15 (run s0 (E.take k)).out < 32768) →
    (run s0 E).out.length ≤ A → kraftSum 15 (run s0 E).out = 32768 →
    readLensGo cl A f s0 ((E.map (entryBits cl clBits)).flatten ++ rest)
      = some ((run s0 E).out ++ List.replicate (A - (run s0 E).out.length) 0, rest) := by
  intro E
  induction E with
  | nil =>
    intro s0 f rest _ hf _ hlen hkr
    obtain ⟨f', rfl⟩ : ∃ f', f = f' + 1 := ⟨f - 1, by simp at hf; omega⟩
    simp only [run_nil] at hlen hkr
    simp only [List.map_nil, List.flatten_nil, List.nil_append, readLensGo, run_nil, hkr]
    simp [show ¬ s0.out.length > A by omega]
  | cons e E ih =>
    intro s0 f rest hv hf hpre hlen hkr
    obtain ⟨f', rfl⟩ : ∃ f', f = f' + 1 := ⟨f - 1, by simp at hf; omega⟩
    obtain ⟨ix, extra⟩ := e
    obtain ⟨h18, hused, h16, h17⟩ := hv (ix, extra) (by simp)
    simp only at h18 hused h16 h17
    have h0 := hpre 0 (by simp)
    simp only [List.take_zero, run_nil] at h0
    have hgo : ¬ (s0.out.length ≥ A ∨ kraftSum 15 s0.out ≥ 32768) := by omega
    simp only [List.map_cons, List.flatten_cons, readLensGo, hgo, ↓reduceIte]
    -- the symbol
    have hsym := readSym_spec cl ix
      ((if ix = 16 then bitsOf 2 extra else if ix = 17 then bitsOf 3 extra else []) ++
        ((E.map (entryBits cl clBits)).flatten ++ rest))
      (by rw [hc.hlen]; exact h18) hc.hall hc.hk hused hc.h2
    rw [← hc.hbits ix h18 hused] at hsym
    have hassoc : entryBits cl clBits (ix, extra) ++ (List.map (entryBits cl clBits) E).flatten ++ rest
        = bitsOf (cl.getD ix 0) (clBits.getD ix 0) ++
          ((if ix = 16 then bitsOf 2 extra else if ix = 17 then bitsOf 3 extra else []) ++
            ((E.map (entryBits cl clBits)).flatten ++ rest)) := by
      simp [entryBits, List.append_assoc]
    rw [hassoc, hsym]
    simp only
    -- the recursive call
    have hrec : ∀ s1, s1 = expandStep s0 ix extra →
        readLensGo cl A f' s1 ((E.map (entryBits cl clBits)).flatten ++ rest)
          = some ((run s0 ((ix, extra) :: E)).out ++
              List.replicate (A - (run s0 ((ix, extra) :: E)).out.length) 0, rest) := by
      intro s1 hs1
      subst hs1
      apply ih (expandStep s0 ix extra) f' rest (fun e he => hv e (List.mem_cons_of_mem _ he))
        (by simp at hf; omega)
      · intro k hk
        have := hpre (k + 1) (by simp; omega)
        simpa using this
      · simpa using hlen
      · simpa using hkr
    by_cases hlit : ix < 16
    · have e16 : ¬ ix = 16 := by omega
      have e17 : ¬ ix = 17 := by omega
      simp only [hlit, ↓reduceIte, e16, e17, List.nil_append]
      have hes : expandStep s0 ix 0 = expandStep s0 ix extra := by
        simp [expandStep, hlit]
      rw [hes]
      exact hrec _ rfl
    · simp only [hlit, ↓reduceIte]
      by_cases e16 : ix = 16
      · subst e16
        simp only [↓reduceIte, takeBits_bitsOf 2 extra _ (h16 rfl)]
        exact hrec _ rfl
      · have e17 : ix = 17 := by omega
        subst e17
        simp only [show ¬ (17 = 16) by decide, ↓reduceIte, takeBits_bitsOf 3 extra _ (h17 rfl)]
        exact hrec _ rfl


/-! ### every entry adds at least one length -/

/-- a pending repeat count is at least 3 -/
def WF (s : ExpandState) : Prop := ∀ v c, s.rep = some (v, c) → 3 ≤ c

theorem pendingRepeat_ge (s : ExpandState) (h : WF s) (val : Nat) :
    pendingRepeat s val = 0 ∨ 3 ≤ pendingRepeat s val := by
  unfold pendingRepeat
  cases hr : s.rep with
  | none => left; rfl
  | some p =>
    obtain ⟨v, c⟩ := p
    simp only
    split
    · right; exact h v c hr
    · left; rfl

theorem expandStep_grows (s : ExpandState) (h : WF s) (sym extra : Nat) :
    WF (expandStep s sym extra) ∧
    ∃ b, b ≠ [] ∧ (expandStep s sym extra).out = s.out ++ b := by
  unfold expandStep
  by_cases hlit : sym < 16
  · simp only [hlit, ↓reduceIte]
    exact ⟨fun v c hr => by simp at hr, [sym], by simp, rfl⟩
  · simp only [hlit, ↓reduceIte]
    generalize hval : (if sym = 16 then s.prevNonZero else 0) = val
    rcases pendingRepeat_ge s h val with h0 | h3
    · rw [h0]
      simp only [gt_iff_lt, Nat.lt_irrefl, ↓reduceIte, Nat.zero_add, Nat.sub_zero]
      refine ⟨?_, List.replicate (3 + extra) val, ?_, rfl⟩
      · intro v c hr; simp at hr; omega
      · simp [List.replicate_succ, show 3 + extra = (2 + extra) + 1 by omega]
    · have hpos : pendingRepeat s val > 0 := by omega
      simp only [hpos, ↓reduceIte]
      have hk : 4 ≤ (if sym = 16 then 4 else 8) := by split <;> omega
      have hmul : 4 * (pendingRepeat s val - 2)
          ≤ (if sym = 16 then 4 else 8) * (pendingRepeat s val - 2) := Nat.mul_le_mul_right _ hk
      refine ⟨?_, List.replicate ((if sym = 16 then 4 else 8) * (pendingRepeat s val - 2) + 3
          + extra - pendingRepeat s val) val, ?_, rfl⟩
      · intro v c hr; simp at hr; omega
      · have : (if sym = 16 then 4 else 8) * (pendingRepeat s val - 2) + 3 + extra
            - pendingRepeat s val
            = ((if sym = 16 then 4 else 8) * (pendingRepeat s val - 2) + 3 + extra
              - pendingRepeat s val - 1) + 1 := by omega
        rw [this]; simp [List.replicate_succ]

theorem run_grows (E : List (Nat × Nat)) : ∀ (s : ExpandState), WF s →
    WF (run s E) ∧ ∃ b, (E ≠ [] → b ≠ []) ∧ (run s E).out = s.out ++ b := by
  induction E with
  | nil => intro s h; exact ⟨h, [], fun h => absurd rfl h, by simp⟩
  | cons e E ih =>
    intro s h
    obtain ⟨h1, b1, hb1, ho1⟩ := expandStep_grows s h e.1 e.2
    obtain ⟨h2, b2, _, ho2⟩ := ih (expandStep s e.1 e.2) h1
    refine ⟨h2, b1 ++ b2, fun _ => by simp [hb1], ?_⟩
    rw [run_cons, ho2, ho1, List.append_assoc]

theorem kraftSum_append (L : Nat) (a b : List Nat) :
    kraftSum L (a ++ b) = kraftSum L a + kraftSum L b := by
  simp [kraftSum]

theorem kraftSum_pos_of_last (b : List Nat) (hb : b ≠ []) (hl : b.getLast hb ≠ 0)
    (h15 : b.getLast hb ≤ 15) : 1 ≤ kraftSum 15 b := by
  have hmem := List.getLast_mem hb
  have : ∀ (l : List Nat) (x : Nat), x ∈ l → x ≠ 0 → x ≤ 15 → 1 ≤ kraftSum 15 l := by
    intro l
    induction l with
    | nil => intro x hx; simp at hx
    | cons y ys ih =>
      intro x hx h0 h15
      simp only [kraftSum, List.map_cons, List.sum_cons]
      rcases List.mem_cons.mp hx with rfl | hx'
      · simp only [h0, ↓reduceIte]
        have : 1 ≤ 2 ^ (15 - x) := Nat.pow_pos (by decide)
        omega
      · have := ih x hx' h0 h15
        unfold kraftSum at this
        omega
  exact this b _ hmem hl h15

/-- the reader does not stop before the last entry when the expansion is a
complete length vector whose last length is non-zero -/
theorem prefix_conditions (E : List (Nat × Nat)) (s0 : ExpandState) (hwf : WF s0) (A : Nat)
    (hne : (run s0 E).out ≠ []) (hlast : (run s0 E).out.getLast hne ≠ 0)
    (h15 : ∀ x ∈ (run s0 E).out, x ≤ 15) (hlen : (run s0 E).out.length ≤ A)
    (hkr : kraftSum 15 (run s0 E).out = 32768) :
    ∀ k, k < E.length → (run s0 (E.take k)).out.length < A ∧
      kraftSum 15 (run s0 (E.take k)).out < 32768 := by
  intro k hk
  have hsplit : run s0 E = run (run s0 (E.take k)) (E.drop k) := by
    rw [← run_append, List.take_append_drop]
  obtain ⟨hwf1, _, _, _⟩ := run_grows (E.take k) s0 hwf
  obtain ⟨_, b, hb, hob⟩ := run_grows (E.drop k) (run s0 (E.take k)) hwf1
  have hbne : b ≠ [] := hb (by
    intro h
    have := congrArg List.length h
    simp at this; omega)
  rw [← hsplit] at hob
  have hl2 : (run s0 E).out.getLast hne = b.getLast hbne := by
    simp only [hob]
    exact List.getLast_append_right hbne
  have hb15 : b.getLast hbne ≤ 15 := by
    rw [← hl2]; exact h15 _ (List.getLast_mem hne)
  have hkb := kraftSum_pos_of_last b hbne (by rw [← hl2]; exact hlast) hb15
  have hlb : 1 ≤ b.length := List.length_pos_iff.mpr hbne
  rw [hob, kraftSum_append] at hkr
  rw [hob, List.length_append] at hlen
  omega


theorem trim_last (d : List Nat) (h : trimTrailingZeros d ≠ []) :
    (trimTrailingZeros d).getLast h ≠ 0 := by
  unfold trimTrailingZeros at h ⊢
  have hne : d.reverse.dropWhile (· == 0) ≠ [] := by
    intro hh; rw [hh] at h; exact h rfl
  rw [List.getLast_reverse]
  have := List.head_dropWhile_not (fun x => x == 0) hne
  simpa using this

theorem kraftSum_replicate_zero (L n : Nat) : kraftSum L (List.replicate n 0) = 0 := by
  unfold kraftSum
  induction n with
  | zero => rfl
  | succ n ih => simp [List.replicate_succ]

theorem kraftSum_trim (L : Nat) (d : List Nat) : kraftSum L (trimTrailingZeros d) = kraftSum L d := by
  conv => rhs; rw [← trim_pad d]
  rw [kraftSum_append, kraftSum_replicate_zero]; rfl

/-- the entry list of `BrotliWriteHuffmanTree` for a complete depth vector,
written with a usable code-length code, is read back to the depth vector -/
theorem store_entries_roundtrip (cl clBits : List Nat) (hc : ClCode cl clBits) (d : List Nat)
    (hd : ∀ x ∈ d, x ≤ 15) (hlen : d.length < 2 ^ 64) (hk : kraftSum 15 d = 32768)
    (useNZ useZ : Bool)
    (hvalid : ∀ e ∈ writeHuffmanTreeWith useNZ useZ d, ValidEntry cl e) (w rest : List Bool) :
    ∃ bits, storeHuffmanTreeToBitMask cl clBits (writeHuffmanTreeWith useNZ useZ d) w
        = .ok (w ++ bits) ∧
      readLensGo cl d.length (d.length + 1) ⟨[], 8, none⟩ (bits ++ rest) = some (d, rest) := by
  refine ⟨_, storeEntries_ok cl clBits hc _ w hvalid, ?_⟩
  have hd' : ∀ x ∈ trimTrailingZeros d, x < 16 :=
    trim_lt d (fun x hx => Nat.lt_succ_of_le (hd x hx))
  have hl := trim_length_le d
  have hrt := writeLoop_roundtrip useNZ useZ _ (trimTrailingZeros d) rfl
    (by unfold u64; omega) hd' 8 ⟨[], 8, none⟩ rfl (by intro x _; rfl)
  have hout : (run ⟨[], 8, none⟩ (writeHuffmanTreeWith useNZ useZ d)).out = trimTrailingZeros d := by
    simpa [writeHuffmanTreeWith] using hrt
  have hkt : kraftSum 15 (trimTrailingZeros d) = 32768 := by rw [kraftSum_trim]; exact hk
  have hne : trimTrailingZeros d ≠ [] := by
    intro h; rw [h] at hkt; simp [kraftSum] at hkt
  have hwl := writeLoop_length useNZ useZ _ (trimTrailingZeros d) rfl (by unfold u64; omega) 8
  have hElen : (writeHuffmanTreeWith useNZ useZ d).length ≤ d.length := by
    unfold writeHuffmanTreeWith; omega
  have hwf : WF ⟨[], 8, none⟩ := fun v c h => by simp at h
  have hpre := prefix_conditions (writeHuffmanTreeWith useNZ useZ d) ⟨[], 8, none⟩ hwf d.length
    (by rw [hout]; exact hne)
    (by
      have := trim_last d hne
      simpa [hout] using this)
    (by rw [hout]; intro x hx; have := hd' x hx; omega)
    (by rw [hout]; exact hl) (by rw [hout]; exact hkt)
  have := readEntries cl clBits hc d.length (writeHuffmanTreeWith useNZ useZ d) ⟨[], 8, none⟩
    (d.length + 1) rest hvalid (by omega) hpre (by rw [hout]; exact hl) (by rw [hout]; exact hkt)
  rw [this, hout, trim_pad]

end BV.Lemmas.HuffmanStoreRead
