/-
Lemmas for C17 part 2: `BrotliConvertBitDepthsToSymbols` against the RFC 7932
§3.2 canonical code assignment, and prefix-freeness of canonical codes.
-/
import BV.Lemmas.HuffmanBits

namespace BV.Lemmas.HuffmanCanon
open BV.Gen BV.Bits BV.Huffman BV.Lemmas.HuffmanBits

theorem getAt_of_lt {α : Type} (l : List α) (i : Nat) (h : i < l.length) :
    getAt l i = .ok l[i] := by
  simp [getAt, List.getElem?_eq_getElem h]

theorem getAt_getD (l : List Nat) (i : Nat) (h : i < l.length) :
    getAt l i = .ok (l.getD i 0) := by
  simp [getAt, List.getD_eq_getElem?_getD, List.getElem?_eq_getElem h]

theorem setAt_of_lt {α : Type} (l : List α) (i : Nat) (v : α) (h : i < l.length) :
    setAt l i v = .ok (l.set i v) := by
  simp [setAt, h]

theorem getD_set (l : List Nat) (i j v : Nat) (h : i < l.length) :
    (l.set i v).getD j 0 = if i = j then v else l.getD j 0 := by
  simp only [List.getD_eq_getElem?_getD, List.getElem?_set, h, ↓reduceIte]
  split <;> simp

theorem replicate_getD (n l : Nat) : (List.replicate n 0).getD l 0 = 0 := by
  rw [List.getD_eq_getElem?_getD, List.getElem?_replicate]; split <;> rfl

theorem countLen_cons (x : Nat) (xs : List Nat) (l : Nat) :
    countLen (x :: xs) l = (if x = l then 1 else 0) + countLen xs l := by
  unfold countLen
  rw [List.filter_cons]
  by_cases h : x = l <;> simp [h] <;> omega

theorem countLen_le (xs : List Nat) (l : Nat) : countLen xs l ≤ xs.length := by
  unfold countLen; exact List.length_filter_le _ _

theorem countLen_append (xs ys : List Nat) (l : Nat) :
    countLen (xs ++ ys) l = countLen xs l + countLen ys l := by
  unfold countLen; simp

/-! ### `bl_count` -/

theorem blCountLoop_spec (ds : List Nat) : ∀ (bl : List Nat), bl.length = 16 →
    (∀ d ∈ ds, d < 16) → (∀ l, l < 16 → bl.getD l 0 + countLen ds l < 65536) →
    ∃ bl', blCountLoop ds bl = .ok bl' ∧ bl'.length = 16 ∧
      ∀ l, l < 16 → bl'.getD l 0 = bl.getD l 0 + countLen ds l := by
  induction ds with
  | nil => intro bl hlen _ _; exact ⟨bl, rfl, hlen, by simp [countLen]⟩
  | cons d ds ih =>
    intro bl hlen hds hb
    have hd : d < 16 := hds d (by simp)
    have hdl : d < bl.length := by omega
    simp only [blCountLoop, getAt_getD bl d hdl, Out.bind_ok]
    have hbd := hb d hd
    rw [countLen_cons] at hbd
    simp only [↓reduceIte] at hbd
    have hm : (bl.getD d 0 + 1) % 65536 = bl.getD d 0 + 1 := Nat.mod_eq_of_lt (by omega)
    rw [hm]
    obtain ⟨bl', h1, h2, h3⟩ := ih (bl.set d (bl.getD d 0 + 1)) (by simp [hlen])
      (fun x hx => hds x (List.mem_cons_of_mem _ hx))
      (by
        intro l hl
        rw [getD_set _ _ _ _ hdl]
        have := hb l hl
        rw [countLen_cons] at this
        by_cases hdl' : d = l
        · subst hdl'; simp only [↓reduceIte] at this ⊢; omega
        · simp only [hdl', ↓reduceIte] at this ⊢; omega)
    refine ⟨bl', h1, h2, ?_⟩
    intro l hl
    rw [h3 l hl, getD_set _ _ _ _ hdl, countLen_cons]
    by_cases hdl' : d = l
    · subst hdl'; simp only [↓reduceIte]; omega
    · simp only [hdl', ↓reduceIte]; omega


/-! ### `next_code` -/

/-- `bl_count[l]` after `bl_count[0] = 0` -/
def cnt' (lens : List Nat) (l : Nat) : Nat := if l = 0 then 0 else countLen lens l

theorem firstCode_succ (lens : List Nat) (l : Nat) :
    firstCode lens (l + 1) = (firstCode lens l + cnt' lens l) * 2 := rfl

/-- number of entries smaller than `l` -/
def countLt (lens : List Nat) (l : Nat) : Nat := (lens.filter (fun x => decide (x < l))).length

theorem countLt_succ (lens : List Nat) (l : Nat) :
    countLt lens (l + 1) = countLt lens l + countLen lens l := by
  induction lens with
  | nil => rfl
  | cons x xs ih =>
    unfold countLt countLen at *
    simp only [List.filter_cons]
    by_cases h1 : x < l
    · have h2 : x < l + 1 := by omega
      have h3 : ¬ x = l := by omega
      simp [h1, h2, h3]; omega
    · by_cases h3 : x = l
      · subst h3; simp; omega
      · have h2 : ¬ x < l + 1 := by omega
        simp [h1, h2, h3]; omega

theorem countLt_le (lens : List Nat) (l : Nat) : countLt lens l ≤ lens.length := by
  unfold countLt; exact List.length_filter_le _ _

theorem firstCode_le (lens : List Nat) (l : Nat) : firstCode lens l ≤ 2 ^ l * countLt lens l := by
  induction l with
  | zero => simp [firstCode]
  | succ l ih =>
    rw [firstCode_succ, countLt_succ, Nat.pow_succ]
    have hc : cnt' lens l ≤ countLen lens l := by unfold cnt'; split <;> omega
    have hp : 1 ≤ 2 ^ l := Nat.pow_pos (by decide)
    have : cnt' lens l ≤ 2 ^ l * countLen lens l := by
      calc cnt' lens l ≤ 1 * countLen lens l := by omega
        _ ≤ 2 ^ l * countLen lens l := Nat.mul_le_mul_right _ hp
    rw [Nat.mul_add]
    have e : 2 ^ l * 2 * countLt lens l = (2 ^ l * countLt lens l) * 2 := by
      rw [Nat.mul_assoc, Nat.mul_comm 2, ← Nat.mul_assoc]
    have e2 : 2 ^ l * 2 * countLen lens l = (2 ^ l * countLen lens l) * 2 := by
      rw [Nat.mul_assoc, Nat.mul_comm 2, ← Nat.mul_assoc]
    rw [e, e2]
    omega

theorem firstCode_add_lt (lens : List Nat) (hn : lens.length < 65536) (l : Nat) (hl : l ≤ 15) :
    firstCode lens l + cnt' lens l < 2147483648 := by
  have h1 := firstCode_le lens l
  have hc : cnt' lens l ≤ countLen lens l := by unfold cnt'; split <;> omega
  have hp : 1 ≤ 2 ^ l := Nat.pow_pos (by decide)
  have h2 : cnt' lens l ≤ 2 ^ l * countLen lens l := by
    calc cnt' lens l ≤ 1 * countLen lens l := by omega
      _ ≤ 2 ^ l * countLen lens l := Nat.mul_le_mul_right _ hp
  have h3 : 2 ^ l * countLt lens l + 2 ^ l * countLen lens l = 2 ^ l * countLt lens (l + 1) := by
    rw [countLt_succ, Nat.mul_add]
  have h4 := countLt_le lens (l + 1)
  have h5 : (2:Nat) ^ l ≤ 2 ^ 15 := Nat.pow_le_pow_right (by decide) hl
  have h6 : 2 ^ l * countLt lens (l + 1) ≤ 2 ^ 15 * 65535 :=
    Nat.mul_le_mul h5 (by omega)
  have : (2:Nat) ^ 15 * 65535 < 2147483648 := by decide
  omega

theorem nextCodeLoop_spec (lens : List Nat) (m : Nat) : ∀ j,
    (∀ l, l < j + m → firstCode lens l + cnt' lens l < 2147483648) →
    nextCodeLoop ((List.range' j m).map (cnt' lens)) (firstCode lens j) =
      .ok ((List.range' (j + 1) m).map fun l => firstCode lens l % 65536) := by
  induction m with
  | zero => intro j _; rfl
  | succ m ih =>
    intro j hb
    rw [List.range'_succ, List.map_cons, List.range'_succ, List.map_cons]
    have hbj := hb j (by omega)
    simp only [nextCodeLoop]
    have hno : ¬ (firstCode lens j < 2147483648 ∧ firstCode lens j + cnt' lens j ≥ 2147483648) := by
      omega
    simp only [hno, ↓reduceIte]
    have hc : (firstCode lens j + cnt' lens j) % u32 * 2 % u32 = firstCode lens (j + 1) := by
      rw [firstCode_succ]
      unfold u32
      rw [Nat.mod_eq_of_lt (by omega), Nat.mod_eq_of_lt (by omega)]
    rw [hc, ih (j + 1) (fun l hl => hb l (by omega))]
    rfl

/-! ### the assignment loop -/

theorem assignLoop_spec (ds : List Nat) : ∀ (i : Nat) (next bits : List Nat),
    next.length = 16 → (∀ d ∈ ds, d < 16) → i + ds.length ≤ bits.length →
    (∀ l, next.getD l 0 < 65536) →
    ∃ bits', assignLoop ds i next bits = .ok bits' ∧ bits'.length = bits.length ∧
      (∀ k, (k < i ∨ i + ds.length ≤ k) → bits'.getD k 0 = bits.getD k 0) ∧
      (∀ m, m < ds.length → bits'.getD (i + m) 0 =
        if ds.getD m 0 ≠ 0 then
          reverseBits (ds.getD m 0)
            ((next.getD (ds.getD m 0) 0 + countLen (ds.take m) (ds.getD m 0)) % 65536)
        else bits.getD (i + m) 0) := by
  induction ds with
  | nil =>
    intro i next bits _ _ _ _
    exact ⟨bits, rfl, rfl, fun _ _ => rfl, fun m hm => absurd hm (by simp)⟩
  | cons d ds ih =>
    intro i next bits hnl hds hlen hnb
    have hd : d < 16 := hds d (by simp)
    have hds' : ∀ x ∈ ds, x < 16 := fun x hx => hds x (List.mem_cons_of_mem _ hx)
    have hlen0 : i + (ds.length + 1) ≤ bits.length := hlen
    have hlen' : i + 1 + ds.length ≤ bits.length := by omega
    simp only [assignLoop]
    by_cases hd0 : d = 0
    · subst hd0
      simp only [ne_eq, not_true_eq_false, ↓reduceIte]
      obtain ⟨bits', h1, h2, h3, h4⟩ := ih (i + 1) next bits hnl hds' hlen' hnb
      refine ⟨bits', h1, h2, ?_, ?_⟩
      · intro k hk
        exact h3 k (by simp only [List.length_cons] at hk; omega)
      · intro m hm
        cases m with
        | zero => simpa using h3 i (by omega)
        | succ m =>
          have hm' : m < ds.length := by simp only [List.length_cons] at hm; omega
          have := h4 m hm'
          have e : i + 1 + m = i + (m + 1) := by omega
          rw [e] at this
          rw [this]
          simp only [List.getD_cons_succ, List.take_succ_cons, countLen_cons]
          by_cases hz : ds.getD m 0 = 0
          · rw [if_neg (fun h => h hz), if_neg (fun h => h hz)]
          · have hz' : ¬ (0 = ds.getD m 0) := fun h => hz h.symm
            simp only [hz', ↓reduceIte, Nat.zero_add]
    · simp only [ne_eq, hd0, not_false_eq_true, ↓reduceIte]
      have hdl : d < next.length := by omega
      have hil : i < bits.length := by omega
      simp only [getAt_getD next d hdl, Out.bind_ok, setAt_of_lt bits i _ hil]
      obtain ⟨bits', h1, h2, h3, h4⟩ := ih (i + 1) (next.set d ((next.getD d 0 + 1) % 65536))
        (bits.set i (reverseBits d (next.getD d 0))) (by simp [hnl]) hds'
        (by simp; omega)
        (by
          intro l
          rw [getD_set _ _ _ _ hdl]
          split
          · exact Nat.mod_lt _ (by decide)
          · exact hnb l)
      refine ⟨bits', h1, by simp [h2], ?_, ?_⟩
      · intro k hk
        rw [h3 k (by simp only [List.length_cons] at hk; omega), getD_set _ _ _ _ hil]
        have : ¬ i = k := by simp only [List.length_cons] at hk; omega
        simp [this]
      · intro m hm
        cases m with
        | zero =>
          rw [Nat.add_zero, h3 i (by omega), getD_set _ _ _ _ hil]
          have hm0 := Nat.mod_eq_of_lt (hnb d)
          simp only [List.getD_cons_zero, hd0, not_false_eq_true, ↓reduceIte, List.take_zero,
            countLen, List.filter_nil, List.length_nil, Nat.add_zero, hm0]
        | succ m =>
          have hm' : m < ds.length := by simp only [List.length_cons] at hm; omega
          have := h4 m hm'
          have e : i + 1 + m = i + (m + 1) := by omega
          rw [e] at this
          rw [this]
          simp only [List.getD_cons_succ, List.take_succ_cons, countLen_cons]
          split
          · congr 1
            rw [getD_set _ _ _ _ hdl]
            by_cases hdd : d = ds.getD m 0
            · simp only [hdd, ↓reduceIte]
              omega
            · simp only [hdd, ↓reduceIte, Nat.zero_add]
          · rw [getD_set _ _ _ _ hil]
            have : ¬ i = i + (m + 1) := by omega
            simp only [this, ↓reduceIte]


/-! ### `BrotliConvertBitDepthsToSymbols` = canonical code, bit-reversed -/

theorem reverseBits_mod (n x : Nat) (h1 : 1 ≤ n) (h16 : n ≤ 16) :
    reverseBits n (x % 65536) = reverseBits n x := by
  rw [reverseBits_eq n _ h1 h16, reverseBits_eq n _ h1 h16, ← revSpec_mod n (x % 65536),
    ← revSpec_mod n x]
  congr 1
  have : (65536 : Nat) = 2 ^ 16 := by decide
  rw [this]
  exact Nat.mod_mod_of_dvd _ (Nat.pow_dvd_pow 2 h16)

theorem canonicalCodes_getD (d : List Nat) (i : Nat) (hi : i < d.length) :
    (canonicalCodes d).getD i 0 =
      if d.getD i 0 = 0 then 0 else firstCode d (d.getD i 0) + countLen (d.take i) (d.getD i 0) := by
  unfold canonicalCodes
  simp [List.getD_eq_getElem?_getD, hi]

theorem convert_spec (d bits : List Nat) (hd : ∀ x ∈ d, x ≤ 15) (hn : d.length < 65536)
    (hb : d.length ≤ bits.length) :
    ∃ bits', convertBitDepthsToSymbols d d.length bits = .ok bits' ∧ bits'.length = bits.length ∧
      (∀ k, d.length ≤ k → bits'.getD k 0 = bits.getD k 0) ∧
      ∀ i, i < d.length → bits'.getD i 0 =
        if d.getD i 0 ≠ 0 then reverseBits (d.getD i 0) ((canonicalCodes d).getD i 0)
        else bits.getD i 0 := by
  have hd16 : ∀ x ∈ d, x < 16 := fun x hx => Nat.lt_succ_of_le (hd x hx)
  unfold convertBitDepthsToSymbols
  simp only [Nat.lt_irrefl, gt_iff_lt, ↓reduceIte, List.take_length]
  have hM : MAX_HUFFMAN_BITS = 16 := rfl
  simp only [hM]
  obtain ⟨bl, hbl1, hbl2, hbl3⟩ := blCountLoop_spec d (List.replicate 16 0) (by simp) hd16
    (by
      intro l hl
      have := countLen_le d l
      rw [replicate_getD]; omega)
  simp only [hbl1, Out.bind_ok]
  have htake : (bl.set 0 0).take (16 - 1) = (List.range' 0 15).map (cnt' d) := by
    apply List.ext_getElem?
    intro k
    simp only [Nat.add_one_sub_one, List.getElem?_take, List.getElem?_map]
    by_cases hk : k < 15
    · have hk16 : k < bl.length := by omega
      simp only [hk, ↓reduceIte, List.getElem?_set, List.getElem?_range' , Nat.zero_add]
      have h3 := hbl3 k (by omega)
      rw [replicate_getD, Nat.zero_add, List.getD_eq_getElem?_getD] at h3
      by_cases hk0 : k = 0
      · subst hk0; simp [cnt', hbl2]
      · have : ¬ 0 = k := fun h => hk0 h.symm
        simp only [this, ↓reduceIte, cnt', hk0, Nat.one_mul, Option.map_some]
        rw [List.getElem?_eq_getElem hk16] at h3 ⊢
        simpa using h3
    · simp [hk]
  rw [htake]
  have hnc := nextCodeLoop_spec d 15 0 (fun l hl => firstCode_add_lt d hn l (by omega))
  have hf0 : firstCode d 0 = 0 := rfl
  rw [hf0] at hnc
  simp only [hnc, Out.bind_ok]
  have hnext : ∀ l, ((0 : Nat) :: (List.range' (0 + 1) 15).map fun l => firstCode d l % 65536).getD l 0
      = if l < 16 then firstCode d l % 65536 else 0 := by
    intro l
    cases l with
    | zero => simp [hf0]
    | succ l =>
      simp only [List.getD_eq_getElem?_getD]
      by_cases hl : l < 15
      · have : l + 1 < 16 := by omega
        simp [this, Nat.add_comm]
      · have : ¬ l + 1 < 16 := by omega
        simp [this]
  obtain ⟨bits', h1, h2, h3, h4⟩ := assignLoop_spec d 0
    (0 :: (List.range' (0 + 1) 15).map fun l => firstCode d l % 65536) bits
    (by simp) hd16 (by omega)
    (by
      intro l; rw [hnext]; split
      · exact Nat.mod_lt _ (by decide)
      · decide)
  refine ⟨bits', h1, h2, fun k hk => h3 k (Or.inr (by omega)), ?_⟩
  intro i hi
  have h4i := h4 i hi
  rw [Nat.zero_add] at h4i
  rw [h4i]
  by_cases hz : d.getD i 0 = 0
  · rw [if_neg (fun h => h hz), if_neg (fun h => h hz)]
  · rw [if_pos hz, if_pos hz]
    have hmem : d.getD i 0 ∈ d := by
      rw [List.getD_eq_getElem?_getD, List.getElem?_eq_getElem hi]; simp
    have hl16 := hd16 _ hmem
    rw [hnext, if_pos hl16, canonicalCodes_getD d i hi, if_neg hz, Nat.mod_add_mod,
      reverseBits_mod _ _ (by omega) (by omega)]

end BV.Lemmas.HuffmanCanon
