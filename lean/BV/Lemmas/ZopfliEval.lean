import BV.Lemmas.ZopfliUpd3
/-! `EvaluateNode`, first part: the value `ComputeDistanceShortcut` stores means what `SC` says.
(Not yet used by a registered theorem: the rest of `EvaluateNode` — `ComputeDistanceCache` = the ring at the
position, `StartPosQueue::push` — is open.) -/
namespace BV.Zopfli
open BV.Hasher BV.MatchFinder BV.Recoder BV.PrefixArith BV.MetaBlock BV.Cbr BV

/-- **ComputeDistanceShortcut establishes `SC`** at a reached position whose predecessors have been evaluated -/
theorem computeDistanceShortcut_sc {K : Type} {C : ZC} {inf : K} {nodes : Array (Node K)} {pos : Nat}
    (h : DPInv C inf nodes pos) (hnb : C.numBytes ≤ 2 ^ 24) (hpos : pos ≤ C.numBytes)
    (n : Node K) (hn : nodes[pos]? = some n) (hreach : pos = 0 ∨ ¬ n.isStub) (sc : Nat)
    (hc : computeDistanceShortcut C.base pos C.window nodes = some sc) :
    SC C.window C.base nodes pos sc := by
  have hU : U64 = 18446744073709551616 := rfl
  have hU32 : U32 = 4294967296 := rfl
  have hp24 : (2 : Nat) ^ 24 = 16777216 := by decide
  rw [computeDistanceShortcut] at hc
  simp -zeta only [hn] at hc
  by_cases h0 : pos = 0
  · rw [if_pos h0] at hc
    injection hc with hc
    subst hc; subst h0
    exact ⟨[], Hist.zero, Or.inl ⟨rfl, rfl⟩⟩
  rw [if_neg h0] at hc
  have hns : ¬ n.isStub := by rcases hreach with h1 | h1; exact absurd h1 h0; exact h1
  rcases h.back pos n h0 hpos hn with hs | ⟨⟨hle, r, hr, hok⟩, hlt⟩
  · exact absurd hs hns
  have hidx : wsub (wsub pos n.copyLength) n.insertLength = pos - (n.insertLength + n.copyLength) := by
    have h1 : wsub pos n.copyLength = pos - n.copyLength := by
      rw [wsub_eq (by omega) (by omega), if_pos (by omega)]
    rw [h1, wsub_eq (by omega) (by omega), if_pos (by omega)]
    omega
  -- the start position has been evaluated: its `shortcut` is meaningful
  obtain ⟨m, hm, hmreach⟩ : ∃ m, nodes[pos - (n.insertLength + n.copyLength)]? = some m ∧
      (pos - (n.insertLength + n.copyLength) = 0 ∨ ¬ m.isStub) := by
    rcases hr.reached with h1 | ⟨m, hm, hms⟩
    · obtain ⟨n0, hn0, _⟩ := h.zero
      exact ⟨n0, by rw [h1]; exact hn0, Or.inl h1⟩
    · exact ⟨m, hm, Or.inr hms⟩
  obtain ⟨s0, hu0, P0, hP0, hcase⟩ := h.sc _ m hlt hm hmreach
  have hcpos := hok.copy_pos
  have hstep := Hist.step (window := C.window) (base := C.base) n h0 hn hns hcpos hle hP0
  by_cases hcond : n.distance + n.copyLength ≤ C.base + pos ∧ n.distance ≤ C.window ∧ n.distanceCode > 0
  · rw [if_pos hcond] at hc
    injection hc with hc
    have hsc : sc = pos := by rw [← hc]; exact Nat.mod_eq_of_lt (by omega)
    rw [hsc]
    rw [if_pos ⟨by have := Nat.le_min.mpr ⟨(by omega : n.distance ≤ C.base + pos - n.copyLength), hcond.2.1⟩; exact this,
      by omega⟩] at hstep
    exact ⟨_, hstep, Or.inr ⟨h0, Nat.le_refl _, n, P0, hn, hns, hle, hcond.2.1, hP0, rfl⟩⟩
  · rw [if_neg hcond] at hc
    rw [hidx] at hc
    simp -zeta only [hm] at hc
    injection hc with hc
    have hs0 : sc = s0 := by rw [← hc]; simp only [Node.shortcutOf, hu0]
    subst hs0
    rw [if_neg (by
      intro ⟨h1, h2⟩
      have := Nat.le_min.mp h1
      exact hcond ⟨by omega, this.2, by omega⟩)] at hstep
    refine ⟨P0, hstep, ?_⟩
    rcases hcase with hz | ⟨hs0, hse, n', P', hn', hst', hle', hdw', hP', hPe⟩
    · exact Or.inl hz
    · exact Or.inr ⟨hs0, by omega, n', P', hn', hst', hle', hdw', hP', hPe⟩

end BV.Zopfli
