import BV.Lemmas.StreamTerm5
/-
`tiny_buf_` (16 bytes) is never indexed past its end: the invariant `TinyOK` and its
preservation by every primitive.  This is the class of the "stale next_out_ padding" panic.
-/
namespace BV.Stream
open BV.Bits

/-- whenever the output cursor points into `tiny_buf_`, the pending bytes fit behind it, and a
carry can only coexist with an empty `tiny_buf_`; a null cursor means nothing is pending; inside
a metadata body there is no carry and nothing buffered -/
structure TinyOK (s : St) : Prop where
  fits : ∀ off, s.nextOut = .tiny off → off + s.pending.length ≤ 16 ∧ (s.pending.length ≠ 0 → s.lastBytesBits = 0)
  none : s.nextOut = .none → s.pending.length = 0
  body : s.streamState = .metadataBody → s.lastBytesBits = 0 ∧ s.inputPos = s.lastFlushPos

theorem tinyOK_new : TinyOK St.new :=
  ⟨fun _ h => by simp [St.new] at h, fun _ => rfl, fun h => by simp [St.new] at h⟩

theorem tinyOK_of_eq {s s' : St} (hT : TinyOK s) (h1 : s'.nextOut = s.nextOut) (h2 : s'.pending = s.pending)
    (h3 : s'.lastBytesBits = s.lastBytesBits) (h4 : s'.streamState = s.streamState)
    (h5 : s'.inputPos = s.inputPos) (h6 : s'.lastFlushPos = s.lastFlushPos) : TinyOK s' := by
  refine ⟨?_, ?_, ?_⟩
  · intro off ho; rw [h2, h3]; exact hT.fits off (h1 ▸ ho)
  · intro hn; rw [h2]; exact hT.none (h1 ▸ hn)
  · intro hb; rw [h3, h5, h6]; exact hT.body (h4 ▸ hb)

/-- a state whose cursor has just been set to the start of `storage_` -/
theorem tinyOK_dyn {s' : St} {off : Nat} (h1 : s'.nextOut = .dyn off)
    (hb : s'.streamState = .metadataBody → s'.lastBytesBits = 0 ∧ s'.inputPos = s'.lastFlushPos) : TinyOK s' :=
  ⟨fun o ho => by rw [h1] at ho; cases ho, fun hn => by rw [h1] at hn; cases hn, hb⟩

/-- **the padding block never runs past `tiny_buf_`**: under `TinyOK`, when a padding block is due
(`lbb ≠ 0`) the `tiny_buf_` bound check of `inject_byte_padding_block` cannot fire -/
theorem pad_tiny_safe {s : St} (hT : TinyOK s) (hl : s.lastBytesBits ≤ 14) (hlb : s.lastBytesBits ≠ 0) :
    injectBytePaddingBlock s = .ok (padResult s (.tiny 0)) ∨
    (∃ off, s.nextOut = .dyn off ∧ s.pending.length ≠ 0) := by
  unfold injectBytePaddingBlock
  cases hno : s.nextOut with
  | none => left; simp [padAppend, hno]
  | dyn off =>
    by_cases hp : s.pending.length = 0
    · left; simp [padAppend, hno, hp]
    · right; exact ⟨off, rfl, hp⟩
  | tiny off =>
    by_cases hp : s.pending.length = 0
    · left; simp [padAppend, hno, hp]
    · exact absurd ((hT.fits off hno).2 hp) hlb

theorem tinyOK_pad {s s' : St} (hT : TinyOK s) (hl : s.lastBytesBits ≤ 14) (hlb : s.lastBytesBits ≠ 0)
    (hst : s.streamState ≠ .metadataBody)
    (h : injectBytePaddingBlock s = .ok s') : TinyOK s' := by
  have hn : (s.lastBytesBits + 6 + 7) / 8 ≤ 3 := by omega
  rcases pad_tiny_safe hT hl hlb with h1 | ⟨off, h1, h2⟩
  · rw [h1] at h
    simp only [Out.ok.injEq] at h
    subst h
    have hp0 : s.pending.length = 0 := by
      -- the non-append branch was taken
      unfold injectBytePaddingBlock at h1
      by_cases ha : padAppend s = true
      · rw [if_pos ha] at h1
        cases hno : s.nextOut with
        | none => rw [hno] at h1; simp at h1
        | dyn o =>
          exfalso
          rw [hno] at h1
          simp only at h1
          split at h1
          · simp at h1
          · simp only [Out.ok.injEq] at h1
            have := congrArg St.nextOut h1
            simp [padResult, hno] at this
        | tiny o =>
          have hpn : s.pending.length ≠ 0 := by
            unfold padAppend at ha; rw [hno] at ha; simpa using ha
          exact absurd ((hT.fits o hno).2 hpn) hlb
      · cases hno : s.nextOut with
        | none => exact hT.none hno
        | dyn o => unfold padAppend at ha; rw [hno] at ha; simpa using ha
        | tiny o => unfold padAppend at ha; rw [hno] at ha; simpa using ha
    refine ⟨?_, ?_, ?_⟩
    · intro o ho
      simp only [padResult] at ho ⊢
      injection ho with ho
      subst ho
      simp only [List.length_append, sealBytes, List.length_map, List.length_range, hp0]
      exact ⟨by omega, fun _ => trivial⟩
    · intro hno; simp [padResult] at hno
    · intro hb; exact absurd hb hst
  · -- appended behind pending output in `storage_`
    obtain ⟨nx, hs'⟩ := pad_result h
    have hnx : s'.nextOut = .dyn off := by
      unfold injectBytePaddingBlock at h
      have ha : padAppend s = true := by unfold padAppend; rw [h1]; simpa using h2
      rw [if_pos ha, h1] at h
      simp only at h
      split at h
      · simp at h
      · simp only [Out.ok.injEq] at h
        rw [← h]; simp [padResult, h1]
    refine tinyOK_dyn hnx ?_
    intro hb
    rw [hs'] at hb
    exact absurd hb hst

/-- handing out pending bytes keeps `TinyOK` and never indexes past `tiny_buf_` -/
theorem tinyOK_push {s s' : St} {io io' : Io} {b : Bool} (hT : TinyOK s) (hl : s.lastBytesBits ≤ 14)
    (hst : s.streamState = .flushRequested → True)
    (h : injectFlushOrPushOutput s io = .ok (s', io', b)) : TinyOK s' := by
  unfold injectFlushOrPushOutput at h
  split at h
  · rename_i hc
    split at h
    · rename_i s1 hp
      simp only [Out.ok.injEq, Prod.mk.injEq] at h
      obtain ⟨rfl, _, _⟩ := h
      exact tinyOK_pad hT hl hc.2 (by rw [hc.1]; simp) hp
    · simp at h
    · simp at h
  · simp only at h
    split at h
    · split at h
      · simp at h
      · rename_i hcap
        simp only [Out.ok.injEq, Prod.mk.injEq] at h
        obtain ⟨rfl, _, _⟩ := h
        have hle : min s.pending.length io.availOut ≤ s.pending.length := Nat.min_le_left _ _
        refine ⟨?_, ?_, ?_⟩
        · intro off ho
          simp only at ho ⊢
          cases hno : s.nextOut with
          | none => rw [hno] at ho; simp [nextOutIncrement] at ho
          | dyn o => rw [hno] at ho; simp [nextOutIncrement] at ho
          | tiny o =>
            rw [hno] at ho
            simp only [nextOutIncrement, NextOut.tiny.injEq] at ho
            obtain ⟨f1, f2⟩ := hT.fits o hno
            have hsmall : o + min s.pending.length io.availOut < two32 := by unfold two32; omega
            rw [Nat.mod_eq_of_lt hsmall] at ho
            subst ho
            simp only [List.length_drop]
            refine ⟨by omega, ?_⟩
            intro hne
            exact f2 (by omega)
        · intro hno
          simp only at hno ⊢
          cases hno' : s.nextOut with
          | none => have := hT.none hno'; simp only [List.length_drop]; omega
          | dyn o => rw [hno'] at hno; simp [nextOutIncrement] at hno
          | tiny o => rw [hno'] at hno; simp [nextOutIncrement] at hno
        · intro hb; exact hT.body hb
    · simp only [Out.ok.injEq, Prod.mk.injEq] at h
      obtain ⟨rfl, _, _⟩ := h
      exact hT

/-- the `tiny_buf_` capacity check of the push never fires under `TinyOK` -/
theorem push_tiny_safe {s : St} {io : Io} {off : Nat} (hT : TinyOK s) (hno : s.nextOut = .tiny off) :
    off + min s.pending.length io.availOut ≤ 16 := by
  have := (hT.fits off hno).1
  have : min s.pending.length io.availOut ≤ s.pending.length := Nat.min_le_left _ _
  omega

/-- `take_output` never slices `tiny_buf_` out of range under `TinyOK` -/
theorem take_tiny_safe {s : St} {off : Nat} (hT : TinyOK s) (hno : s.nextOut = .tiny off) : takeSliceOk s = true := by
  unfold takeSliceOk
  rw [hno]
  have := (hT.fits off hno).1
  simp only [decide_eq_true_eq]
  omega

/-- the metadata header always fits the 16-byte staging buffer (carry of at most 14 bits) -/
theorem md_header_tiny_safe {s : St} (hl : s.lastBytesBits ≤ 14) :
    ¬ ((bitsOf s.lastBytesBits s.lastBytes).length + 6) / 8 + 8 > 16 := by
  rw [bitsOf_length]; omega

end BV.Stream
