import BV.Lemmas.StreamTerm5
/-
`tiny_buf_` (16 bytes) is never indexed past its end: the invariant `TinyOK` and its
preservation by every primitive.  This is the class of the "stale next_out_ padding" panic.
-/
namespace BV.Stream
open BV.Bits

/-- whenever the output cursor points into `tiny_buf_`, the pending bytes fit behind it, and a
carry can only coexist with an empty `tiny_buf_`; a null cursor means nothing is pending; inside
a metadata body there is no carry and nothing buffered -/
structure TinyOK (s : St) : Prop where
  fits : ∀ off, s.nextOut = .tiny off → off + s.pending.length ≤ 16 ∧ (s.pending.length ≠ 0 → s.lastBytesBits = 0)
  none : s.nextOut = .none → s.pending.length = 0
  body : s.streamState = .metadataBody → s.lastBytesBits = 0 ∧ s.inputPos = s.lastFlushPos

theorem tinyOK_new : TinyOK St.new :=
  ⟨fun _ h => by simp [St.new] at h, fun _ => rfl, fun h => by simp [St.new] at h⟩

theorem tinyOK_of_eq {s s' : St} (hT : TinyOK s) (h1 : s'.nextOut = s.nextOut) (h2 : s'.pending = s.pending)
    (h3 : s'.lastBytesBits = s.lastBytesBits) (h4 : s'.streamState = s.streamState)
    (h5 : s'.inputPos = s.inputPos) (h6 : s'.lastFlushPos = s.lastFlushPos) : TinyOK s' := by
  refine ⟨?_, ?_, ?_⟩
  · intro off ho; rw [h2, h3]; exact hT.fits off (h1 ▸ ho)
  · intro hn; rw [h2]; exact hT.none (h1 ▸ hn)
  · intro hb; rw [h3, h5, h6]; exact hT.body (h4 ▸ hb)

/-- a state whose cursor has just been set to the start of `storage_` -/
theorem tinyOK_dyn {s' : St} {off : Nat} (h1 : s'.nextOut = .dyn off)
    (hb : s'.streamState = .metadataBody → s'.lastBytesBits = 0 ∧ s'.inputPos = s'.lastFlushPos) : TinyOK s' :=
  ⟨fun o ho => (by rw [h1] at ho; cases ho), fun hn => (by rw [h1] at hn; cases hn), hb⟩

/-- **the padding block never runs past `tiny_buf_`**: under `TinyOK`, when a padding block is due
(`lbb ≠ 0`) the `tiny_buf_` bound check of `inject_byte_padding_block` cannot fire -/
theorem pad_tiny_safe {s : St} (hT : TinyOK s) (hl : s.lastBytesBits ≤ 14) (hlb : s.lastBytesBits ≠ 0) :
    injectBytePaddingBlock s = .ok (padResult s (.tiny 0)) ∨
    (∃ off, s.nextOut = .dyn off ∧ s.pending.length ≠ 0) := by
  unfold injectBytePaddingBlock
  cases hno : s.nextOut with
  | none => left; simp [padAppend, hno]
  | dyn off =>
    by_cases hp : s.pending.length = 0
    · left; simp [padAppend, hno, hp]
    · right; exact ⟨off, rfl, hp⟩
  | tiny off =>
    by_cases hp : s.pending.length = 0
    · left; simp [padAppend, hno, hp]
    · exact absurd ((hT.fits off hno).2 hp) hlb

theorem tinyOK_pad {s s' : St} (hT : TinyOK s) (hl : s.lastBytesBits ≤ 14) (hlb : s.lastBytesBits ≠ 0)
    (hst : s.streamState ≠ .metadataBody)
    (h : injectBytePaddingBlock s = .ok s') : TinyOK s' := by
  have hn : (s.lastBytesBits + 6 + 7) / 8 ≤ 3 := by omega
  rcases pad_tiny_safe hT hl hlb with h1 | ⟨off, h1, h2⟩
  · rw [h1] at h
    simp only [Out.ok.injEq] at h
    subst h
    have hp0 : s.pending.length = 0 := by
      -- the non-append branch was taken
      unfold injectBytePaddingBlock at h1
      by_cases ha : padAppend s = true
      · rw [if_pos ha] at h1
        cases hno : s.nextOut with
        | none => rw [hno] at h1; simp at h1
        | dyn o =>
          exfalso
          rw [hno] at h1
          simp only at h1
          split at h1
          · simp at h1
          · simp only [Out.ok.injEq] at h1
            have := congrArg St.nextOut h1
            simp [padResult, hno] at this
        | tiny o =>
          have hpn : s.pending.length ≠ 0 := by
            unfold padAppend at ha; rw [hno] at ha; simpa using ha
          exact absurd ((hT.fits o hno).2 hpn) hlb
      · cases hno : s.nextOut with
        | none => exact hT.none hno
        | dyn o => unfold padAppend at ha; rw [hno] at ha; simpa using ha
        | tiny o => unfold padAppend at ha; rw [hno] at ha; simpa using ha
    refine ⟨?_, ?_, ?_⟩
    · intro o ho
      simp only [padResult] at ho ⊢
      injection ho with ho
      subst ho
      simp only [List.length_append, sealBytes, List.length_map, List.length_range, hp0]
      exact ⟨by omega, fun _ => trivial⟩
    · intro hno; simp [padResult] at hno
    · intro hb; exact absurd hb hst
  · -- appended behind pending output in `storage_`
    obtain ⟨nx, hs'⟩ := pad_result h
    have hnx : s'.nextOut = .dyn off := by
      unfold injectBytePaddingBlock at h
      have ha : padAppend s = true := by unfold padAppend; rw [h1]; simpa using h2
      rw [if_pos ha, h1] at h
      simp only at h
      split at h
      · simp at h
      · simp only [Out.ok.injEq] at h
        rw [← h]; simp [padResult, h1]
    refine tinyOK_dyn hnx ?_
    intro hb
    rw [hs'] at hb
    exact absurd hb hst

/-- shape of a push (the non-padding branch that moved bytes or declined) -/
theorem push_shape {s s' : St} {io io' : Io} {b : Bool}
    (hc : ¬ (s.streamState = .flushRequested ∧ s.lastBytesBits ≠ 0))
    (h : injectFlushOrPushOutput s io = .ok (s', io', b)) :
    (s' = s) ∨
    (s'.nextOut = nextOutIncrement s.nextOut (min s.pending.length io.availOut)
      ∧ s'.pending = s.pending.drop (min s.pending.length io.availOut)
      ∧ s'.lastBytesBits = s.lastBytesBits ∧ s'.streamState = s.streamState
      ∧ s'.inputPos = s.inputPos ∧ s'.lastFlushPos = s.lastFlushPos) := by
  unfold injectFlushOrPushOutput at h
  rw [if_neg hc] at h
  simp only at h
  split_all h
  all_goals first
    | (simp at h; done)
    | (simp only [Out.ok.injEq, Prod.mk.injEq] at h; obtain ⟨rfl, _, _⟩ := h; right; exact ⟨rfl, rfl, rfl, rfl, rfl, rfl⟩)
    | (simp only [Out.ok.injEq, Prod.mk.injEq] at h; obtain ⟨rfl, _, _⟩ := h; left; rfl)

/-- handing out pending bytes keeps `TinyOK` -/
theorem tinyOK_push {s s' : St} {io io' : Io} {b : Bool} (hT : TinyOK s) (hl : s.lastBytesBits ≤ 14)
    (h : injectFlushOrPushOutput s io = .ok (s', io', b)) : TinyOK s' := by
  by_cases hc : s.streamState = .flushRequested ∧ s.lastBytesBits ≠ 0
  · unfold injectFlushOrPushOutput at h
    rw [if_pos hc] at h
    split at h
    · rename_i s1 hp
      simp only [Out.ok.injEq, Prod.mk.injEq] at h
      obtain ⟨rfl, _, _⟩ := h
      exact tinyOK_pad hT hl hc.2 (by rw [hc.1]; simp) hp
    · simp at h
    · simp at h
  · rcases push_shape hc h with rfl | ⟨h1, h2, h3, h4, h5, h6⟩
    · exact hT
    · have hle : min s.pending.length io.availOut ≤ s.pending.length := Nat.min_le_left _ _
      refine ⟨?_, ?_, ?_⟩
      · intro off ho
        rw [h1] at ho
        cases hno : s.nextOut with
        | none => rw [hno] at ho; simp [nextOutIncrement] at ho
        | dyn o => rw [hno] at ho; simp [nextOutIncrement] at ho
        | tiny o =>
          rw [hno] at ho
          simp only [nextOutIncrement, NextOut.tiny.injEq] at ho
          obtain ⟨f1, f2⟩ := hT.fits o hno
          have hsmall : o + min s.pending.length io.availOut < two32 := by unfold two32; omega
          rw [Nat.mod_eq_of_lt hsmall] at ho
          subst ho
          rw [h2, h3, List.length_drop]
          refine ⟨by omega, ?_⟩
          intro hne
          exact f2 (by omega)
      · intro hno
        rw [h1] at hno
        cases hno' : s.nextOut with
        | none => have := hT.none hno'; rw [h2, List.length_drop]; omega
        | dyn o => rw [hno'] at hno; simp [nextOutIncrement] at hno
        | tiny o => rw [hno'] at hno; simp [nextOutIncrement] at hno
      · intro hb; rw [h3, h5, h6]; exact hT.body (h4 ▸ hb)

/-- the `tiny_buf_` capacity check of the push never fires under `TinyOK` -/
theorem push_tiny_safe {s : St} {io : Io} {off : Nat} (hT : TinyOK s) (hno : s.nextOut = .tiny off) :
    off + min s.pending.length io.availOut ≤ 16 := by
  have := (hT.fits off hno).1
  have : min s.pending.length io.availOut ≤ s.pending.length := Nat.min_le_left _ _
  omega

/-- `take_output` never slices `tiny_buf_` out of range under `TinyOK` -/
theorem take_tiny_safe {s : St} {off : Nat} (hT : TinyOK s) (hno : s.nextOut = .tiny off) : takeSliceOk s = true := by
  unfold takeSliceOk
  rw [hno]
  have := (hT.fits off hno).1
  simp only [decide_eq_true_eq]
  omega

/-- the metadata header always fits the 16-byte staging buffer (carry of at most 14 bits) -/
theorem md_header_tiny_safe {s : St} (hl : s.lastBytesBits ≤ 14) :
    ¬ ((bitsOf s.lastBytesBits s.lastBytes).length + 6) / 8 + 8 > 16 := by
  rw [bitsOf_length]; omega

/-! ### `encode_data` and the output cursor -/

/-- relation between a state inside `encode_data`, the state it started from and
`catable_header_size`: the cursor has been reset to `storage_[0]`, or nothing has been written -/
def OutCoh (s0 s : St) (hdr : Nat) : Prop :=
  s.nextOut = .dyn 0 ∨ (s.nextOut = s0.nextOut ∧ hdr = 0 ∧ s.lastBytesBits = s0.lastBytesBits)

theorem encMagic_outCoh (s : St) (w0 : Writer) : OutCoh s (encMagic s w0).1 (encMagic s w0).2.2 := by
  unfold encMagic
  split
  · exact Or.inl rfl
  · exact Or.inr ⟨rfl, rfl, rfl⟩

theorem encPrelude_outCoh {s0 s s' : St} {w w' : Writer} {hdr hdr' bytes : Nat} (hc : OutCoh s0 s hdr)
    (h : encPrelude s w hdr bytes = .ok (s', w', hdr')) : OutCoh s0 s' hdr' := by
  unfold encPrelude at h
  simp only at h
  split_all h
  all_goals first
    | (simp at h; done)
    | (simp only [Out.ok.injEq, Prod.mk.injEq] at h; obtain ⟨rfl, rfl, rfl⟩ := h
       rcases hc with a | ⟨a, b, c⟩
       · exact Or.inl a
       · exact Or.inr ⟨a, b, c⟩)
    | (simp only [Out.ok.injEq, Prod.mk.injEq] at h; obtain ⟨rfl, rfl, rfl⟩ := h; exact Or.inl rfl)

theorem encPayload_out {s0 s s' : St} {ans : Ans} {w0 w : Writer} {hdr : Nat} {il ff res : Bool} (hc : OutCoh s0 s hdr)
    (h : encPayload s ans w0 w hdr il ff = .ok (s', res)) :
    s'.nextOut = .dyn 0 ∨ (s'.nextOut = s0.nextOut ∧ s'.pending.length = 0 ∧ s'.lastBytesBits = s0.lastBytesBits) := by
  unfold encPayload at h
  simp only at h
  split_all h
  all_goals first
    | (simp at h; done)
    | (simp only [Out.ok.injEq, Prod.mk.injEq] at h; obtain ⟨rfl, rfl⟩ := h
       rcases hc with a | ⟨a, b, c⟩
       · exact Or.inl a
       · right; subst b; exact ⟨a, by simp, c⟩)
    | (simp only [Out.ok.injEq, Prod.mk.injEq] at h; obtain ⟨rfl, rfl⟩ := h; exact Or.inl rfl)

theorem encRest_out {s0 : St} {m : St × Writer × Nat} {ans : Ans} {w0 : Writer} {bytes : Nat} {il ff res : Bool} {s' : St}
    (hc : OutCoh s0 m.1 m.2.2) (h : encRest m ans w0 bytes il ff = .ok (s', res)) :
    s'.nextOut = .dyn 0 ∨ (s'.nextOut = s0.nextOut ∧ s'.pending.length = 0 ∧ s'.lastBytesBits = s0.lastBytesBits) := by
  unfold encRest at h
  split at h
  · simp at h
  · simp at h
  · rename_i s2 w hdr hpre
    exact encPayload_out (encPrelude_outCoh hc hpre) h

/-- after a successful `encode_data` the cursor is at `storage_[0]`, or nothing is pending and
cursor and carry are the old ones -/
theorem encodeData_out {o : Oracle} {s s' : St} {site : Nat} {il ff : Bool} {req : Req}
    (h : encodeData o s site il ff = .ok (s', true, req)) :
    s'.nextOut = .dyn 0 ∨ (s'.nextOut = s.nextOut ∧ s'.pending.length = 0 ∧ s'.lastBytesBits = s.lastBytesBits) := by
  obtain ⟨_, hc⟩ := encodeData_ok_cases h
  rcases hc with ⟨_, hh, _⟩ | ⟨_, _, hh, _⟩ | ⟨_, _, hrest⟩
  · simp at hh
  · simp at hh
  · obtain ⟨_, _, _, _, _, e6, _, _, e9, _⟩ := encEntry_fields s il
    have hm := encMagic_outCoh (encEntry s il) s.carry
    rcases encRest_out hm hrest with h1 | ⟨h1, h2, h3⟩
    · exact Or.inl h1
    · exact Or.inr ⟨h1.trans e6, h2, h3.trans e9⟩

theorem tinyOK_encode {o : Oracle} {s s' : St} {site : Nat} {il ff : Bool} {req : Req} (hT : TinyOK s)
    (hst : s.streamState ≠ .metadataBody)
    (h : encodeData o s site il ff = .ok (s', true, req)) : TinyOK s' := by
  obtain ⟨f, _⟩ := encodeData_frame h
  rw [St.frame_eq_iff] at f
  have hst' : s'.streamState ≠ .metadataBody := by rw [f.2.2.2.1]; exact hst
  rcases encodeData_out h with h1 | ⟨h1, h2, h3⟩
  · exact tinyOK_dyn h1 (fun hb => absurd hb hst')
  · refine ⟨?_, ?_, fun hb => absurd hb hst'⟩
    · intro off ho
      rw [h1] at ho
      have := (hT.fits off ho).1
      rw [h2]
      exact ⟨by omega, fun hne => absurd rfl hne⟩
    · intro _; exact h2

theorem tinyOK_mark {s : St} (hT : TinyOK s) (il ff : Bool) (hst : s.streamState = .processing) :
    TinyOK (markAfterEncode s il ff) := by
  obtain ⟨_, k2, _, _, k5, _, _, k8, k9, k10⟩ := markAfterEncode_fields s il ff
  have hno : (markAfterEncode s il ff).nextOut = s.nextOut := by
    unfold markAfterEncode
    cases il <;> cases ff <;> rfl
  refine ⟨?_, ?_, ?_⟩
  · intro off ho; rw [k8, k9]; exact hT.fits off (hno ▸ ho)
  · intro hn; rw [k8]; exact hT.none (hno ▸ hn)
  · intro hb
    rw [k10, hst] at hb
    cases il <;> cases ff <;> simp at hb

end BV.Stream
