import BV.Lemmas.LedgerStep
/-!
The act lists of the sites: safety (no slot overwritten without `free_cell`, every allocation from the
instance's allocator) under the generated site flags, and which slots they leave empty.
-/
namespace BV.Ledger

def Act.safeB (m8 : Nat) : Act → Bool
  | .alloc a _ _ => a == m8
  | .lose _ => false
  | _ => true

theorem safeB_iff (m8 : Nat) (a : Act) : a.safeB m8 = true ↔ a.safe m8 := by
  cases a <;> simp [Act.safeB, Act.safe]

theorem all_safe {m8 : Nat} {as : List Act} (h : as.all (Act.safeB m8) = true) : ∀ a ∈ as, a.safe m8 := by
  intro a ha
  exact (safeB_iff m8 a).mp (List.all_eq_true.mp h a ha)

/-- the site flags under which no call overwrites a block without freeing it -/
def Flags.sitesOk (fl : Flags) : Bool :=
  fl.setDictFrees && fl.setDictTruncFrees && fl.ffiDestroyCleanup && fl.oneshotHasherOwn

theorem csActs_safe (m8 : Nat) (st q1 tb rg cm : Bool) (hk temps : Nat) :
    (csActs m8 st q1 tb rg cm hk temps).all (Act.safeB m8) = true := by
  by_cases h1 : hk = 0 <;> by_cases h2 : temps = 0 <;>
    cases st <;> cases q1 <;> cases tb <;> cases rg <;> cases cm <;>
    simp [csActs, storageGrowActs, tableGrowActs, ringOpt, ringInitActs, commandsGrowActs, scopedActs,
      Act.safeB, h1, h2]

theorem opActs_safe (fl : Flags) (hfl : fl.sitesOk = true) (m8 : Nat) (op : Op) :
    (opActs fl m8 op).all (Act.safeB m8) = true := by
  simp only [Flags.sitesOk, Bool.and_eq_true] at hfl
  obtain ⟨⟨⟨h1, h2⟩, h3⟩, h4⟩ := hfl
  cases op with
  | create ffi => cases ffi <;> simp [opActs, Act.safeB]
  | mkExt lens => simp [opActs, Act.safeB]
  | setDict ring hasher =>
    by_cases hh : hasher.length = 0 <;> cases hr : ring.isSome <;>
      simp [opActs, hasherReplaceActs, ringOpt, ringInitActs, Act.safeB, h1, hh, hr]
  | setDictExt ring fresh =>
    by_cases hh : fresh.length = 0 <;> cases hr : ring.isSome <;>
      simp [opActs, hasherReplaceActs, ringOpt, ringInitActs, Act.safeB, h1, h2, hh, hr]
  | cs d => exact csActs_safe ..
  | cleanup => simp [opActs, cleanupActs, Act.safeB]
  | ffiDestroy => simp [opActs, cleanupActs, Act.safeB, h3]
  | allocMem => simp [opActs, Act.safeB]
  | freeMem => simp [opActs, Act.safeB]
  | allocInput => simp [opActs, Act.safeB]
  | freeInput => simp [opActs, Act.safeB]
  | oneshotHasher other lens => simp [opActs, Act.safeB, h4]

/-- one accepted call keeps the invariant and loses nothing -/
theorem step_inv {fl : Flags} (hfl : fl.sitesOk = true) {w w' : W} {op : Op} (hw : Inv w)
    (h : step fl w op = .ok w') : Inv w' ∧ w'.lost = w.lost := by
  obtain ⟨_, rfl⟩ := step_ok h
  have hs := all_safe (opActs_safe fl hfl w.m8 op)
  refine ⟨(hw.acts _ (fun a ha => safe_owned (hs a ha))).book op, ?_⟩
  rw [opBook_lost, acts_lost _ _ hs]

theorem run_nil (fl : Flags) (w : W) : run fl w [] = .ok w := rfl

theorem run_cons_ok {fl : Flags} {w w' : W} {op : Op} {ops : List Op} (h : run fl w (op :: ops) = .ok w') :
    ∃ w1, step fl w op = .ok w1 ∧ run fl w1 ops = .ok w' := by
  simp only [run] at h
  split at h
  · rename_i w1 h1; exact ⟨w1, h1, h⟩
  · cases h

theorem run_append_ok {fl : Flags} : ∀ (as bs : List Op) (w w' : W), run fl w (as ++ bs) = .ok w' →
    ∃ w1, run fl w as = .ok w1 ∧ run fl w1 bs = .ok w' := by
  intro as
  induction as with
  | nil => intro bs w w' h; exact ⟨w, rfl, h⟩
  | cons a as ih =>
    intro bs w w' h
    obtain ⟨w1, h1, h2⟩ := run_cons_ok (by simpa using h)
    obtain ⟨w2, h3, h4⟩ := ih bs w1 w' h2
    refine ⟨w2, ?_, h4⟩
    simp only [run, h1]
    exact h3

/-- every accepted history keeps the invariant and loses nothing -/
theorem run_inv {fl : Flags} (hfl : fl.sitesOk = true) : ∀ (ops : List Op) (w w' : W), Inv w →
    run fl w ops = .ok w' → Inv w' ∧ w'.lost = w.lost ∧ w'.m8 = w.m8 := by
  intro ops
  induction ops with
  | nil => intro w w' hw h; cases h; exact ⟨hw, rfl, rfl⟩
  | cons op ops ih =>
    intro w w' hw h
    obtain ⟨w1, h1, h2⟩ := run_cons_ok h
    obtain ⟨hi, hl⟩ := step_inv hfl hw h1
    obtain ⟨hi', hl', hm'⟩ := ih w1 w' hi h2
    exact ⟨hi', by rw [hl', hl], by rw [hm', step_m8 h1]⟩

/-! ### which slots are empty after a history -/

def flagAfter (fl : Flags) (m8 : Nat) (s : Slot) (b : Bool) (ops : List Op) : Bool :=
  ops.foldl (fun b op => emptyAfterL s b (opActs fl m8 op)) b

theorem flagAfter_append (fl : Flags) (m8 : Nat) (s : Slot) (b : Bool) (as bs : List Op) :
    flagAfter fl m8 s b (as ++ bs) = flagAfter fl m8 s (flagAfter fl m8 s b as) bs := by
  simp [flagAfter, List.foldl_append]

theorem step_empty {fl : Flags} {w w' : W} {op : Op} (s : Slot) (b : Bool) (hb : b = true → w.enc.get s = [])
    (h : step fl w op = .ok w') (hf : emptyAfterL s b (opActs fl w.m8 op) = true) : w'.enc.get s = [] := by
  obtain ⟨_, rfl⟩ := step_ok h
  rw [opBook_enc]
  exact acts_emptyAfter s _ w b hb hf

theorem run_empty {fl : Flags} (s : Slot) : ∀ (ops : List Op) (w w' : W) (b : Bool),
    (b = true → w.enc.get s = []) → run fl w ops = .ok w' → flagAfter fl w.m8 s b ops = true →
    w'.enc.get s = [] := by
  intro ops
  induction ops with
  | nil => intro w w' b hb h hf; cases h; exact hb hf
  | cons op ops ih =>
    intro w w' b hb h hf
    obtain ⟨w1, h1, h2⟩ := run_cons_ok h
    have hm := step_m8 h1
    apply ih w1 w' (emptyAfterL s b (opActs fl w.m8 op)) (fun hb' => step_empty s b hb h1 hb') h2
    rw [hm]
    exact hf

/-- the slots outside the seven fields -/
def Slot.isField : Slot → Bool
  | .storage | .commands | .ring | .hasher | .table | .cbuf | .lbuf => true
  | _ => false

/-- after `cleanup` every one of the seven fields is empty, whatever was in it -/
theorem cleanup_empties_fields (s : Slot) (hs : s.isField = true) (b : Bool) :
    emptyAfterL s b cleanupActs = true := by
  cases s <;> simp [Slot.isField] at hs <;> cases b <;> rfl

theorem cleanup_keeps_others (s : Slot) (hs : s.isField = false) (b : Bool) :
    emptyAfterL s b cleanupActs = b := by
  cases s <;> simp [Slot.isField] at hs <;> cases b <;> rfl

theorem csActs_keeps (s : Slot) (hs : s.isField = false) (m8 : Nat) (st q1 tb rg cm : Bool) (hk temps : Nat) :
    emptyAfterL s true (csActs m8 st q1 tb rg cm hk temps) = true := by
  by_cases h1 : hk = 0 <;> by_cases h2 : temps = 0 <;>
    cases s <;> simp [Slot.isField] at hs <;>
    cases st <;> cases q1 <;> cases tb <;> cases rg <;> cases cm <;>
    simp [csActs, storageGrowActs, tableGrowActs, ringOpt, ringInitActs, commandsGrowActs, scopedActs,
      emptyAfterL, Act.emptyAfter, h1, h2]

/-- a body call (`compress_stream`, `set_custom_dictionary`) leaves every non-field slot empty if it was -/
theorem body_keeps (fl : Flags) (m8 : Nat) (s : Slot) (hs : s.isField = false) (op : Op) (hop : op.isBody = true) :
    emptyAfterL s true (opActs fl m8 op) = true := by
  cases op with
  | cs d => exact csActs_keeps s hs ..
  | setDict ring hasher =>
    by_cases hh : hasher.length = 0 <;> cases hr : ring.isSome <;> cases hf : fl.setDictFrees <;>
      cases s <;> simp [Slot.isField] at hs <;>
      simp [opActs, hasherReplaceActs, ringOpt, ringInitActs, emptyAfterL, Act.emptyAfter, hh, hr, hf]
  | _ => simp [Op.isBody] at hop

theorem body_flag (fl : Flags) (m8 : Nat) (s : Slot) (hs : s.isField = false) (body : List Op)
    (hb : ∀ op ∈ body, op.isBody = true) : flagAfter fl m8 s true body = true := by
  induction body with
  | nil => rfl
  | cons op ops ih =>
    simp only [flagAfter, List.foldl_cons]
    rw [body_keeps fl m8 s hs op (hb op (by simp))]
    exact ih (fun o ho => hb o (by simp [ho]))

/-- all thirteen slots empty ⇒ nothing is referenced -/
theorem held_nil_of_slots (e : Enc) (h : ∀ s, e.get s = []) : e.held = [] := by
  have h1 := h .storage; have h2 := h .commands; have h3 := h .ring; have h4 := h .hasher
  have h5 := h .table; have h6 := h .cbuf; have h7 := h .lbuf; have h8 := h .ext; have h9 := h .self
  have h10 := h .mem; have h11 := h .input; have h12 := h .tmp; have h13 := h .tmp2; have h14 := h .aux
  simp only [Enc.get] at h1 h2 h3 h4 h5 h6 h7 h8 h9 h10 h11 h12 h13 h14
  simp [Enc.held, h1, h2, h3, h4, h5, h6, h7, h8, h9, h10, h11, h12, h13, h14]

/-- invariant + nothing referenced + nothing lost ⇒ the ledger is balanced -/
theorem live_nil {w : W} (hw : Inv w) (hh : w.enc.held = []) (hl : w.lost = []) : (judge w.log).live = [] := by
  apply List.eq_nil_iff_forall_not_mem.mpr
  intro b hb
  have := hw.live b
  rw [hh, hl] at this
  have hp := List.count_pos_iff.mpr hb
  simp at this
  omega

/-! ### well-formedness needs less: only that every allocation comes from the instance's allocator -/

def Act.ownedB (m8 : Nat) : Act → Bool
  | .alloc a _ _ => a == m8
  | _ => true

theorem ownedB_iff (m8 : Nat) (a : Act) : a.ownedB m8 = true ↔ a.owned m8 := by
  cases a <;> simp [Act.ownedB, Act.owned]

theorem csActs_owned (m8 : Nat) (st q1 tb rg cm : Bool) (hk temps : Nat) :
    (csActs m8 st q1 tb rg cm hk temps).all (Act.ownedB m8) = true := by
  by_cases h1 : hk = 0 <;> by_cases h2 : temps = 0 <;>
    cases st <;> cases q1 <;> cases tb <;> cases rg <;> cases cm <;>
    simp [csActs, storageGrowActs, tableGrowActs, ringOpt, ringInitActs, commandsGrowActs, scopedActs,
      Act.ownedB, h1, h2]

theorem opActs_owned (fl : Flags) (hfl : fl.oneshotHasherOwn = true) (m8 : Nat) (op : Op) :
    (opActs fl m8 op).all (Act.ownedB m8) = true := by
  cases op with
  | create ffi => cases ffi <;> simp [opActs, Act.ownedB]
  | mkExt lens => simp [opActs, Act.ownedB]
  | setDict ring hasher =>
    by_cases hh : hasher.length = 0 <;> cases hr : ring.isSome <;> cases h1 : fl.setDictFrees <;>
      simp [opActs, hasherReplaceActs, ringOpt, ringInitActs, Act.ownedB, h1, hh, hr]
  | setDictExt ring fresh =>
    by_cases hh : fresh.length = 0 <;> cases hr : ring.isSome <;> cases h1 : fl.setDictFrees <;>
      cases h2 : fl.setDictTruncFrees <;>
      simp [opActs, hasherReplaceActs, ringOpt, ringInitActs, Act.ownedB, h1, h2, hh, hr]
  | cs d => exact csActs_owned ..
  | cleanup => simp [opActs, cleanupActs, Act.ownedB]
  | ffiDestroy => cases h3 : fl.ffiDestroyCleanup <;> simp [opActs, cleanupActs, abandonActs, Act.ownedB, h3]
  | allocMem => simp [opActs, Act.ownedB]
  | freeMem => simp [opActs, Act.ownedB]
  | allocInput => simp [opActs, Act.ownedB]
  | freeInput => simp [opActs, Act.ownedB]
  | oneshotHasher other lens => simp [opActs, Act.ownedB, hfl]

theorem step_inv_owned {fl : Flags} (hfl : fl.oneshotHasherOwn = true) {w w' : W} {op : Op} (hw : Inv w)
    (h : step fl w op = .ok w') : Inv w' := by
  obtain ⟨_, rfl⟩ := step_ok h
  have ho : ∀ a ∈ opActs fl w.m8 op, a.owned w.m8 := fun a ha =>
    (ownedB_iff w.m8 a).mp (List.all_eq_true.mp (opActs_owned fl hfl w.m8 op) a ha)
  exact (hw.acts _ ho).book op

theorem run_inv_owned {fl : Flags} (hfl : fl.oneshotHasherOwn = true) : ∀ (ops : List Op) (w w' : W), Inv w →
    run fl w ops = .ok w' → Inv w' := by
  intro ops
  induction ops with
  | nil => intro w w' hw h; cases h; exact hw
  | cons op ops ih =>
    intro w w' hw h
    obtain ⟨w1, h1, h2⟩ := run_cons_ok h
    exact ih w1 w' (step_inv_owned hfl hw h1) h2

end BV.Ledger
