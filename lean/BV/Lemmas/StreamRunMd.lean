import BV.Lemmas.StreamRunHist
/-
Run-level discipline of the bit-carrying events (w-window, for BV/Props/C04Run.lean):

* ALIGNMENT — a sync padding block `pad lbb` and a metadata header `mdHeader n lbb` are emitted at a bit
  offset congruent to `lbb` modulo 8 (`lbb` = the carry `last_bytes_bits_` at that moment);
* GROUPING — a metadata header for `n` bytes is followed by `mdBody` chunks totalling exactly `n` bytes
  before any other bit-carrying event (stream header, padding, payload piece, another metadata header),
  and `n ≤ 2^24`.

`MdLog o off opn log` is the acceptance condition of the little automaton (bit offset, metadata payload
bytes still open) over a log; `step_md` proves it atom by atom from the guards of `Step`, `steps_md` over
sequences, `run_factsX` over whole histories (the log of `run_facts` with these facts added: the
call-level glue of `runCall_facts` is repeated here because the witness of an existential cannot be reused).
-/
namespace BV.Stream
open BV.Bits

/-- metadata payload bytes still to come (0 = no metadata block is open) -/
def mdOpen (s : St) : Nat := if s.streamState = .metadataBody then s.remainingMetadata else 0

/-- what an event may assume: `off` = bits emitted so far, `opn` = open metadata payload bytes -/
def evGuard (off opn : Nat) : Ev → Prop
  | .window _ => opn = 0
  | .pad l => opn = 0 ∧ off % 8 = l % 8
  | .enc _ _ _ _ _ => opn = 0
  | .fast _ _ => opn = 0
  | .mdHeader n l => opn = 0 ∧ off % 8 = l % 8 ∧ n ≤ 16777216
  | .mdBody b => b.length ≤ opn
  | _ => True

def evOpen (opn : Nat) : Ev → Nat
  | .mdHeader n _ => n
  | .mdBody b => opn - b.length
  | _ => opn

def MdLog (o : Oracle) : Nat → Nat → List Ev → Prop
  | _, _, [] => True
  | off, opn, e :: es => evGuard off opn e ∧ MdLog o (off + (e.bits o).length) (evOpen opn e) es

def logOpen (opn : Nat) (log : List Ev) : Nat := log.foldl evOpen opn

theorem logOpen_append (opn : Nat) (a b : List Ev) : logOpen opn (a ++ b) = logOpen (logOpen opn a) b := by
  unfold logOpen; rw [List.foldl_append]

theorem mdLog_append {o : Oracle} {off opn : Nat} {a b : List Ev} (h1 : MdLog o off opn a)
    (h2 : MdLog o (off + (logBits o a).length) (logOpen opn a) b) : MdLog o off opn (a ++ b) := by
  induction a generalizing off opn with
  | nil => simpa [logBits, logOpen] using h2
  | cons e es ih =>
    refine ⟨h1.1, ih h1.2 ?_⟩
    have : off + (logBits o (e :: es)).length = off + (e.bits o).length + (logBits o es).length := by
      simp [logBits, Nat.add_assoc]
    rw [this] at h2
    exact h2

theorem emitted_length (d : Bytes) (s : St) : (emitted d s).length = 8 * (d ++ s.pending).length + s.lastBytesBits := by
  rw [emitted_def, List.length_append, bytesBits_length, bitsOf_length]

theorem mdOpen_of_not_md {s : St} (h : s.streamState ≠ .metadataBody) : mdOpen s = 0 := by
  unfold mdOpen; rw [if_neg h]

theorem not_body_of_rm {s : St} (hI : Inv s) (hrm : s.remainingMetadata = u32Max) : s.streamState ≠ .metadataBody := by
  intro h
  exact (hI.mdIff.mp (Or.inr h)) hrm

set_option maxRecDepth 4000 in
/-- **one atomic step**: the event's guard holds at the source (bit offset `off` congruent to the carry),
and the open metadata count moves as the event says -/
theorem step_md {o : Oracle} {op : Nat} {s s' : St} {io io' : Io} {e : Ev}
    (h : Step o op (s, io) e (s', io')) (hF : FrameInv s) (off : Nat) (hoff : off % 8 = s.lastBytesBits % 8) :
    evGuard off (mdOpen s) e ∧ mdOpen s' = evOpen (mdOpen s) e := by
  cases h with
  | init hf =>
    obtain ⟨p, rfl⟩ := hf
    refine ⟨?_, ?_⟩ <;> simp [evGuard, evOpen, mdOpen, ensureInitialized, St.new]
  | copy hI hw hop hnf hst hrm hc hn h =>
    obtain ⟨_, _, c3, _, c5, _⟩ := copy_fields hI.init h
    have h0 : mdOpen s = 0 := mdOpen_of_not_md (by rw [hst]; simp)
    exact ⟨trivial, by rw [mdOpen_of_not_md (by rw [c5, hst]; simp), h0]; rfl⟩
  | pad hI hc hz h =>
    obtain ⟨f, _⟩ := pad_frame h
    rw [St.frame_eq_iff] at f
    have h0 : mdOpen s = 0 := mdOpen_of_not_md (by rw [hc.1]; simp)
    exact ⟨⟨h0, hoff⟩, by rw [mdOpen_of_not_md (by rw [f.2.2.2.1, hc.1]; simp), h0]; rfl⟩
  | push hI hc h =>
    obtain ⟨f, _⟩ := push_frame h
    rw [St.frame_eq_iff] at f
    refine ⟨trivial, ?_⟩
    show mdOpen s' = mdOpen s
    unfold mdOpen; rw [f.2.2.2.1, f.2.2.1]
  | encSlow hI hop hnf hrm hnc hnp hpend hst hgo h =>
    have h0 : mdOpen s = 0 := mdOpen_of_not_md (by rw [hst]; simp)
    refine ⟨h0, ?_⟩
    obtain ⟨f, _⟩ := encodeData_frame h
    rw [St.frame_eq_iff] at f
    obtain ⟨_, _, _, _, _, _, _, _, _, k10⟩ := markAfterEncode_fields _ (slowIl op io) (slowFf op io)
    have u9 := (updateSizeHint_fields s io.availIn).2.2.2.2.2.2.2.2.1
    rw [h0]
    show mdOpen _ = 0
    apply mdOpen_of_not_md
    rw [k10]
    split
    · simp
    · split
      · simp
      · rw [f.2.2.2.1, u9, hst]; simp
  | cfc hI hop hrm hnp hfl =>
    have h0 : mdOpen s = 0 := mdOpen_of_not_md (not_body_of_rm hI hrm)
    refine ⟨trivial, ?_⟩
    have hI' := inv_checkFlushComplete hI
    have c3 := (checkFlushComplete_frame s).2.2.1
    rw [h0]
    exact mdOpen_of_not_md (not_body_of_rm hI' (by rw [c3]; exact hrm))
  | fastFlush hI hfm hrm hnp hpend hst hop1 hz =>
    have h0 : mdOpen s = 0 := mdOpen_of_not_md (by rw [hst]; simp)
    exact ⟨trivial, by rw [h0]; exact mdOpen_of_not_md (by simp)⟩
  | fastBlock hI hfm hop hrm hnp hpend hst hgo hnf hcap hin hfit =>
    have h0 : mdOpen s = 0 := mdOpen_of_not_md (by rw [hst]; simp)
    refine ⟨h0, ?_⟩
    rw [h0]
    show mdOpen (fastRes o op s io).1 = 0
    apply mdOpen_of_not_md
    unfold fastRes
    have e8 := (fastEncode_fields (fastS1 s io) io (o s.nEnc (fastReq op s io)) (fastReq op s io) (fastBs s io) (fastInplace s io)
        (fastReq op s io).isLast (fastReq op s io).forceFlush).2.2.2.2.2.2.2.1
    rw [e8]
    split
    · simp
    · split
      · simp
      · have : (fastS1 s io).streamState = s.streamState := by
          unfold fastS1 fastStorage growStorage
          split
          · rfl
          · split <;> rfl
        rw [this, hst]; simp
  | mdEnter hI hop hentry =>
    refine ⟨trivial, ?_⟩
    show mdOpen (mdEnter (updateSizeHint s 0) io.availIn) = mdOpen s
    obtain ⟨_, _, _, _, _, _, u7, _, u9, _⟩ := updateSizeHint_fields s 0
    unfold mdEnter
    split
    · rename_i hp
      rw [u9] at hp
      rw [mdOpen_of_not_md (by simp), mdOpen_of_not_md (by rw [hp]; simp)]
    · unfold mdOpen; rw [u9, u7]
  | mdEnc hM hop hpend hne h =>
    obtain ⟨f, _⟩ := encodeData_frame h
    rw [St.frame_eq_iff] at f
    have hnb : s.streamState ≠ .metadataBody := by
      intro hb
      exact hne (hF.body hb).2
    have h0 : mdOpen s = 0 := mdOpen_of_not_md hnb
    exact ⟨h0, by rw [h0]; exact mdOpen_of_not_md (by rw [f.2.2.2.1]; exact hnb)⟩
  | mdHead hM hop hpend hlf hst hok =>
    have h0 : mdOpen s = 0 := mdOpen_of_not_md (by rw [hst]; simp)
    refine ⟨⟨h0, hoff, hM.rmLe⟩, ?_⟩
    simp [mdOpen, mdHeadSt, evOpen]
  | mdDone hM hop hpend hlf hst hz =>
    refine ⟨trivial, ?_⟩
    simp [mdOpen, mdDoneSt, evOpen, hst, hz]
  | mdOut hM hop hpend hlf hst hnz hao hle =>
    have hlen : (io.input.take (mdOutN s io)).length = mdOutN s io := by rw [List.length_take]; omega
    have hrm := hM.rmLe
    have hN : mdOutN s io ≤ s.remainingMetadata := by
      unfold mdOutN
      have := Nat.mod_le (min s.remainingMetadata io.availOut) two32
      have := Nat.min_le_left s.remainingMetadata io.availOut
      omega
    have ho : mdOpen s = s.remainingMetadata := by unfold mdOpen; rw [if_pos hst]
    refine ⟨by show _ ≤ _; rw [hlen, ho]; exact hN, ?_⟩
    show mdOpen (mdOutSt s io) = mdOpen s - (io.input.take (mdOutN s io)).length
    rw [hlen, ho]
    unfold mdOpen mdOutSt
    simp only [hst, if_true]
    unfold two32 at *
    omega
  | mdTiny hM hop hpend hlf hst hnz hao hle =>
    have hlen : (io.input.take (mdTinyN s)).length = mdTinyN s := by rw [List.length_take]; omega
    have hrm := hM.rmLe
    have hN : mdTinyN s ≤ s.remainingMetadata := Nat.min_le_left _ _
    have ho : mdOpen s = s.remainingMetadata := by unfold mdOpen; rw [if_pos hst]
    refine ⟨by show _ ≤ _; rw [hlen, ho]; exact hN, ?_⟩
    show mdOpen (mdTinySt s io) = mdOpen s - (io.input.take (mdTinyN s)).length
    rw [hlen, ho]
    unfold mdOpen mdTinySt
    simp only [hst, if_true]
    unfold two32 at *
    omega

/-- the bit offset stays congruent to the carry -/
theorem step_off {o : Oracle} {op : Nat} {s s' : St} {io io' : Io} {e : Ev}
    (h : Step o op (s, io) e (s', io')) (hF : FrameInv s) (off : Nat) (hoff : off % 8 = s.lastBytesBits % 8) :
    (off + (e.bits o).length) % 8 = s'.lastBytesBits % 8 := by
  have hb := congrArg List.length (step_emitted hF h [])
  rw [List.length_append, emitted_length, emitted_length] at hb
  omega

theorem steps_md {o : Oracle} {op : Nat} {c c' : St × Io} {log : List Ev} (h : Steps o op c log c')
    (hF : FrameInv c.1) (off : Nat) (hoff : off % 8 = c.1.lastBytesBits % 8) :
    MdLog o off (mdOpen c.1) log ∧ mdOpen c'.1 = logOpen (mdOpen c.1) log
      ∧ (off + (logBits o log).length) % 8 = c'.1.lastBytesBits % 8 := by
  induction h generalizing off with
  | nil c => exact ⟨trivial, rfl, by simpa [logBits] using hoff⟩
  | @cons c c1 c2 e es hs _ ih =>
    obtain ⟨s, io⟩ := c
    obtain ⟨s1, io1⟩ := c1
    obtain ⟨g, ho⟩ := step_md hs hF off hoff
    have hoff1 := step_off hs hF off hoff
    obtain ⟨a, b, c⟩ := ih (step_frameInv hF hs) _ hoff1
    refine ⟨⟨g, by rw [← ho]; exact a⟩, ?_, ?_⟩
    · rw [b, ho]; rfl
    · have : off + (logBits o (e :: es)).length = off + (e.bits o).length + (logBits o es).length := by
        simp [logBits, Nat.add_assoc]
      rw [this]; exact c

/-! ### whole histories -/

theorem mdOpen_fresh {s : St} (h : IsFresh s) : mdOpen s = 0 := by
  obtain ⟨p, rfl⟩ := h
  simp [mdOpen, St.new]

/-- `RunFacts` (positions, bits, window shape, requests) with the metadata / alignment discipline added -/
structure RunFactsX (o : Oracle) (s0 : St) (t0 : Trace) (s : St) (t : Trace) (log : List Ev) : Prop where
  ok : RunOK s
  bits : deliveredBits t s = deliveredBits t0 s0 ++ logBits o log
  pos : s.pos = logPos s0.pos log
  lok : LogOK s0.pos log
  reqs : t.reqs = t0.reqs ++ logReqs log
  win : WinShape s0 s log
  md : MdLog o (deliveredBits t0 s0).length (mdOpen s0) log
  opn : mdOpen s = logOpen (mdOpen s0) log
  /-- every stream-header event carries the window bits `ensure_initialized` stages for a fresh state -/
  hdr : ∀ e ∈ log, ∀ b, e = .window b → ∃ sf, IsFresh sf ∧ b = (ensureInitialized sf).carry

theorem RunFactsX.refl (o : Oracle) {s : St} (t : Trace) (h : RunOK s) : RunFactsX o s t s t [] :=
  ⟨h, by simp [logBits], rfl, trivial, by simp [logReqs], winShape_nil rfl, trivial, rfl, fun _ he => by cases he⟩

theorem RunFactsX.trans {o : Oracle} {s0 s1 s2 : St} {t0 t1 t2 : Trace} {l1 l2 : List Ev}
    (h1 : RunFactsX o s0 t0 s1 t1 l1) (h2 : RunFactsX o s1 t1 s2 t2 l2) : RunFactsX o s0 t0 s2 t2 (l1 ++ l2) := by
  refine ⟨h2.ok, ?_, ?_, logOK_append h1.lok (by rw [← h1.pos]; exact h2.lok), ?_, winShape_trans h1.win h2.win, ?_, ?_,
    fun e he b hb => by
      rcases List.mem_append.mp he with h | h
      · exact h1.hdr e h b hb
      · exact h2.hdr e h b hb⟩
  · rw [h2.bits, h1.bits, logBits_append, List.append_assoc]
  · rw [h2.pos, h1.pos, logPos_append]
  · rw [h2.reqs, h1.reqs, logReqs_append, List.append_assoc]
  · refine mdLog_append h1.md ?_
    have := h2.md
    rw [h1.bits, List.length_append, h1.opn] at this
    exact this
  · rw [h2.opn, h1.opn, logOpen_append]

theorem deliveredBits_off (t : Trace) (s : St) : (deliveredBits t s).length % 8 = s.lastBytesBits % 8 := by
  have : deliveredBits t s = emitted t.delivered s := rfl
  rw [this, emitted_length]; omega

/-- **one call of a history** (the proof of `runCall_facts`, with the two extra fields) -/
theorem runCall_factsX {o : Oracle} {fuel : Nat} {s s' : St} {t t' : Trace} {c : Call} (hR : RunOK s) (hc : CallOK s c)
    (h : runCall o fuel s t c = .ok (s', t')) : ∃ log, RunFactsX o s t s' t' log := by
  cases c with
  | setParam id v =>
    simp only [runCall, Out.ok.injEq, Prod.mk.injEq] at h
    obtain ⟨rfl, rfl⟩ := h
    rcases hR.inv with hf | hI
    · have hf' := setParameter_fresh hf id v
      obtain ⟨_, hp, hip, _, hl⟩ := isFresh_fields hf
      obtain ⟨_, hp', hip', _, hl'⟩ := isFresh_fields hf'
      refine ⟨[], runOK_fresh hf', ?_, ?_, trivial, by simp [logReqs],
        winShape_nil (by rw [isFreshInit hf, isFreshInit hf']), trivial, by rw [mdOpen_fresh hf, mdOpen_fresh hf']; rfl,
        fun _ he => by cases he⟩
      · simp only [deliveredBits, logBits, List.flatMap_nil, List.append_nil]
        rw [hp, hp']
        unfold St.carry
        rw [hl, hl']
        rfl
      · obtain ⟨p, rfl⟩ := hf
        obtain ⟨p', hp'⟩ := hf'
        rw [hp']; rfl
    · have : setParameter s id v = (s, false) := by simp [setParameter, hI.init]
      rw [this]
      exact ⟨[], hR, by simp [deliveredBits, logBits], rfl, trivial, by simp [logReqs], winShape_nil rfl, trivial, rfl,
        fun _ he => by cases he⟩
  | take size =>
    simp only [runCall] at h
    split at h
    · rename_i s1 out htake
      simp only [Out.ok.injEq, Prod.mk.injEq] at h
      obtain ⟨rfl, rfl⟩ := h
      obtain ⟨hR', hb, hp, hini, hpar, hring⟩ := take_facts hR htake t.delivered
      have hopn : mdOpen s1 = mdOpen s := by
        rcases hR.inv with hf | hI
        · obtain ⟨_, hp0, _, hno, _⟩ := isFresh_fields hf
          have : takeOutput s size = .ok (s, []) := by
            unfold takeOutput takeSliceOk takeCount
            rw [hno, hp0]
            simp
          rw [this] at htake
          simp only [Out.ok.injEq, Prod.mk.injEq] at htake
          rw [← htake.1]
        · obtain ⟨_, _, hrm, hst⟩ := takeOutput_spec hI htake
          rcases hst with h1 | ⟨h1, _, h2⟩
          · unfold mdOpen; rw [h1, hrm]
          · rw [mdOpen_of_not_md (by rw [h2]; simp), mdOpen_of_not_md (by rw [h1]; simp)]
      refine ⟨[], hR', ?_, hp, trivial, by simp [logReqs], winShape_nil hini, trivial, by rw [hopn]; rfl, fun _ he => by cases he⟩
      simp only [deliveredBits, logBits, List.flatMap_nil, List.append_nil]
      exact hb
    · simp at h
    · simp at h
  | stream op chunk cap =>
    obtain ⟨hop, hw⟩ := hc
    simp only [runCall] at h
    split at h
    · rename_i s1 io r hcs
      simp only [Out.ok.injEq, Prod.mk.injEq] at h
      obtain ⟨rfl, rfl⟩ := h
      have key : ∀ (si : St), Inv si → FrameInv si → si.inputPos + chunk.length < two64 →
          compressStream o fuel si op chunk cap = .ok (s1, io, r) →
          ∃ log, RunOK s1 ∧ emitted (t.delivered ++ io.out) s1 = emitted t.delivered si ++ logBits o log
            ∧ s1.pos = logPos si.pos log ∧ LogOK si.pos log ∧ io.reqs = logReqs log
            ∧ NoWindow log ∧ s1.isInitialized = true
            ∧ MdLog o (emitted t.delivered si).length (mdOpen si) log ∧ mdOpen s1 = logOpen (mdOpen si) log := by
        intro si hI hF hw' hcs'
        cases r
        · obtain ⟨hs, hio⟩ := refused_unchanged hop hI hw' hcs'
          subst hio
          rcases hs with rfl | rfl
          · exact ⟨[], ⟨Or.inr hI, hF⟩, by simp [logBits, Io.start], rfl, trivial, by simp [logReqs, Io.start],
              (fun _ he => by cases he), hI.init, trivial, rfl⟩
          · obtain ⟨_, _, _, _, _, u6, u7, _, u9, u10, _, _, u13, u14, u15⟩ := updateSizeHint_fields si 0
            refine ⟨[], ⟨Or.inr (inv_updateSizeHint hI 0), frameInv_of_eq hF u15 u14 u9 u6 u10⟩, ?_,
              by rw [updateSizeHint_pos]; rfl, trivial, by simp [logReqs, Io.start],
              (fun _ he => by cases he), (inv_updateSizeHint hI 0).init, trivial, by unfold mdOpen; rw [u9, u7]; rfl⟩
            simp only [logBits, List.flatMap_nil, List.append_nil, Io.start]
            exact emitted_eq rfl u13 u15 u14
        · obtain ⟨log, hsteps⟩ := call_steps hop hI hw' hcs'
          have f := steps_facts hsteps hF t.delivered
          have hI1 := ((compressStream_refines hop hI hw' hcs').2 rfl).1
          obtain ⟨m1, m2, _⟩ := steps_md hsteps hF (emitted t.delivered si).length
            (by rw [emitted_length]; show _ % 8 = si.lastBytesBits % 8; omega)
          refine ⟨log, ⟨Or.inr hI1, f.frame⟩, ?_, f.pos, f.ok, ?_, (f.initd hI.init).2, hI1.init, m1, m2⟩
          · have := f.bits
            simp only [Io.start, List.append_nil] at this
            exact this
          · have := f.reqs
            simp only [Io.start, List.nil_append] at this
            exact this
      rcases hR.inv with hf | hI
      · rw [compressStream_ensure] at hcs
        obtain ⟨hini, hp, hip, _, hl⟩ := isFresh_fields hf
        have hIe := (inv_fresh hf).1
        have hFe := frameInv_fresh hf
        have hipe : (ensureInitialized s).inputPos = 0 := by
          obtain ⟨p, rfl⟩ := hf
          simp [ensureInitialized, St.new]
        obtain ⟨log, k1, k2, k3, k4, k5, k7, k8, k12, k13⟩ := key (ensureInitialized s) hIe hFe (by rw [hipe]; rw [hip] at hw; exact hw) hcs
        have hinit : Step o op (s, Io.start chunk cap) (.window (ensureInitialized s).carry) (ensureInitialized s, Io.start chunk cap) :=
          Step.init hf
        have hb0 := step_emitted hR.frame hinit t.delivered
        simp only [Io.start, List.append_nil] at hb0
        obtain ⟨q1, q2, _⟩ := step_pos hinit
        obtain ⟨g1, g2⟩ := step_md hinit hR.frame (emitted t.delivered s).length (by rw [emitted_length]; omega)
        refine ⟨.window (ensureInitialized s).carry :: log, k1, ?_, ?_, ⟨q2, by rw [← q1]; exact k4⟩, ?_,
          Or.inr (Or.inl ⟨hini, k8, _, _, rfl, k7⟩), ⟨g1, ?_⟩, ?_, fun e he b hb => by
            rcases List.mem_cons.mp he with h1 | h1
            · subst h1
              simp only [Ev.window.injEq] at hb
              exact ⟨s, hf, hb.symm⟩
            · exact absurd hb (k7 e h1 b)⟩
        · simp only [deliveredBits, Trace.afterStream]
          show emitted (t.delivered ++ io.out) s1 = emitted t.delivered s ++ logBits o (.window (ensureInitialized s).carry :: log)
          rw [k2, hb0]
          simp [logBits, List.append_assoc]
        · rw [k3, q1]; rfl
        · simp only [Trace.afterStream]
          rw [k5]
          simp [logReqs, Ev.req, List.filterMap_cons]
        · have : (deliveredBits t s).length + ((Ev.window (ensureInitialized s).carry).bits o).length
              = (emitted t.delivered (ensureInitialized s)).length := by
            rw [hb0, List.length_append]; rfl
          rw [this, ← g2]; exact k12
        · rw [k13, g2]; rfl
      · obtain ⟨log, k1, k2, k3, k4, k5, k7, k8, k12, k13⟩ := key s hI hR.frame hw hcs
        refine ⟨log, k1, ?_, k3, k4, ?_, Or.inr (Or.inr ⟨hI.init, k8, k7⟩), k12, k13, fun e he b hb => absurd hb (k7 e he b)⟩
        · simp only [deliveredBits, Trace.afterStream]
          exact k2
        · simp only [Trace.afterStream]
          rw [k5]
    · simp at h
    · simp at h

/-- **a whole history has a log** with positions, bits, window shape AND the metadata / alignment discipline -/
theorem run_factsX {o : Oracle} {fuel : Nat} {calls : List Call} {s0 s : St} {t0 t : Trace} (hR : RunOK s0)
    (hops : HistOK calls) (hw : s0.inputPos + histLen calls < two64)
    (h : run o fuel calls s0 t0 = .ok (s, t)) : ∃ log, RunFactsX o s0 t0 s t log := by
  induction calls generalizing s0 t0 with
  | nil =>
    simp only [run, Out.ok.injEq, Prod.mk.injEq] at h
    obtain ⟨rfl, rfl⟩ := h
    exact ⟨[], RunFactsX.refl o t0 hR⟩
  | cons c cs ih =>
    simp only [run] at h
    split at h
    · rename_i s1 t1 hc
      have hcok : CallOK s0 c := by
        cases c with
        | stream op chunk cap =>
          simp only [histLen, Call.len] at hw
          exact ⟨hops.1, by omega⟩
        | setParam id v => trivial
        | take n => trivial
      obtain ⟨hip, _, f0⟩ := runCall_facts hR hcok hc
      obtain ⟨l1, f1⟩ := runCall_factsX hR hcok hc
      have hops' : HistOK cs := by
        cases c with
        | stream op chunk cap => exact hops.2
        | setParam id v => exact hops
        | take n => exact hops
      have hw' : s1.inputPos + histLen cs < two64 := by
        simp only [histLen] at hw
        omega
      obtain ⟨l2, f2⟩ := ih f1.ok hops' hw' h
      exact ⟨l1 ++ l2, f1.trans f2⟩
    · simp at h
    · simp at h

end BV.Stream
