/-
C14 `slices_tile`: which input ranges `encode_data` hands to the meta-block callback, on top of w-stream's model of the
streaming state machine (`BV/Model/Stream.lean`, imported, not edited).  The stream model treats the payload encoder as
an oracle and does not mention the callback; the callback-invocation INTERFACE needed is small and is defined here
(`loggedSlices`: the logging sites of `encode_data` / `WriteMetaBlockInternal` expressed over the model's own
`encPrelude` / `encPayload` case split).  Proved relative to it: per invocation, per `compress_stream` call (the
modelled loop is shown to be an instance), and for whole histories.
-/
import BV.Lemmas.StreamContract
namespace BV.Slices
open BV.Stream BV.Bits

/-- an input range `[lo, hi)` handed to the meta-block callback as its `InputPair` -/
abbrev Slice := Nat × Nat

/-- `sl` is a sequence of non-empty, consecutive ranges leading from position `a` to position `b` -/
def Chain : List Slice → Nat → Nat → Prop
  | [], a, b => a = b
  | r :: rest, a, b => r.1 = a ∧ r.1 < r.2 ∧ Chain rest r.2 b

theorem chain_append : ∀ (xs ys : List Slice) (a b c : Nat), Chain xs a b → Chain ys b c → Chain (xs ++ ys) a c := by
  intro xs
  induction xs with
  | nil => intro ys a b c h1 h2; simp only [Chain] at h1; subst h1; exact h2
  | cons r xs ih =>
    intro ys a b c h1 h2
    obtain ⟨e1, e2, e3⟩ := h1
    exact ⟨e1, e2, ih ys _ b c e3 h2⟩

theorem chain_le : ∀ (xs : List Slice) (a b : Nat), Chain xs a b → a ≤ b := by
  intro xs
  induction xs with
  | nil => intro a b h; simp only [Chain] at h; omega
  | cons r xs ih =>
    intro a b h
    obtain ⟨e1, e2, e3⟩ := h
    have := ih _ _ e3
    omega

/-- the bytes of `input` covered by the slices, in the order they were handed over -/
def cover (input : Bytes) (sl : List Slice) : Bytes :=
  (sl.map fun r => (input.drop r.1).take (r.2 - r.1)).flatten

theorem chain_cover (input : Bytes) : ∀ (xs : List Slice) (a b : Nat), Chain xs a b →
    cover input xs = (input.drop a).take (b - a) := by
  intro xs
  induction xs with
  | nil => intro a b h; simp only [Chain] at h; subst h; simp [cover]
  | cons r xs ih =>
    intro a b h
    obtain ⟨e1, e2, e3⟩ := h
    have hle := chain_le _ _ _ e3
    have := ih _ _ e3
    unfold cover at this ⊢
    simp only [List.map_cons, List.flatten_cons]
    rw [this, ← e1]
    have hsplit : b - r.1 = (r.2 - r.1) + (b - r.2) := by omega
    rw [hsplit, List.take_add, List.drop_drop]
    congr 3
    omega


/-! ### where `encode_data` reaches `LogMetaBlock` (the callback-invocation interface on top of the stream model)

`src/enc/encode.rs`, `encode_data` with `params.log_meta_block`:
* the catable prelude calls `store_uncompressed_meta_block(.., last_flush_pos_, .., n, .., suppress = false, callback)`:
  one slice `[last_flush_pos_, last_flush_pos_ + n)`, `n = min(2, bytes)`;
* quality 0/1 (`compress_fragment_*`) never reach the callback;
* when a meta-block is emitted, `WriteMetaBlockInternal(last_flush_pos_, input_pos_ − last_flush_pos_)` logs
  through exactly one of its paths (`wmbLogs`). -/

/-- slices logged by the three paths of `WriteMetaBlockInternal` for the range `[lf, hi)`; the two un-modelled
decisions are parameters: `shouldCompress` (`should_compress(..)`) and `fallback` (the compressed attempt came out
larger than `bytes + 4`, so the storage is rewound and the block stored raw with `suppress_meta_block_logging = true`) -/
def wmbLogs (lf hi : Nat) (shouldCompress fallback : Bool) : List Slice :=
  if hi - lf = 0 then []                                   -- `bytes == 0`: empty last meta-block, nothing logged
  else if !shouldCompress then [(lf, hi)]                  -- store_uncompressed_meta_block(.., suppress = false)
  else
    [(lf, hi)]                                             -- store_meta_block{,_fast,_trivial}: LogMetaBlock of the compressed attempt
      ++ (if fallback then [] else [])                     -- store_uncompressed_meta_block(.., suppress = TRUE): not logged again

/-- **exactly one slice per input range, also on the stored fallback** -/
theorem wmb_logs_once (lf hi : Nat) (sc fb : Bool) (h : lf < hi) : wmbLogs lf hi sc fb = [(lf, hi)] := by
  unfold wmbLogs
  rw [if_neg (by omega)]
  cases sc <;> cases fb <;> simp

/-- the slice of the catable prelude (`bytes` = unprocessed bytes of this invocation) -/
def preludeSlices (s : St) (bytes : Nat) : List Slice :=
  if s.isFirstMb = .bothCatable then []
  else if !s.params.catable then []
  else if bytes ≠ 0 then [(s.lastFlushPos, s.lastFlushPos + min 2 bytes)]
  else []

/-- slices logged by the payload part, in the state `s2` the prelude left -/
def payloadSlices (s2 : St) (ans : Ans) (sc fb isLast forceFlush : Bool) : List Slice :=
  if s2.params.quality = 0 ∨ s2.params.quality = 1 then []
  else if !isLast ∧ !forceFlush ∧ !ans.emit then []           -- keep accumulating
  else if !isLast ∧ s2.inputPos = s2.lastFlushPos then []       -- nothing to emit
  else wmbLogs s2.lastFlushPos s2.inputPos sc fb

def restSlices (m : St × Writer × Nat) (ans : Ans) (sc fb : Bool) (bytes : Nat) (il ff : Bool) : List Slice :=
  preludeSlices m.1 bytes ++
    (match encPrelude m.1 m.2.1 m.2.2 bytes with
     | .ok (s2, _, _) => payloadSlices s2 ans sc fb il ff
     | _ => [])

/-- all `InputPair` ranges handed to the callback by ONE `encode_data` invocation -/
def loggedSlices (o : Oracle) (sc fb : Bool) (s : St) (site : Nat) (il ff : Bool) : List Slice :=
  if s.isLastBlockEmitted then [] else if s.unprocessed > s.blockSize then []
  else restSlices (encMagic (encEntry s il) s.carry) (o s.nEnc (reqOf s site il ff)) sc fb (s.unprocessed % two32) il ff

theorem prelude_chain {s s2 : St} {w w2 : Writer} {hdr hdr2 bytes : Nat}
    (h : encPrelude s w hdr bytes = .ok (s2, w2, hdr2)) :
    Chain (preludeSlices s bytes) s.lastFlushPos s2.lastFlushPos := by
  unfold encPrelude at h
  unfold preludeSlices
  simp only at h
  by_cases h1 : s.isFirstMb = .bothCatable
  · rw [if_pos h1] at h; rw [if_pos h1]
    simp only [Out.ok.injEq, Prod.mk.injEq] at h; obtain ⟨rfl, _, _⟩ := h; rfl
  · rw [if_neg h1] at h; rw [if_neg h1]
    by_cases h2 : (!s.params.catable) = true
    · rw [if_pos h2] at h; rw [if_pos h2]
      simp only [Out.ok.injEq, Prod.mk.injEq] at h; obtain ⟨rfl, _, _⟩ := h; rfl
    · rw [if_neg h2] at h; rw [if_neg h2]
      by_cases h3 : bytes ≠ 0
      · rw [if_pos h3] at h; rw [if_pos h3]
        split at h
        · cases h
        · split at h
          · cases h
          · simp only [Out.ok.injEq, Prod.mk.injEq] at h; obtain ⟨rfl, _, _⟩ := h
            exact ⟨rfl, by show s.lastFlushPos < s.lastFlushPos + min 2 bytes; omega, rfl⟩
      · rw [if_neg h3] at h; rw [if_neg h3]
        simp only [Out.ok.injEq, Prod.mk.injEq] at h; obtain ⟨rfl, _, _⟩ := h; rfl

theorem payload_chain {s2 s' : St} {ans : Ans} {w0 w : Writer} {hdr : Nat} {sc fb il ff res : Bool}
    (hq : 2 ≤ s2.params.quality) (hle : s2.lastFlushPos ≤ s2.inputPos)
    (h : encPayload s2 ans w0 w hdr il ff = .ok (s', res)) :
    Chain (payloadSlices s2 ans sc fb il ff) s2.lastFlushPos s'.lastFlushPos := by
  unfold encPayload at h
  unfold payloadSlices
  simp only at h
  have hq01 : ¬ (s2.params.quality = 0 ∨ s2.params.quality = 1) := by omega
  rw [if_neg hq01]
  by_cases hst : w.length / 8 + 2 > s2.storageSize
  · rw [if_pos hst] at h; cases h
  · rw [if_neg hst, if_neg hq01] at h
    by_cases h1 : (!il ∧ !ff ∧ !ans.emit)
    · rw [if_pos h1] at h; rw [if_pos h1]
      simp only [Out.ok.injEq, Prod.mk.injEq] at h; obtain ⟨rfl, _⟩ := h; rfl
    · rw [if_neg h1] at h; rw [if_neg h1]
      by_cases h2 : (!il ∧ s2.inputPos = s2.lastFlushPos)
      · rw [if_pos h2] at h; rw [if_pos h2]
        simp only [Out.ok.injEq, Prod.mk.injEq] at h; obtain ⟨rfl, _⟩ := h; rfl
      · rw [if_neg h2] at h; rw [if_neg h2]
        split at h
        · cases h
        · simp only [Out.ok.injEq, Prod.mk.injEq] at h; obtain ⟨rfl, _⟩ := h
          show Chain (wmbLogs s2.lastFlushPos s2.inputPos sc fb) s2.lastFlushPos s2.inputPos
          by_cases hz : s2.lastFlushPos < s2.inputPos
          · rw [wmb_logs_once _ _ _ _ hz]; exact ⟨rfl, hz, rfl⟩
          · have : s2.inputPos = s2.lastFlushPos := by omega
            unfold wmbLogs; rw [if_pos (by omega), this]; rfl


theorem rest_chain {m : St × Writer × Nat} {ans : Ans} {w0 : Writer} {sc fb : Bool} {bytes : Nat} {il ff res : Bool} {s' : St}
    (hq : 2 ≤ m.1.params.quality) (hle : m.1.lastFlushPos + min 2 bytes ≤ m.1.inputPos)
    (h : encRest m ans w0 bytes il ff = .ok (s', res)) :
    Chain (restSlices m ans sc fb bytes il ff) m.1.lastFlushPos s'.lastFlushPos := by
  unfold encRest at h
  unfold restSlices
  cases hp : encPrelude m.1 m.2.1 m.2.2 bytes with
  | panic => rw [hp] at h; cases h
  | fuel => rw [hp] at h; cases h
  | ok r =>
    obtain ⟨s2, w, hdr⟩ := r
    rw [hp] at h
    simp only at h ⊢
    have c1 := prelude_chain hp
    have hf := (encPrelude_frame hp).1
    rw [St.frame_eq_iff] at hf
    have hle2 : s2.lastFlushPos ≤ s2.inputPos := by
      rcases encPrelude_pos hp with ⟨p1, _⟩ | ⟨p1, _⟩ <;> rw [p1, hf.2.1] <;> omega
    have c2 := payload_chain (sc := sc) (fb := fb) (by rw [hf.1]; exact hq) hle2 h
    exact chain_append _ _ _ _ _ c1 c2

/-- **one `encode_data` invocation** (quality ≥ 2, any site, any flags, catable or not, whatever the payload encoder
answers and whichever path `WriteMetaBlockInternal` takes): the `InputPair` ranges it hands to the callback are
non-empty, consecutive, start at `last_flush_pos_` before and end at `last_flush_pos_` after the invocation -/
theorem logged_chain {o : Oracle} {sc fb : Bool} {s s' : St} {site : Nat} {il ff : Bool} {req : Req} (hI : Inv s)
    (hq : 2 ≤ s.params.quality) (h : encodeData o s site il ff = .ok (s', true, req)) :
    Chain (loggedSlices o sc fb s site il ff) s.lastFlushPos s'.lastFlushPos := by
  obtain ⟨_, hc⟩ := encodeData_ok_cases h
  rcases hc with ⟨_, hh, _⟩ | ⟨_, _, hh, _⟩ | ⟨h1, h2, hrest⟩
  · simp at hh
  · simp at hh
  · have m1 := (encMagic_frame (encEntry s il) s.carry).1
    have m2 := (encMagic_frame (encEntry s il) s.carry).2.1
    have e1 := (encEntry_fields s il).1
    have e2 := (encEntry_fields s il).2.1
    have hm := m1.trans e1
    rw [St.frame_eq_iff] at hm
    have mlf : (encMagic (encEntry s il) s.carry).1.lastFlushPos = s.lastFlushPos := m2.trans e2
    have hu : s.unprocessed = s.inputPos - s.lastProcessedPos := hI.unprocessed
    have hb : s.unprocessed % two32 ≤ s.unprocessed := Nat.mod_le _ _
    have hq' : 2 ≤ (encMagic (encEntry s il) s.carry).1.params.quality := by rw [hm.1]; exact hq
    have hip := hm.2.1
    have hls : loggedSlices o sc fb s site il ff =
        restSlices (encMagic (encEntry s il) s.carry) (o s.nEnc (reqOf s site il ff)) sc fb (s.unprocessed % two32) il ff := by
      unfold loggedSlices
      simp only [h1, Bool.false_eq_true, if_false, h2]
    rw [hls, ← mlf]
    have h3 := hI.fl_le
    have h4 := hI.lp_le
    generalize s.unprocessed % two32 = b at hb hrest ⊢
    generalize o s.nEnc (reqOf s site il ff) = ans at hrest ⊢
    generalize encMagic (encEntry s il) s.carry = m at hrest hq' hip mlf ⊢
    exact rest_chain hq' (by omega) hrest

/-! ### a whole history -/

/-- a history of the encoder state from `s0`: `encode_data` invocations (any call site: `compress_stream`,
`process_metadata`) interleaved with steps that do not touch `last_flush_pos_` (copying input into the ring buffer,
pushing output, byte padding, metadata bytes, `check_flush_complete`, a failed `encode_data`, marking the stream
state).  `sl` = every `InputPair` range handed to the callback so far, in order. -/
inductive Hist (o : Oracle) : St → List Slice → St → Prop
  | start (s : St) : Hist o s [] s
  | enc {s0 s s' : St} {sl : List Slice} (sc fb : Bool) (site : Nat) (il ff : Bool) (req : Req) :
      Hist o s0 sl s → Inv s → 2 ≤ s.params.quality → encodeData o s site il ff = .ok (s', true, req) →
      Hist o s0 (sl ++ loggedSlices o sc fb s site il ff) s'
  | other {s0 s s' : St} {sl : List Slice} :
      Hist o s0 sl s → s'.lastFlushPos = s.lastFlushPos → Hist o s0 sl s'

theorem hist_chain {o : Oracle} {s0 s : St} {sl : List Slice} (h : Hist o s0 sl s) :
    Chain sl s0.lastFlushPos s.lastFlushPos := by
  induction h with
  | start => rfl
  | enc sc fb site il ff req _ hI hq he ih => exact chain_append _ _ _ _ _ ih (logged_chain hI hq he)
  | other _ he ih => rw [he]; exact ih


/-- slices logged by one iteration of the `compress_stream` loop (mirrors the control flow of `slowStep`) -/
def slowStepSlices (o : Oracle) (sc fb : Bool) (op : Nat) (s : St) (io : Io) : List Slice :=
  if remainingInputBlockSize s ≠ 0 ∧ io.availIn ≠ 0 then []
  else match injectFlushOrPushOutput s io with
    | .ok (s1, io1, false) =>
      if s1.pending.length = 0 ∧ s1.streamState = .processing ∧ (remainingInputBlockSize s = 0 ∨ op ≠ 0) then
        loggedSlices o sc fb (updateSizeHint s1 io1.availIn) 0 (decide (io1.availIn = 0 ∧ op = 2)) (decide (io1.availIn = 0 ∧ op = 1))
      else []
    | _ => []

/-- slices logged by one `compress_stream` call on the general path (mirrors `slowLoop`) -/
def slowLoopSlices (o : Oracle) (sc fb : Bool) (op : Nat) : Nat → St → Io → List Slice
  | 0, _, _ => []
  | fuel + 1, s, io =>
    match slowStep o op s io with
    | .ok (s', io', .cont) => slowStepSlices o sc fb op s io ++ slowLoopSlices o sc fb op fuel s' io'
    | _ => slowStepSlices o sc fb op s io

theorem slowStep_hist {o : Oracle} {sc fb : Bool} {op : Nat} {s0 s s' : St} {sl : List Slice} {io io' : Io} {c : Ctl}
    (hH : Hist o s0 sl s) (hI : Inv s) (hq : 2 ≤ s.params.quality)
    (h : slowStep o op s io = .ok (s', io', c)) :
    Hist o s0 (sl ++ slowStepSlices o sc fb op s io) s' ∧ s'.params.quality = s.params.quality := by
  unfold slowStep at h
  unfold slowStepSlices
  simp only at h
  by_cases hc : remainingInputBlockSize s ≠ 0 ∧ io.availIn ≠ 0
  · rw [if_pos hc] at h; rw [if_pos hc]
    split at h
    · cases h
    · split at h
      · rename_i s1 hcp
        simp only [Out.ok.injEq, Prod.mk.injEq] at h
        obtain ⟨rfl, _, _⟩ := h
        obtain ⟨c1, _, _, _, _, c6, _⟩ := copy_fields hI.init hcp
        exact ⟨by rw [List.append_nil]; exact Hist.other hH c6, by rw [c1]⟩
      · cases h
      · cases h
  · rw [if_neg hc] at h; rw [if_neg hc]
    cases hp : injectFlushOrPushOutput s io with
    | panic => rw [hp] at h; cases h
    | fuel => rw [hp] at h; cases h
    | ok r =>
      obtain ⟨s1, io1, b⟩ := r
      rw [hp] at h
      obtain ⟨f, fa, _⟩ := push_frame hp
      rw [St.frame_eq_iff] at f
      cases b with
      | true =>
        simp only [Out.ok.injEq, Prod.mk.injEq] at h
        obtain ⟨rfl, _, _⟩ := h
        exact ⟨by rw [List.append_nil]; exact Hist.other hH fa, by rw [f.1]⟩
      | false =>
        simp only at h ⊢
        by_cases hcond : s1.pending.length = 0 ∧ s1.streamState = .processing ∧ (remainingInputBlockSize s = 0 ∨ op ≠ 0)
        · rw [if_pos hcond] at h; rw [if_pos hcond]
          have hI1 := inv_push hI hp
          have hI2 := inv_updateSizeHint hI1 io1.availIn
          obtain ⟨_, u2, _, _, _, _, _, _, u9, u10, _⟩ := updateSizeHint_fields s1 io1.availIn
          have hH2 : Hist o s0 sl (updateSizeHint s1 io1.availIn) := Hist.other hH (by rw [u10, fa])
          have hq2 : 2 ≤ (updateSizeHint s1 io1.availIn).params.quality := by rw [u2, f.1]; exact hq
          cases he : encodeData o (updateSizeHint s1 io1.availIn) 0 (decide (io1.availIn = 0 ∧ op = 2)) (decide (io1.availIn = 0 ∧ op = 1)) with
          | panic => rw [he] at h; cases h
          | fuel => rw [he] at h; cases h
          | ok r2 =>
            obtain ⟨s2, res, req⟩ := r2
            rw [he] at h
            simp only at h
            have hst : (updateSizeHint s1 io1.availIn).streamState = .processing := by rw [u9]; exact hcond.2.1
            have hres : res = true := encodeData_succeeds hI2 (by rw [hst]; simp) he
            subst hres
            simp only [Bool.not_true, Bool.false_eq_true, ↓reduceIte, Out.ok.injEq, Prod.mk.injEq] at h
            obtain ⟨rfl, _, _⟩ := h
            obtain ⟨fe, _⟩ := encodeData_frame he
            rw [St.frame_eq_iff] at fe
            obtain ⟨k1, _, _, _, k5, _⟩ := markAfterEncode_fields s2 (decide (io1.availIn = 0 ∧ op = 2)) (decide (io1.availIn = 0 ∧ op = 1))
            exact ⟨Hist.other (Hist.enc sc fb 0 _ _ req hH2 hI2 hq2 he) k5, by rw [k1, fe.1, u2, f.1]⟩
        · rw [if_neg hcond] at h; rw [if_neg hcond]
          simp only [Out.ok.injEq, Prod.mk.injEq] at h
          obtain ⟨rfl, _, _⟩ := h
          exact ⟨by rw [List.append_nil]; exact Hist.other hH fa, by rw [f.1]⟩


/-- one `compress_stream` call on the general path (PROCESS / FLUSH / FINISH, any quality ≥ 2, catable or not):
the modelled loop is an instance of `Hist`, with exactly the slices `slowLoopSlices` computes -/
theorem slowLoop_hist {o : Oracle} {sc fb : Bool} {op : Nat} {c0 : SState} {n total : Nat} :
    ∀ (fuel : Nat) (s0 s s' : St) (sl : List Slice) (io io' : Io) (r : Bool),
      Hist o s0 sl s → SlowInv op c0 n total s io → 2 ≤ s.params.quality →
      slowLoop o op fuel s io = .ok (s', io', r) →
      Hist o s0 (sl ++ slowLoopSlices o sc fb op fuel s io) s' ∧ s'.params.quality = s.params.quality := by
  intro fuel
  induction fuel with
  | zero => intro s0 s s' sl io io' r _ _ _ h; simp [slowLoop] at h
  | succ k ih =>
    intro s0 s s' sl io io' r hH hP hq h
    unfold slowLoop at h
    unfold slowLoopSlices
    cases hs : slowStep o op s io with
    | panic => rw [hs] at h; cases h
    | fuel => rw [hs] at h; cases h
    | ok r1 =>
      obtain ⟨s1, io1, c⟩ := r1
      rw [hs] at h
      obtain ⟨h1, q1⟩ := slowStep_hist (sc := sc) (fb := fb) hH hP.inv hq hs
      obtain ⟨_, hP1⟩ := slowInv_step hP hs
      cases c with
      | fail =>
        simp only [Out.ok.injEq, Prod.mk.injEq] at h
        obtain ⟨rfl, _, _⟩ := h
        exact ⟨h1, q1⟩
      | cont =>
        simp only at h ⊢
        obtain ⟨h2, q2⟩ := ih s0 s1 s' _ io1 io' r h1 hP1 (by rw [q1]; exact hq) h
        exact ⟨by rw [← List.append_assoc]; exact h2, by rw [q2, q1]⟩
      | brk =>
        simp only [Out.ok.injEq, Prod.mk.injEq] at h
        obtain ⟨rfl, _, _⟩ := h
        obtain ⟨k1, _, _, _, k5, _⟩ := checkFlushComplete_frame s1
        exact ⟨Hist.other h1 k5, by rw [k1, q1]⟩

/-- **`slices_tile`** — over a whole history of the encoder (any interleaving of `encode_data` invocations from any
call site with steps that leave `last_flush_pos_` alone; quality ≥ 2; catable mode with its 2-byte prelude included;
whichever path `WriteMetaBlockInternal` takes, in particular the stored fallback after the compressed attempt was
logged): the `InputPair` ranges handed to the callback are non-empty and consecutive, and once everything fed in has
been flushed (`last_flush_pos_ = input_pos_`, which FLUSH / FINISH establish: C01 `requests_tile_input`) they cover
exactly the input fed since the start of the history — `input[start, input_pos)` byte for byte, nothing twice,
nothing skipped. -/
theorem slices_tile {o : Oracle} {s0 s : St} {sl : List Slice} (input : Bytes)
    (h : Hist o s0 sl s) (hflushed : s.lastFlushPos = s.inputPos) :
    Chain sl s0.lastFlushPos s.inputPos ∧
    cover input sl = (input.drop s0.lastFlushPos).take (s.inputPos - s0.lastFlushPos) := by
  have hc := hist_chain h
  rw [hflushed] at hc
  exact ⟨hc, chain_cover input sl _ _ hc⟩

end BV.Slices
