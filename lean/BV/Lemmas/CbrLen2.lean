/-
`copy_len() ≥ 2` for the copying commands of `CreateBackwardReferences` (hypothesis `hcl2` of the quality ≥ 4 writer
theorems) — w-compose.  For LZ77 copies it is part of `match_sound_*` (`SoundAt`: a match at a position with at least 4
bytes left is at least 2 long); a static-dictionary reference can be a 1-byte match (reachable with an extreme
`literal_byte_score`), so the statement is for hashers that return no dictionary hit (`SlotOK noWords`: dictionary off).
-/
import BV.Lemmas.CbrOpen
import BV.Lemmas.CatableReplay

namespace BV.Cbr
open BV.Hasher BV.MatchFinder BV.Recoder BV.PrefixArith BV.MetaBlock BV.Catable

/-- the per-command obligation is monotone in the predicate, with the search result's soundness at hand -/
theorem emitHyp_sound_mono {slotOK : DictItem → Prop} {C : Ctx} {p : Params} {G1 G2 : Cmd → Prop}
    (h : EmitHyp slotOK C p G1)
    (hg : ∀ cmd sr pos, G1 cmd → copyLen cmd = sr.len → pos + 4 ≤ C.hist.length + C.mb.length →
      SoundAt slotOK C.data C.k p.maxDistance pos (C.hist.length + C.mb.length - pos) (min pos (maxBackwardLimit p)) sr →
      G2 cmd) : EmitHyp slotOK C p G2 := by
  intro d pos ins sr cache a1 a2 a3 a4 a5 a6 a7
  obtain ⟨cmd, cache', d', e1, e2, e3, e4, e5, e6, e7, e8, e9, e10, e11⟩ := h d pos ins sr cache a1 a2 a3 a4 a5 a6 a7
  exact ⟨cmd, cache', d', e1, e2, e3, e4, e5, e6, e7, e8, e9, e10, hg cmd sr pos e11 e9 a3 a7⟩

/-- no slot satisfies `SlotOK` against the empty word oracle -/
theorem slotOK_noWords_false (d : DictItem) (h : SlotOK noWords d) : False := by
  obtain ⟨h4, _, _, _, _, hw⟩ := h
  have := hw 0 (by decide) (by omega)
  simp [noWords] at this

/-- with the dictionary off a sound result at a position with ≥ 4 bytes left is an LZ77 match of length ≥ 2 -/
theorem soundAt_len2 {data : ByteArray} {k md pos ml mbk : Nat} {o : SR}
    (h : SoundAt (SlotOK noWords) data k md pos ml mbk o) (hml : 4 ≤ ml) : 2 ≤ o.len := by
  rcases h with ⟨_, _, _, _, h5, _⟩ | ⟨items, hs, dd, hdd, hpos, hle, _⟩
  · exact h5 hml
  · exfalso
    have hne : dd.item ≠ 0 := by
      intro h0
      simp only [h0] at hle
      simp at hle
      omega
    exact slotOK_noWords_false dd (hs dd hdd hne)

/-- **dictionary off ⇒ every copying command copies at least 2 bytes** (one call, closed command array) -/
theorem cbr_copylen2 {H : Type} {ops : HasherOps H} {p : Params} {C : Ctx} {G : Cmd → Prop}
    (hops : OpsOK (SlotOK noWords) ops p C.data C.k) (hemit : EmitHyp (SlotOK noWords) C p G)
    (numBytes position : Nat) (h0 : H) (cache : List Int) (lastInsertLen numLiterals : Nat) (res : Result H)
    (hpos : position = C.hist.length + lastInsertLen) (hmb : C.mb.length = lastInsertLen + numBytes)
    (h64 : C.hist.length + C.mb.length < 2 ^ 64) (hc : CacheI32 cache) (hcl : 4 ≤ cache.length)
    (h : createBackwardReferences ops p numBytes position h0 cache lastInsertLen numLiterals = some res) :
    ∀ c ∈ closeMetaBlock res.cmds res.lastInsertLen, copyLen c ≠ 0 → 2 ≤ copyLen c := by
  have hemit2 : EmitHyp (SlotOK noWords) C p (fun c => 2 ≤ copyLen c) :=
    emitHyp_sound_mono hemit (fun cmd sr pos _ hcp hlt hs => by rw [hcp]; exact soundAt_len2 hs (by omega))
  obtain ⟨_, _, _, _, _, _, _, hg⟩ := cbr_open hops hemit2 numBytes position h0 cache lastInsertLen numLiterals res hpos hmb
    h64 hc hcl h
  intro c hc' hne
  rw [closeMetaBlock_split] at hc'
  rcases List.mem_append.mp hc' with h1 | h2
  · exact hg c h1
  · unfold closeMetaBlock at h2
    split at h2
    · simp only [List.nil_append, List.mem_singleton] at h2
      subst h2
      exact absurd (copyLen_initInsert _) hne
    · cases h2

end BV.Cbr
