/-
Lemmas for C17 part 3 (d): one round of the tree construction (`collectLeaves`,
sort, sentinels, merge) produces a laid-out full binary tree whose leaves are
exactly the symbols with a non-zero count.
-/
import BV.Lemmas.HuffmanFib

namespace BV.Lemmas.HuffmanBuild
open BV.Bits BV.Huffman BV.Lemmas.HuffmanCanon BV.Lemmas.HuffmanShape BV.Lemmas.HuffmanSort
open BV.Lemmas.HuffmanMerge BV.Lemmas.HuffmanFib

theorem T.leaves_length_pos (t : T) : 1 ≤ t.leaves.length := by
  induction t with
  | leaf v => simp [T.leaves]
  | node l r ihl ihr => simp [T.leaves]; omega

theorem T.size_eq (t : T) : t.size + 1 = 2 * t.leaves.length := by
  induction t with
  | leaf v => simp [T.size, T.leaves]
  | node l r ihl ihr => simp [T.size, T.leaves]; omega

theorem T.height_succ_le (t : T) : t.height + 1 ≤ t.leaves.length := by
  induction t with
  | leaf v => simp [T.height, T.leaves]
  | node l r ihl ihr => simp only [T.height, T.leaves, List.length_append]; omega

theorem T.height_pos_of_two (t : T) (h : 2 ≤ t.leaves.length) : 1 ≤ t.height := by
  cases t with
  | leaf v => simp [T.leaves] at h
  | node l r => simp [T.height]

theorem rsum_getD (g : Nat → Nat) (vs : List Nat) :
    rsum (fun q => g (vs.getD q 0)) 0 vs.length = (vs.map g).sum := by
  unfold rsum
  congr 1
  apply List.ext_getElem?
  intro k
  simp only [Nat.sub_zero, List.getElem?_map]
  by_cases hk : k < vs.length
  · simp [hk, List.getD_eq_getElem?_getD]
  · simp [hk]

theorem cntAt_eq_cntOf (l : List Node) (q : Nat) : cntAt l q = cntOf l q := by
  unfold cntAt cntOf
  cases l[q]? <;> rfl

/-- the weight the round gives to symbol `v` -/
def wOf (data : List Nat) (cl : Nat) (v : Nat) : Nat := max (data.getD v 0) cl

/-- `index_right_or_value_` of a leaf, as a symbol -/
def valueOf (nd : Node) : Nat := nd.right.toNat

theorem valueOf_leafNode (data : List Nat) (cl v : Nat) : valueOf (leafNode data cl v) = v := by
  simp [valueOf, leafNode]

/-- sort + sentinels + merge over `n ≥ 2` collected leaves -/
theorem buildNodes_spec (cmp : Node → Node → Bool) (hcmp : CmpOK cmp) (data : List Nat) (cl : Nat)
    (lv : List Nat)
    (tree1 : List Node) (n : Nat) (hn : n = lv.length) (hn2 : 2 ≤ n)
    (hlen : 2 * n + 1 ≤ tree1.length) (h16 : 2 * n < 32768)
    (hleaf : ∀ k, k < n → tree1[k]? = some (leafNode data cl (lv.getD k 0)))
    (hW : (lv.map (wOf data cl)).sum < 4294967295) :
    ∃ pool' t, buildNodes cmp tree1 n = .ok pool' ∧ pool'.length = tree1.length ∧
      IsTree pool' (2 * n - 1) t ∧ t.leaves.Perm lv ∧
      fib (t.height + 2) * cl ≤ (lv.map (wOf data cl)).sum := by
  unfold buildNodes
  obtain ⟨tree2, hs1, hs2, hs3⟩ := sortItems_spec cmp tree1 n (by omega)
  have hst := sortItems_take cmp tree1 tree2 n (by omega) hs1
  simp only [hs1, Out.bind_ok]
  have hl2 : tree2.length = tree1.length := hst.1
  rw [setAt_of_lt tree2 n _ (by omega)]
  simp only [Out.bind_ok]
  rw [setAt_of_lt _ (n + 1) _ (by simp; omega)]
  simp only [Out.bind_ok]
  -- the first `n` items before sorting
  have htake1 : tree1.take n = lv.map (leafNode data cl) := by
    apply List.ext_getElem?
    intro k
    rw [List.getElem?_take, List.getElem?_map]
    by_cases hk : k < n
    · rw [if_pos hk, hleaf k hk, List.getD_eq_getElem?_getD,
        List.getElem?_eq_getElem (by omega : k < lv.length)]
      simp
    · rw [if_neg hk, List.getElem?_eq_none (by omega)]; rfl
  -- symbols in sorted order
  let vs : List Nat := (tree2.take n).map valueOf
  have hvsperm : vs.Perm lv := by
    have := hst.2.1.map valueOf
    rw [htake1, List.map_map] at this
    have e : lv.map (valueOf ∘ leafNode data cl) = lv := by
      conv => rhs; rw [← List.map_id lv]
      apply List.map_congr_left
      intro v _; simp [valueOf_leafNode]
    rw [e] at this
    exact this
  have hvslen : vs.length = n := by
    show ((tree2.take n).map valueOf).length = n
    rw [List.length_map, List.length_take]; omega
  have hleaf2 : ∀ q, q < n → tree2[q]? = some (leafNode data cl (vs.getD q 0)) := by
    intro q hq
    have hq2 : q < tree2.length := by omega
    have hmem : tree2[q] ∈ tree2.take n := by
      rw [List.mem_take_iff_getElem]
      exact ⟨q, by omega, rfl⟩
    have hmem1 : tree2[q] ∈ tree1.take n := (hst.2.1.mem_iff).mp hmem
    rw [htake1, List.mem_map] at hmem1
    obtain ⟨v, _, hv⟩ := hmem1
    have hvq : vs.getD q 0 = v := by
      show ((tree2.take n).map valueOf).getD q 0 = v
      rw [List.getD_eq_getElem?_getD, List.getElem?_map, List.getElem?_take, if_pos hq,
        List.getElem?_eq_getElem hq2, ← hv]
      simp [valueOf_leafNode]
    rw [List.getElem?_eq_getElem hq2, ← hv, hvq]
  -- the pool the merge starts from
  let pool4 := (tree2.set n sentinel).set (n + 1) sentinel
  have h4lt : ∀ q, q < n → pool4[q]? = tree2[q]? := by
    intro q hq
    show ((tree2.set n sentinel).set (n + 1) sentinel)[q]? = tree2[q]?
    rw [List.getElem?_set_ne (by omega), List.getElem?_set_ne (by omega)]
  let tr : Nat → T := fun q => .leaf (vs.getD q 0)
  have hinv : MInv n (wOf data cl) vs (n - 1) pool4 0 (n + 1) tr := by
    refine
      { hk := by omega, hi := by omega, hj1 := by omega, hj2 := by omega, hcount := by omega,
        hlen := by show 2 * n + 1 ≤ ((tree2.set n sentinel).set (n + 1) sentinel).length
                   simp; omega,
        h16 := h16, hsn := ?_, hse := ?_, htree := ?_, hsum := ?_, hW := ?_,
        hfresh := Or.inr (by omega) }
    · show ((tree2.set n sentinel).set (n + 1) sentinel)[n]? = some sentinel
      rw [List.getElem?_set_ne (by omega), List.getElem?_set_self (by omega)]
    · have : 2 * n - (n - 1) = n + 1 := by omega
      rw [this]
      show ((tree2.set n sentinel).set (n + 1) sentinel)[n + 1]? = some sentinel
      rw [List.getElem?_set_self (by simp; omega)]
    · intro q hq
      have hqn : q < n := by
        rcases hq with ⟨_, h2⟩ | ⟨h1, h2⟩
        · exact h2
        · omega
      have hp : pool4[q]? = some (leafNode data cl (vs.getD q 0)) := by
        rw [h4lt q hqn]; exact hleaf2 q hqn
      refine ⟨?_, ?_⟩
      · exact .leaf (c := max (data.getD (vs.getD q 0) 0) cl) (l := -1) hp (by omega)
      · simp [cntAt, hp, leafNode, G, wOf, tr]
    · intro g
      have : 2 * n - (n - 1) = n + 1 := by omega
      rw [this, rsum_empty _ (n + 1) (n + 1) (Nat.le_refl _), Nat.add_zero, ← hvslen]
      exact rsum_getD g vs
    · rw [(hvsperm.map (wOf data cl)).sum_nat]; exact hW
  have hsorted := sortItems_sorted cmp hcmp tree1 tree2 n (by omega) hs1
  have hsinv : SInv n cl (n - 1) pool4 0 (n + 1) tr 0 (fun _ => 0) := by
    have he : 2 * n - (n - 1) = n + 1 := by omega
    refine { hS1 := ?_, hS2 := ?_, hS3 := ?_, hS5 := ?_, hleaf := ?_, hS6 := ?_, hS7 := ?_ }
    · intro p q _ hpq hq
      have h1 : cntAt pool4 p = cntOf tree2 p := by
        rw [cntAt_congr _ _ p (h4lt p (by omega)), cntAt_eq_cntOf]
      have h2 : cntAt pool4 q = cntOf tree2 q := by
        rw [cntAt_congr _ _ q (h4lt q hq), cntAt_eq_cntOf]
      rw [h1, h2]; exact hsorted p q hpq hq
    · intro p q h1 h2 h3; omega
    · intro q _; exact Nat.zero_le _
    · intro q h1 h2; omega
    · intro q _ _; rfl
    · intro q hq
      rw [he] at hq
      have hqn : q < n := by
        rcases hq with ⟨_, h2⟩ | ⟨h1, h2⟩
        · exact h2
        · omega
      have hp : pool4[q]? = some (leafNode data cl (vs.getD q 0)) := by
        rw [h4lt q hqn]; exact hleaf2 q hqn
      simp only [cntAt, hp, leafNode, tr, T.height]
      show fib 2 * cl ≤ _
      simp only [fib, Nat.zero_add, Nat.one_mul]
      omega
    · intro q h1 h2; omega
  obtain ⟨pool', i', j', tr', lastY', K', hm, hinv', hsinv', hl'⟩ :=
    mergeLoop_fib n cl (wOf data cl) vs (n - 1) pool4 0 (n + 1) tr 0 (fun _ => 0) hinv hsinv
  have hc := hinv'.hcount
  have hf := hinv'.hfresh
  have hj2' := hinv'.hj2
  have hi' := hinv'.hi
  simp only [Nat.sub_zero] at hc hf hj2'
  have hjj : j' = 2 * n - 1 := by omega
  have hii : i' = n := by omega
  have hav : Avail n i' j' (2 * n - 0) (2 * n - 1) := Or.inr ⟨by omega, by omega⟩
  refine ⟨pool', tr' (2 * n - 1), hm, ?_, (hinv'.htree _ hav).1, ?_, ?_⟩
  · rw [hl']
    show ((tree2.set n sentinel).set (n + 1) sentinel).length = tree1.length
    simp [hl2]
  · refine (perm_of_sums _ _ ?_).trans hvsperm
    intro g
    have := hinv'.hsum g
    rw [hii, hjj, rsum_empty _ n n (Nat.le_refl _), Nat.zero_add] at this
    have e2 : 2 * n - 0 = (2 * n - 1) + 1 := by omega
    rw [e2, rsum_tail _ _ _ (Nat.le_refl _), rsum_empty _ _ _ (Nat.le_refl _), Nat.zero_add,
      G_eq_sum] at this
    exact this
  · have h1 := hsinv'.hS6 _ hav
    have h2 := hinv'.cnt_le _ hav
    rw [(hvsperm.map (wOf data cl)).sum_nat] at h2
    omega

end BV.Lemmas.HuffmanBuild
