/-
C08 `stored_stream_decodes`: the output of `MakeUncompressedStream`, read by the
specification readers of `BV/Lemmas/HeaderSpec.lean` (RFC 7932 §9.1 / §9.2),
is: window 10, an empty metadata block (the byte `03` used as padding), one
uncompressed meta-block per chunk of the input (2^24 bytes each, the rest
last; 4, 5 or 6 length nibbles), the empty last meta-block — for byte strings
of any length.
-/
import BV.Lemmas.HeaderStored
import BV.Lemmas.HeaderStart
namespace BV.Stored
open BV.Bits BV.Header BV.Bits.Out BV.HeaderSpec

/-! ## bit fields of a chunk header -/

theorem bitsOf_mod (n v : Nat) : bitsOf n (v % 2 ^ n) = bitsOf n v := by
  induction n generalizing v with
  | zero => rfl
  | succ n ih =>
    simp only [bitsOf]
    have h1 : v % 2 ^ (n + 1) % 2 = v % 2 := by
      rw [Nat.pow_succ, Nat.mul_comm]; exact Nat.mod_mul_right_mod v 2 (2 ^ n)
    have h2 : v % 2 ^ (n + 1) / 2 = (v / 2) % 2 ^ n := by
      rw [Nat.pow_succ, Nat.mul_comm, Nat.mod_mul_right_div_self]
    rw [h1, h2, ih]

theorem bitsOf_zero (p : Nat) : bitsOf p 0 = List.replicate p false := by
  induction p with
  | zero => rfl
  | succ p ih => simp [bitsOf, List.replicate_succ, ih]

theorem bitsOf_congr (n a b : Nat) (h : a % 2 ^ n = b % 2 ^ n) : bitsOf n a = bitsOf n b := by
  rw [← bitsOf_mod n a, ← bitsOf_mod n b, h]

/-- a word made of the fields ISLAST(1) | MNIBBLES(2) | MLEN-1(m) | ISUNCOMPRESSED(1) | padding(p) -/
theorem field_bits (m p nib x W : Nat) (hnib : nib < 4) (hx : x < 2 ^ m)
    (hW : W = nib * 2 + x * 8 + 2 ^ (3 + m)) :
    bitsOf (1 + (2 + (m + (1 + p)))) W
      = false :: (bitsOf 2 nib ++ (bitsOf m x ++ (true :: List.replicate p false))) := by
  rw [bitsOf_add, bitsOf_add, bitsOf_add, bitsOf_add]
  have hpm : 0 < 2 ^ m := Nat.pow_pos (by decide)
  have e3 : 2 ^ (3 + m) = 8 * 2 ^ m := by rw [Nat.pow_add]
  rw [e3] at hW
  have d2 : W / 2 ^ 1 / 2 ^ 2 = x + 2 ^ m := by
    generalize 2 ^ m = M at *
    omega
  have f0 : bitsOf 1 W = [false] := by
    have : W % 2 = 0 := by
      generalize 2 ^ m = M at *
      omega
    simp [bitsOf, this]
  have f1 : bitsOf 2 (W / 2 ^ 1) = bitsOf 2 nib := by
    apply bitsOf_congr
    generalize 2 ^ m = M at *
    omega
  have f2 : bitsOf m (x + 2 ^ m) = bitsOf m x := by
    apply bitsOf_congr; exact Nat.add_mod_right x (2 ^ m)
  have f3 : (x + 2 ^ m) / 2 ^ m = 1 := by
    rw [Nat.add_div_right _ hpm, Nat.div_eq_of_lt hx]
  have f4 : bitsOf p (1 / 2 ^ 1) = List.replicate p false := by
    have : (1 : Nat) / 2 ^ 1 = 0 := by decide
    rw [this]
    exact bitsOf_zero p
  rw [f0, f1, d2, f2, f3, f4]
  rfl
theorem takeVal_split (k n v : Nat) (r : List Bool) :
    takeVal k (bitsOf (k + n) v ++ r) = some (v % 2 ^ k, bitsOf n (v / 2 ^ k) ++ r) := by
  rw [bitsOf_add, List.append_assoc]
  simp [takeVal, valOf_bitsOf]

theorem bytes3_bits (w : Nat) :
    [w % 256, w / 2 ^ 8 % 256, w / 2 ^ 16 % 256].flatMap (bitsOf 8) = bitsOf 24 w := by
  simp only [List.flatMap_cons, List.flatMap_nil, List.append_nil]
  rw [show (24 : Nat) = 8 + (8 + 8) by rfl, bitsOf_add, bitsOf_add]
  rw [show (256 : Nat) = 2 ^ 8 by rfl, bitsOf_mod, bitsOf_mod, bitsOf_mod]
  rw [Nat.div_div_eq_div_mul]

theorem bytes4_bits (w : Nat) :
    [w % 256, w / 2 ^ 8 % 256, w / 2 ^ 16 % 256, w / 2 ^ 24 % 256].flatMap (bitsOf 8) = bitsOf 32 w := by
  simp only [List.flatMap_cons, List.flatMap_nil, List.append_nil]
  rw [show (32 : Nat) = 8 + (8 + (8 + 8)) by rfl, bitsOf_add, bitsOf_add, bitsOf_add]
  rw [show (256 : Nat) = 2 ^ 8 by rfl, bitsOf_mod, bitsOf_mod, bitsOf_mod, bitsOf_mod]
  rw [Nat.div_div_eq_div_mul, Nat.div_div_eq_div_mul]

/-- the specification reader on an uncompressed meta-block: ISLAST = 0, MNIBBLES code `mn`,
MLEN − 1 = `x`, ISUNCOMPRESSED = 1, padding, payload -/
theorem readMetaBlock_raw (pos mn x : Nat) (c : List Nat) (rest : List Bool)
    (hmn : mn < 3) (hx : x < 2 ^ (4 * (4 + mn))) (hnz : ¬ (4 + mn > 4 ∧ x / 2 ^ (4 * (4 + mn - 1)) = 0))
    (hc : c.length = x + 1) (hb : ∀ b ∈ c, b < 256) :
    readMetaBlock pos (false :: (bitsOf 2 mn ++ (bitsOf (4 * (4 + mn)) x ++ (true ::
        (List.replicate ((8 - (pos + 1 + 2 + 4 * (4 + mn) + 1) % 8) % 8) false ++ (c.flatMap (bitsOf 8) ++ rest))))))
      = some (MetaBlock.raw c,
          pos + 1 + 2 + 4 * (4 + mn) + 1 + (8 - (pos + 1 + 2 + 4 * (4 + mn) + 1) % 8) % 8 + 8 * c.length, rest) := by
  simp only [readMetaBlock, Bool.false_eq_true, if_false]
  rw [takeVal_bitsOf 2 mn _ (by omega)]
  simp only [show ¬ mn = 3 by omega, if_false]
  rw [takeVal_bitsOf (4 * (4 + mn)) x _ hx]
  simp only [hnz, if_false]
  rw [skipPad_pad]
  simp only [← hc]
  rw [takeBytes_bytes c rest hb]
  simp

theorem nibOf_cases (n : Nat) : (nibOf n = 0 ∧ n ≤ 2 ^ 16) ∨ (nibOf n = 1 ∧ 2 ^ 16 < n ∧ n ≤ 2 ^ 20) ∨ (nibOf n = 2 ∧ 2 ^ 20 < n) := by
  simp only [nibOf]
  split
  · split
    · right; right; exact ⟨rfl, by omega⟩
    · right; left; exact ⟨rfl, by omega, by omega⟩
  · left; exact ⟨rfl, by omega⟩

/-- the header bytes of a chunk, as bit fields -/
theorem hdr_bits (n : Nat) (h1 : 1 ≤ n) (h2 : n ≤ 2 ^ 24) :
    (hdrBytes n).flatMap (bitsOf 8) = false :: (bitsOf 2 (nibOf n) ++ (bitsOf (4 * (4 + nibOf n)) (n - 1) ++
      (true :: List.replicate (if nibOf n = 1 then 0 else 4) false))) := by
  rcases nibOf_cases n with ⟨hn, hr⟩ | ⟨hn, hr1, hr2⟩ | ⟨hn, hr⟩
  · simp only [hdrBytes, hn, show ¬ ((0 : Nat) = 2) by decide, show ¬ ((0 : Nat) = 1) by decide, if_false,
      List.append_nil]
    rw [bytes3_bits]
    exact field_bits 16 4 0 (n - 1) (wordOf n) (by decide) (by omega) (by simp [wordOf, hn])
  · simp only [hdrBytes, hn, show ¬ ((1 : Nat) = 2) by decide, if_false, if_true, List.append_nil]
    rw [bytes3_bits]
    exact field_bits 20 0 1 (n - 1) (wordOf n) (by decide) (by omega) (by simp [wordOf, hn])
  · simp only [hdrBytes, hn, show ¬ ((2 : Nat) = 1) by decide, if_false, if_true]
    rw [show [wordOf n % 256, wordOf n / 2 ^ 8 % 256, wordOf n / 2 ^ 16 % 256] ++ [wordOf n / 2 ^ 24 % 256]
        = [wordOf n % 256, wordOf n / 2 ^ 8 % 256, wordOf n / 2 ^ 16 % 256, wordOf n / 2 ^ 24 % 256] by rfl]
    rw [bytes4_bits]
    exact field_bits 24 4 2 (n - 1) (wordOf n) (by decide) (by omega) (by simp [wordOf, hn])

/-- the specification reader on one chunk of the stored stream: header word
(3 or 4 bytes), then the payload, at a byte boundary -/
theorem readMetaBlock_chunk (pos : Nat) (c : List Nat) (rest : List Bool)
    (hp : pos % 8 = 0) (h1 : 1 ≤ c.length) (h2 : c.length ≤ 2 ^ 24) (hb : ∀ b ∈ c, b < 256) :
    readMetaBlock pos ((hdrBytes c.length ++ c).flatMap (bitsOf 8) ++ rest)
      = some (MetaBlock.raw c, pos + 8 * ((hdrBytes c.length).length + c.length), rest) := by
  rw [List.flatMap_append, List.append_assoc, hdr_bits c.length h1 h2]
  have hl := hdrBytes_length c.length
  have hpad : (8 - (pos + 1 + 2 + 4 * (4 + nibOf c.length) + 1) % 8) % 8 = (if nibOf c.length = 1 then 0 else 4) := by
    rcases nibOf_cases c.length with ⟨hn, _⟩ | ⟨hn, _⟩ | ⟨hn, _⟩ <;> rw [hn] <;> simp <;> omega
  have hraw := readMetaBlock_raw pos (nibOf c.length) (c.length - 1) c rest
    (by rcases nibOf_cases c.length with ⟨hn, _⟩ | ⟨hn, _⟩ | ⟨hn, _⟩ <;> omega)
    (by rcases nibOf_cases c.length with ⟨hn, hr⟩ | ⟨hn, hr1, hr2⟩ | ⟨hn, hr⟩ <;> rw [hn] <;> omega)
    (by rcases nibOf_cases c.length with ⟨hn, hr⟩ | ⟨hn, hr1, hr2⟩ | ⟨hn, hr⟩ <;> rw [hn] <;> intro h <;>
          have := h.2 <;> omega)
    (by omega) hb
  rw [hpad] at hraw
  simp only [List.cons_append, List.append_assoc] at hraw ⊢
  rw [hraw]
  congr 3
  rw [hl]
  rcases nibOf_cases c.length with ⟨hn, _⟩ | ⟨hn, _⟩ | ⟨hn, _⟩ <;> rw [hn] <;> simp <;> omega

/-! ## chunks and the exact content of the stored stream -/

/-- the input cut into the chunks `MakeUncompressedStream` stores: 2^24 bytes each, the rest last -/
def chunksOf (l : List Nat) : List (List Nat) :=
  if _h : l.length > 0 then l.take (chunkOf l.length) :: chunksOf (l.drop (chunkOf l.length)) else []
termination_by l.length
decreasing_by have := chunkOf_pos l.length _h; simp; omega

theorem chunksOf_nil : chunksOf [] = [] := by rw [chunksOf]; simp

theorem chunksOf_flatten (l : List Nat) : (chunksOf l).flatten = l := by
  induction hn : l.length using Nat.strongRecOn generalizing l with
  | _ n ih =>
    rw [chunksOf]
    by_cases h : l.length > 0
    · simp only [h, dif_pos, List.flatten_cons]
      have := chunkOf_pos l.length h
      rw [ih (l.drop (chunkOf l.length)).length (by simp; omega) _ rfl]
      exact List.take_append_drop _ _
    · have : l = [] := by
        cases l with
        | nil => rfl
        | cons a t => simp at h
      subst this; simp

theorem chunksOf_spec (l : List Nat) (hb : ∀ b ∈ l, b < 256) :
    ∀ c ∈ chunksOf l, 1 ≤ c.length ∧ c.length ≤ 2 ^ 24 ∧ ∀ b ∈ c, b < 256 := by
  induction hn : l.length using Nat.strongRecOn generalizing l with
  | _ n ih =>
    rw [chunksOf]
    by_cases h : l.length > 0
    · simp only [h, dif_pos, List.mem_cons]
      obtain ⟨c1, c2, c3⟩ := chunkOf_pos l.length h
      intro c hc
      rcases hc with rfl | hc
      · refine ⟨by simp; omega, by simp; omega, fun b hb' => hb b (List.mem_of_mem_take hb')⟩
      · exact ih (l.drop (chunkOf l.length)).length (by simp; omega) _
          (fun b hb' => hb b (List.mem_of_mem_drop hb')) rfl c hc
    · simp [h]

/-- all chunks but the last are exactly 2^24 bytes (the chunking rule) -/
def FullButLast : List (List Nat) → Prop
  | [] => True
  | [_] => True
  | c :: c2 :: rest => c.length = 2 ^ 24 ∧ FullButLast (c2 :: rest)

theorem chunksOf_full (l : List Nat) : FullButLast (chunksOf l) := by
  induction hn : l.length using Nat.strongRecOn generalizing l with
  | _ n ih =>
    rw [chunksOf]
    by_cases h : l.length > 0
    · simp only [h, dif_pos]
      obtain ⟨c1, c2, c3⟩ := chunkOf_pos l.length h
      have ih' := ih (l.drop (chunkOf l.length)).length (by simp; omega) _ rfl
      cases hch : chunksOf (l.drop (chunkOf l.length)) with
      | nil => trivial
      | cons d rest =>
        rw [hch] at ih'
        refine ⟨?_, ih'⟩
        by_cases hbig : l.length > 2 ^ 24
        · have hc : chunkOf l.length = 2 ^ 24 := by simp [chunkOf, hbig]
          simp [hc]; omega
        · exfalso
          have hc : chunkOf l.length = l.length := by simp [chunkOf, hbig]
          rw [hc, List.drop_length, chunksOf_nil] at hch
          cases hch
    · simp [h]; trivial

/-- body bytes of the stored stream for a list of chunks -/
def bodyBytes (cs : List (List Nat)) : List Nat := cs.flatMap (fun c => hdrBytes c.length ++ c)

/-- `musLoop_ok` with the content: the loop appends, for each chunk of the
remaining input, its header bytes and the chunk, then `03` -/
theorem musLoop_content (cap : Nat) (input : List Nat) :
    ∀ (size offset : Nat) (out : List Nat), offset + size ≤ input.length →
      out.length + storedBody size + 1 ≤ cap →
      musLoop cap input size offset out
        = ok (out ++ bodyBytes (chunksOf ((input.drop offset).take size)) ++ [3]) := by
  intro size
  induction size using Nat.strongRecOn with
  | _ size ih =>
    intro offset out hin hcap
    by_cases hs : size > 0
    · obtain ⟨c1, c2, c3⟩ := chunkOf_pos size hs
      have hb : storedBody size = (if nibOf (chunkOf size) = 2 then 4 else 3) + chunkOf size
          + storedBody (size - chunkOf size) := by
        rw [storedBody]; simp [hs]
      have hl := hdrBytes_length (chunkOf size)
      rw [musLoop_step cap input size offset out hs (by rw [hl]; omega) (by omega)]
      rw [ih (size - chunkOf size) (by omega) (offset + chunkOf size) _ (by omega) (by simp [hl]; omega)]
      congr 1
      have hlen : ((input.drop offset).take size).length = size := by simp; omega
      rw [chunksOf.eq_1 ((input.drop offset).take size)]
      simp only [hlen, hs, dif_pos, bodyBytes, List.flatMap_cons]
      have t1 : ((input.drop offset).take size).take (chunkOf size) = (input.drop offset).take (chunkOf size) := by
        rw [List.take_take]; congr 1; omega
      have t2 : ((input.drop offset).take size).drop (chunkOf size)
          = (input.drop (offset + chunkOf size)).take (size - chunkOf size) := by
        rw [List.drop_take, List.drop_drop]
      rw [t1, t2]
      have t3 : ((input.drop offset).take (chunkOf size)).length = chunkOf size := by simp; omega
      rw [t3]
      simp [List.append_assoc]
    · have : size = 0 := by omega
      subst this
      have hb : storedBody 0 = 0 := by rw [storedBody]; simp
      rw [musLoop_zero, push_ok _ _ _ (by omega)]
      simp [chunksOf_nil, bodyBytes]

/-! ## the reader on the whole stream -/

/-- stream header `21` and the metadata padding block `03`: window 10, then an
empty metadata meta-block ending at bit 16 -/
theorem read_preamble (rest : List Bool) :
    readWbits (([33, 3] : List Nat).flatMap (bitsOf 8) ++ rest)
      = some (10, false, false :: (bitsOf 8 3 ++ rest)) ∧
    readMetaBlock 7 (false :: (bitsOf 8 3 ++ rest)) = some (MetaBlock.metadata [], 16, rest) := by
  constructor
  · rfl
  · simp [readMetaBlock, bitsOf, takeVal, valOf, skipPad, takeBytes]

/-- the closing byte `03` at a byte boundary: ISLAST, ISLASTEMPTY, padding -/
theorem read_final (pos : Nat) (hp : pos % 8 = 0) :
    readMetaBlock pos (bitsOf 8 3) = some (MetaBlock.lastEmpty, pos + 8, []) := by
  have hk : (8 - (pos + 1 + 1) % 8) % 8 = 6 := by omega
  simp [readMetaBlock, bitsOf, skipPad, hk]

theorem bodyBytes_cons (c : List Nat) (cs : List (List Nat)) :
    bodyBytes (c :: cs) = hdrBytes c.length ++ c ++ bodyBytes cs := by
  simp [bodyBytes]

/-- the framing reader on the chunks and the closing byte -/
theorem decodeFraming_body : ∀ (cs : List (List Nat)) (pos fuel : Nat), pos % 8 = 0 → cs.length + 1 ≤ fuel →
    (∀ c ∈ cs, 1 ≤ c.length ∧ c.length ≤ 2 ^ 24 ∧ ∀ b ∈ c, b < 256) →
    decodeFraming fuel pos ((bodyBytes cs ++ [3]).flatMap (bitsOf 8))
      = some (cs.map MetaBlock.raw ++ [MetaBlock.lastEmpty]) := by
  intro cs
  induction cs with
  | nil =>
    intro pos fuel hp hf _
    obtain ⟨f, rfl⟩ : ∃ f, fuel = f + 1 := ⟨fuel - 1, by simp at hf; omega⟩
    have : (bodyBytes [] ++ [3]).flatMap (bitsOf 8) = bitsOf 8 3 := by simp [bodyBytes]
    rw [this]
    simp only [decodeFraming, read_final pos hp]
    rfl
  | cons c cs ih =>
    intro pos fuel hp hf hcs
    obtain ⟨f, rfl⟩ : ∃ f, fuel = f + 1 := ⟨fuel - 1, by simp at hf; omega⟩
    obtain ⟨c1, c2, c3⟩ := hcs c (by simp)
    have e : (bodyBytes (c :: cs) ++ [3]).flatMap (bitsOf 8)
        = (hdrBytes c.length ++ c).flatMap (bitsOf 8) ++ (bodyBytes cs ++ [3]).flatMap (bitsOf 8) := by
      rw [bodyBytes_cons]; simp [List.flatMap_append]
    rw [e]
    simp only [decodeFraming, readMetaBlock_chunk pos c _ hp c1 c2 c3]
    rw [ih (pos + 8 * ((hdrBytes c.length).length + c.length)) f (by omega) (by simp at hf ⊢; omega)
      (fun d hd => hcs d (by simp [hd]))]
    rfl

theorem decodeFraming_metadata (f pos : Nat) (bs : List Bool) (pl : List Nat) (pos' : Nat) (r : List Bool)
    (h : readMetaBlock pos bs = some (MetaBlock.metadata pl, pos', r)) :
    decodeFraming (f + 1) pos bs = (decodeFraming f pos' r).map (MetaBlock.metadata pl :: ·) := by
  simp only [decodeFraming, h]

/-- exact bytes of the stored stream of a non-empty input -/
theorem mus_content (x : List Nat) (cap : Nat) (hn : x.length < 2 ^ 54) (h0 : 0 < x.length)
    (hcap : maxCompressedSize x.length ≤ cap) :
    makeUncompressedStream x x.length cap = ok ([33, 3] ++ bodyBytes (chunksOf x) ++ [3]) := by
  obtain ⟨out, h1, h2, h3⟩ := mus_fits x cap hn hcap
  have hne : ¬ x.length = 0 := by omega
  simp only [hne, if_false] at h3
  simp only [makeUncompressedStream, lit, litsMus, BV.Gen.lits_MakeUncompressedStream, List.getD_cons_zero,
    List.getD_cons_succ, hne, if_false]
  rw [push_ok _ _ _ (by simp; omega)]
  simp only [Out.bind]
  rw [push_ok _ _ _ (by simp; omega)]
  simp only []
  rw [musLoop_content cap x x.length 0 _ (by omega) (by simp; omega)]
  simp

end BV.Stored
