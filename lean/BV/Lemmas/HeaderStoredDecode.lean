import BV.Lemmas.HeaderStored
import BV.Lemmas.HeaderStart
