import BV.Lemmas.LedgerEntry
/-!
Slot-emptiness flags of single calls, as rewrite rules (used to evaluate `flagAfter` on the fixed parts
of the entry points, whose calls have symbolic parameters).
-/
namespace BV.Ledger

def opFlag (fl : Flags) (m8 : Nat) (s : Slot) (b : Bool) (op : Op) : Bool := emptyAfterL s b (opActs fl m8 op)

theorem flagAfter_nil (fl : Flags) (m8 : Nat) (s : Slot) (b : Bool) : flagAfter fl m8 s b [] = b := rfl

theorem flagAfter_cons (fl : Flags) (m8 : Nat) (s : Slot) (b : Bool) (op : Op) (ops : List Op) :
    flagAfter fl m8 s b (op :: ops) = flagAfter fl m8 s (opFlag fl m8 s b op) ops := rfl

theorem opFlag_create (fl : Flags) (m8 : Nat) (s : Slot) (b : Bool) (ffi : Bool) :
    opFlag fl m8 s b (.create ffi) = (b && (!ffi || decide (s ≠ .self))) := by
  cases ffi <;> cases s <;> cases b <;> rfl

theorem opFlag_allocMem (fl : Flags) (m8 : Nat) (s : Slot) (b : Bool) :
    opFlag fl m8 s b .allocMem = (b && decide (s ≠ .mem)) := by
  cases s <;> cases b <;> rfl

theorem opFlag_allocInput (fl : Flags) (m8 : Nat) (s : Slot) (b : Bool) :
    opFlag fl m8 s b .allocInput = (b && decide (s ≠ .input)) := by
  cases s <;> cases b <;> rfl

theorem opFlag_freeMem (fl : Flags) (m8 : Nat) (s : Slot) (b : Bool) :
    opFlag fl m8 s b .freeMem = (b || decide (s = .mem)) := by
  cases s <;> cases b <;> rfl

theorem opFlag_freeInput (fl : Flags) (m8 : Nat) (s : Slot) (b : Bool) :
    opFlag fl m8 s b .freeInput = (b || decide (s = .input)) := by
  cases s <;> cases b <;> rfl

theorem opFlag_cleanup (fl : Flags) (m8 : Nat) (s : Slot) (b : Bool) :
    opFlag fl m8 s b .cleanup = (b || s.isField) := by
  cases s <;> cases b <;> rfl

theorem opFlag_ffiDestroy (m8 : Nat) (s : Slot) (b : Bool) :
    opFlag Flags.allTrue m8 s b .ffiDestroy = (b || s.isField || decide (s = .self)) := by
  cases s <;> cases b <;> rfl

theorem opFlag_mkExt (fl : Flags) (m8 : Nat) (s : Slot) (b : Bool) (x : Nat) (xs : List Nat) :
    opFlag fl m8 s b (.mkExt (x :: xs)) = (b && decide (s ≠ .ext)) := by
  cases s <;> cases b <;> simp [opFlag, opActs, emptyAfterL, Act.emptyAfter]

theorem opFlag_oneshotHasher (fl : Flags) (m8 : Nat) (s : Slot) (hs : s.isField = false) (b : Bool) (o : Nat)
    (lens : List Nat) : opFlag fl m8 s b (.oneshotHasher o lens) = b := by
  cases s <;> simp [Slot.isField] at hs <;> cases b <;> rfl

theorem opFlag_setDict (fl : Flags) (m8 : Nat) (s : Slot) (hs : s.isField = false) (ring : Option Nat)
    (hasher : List Nat) : opFlag fl m8 s true (.setDict ring hasher) = true :=
  body_keeps fl m8 s hs _ rfl

theorem opFlag_setDictExt (m8 : Nat) (s : Slot) (hs : s.isField = false) (ring : Option Nat)
    (fresh : List Nat) : opFlag Flags.allTrue m8 s true (.setDictExt ring fresh) = true := by
  by_cases hh : fresh.length = 0 <;> cases hr : ring.isSome <;>
    cases s <;> simp [Slot.isField] at hs <;>
    simp [opFlag, opActs, hasherReplaceActs, ringOpt, ringInitActs, emptyAfterL, Act.emptyAfter, Flags.allTrue, hh, hr]

/-- the pre-computed hasher always leaves the caller's hands -/
theorem opFlag_setDictExt_ext (m8 : Nat) (b : Bool) (ring : Option Nat) (fresh : List Nat) :
    opFlag Flags.allTrue m8 .ext b (.setDictExt ring fresh) = true := by
  by_cases hh : fresh.length = 0 <;> cases hr : ring.isSome <;> cases b <;>
    simp [opFlag, opActs, hasherReplaceActs, ringOpt, ringInitActs, emptyAfterL, Act.emptyAfter, Flags.allTrue, hh, hr]

end BV.Ledger
