/-
Helper definitions and lemmas for C06 `favor_cpu_equiv`: the shared pre-built match index of
`CompressMulti`'s favor-cpu branch against the index a job builds itself, over an ABSTRACT
hasher (`bulk` = `BulkStoreRange(data, usize::MAX, lo, hi)`).
-/
import BV.Lemmas.MultiRange

namespace BV.Lemmas.Multi
open BV.Multi

structure HasherModel (H : Type) where
  /-- `hasher_setup` on an `Uninit` handle -/
  empty : H
  /-- `BulkStoreRange(data, usize::MAX, lo, hi)` -/
  bulk : H → List Nat → Nat → Nat → H

/-- consecutive bulk stores equal one bulk store (C19 `bulk_equals_sequential`; true for every
hasher kind after e2db94a) -/
def Additive {H : Type} (M : HasherModel H) : Prop :=
  ∀ h d a b c, a ≤ b → b ≤ c → M.bulk (M.bulk h d a b) d b c = M.bulk h d a c

/-- storing positions `< hi` reads `data[.. hi + overlap)` only (`overlap = StoreLookahead() − 1`) -/
def Local {H : Type} (M : HasherModel H) (overlap : Nat) : Prop :=
  ∀ h d d' a b, d.take (b + overlap) = d'.take (b + overlap) → M.bulk h d a b = M.bulk h d' a b

/-- the favor loop of `CompressMulti` (after efb0804) for `thread_index = 1 .. j`: returns the
shared hasher as handed to job `j` and `stored_end` -/
def prebuilt {H : Type} (M : HasherModel H) (input : List Nat) (t n overlap : Nat) : Nat → H × Nat
  | 0 => (M.empty, 0)
  | j + 1 =>
    let p := prebuilt M input t n overlap j
    -- `range = get_range(thread_index - 1, ..)` with `thread_index = j + 1`: `range.end = bnd (j+1)`
    if bnd t n (j + 1) > overlap ∧ bnd t n (j + 1) - overlap > p.2 then
      (M.bulk p.1 input p.2 (bnd t n (j + 1) - overlap), bnd t n (j + 1) - overlap)
    else p

/-- the loop as it was before efb0804: one guarded store per RANGE -/
def prebuiltV0 {H : Type} (M : HasherModel H) (input : List Nat) (t n overlap : Nat) : Nat → H
  | 0 => M.empty
  | j + 1 =>
    let h := prebuiltV0 M input t n overlap j
    if bnd t n (j + 1) - bnd t n j > overlap then
      M.bulk h input (if bnd t n j > overlap then bnd t n j - overlap else 0) (bnd t n (j + 1) - overlap)
    else h

/-- what the job builds itself in `set_custom_dictionary…` (`StoreLookaheadThenStore` over the
kept part of its prefix of `size` bytes): positions restart at 0 -/
def selfbuilt {H : Type} (M : HasherModel H) (input : List Nat) (size lgwin quality overlap : Nat) : H :=
  let plan := dictPlan size lgwin quality
  let dict := (input.take size).drop plan.dropped
  if plan.kept > overlap then M.bulk M.empty dict 0 (plan.kept - overlap) else M.empty

/-- closed form of the shared index -/
theorem prebuilt_closed {H : Type} (M : HasherModel H) (hA : Additive M) (input : List Nat) (t n overlap : Nat) :
    ∀ j, prebuilt M input t n overlap j =
      if 0 < j ∧ bnd t n j > overlap then (M.bulk M.empty input 0 (bnd t n j - overlap), bnd t n j - overlap)
      else (M.empty, 0) := by
  intro j
  induction j with
  | zero => simp [prebuilt]
  | succ j ih =>
    have hm : bnd t n j ≤ bnd t n (j + 1) := bnd_mono t n (show j ≤ j + 1 by omega)
    simp only [prebuilt, ih]
    by_cases hj : 0 < j ∧ bnd t n j > overlap
    · rw [if_pos hj]
      dsimp only
      have h1 : 0 < j + 1 ∧ bnd t n (j + 1) > overlap := ⟨by omega, by omega⟩
      rw [if_pos h1]
      by_cases hgt : bnd t n (j + 1) > overlap ∧ bnd t n (j + 1) - overlap > bnd t n j - overlap
      · rw [if_pos hgt, hA _ _ _ _ _ (Nat.zero_le _) (by omega)]
      · rw [if_neg hgt]
        have : bnd t n (j + 1) = bnd t n j := by omega
        rw [this]
    · rw [if_neg hj]
      dsimp only
      by_cases hgt : bnd t n (j + 1) > overlap
      · rw [if_pos ⟨hgt, by omega⟩, if_pos ⟨by omega, hgt⟩]
      · rw [if_neg (by omega), if_neg (by omega)]

end BV.Lemmas.Multi
