import BV.Lemmas.CbrEmit
/-! The loop of `CreateBackwardReferences` over an abstract sound hasher: decoder and encoder stay
in lock step. -/
namespace BV.Cbr
open BV.Hasher BV.MatchFinder BV.Recoder BV.PrefixArith BV.MetaBlock

/-- what `FindLongestMatch` may return at `pos` (window `mbk`, length limit `ml`): the conclusion
of `match_sound_*` with the mask `2^k - 1` applied to both positions -/
def SoundAt (slotOK : DictItem → Prop) (data : ByteArray) (k md pos ml mbk : Nat) (o : SR) : Prop :=
  (0 < o.distance ∧ o.distance ≤ mbk ∧ o.len ≤ ml ∧ o.lenXCode = 0 ∧ (4 ≤ ml → 2 ≤ o.len) ∧
    Agree data ((pos - o.distance) % 2 ^ k) (pos % 2 ^ k) o.len) ∨
  (∃ items, (∀ d ∈ items, d.item ≠ 0 → slotOK d) ∧ DictOK items data (pos % 2 ^ k) ml mbk md o)

/-- the hypotheses on the abstract hasher: `MatchSound` (every `true` result is sound) and
`PrepareDistanceCache` leaves the four real cache entries alone -/
structure OpsOK {H : Type} (slotOK : DictItem → Prop) (ops : HasherOps H) (p : Params) (data : ByteArray) (k : Nat) : Prop where
  sound : ∀ h cache pos ml mbk sr0 o h',
    ops.find h cache pos ml mbk p.maxDistance sr0 = some (true, o, h') → pos < 2 ^ 64 → mbk ≤ pos →
      SoundAt slotOK data k p.maxDistance pos ml mbk o
  prepare : ∀ c c', ops.prepareCache c = some c' → c'.take 4 = c.take 4 ∧ c'.length = c.length
  htl : 4 ≤ ops.hashTypeLength

/-- the context of one meta-block: text `hist ++ mb`, the block starts at position `hist.length` -/
structure Ctx where
  w : WordOracle
  data : ByteArray
  k : Nat
  hist : Bytes
  mb : Bytes
  lo : Nat

/-- encoder state `s` and decoder state `d` describe the same point of the meta-block -/
structure Sync {H : Type} (C : Ctx) (s : St H) (d : DecSt) : Prop where
  out : d.out = C.hist ++ C.mb.take d.cursor
  pos : s.position = C.hist.length + d.cursor + s.insertLength
  le : s.position ≤ C.hist.length + C.mb.length
  ring : d.ring = s.cache.take 4
  cache : CacheI32 s.cache
  clen : 4 ≤ s.cache.length

/-- what the per-command lemma delivers: the decoder executes the command and ends `ins + len`
bytes further, with the ring equal to the new cache -/
def EmitGood (C : Ctx) (p : Params) (d : DecSt) (pos ins : Nat) (sr : SR) (cache : List Int)
    (Good : Cmd → Prop) : Prop :=
  ∃ cmd cache' d', emitCommand p.npostfix p.ndirect pos (maxBackwardLimit p) ins sr cache = some (cmd, cache') ∧
    decStep C.w p.npostfix p.ndirect (maxBackwardLimit p) C.mb d cmd = some d' ∧
    d'.out = C.hist ++ C.mb.take d'.cursor ∧ d'.cursor = d.cursor + ins + sr.len ∧
    d'.ring = cache'.take 4 ∧ CacheI32 cache' ∧ 4 ≤ cache'.length ∧
    cmd.insertLen = ins ∧ copyLen cmd = sr.len ∧ sr.len ≠ 0 ∧ Good cmd

theorem emit_inv {H : Type} {slotOK : DictItem → Prop} {ops : HasherOps H} {p : Params} {data : ByteArray} {k : Nat}
    (hops : OpsOK slotOK ops p data k) {position ins : Nat} {sr : SR} {cache cache2 : List Int} {cmd : Cmd}
    (h : emit ops p position ins sr cache = some (cmd, cache2)) :
    ∃ cache', emitCommand p.npostfix p.ndirect position (maxBackwardLimit p) ins sr cache = some (cmd, cache') ∧
      cache2.take 4 = cache'.take 4 ∧ cache2.length = cache'.length := by
  unfold emit at h
  simp only [] at h
  cases he : emitCommand p.npostfix p.ndirect position (maxBackwardLimit p) ins sr cache with
  | none => simp only [he] at h; cases h
  | some r =>
    obtain ⟨cmd1, cache1⟩ := r
    cases hc : computeDistanceCode sr.distance (min position (maxBackwardLimit p)) cache with
    | none => simp only [he, hc] at h; cases h
    | some code =>
      simp only [he, hc] at h
      by_cases hu : sr.distance ≤ min position (maxBackwardLimit p) ∧ code > 0
      · rw [if_pos hu] at h
        cases hp : ops.prepareCache cache1 with
        | none => simp only [hp] at h; cases h
        | some c2 =>
          simp only [hp, Option.some.injEq, Prod.mk.injEq] at h
          obtain ⟨rfl, rfl⟩ := h
          obtain ⟨a, b⟩ := hops.prepare _ _ hp
          exact ⟨cache1, rfl, a, b⟩
      · rw [if_neg hu] at h
        simp only [Option.some.injEq, Prod.mk.injEq] at h
        obtain ⟨rfl, rfl⟩ := h
        exact ⟨cache1, rfl, rfl, rfl⟩

theorem cacheI32_of_take {c c' : List Int} (h : c'.take 4 = c.take 4) (hc : CacheI32 c) : CacheI32 c' := by
  intro x hx; rw [h] at hx; exact hc x hx

/-- the skip-ahead after a miss keeps `position - insert_length` and stays inside the block -/
theorem skipAhead_inv {H : Type} {ops : HasherOps H} {p : Params} {posEnd : Nat} {s s' : St H}
    (h : skipAhead ops p posEnd s = some s') (hle : s.position ≤ posEnd) :
    s'.position ≤ posEnd ∧ s.position ≤ s'.position ∧
      s'.position - s.position = s'.insertLength - s.insertLength ∧ s.insertLength ≤ s'.insertLength ∧
      s'.cache = s.cache := by
  unfold skipAhead at h
  by_cases h1 : s.position > s.applyRandom
  · rw [if_pos h1] at h
    simp only [] at h
    by_cases h2 : s.position + 16 ≥ posEnd - max (ops.storeLookahead - 1) 4
    · rw [if_pos h2] at h
      injection h with h; subst h
      exact ⟨Nat.le_refl _, hle, by simp only []; omega, by simp only []; omega, rfl⟩
    · rw [if_neg h2] at h
      by_cases h3 : s.position > s.applyRandom + 4 * literalSpree p
      · rw [if_pos h3] at h
        cases hs : ops.store4Vec4 s.h s.position with
        | none => simp only [hs] at h; cases h
        | some h' =>
          simp only [hs, Option.some.injEq] at h; subst h
          exact ⟨by simp only []; omega, by simp only []; omega, by simp only []; omega, by simp only []; omega, rfl⟩
      · rw [if_neg h3] at h
        cases hs : ops.storeEvenVec4 s.h s.position with
        | none => simp only [hs] at h; cases h
        | some h' =>
          simp only [hs, Option.some.injEq] at h; subst h
          exact ⟨by simp only []; omega, by simp only []; omega, by simp only []; omega, by simp only []; omega, rfl⟩
  · rw [if_neg h1] at h
    injection h with h; subst h
    exact ⟨hle, Nat.le_refl _, by omega, Nat.le_refl _, rfl⟩

/-- the lazy-matching loop returns a result that was found (soundly) at the returned position -/
theorem lazyLoop_inv {H : Type} {slotOK : DictItem → Prop} {ops : HasherOps H} {p : Params} {data : ByteArray} {k : Nat}
    (hops : OpsOK slotOK ops p data k) (posEnd : Nat) (cache : List Int) (h64 : posEnd < 2 ^ 64) :
    ∀ (fuel delayed : Nat) (h : H) (position ins : Nat) (sr : SR) (h' : H) (pos' ins' : Nat) (sr' : SR),
      lazyLoop ops p posEnd cache fuel delayed h position ins (posEnd - position - 1) sr = some (h', pos', ins', sr') →
      position + ops.hashTypeLength < posEnd →
      SoundAt slotOK data k p.maxDistance position (posEnd - position) (min position (maxBackwardLimit p)) sr →
      SoundAt slotOK data k p.maxDistance pos' (posEnd - pos') (min pos' (maxBackwardLimit p)) sr' ∧
        pos' + 4 ≤ posEnd ∧ position ≤ pos' ∧ pos' - position = ins' - ins ∧ ins ≤ ins' := by
  intro fuel
  induction fuel with
  | zero =>
    intro delayed h position ins sr h' pos' ins' sr' hl hlt hs
    rw [lazyLoop] at hl
    injection hl with hl
    simp only [Prod.mk.injEq] at hl
    obtain ⟨_, rfl, rfl, rfl⟩ := hl
    have := hops.htl
    exact ⟨hs, by omega, Nat.le_refl _, by omega, Nat.le_refl _⟩
  | succ fuel ih =>
    intro delayed h position ins sr h' pos' ins' sr' hl hlt hs
    have hh := hops.htl
    rw [lazyLoop] at hl
    cases hf : ops.find h cache (position + 1) (posEnd - position - 1)
        (min (position + 1) (maxBackwardLimit p)) p.maxDistance
        ⟨if p.quality < 5 then min (sr.len - 1) (posEnd - position - 1) else 0, 0, 0, kMinScore⟩ with
    | none => simp only [hf] at hl; cases hl
    | some r =>
      obtain ⟨found, sr2, h2⟩ := r
      simp only [hf] at hl
      by_cases hacc : found = true ∧ sr2.score ≥ (sr.score + costDiffLazy) % U64
      · rw [if_pos hacc] at hl
        have hfound : found = true := hacc.1
        subst hfound
        have hs2 : SoundAt slotOK data k p.maxDistance (position + 1) (posEnd - (position + 1))
            (min (position + 1) (maxBackwardLimit p)) sr2 := by
          have := hops.sound _ _ _ _ _ _ _ _ hf (by omega) (Nat.min_le_left _ _)
          rwa [show posEnd - position - 1 = posEnd - (position + 1) by omega] at this
        by_cases hcont : delayed + 1 < 4 ∧ position + 1 + ops.hashTypeLength < posEnd
        · rw [if_pos hcont] at hl
          have hl' : lazyLoop ops p posEnd cache fuel (delayed + 1) h2 (position + 1) (ins + 1)
              (posEnd - (position + 1) - 1) sr2 = some (h', pos', ins', sr') := by
            rwa [show posEnd - (position + 1) - 1 = posEnd - position - 1 - 1 by omega]
          obtain ⟨a, b, c, d, e⟩ := ih (delayed + 1) h2 (position + 1) (ins + 1) sr2 h' pos' ins' sr' hl'
            hcont.2 hs2
          exact ⟨a, b, by omega, by omega, by omega⟩
        · rw [if_neg hcont] at hl
          simp only [Option.some.injEq, Prod.mk.injEq] at hl
          obtain ⟨_, rfl, rfl, rfl⟩ := hl
          exact ⟨hs2, by omega, by omega, by omega, by omega⟩
      · rw [if_neg hacc] at hl
        simp only [Option.some.injEq, Prod.mk.injEq] at hl
        obtain ⟨_, rfl, rfl, rfl⟩ := hl
        exact ⟨hs, by omega, Nat.le_refl _, by omega, Nat.le_refl _⟩

theorem soundAt_len {slotOK : DictItem → Prop} {data : ByteArray} {k md pos ml mbk : Nat} {o : SR}
    (h : SoundAt slotOK data k md pos ml mbk o) : o.len ≤ ml := by
  rcases h with ⟨_, _, h3, _, _, _⟩ | ⟨items, _, d, _, _, h2, h3, _⟩
  · exact h3
  · exact Nat.le_trans h2 h3

/-- the per-command obligation (discharged in BV/Lemmas/CbrEmit.lean / CbrDict.lean) -/
def EmitHyp (slotOK : DictItem → Prop) (C : Ctx) (p : Params) (Good : Cmd → Prop) : Prop :=
  ∀ (d : DecSt) (pos ins : Nat) (sr : SR) (cache : List Int),
    d.out = C.hist ++ C.mb.take d.cursor → pos = C.hist.length + d.cursor + ins →
    pos + 4 ≤ C.hist.length + C.mb.length → d.ring = cache.take 4 → CacheI32 cache → 4 ≤ cache.length →
    SoundAt slotOK C.data C.k p.maxDistance pos (C.hist.length + C.mb.length - pos) (min pos (maxBackwardLimit p)) sr →
    EmitGood C p d pos ins sr cache Good

/-- what one iteration does to the pair (encoder state, decoder state) -/
def StepGood {H : Type} (C : Ctx) (p : Params) (Good : Cmd → Prop) (d : DecSt) (oc : Option Cmd) (s' : St H) : Prop :=
  match oc with
  | none => Sync C s' d
  | some cmd => ∃ d', decStep C.w p.npostfix p.ndirect (maxBackwardLimit p) C.mb d cmd = some d' ∧ Sync C s' d' ∧
      d.cursor + cmd.insertLen ≠ C.mb.length ∧ copyLen cmd ≠ 0 ∧
      d'.cursor = d.cursor + cmd.insertLen + copyLen cmd ∧ Good cmd

theorem stepEmit_inv {H : Type} {slotOK : DictItem → Prop} {ops : HasherOps H} {p : Params} {C : Ctx} {Good : Cmd → Prop}
    (hops : OpsOK slotOK ops p C.data C.k) (hemit : EmitHyp slotOK C p Good) {storeEnd : Nat} {s s' : St H} {h : H}
    {d : DecSt} {oc : Option Cmd} {pos ins : Nat} {sr : SR}
    (hsync : Sync C s d) (hpos : pos = C.hist.length + d.cursor + ins) (hlt : pos + 4 ≤ C.hist.length + C.mb.length)
    (hs : SoundAt slotOK C.data C.k p.maxDistance pos (C.hist.length + C.mb.length - pos) (min pos (maxBackwardLimit p)) sr)
    (hst : stepEmit ops p storeEnd s h pos ins sr = some (oc, s')) : StepGood C p Good d oc s' := by
  unfold stepEmit at hst
  cases he : emit ops p pos ins sr s.cache with
  | none => simp only [he] at hst; cases hst
  | some r =>
    obtain ⟨cmd, cache2⟩ := r
    simp only [he] at hst
    cases hr : ops.storeRange h (pos + 2) (min (pos + sr.len) storeEnd) with
    | none => simp only [hr] at hst; cases hst
    | some h2 =>
      simp only [hr, Option.some.injEq, Prod.mk.injEq] at hst
      obtain ⟨rfl, rfl⟩ := hst
      obtain ⟨cache', hec, ht4, hlen2⟩ := emit_inv hops he
      obtain ⟨cmd', cache'', d', e1, e2, e3, e4, e5, e6, e7, e8, e9, e10, e11⟩ :=
        hemit d pos ins sr s.cache hsync.out hpos hlt hsync.ring hsync.cache hsync.clen hs
      rw [hec] at e1
      simp only [Option.some.injEq, Prod.mk.injEq] at e1
      obtain ⟨rfl, rfl⟩ := e1
      have hl := soundAt_len hs
      refine ⟨d', e2, ⟨e3, ?_, ?_, ?_, ?_, ?_⟩, ?_, ?_, ?_, e11⟩
      · simp only []; omega
      · simp only []; omega
      · simp only []; rw [e5, ht4]
      · exact cacheI32_of_take ht4 e6
      · simp only []; omega
      · rw [e8]; omega
      · rw [e9]; exact e10
      · rw [e8, e9]; exact e4

theorem step_inv {H : Type} {slotOK : DictItem → Prop} {ops : HasherOps H} {p : Params} {C : Ctx} {Good : Cmd → Prop}
    (hops : OpsOK slotOK ops p C.data C.k) (hemit : EmitHyp slotOK C p Good) {storeEnd : Nat} {s s' : St H}
    {d : DecSt} {oc : Option Cmd} (h64 : C.hist.length + C.mb.length < 2 ^ 64)
    (hsync : Sync C s d) (hlt : s.position + ops.hashTypeLength < C.hist.length + C.mb.length)
    (hst : step ops p (C.hist.length + C.mb.length) storeEnd s = some (oc, s')) : StepGood C p Good d oc s' := by
  unfold step at hst
  cases hf : ops.find s.h s.cache s.position (C.hist.length + C.mb.length - s.position)
      (min s.position (maxBackwardLimit p)) p.maxDistance ⟨0, 0, 0, kMinScore⟩ with
  | none => simp only [hf] at hst; cases hst
  | some r =>
    obtain ⟨found, sr, h1⟩ := r
    cases found with
    | false =>
      simp only [hf] at hst
      unfold stepMiss at hst
      cases hsk : skipAhead ops p (C.hist.length + C.mb.length)
          { s with h := h1, insertLength := s.insertLength + 1, position := s.position + 1 } with
      | none => simp only [hsk] at hst; cases hst
      | some s2 =>
        simp only [hsk, Option.some.injEq, Prod.mk.injEq] at hst
        obtain ⟨rfl, rfl⟩ := hst
        obtain ⟨a, b, c, e, f⟩ := skipAhead_inv hsk (by simp only []; omega)
        simp only [] at a b c e f
        have hp := hsync.pos
        exact ⟨hsync.out, by omega, a, by rw [f]; exact hsync.ring, by rw [f]; exact hsync.cache,
          by rw [f]; exact hsync.clen⟩
    | true =>
      simp only [hf] at hst
      unfold stepFound at hst
      have hs0 := hops.sound _ _ _ _ _ _ _ _ hf (by omega) (Nat.min_le_left _ _)
      cases hl : lazyLoop ops p (C.hist.length + C.mb.length) s.cache 4 0 h1 s.position s.insertLength
          (C.hist.length + C.mb.length - s.position - 1) sr with
      | none => simp only [hl] at hst; cases hst
      | some r2 =>
        obtain ⟨h2, pos2, ins2, sr2⟩ := r2
        simp only [hl] at hst
        obtain ⟨a, b, c, e, f⟩ := lazyLoop_inv hops _ s.cache h64 4 0 h1 s.position s.insertLength sr h2 pos2 ins2 sr2
          hl hlt hs0
        have hp := hsync.pos
        have hl2 := soundAt_len a
        exact stepEmit_inv hops hemit hsync (by omega) b a hst

/-- `lockstep` across one executed copy command -/
theorem lockstep_cons (w : WordOracle) (np nd window : Nat) (mb : Bytes) (d d' : DecSt) (c : Cmd) (cs : List Cmd)
    (hd : decStep w np nd window mb d c = some d') (hne : d.cursor + c.insertLen ≠ mb.length)
    (hcl : copyLen c ≠ 0) (hcur : d'.cursor = d.cursor + c.insertLen + copyLen c) :
    lockstep w np nd window mb d d.cursor (c :: cs) = lockstep w np nd window mb d' d'.cursor cs := by
  rw [lockstep]
  simp only [hd, decide_true, Bool.true_and, if_neg hne, hcl, ne_eq, not_false_eq_true, hcur]

/-- the whole loop: the decoder follows, every emitted command is good, and `lockstep` of the
emitted commands followed by any tail reduces to `lockstep` of the tail from the reached state -/
theorem loop_lockstep {H : Type} {slotOK : DictItem → Prop} {ops : HasherOps H} {p : Params} {C : Ctx} {Good : Cmd → Prop}
    (hops : OpsOK slotOK ops p C.data C.k) (hemit : EmitHyp slotOK C p Good) (storeEnd : Nat)
    (h64 : C.hist.length + C.mb.length < 2 ^ 64) :
    ∀ (fuel : Nat) (s s' : St H) (d : DecSt) (cmds : List Cmd),
      loop ops p (C.hist.length + C.mb.length) storeEnd fuel s = some (cmds, s') → Sync C s d →
      ∃ d', Sync C s' d' ∧ (∀ c ∈ cmds, Good c) ∧
        decSteps C.w p.npostfix p.ndirect (maxBackwardLimit p) C.mb d cmds = some d' ∧
        ∀ tail, lockstep C.w p.npostfix p.ndirect (maxBackwardLimit p) C.mb d d.cursor (cmds ++ tail)
          = lockstep C.w p.npostfix p.ndirect (maxBackwardLimit p) C.mb d' d'.cursor tail := by
  intro fuel
  induction fuel with
  | zero =>
    intro s s' d cmds h hs
    rw [loop] at h
    simp only [Option.some.injEq, Prod.mk.injEq] at h
    obtain ⟨rfl, rfl⟩ := h
    exact ⟨d, hs, fun c hc => (by cases hc), rfl, fun tail => rfl⟩
  | succ fuel ih =>
    intro s s' d cmds h hs
    rw [loop] at h
    by_cases hcond : s.position + ops.hashTypeLength < C.hist.length + C.mb.length
    · rw [if_pos hcond] at h
      cases hst : step ops p (C.hist.length + C.mb.length) storeEnd s with
      | none => simp only [hst] at h; cases h
      | some r =>
        obtain ⟨oc, s1⟩ := r
        simp only [hst] at h
        cases hl : loop ops p (C.hist.length + C.mb.length) storeEnd fuel s1 with
        | none => simp only [hl] at h; cases h
        | some r2 =>
          obtain ⟨cs, s2⟩ := r2
          simp only [hl, Option.some.injEq, Prod.mk.injEq] at h
          obtain ⟨rfl, rfl⟩ := h
          have hg := step_inv hops hemit h64 hs hcond hst
          cases oc with
          | none =>
            obtain ⟨d', a, b, ds, c⟩ := ih s1 s2 d cs hl hg
            exact ⟨d', a, by simpa using b, by simpa using ds, fun tail => by simpa using c tail⟩
          | some cmd =>
            obtain ⟨d1, e1, e2, e3, e4, e5, e6⟩ := hg
            obtain ⟨d', a, b, ds, c⟩ := ih s1 s2 d1 cs hl e2
            refine ⟨d', a, ?_, ?_, fun tail => ?_⟩
            · intro x hx
              simp only [Option.toList, List.singleton_append, List.mem_cons] at hx
              rcases hx with rfl | hx
              · exact e6
              · exact b x hx
            · simp only [Option.toList, List.singleton_append, decSteps, e1]
              exact ds
            · simp only [Option.toList, List.singleton_append, List.cons_append]
              rw [lockstep_cons _ _ _ _ _ d d1 cmd _ e1 e3 e4 e5]
              exact c tail
    · rw [if_neg hcond] at h
      simp only [Option.some.injEq, Prod.mk.injEq] at h
      obtain ⟨rfl, rfl⟩ := h
      exact ⟨d, hs, fun c hc => (by cases hc), rfl, fun tail => rfl⟩

theorem decSteps_append (w : WordOracle) (np nd window : Nat) (mb : Bytes) :
    ∀ (xs ys : List Cmd) (d d' : DecSt), decSteps w np nd window mb d xs = some d' →
      decSteps w np nd window mb d (xs ++ ys) = decSteps w np nd window mb d' ys := by
  intro xs
  induction xs with
  | nil => intro ys d d' h; simp only [decSteps, Option.some.injEq] at h; subst h; rfl
  | cons x xs ih =>
    intro ys d d' h
    simp only [decSteps, List.cons_append] at h ⊢
    cases hx : decStep w np nd window mb d x with
    | none => simp only [hx] at h; cases h
    | some d1 => simp only [hx] at h ⊢; exact ih ys d1 d' h

theorem copyLen_initInsert (l : Nat) : copyLen (initInsert l) = 0 := by
  simp only [copyLen, initInsert]; decide

/-- the closing insert-only command: the decoder takes the remaining bytes as literals -/
theorem lockstep_close (w : WordOracle) (np nd window : Nat) (hist mb : Bytes) (d : DecSt)
    (hout : d.out = hist ++ mb.take d.cursor) (hle : d.cursor ≤ mb.length) (h24 : mb.length < 2 ^ 32) :
    lockstep w np nd window mb d d.cursor (closeMetaBlock [] (mb.length - d.cursor)) = true ∧
    (decSteps w np nd window mb d (closeMetaBlock [] (mb.length - d.cursor))).map (·.out) = some (hist ++ mb) := by
  unfold closeMetaBlock
  by_cases hl : mb.length - d.cursor > 0
  · rw [if_pos hl]
    simp only [List.nil_append]
    rw [lockstep]
    have hU : U32 = 4294967296 := rfl
    have hins : (initInsert (mb.length - d.cursor)).insertLen = mb.length - d.cursor := by
      simp only [initInsert]; exact Nat.mod_eq_of_lt (by omega)
    have hdec : decStep w np nd window mb d (initInsert (mb.length - d.cursor))
        = some { d with out := d.out ++ (mb.drop d.cursor).take (mb.length - d.cursor), cursor := mb.length } := by
      unfold decStep
      simp only [hins]
      rw [if_neg (by omega), if_neg (by omega), if_pos (by omega)]
      congr 2
      omega
    refine ⟨?_, ?_⟩
    · simp only [hdec, decide_true, Bool.true_and, hins]
      rw [if_pos (by omega)]
      simp [copyLen_initInsert]
    · simp only [decSteps, hdec, Option.map_some, Option.some.injEq]
      rw [hout, out_extend, show d.cursor + (mb.length - d.cursor) = mb.length by omega, List.take_length]
  · rw [if_neg hl]
    refine ⟨?_, ?_⟩
    · rw [lockstep]
      simp only [decide_true, Bool.true_and, decide_eq_true_eq]
      omega
    · simp only [decSteps, Option.map_some, Option.some.injEq]
      rw [hout, show d.cursor = mb.length by omega, List.take_length]

/-- **CreateBackwardReferences keeps encoder and decoder in lock step** (abstract hasher):
the commands of one call over a whole meta-block (`mb` = the `last_insert_len` pending literals
followed by the `num_bytes` of the block, text before it = `hist`), closed with the insert-only
command for the trailing literals, satisfy `lockstep`, and every one of them is `Good`. -/
theorem cbr_lockstep {H : Type} {slotOK : DictItem → Prop} {ops : HasherOps H} {p : Params} {C : Ctx} {Good : Cmd → Prop}
    (hops : OpsOK slotOK ops p C.data C.k) (hemit : EmitHyp slotOK C p Good)
    (hgi : ∀ l, 0 < l → l ≤ C.mb.length → Good (initInsert l))
    (numBytes position : Nat) (h0 : H) (cache : List Int) (lastInsertLen numLiterals : Nat)
    (res : Result H)
    (hpos : position = C.hist.length + lastInsertLen) (hmb : C.mb.length = lastInsertLen + numBytes)
    (h32 : C.mb.length < 2 ^ 32) (h64 : C.hist.length + C.mb.length < 2 ^ 64)
    (hc : CacheI32 cache) (hcl : 4 ≤ cache.length)
    (h : createBackwardReferences ops p numBytes position h0 cache lastInsertLen numLiterals = some res) :
    lockstep C.w p.npostfix p.ndirect (maxBackwardLimit p) C.mb ⟨C.hist, cache.take 4, 0⟩ 0
        (closeMetaBlock res.cmds res.lastInsertLen) = true ∧
      (∀ c ∈ closeMetaBlock res.cmds res.lastInsertLen, Good c) ∧
      replayCommands C.w p.npostfix p.ndirect (maxBackwardLimit p) C.mb (cache.take 4) C.hist
        (closeMetaBlock res.cmds res.lastInsertLen) = some (C.hist ++ C.mb) := by
  unfold createBackwardReferences at h
  simp only [] at h
  cases hp : ops.prepareCache cache with
  | none => simp only [hp] at h; cases h
  | some cache1 =>
    simp only [hp] at h
    have hpe : position + numBytes = C.hist.length + C.mb.length := by omega
    rw [hpe] at h
    cases hl : loop ops p (C.hist.length + C.mb.length)
        (if numBytes ≥ ops.storeLookahead then C.hist.length + C.mb.length - ops.storeLookahead + 1 else position)
        (numBytes + 1) ⟨h0, position, lastInsertLen, position + literalSpree p, cache1, numLiterals⟩ with
    | none => simp only [hl] at h; cases h
    | some r =>
      obtain ⟨cmds, s'⟩ := r
      simp only [hl, Option.some.injEq] at h
      subst h
      obtain ⟨pt, plen⟩ := hops.prepare _ _ hp
      have hs0 : Sync C (⟨h0, position, lastInsertLen, position + literalSpree p, cache1, numLiterals⟩ : St H)
          ⟨C.hist, cache.take 4, 0⟩ :=
        ⟨by simp, by simp only []; omega, by simp only []; omega, by simp only []; exact pt.symm,
          cacheI32_of_take pt hc, by simp only []; omega⟩
      obtain ⟨d', hs', hgood, hds, hls⟩ := loop_lockstep hops hemit _ h64 _ _ _ _ _ hl hs0
      have hlast : s'.insertLength + (C.hist.length + C.mb.length - s'.position) = C.mb.length - d'.cursor := by
        have := hs'.pos; have := hs'.le; omega
      have hdle : d'.cursor ≤ C.mb.length := by have := hs'.pos; have := hs'.le; omega
      simp only [hlast]
      obtain ⟨hclose, hcdec⟩ := lockstep_close C.w p.npostfix p.ndirect (maxBackwardLimit p) C.hist C.mb d' hs'.out hdle h32
      have hsplit : closeMetaBlock cmds (C.mb.length - d'.cursor)
          = cmds ++ closeMetaBlock [] (C.mb.length - d'.cursor) := by
        unfold closeMetaBlock; split <;> simp
      refine ⟨?_, ?_, ?_⟩
      · rw [hsplit]
        have := hls (closeMetaBlock [] (C.mb.length - d'.cursor))
        simp only [] at this
        rw [this]; exact hclose
      rotate_left
      · unfold replayCommands
        rw [hsplit, decSteps_append _ _ _ _ _ _ _ _ _ hds]
        exact hcdec
      · intro c hcm
        rw [hsplit] at hcm
        rcases List.mem_append.mp hcm with h1 | h2
        · exact hgood c h1
        · unfold closeMetaBlock at h2
          by_cases hl0 : C.mb.length - d'.cursor > 0
          · rw [if_pos hl0] at h2
            simp only [List.nil_append, List.mem_singleton] at h2
            subst h2
            exact hgi _ hl0 (Nat.sub_le _ _)
          · rw [if_neg hl0] at h2; cases h2

end BV.Cbr
