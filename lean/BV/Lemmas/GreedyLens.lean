/-
C01 / greedy builder, part 15: the block lengths of a finished splitter — every block has at least `min_block_size`
symbols on record, and together they cover the symbol count with a padding of at most `min_block_size` (the final
`FinishBlock` raises a short last block to `min_block_size`; the padding sits in the LAST block only).
-/
import BV.Lemmas.GreedyResult

namespace BV.Greedy
open BV.Bits BV.Recoder BV.MetaBlock

theorem toSplit_lengths {F : Type} {N A K HH : Nat} {s : BS F} {rb : List Blk} {slack : Nat}
    (h : Inv N A K HH s rb [] slack) (hne : rb ≠ []) (hnb : s.splitNumBlocks = rb.length) :
    s.toSplit.lengths.sum = (flat rb).length + slack ∧ slack ≤ s.minBlockSize ∧
      ∀ l ∈ s.toSplit.lengths, s.minBlockSize ≤ l := by
  have hL : s.toSplit.lengths = (rb.map (fun b => b.len)).reverse := by
    show s.lengths.take s.splitNumBlocks = _; rw [hnb]; exact h.lensEq
  refine ⟨?_, h.slackLe, ?_⟩
  · rw [hL, List.sum_reverse, lens_sum h hne, flat_length]
  · intro l hl
    rw [hL] at hl
    simp only [List.mem_reverse, List.mem_map] at hl
    obtain ⟨b, hb, rfl⟩ := hl
    exact h.chunkMin b hb

end BV.Greedy
