/-
The CONCRETE match-index kinds (BV/Model/Hasher.lean: `BasicHasher` H2/H3/H4/H54, `AdvHasher`
H5/H5q5/H5q7/H6, `H9`) as instances of the abstract `HasherModel` of BV/Lemmas/MultiFavor.lean, and
the two facts C06 `favor_cpu_equiv` needs of `BulkStoreRange(data, usize::MAX, lo, hi)`:

* ADDITIVE over consecutive ranges — from C19 (`BulkStoreRange` = the fold of `Store`) and
  `forRange_add`;
* LOCAL: storing positions `< hi` reads `data[.. hi + StoreLookahead() − 1)` only — because `Store`
  at position `ix` reads the window `[ix & mask, (ix & mask) + StoreLookahead())` and nothing else
  of the buffer (`Basic.store_local`, `Adv.store_local`, `H9.store_local`).

An index is an `Option`: `none` = the Rust code panicked (slice index / `split_at`); a panicked
index stays panicked (`liftBulk`).  So every equation below also says that the two sides panic
together.  The input of the abstract interface is a `List Nat` (bytes); `toBA` makes it the
`ByteArray` of the hasher model.

Also here: the generalisation of `prebuilt_closed` / `favor_cpu_equiv` to hashers whose additivity
is only known FROM THE EMPTY INDEX and for positions up to a bound (`AdditiveFrom`, `LocalFrom`):
the `AdvHasher` fold theorem needs the table-size invariant (true of the constructor's tables, kept
by `Store`) and positions `≤ 2^64` (they are `usize`s).
-/
import BV.Lemmas.MultiFavor
import BV.Lemmas.HasherMisc

namespace BV.Lemmas.Multi
open BV.Multi BV.Hasher

/-! ## bytes -/

/-- a byte list as the hasher model's buffer (`x as u8`) -/
def toBA (l : List Nat) : ByteArray := ByteArray.mk (l.map Nat.toUInt8).toArray

theorem toBA_size (l : List Nat) : (toBA l).size = l.length := by
  simp [toBA, ByteArray.size]

theorem toBA_get_take (l : List Nat) (k i : Nat) (h : i < k) :
    (toBA (l.take k)).get! i = (toBA l).get! i := by
  simp only [toBA, ByteArray.get!]
  simp [h]

/-- a window that ends at or before `k` sees only the first `k` bytes — including whether it
exists (a read past the end of the slice panics) -/
theorem win_take (l : List Nat) (k p n : Nat) (h : p + n ≤ k) :
    win (toBA (l.take k)) p n = win (toBA l) p n := by
  unfold win
  rw [toBA_size, toBA_size, List.length_take]
  by_cases hl : p + n ≤ l.length
  · rw [if_pos (by omega), if_pos hl]
    congr 1
    apply List.map_congr_left
    intro j hj
    simp only [List.mem_range] at hj
    rw [toBA_get_take l k (p + j) (by omega)]
  · rw [if_neg (by omega), if_neg hl]

/-- two buffers give the same windows (same bytes, same panics) below `k` -/
def Agree (d d' : ByteArray) (k : Nat) : Prop := ∀ p n, p + n ≤ k → win d p n = win d' p n

theorem agree_of_take {l l' : List Nat} {k : Nat} (h : l.take k = l'.take k) :
    Agree (toBA l) (toBA l') k := by
  intro p n hpn
  rw [← win_take l k p n hpn, ← win_take l' k p n hpn, h]

/-! ## `Store` at position `ix` reads `[ix & mask, (ix & mask) + StoreLookahead())` only -/

theorem Basic.store_local {P : BasicP} {d d' : ByteArray} {mask ix k : Nat} (h : Agree d d' k)
    (hk : (ix &&& mask) + 8 ≤ k) (b : Tab) : Basic.store P d mask ix b = Basic.store P d' mask ix b := by
  unfold Basic.store Basic.hashAt
  rw [h _ _ hk]

theorem Adv.store_local {P : AdvP} {d d' : ByteArray} {mask ix k : Nat} (h : Agree d d' k)
    (hk : (ix &&& mask) + P.lookahead ≤ k) (st : AdvSt) :
    Adv.store P d mask ix st = Adv.store P d' mask ix st := by
  unfold Adv.store Adv.hashAt
  rw [h _ _ hk]

theorem H9.store_local {P : H9P} {d d' : ByteArray} {mask ix k : Nat} (h : Agree d d' k)
    (hk : (ix &&& mask) + 4 ≤ k) (st : AdvSt) : H9.store P d mask ix st = H9.store P d' mask ix st := by
  unfold H9.store
  rw [h _ _ hk]

/-! ## lifting a panicking bulk store to the abstract interface -/

/-- `BulkStoreRange(data, usize::MAX, lo, hi)` on a possibly panicked index -/
def liftBulk {σ : Type} (bulk : ByteArray → Nat → Nat → Nat → σ → Option σ) :
    Option σ → List Nat → Nat → Nat → Option σ :=
  fun h d lo hi => h.bind (bulk (toBA d) USIZE_MAX lo hi)

/-- a bulk store that is the fold of a per-position store (on the states satisfying an invariant
the store keeps, for positions up to `bound`) is additive over consecutive ranges -/
theorem liftBulk_additive {σ : Type} {bulk : ByteArray → Nat → Nat → Nat → σ → Option σ}
    {store : ByteArray → Nat → σ → Option σ} {I : σ → Prop} {bound : Nat}
    (hfold : ∀ d s e st, I st → e ≤ bound → bulk d USIZE_MAX s e st = forRange (store d) s (e - s) st)
    (hI : ∀ d i x y, I x → store d i x = some y → I y)
    (h : Option σ) (hh : ∀ x, h = some x → I x) (d : List Nat) (a b c : Nat)
    (hab : a ≤ b) (hbc : b ≤ c) (hc : c ≤ bound) :
    liftBulk bulk (liftBulk bulk h d a b) d b c = liftBulk bulk h d a c := by
  cases h with
  | none => rfl
  | some x =>
    have hx := hh x rfl
    simp only [liftBulk, Option.bind_some]
    rw [hfold _ a b x hx (by omega), hfold _ a c x hx hc,
      show c - a = (b - a) + (c - b) by omega, forRange_add, show a + (b - a) = b by omega]
    cases h1 : forRange (store (toBA d)) a (b - a) x with
    | none => rfl
    | some y =>
      simp only [Option.bind_some]
      exact hfold _ b c y (forRange_inv (hI (toBA d)) _ _ _ _ hx h1) hc

/-- …and local, when the per-position store at `ix` reads `[.., ix + L)` only -/
theorem liftBulk_local {σ : Type} {bulk : ByteArray → Nat → Nat → Nat → σ → Option σ}
    {store : ByteArray → Nat → σ → Option σ} {I : σ → Prop} {bound L : Nat} (hL : 1 ≤ L)
    (hfold : ∀ d s e st, I st → e ≤ bound → bulk d USIZE_MAX s e st = forRange (store d) s (e - s) st)
    (hloc : ∀ d d' ix st k, Agree d d' k → ix + L ≤ k → store d ix st = store d' ix st)
    (h : Option σ) (hh : ∀ x, h = some x → I x) (d d' : List Nat) (a b : Nat) (hb : b ≤ bound)
    (hd : d.take (b + (L - 1)) = d'.take (b + (L - 1))) :
    liftBulk bulk h d a b = liftBulk bulk h d' a b := by
  cases h with
  | none => rfl
  | some x =>
    have hx := hh x rfl
    simp only [liftBulk, Option.bind_some]
    rw [hfold _ a b x hx hb, hfold _ a b x hx hb]
    apply forRange_congr
    intro i y h1 h2
    exact hloc _ _ i y _ (agree_of_take hd) (by omega)

/-! ## the three families as `HasherModel`s -/

/-- `BasicHasher<T>` with a bucket table of `len` cells (`alloc_cell` hands out zeroed cells) -/
def basicModel (P : BasicP) (len : Nat) : HasherModel (Option Tab) :=
  ⟨some (Array.replicate len 0), liftBulk (Basic.bulkStoreRange P)⟩

/-- `AdvHasher<Spec, Alloc>` as `InitializeH5` / `InitializeH6` allocate it -/
def advModel (P : AdvP) : HasherModel (Option AdvSt) :=
  ⟨some ⟨Array.replicate P.bucketSize 0, Array.replicate (P.bucketSize * (1 <<< P.blockBits)) 0⟩,
   liftBulk (Adv.bulkStoreRange P)⟩

/-- `H9` as `InitializeH9` allocates it (`1 << H9_BUCKET_BITS` counters, `H9_BLOCK_SIZE << H9_BUCKET_BITS` cells) -/
def h9Model (P : H9P) : HasherModel (Option AdvSt) :=
  ⟨some ⟨Array.replicate (1 <<< 15) 0, Array.replicate (1 <<< 23) 0⟩, liftBulk (H9.bulkStoreRange P)⟩

theorem basic_fold {P : BasicP} (hP : P.Ok) (d : ByteArray) (s e : Nat) (st : Tab) :
    Basic.bulkStoreRange P d USIZE_MAX s e st = forRange (Basic.store P d USIZE_MAX) s (e - s) st := by
  rw [Adv.usize_max_eq]
  exact Basic.storeRange_eq_fold hP d 64 s e st

theorem basic_store_local' {P : BasicP} (d d' : ByteArray) (ix : Nat) (st : Tab) (k : Nat)
    (h : Agree d d' k) (hk : ix + 8 ≤ k) :
    Basic.store P d USIZE_MAX ix st = Basic.store P d' USIZE_MAX ix st :=
  Basic.store_local h (by have := @Nat.and_le_left ix USIZE_MAX; omega) st

/-- `BasicHasher::BulkStoreRange` is additive: every index state, every buffer, all `a ≤ b ≤ c` -/
theorem basicModel_additive {P : BasicP} (hP : P.Ok) (len : Nat) : Additive (basicModel P len) := by
  intro h d a b c hab hbc
  exact liftBulk_additive (I := fun _ => True) (bound := c) (store := fun d => Basic.store P d USIZE_MAX)
    (fun d s e st _ _ => basic_fold hP d s e st) (fun _ _ _ _ _ _ => trivial)
    h (fun _ _ => trivial) d a b c hab hbc (Nat.le_refl _)

/-- `BasicHasher::BulkStoreRange` over `[a, b)` reads `data[.. b + 7)` only (`StoreLookahead() = 8`) -/
theorem basicModel_local {P : BasicP} (hP : P.Ok) (len : Nat) : Local (basicModel P len) 7 := by
  intro h d d' a b hd
  exact liftBulk_local (L := 8) (by decide) (I := fun _ => True) (bound := b)
    (store := fun d => Basic.store P d USIZE_MAX)
    (fun d s e st _ _ => basic_fold hP d s e st) (fun d d' ix st k => basic_store_local' d d' ix st k)
    h (fun _ _ => trivial) d d' a b (Nat.le_refl _) hd

theorem h9_store_local' {P : H9P} (d d' : ByteArray) (ix : Nat) (st : AdvSt) (k : Nat)
    (h : Agree d d' k) (hk : ix + 4 ≤ k) :
    H9.store P d USIZE_MAX ix st = H9.store P d' USIZE_MAX ix st :=
  H9.store_local h (by have := @Nat.and_le_left ix USIZE_MAX; omega) st

/-- `H9::BulkStoreRange` is additive -/
theorem h9Model_additive (P : H9P) : Additive (h9Model P) := by
  intro h d a b c hab hbc
  exact liftBulk_additive (I := fun _ => True) (bound := c) (store := fun d => H9.store P d USIZE_MAX)
    (fun _ _ _ _ _ _ => rfl) (fun _ _ _ _ _ _ => trivial)
    h (fun _ _ => trivial) d a b c hab hbc (Nat.le_refl _)

/-- `H9::BulkStoreRange` over `[a, b)` reads `data[.. b + 3)` only (`StoreLookahead() = 4`) -/
theorem h9Model_local (P : H9P) : Local (h9Model P) 3 := by
  intro h d d' a b hd
  exact liftBulk_local (L := 4) (by decide) (I := fun _ => True) (bound := b)
    (store := fun d => H9.store P d USIZE_MAX)
    (fun _ _ _ _ _ _ => rfl) (fun d d' ix st k => h9_store_local' d d' ix st k)
    h (fun _ _ => trivial) d d' a b (Nat.le_refl _) hd

/-! ## additivity / locality from the empty index, positions up to a bound -/

/-- `Additive` for the stores the favor loop really makes: they start from the EMPTY index at
position 0 and end at or before `bound` -/
def AdditiveFrom {H : Type} (M : HasherModel H) (bound : Nat) : Prop :=
  ∀ d b c, b ≤ c → c ≤ bound → M.bulk (M.bulk M.empty d 0 b) d b c = M.bulk M.empty d 0 c

def LocalFrom {H : Type} (M : HasherModel H) (overlap bound : Nat) : Prop :=
  ∀ d d' b, b ≤ bound → d.take (b + overlap) = d'.take (b + overlap) →
    M.bulk M.empty d 0 b = M.bulk M.empty d' 0 b

theorem Additive.from {H : Type} {M : HasherModel H} (h : Additive M) (bound : Nat) : AdditiveFrom M bound :=
  fun d b c hbc _ => h M.empty d 0 b c (Nat.zero_le _) hbc

theorem Local.from {H : Type} {M : HasherModel H} {ov : Nat} (h : Local M ov) (bound : Nat) :
    LocalFrom M ov bound :=
  fun d d' b _ hd => h M.empty d d' 0 b hd

theorem adv_store_local' {P : AdvP} (d d' : ByteArray) (ix : Nat) (st : AdvSt) (k : Nat)
    (h : Agree d d' k) (hk : ix + P.lookahead ≤ k) :
    Adv.store P d USIZE_MAX ix st = Adv.store P d' USIZE_MAX ix st :=
  Adv.store_local h (by have := @Nat.and_le_left ix USIZE_MAX; omega) st

/-- `AdvHasher::BulkStoreRange` (the 32-positions-at-a-time `BulkStoreRangeOptMemFetch` + tail
loop) is additive from the constructor's tables, for `usize` positions -/
theorem advModel_additive {P : AdvP} (hP : P.Ok) : AdditiveFrom (advModel P) (2 ^ 64) := by
  intro d b c hbc hc
  exact liftBulk_additive (I := fun st => Adv.sizesAsserted P st = true) (bound := 2 ^ 64)
    (store := fun d => Adv.store P d USIZE_MAX)
    (fun d s e st hst he => Adv.bulkStoreRange_eq_fold hP d USIZE_MAX s e he st hst)
    (fun _ _ _ _ hx h => Adv.store_sizesAsserted hx h)
    (advModel P).empty (fun x hx => by
      have e : (⟨Array.replicate P.bucketSize 0, Array.replicate (P.bucketSize * (1 <<< P.blockBits)) 0⟩ : AdvSt) = x :=
        Option.some.inj hx
      subst e; exact Adv.init_sizesAsserted P) d 0 b c (Nat.zero_le _) hbc hc

/-- `AdvHasher::BulkStoreRange` over `[0, b)` reads `data[.. b + StoreLookahead() − 1)` only -/
theorem advModel_local {P : AdvP} (hP : P.Ok) (hl : 1 ≤ P.lookahead) :
    LocalFrom (advModel P) (P.lookahead - 1) (2 ^ 64) := by
  intro d d' b hb hd
  exact liftBulk_local (L := P.lookahead) hl (I := fun st => Adv.sizesAsserted P st = true) (bound := 2 ^ 64)
    (store := fun d => Adv.store P d USIZE_MAX)
    (fun d s e st hst he => Adv.bulkStoreRange_eq_fold hP d USIZE_MAX s e he st hst)
    (fun d d' ix st k => adv_store_local' d d' ix st k)
    (advModel P).empty (fun x hx => by
      have e : (⟨Array.replicate P.bucketSize 0, Array.replicate (P.bucketSize * (1 <<< P.blockBits)) 0⟩ : AdvSt) = x :=
        Option.some.inj hx
      subst e; exact Adv.init_sizesAsserted P) d d' 0 b hb hd

/-- closed form of the shared index (`prebuilt_closed`) under the weaker hypothesis -/
theorem prebuilt_closed_from {H : Type} (M : HasherModel H) (bound : Nat) (hA : AdditiveFrom M bound)
    (input : List Nat) (t n overlap : Nat) (ht : 0 < t) (hn : n ≤ bound) :
    ∀ j, j ≤ t → prebuilt M input t n overlap j =
      if 0 < j ∧ bnd t n j > overlap then (M.bulk M.empty input 0 (bnd t n j - overlap), bnd t n j - overlap)
      else (M.empty, 0) := by
  intro j
  induction j with
  | zero => intro _; simp [prebuilt]
  | succ j ih =>
    intro hj
    have hm : bnd t n j ≤ bnd t n (j + 1) := bnd_mono t n (show j ≤ j + 1 by omega)
    have hle : bnd t n (j + 1) ≤ n := bnd_le t n (j + 1) ht hj
    simp only [prebuilt, ih (by omega)]
    by_cases hj0 : 0 < j ∧ bnd t n j > overlap
    · rw [if_pos hj0]
      dsimp only
      have h1 : 0 < j + 1 ∧ bnd t n (j + 1) > overlap := ⟨by omega, by omega⟩
      rw [if_pos h1]
      by_cases hgt : bnd t n (j + 1) > overlap ∧ bnd t n (j + 1) - overlap > bnd t n j - overlap
      · rw [if_pos hgt, hA _ _ _ (by omega) (by omega)]
      · rw [if_neg hgt]
        have : bnd t n (j + 1) = bnd t n j := by omega
        rw [this]
    · rw [if_neg hj0]
      dsimp only
      by_cases hgt : bnd t n (j + 1) > overlap
      · rw [if_pos ⟨hgt, by omega⟩, if_pos ⟨by omega, hgt⟩]
      · rw [if_neg (by omega), if_neg (by omega)]

/-- `favor_cpu_equiv` under the weaker hypotheses (job `j + 1 ≤ t`, input length `n ≤ bound`) -/
theorem favor_cpu_equiv_from {H : Type} (M : HasherModel H) (overlap bound : Nat)
    (hA : AdditiveFrom M bound) (hL : LocalFrom M overlap bound)
    (input : List Nat) (t n lgwin quality j : Nat) (hq : 2 ≤ quality) (_hl : 10 ≤ lgwin)
    (hj : j + 1 ≤ t) (hn : n ≤ bound) (hnt : bnd t n (j + 1) ≤ 2 ^ lgwin - 16) :
    (prebuilt M input t n overlap (j + 1)).1 = selfbuilt M input (bnd t n (j + 1)) lgwin quality overlap := by
  have hle : bnd t n (j + 1) ≤ n := bnd_le t n (j + 1) (by omega) hj
  rw [prebuilt_closed_from M bound hA input t n overlap (by omega) hn (j + 1) hj]
  by_cases hz : bnd t n (j + 1) = 0
  · rw [hz]; simp [selfbuilt, dictPlan]
  have hplan : dictPlan (bnd t n (j + 1)) lgwin quality = ⟨true, 0, bnd t n (j + 1)⟩ := by
    unfold dictPlan
    rw [if_neg (by omega), if_neg (by omega)]
  unfold selfbuilt
  rw [hplan]
  dsimp only
  by_cases hgt : bnd t n (j + 1) > overlap
  · rw [if_pos ⟨by omega, hgt⟩, if_pos hgt]
    dsimp only
    apply hL _ _ _ (by omega)
    have e : bnd t n (j + 1) - overlap + overlap = bnd t n (j + 1) := by omega
    rw [e, List.drop_zero, List.take_take, Nat.min_self]
  · rw [if_neg (by omega), if_neg hgt]

/-! ## H10 (binary tree, quality 10/11): `Store` is opaque -/

/-- H10 over an opaque per-position `Store(data, usize::MAX, ix)` and an opaque empty forest:
`BulkStoreRange` is the plain loop (C19 `bulk_eq_fold_store_h10`) -/
def h10Model {σ : Type} (store : ByteArray → Nat → σ → Option σ) (empty : σ) : HasherModel (Option σ) :=
  ⟨some empty, liftBulk fun d _ s e st => BV.Hasher.H10.bulkStoreRange (store d) s e st⟩

/-- additive whatever `Store` does -/
theorem h10Model_additive {σ : Type} (store : ByteArray → Nat → σ → Option σ) (empty : σ) :
    Additive (h10Model store empty) := by
  intro h d a b c hab hbc
  exact liftBulk_additive (bulk := fun d _ s e st => BV.Hasher.H10.bulkStoreRange (store d) s e st)
    (I := fun _ => True) (bound := c) (store := store)
    (fun _ _ _ _ _ _ => rfl) (fun _ _ _ _ _ _ => trivial)
    h (fun _ _ => trivial) d a b c hab hbc (Nat.le_refl _)

/-- local as soon as `Store` at `ix` reads `data[.. ix + L)` only (`L = StoreLookahead() = 128`,
the `max_length` handed to `StoreAndFindMatchesH10`) -/
theorem h10Model_local {σ : Type} (store : ByteArray → Nat → σ → Option σ) (empty : σ) (L : Nat) (hL : 1 ≤ L)
    (hloc : ∀ d d' ix st k, Agree d d' k → ix + L ≤ k → store d ix st = store d' ix st) :
    Local (h10Model store empty) (L - 1) := by
  intro h d d' a b hd
  exact liftBulk_local (bulk := fun d _ s e st => BV.Hasher.H10.bulkStoreRange (store d) s e st)
    (L := L) hL (I := fun _ => True) (bound := b) (store := store)
    (fun _ _ _ _ _ _ => rfl) hloc h (fun _ _ => trivial) d d' a b (Nat.le_refl _) hd

/-! ## the favor loop as a C19 partition -/

/-- the `BulkStoreRange` calls the favor loop has made when it hands the index to job `j`, as the
cut points of C19's `runPieces` (every piece through the bulk entry point), with `stored_end` -/
def favorPieces (t n overlap : Nat) : Nat → List (Bool × Nat) × Nat
  | 0 => ([], 0)
  | j + 1 =>
    let p := favorPieces t n overlap j
    if bnd t n (j + 1) > overlap ∧ bnd t n (j + 1) - overlap > p.2 then
      (p.1 ++ [(true, bnd t n (j + 1) - overlap)], bnd t n (j + 1) - overlap)
    else p

theorem runPieces_snoc {σ : Type} (range bulk : Nat → Nat → σ → Option σ) (c : Nat) :
    ∀ (ps : List (Bool × Nat)) (s : Nat) (st : σ),
      runPieces range bulk s (ps ++ [(true, c)]) st = (runPieces range bulk s ps st).bind (bulk (endOf s ps) c)
  | [], s, st => by
    simp only [List.nil_append, runPieces, endOf, if_true, Option.bind_some]
    cases bulk s c st <;> rfl
  | (b, c') :: rest, s, st => by
    simp only [List.cons_append, runPieces, endOf]
    cases (if b = true then bulk s c' st else range s c' st) with
    | none => rfl
    | some st' => exact runPieces_snoc range bulk c rest c' st'

theorem endOf_snoc (c : Nat) : ∀ (ps : List (Bool × Nat)) (s : Nat), endOf s (ps ++ [(true, c)]) = c
  | [], _ => rfl
  | (_, c') :: rest, _ => by simp only [List.cons_append, endOf]; exact endOf_snoc c rest c'

theorem sorted_snoc (c : Nat) : ∀ (ps : List (Bool × Nat)) (s : Nat), Sorted s ps → endOf s ps ≤ c →
    Sorted s (ps ++ [(true, c)])
  | [], _, _, h => ⟨h, trivial⟩
  | (_, c') :: rest, _, hs, h => ⟨hs.1, sorted_snoc c rest c' hs.2 h⟩

/-- the cut points are consecutive from 0 and end at `stored_end` -/
theorem favorPieces_sorted (t n overlap : Nat) : ∀ j,
    Sorted 0 (favorPieces t n overlap j).1 ∧ endOf 0 (favorPieces t n overlap j).1 = (favorPieces t n overlap j).2 := by
  intro j
  induction j with
  | zero => exact ⟨trivial, rfl⟩
  | succ j ih =>
    simp only [favorPieces]
    split
    · rename_i hg
      exact ⟨sorted_snoc _ _ 0 ih.1 (by rw [ih.2]; omega), endOf_snoc _ _ 0⟩
    · exact ih

/-- `prebuilt_is_partition`: for every hasher whose abstract `bulk` is a lifted `BulkStoreRange`, the
shared index handed to job `j` IS C19's `runPieces` over `favorPieces` from the empty index — so
C19 `partition_irrelevant_basic/_adv/_h9/_h10` apply to it verbatim -/
theorem prebuilt_is_partition {σ : Type} (bulk : ByteArray → Nat → Nat → Nat → σ → Option σ) (empty : σ)
    (input : List Nat) (t n overlap : Nat) : ∀ j,
    prebuilt (⟨some empty, liftBulk bulk⟩ : HasherModel (Option σ)) input t n overlap j =
      (runPieces (bulk (toBA input) USIZE_MAX) (bulk (toBA input) USIZE_MAX) 0 (favorPieces t n overlap j).1 empty,
       (favorPieces t n overlap j).2) := by
  intro j
  induction j with
  | zero => rfl
  | succ j ih =>
    simp only [prebuilt, favorPieces, ih]
    split
    · rw [runPieces_snoc, (favorPieces_sorted t n overlap j).2]
      rfl
    · rfl

/-! ## which index the job ends up with -/

/-- the match index job `thread_index ≥ 1` compresses with after
`set_custom_dictionary_with_optional_precomputed_hasher(size, &input[..size], opt)` (encode.rs),
RELEASE build; `opt = none` is `UnionHasher::Uninit` (favor off), `some h` the clone of the shared
index `CompressMulti` handed in.
* `dict_size == 0 || quality < 2`: early return with `self.hasher_ = opt_hasher` (an `Uninit` one is
  set up — empty — by the first `encode_data`);
* prefix longer than `2^lgwin − 16`: the handed index is destroyed (6f21d9b) and the job indexes
  the kept tail itself (`HasherPrependCustomDictionary` → `StoreLookaheadThenStore`);
* otherwise a handed index is kept as it is, and without one the job indexes its prefix itself.
(A DEBUG build indexes the prefix itself in every case and `debug_assert!`s that the result equals
the handed index: `favor_cpu_equiv` is the statement that this assertion holds.) -/
def jobIndex {H : Type} (M : HasherModel H) (input : List Nat) (size lgwin quality overlap : Nat)
    (opt : Option H) : H :=
  if (dictPlan size lgwin quality).used = false then opt.getD M.empty
  else if (dictPlan size lgwin quality).dropped ≠ 0 then selfbuilt M input size lgwin quality overlap
  else
    match opt with
    | some h => h
    | none => selfbuilt M input size lgwin quality overlap

/-- favor on / favor off: the job compresses with the same index — for EVERY prefix length
(truncated to the window or not, empty or not), quality ≥ 2 -/
theorem jobIndex_favor_irrelevant {H : Type} (M : HasherModel H) (overlap bound : Nat)
    (hA : AdditiveFrom M bound) (hL : LocalFrom M overlap bound)
    (input : List Nat) (t n lgwin quality j : Nat) (hq : 2 ≤ quality) (hl : 10 ≤ lgwin)
    (hj : j + 1 ≤ t) (hn : n ≤ bound) :
    jobIndex M input (bnd t n (j + 1)) lgwin quality overlap (some (prebuilt M input t n overlap (j + 1)).1)
      = jobIndex M input (bnd t n (j + 1)) lgwin quality overlap none := by
  unfold jobIndex
  by_cases hu : (dictPlan (bnd t n (j + 1)) lgwin quality).used = false
  · rw [if_pos hu, if_pos hu]
    have hz : bnd t n (j + 1) = 0 := by
      unfold dictPlan at hu
      by_cases h0 : bnd t n (j + 1) = 0 ∨ quality = 0 ∨ quality = 1
      · omega
      · rw [if_neg h0] at hu
        split at hu <;> simp at hu
    rw [prebuilt_closed_from M bound hA input t n overlap (by omega) hn (j + 1) hj, hz]
    simp
  · rw [if_neg hu, if_neg hu]
    by_cases hd : (dictPlan (bnd t n (j + 1)) lgwin quality).dropped ≠ 0
    · rw [if_pos hd, if_pos hd]
    · rw [if_neg hd, if_neg hd]
      dsimp only
      apply favor_cpu_equiv_from M overlap bound hA hL input t n lgwin quality j hq hl hj hn
      unfold dictPlan at hd
      by_cases h0 : bnd t n (j + 1) = 0 ∨ quality = 0 ∨ quality = 1
      · omega
      · rw [if_neg h0] at hd
        split at hd
        · simp only at hd; omega
        · omega

end BV.Lemmas.Multi
