import BV.Lemmas.ZopfliCmd
/-! `BrotliZopfliCreateCommands` along a SOUND path of Zopfli nodes: decoder and encoder stay in lock step.

The spec side (`NodeOK`, `ringAfter`, `PathOK`) speaks about the text `hist ++ mb`, the RFC 7932 distance
rules (`rfcDistance`, C14's transcription) and the decoder's word oracle only — not about the ring buffer,
the match finder or the cost model. -/
namespace BV.Zopfli
open BV.Hasher BV.MatchFinder BV.Recoder BV.PrefixArith BV.MetaBlock BV.Cbr

/-- **what a Zopfli node must describe** for the command built from it to be decodable, when its copy
starts at text length `abs` (the insert part needs nothing: literals are the text) and the decoder's
ring of last distances is `ring`:
* the copy ends inside the text;
* a non-zero short code `dcode_insert_length >> 27 = c` denotes, under the RFC 7932 rules for distance
  symbol `c - 1` relative to `ring`, exactly the node's `distance`;
* EITHER a copy: `1 ≤ distance ≤ min(abs, window)`, length ≥ 2, length code = length, and the source
  bytes equal the target bytes in the text;
  OR a static-dictionary reference: `distance > min(abs, window)`, no short code, a word length
  (= length code) 4..24 within the 7-bit delta of the copy length, and the decoder's expansion of
  (word length, word id `distance - min(abs, window) - 1` split by NDBITS into index and transform) is
  the next `copy_length` bytes of the text. -/
structure NodeOK {K : Type} (wo : WordOracle) (window md : Nat) (T : Bytes) (abs : Nat) (ring : List Int)
    (n : Node K) : Prop where
  fit : abs + n.copyLength ≤ T.length
  code : n.shortCode = 0 ∨
    (n.shortCode ≤ 16 ∧ ∃ u, rfcDistance 0 0 ring (n.shortCode - 1) 0 = some ((n.distance : Int), u))
  kind :
    (1 ≤ n.distance ∧ n.distance ≤ min abs window ∧ 2 ≤ n.copyLength ∧ n.lengthCode = n.copyLength ∧
      ∀ j, j < n.copyLength → T.getD (abs - n.distance + j) 0 = T.getD (abs + j) 0) ∨
    (n.distance > min abs window ∧ n.distance ≤ md ∧ n.shortCode = 0 ∧
      4 ≤ n.lengthCode ∧ n.lengthCode ≤ 24 ∧ n.copyLength ≠ 0 ∧
      n.lengthCode ≤ n.copyLength + 63 ∧ n.copyLength ≤ n.lengthCode + 64 ∧
      wo n.lengthCode ((n.distance - min abs window - 1) % 2 ^ dictSizeBits.getD n.lengthCode 0)
          ((n.distance - min abs window - 1) / 2 ^ dictSizeBits.getD n.lengthCode 0)
        = some ((T.drop abs).take n.copyLength))

/-- RFC 7932 §4: a copy whose distance symbol is not 0 pushes its distance onto the ring of last
distances; symbol 0 and static-dictionary references leave it alone -/
def ringAfter {K : Type} (window abs : Nat) (ring : List Int) (n : Node K) : List Int :=
  if n.distance ≤ min abs window ∧ n.distanceCode ≠ 0 then (n.distance : Int) :: ring.take 3 else ring

/-- **a sound path**: starting at block offset `pos` with the `next` offset `offset` and the ring `ring`,
every node reached along the `next` offsets is `NodeOK` where its copy starts (`base` = text length at
block offset 0), stays inside the block, the ring evolves by the decoder's rule, and the walk ends
(offset `!0`) inside the block -/
inductive PathOK {K : Type} (wo : WordOracle) (window md : Nat) (T : Bytes) (base numBytes : Nat)
    (nodes : Array (Node K)) : Nat → Nat → List Int → Prop
  | done {pos : Nat} {ring : List Int} : pos ≤ numBytes → PathOK wo window md T base numBytes nodes pos 0xffffffff ring
  | step {pos offset : Nat} {ring : List Int} (nx : Node K) : offset ≠ 0xffffffff →
      nodes[pos + offset]? = some nx →
      NodeOK wo window md T (base + pos + nx.insertLength) ring nx →
      pos + nx.insertLength + nx.copyLength ≤ numBytes →
      PathOK wo window md T base numBytes nodes (pos + nx.insertLength + nx.copyLength) nx.nextOf
        (ringAfter window (base + pos + nx.insertLength) ring nx) →
      PathOK wo window md T base numBytes nodes pos offset ring

theorem PathOK.inv {K : Type} {wo : WordOracle} {window md : Nat} {T : Bytes} {base numBytes : Nat}
    {nodes : Array (Node K)} {pos offset : Nat} {ring : List Int}
    (h : PathOK wo window md T base numBytes nodes pos offset ring) :
    (offset = 0xffffffff ∧ pos ≤ numBytes) ∨
    (offset ≠ 0xffffffff ∧ ∃ nx, nodes[pos + offset]? = some nx ∧
      NodeOK wo window md T (base + pos + nx.insertLength) ring nx ∧
      pos + nx.insertLength + nx.copyLength ≤ numBytes ∧
      PathOK wo window md T base numBytes nodes (pos + nx.insertLength + nx.copyLength) nx.nextOf
        (ringAfter window (base + pos + nx.insertLength) ring nx)) := by
  cases h with
  | done hp => exact Or.inl ⟨rfl, hp⟩
  | step nx h1 h2 h3 h4 h5 => exact Or.inr ⟨h1, nx, h2, h3, h4, h5⟩

/-- the node array handed to `BrotliZopfliCreateCommands` is sound: the path that starts at `nodes[0].next` is -/
def NodesOK {K : Type} (wo : WordOracle) (window md : Nat) (T : Bytes) (base numBytes : Nat)
    (nodes : Array (Node K)) (ring : List Int) : Prop :=
  ∃ n0, nodes[0]? = some n0 ∧ PathOK wo window md T base numBytes nodes 0 n0.nextOf ring

/-! ### accessors -/

theorem copyLength_lt {K : Type} (n : Node K) : n.copyLength < 2 ^ 25 := by
  unfold Node.copyLength
  rw [show (0x01ffffff : Nat) = 2 ^ 25 - 1 by decide, Nat.and_two_pow_sub_one_eq_mod]
  exact Nat.mod_lt _ (by decide)

theorem distanceCode_long {K : Type} (n : Node K) (h0 : n.shortCode = 0) (hd : n.distance + 16 < 2 ^ 32) :
    n.distanceCode = n.distance + 15 := by
  have hU : U32 = 4294967296 := rfl
  unfold Node.distanceCode wsub32
  rw [if_pos h0]
  simp only [hU]
  omega

theorem distanceCode_short {K : Type} (n : Node K) (h0 : n.shortCode ≠ 0) : n.distanceCode = n.shortCode - 1 := by
  unfold Node.distanceCode
  rw [if_neg h0]

/-! ### one step -/

/-- encoder state `s` (of the command walk) and decoder state `d` describe the same point of the
meta-block whose first `L0` bytes are the pending literals of the previous call -/
structure ZSync (hist mb : Bytes) (L0 : Nat) (s : CC) (d : DecSt) (ring : List Int) : Prop where
  out : d.out = hist ++ mb.take d.cursor
  cur : d.cursor + s.lastInsertLen = L0 + s.pos
  nf : s.first = false → s.lastInsertLen = 0
  dring : d.ring = ring
  cache : s.cache.take 4 = ring
  ci : CacheI32 s.cache
  clen : 4 ≤ s.cache.length

theorem ccStep_eq {K : Type} (np nd base window : Nat) (nodes : Array (Node K)) (s : CC) (nx : Node K)
    (c0 c1 c2 c3 : Int) (rest : List Int) (hn : nodes[s.pos + s.offset]? = some nx)
    (hc : s.cache = c0 :: c1 :: c2 :: c3 :: rest) :
    ccStep np nd base window nodes s = some
      (commandInit np nd (if s.first then nx.insertLength + s.lastInsertLen else nx.insertLength) nx.copyLength
          nx.lengthCode nx.distanceCode,
        { pos := s.pos + nx.insertLength + nx.copyLength, offset := nx.nextOf, first := false,
          cache := if ¬ (nx.distance > min (base + (s.pos + nx.insertLength)) window) ∧ nx.distanceCode > 0
            then toI32 nx.distance :: c0 :: c1 :: c2 :: rest else s.cache,
          lastInsertLen := if s.first then 0 else s.lastInsertLen,
          numLiterals := s.numLiterals + (if s.first then nx.insertLength + s.lastInsertLen else nx.insertLength) }) := by
  unfold ccStep
  simp only [hn, hc]
  by_cases h : ¬ (nx.distance > min (base + (s.pos + nx.insertLength)) window) ∧ nx.distanceCode > 0
  · rw [if_pos h, if_pos h]
  · rw [if_neg h, if_neg h]

theorem ccStep_good {K : Type} (wo : WordOracle) (window md : Nat) (large : Bool) (hist mb : Bytes) (L0 numBytes : Nat)
    (nodes : Array (Node K)) (hwin : window ≤ 2 ^ 30) (hmd : md + 15 < 2 ^ 31)
    (hstdw : large = false → window ≤ 2 ^ 26 - 4) (hstdm : large = false → md ≤ 2 ^ 26 - 4)
    (hmb24 : mb.length ≤ 2 ^ 24) (hmbl : mb.length = L0 + numBytes)
    {s s' : CC} {d : DecSt} {ring : List Int} {nx : Node K} {cmd : Cmd}
    (hsync : ZSync hist mb L0 s d ring)
    (hnode : nodes[s.pos + s.offset]? = some nx)
    (hok : NodeOK wo window md (hist ++ mb) (hist.length + L0 + s.pos + nx.insertLength) ring nx)
    (hle : s.pos + nx.insertLength + nx.copyLength ≤ numBytes)
    (hst : ccStep 0 0 (hist.length + L0) window nodes s = some (cmd, s')) :
    ∃ d', decStep wo 0 0 window mb d cmd = some d' ∧
      ZSync hist mb L0 s' d' (ringAfter window (hist.length + L0 + s.pos + nx.insertLength) ring nx) ∧
      s'.pos = s.pos + nx.insertLength + nx.copyLength ∧ s'.offset = nx.nextOf ∧
      d.cursor + cmd.insertLen ≠ mb.length ∧ copyLen cmd ≠ 0 ∧
      d'.cursor = d.cursor + cmd.insertLen + copyLen cmd ∧
      cmdOK (distAlphabetSize large 0 0) 0 0 cmd = true := by
  obtain ⟨c0, c1, c2, c3, rest, hcache⟩ : ∃ c0 c1 c2 c3 rest, s.cache = c0 :: c1 :: c2 :: c3 :: rest := by
    have := hsync.clen
    match hs : s.cache, this with
    | c0 :: c1 :: c2 :: c3 :: rest, _ => exact ⟨c0, c1, c2, c3, rest, rfl⟩
  rw [ccStep_eq 0 0 _ window nodes s nx c0 c1 c2 c3 rest hnode hcache] at hst
  simp only [Option.some.injEq, Prod.mk.injEq] at hst
  obtain ⟨rfl, rfl⟩ := hst
  have hring : ring = [c0, c1, c2, c3] := by rw [← hsync.cache, hcache]; rfl
  have hci : CacheI32 (c0 :: c1 :: c2 :: c3 :: rest) := hcache ▸ hsync.ci
  have hci4 : CacheI32 [c0, c1, c2, c3] := hci
  have hdring : d.ring = [c0, c1, c2, c3] := by rw [hsync.dring, hring]
  -- the insert length of the command
  have hins : (if s.first then nx.insertLength + s.lastInsertLen else nx.insertLength)
      = nx.insertLength + s.lastInsertLen := by
    cases hf : s.first with
    | true => simp
    | false => simp [hsync.nf hf]
  rw [hins]
  have hcur := hsync.cur
  have hlenout : d.out.length = hist.length + d.cursor := by
    rw [hsync.out, List.length_append, List.length_take]; omega
  have hp24 : (2 : Nat) ^ 24 = 16777216 := by decide
  have hp30 : (2 : Nat) ^ 30 = 1073741824 := by decide
  have hcl := copyLength_lt nx
  have habs : hist.length + L0 + s.pos + nx.insertLength = d.out.length + (nx.insertLength + s.lastInsertLen) := by omega
  have habs2 : hist.length + L0 + (s.pos + nx.insertLength) = d.out.length + (nx.insertLength + s.lastInsertLen) := by omega
  have hfit := hok.fit
  rw [List.length_append] at hfit
  have hpre : d.out ++ (mb.drop d.cursor).take (nx.insertLength + s.lastInsertLen + nx.copyLength)
      = hist ++ mb.take (d.cursor + (nx.insertLength + s.lastInsertLen) + nx.copyLength) := by
    rw [hsync.out, out_extend]
    congr 2
    omega
  have hls : (if s.first then 0 else s.lastInsertLen) = 0 := by
    cases hf : s.first with
    | true => simp
    | false => simp [hsync.nf hf]
  -- the distance code of a copy denotes the distance
  have hcodeF : 1 ≤ nx.distance → nx.distance ≤ min (d.out.length + (nx.insertLength + s.lastInsertLen)) window →
      nx.distanceCode < 2 ^ 31 ∧ (large = false → nx.distanceCode < 2 ^ 26 + 12) ∧
      ∃ u, rfcDistance 0 0 d.ring (prefixEncodeCopyDistance nx.distanceCode 0 0).sym
        (prefixEncodeCopyDistance nx.distanceCode 0 0).extra = some ((nx.distance : Int), u) ∧
        u = decide (nx.distanceCode ≠ 0) := by
    intro k1 k2
    have hd31 : nx.distance < 2 ^ 31 := by omega
    by_cases h0 : nx.shortCode = 0
    · rw [distanceCode_long nx h0 (by omega)]
      obtain ⟨code, _, _, hcd, hrfc⟩ := computeDistanceCode_sound 0 0 nx.distance 0 c0 c1 c2 c3 [] k1 hd31 hci4
      have hcode : code = nx.distance + 15 := hcd (by omega)
      subst hcode
      exact ⟨by omega, fun hl => by have := hstdw hl; omega, _, by rw [hdring]; exact hrfc, rfl⟩
    · rcases hok.code with h0' | ⟨h16, u, hu⟩
      · exact absurd h0' h0
      · rw [distanceCode_short nx h0, short_direct 0 0 _ (by omega)]
        exact ⟨by omega, fun _ => by omega, u, by rw [hsync.dring]; exact hu, rfcDistance_flag 0 0 ring _ 0 _ u hu⟩
  refine ⟨⟨hist ++ mb.take (d.cursor + (nx.insertLength + s.lastInsertLen) + nx.copyLength),
      ringAfter window (hist.length + L0 + s.pos + nx.insertLength) ring nx,
      d.cursor + (nx.insertLength + s.lastInsertLen) + nx.copyLength⟩, ?gdec, ?gsync, rfl, rfl, ?gfacts⟩
  case gsync =>
    refine ⟨rfl, by simp only [hls]; omega, fun _ => hls, rfl, ?_, ?_, ?_⟩
    · simp only [ringAfter, habs, habs2]
      rcases hok.kind with ⟨k1, k2, _⟩ | ⟨k1, _⟩
      · rw [habs] at k2
        have hd31 : nx.distance < 2 ^ 31 := by omega
        by_cases hcode : nx.distanceCode = 0
        · rw [if_neg (by omega), if_neg (by omega), hcache, hring]; rfl
        · rw [if_pos ⟨by omega, by omega⟩, if_pos ⟨k2, hcode⟩, hring, toI32_small _ hd31]; rfl
      · rw [habs] at k1
        rw [if_neg (by omega), if_neg (by omega), hcache, hring]; rfl
    · simp only [habs2]
      split
      · rename_i hc
        rcases hok.kind with ⟨k1, k2, _⟩ | ⟨k1, _⟩
        · rw [habs] at k2
          intro x hx
          simp only [List.take_succ_cons, List.take_zero, List.mem_cons, List.not_mem_nil, or_false] at hx
          rcases hx with rfl | rfl | rfl | rfl
          · rw [toI32_small nx.distance (by omega)]; omega
          · exact hci _ (by simp)
          · exact hci _ (by simp)
          · exact hci _ (by simp)
        · rw [habs] at k1; omega
      · exact hsync.ci
    · simp only []
      split
      · simp
      · exact hsync.clen
  case gdec =>
    rcases hok.kind with ⟨k1, k2, k3, k4, k5⟩ | ⟨k1, k2, k3, k4, k5, k6, k7, k8, k9⟩
    · rw [habs] at k2 k5
      obtain ⟨hc31, hcstd, u, hrfc, hu⟩ := hcodeF k1 k2
      have hstep := decStep_copy wo 0 0 window (by omega) (by omega) mb d (nx.insertLength + s.lastInsertLen)
        nx.copyLength nx.distance nx.distanceCode u (by omega) (by omega) (by omega) hcl hc31 k1 k2 hrfc (by
          intro j hj
          rw [hpre, out_is_take, getD_take_of_lt _ _ _ (by omega), getD_take_of_lt _ _ _ (by omega)]
          exact (k5 j hj).symm)
      rw [k4, hstep, hpre]
      simp only [ringAfter, habs, hu, hdring, hring, decide_eq_true_eq]
      congr 2
      by_cases hcode : nx.distanceCode = 0
      · rw [if_neg (by simp [hcode]), if_neg (by simp [hcode])]
      · rw [if_pos hcode, if_pos ⟨k2, hcode⟩]
    · rw [habs] at k1 k9
      have hcode : nx.distanceCode = nx.distance + 15 := distanceCode_long nx k3 (by omega)
      have hword : ((hist ++ mb).drop (d.out.length + (nx.insertLength + s.lastInsertLen))).take nx.copyLength
          = (mb.drop (d.cursor + (nx.insertLength + s.lastInsertLen))).take nx.copyLength := by
        rw [hlenout, Nat.add_assoc, List.drop_append, List.drop_of_length_le (by omega), List.nil_append]
        congr 2
        omega
      rw [hword] at k9
      have hstep := decStep_dict wo window mb d (nx.insertLength + s.lastInsertLen) nx.copyLength nx.lengthCode nx.distance
        c0 c1 c2 c3 hdring hci4 (by omega) (by omega) (by omega) hcl k7 k8 k4 k5 k1 (by omega) k9
      rw [hcode, hstep, hpre]
      simp only [ringAfter, habs]
      rw [if_neg (by omega), hsync.dring]
  case gfacts =>
    rcases hok.kind with ⟨k1, k2, k3, k4, k5⟩ | ⟨k1, k2, k3, k4, k5, k6, k7, k8, k9⟩
    · rw [habs] at k2
      obtain ⟨hc31, hcstd, _⟩ := hcodeF k1 k2
      obtain ⟨f1, _, _, _, f5⟩ := commandInit_fields' 0 0 (nx.insertLength + s.lastInsertLen) nx.copyLength nx.copyLength
        nx.distanceCode (by omega) (by omega) hc31 (by omega) hcl (by omega) (by omega)
      rw [k4, f1, f5]
      exact ⟨by omega, by omega, rfl,
        cmdOK_commandInit' large _ nx.copyLength nx.copyLength nx.distanceCode (by omega) hcl (by omega) (by omega)
          k3 (by omega) hc31 hcstd⟩
    · rw [habs] at k1
      have hcode : nx.distanceCode = nx.distance + 15 := distanceCode_long nx k3 (by omega)
      obtain ⟨f1, _, _, _, f5⟩ := commandInit_fields' 0 0 (nx.insertLength + s.lastInsertLen) nx.copyLength nx.lengthCode
        (nx.distance + 15) (by omega) (by omega) (by omega) (by omega) hcl k7 k8
      rw [hcode, f1, f5]
      exact ⟨by omega, k6, rfl,
        cmdOK_commandInit' large _ nx.copyLength nx.lengthCode (nx.distance + 15) (by omega) hcl k7 k8
          (by omega) (by omega) (by omega) (fun hl => by have := hstdm hl; omega)⟩

/-! ### the walk -/

/-- the whole `while offset != !0` loop along a sound path: the decoder follows, every command is
`cmdOK`, and `lockstep` of the commands followed by any tail reduces to `lockstep` of the tail -/
theorem ccLoop_lockstep {K : Type} (wo : WordOracle) (window md : Nat) (large : Bool) (hist mb : Bytes) (L0 numBytes : Nat)
    (nodes : Array (Node K)) (hwin : window ≤ 2 ^ 30) (hmd : md + 15 < 2 ^ 31)
    (hstdw : large = false → window ≤ 2 ^ 26 - 4) (hstdm : large = false → md ≤ 2 ^ 26 - 4)
    (hmb24 : mb.length ≤ 2 ^ 24) (hmbl : mb.length = L0 + numBytes) :
    ∀ (fuel : Nat) (s s' : CC) (d : DecSt) (ring : List Int) (cmds : List Cmd),
      ccLoop 0 0 (hist.length + L0) window nodes fuel s = some (cmds, s') →
      PathOK wo window md (hist ++ mb) (hist.length + L0) numBytes nodes s.pos s.offset ring →
      ZSync hist mb L0 s d ring →
      ∃ d' ring', ZSync hist mb L0 s' d' ring' ∧ s'.pos ≤ numBytes ∧
        (∀ c ∈ cmds, cmdOK (distAlphabetSize large 0 0) 0 0 c = true) ∧
        decSteps wo 0 0 window mb d cmds = some d' ∧
        ∀ tail, lockstep wo 0 0 window mb d d.cursor (cmds ++ tail) = lockstep wo 0 0 window mb d' d'.cursor tail := by
  intro fuel
  induction fuel with
  | zero => intro s s' d ring cmds h; rw [ccLoop] at h; cases h
  | succ fuel ih =>
    intro s s' d ring cmds h hp hs
    rw [ccLoop] at h
    rcases hp.inv with ⟨hoff, hle⟩ | ⟨hoff, nx, hnode, hok, hle, hrest⟩
    · rw [if_pos hoff] at h
      simp only [Option.some.injEq, Prod.mk.injEq] at h
      obtain ⟨rfl, rfl⟩ := h
      exact ⟨d, ring, hs, hle, fun c hc => (by cases hc), rfl, fun tail => rfl⟩
    · rw [if_neg hoff] at h
      cases hst : ccStep 0 0 (hist.length + L0) window nodes s with
      | none => simp only [hst] at h; cases h
      | some r =>
        obtain ⟨cmd, s1⟩ := r
        simp only [hst] at h
        cases hl : ccLoop 0 0 (hist.length + L0) window nodes fuel s1 with
        | none => simp only [hl] at h; cases h
        | some r2 =>
          obtain ⟨cs, s2⟩ := r2
          simp only [hl, Option.some.injEq, Prod.mk.injEq] at h
          obtain ⟨rfl, rfl⟩ := h
          obtain ⟨d1, e1, e2, e3, e4, e5, e6, e7, e8⟩ := ccStep_good wo window md large hist mb L0 numBytes nodes hwin hmd
            hstdw hstdm hmb24 hmbl hs hnode hok hle hst
          rw [← e3, ← e4] at hrest
          obtain ⟨d', ring', a, b, c, ds, ls⟩ := ih s1 s2 d1 _ cs hl hrest e2
          refine ⟨d', ring', a, b, ?_, ?_, fun tail => ?_⟩
          · intro x hx
            rcases List.mem_cons.mp hx with rfl | hx
            · exact e8
            · exact c x hx
          · simp only [decSteps, e1]; exact ds
          · rw [List.cons_append, lockstep_cons _ _ _ _ _ d d1 cmd _ e1 e5 e6 e7]
            exact ls tail

/-- **BrotliZopfliCreateCommands keeps encoder and decoder in lock step**: along a sound path the
commands, closed with the insert-only command for the trailing literals as `encode.rs` does, are
`cmdOK`, satisfy `lockstep`, and the RFC decoder replays them to `hist ++ mb` -/
theorem zopfli_lockstep {K : Type} (wo : WordOracle) (window md : Nat) (large : Bool) (hist mb : Bytes)
    (nodes : Array (Node K)) (numBytes position : Nat) (cache : List Int) (lastInsertLen numLiterals : Nat)
    (res : CmdResult)
    (hwin : window ≤ 2 ^ 30) (hmd : md + 15 < 2 ^ 31)
    (hstdw : large = false → window ≤ 2 ^ 26 - 4) (hstdm : large = false → md ≤ 2 ^ 26 - 4)
    (hmb24 : mb.length ≤ 2 ^ 24)
    (hpos : position = hist.length + lastInsertLen) (hmb : mb.length = lastInsertLen + numBytes)
    (hc : CacheI32 cache) (hcl : 4 ≤ cache.length)
    (hn : NodesOK wo window md (hist ++ mb) position numBytes nodes (cache.take 4))
    (h : zopfliCreateCommands 0 0 numBytes position window nodes cache lastInsertLen numLiterals = some res) :
    (∀ c ∈ closeMetaBlock res.cmds res.lastInsertLen, cmdOK (distAlphabetSize large 0 0) 0 0 c = true) ∧
    lockstep wo 0 0 window mb ⟨hist, cache.take 4, 0⟩ 0 (closeMetaBlock res.cmds res.lastInsertLen) = true ∧
    replayCommands wo 0 0 window mb (cache.take 4) hist (closeMetaBlock res.cmds res.lastInsertLen)
      = some (hist ++ mb) := by
  obtain ⟨n0, hn0, hpath⟩ := hn
  subst hpos
  unfold zopfliCreateCommands at h
  simp only [hn0] at h
  cases hl : ccLoop 0 0 (hist.length + lastInsertLen) window nodes (numBytes + 2)
      ⟨0, n0.nextOf, true, cache, lastInsertLen, numLiterals⟩ with
  | none => simp only [hl] at h; cases h
  | some r =>
    obtain ⟨cmds, s'⟩ := r
    simp only [hl, Option.some.injEq] at h
    subst h
    have hs0 : ZSync hist mb lastInsertLen (⟨0, n0.nextOf, true, cache, lastInsertLen, numLiterals⟩ : CC)
        ⟨hist, cache.take 4, 0⟩ (cache.take 4) :=
      ⟨by simp, by simp only []; omega, fun hf => (by cases hf), rfl, rfl, hc, hcl⟩
    obtain ⟨d', ring', hs', hple, hgood, hds, hls⟩ := ccLoop_lockstep wo window md large hist mb lastInsertLen numBytes
      nodes hwin hmd hstdw hstdm hmb24 hmb _ _ _ _ _ _ hl hpath hs0
    have hp24 : (2 : Nat) ^ 24 = 16777216 := by decide
    have hU : U64 = 18446744073709551616 := rfl
    have hw : wsub numBytes s'.pos = numBytes - s'.pos := by
      rw [wsub_eq (by omega) (by omega), if_pos hple]
    have hcur := hs'.cur
    have hlast : s'.lastInsertLen + wsub numBytes s'.pos = mb.length - d'.cursor := by rw [hw]; omega
    have hdle : d'.cursor ≤ mb.length := by omega
    simp only [hlast]
    obtain ⟨hclose, hcdec⟩ := lockstep_close wo 0 0 window hist mb d' hs'.out hdle (by omega)
    have hsplit : closeMetaBlock cmds (mb.length - d'.cursor) = cmds ++ closeMetaBlock [] (mb.length - d'.cursor) := by
      unfold closeMetaBlock; split <;> simp
    refine ⟨?_, ?_, ?_⟩
    · intro c hcm
      rw [hsplit] at hcm
      rcases List.mem_append.mp hcm with h1 | h2
      · exact hgood c h1
      · unfold closeMetaBlock at h2
        by_cases hl0 : mb.length - d'.cursor > 0
        · rw [if_pos hl0] at h2
          simp only [List.nil_append, List.mem_singleton] at h2
          subst h2
          exact cmdOK_initInsert large _ (by omega)
        · rw [if_neg hl0] at h2; cases h2
    · rw [hsplit]
      have := hls (closeMetaBlock [] (mb.length - d'.cursor))
      simp only [] at this
      rw [this]; exact hclose
    · unfold replayCommands
      rw [hsplit, decSteps_append _ _ _ _ _ _ _ _ _ hds]
      exact hcdec

end BV.Zopfli
