import BV.Lemmas.StreamRunHist
/-
Consequences of a well-formed log: the requests tile the input; the emitted pieces compose.
-/
namespace BV.Stream
open BV.Bits

/-- consecutive ranges: `[a, b)` is cut into the `[lo, hi)` of the requests, in order -/
def Tiles : Nat → List Req → Nat → Prop
  | a, [], b => a = b
  | a, r :: rs, b => r.lo = a ∧ r.lo ≤ r.hi ∧ Tiles r.hi rs b

/-- the requests of `encode_data` invocations (sites 0 and 1; site 2 requests carry a block length, not a range) -/
def slowReqs (rs : List Req) : List Req := rs.filter (fun r => r.site != 2)

/-- bytes copied into the ring buffer according to the log -/
def logCopied : List Ev → Nat
  | [] => 0
  | .copy c :: es => c.length + logCopied es
  | _ :: es => logCopied es

theorem logPos_ip (p : Pos) (log : List Ev) : (logPos p log).ip = p.ip + logCopied log := by
  induction log generalizing p with
  | nil => rfl
  | cons e es ih =>
    show (logPos (e.step p) es).ip = p.ip + logCopied (e :: es)
    rw [ih]
    cases e <;> simp [Ev.step, logCopied]
    omega

theorem logPos_k (p : Pos) (log : List Ev) : (logPos p log).k = p.k + (logReqs log).length := logPos_k' p log

/-- **the requests tile the input**: in a well-formed log the `[lo, hi)` of the `encode_data`
requests are consecutive, start at the initial `last_processed_pos_` and end at the final one,
which never runs ahead of `input_pos_` -/
theorem logOK_tiles {p : Pos} {log : List Ev} (h : LogOK p log) (hle : p.lp ≤ p.ip) :
    Tiles p.lp (slowReqs (logReqs log)) (logPos p log).lp ∧ (logPos p log).lp ≤ (logPos p log).ip := by
  induction log generalizing p with
  | nil => exact ⟨rfl, hle⟩
  | cons e es ih =>
    obtain ⟨h1, h2⟩ := h
    show Tiles p.lp (slowReqs (logReqs (e :: es))) (logPos (e.step p) es).lp ∧ (logPos (e.step p) es).lp ≤ (logPos (e.step p) es).ip
    cases e with
    | enc k req pre skel taken =>
      obtain ⟨_, a2, a3, _, a5, _, a7⟩ := h1
      have hs : (Ev.enc k req pre skel taken).step p = { p with lp := p.ip, lf := if taken then p.ip else p.lf + pre, k := p.k + 1 } := rfl
      rw [hs] at h2 ⊢
      obtain ⟨t1, t2⟩ := ih h2 (Nat.le_refl _)
      refine ⟨?_, t2⟩
      have : slowReqs (logReqs (Ev.enc k req pre skel taken :: es)) = req :: slowReqs (logReqs es) := by
        simp [slowReqs, logReqs, Ev.req, List.filter_cons, List.filterMap_cons, a5]
      rw [this]
      refine ⟨a2, by rw [a2, a3]; exact a7, ?_⟩
      rw [a3]; exact t1
    | fast k req =>
      obtain ⟨_, _, a3⟩ := h1
      have hs : (Ev.fast k req).step p = { p with k := p.k + 1 } := rfl
      rw [hs] at h2 ⊢
      have : slowReqs (logReqs (Ev.fast k req :: es)) = slowReqs (logReqs es) := by
        simp [slowReqs, logReqs, Ev.req, List.filter_cons, List.filterMap_cons, a3]
      rw [this]
      exact ih h2 hle
    | copy c =>
      have hs : (Ev.copy c).step p = { p with ip := p.ip + c.length } := rfl
      rw [hs] at h2 ⊢
      have : slowReqs (logReqs (Ev.copy c :: es)) = slowReqs (logReqs es) := by simp [slowReqs, logReqs, Ev.req, List.filterMap_cons]
      rw [this]
      exact ih h2 (Nat.le_trans hle (Nat.le_add_right _ _))
    | window b => exact ih h2 hle
    | push => exact ih h2 hle
    | pad l => exact ih h2 hle
    | mdHeader n l => exact ih h2 hle
    | mdBody b => exact ih h2 hle
    | tau j => exact ih h2 hle

/-! ### composition of emitted pieces -/

/-- input bytes whose encoding an event emits: an `encode_data` invocation advances
`last_flush_pos_` (by the stored prelude, or to `input_pos_` when it closes the meta-block), a
one-shot block covers exactly its bytes -/
def Ev.adv : Ev → Pos → Nat
  | .enc _ _ pre _ taken, p => (if taken then p.ip else p.lf + pre) - p.lf
  | .fast _ r, _ => r.lo
  | _, _ => 0

def logAdv : Pos → List Ev → Nat
  | _, [] => 0
  | p, e :: es => e.adv p + logAdv (e.step p) es

/-- the bits behind the stream header -/
def logBodyBits (o : Oracle) : List Ev → List Bool
  | [] => []
  | .window _ :: es => logBodyBits o es
  | e :: es => e.bits o ++ logBodyBits o es

/-- every emitted piece decodes to the input range it covers (`c` = bytes covered so far) -/
def PiecesDecode (Dec : List Bool → Bytes → Prop) (input : Bytes) (o : Oracle) : Nat → Pos → List Ev → Prop
  | _, _, [] => True
  | c, p, .window _ :: es => PiecesDecode Dec input o c p es
  | c, p, e :: es => Dec (e.bits o) ((input.drop c).take (e.adv p)) ∧ PiecesDecode Dec input o (c + e.adv p) (e.step p) es

theorem take_drop_add (l : Bytes) (c a b : Nat) : (l.drop c).take a ++ (l.drop (c + a)).take b = (l.drop c).take (a + b) := by
  rw [List.take_add, List.drop_drop]

/-- **composition**: if every piece decodes to its range, the whole body decodes to the whole range -/
theorem pieces_compose {Dec : List Bool → Bytes → Prop} (hnil : Dec [] [])
    (happ : ∀ a b x y, Dec a x → Dec b y → Dec (a ++ b) (x ++ y)) (input : Bytes) (o : Oracle) :
    ∀ (log : List Ev) (c : Nat) (p : Pos), PiecesDecode Dec input o c p log →
      Dec (logBodyBits o log) ((input.drop c).take (logAdv p log)) := by
  intro log
  induction log with
  | nil => intro c p _; simpa [logBodyBits, logAdv] using hnil
  | cons e es ih =>
    intro c p h
    cases e with
    | window b =>
      have hs : (Ev.window b).step p = p := rfl
      have ha : (Ev.window b).adv p = 0 := rfl
      show Dec (logBodyBits o es) ((input.drop c).take (logAdv p (Ev.window b :: es)))
      simp only [logAdv, ha, hs, Nat.zero_add]
      exact ih c p h
    | enc k req pre skel taken =>
      obtain ⟨h1, h2⟩ := h
      have := happ _ _ _ _ h1 (ih _ _ h2)
      rw [take_drop_add] at this
      exact this
    | fast k req =>
      obtain ⟨h1, h2⟩ := h
      have := happ _ _ _ _ h1 (ih _ _ h2)
      rw [take_drop_add] at this
      exact this
    | copy ch =>
      obtain ⟨h1, h2⟩ := h
      have := happ _ _ _ _ h1 (ih _ _ h2)
      rw [take_drop_add] at this
      exact this
    | push =>
      obtain ⟨h1, h2⟩ := h
      have := happ _ _ _ _ h1 (ih _ _ h2)
      rw [take_drop_add] at this
      exact this
    | pad l =>
      obtain ⟨h1, h2⟩ := h
      have := happ _ _ _ _ h1 (ih _ _ h2)
      rw [take_drop_add] at this
      exact this
    | mdHeader n l =>
      obtain ⟨h1, h2⟩ := h
      have := happ _ _ _ _ h1 (ih _ _ h2)
      rw [take_drop_add] at this
      exact this
    | mdBody b =>
      obtain ⟨h1, h2⟩ := h
      have := happ _ _ _ _ h1 (ih _ _ h2)
      rw [take_drop_add] at this
      exact this
    | tau j =>
      obtain ⟨h1, h2⟩ := h
      have := happ _ _ _ _ h1 (ih _ _ h2)
      rw [take_drop_add] at this
      exact this

/-- without one-shot blocks the bytes covered are exactly `last_flush_pos_`'s progress -/
theorem logAdv_lf {p : Pos} {log : List Ev} (h : LogOK p log) (hnf : ∀ e ∈ log, ∀ k r, e ≠ .fast k r) :
    p.lf + logAdv p log = (logPos p log).lf := by
  induction log generalizing p with
  | nil => rfl
  | cons e es ih =>
    obtain ⟨h1, h2⟩ := h
    have ih' := ih h2 (fun e' he' => hnf e' (List.mem_cons_of_mem _ he'))
    show p.lf + (e.adv p + logAdv (e.step p) es) = (logPos (e.step p) es).lf
    rw [← ih']
    cases e with
    | enc k req pre skel taken =>
      obtain ⟨_, _, _, _, _, a6, _⟩ := h1
      simp only [Ev.adv, Ev.step]
      split <;> omega
    | fast k r => exact absurd rfl (hnf _ (List.mem_cons_self) k r)
    | copy c => simp [Ev.adv, Ev.step]
    | window b => simp [Ev.adv, Ev.step]
    | push => simp [Ev.adv, Ev.step]
    | pad l => simp [Ev.adv, Ev.step]
    | mdHeader n l => simp [Ev.adv, Ev.step]
    | mdBody b => simp [Ev.adv, Ev.step]
    | tau j => simp [Ev.adv, Ev.step]

theorem logBodyBits_noWindow (o : Oracle) {log : List Ev} (h : NoWindow log) : logBodyBits o log = logBits o log := by
  induction log with
  | nil => rfl
  | cons e es ih =>
    have ih' := ih (fun e' he' => h e' (List.mem_cons_of_mem _ he'))
    have hne : ∀ b, e ≠ .window b := h e List.mem_cons_self
    cases e with
    | window b => exact absurd rfl (hne b)
    | copy c => simp [logBodyBits, logBits, ih'] <;> rfl
    | push => simp [logBodyBits, logBits, ih'] <;> rfl
    | pad l => simp [logBodyBits, logBits, ih'] <;> rfl
    | enc k r p sk tk => simp [logBodyBits, logBits, ih'] <;> rfl
    | fast k r => simp [logBodyBits, logBits, ih'] <;> rfl
    | mdHeader n l => simp [logBodyBits, logBits, ih'] <;> rfl
    | mdBody b => simp [logBodyBits, logBits, ih'] <;> rfl
    | tau j => simp [logBodyBits, logBits, ih'] <;> rfl

theorem deliveredBits_fresh {s : St} (h : IsFresh s) : deliveredBits {} s = [] := by
  obtain ⟨p, rfl⟩ := h
  simp [deliveredBits, St.new, St.carry, bitsOf, bytesBits]

theorem pos_fresh {s : St} (h : IsFresh s) : s.pos = ⟨0, 0, 0, 0⟩ := by
  obtain ⟨p, rfl⟩ := h
  rfl

end BV.Stream
