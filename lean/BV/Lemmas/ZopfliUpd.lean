import BV.Lemmas.ZopfliInv
/-! `UpdateNodes`: every node it writes is sound, so the invariant of the dynamic programme is kept —
whatever the cost model says. -/
namespace BV.Zopfli
open BV.Hasher BV.MatchFinder BV.Recoder BV.PrefixArith BV.MetaBlock BV.Cbr BV

/-! ### queue entries -/

/-- a start position in the queue: already evaluated, and its distance cache is the ring of last
distances at that position -/
structure PDOK {K : Type} (C : ZC) (nodes : Array (Node K)) (lim : Nat) (pd : PosData K) : Prop where
  lt : pd.pos < lim
  ring : RingAt C.window C.base nodes C.start pd.pos (pd.cache.take 4)
  ci : CacheI32 pd.cache
  clen : 4 ≤ pd.cache.length

def QOK {K : Type} (C : ZC) (nodes : Array (Node K)) (lim : Nat) (q : Queue K) : Prop :=
  ∀ j, j < q.size → ∃ pd, q.at j = some pd ∧ PDOK C nodes lim pd

/-- invariant of the dynamic programme together with the queue -/
structure Inv2 {K : Type} (C : ZC) (inf : K) (lim : Nat) (q : Queue K) (nodes : Array (Node K)) : Prop where
  dp : DPInv C inf nodes lim
  qok : QOK C nodes lim q

theorem PDOK.frame {K : Type} {C : ZC} {nodes nodes' : Array (Node K)} {lim : Nat} {pd : PosData K}
    (h : PDOK C nodes lim pd) (hd : DataLe nodes nodes' pd.pos) : PDOK C nodes' lim pd :=
  ⟨h.lt, h.ring.congrLe hd, h.ci, h.clen⟩

theorem Inv2.write {K : Type} {C : ZC} {inf : K} {lim : Nat} {q : Queue K} {nodes : Array (Node K)}
    (h : Inv2 C inf lim q nodes)
    (w : Nat) (nn : Node K) (hlw : lim ≤ w) (hw : w ≤ C.numBytes) (hns : ¬ nn.isStub)
    (hb : BackOK C.wo C.window C.md C.T C.base nodes C.start w nn) (hst : w - (nn.insertLength + nn.copyLength) < lim) :
    Inv2 C inf lim q (nodes.set! w nn) := by
  refine ⟨h.dp.write w nn hlw hw hns hb hst, ?_⟩
  intro j hj
  obtain ⟨pd, hat, hpd⟩ := h.qok j hj
  have hwsz : w < nodes.size := by rw [h.dp.size]; omega
  exact ⟨pd, hat, hpd.frame (dataLe_set nodes w nn hwsz pd.pos (by have := hpd.lt; omega))⟩

/-- side conditions of one path computation: the ring buffer holds the text, sizes -/
structure ZOK (C : ZC) (data : ByteArray) (k tail lo : Nat) : Prop where
  ring : RingView data k tail C.T lo C.T.length
  tail_le : tail ≤ 2 ^ k
  block_le : C.numBytes ≤ tail
  lo_le : lo ≤ C.base - C.window
  tlen : C.T.length = C.base + C.numBytes
  win : C.window ≤ 2 ^ 30
  md : C.md + 15 < 2 ^ 31
  nb : C.numBytes ≤ 2 ^ 24
  pos63 : C.base + C.numBytes < 2 ^ 63

theorem not_stub_of_copyLength {K : Type} (n : Node K) (h : 2 ≤ n.copyLength) : ¬ n.isStub := by
  intro ⟨_, h1⟩
  rw [copyLength_eq, h1] at h
  omega

/-- writing a COPY node found from the start position `pd` keeps the invariant -/
theorem Inv2.write_copy {K : Type} {C : ZC} {inf : K} {lim : Nat} {q : Queue K} {nodes : Array (Node K)}
    (h : Inv2 C inf lim q nodes) {data : ByteArray} {k tail lo : Nat} (hz : ZOK C data k tail lo)
    (pd : PosData K) (hpd : PDOK C nodes lim pd) (pos l backward sc : Nat) (cost : K)
    (hlim : lim = pos + 1) (hl2 : 2 ≤ l) (hfit : pos + l ≤ C.numBytes)
    (hb1 : 1 ≤ backward) (hbw : backward ≤ min (C.base + pos) C.window)
    (htext : ∀ j, j < l → C.T.getD (C.base + pos - backward + j) 0 = C.T.getD (C.base + pos + j) 0)
    (hcode : sc = 0 ∨ (sc ≤ 16 ∧ ∃ u, rfcDistance 0 0 (pd.cache.take 4) (sc - 1) 0 = some ((backward : Int), u))) :
    Inv2 C inf lim q (nodes.set! (pos + l) (mkNode pos pd.pos l l backward sc cost)) := by
  have hp24 : (2 : Nat) ^ 24 = 16777216 := by decide
  have hp30 : (2 : Nat) ^ 30 = 1073741824 := by decide
  have hnb := hz.nb
  have hwin := hz.win
  have h63 := hz.pos63
  have hplt := hpd.lt
  obtain ⟨f1, f2, f3, f4, f5⟩ := mkNode_fields pos pd.pos l l backward sc cost (by omega) (by omega) (by omega) (by omega)
    (by omega) (by omega) (by omega) (by rcases hcode with h0 | ⟨h16, _⟩ <;> omega)
  refine h.write (pos + l) _ (by omega) hfit (not_stub_of_copyLength _ (by rw [f1]; exact hl2)) ?_ (by rw [f1, f3]; omega)
  refine ⟨by rw [f1, f3]; omega, pd.cache.take 4, ?_, ?_⟩
  · rw [f1, f3, show pos + l - (pos - pd.pos + l) = pd.pos by omega]
    exact hpd.ring
  · rw [f1, show C.base + (pos + l) - l = C.base + pos by omega]
    refine ⟨by rw [f1, hz.tlen]; omega, by rw [f4, f5]; exact hcode, Or.inl ?_⟩
    rw [f1, f2, f5]
    exact ⟨hb1, hbw, hl2, rfl, htext⟩

/-- writing a DICTIONARY-reference node found from the start position `pd` keeps the invariant -/
theorem Inv2.write_dict {K : Type} {C : ZC} {inf : K} {lim : Nat} {q : Queue K} {nodes : Array (Node K)}
    (h : Inv2 C inf lim q nodes) {data : ByteArray} {k tail lo : Nat} (hz : ZOK C data k tail lo)
    (pd : PosData K) (hpd : PDOK C nodes lim pd) (pos l lc dist : Nat) (cost : K)
    (hlim : lim = pos + 1) (hl2 : 2 ≤ l) (hfit : pos + l ≤ C.numBytes)
    (hgt : dist > min (C.base + pos) C.window) (hmd : dist ≤ C.md)
    (h4 : 4 ≤ lc) (h24 : lc ≤ 24) (hlc9 : lc ≤ l + 9) (hl64 : l ≤ lc + 64)
    (hw : C.wo lc ((dist - min (C.base + pos) C.window - 1) % 2 ^ dictSizeBits.getD lc 0)
          ((dist - min (C.base + pos) C.window - 1) / 2 ^ dictSizeBits.getD lc 0)
        = some ((C.T.drop (C.base + pos)).take l)) :
    Inv2 C inf lim q (nodes.set! (pos + l) (mkNode pos pd.pos l lc dist 0 cost)) := by
  have hp24 : (2 : Nat) ^ 24 = 16777216 := by decide
  have hnb := hz.nb
  have hmd31 := hz.md
  have h63 := hz.pos63
  have hplt := hpd.lt
  obtain ⟨f1, f2, f3, f4, f5⟩ := mkNode_fields pos pd.pos l lc dist 0 cost (by omega) hlc9 (by omega) (by omega)
    (by omega) (by omega) (by omega) (by omega)
  refine h.write (pos + l) _ (by omega) hfit (not_stub_of_copyLength _ (by rw [f1]; exact hl2)) ?_ (by rw [f1, f3]; omega)
  refine ⟨by rw [f1, f3]; omega, pd.cache.take 4, ?_, ?_⟩
  · rw [f1, f3, show pos + l - (pos - pd.pos + l) = pd.pos by omega]
    exact hpd.ring
  · rw [f1, show C.base + (pos + l) - l = C.base + pos by omega]
    refine ⟨by rw [f1, hz.tlen]; omega, Or.inl f4, Or.inr ?_⟩
    rw [f1, f2, f4, f5]
    exact ⟨hgt, hmd, rfl, h4, h24, by omega, by omega, hl64, hw⟩

/-! ### the sixteen short codes of `UpdateNodes` are the RFC's -/

theorem zopfli_short_code (ring : List Int) (j : Nat) (hj : j < 16) (ci : Int)
    (h : ring[(kDistanceCacheIndex.getD j 0) &&& 3]? = some ci) :
    rfcDistance 0 0 ring j 0 = some (ci + kDistanceCacheOffset.getD j 0, decide (j ≠ 0)) := by
  have hc : j = 0 ∨ j = 1 ∨ j = 2 ∨ j = 3 ∨ j = 4 ∨ j = 5 ∨ j = 6 ∨ j = 7 ∨ j = 8 ∨ j = 9 ∨ j = 10 ∨ j = 11 ∨
      j = 12 ∨ j = 13 ∨ j = 14 ∨ j = 15 := by omega
  rcases hc with rfl | rfl | rfl | rfl | rfl | rfl | rfl | rfl | rfl | rfl | rfl | rfl | rfl | rfl | rfl | rfl <;>
    simp [kDistanceCacheIndex, kDistanceCacheOffset] at h <;>
    simp [rfcDistance, kDistanceCacheOffset, h] <;> omega

/-! ### the loops that write nodes: any write-closed predicate is kept -/

theorem cacheLens_inv {K : Type} (P : Array (Node K) → Prop) (ops : CostOps K) (m : CostModel K)
    (pos start inscode j backward : Nat) (baseCost distCost : K) :
    ∀ (cnt l : Nat) (s s' : UN K),
      cacheLens ops m pos start inscode j backward baseCost distCost cnt l s = some s' → P s.nodes →
      (∀ (l' : Nat) (nodes : Array (Node K)) (cost : K), l ≤ l' → l' < l + cnt → P nodes → pos + l' < nodes.size →
        P (nodes.set! (pos + l') (mkNode pos start l' l' backward (j + 1) cost))) →
      P s'.nodes := by
  intro cnt
  induction cnt with
  | zero =>
    intro l s s' h hp _
    rw [cacheLens] at h
    injection h with h; subst h; exact hp
  | succ cnt ih =>
    intro l s s' h hp hW
    rw [cacheLens] at h
    simp only [] at h
    cases hc : m.costCmd[combineLengthCodes inscode (getCopyLengthCode l) (j == 0)]? with
    | none => simp only [hc] at h; cases h
    | some cc =>
      cases hn : s.nodes[pos + l]? with
      | none => simp only [hc, hn] at h; cases h
      | some n =>
        simp only [hc, hn] at h
        by_cases hlt : ops.lt (ops.add (ops.add (if combineLengthCodes inscode (getCopyLengthCode l) (j == 0) < 128 then baseCost
            else distCost) (ops.ofNat (Gen.kCopyExtra.getD (getCopyLengthCode l) 0))) cc) (costOf ops n) = true
        · rw [if_pos hlt, updateZopfliNode_eq] at h
          by_cases hsz : pos + l < s.nodes.size
          · rw [if_pos hsz] at h
            simp only [] at h
            exact ih (l + 1) _ s' h (hW l s.nodes _ (Nat.le_refl _) (by omega) hp hsz)
              (fun l' nodes cost h1 h2 => hW l' nodes cost (by omega) (by omega))
          · rw [if_neg hsz] at h; cases h
        · rw [if_neg hlt] at h
          exact ih (l + 1) s s' h hp (fun l' nodes cost h1 h2 => hW l' nodes cost (by omega) (by omega))

theorem matchLens_inv {K : Type} (P : Array (Node K) → Prop) (ops : CostOps K) (m : CostModel K)
    (pos start inscode : Nat) (isDict : Bool) (mlc dist : Nat) (distCost : K) :
    ∀ (cnt len : Nat) (s s' : UN K),
      matchLens ops m pos start inscode isDict mlc dist distCost cnt len s = some s' → P s.nodes →
      (∀ (l' : Nat) (nodes : Array (Node K)) (cost : K), len ≤ l' → l' < len + cnt → P nodes → pos + l' < nodes.size →
        P (nodes.set! (pos + l') (mkNode pos start l' (if isDict then mlc else l') dist 0 cost))) →
      P s'.nodes := by
  intro cnt
  induction cnt with
  | zero =>
    intro l s s' h hp _
    rw [matchLens] at h
    injection h with h; subst h; exact hp
  | succ cnt ih =>
    intro l s s' h hp hW
    rw [matchLens] at h
    simp only [] at h
    cases hc : m.costCmd[combineLengthCodes inscode (getCopyLengthCode (if isDict = true then mlc else l)) false]? with
    | none => simp only [hc] at h; cases h
    | some cc =>
      cases hn : s.nodes[pos + l]? with
      | none => simp only [hc, hn] at h; cases h
      | some n =>
        simp only [hc, hn] at h
        have hno : matchLens ops m pos start inscode isDict mlc dist distCost cnt (l + 1) s = some s' → P s'.nodes :=
          fun h' => ih (l + 1) s s' h' hp (fun l' nodes cost h1 h2 => hW l' nodes cost (by omega) (by omega))
        cases hu : n.u with
        | cost nc =>
          simp only [hu] at h
          by_cases hlt : ops.lt (ops.add (ops.add distCost (ops.ofNat (Gen.kCopyExtra.getD
              (getCopyLengthCode (if isDict = true then mlc else l)) 0))) cc) nc = true
          · rw [if_pos hlt, updateZopfliNode_eq] at h
            by_cases hsz : pos + l < s.nodes.size
            · rw [if_pos hsz] at h
              simp only [] at h
              exact ih (l + 1) _ s' h (hW l s.nodes _ (Nat.le_refl _) (by omega) hp hsz)
                (fun l' nodes cost h1 h2 => hW l' nodes cost (by omega) (by omega))
            · rw [if_neg hsz] at h; cases h
          · rw [if_neg hlt] at h
            exact hno h
        | next o =>
          simp only [hu] at h
          exact hno (by simpa using h)
        | shortcut o =>
          simp only [hu] at h
          exact hno (by simpa using h)

end BV.Zopfli
