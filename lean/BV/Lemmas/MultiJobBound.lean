/-
Helper lemmas for C02 `multi_succeeds_when_sized`: the per-job size bound, derived from w-header's
C08 development (`streamStart_length`, `run_bound`; hypotheses `Guard`/`Run`, `BlocksOK` of the
payload encoder) instead of an observed slack.
-/
import BV.Lemmas.HeaderStreamBound

namespace BV.Lemmas.Multi
open BV.Header

/-- `len` is the byte length of a never-flushed single-stream output of C08's shape for the input
`x` under parameters `p`: either the payload-independent head is the whole stream, or it is
followed by meta-blocks of input lengths `lens` obeying `Guard` (`Run`) and `BlocksOK`, and the
empty last meta-block. THE remaining hypothesis about the encoder in `multi_succeeds_when_sized`. -/
def JobStream (p : Params) (x : List Nat) (len : Nat) : Prop :=
  ∃ st, streamStart true p x = .ok st ∧
    ((st.whole = true ∧ len = st.bits.length / 8) ∨
     (st.whole = false ∧ ∃ lens Pm, Run st.bits.length lens Pm ∧ BlocksOK st.prelude lens ∧
        lens.sum + st.prelude = x.length ∧ len = (Pm + 2 + 7) / 8))

/-- what a job may add to `|x| + 4·(|x| ≫ 14)`: by header form (`wmax` = an upper bound of the
window-field length: 14 always, 4 for lgwin 16 and 18..24 in the normal form) -/
def jobSlack (wmax : Nat) (magic catable : Bool) : Nat :=
  if wmax ≤ 4 then (if magic then (if catable then 21 else 18) else if catable then 9 else 6)
  else (if magic then (if catable then 22 else 19) else if catable then 11 else 7)

theorem jobStream_le (p : Params) (x : List Nat) (len wmax : Nat) (hq : 2 ≤ p.quality) (hh : p.sizeHint < 2 ^ 35)
    (hn : x.length < 2 ^ 54) (hW : (ensureInitialized true p).lastBytesBits ≤ wmax) (hw4 : wmax ≤ 4 ∨ 14 ≤ wmax)
    (h : JobStream p x len) :
    len ≤ x.length + 4 * (x.length / 2 ^ 14) + jobSlack wmax p.magicNumber p.catable := by
  obtain ⟨st, hs, hcase⟩ := h
  obtain ⟨s1, s2, s3⟩ := streamStart_length p x st hq (by omega) hs
  obtain ⟨w1, w2⟩ := lastBytesBits_le p
  have hk : (encodeBase128 (effectiveParams p x.length).sizeHint).length ≤ 5 :=
    encodeBase128_length_le _ 5 (by decide) (by decide)
      (by have := effective_hint_lt35 p x.length (by omega) hh; omega)
      (by have := effective_hint_lt35 p x.length (by omega) hh; omega)
  have hk1 := (encodeBase128_spec (effectiveParams p x.length).sizeHint
      (by have := effective_hint_lt35 p x.length (by omega) hh; omega) []).2.1
  generalize (encodeBase128 (effectiveParams p x.length).sizeHint).length = k at *
  generalize (ensureInitialized true p).lastBytesBits = W at *
  have hpre : st.prelude ≤ 2 ∧ st.prelude ≤ x.length := by rw [s1]; split <;> omega
  have hprec : p.catable = false → st.prelude = 0 := by intro hc; rw [s1, hc]; simp
  have hpc : p.catable = true → st.prelude = min 2 x.length := by intro hc; rw [s1, hc]; simp
  generalize st.prelude = pre at *
  generalize x.length = n at *
  simp only [headLen] at s3
  have hpre3 : pre = 0 ∨ pre = 1 ∨ pre = 2 := by omega
  unfold jobSlack
  have hs4 : (wmax ≤ 4 ∧ W ≤ 4) ∨ (¬ wmax ≤ 4) := by omega
  rcases hcase with ⟨hw, hlen⟩ | ⟨hw, lens, Pm, hrun, hblocks, hsum, hlen⟩
  · have hnp : n = pre := s2.mp hw
    simp only [hnp, if_true] at s3
    rw [hlen, s3]
    cases hm : p.magicNumber <;> cases hc : p.catable <;>
      simp only [hm, hc, if_true, if_false, Bool.false_eq_true] at s3 hprec hpc ⊢ <;>
      rcases hpre3 with h | h | h <;> subst h <;>
      simp only [ne_eq, Nat.reduceEqDiff, eq_self, not_true_eq_false, not_false_eq_true, if_true, if_false, forall_const] at s3 hprec hpc ⊢ <;>
      (first
        | omega
        | (rcases hs4 with ⟨h4, hW4⟩ | h4 <;> simp only [h4, if_true, if_false] <;> omega))
  · have hnp : ¬ n = pre := by
      intro h; have := s2.mpr h; rw [hw] at this; exact Bool.false_ne_true this
    simp only [hnp, if_false] at s3
    have hb := run_bound hrun pre hblocks
    have hne : lens ≠ [] := by
      intro h; subst h; simp at hsum; omega
    simp only [hne, if_false, Nat.add_zero] at hb
    rw [s3] at hb
    have hs2 : lens.sum = n - pre := by omega
    rw [hs2] at hb
    have hnp' : n - pre + pre = n := by omega
    rw [hnp'] at hb
    rw [hlen]
    cases hm : p.magicNumber <;> cases hc : p.catable <;>
      simp only [hm, hc, if_true, if_false, Bool.false_eq_true] at hb hprec hpc ⊢ <;>
      rcases hpre3 with h | h | h <;> subst h <;>
      simp only [ne_eq, Nat.reduceEqDiff, eq_self, not_true_eq_false, not_false_eq_true, if_true, if_false, forall_const] at hb hprec hpc ⊢ <;>
      (first
        | omega
        | (rcases hs4 with ⟨h4, hW4⟩ | h4 <;> simp only [h4, if_true, if_false] <;> omega))

end BV.Lemmas.Multi
