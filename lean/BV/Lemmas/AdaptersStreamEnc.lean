import BV.Lemmas.AdaptersHyp
import BV.Lemmas.AdaptersStream
/-
The stream-machine model (M8) as an encoder of the adapters (M9): `streamEnc o`, and the proofs that
it meets `EncSane` and `EncProgress` — so that `read_returns`, `write_returns`, `flush_returns`,
`into_inner_returns`, `copy_terminates` hold for the MODELLED encoder, for every payload oracle `o`
— NO hypothesis on the oracle is left: the cross-call ranks are functions of the state alone
(`rankPF`, `rankFl` over `stateCap`), and one call's potential runs with the per-call storage bound `callCap`.
-/
namespace BV.Adapters
open BV.Stream
open Classical

def opCode : Op → Nat
  | .process => 0
  | .flush => 1
  | .finish => 2

theorem opCode_le (op : Op) : opCode op ≤ 2 := by cases op <;> simp [opCode]

/-- answer of a dead encoder -/
def deadAns : EncAns := ⟨0, [], false, 0⟩

/-- `BrotliEncoderStateStruct` as modelled by `BV.Stream`, seen through the `Enc` interface.
`none` = the call panicked / ran out of the model's fuel / was made outside the envelope in which
the stream model's theorems apply (`Good`: invariant of the machine between calls outside metadata
blocks, carry ≤ 14 bits, a requested flush has something pending; stream position below 2^64).
`streamEnc_alive` shows that accepted calls never leave the envelope by themselves. -/
noncomputable def streamEnc (o : Oracle) : Enc (Option St) where
  step s op inp cap :=
    match s with
    | none => (none, deadAns)
    | some s =>
      if Good s ∧ s.inputPos + inp.length < two64 then
        match compressStream o (callFuel s inp.length cap) s (opCode op) inp cap with
        | .ok (s', io', r) => (some s', ⟨inp.length - io'.availIn, io'.out, r, s'.totalOut⟩)
        | _ => (none, deadAns)
      else (none, deadAns)
  hasMore s := match s with | some s => hasMoreOutput s | none => false
  isFinished s := match s with | some s => BV.Stream.isFinished s | none => false

/-- one step of `streamEnc`, described -/
theorem streamEnc_step (o : Oracle) (s : Option St) (op : Op) (inp : Bytes) (cap : Nat) :
    ((streamEnc o).step s op inp cap = (none, deadAns)) ∨
    (∃ s0 s' io' r, s = some s0 ∧ Good s0 ∧ s0.inputPos + inp.length < two64 ∧
      compressStream o (callFuel s0 inp.length cap) s0 (opCode op) inp cap = .ok (s', io', r) ∧
      (streamEnc o).step s op inp cap = (some s', ⟨inp.length - io'.availIn, io'.out, r, s'.totalOut⟩)) := by
  cases s with
  | none => exact Or.inl rfl
  | some s0 =>
    by_cases hg : Good s0 ∧ s0.inputPos + inp.length < two64
    · cases hc : compressStream o (callFuel s0 inp.length cap) s0 (opCode op) inp cap with
      | ok x =>
        obtain ⟨s', io', r⟩ := x
        right
        refine ⟨s0, s', io', r, rfl, hg.1, hg.2, hc, ?_⟩
        show (if Good s0 ∧ s0.inputPos + inp.length < two64 then _ else _) = _
        rw [if_pos hg, hc]
      | panic =>
        left
        show (if Good s0 ∧ s0.inputPos + inp.length < two64 then _ else _) = _
        rw [if_pos hg, hc]
      | fuel =>
        left
        show (if Good s0 ∧ s0.inputPos + inp.length < two64 then _ else _) = _
        rw [if_pos hg, hc]
    · left
      show (if Good s0 ∧ s0.inputPos + inp.length < two64 then _ else _) = _
      rw [if_neg hg]

theorem streamEnc_sane (o : Oracle) : EncSane (streamEnc o) := by
  constructor
  · intro s op inp cap
    rcases streamEnc_step o s op inp cap with h | ⟨s0, s', io', r, _, _, _, _, h⟩
    · rw [h]; simp [deadAns]
    · rw [h]; exact Nat.sub_le _ _
  · intro s op inp cap
    rcases streamEnc_step o s op inp cap with h | ⟨s0, s', io', r, _, hG, hw, hc, h⟩
    · rw [h]; simp [deadAns]
    · rw [h]
      have := (call_good (opCode_le op) hG hw hc).1
      show io'.out.length ≤ cap
      omega

/-- rank of the wrapped state for PROCESS / FINISH requests, and for FLUSH requests -/
def sRankPF : Option St → Nat
  | some s => rankPF s
  | none => 0
def sRankFl : Option St → Nat
  | some s => rankFl s
  | none => 0

def opsPF : Op → Prop := fun op => op = .process ∨ op = .finish
def opsFl : Op → Prop := fun op => op = .flush

theorem streamEnc_progress_pf (o : Oracle) : EncProgress (streamEnc o) opsPF sRankPF := by
  constructor
  intro s op inp cap hops hcap hok hcons hdem
  rcases streamEnc_step o s op inp cap with h | ⟨s0, s', io', r, hs, hG, hw, hc, h⟩
  · rw [h] at hok; simp [deadAns] at hok
  · rw [h] at hok hcons hdem ⊢
    subst hs
    simp only at hok hcons hdem
    subst hok
    obtain ⟨_, q2, _, q4⟩ := call_good (opCode_le op) hG hw hc
    have hav : io'.availIn = inp.length := by omega
    obtain ⟨g1, g2, _⟩ := q4 rfl hcap hav
    show rankPF s' < rankPF s0
    rcases hdem with ⟨h1, h2⟩ | ⟨h1, h2, h3⟩ | ⟨h1, _, _⟩
    · subst h1
      exact g1 rfl (fun hz => h2 (List.eq_nil_of_length_eq_zero hz))
    · subst h1 h2
      exact g2 rfl rfl h3
    · subst h1
      rcases hops with h | h <;> cases h

theorem streamEnc_progress_fl (o : Oracle) : EncProgress (streamEnc o) opsFl sRankFl := by
  constructor
  intro s op inp cap hops hcap hok hcons hdem
  rcases streamEnc_step o s op inp cap with h | ⟨s0, s', io', r, hs, hG, hw, hc, h⟩
  · rw [h] at hok; simp [deadAns] at hok
  · rw [h] at hok hcons hdem ⊢
    subst hs
    simp only at hok hcons hdem
    subst hok
    obtain ⟨_, q2, _, q4⟩ := call_good (opCode_le op) hG hw hc
    have hav : io'.availIn = inp.length := by omega
    obtain ⟨_, _, g3⟩ := q4 rfl hcap hav
    show rankFl s' < rankFl s0
    have hop : op = .flush := hops
    subst hop
    rcases hdem with ⟨h1, _⟩ | ⟨h1, _, _⟩ | ⟨_, h2, h3⟩
    · cases h1
    · cases h1
    · subst h2
      exact g3 rfl rfl h3

/-- accepted calls keep the encoder inside the envelope: the state after a call that did not die is
`Good` again (so the next call is not refused for the envelope's sake) -/
theorem streamEnc_alive (o : Oracle) (s : Option St) (op : Op) (inp : Bytes) (cap : Nat)
    (s' : St) (h : ((streamEnc o).step s op inp cap).1 = some s') : Good s' := by
  rcases streamEnc_step o s op inp cap with h1 | ⟨s0, s1, io', r, _, hG, hw, hc, h1⟩
  · rw [h1] at h; cases h
  · rw [h1] at h
    simp only [Option.some.injEq] at h
    subst h
    exact (call_good (opCode_le op) hG hw hc).2.2.1

theorem encodeWindowBits_le (lg : Int) (large : Bool) : (encodeWindowBits lg large).2 ≤ 14 := by
  unfold encodeWindowBits
  split
  · simp
  · split
    · simp
    · split
      · simp
      · split <;> simp

/-- a freshly initialised encoder is inside the envelope -/
theorem good_fresh {s : St} (hf : IsFresh s) : Good (ensureInitialized s) := by
  obtain ⟨hI, _, _⟩ := inv_fresh hf
  obtain ⟨p, rfl⟩ := hf
  refine ⟨hI, by simp [ensureInitialized, St.new], ?_, by simp [ensureInitialized, St.new]⟩
  simp only [ensureInitialized, St.new]
  simp only [Bool.false_eq_true, if_false]
  exact encodeWindowBits_le _ _

end BV.Adapters
