/-
The closing half of `encode_data` (`BV.E2E.writePart`: last_insert_len merge, WriteMetaBlockInternal, distance-cache
rollback, bookkeeping reset) with the RFC reader's state threaded through: for ANY command list that is in lock step with
the decoder and whose decoder run ends in `⟨hist ++ mb, cache'[..4], |mb|⟩` (what `cbr_final_state` — w-compose,
BV/Lemmas/ChainFinal.lean — establishes for one CreateBackwardReferences call, and `Merged` for several), the reader ends in
`⟨hist ++ mb, dist_cache_[..4] AFTER the invocation⟩` — incl. the stored outcome, where the reader's ring is unchanged and the
encoder rolls `dist_cache_` back to `saved_dist_cache_`.
-/
import BV.Props.C01E2E
import BV.Lemmas.ChainFinal
import BV.Lemmas.E2EWmbi

namespace BV.E2E
open BV.Hasher BV.MatchFinder BV.Recoder BV.PrefixArith BV.MetaBlock BV.Cbr BV.Bits BV.Props.C01Chain BV.Props.C01E2E

theorem take4_rollback (a b : List Int) (ha : 4 ≤ a.length) : ((a.take 4).take 4 ++ b.drop 4).take 4 = a.take 4 := by
  rw [List.take_take, Nat.min_self]
  exact List.take_left' (by rw [List.length_take]; omega)

/-- what the payload state looks like between meta-blocks -/
structure Fresh (ps : PSt) : Prop where
  cmds : ps.cmds = []
  lil : ps.lastInsertLen = 0
  i32 : CacheI32 ps.distCache
  len : 4 ≤ ps.distCache.length
  saved : ps.savedDistCache = ps.distCache.take 4

theorem writePart_roundtrip (e : EParams) (wo : WordOracle) (data : ByteArray) (k tail : Nat)
    (hist mb : Bytes) (lo : Nat) (hb : BlockOK e.cbr e.large data k tail hist mb lo)
    (hsize : 2 ^ k ≤ data.size) (hmbk : mb.length ≤ 2 ^ k)
    (cache0 saved cacheR : List Int) (hc0 : CacheI32 cache0) (hcl0 : 4 ≤ cache0.length) (hsv : saved = cache0.take 4)
    (hcR : CacheI32 cacheR) (hclR : 4 ≤ cacheR.length)
    (cmds : List Cmd) (lil numLiterals : Nat) (hT : Tab × Common)
    (hok : ∀ c ∈ closeMetaBlock cmds lil, cmdOK (distAlphabetSize e.large 0 0) 0 0 c = true)
    (hlock : lockstep wo 0 0 (maxBackwardLimit e.cbr) mb ⟨hist, cache0.take 4, 0⟩ 0 (closeMetaBlock cmds lil) = true)
    (hfin : decSteps wo 0 0 (maxBackwardLimit e.cbr) mb ⟨hist, cache0.take 4, 0⟩ (closeMetaBlock cmds lil)
      = some ⟨hist ++ mb, cacheR.take 4, mb.length⟩)
    (lp lf ip : Nat) (hlf : lf = hist.length) (hlp : lp ≤ ip) (hip : ip = hist.length + mb.length)
    (hsmall : ip < 2 ^ 30) (h1 : 1 ≤ mb.length) (hcat : e.catable = true → e.appendable = true)
    (isLast verdict : Bool) (w : List Bool) (hw : w.length < 256) (r : Res)
    (h : writePart e data (2 ^ k - 1) lp lf ip isLast verdict saved hT cacheR cmds lil numLiterals w = .ok r) :
    ∃ bits, r.w = w ++ bits ∧ r.emit = true ∧ r.wrote = true ∧ Fresh r.st ∧
      (isLast = true → ∀ rest f, readMetaBlocks wo (maxBackwardLimit e.cbr) e.large (f + 2) w.length
          ⟨hist, cache0.take 4⟩ (bits ++ rest) = some (⟨hist ++ mb, r.st.distCache.take 4⟩, rest)) ∧
      (isLast = false → ReadsTo wo (maxBackwardLimit e.cbr) e.large w.length ⟨hist, cache0.take 4⟩ bits false
          (w.length + bits.length) ⟨hist ++ mb, r.st.distCache.take 4⟩) := by
  have hU : U32 = 4294967296 := rfl
  have hlen24 := hb.len
  have hlenmb : (ip - lf) % U32 = mb.length := by
    rw [hip, hlf, Nat.add_sub_cancel_left]; exact Nat.mod_eq_of_lt (by omega)
  have hwlf : wrapPosition lf = hist.length := by rw [hlf]; exact wrapPosition_small (by omega)
  have hwip : ¬ wrapPosition ip < wrapPosition lp := by
    rw [wrapPosition_small hsmall, wrapPosition_small (by omega)]; omega
  unfold writePart at h
  simp only [hlenmb, hwlf] at h
  rw [if_neg (by intro hh; have := hh.2; omega)] at h
  cases hmbB : mbBytes data (2 ^ k - 1) hist.length mb.length with
  | panic => rw [hmbB] at h; cases h
  | fuel => rw [hmbB] at h; cases h
  | ok mb' =>
    rw [hmbB] at h
    obtain ⟨rfl, hRH, h256⟩ := mbBytes_of_blockOK hb hmbB
    have hpos2 : 0 < 2 ^ k := Nat.pow_pos (by decide)
    have hIP : inputPairCheck (ringList data) hist.length mb'.length (2 ^ k - 1) = .ok () :=
      inputPairCheck_ok' _ _ _ _ (by rw [ringList_length]; omega) (by omega)
    have hst : hist.length < MetaBlock.two64 := by have := hb.total; unfold MetaBlock.two64; omega
    have hne : ¬ mb'.length = 0 := by omega
    -- everything behind the attempt, for whichever attempt bits
    have hmain : ∀ att : List Bool,
        (verdict = true → ∀ rest, readMetaBlockFull wo (maxBackwardLimit e.cbr) e.large w.length ⟨hist, cache0.take 4⟩ (att ++ rest)
            = some (⟨hist ++ mb', cacheR.take 4⟩, (if e.appendable then false else isLast), (w ++ att).length, rest)) →
        (match BV.Stored.writeMetaBlockInternal e.appendable e.catable isLast mb' ⟨verdict, att⟩ w with
          | .panic => Out.panic
          | .fuel => Out.fuel
          | .ok out =>
            if wrapPosition ip < wrapPosition lp then Out.fuel
            else Out.ok ({ st := { hasher := some hT,
                                   distCache := if (decide (mb'.length ≠ 0) && (!verdict || decide (mb'.length + 4 + (w.length >>> 3) < (w.length + att.length) >>> 3))) = true
                                     then saved.take 4 ++ cacheR.drop 4 else cacheR,
                                   savedDistCache := (if (decide (mb'.length ≠ 0) && (!verdict || decide (mb'.length + 4 + (w.length >>> 3) < (w.length + att.length) >>> 3))) = true
                                     then saved.take 4 ++ cacheR.drop 4 else cacheR).take 4,
                                   cmds := [], numLiterals := 0, lastInsertLen := 0 },
                           emit := true, w := out.fin,
                           stored := decide (mb'.length ≠ 0) && (!verdict || decide (mb'.length + 4 + (w.length >>> 3) < (w.length + att.length) >>> 3)),
                           wrote := true, cmds := closeMetaBlock cmds lil } : Res)) = .ok r →
        ∃ bits, r.w = w ++ bits ∧ r.emit = true ∧ r.wrote = true ∧ Fresh r.st ∧
          (isLast = true → ∀ rest f, readMetaBlocks wo (maxBackwardLimit e.cbr) e.large (f + 2) w.length
              ⟨hist, cache0.take 4⟩ (bits ++ rest) = some (⟨hist ++ mb', r.st.distCache.take 4⟩, rest)) ∧
          (isLast = false → ReadsTo wo (maxBackwardLimit e.cbr) e.large w.length ⟨hist, cache0.take 4⟩ bits false
              (w.length + bits.length) ⟨hist ++ mb', r.st.distCache.take 4⟩) := by
      intro att hatt hh
      obtain ⟨ro, bits, e1, e2, e4, e5⟩ := wmbi_reads_state wo (maxBackwardLimit e.cbr) e.large e.appendable e.catable isLast mb'
        ⟨verdict, att⟩ w ⟨hist, cache0.take 4⟩ ⟨hist ++ mb', cacheR.take 4⟩ hcat h1 hlen24 hw h256
        (fun hv => by intro rest; rw [hatt hv rest, List.length_append])
      rw [e1] at hh
      simp only [] at hh
      rw [if_neg hwip] at hh
      simp only [Out.ok.injEq] at hh
      subst hh
      have hstored : (decide (mb'.length ≠ 0) && (!verdict || decide (mb'.length + 4 + (w.length >>> 3) < (w.length + att.length) >>> 3)))
          = wmbiStored mb' ⟨verdict, att⟩ w := by
        unfold wmbiStored
        simp only [List.length_append, hne, ne_eq, not_false_eq_true, decide_true, Bool.true_and]
      simp only [hstored] at e4 e5 ⊢
      cases hs : wmbiStored mb' ⟨verdict, att⟩ w with
      | true =>
        simp only [hs, if_true] at e4 e5 ⊢
        have ht : (saved.take 4 ++ cacheR.drop 4).take 4 = cache0.take 4 := by
          rw [hsv]; exact take4_rollback cache0 cacheR hcl0
        refine ⟨bits, e2, trivial, trivial, ⟨rfl, rfl, ?_, ?_, rfl⟩, ?_, ?_⟩
        · intro x hx; rw [ht] at hx; exact hc0 x hx
        · rw [List.length_append, List.length_drop, hsv, List.length_take, List.length_take]; omega
        · rw [ht]; exact e4
        · rw [ht]; exact e5
      | false =>
        simp only [hs, Bool.false_eq_true, if_false] at e4 e5 ⊢
        exact ⟨bits, e2, trivial, trivial, ⟨rfl, rfl, hcR, hclR, rfl⟩, e4, e5⟩
    cases verdict with
    | false =>
      simp only [Bool.not_false, or_true, if_true] at h
      exact hmain [] (fun hv => by cases hv) h
    | true =>
      simp only [hne, Bool.not_true, Bool.false_eq_true, or_self, if_false] at h
      by_cases hq2 : e.quality ≤ 2
      · obtain ⟨att, fin, ew, hdec, _, hrd⟩ := fast_core wo (maxBackwardLimit e.cbr) e.large (ringList data) hist.length
          (2 ^ k - 1) mb' (if e.appendable then false else isLast) (closeMetaBlock cmds lil) hist (cache0.take 4) w
          hRH h256 h1 hlen24 hst hIP hok hlock
        have hf : fin = ⟨hist ++ mb', cacheR.take 4, mb'.length⟩ := Option.some.inj (hdec.symm.trans hfin)
        subst hf
        rw [if_pos hq2, ew] at h
        simp only [Out.bind, List.drop_left' rfl] at h
        exact hmain att (fun _ => hrd) h
      · obtain ⟨att, fin, ew, hdec, _, hrd⟩ := trivial_core wo (maxBackwardLimit e.cbr) e.large (ringList data) hist.length
          (2 ^ k - 1) mb' (if e.appendable then false else isLast) (closeMetaBlock cmds lil) hist (cache0.take 4) w
          hRH h256 h1 hlen24 hst hIP hok hlock
        have hf : fin = ⟨hist ++ mb', cacheR.take 4, mb'.length⟩ := Option.some.inj (hdec.symm.trans hfin)
        subst hf
        rw [if_neg hq2, ew] at h
        simp only [Out.bind, List.drop_left' rfl] at h
        exact hmain att (fun _ => hrd) h

end BV.E2E
