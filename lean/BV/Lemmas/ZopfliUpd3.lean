import BV.Lemmas.ZopfliUpd2
/-! `UpdateNodes`, continued: one queue candidate, `ComputeMinimumCopyLength`, the candidate loop. -/
namespace BV.Zopfli
open BV.Hasher BV.MatchFinder BV.Recoder BV.PrefixArith BV.MetaBlock BV.Cbr BV

theorem forRange_inv {σ : Type} (P : σ → Prop) (f : Nat → σ → Option σ) :
    ∀ (n s : Nat) (x y : σ), forRange f s n x = some y → P x →
      (∀ i a b, s ≤ i → i < s + n → f i a = some b → P a → P b) → P y := by
  intro n
  induction n with
  | zero =>
    intro s x y h hp _
    rw [forRange] at h
    injection h with h; subst h; exact hp
  | succ n ih =>
    intro s x y h hp hf
    rw [forRange] at h
    cases hfx : f s x with
    | none => simp only [hfx] at h; cases h
    | some z =>
      simp only [hfx] at h
      exact ih (s + 1) z y h (hf s x z (Nat.le_refl _) (by omega) hfx hp)
        (fun i a b h1 h2 => hf i a b (by omega) (by omega))

/-- `ComputeMinimumCopyLength` never returns less than its starting length, nor more than fuel allows -/
theorem minLenLoop_bounds {K : Type} (ops : CostOps K) (nodes : Array (Node K)) (numBytes pos : Nat) :
    ∀ (fuel : Nat) (minCost : K) (len bucket offset r : Nat),
      minLenLoop ops nodes numBytes pos fuel minCost len bucket offset = some r → len ≤ r ∧ r ≤ len + fuel := by
  intro fuel
  induction fuel with
  | zero => intro minCost len bucket offset r h; rw [minLenLoop] at h; cases h
  | succ fuel ih =>
    intro minCost len bucket offset r h
    rw [minLenLoop] at h
    by_cases h1 : pos + len ≤ numBytes
    · rw [if_pos h1] at h
      cases hn : nodes[pos + len]? with
      | none => simp only [hn] at h; cases h
      | some n =>
        simp only [hn] at h
        by_cases h2 : ops.le (costOf ops n) minCost = true
        · rw [if_pos h2] at h
          by_cases h3 : len + 1 = offset
          · rw [if_pos h3] at h
            obtain ⟨a, b⟩ := ih _ _ _ _ _ h
            exact ⟨by omega, by omega⟩
          · rw [if_neg h3] at h
            obtain ⟨a, b⟩ := ih _ _ _ _ _ h
            exact ⟨by omega, by omega⟩
        · rw [if_neg h2] at h
          injection h with h; subst h; exact ⟨Nat.le_refl _, by omega⟩
    · rw [if_neg h1] at h
      injection h with h; subst h; exact ⟨Nat.le_refl _, by omega⟩

theorem computeMinimumCopyLength_bounds {K : Type} (ops : CostOps K) (startCost : K) (nodes : Array (Node K))
    (numBytes pos r : Nat) (h : computeMinimumCopyLength ops startCost nodes numBytes pos = some r) :
    2 ≤ r ∧ r ≤ numBytes + 4 := by
  unfold computeMinimumCopyLength at h
  obtain ⟨a, b⟩ := minLenLoop_bounds ops nodes numBytes pos _ _ _ _ _ _ h
  exact ⟨a, by omega⟩

end BV.Zopfli
