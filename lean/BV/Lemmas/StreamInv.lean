import BV.Lemmas.StreamEnc
/-
The state invariant `Inv` of the stream machine and its preservation by every primitive.
-/
namespace BV.Stream
open BV.Bits

/-- the configuration `compress_stream` sends to `compress_stream_fast` -/
def fastMode (p : Params) : Prop := (p.quality = 0 ∨ p.quality = 1) ∧ p.catable = false ∧ p.magic = false

/-- invariant of the encoder state between any two steps of the modelled loops -/
structure Inv (s : St) : Prop where
  init : s.isInitialized = true
  fl_le : s.lastFlushPos ≤ s.lastProcessedPos
  lp_le : s.lastProcessedPos ≤ s.inputPos
  ip_lt : s.inputPos < two64
  blk : s.inputPos - s.lastProcessedPos ≤ s.blockSize
  lastFin : s.isLastBlockEmitted = true → s.streamState = .finished
  mdIff : (s.streamState = .metadataHead ∨ s.streamState = .metadataBody) ↔ s.remainingMetadata ≠ u32Max
  mdLe : s.remainingMetadata ≠ u32Max → s.remainingMetadata ≤ 16777216
  q01 : (s.params.quality = 0 ∨ s.params.quality = 1) → s.lastFlushPos = s.lastProcessedPos
  flushLf : s.streamState = .flushRequested → s.lastFlushPos = s.inputPos ∨ fastMode s.params

def SState.isMd (t : SState) : Bool := t == .metadataHead || t == .metadataBody

theorem SState.isMd_iff (t : SState) : t.isMd = true ↔ (t = .metadataHead ∨ t = .metadataBody) := by
  cases t <;> simp [SState.isMd]

theorem blockSize_congr {s s' : St} (h : s'.params.lgblock = s.params.lgblock) : s'.blockSize = s.blockSize := by
  simp [St.blockSize, h]

/-- `Inv` transfers to a state with the same parameters, input position, metadata counter and
initialisation flag, whose stream state is "of the same kind", with ordered positions -/
theorem Inv.transfer {s s' : St} (hI : Inv s)
    (hp : s'.params.lgblock = s.params.lgblock) (hip : s'.inputPos = s.inputPos)
    (hrm : s'.remainingMetadata = s.remainingMetadata) (hin : s'.isInitialized = s.isInitialized)
    (hmd : s'.streamState.isMd = s.streamState.isMd)
    (h1 : s'.lastFlushPos ≤ s'.lastProcessedPos) (h2 : s'.lastProcessedPos ≤ s'.inputPos)
    (h3 : s.lastProcessedPos ≤ s'.lastProcessedPos)
    (h4 : s'.isLastBlockEmitted = true → s'.streamState = .finished)
    (h5 : (s'.params.quality = 0 ∨ s'.params.quality = 1) → s'.lastFlushPos = s'.lastProcessedPos)
    (h6 : s'.streamState = .flushRequested → s'.lastFlushPos = s'.inputPos ∨ fastMode s'.params) : Inv s' := by
  refine ⟨hin.trans hI.init, h1, h2, hip ▸ hI.ip_lt, ?_, h4, ?_, ?_, h5, h6⟩
  · rw [blockSize_congr hp, hip]
    have := hI.blk
    omega
  · rw [hrm, ← hI.mdIff, ← SState.isMd_iff, ← SState.isMd_iff, hmd]
  · rw [hrm]; exact hI.mdLe

/-- same, for steps that keep the whole frame and the latch -/
theorem Inv.of_frame {s s' : St} (hI : Inv s) (hf : s'.frame = s.frame)
    (hlf : s'.lastFlushPos = s.lastFlushPos) (hlp : s'.lastProcessedPos = s.lastProcessedPos)
    (hle : s'.isLastBlockEmitted = s.isLastBlockEmitted) : Inv s' := by
  rw [St.frame_eq_iff] at hf
  obtain ⟨f1, f2, f3, f4, f5, _, _⟩ := hf
  refine hI.transfer (by rw [f1]) f2 f3 f5 (by rw [f4]) ?_ ?_ ?_ ?_ ?_ ?_
  · rw [hlf, hlp]; exact hI.fl_le
  · rw [hlp, f2]; exact hI.lp_le
  · rw [hlp]; exact Nat.le_refl _
  · rw [hle, f4]; exact hI.lastFin
  · rw [f1, hlf, hlp]; exact hI.q01
  · rw [f4, hlf, f2, f1]; exact hI.flushLf

theorem Inv.unprocessed {s : St} (hI : Inv s) : s.unprocessed = s.inputPos - s.lastProcessedPos :=
  wsub64_eq hI.lp_le hI.ip_lt

theorem inv_pad {s s' : St} (hI : Inv s) (h : injectBytePaddingBlock s = .ok s') : Inv s' := by
  obtain ⟨f, a, b, c, _⟩ := pad_frame h
  exact hI.of_frame f a b c

theorem inv_push {s s' : St} {io io' : Io} {b : Bool} (hI : Inv s)
    (h : injectFlushOrPushOutput s io = .ok (s', io', b)) : Inv s' := by
  obtain ⟨f, a, b, c, _⟩ := push_frame h
  exact hI.of_frame f a b c

theorem inv_checkFlushComplete {s : St} (hI : Inv s) : Inv (checkFlushComplete s) := by
  obtain ⟨c1, c2, c3, c4, c5, c6, c7, _⟩ := checkFlushComplete_frame s
  refine hI.transfer (by rw [c1]) c2 c3 c4 ?_ ?_ ?_ ?_ ?_ ?_ ?_
  · rw [checkFlushComplete_state]
    split
    · rename_i h; rw [h.1]; rfl
    · rfl
  · rw [c5, c6]; exact hI.fl_le
  · rw [c6, c2]; exact hI.lp_le
  · rw [c6]; exact Nat.le_refl _
  · intro h
    rw [c7] at h
    have := hI.lastFin h
    rw [checkFlushComplete_state, this]; simp
  · rw [c1, c5, c6]; exact hI.q01
  · intro h
    rw [checkFlushComplete_state] at h
    split at h
    · cases h
    · rw [c5, c2, c1]; exact hI.flushLf h

theorem updateSizeHint_fields (s : St) (n : Nat) :
    (updateSizeHint s n).params.lgblock = s.params.lgblock ∧ (updateSizeHint s n).params.quality = s.params.quality
    ∧ (updateSizeHint s n).params.catable = s.params.catable ∧ (updateSizeHint s n).params.magic = s.params.magic
    ∧ (updateSizeHint s n).params.lgwin = s.params.lgwin
    ∧ (updateSizeHint s n).inputPos = s.inputPos ∧ (updateSizeHint s n).remainingMetadata = s.remainingMetadata
    ∧ (updateSizeHint s n).isInitialized = s.isInitialized ∧ (updateSizeHint s n).streamState = s.streamState
    ∧ (updateSizeHint s n).lastFlushPos = s.lastFlushPos ∧ (updateSizeHint s n).lastProcessedPos = s.lastProcessedPos
    ∧ (updateSizeHint s n).isLastBlockEmitted = s.isLastBlockEmitted ∧ (updateSizeHint s n).pending = s.pending
    ∧ (updateSizeHint s n).lastBytesBits = s.lastBytesBits ∧ (updateSizeHint s n).lastBytes = s.lastBytes := by
  by_cases h : s.params.sizeHint = 0 <;> simp [updateSizeHint, h]

theorem fastMode_updateSizeHint (s : St) (n : Nat) : fastMode (updateSizeHint s n).params ↔ fastMode s.params := by
  obtain ⟨_, u2, u3, u4, _⟩ := updateSizeHint_fields s n
  unfold fastMode
  rw [u2, u3, u4]

theorem inv_updateSizeHint {s : St} (hI : Inv s) (n : Nat) : Inv (updateSizeHint s n) := by
  obtain ⟨u1, u2, _, _, _, u6, u7, u8, u9, u10, u11, u12, _⟩ := updateSizeHint_fields s n
  refine hI.transfer u1 u6 u7 u8 (by rw [u9]) ?_ ?_ ?_ ?_ ?_ ?_
  · rw [u10, u11]; exact hI.fl_le
  · rw [u11, u6]; exact hI.lp_le
  · rw [u11]; exact Nat.le_refl _
  · rw [u12, u9]; exact hI.lastFin
  · rw [u2, u10, u11]; exact hI.q01
  · rw [u9, u10, u6, fastMode_updateSizeHint]; exact hI.flushLf

theorem ensureInitialized_id {s : St} (h : s.isInitialized = true) : ensureInitialized s = s := by
  simp [ensureInitialized, h]

/-- under `Inv`, in a state that is not finished, `encode_data` cannot return `false` -/
theorem encodeData_succeeds {o : Oracle} {s s' : St} {site : Nat} {il ff res : Bool} {req : Req} (hI : Inv s)
    (hst : s.streamState ≠ .finished) (h : encodeData o s site il ff = .ok (s', res, req)) : res = true := by
  rw [encodeData_res h]
  constructor
  · cases hle : s.isLastBlockEmitted
    · rfl
    · exact absurd (hI.lastFin hle) hst
  · rw [hI.unprocessed]
    have := hI.blk
    omega

theorem markAfterEncode_fields (s : St) (il ff : Bool) :
    (markAfterEncode s il ff).params = s.params ∧ (markAfterEncode s il ff).inputPos = s.inputPos
    ∧ (markAfterEncode s il ff).remainingMetadata = s.remainingMetadata
    ∧ (markAfterEncode s il ff).isInitialized = s.isInitialized
    ∧ (markAfterEncode s il ff).lastFlushPos = s.lastFlushPos
    ∧ (markAfterEncode s il ff).lastProcessedPos = s.lastProcessedPos
    ∧ (markAfterEncode s il ff).isLastBlockEmitted = s.isLastBlockEmitted
    ∧ (markAfterEncode s il ff).pending = s.pending ∧ (markAfterEncode s il ff).lastBytesBits = s.lastBytesBits
    ∧ (markAfterEncode s il ff).streamState = (if il then .finished else if ff then .flushRequested else s.streamState) := by
  unfold markAfterEncode
  cases il <;> cases ff <;> exact ⟨rfl, rfl, rfl, rfl, rfl, rfl, rfl, rfl, rfl, rfl⟩

/-- a successful `encode_data` keeps `Inv`, except that the latch may now be ahead of the
stream state (`compress_stream` fixes that by `markAfterEncode`) -/
theorem inv_encode {o : Oracle} {s s1 : St} {site : Nat} {il ff : Bool} {req : Req} (hI : Inv s)
    (h : encodeData o s site il ff = .ok (s1, true, req)) (hil : il = false) : Inv s1 := by
  obtain ⟨f, _, _, _, _⟩ := encodeData_frame h
  obtain ⟨p1, p2, p3, p4⟩ := encodeData_pos h hI.fl_le hI.lp_le hI.ip_lt
  have hl := encodeData_latch h
  rw [St.frame_eq_iff] at f
  obtain ⟨f1, f2, f3, f4, f5, _, _⟩ := f
  refine hI.transfer (by rw [f1]) f2 f3 f5 (by rw [f4]) p1 (by rw [f2]; exact p3) p2 ?_ ?_ ?_
  · intro hle
    rw [hl, hil] at hle
    exact absurd hle (by simp)
  · rw [f1]; intro hq; exact encodeData_q01 h hq (hI.q01 hq)
  · rw [f4, f2, f1]
    intro hfl
    rcases hI.flushLf hfl with hh | hh
    · left; omega
    · exact Or.inr hh

/-- `encode_data` from `compress_stream` (stream state PROCESSING) followed by the marking -/
theorem inv_encode_mark {o : Oracle} {s s1 : St} {site : Nat} {il ff : Bool} {req : Req} (hI : Inv s)
    (hst : s.streamState = .processing)
    (h : encodeData o s site il ff = .ok (s1, true, req)) : Inv (markAfterEncode s1 il ff) := by
  obtain ⟨f, _, _, _, _⟩ := encodeData_frame h
  obtain ⟨p1, p2, p3, p4⟩ := encodeData_pos h hI.fl_le hI.lp_le hI.ip_lt
  have hl := encodeData_latch h
  rw [St.frame_eq_iff] at f
  obtain ⟨f1, f2, f3, f4, f5, _, _⟩ := f
  obtain ⟨k1, k2, k3, k4, k5, k6, k7, _, _, k10⟩ := markAfterEncode_fields s1 il ff
  refine hI.transfer (by rw [k1, f1]) (k2.trans f2) (k3.trans f3) (k4.trans f5) ?_ ?_ ?_ ?_ ?_ ?_ ?_
  · rw [k10, hst, f4, hst]
    cases il <;> cases ff <;> rfl
  · rw [k5, k6]; exact p1
  · rw [k6, k2, f2]; exact p3
  · rw [k6]; exact p2
  · intro hle
    rw [k7, hl] at hle
    rw [k10, hle]; rfl
  · rw [k1, f1, k5, k6]; intro hq; exact encodeData_q01 h hq (hI.q01 hq)
  · rw [k10, k5, k2, f2]
    intro hfl
    have hff : il = true ∨ ff = true := by
      cases il
      · cases ff
        · simp only [Bool.false_eq_true, ↓reduceIte] at hfl; rw [f4, hst] at hfl; cases hfl
        · exact Or.inr rfl
      · exact Or.inl rfl
    exact Or.inl (encodeData_forced h hff hI.fl_le hI.lp_le hI.ip_lt hI.q01)

end BV.Stream
