/-
C10, decoder copy path, whole first meta-block: under the exact safety conditions the real copy path equals the
byte-by-byte reference decoder (`decRun_eq_refRun`).
-/
import BV.Lemmas.DictCopy2
namespace BV.Dict

/-- reference decoder for the same commands: every copy byte by byte (RFC 7932), never speculative -/
def refRun (R : Nat) : List DecCmd → (Nat → Nat) → Nat → (Nat → Nat) × Nat
  | [], ring, pos => (ring, pos)
  | .bytes b :: rest, ring, pos => refRun R rest (decWrite ring pos b) (pos + b.length)
  | .copy dist len :: rest, ring, pos => refRun R rest (wrapCopyLoop R dist len ring pos) (pos + len)

/-- two rings hold the same output so far and the same reachable dictionary bytes -/
def Agree (D : Dec) (R pos : Nat) (r1 r2 : Nat → Nat) : Prop :=
  (∀ j, j < pos → r1 j = r2 j) ∧ (∀ k, 1 ≤ k → k ≤ D.dEff → pos + k ≤ D.mbd → r1 (R - k) = r2 (R - k))

/-- the byte-wise copy only depends on the output so far and the reachable dictionary bytes -/
theorem wrapCopyLoop_congr (D : Dec) (R dist : Nat) (hde : D.dEff ≤ R) (hd1 : 1 ≤ dist) (hmbd : dist ≤ D.mbd) :
    ∀ (n : Nat) (r1 r2 : Nat → Nat) (p : Nat), dist ≤ p + D.dEff → p + n + D.dEff ≤ R →
      Agree D R p r1 r2 → Agree D R (p + n) (wrapCopyLoop R dist n r1 p) (wrapCopyLoop R dist n r2 p) := by
  intro n
  induction n with
  | zero => intro r1 r2 p _ _ h; exact h
  | succ n ih =>
    intro r1 r2 p hdp hfit hag
    rw [wrapCopyLoop, wrapCopyLoop]
    have hstep : Agree D R (p + 1) (fun j => if j = p then r1 (srcIndex R p dist) else r1 j)
        (fun j => if j = p then r2 (srcIndex R p dist) else r2 j) := by
      constructor
      · intro j hj
        show (if j = p then _ else r1 j) = (if j = p then _ else r2 j)
        by_cases he : j = p
        · rw [if_pos he, if_pos he]
          unfold srcIndex
          by_cases hle : dist ≤ p
          · have e : p + R - dist = (p - dist) + R := by omega
            rw [e, Nat.add_mod_right, Nat.mod_eq_of_lt (by omega)]
            exact hag.1 _ (by omega)
          · rw [Nat.mod_eq_of_lt (by omega)]
            have e : p + R - dist = R - (dist - p) := by omega
            rw [e]
            exact hag.2 _ (by omega) (by omega) (by omega)
        · rw [if_neg he, if_neg he]; exact hag.1 j (by omega)
      · intro k hk1 hk hr
        show (if R - k = p then _ else r1 (R - k)) = (if R - k = p then _ else r2 (R - k))
        rw [if_neg (by omega), if_neg (by omega)]
        exact hag.2 k hk1 hk (by omega)
    have := ih _ _ (p + 1) (by omega) (by omega) hstep
    rw [Nat.add_assoc, Nat.add_comm 1 n] at this
    exact this

/-- every copy of a command list satisfies the two safety conditions, has a legal distance and fits the ring -/
def CmdsSafe (D : Dec) (R : Nat) : List DecCmd → Nat → Prop
  | [], _ => True
  | .bytes b :: rest, pos => pos + b.length + D.dEff ≤ R ∧ CmdsSafe D R rest (pos + b.length)
  | .copy dist len :: rest, pos =>
    1 ≤ len ∧ 1 ≤ dist ∧ dist ≤ pos + D.dEff ∧ dist ≤ D.mbd ∧ pos + len + D.dEff ≤ R ∧
    CopySafe D R pos len ∧ SrcSafe D R pos dist ∧ CmdsSafe D R rest (pos + len)

/-- **`dict_tail_readable`, whole first meta-block**: if every copy satisfies the exact safety conditions
(`CopySafe`: ring not shrunk, or all its writes incl. the speculative overshoot end below the dictionary;
`SrcSafe`: `distance ≤ R − 16`, or its first 16-byte block ends below the dictionary), the real decoder's copy path
(speculative blocks and all) yields exactly the output of the byte-by-byte reference decoder, and every dictionary
byte still within `max_distance` is intact at the end -/
theorem decRun_eq_refRun (D : Dec) (R : Nat) (hR : 16 ≤ R) (hde : D.dEff ≤ R) :
    ∀ (cmds : List DecCmd) (r1 r2 : Nat → Nat) (pos : Nat) (r1' : Nat → Nat) (pos' : Nat),
      CmdsSafe D R cmds pos → Agree D R pos r1 r2 →
      decRun R cmds r1 pos = some (r1', pos') →
      pos' = (refRun R cmds r2 pos).2 ∧ Agree D R pos' r1' (refRun R cmds r2 pos).1 := by
  intro cmds
  induction cmds with
  | nil =>
    intro r1 r2 pos r1' pos' _ hag h
    simp only [decRun, Option.some.injEq, Prod.mk.injEq] at h
    obtain ⟨rfl, rfl⟩ := h
    exact ⟨rfl, hag⟩
  | cons c rest ih =>
    intro r1 r2 pos r1' pos' hsafe hag h
    cases c with
    | bytes b =>
      obtain ⟨hfit, hrest⟩ := hsafe
      rw [decRun] at h
      rw [refRun]
      apply ih _ _ _ _ _ hrest _ h
      constructor
      · intro j hj
        unfold decWrite
        by_cases hin : pos ≤ j ∧ j < pos + b.length
        · rw [if_pos hin, if_pos hin]
        · rw [if_neg hin, if_neg hin]; exact hag.1 j (by omega)
      · intro k hk1 hk hr
        rw [decWrite_frame _ _ _ _ (by omega), decWrite_frame _ _ _ _ (by omega)]
        exact hag.2 k hk1 hk (by omega)
    | copy dist len =>
      obtain ⟨hl1, hd1, hdp, hdm, hfit, hcs, hss, hrest⟩ := hsafe
      rw [decRun] at h
      rw [refRun]
      cases hc : decCopy R r1 pos dist len with
      | none => rw [hc] at h; cases h
      | some r1c =>
        rw [hc] at h
        simp only at h
        apply ih _ _ _ _ _ hrest _ h
        have hcorr := decCopy_correct D R r1 r1c pos dist len hR hl1 hd1 (by omega) hde (by omega) hss hc
        have hcong := wrapCopyLoop_congr D R dist hde hd1 hdm len r1 r2 pos hdp hfit hag
        constructor
        · intro j hj
          rw [hcorr j hj]
          exact hcong.1 j hj
        · intro k hk1 hk hr
          have hw := writeEnd_le pos len hl1
          have hunch : r1c (R - k) = r1 (R - k) := by
            apply decCopy_frame R r1 r1c pos dist len hl1 hc
            rcases hcs with hfull | hbelow
            · right; unfold Dec.mbd at hr; rw [← hfull] at hr; omega
            · right; omega
          rw [hunch, ← wrapCopyLoop_frame R dist len r1 pos (R - k) (by omega)]
          exact hcong.2 k hk1 hk hr

/-- the reference run keeps every dictionary byte that is reachable at its end -/
theorem refRun_dict (D : Dec) (R : Nat) (hde : D.dEff ≤ R) :
    ∀ (cmds : List DecCmd) (r : Nat → Nat) (pos : Nat), CmdsSafe D R cmds pos → DictLive D R r pos →
      DictLive D R (refRun R cmds r pos).1 (refRun R cmds r pos).2 := by
  intro cmds
  induction cmds with
  | nil => intro r pos _ h; exact h
  | cons c rest ih =>
    intro r pos hsafe hlive
    cases c with
    | bytes b =>
      obtain ⟨hfit, hrest⟩ := hsafe
      rw [refRun]
      apply ih _ _ hrest
      intro k hk1 hk hr
      rw [decWrite_frame _ _ _ _ (by omega)]
      exact hlive k hk1 hk (by omega)
    | copy dist len =>
      obtain ⟨_, _, _, _, hfit, _, _, hrest⟩ := hsafe
      rw [refRun]
      apply ih _ _ hrest
      intro k hk1 hk hr
      rw [wrapCopyLoop_frame R dist len r pos (R - k) (by omega)]
      exact hlive k hk1 hk (by omega)

end BV.Dict
