/-
Bit-level lemmas for C03: window-bits encode/parse, end-marker strip/append.
-/
import BV.Lemmas.ConcatFlush
namespace BV.Concat
open Outcome BV.Gen

/-- `parse_window_size` after the first byte has been fetched; `second` is the (lazy) `bytes_so_far[1]` -/
def pwsCore (b0 : Nat) (second : Outcome Nat) : Outcome (Option (Nat × Nat)) :=
  if b0 &&& 1 = 0 then ok (some (16, 1)) else
  if b0 &&& 15 = 0x3 then ok (some (18, 4)) else
  if b0 &&& 15 = 0x5 then ok (some (19, 4)) else
  if b0 &&& 15 = 0x7 then ok (some (20, 4)) else
  if b0 &&& 15 = 0x9 then ok (some (21, 4)) else
  if b0 &&& 15 = 0xb then ok (some (22, 4)) else
  if b0 &&& 15 = 0xd then ok (some (23, 4)) else
  if b0 &&& 15 = 0xf then ok (some (24, 4)) else
  if b0 &&& 127 = 0x71 then ok (some (15, 7)) else
  if b0 &&& 127 = 0x61 then ok (some (14, 7)) else
  if b0 &&& 127 = 0x51 then ok (some (13, 7)) else
  if b0 &&& 127 = 0x41 then ok (some (12, 7)) else
  if b0 &&& 127 = 0x31 then ok (some (11, 7)) else
  if b0 &&& 127 = 0x21 then ok (some (10, 7)) else
  if b0 &&& 127 = 0x1 then ok (some (17, 7)) else
  if b0 &&& 0x80 ≠ 0 then ok none else
  second.bind fun b1 =>
  if ¬ (10 ≤ (b1 &&& 0x3f) ∧ (b1 &&& 0x3f) ≤ 30) then ok none else
  ok (some (b1 &&& 0x3f, 14))

theorem parseWindowSize_eq_core (bs : List Nat) :
    parseWindowSize bs = (idx .pwsIndex0 bs 0).bind fun b0 => pwsCore b0 (idx .pwsIndex1 bs 1) := rfl

theorem ite_both {α} {c : Prop} [Decidable c] {a a' b b' : Outcome α} {r : α}
    (h : (if c then a else b) = ok r) (ha : a = ok r → a' = ok r) (hb : b = ok r → b' = ok r) :
    (if c then a' else b') = ok r := by
  by_cases hc : c
  · rw [if_pos hc] at h ⊢; exact ha h
  · rw [if_neg hc] at h ⊢; exact hb h

/-- if the answer is found without the second byte, the second byte does not matter -/
theorem pwsCore_mono (b0 : Nat) (t : Site) (x : Outcome Nat) (r : Option (Nat × Nat))
    (h : pwsCore b0 (Outcome.panic t) = ok r) : pwsCore b0 x = ok r := by
  unfold pwsCore at h ⊢
  iterate 16 (refine ite_both h (fun h => h) (fun h => ?_))
  simp at h

theorem enc_small : ∀ (l : Fin 25) (b0 : Fin 256), 10 ≤ l.val →
    b0.val % 2 ^ (encodeWindowBits l.val false).2 = (encodeWindowBits l.val false).1 →
    pwsCore b0.val (Outcome.panic .pwsIndex1) = ok (some (l.val, (encodeWindowBits l.val false).2)) := by
  decide +kernel

theorem enc_large : ∀ (l : Fin 31) (b1 : Fin 256), 10 ≤ l.val → b1.val % 64 = l.val →
    pwsCore 0x11 (ok b1.val) = ok (some (l.val, 14)) ∧ encodeWindowBits l.val true = (l.val * 256 + 17, 14) := by
  decide +kernel

theorem enc_small_bits : ∀ (l : Fin 25), 10 ≤ l.val →
    (encodeWindowBits l.val false).2 = 1 ∨ (encodeWindowBits l.val false).2 = 4 ∨ (encodeWindowBits l.val false).2 = 7 := by
  decide +kernel

theorem parseWindowSize_cons2 (b0 b1 : Nat) (rest : List Nat) :
    parseWindowSize (b0 :: b1 :: rest) = pwsCore b0 (ok b1) := by
  rw [parseWindowSize_eq_core]; simp [idx]

/-- `parse_window_size` inverts `EncodeWindowBits`, whatever bits follow the window field -/
theorem parse_inverts_encode_gen (lgwin : Nat) (large : Bool) (h10 : 10 ≤ lgwin) (h30 : lgwin ≤ 30)
    (hl : large = true ∨ lgwin ≤ 24) (b0 b1 : Nat) (hb0 : b0 < 256) (hb1 : b1 < 256) (rest : List Nat)
    (hx : (b0 + 256 * b1) % 2 ^ (encodeWindowBits lgwin large).2 = (encodeWindowBits lgwin large).1) :
    parseWindowSize (b0 :: b1 :: rest) = ok (some (lgwin, (encodeWindowBits lgwin large).2)) := by
  rw [parseWindowSize_cons2]
  cases large with
  | true =>
    have e := (enc_large ⟨lgwin, by omega⟩ ⟨b1, hb1⟩ h10)
    have henc : encodeWindowBits lgwin true = (lgwin * 256 + 17, 14) := by
      have : ∀ l : Fin 31, encodeWindowBits l.val true = (l.val * 256 + 17, 14) := by decide +kernel
      exact this ⟨lgwin, by omega⟩
    rw [henc] at hx ⊢
    dsimp only at hx ⊢
    have h17 : b0 = 17 := by omega
    have h64 : b1 % 64 = lgwin := by omega
    subst h17
    exact (e h64).1
  | false =>
    have hl' : lgwin ≤ 24 := by
      rcases hl with h | h
      · simp at h
      · exact h
    have e := enc_small ⟨lgwin, by omega⟩ ⟨b0, hb0⟩ h10
    have hbits := enc_small_bits ⟨lgwin, by omega⟩ h10
    dsimp only at e hbits
    refine pwsCore_mono b0 _ _ _ (e ?_)
    rcases hbits with hb | hb | hb <;> rw [hb] at hx ⊢ <;> omega

/-! ### the end marker -/

theorem one_shl_and_ne_zero (T i : Nat) : ((1 <<< i) &&& T ≠ 0) ↔ T.testBit i = true := by
  rw [Nat.one_shiftLeft]
  constructor
  · intro h
    cases hb : T.testBit i with
    | true => rfl
    | false =>
      exfalso; apply h
      apply Nat.eq_of_testBit_eq
      intro j
      rw [Nat.testBit_and, Nat.testBit_two_pow, Nat.zero_testBit]
      by_cases e : i = j
      · subst e; simp [hb]
      · simp [e]
  · intro h e
    have := congrArg (fun x => x.testBit i) e
    simp only [Nat.testBit_and, Nat.testBit_two_pow_self, h, Nat.zero_testBit] at this
    simp at this

/-- a tail value whose two highest set bits are adjacent, at positions `n+1` and `n` -/
structure Marked (T n D : Nat) : Prop where
  eq : T = D + 3 * 2 ^ n
  lt : D < 2 ^ n

theorem Marked.bounds {T n D : Nat} (h : Marked T n D) :
    3 * 2 ^ n ≤ T ∧ T < 4 * 2 ^ n ∧ 2 ^ (n + 1) ≤ T ∧ T < 2 ^ (n + 2) := by
  have e1 : 2 ^ (n + 1) = 2 * 2 ^ n := by rw [Nat.pow_succ]; omega
  have e2 : 2 ^ (n + 2) = 4 * 2 ^ n := by rw [Nat.pow_succ, Nat.pow_succ]; omega
  have := h.eq; have := h.lt
  omega

theorem Marked.top_bit {T n D : Nat} (h : Marked T n D) : T.testBit (n + 1) = true := by
  obtain ⟨_, _, h3, h4⟩ := h.bounds
  rw [Nat.testBit_eq_decide_div_mod_eq]
  have : T / 2 ^ (n + 1) = 1 := by
    apply Nat.div_eq_of_lt_le
    · omega
    · have e2 : 2 ^ (n + 2) = 2 * 2 ^ (n + 1) := by rw [Nat.pow_succ]; omega
      omega
  rw [this]; rfl

theorem Marked.above {T n D : Nat} (h : Marked T n D) (i : Nat) (hi : n + 1 < i) : T.testBit i = false := by
  obtain ⟨_, _, _, h4⟩ := h.bounds
  apply Nat.testBit_lt_two_pow
  exact Nat.lt_of_lt_of_le h4 (Nat.pow_le_pow_right (by decide) (by omega))

theorem Marked.shr {T n D : Nat} (h : Marked T n D) : T >>> n = 3 := by
  obtain ⟨h1, h2, _, _⟩ := h.bounds
  rw [Nat.shiftRight_eq_div_pow]
  exact Nat.div_eq_of_lt_le (by omega) (by omega)

theorem Marked.mask {T n D : Nat} (h : Marked T n D) : T &&& ((1 <<< n) - 1) = D := by
  rw [Nat.one_shiftLeft, Nat.and_two_pow_sub_one_eq_mod, h.eq, Nat.add_mul_mod_self_right,
    Nat.mod_eq_of_lt h.lt]

/-- the search loop of `flush_previous_stream` finds exactly the upper marker bit -/
theorem findHighLoop_marked (T n D max : Nat) (h : Marked T n D) (hmax : max ≤ 16) (hn : n + 1 < max) :
    ∀ fuel i idx0, i + fuel = max → n + 1 ≤ max - 1 - i → 1 ≤ fuel →
      findHighLoop T max fuel i idx0 = ok (n + 1) := by
  intro fuel
  induction fuel with
  | zero => intro i idx0 _ _ h1; omega
  | succ f ih =>
    intro i idx0 hsum hge _
    unfold findHighLoop
    rw [if_neg (by omega), if_neg (by omega)]
    dsimp only
    rw [if_neg (by omega)]
    by_cases e : max - 1 - i = n + 1
    · rw [e, if_pos ((one_shl_and_ne_zero T (n + 1)).mpr h.top_bit)]
    · have hb : ¬ ((1 <<< (max - 1 - i)) &&& T ≠ 0) := by
        rw [one_shl_and_ne_zero, h.above _ (by omega)]; simp
      rw [if_neg hb]
      exact ih (i + 1) _ (by omega) (by omega) (by omega)

/-- the state left by a successful strip of the end marker: `n` data bits `D` remain;
when `n ≥ 8` the completed low byte is emitted -/
def stripped (s : State) (n D : Nat) : State :=
  if n < 8 then
    { s with last_bytes := (D, 0), last_bytes_len := 1, last_byte_bit_offset := n, last_byte_sanitized := true }
  else
    { s with last_bytes := (D / 256, 0), last_bytes_len := 1, last_byte_bit_offset := n - 8,
             last_byte_sanitized := true, any_bytes_emitted := true }

theorem strip_end_marker_gen (s : State) (n D cap : Nat) (out : List Nat)
    (hs : s.last_byte_sanitized = false) (hlen : s.last_bytes_len = 1 ∨ s.last_bytes_len = 2)
    (hn : n + 2 ≤ 8 * s.last_bytes_len)
    (hm : Marked (s.last_bytes.1 + (s.last_bytes.2 <<< 8)) n D) (hcap : out.length < cap) :
    flushPreviousStream s out cap =
      ok (stripped s n D, if n < 8 then out else out ++ [D % 256], SUCCESS) := by
  have h0 : s.last_bytes_len ≠ 0 := by omega
  unfold flushPreviousStream
  simp only [hs, Bool.false_eq_true, not_false_eq_true, if_true, h0, if_false]
  rw [if_neg (by omega), if_neg (by omega)]
  rw [findHighLoop_marked _ n D (s.last_bytes_len * 8) hm (by omega) (by omega) _ 0 _ (by omega) (by omega) (by omega)]
  simp only [bind_ok]
  rw [if_neg (by omega)]
  have e1 : n + 1 - 1 = n := by omega
  rw [e1, hm.shr]
  simp only [ne_eq, not_true_eq_false, if_false]
  unfold flushStrip
  rw [if_neg (by omega), if_neg (by omega)]
  dsimp only
  rw [hm.mask]
  have hD := hm.lt
  by_cases h8 : n ≥ 8
  · have hl2 : s.last_bytes_len = 2 := by omega
    rw [if_pos h8, if_pos (by omega)]
    unfold push
    rw [if_pos hcap]
    simp only [bind_ok]
    rw [if_neg (by omega)]
    unfold flushFin
    have hlt : n - 8 < 8 := by omega
    have hD16 : D < 2 ^ 14 := Nat.lt_of_lt_of_le hD (Nat.pow_le_pow_right (by decide) (by omega))
    have hshr : D >>> 8 % 256 = D / 256 := by
      rw [Nat.shiftRight_eq_div_pow]
      have : D / 2 ^ 8 < 256 := by omega
      omega
    simp only [hl2, hlt, hshr, stripped]
    have hn8 : ¬ n < 8 := by omega
    simp [hn8]
  · have hlt : n < 8 := by omega
    rw [if_neg h8]
    unfold flushFin
    have hD8 : D < 2 ^ 7 := Nat.lt_of_lt_of_le hD (Nat.pow_le_pow_right (by decide) (by omega))
    have hmod : D % 256 = D := Nat.mod_eq_of_lt (by omega)
    have hshr : D >>> 8 % 256 = 0 := by
      rw [Nat.shiftRight_eq_div_pow]
      have : D / 2 ^ 8 = 0 := Nat.div_eq_of_lt (by omega)
      omega
    simp only [hlt, hmod, hshr, stripped, if_true]
    rcases hlen with h1 | h2
    · simp [h1]
    · simp [h2]

/-! ### re-appending the marker -/

theorem or_marker (d k : Nat) (hd : d < 2 ^ k) : (d ||| (0 <<< 8)) ||| (3 <<< k) = d + 3 * 2 ^ k := by
  rw [Nat.zero_shiftLeft, Nat.or_zero, Nat.or_comm, ← Nat.shiftLeft_add_eq_or_of_lt hd, Nat.shiftLeft_eq]
  omega

theorem marker_bytes (d k : Nat) (hd : d < 2 ^ k) (hk : k ≤ 7) :
    d + 3 * 2 ^ k < 512 ∧ (d + 3 * 2 ^ k) >>> 8 % 256 = (d + 3 * 2 ^ k) / 256 ∧
    (k ≤ 6 → d + 3 * 2 ^ k < 256) := by
  have hpow : 2 ^ k ≤ 2 ^ 7 := Nat.pow_le_pow_right (by decide) hk
  refine ⟨by omega, ?_, fun h6 => ?_⟩
  · rw [Nat.shiftRight_eq_div_pow]; omega
  · have : 2 ^ k ≤ 2 ^ 6 := Nat.pow_le_pow_right (by decide) h6
    omega

/-- `append_eof_metablock_to_last_bytes` on a clean one-byte tail `(d, 0)` holding `k` data
bits: the marker lands at bits `k, k+1`; a second byte is added only when the marker reaches
into it (`k = 7`) -/
theorem appendEof_value (s : State) (d k : Nat) (hs : s.last_byte_sanitized = true)
    (hl : s.last_bytes_len = 1) (hlb : s.last_bytes = (d, 0)) (hk : s.last_byte_bit_offset = k)
    (hd : d < 2 ^ k) (hk7 : k ≤ 7) :
    appendEofMetablockToLastBytes s =
      ok { s with last_bytes := ((d + 3 * 2 ^ k) % 256, (d + 3 * 2 ^ k) / 256),
                  last_byte_sanitized := false,
                  last_byte_bit_offset := if k + 2 ≥ 8 then k + 2 - 8 else k + 2,
                  last_bytes_len := if k = 7 then 2 else 1 } := by
  unfold appendEofMetablockToLastBytes
  rw [if_neg (by simp [hs])]
  dsimp only
  rw [hl, hk, hlb]
  rw [if_neg (by omega), if_neg (by omega), if_neg (by omega), if_neg (by omega)]
  have hsmall : 3 <<< ((1 - 1) * 8 + k) % 2 ^ 16 = 3 <<< k := by
    have e : (1 - 1) * 8 + k = k := by omega
    rw [e, Nat.shiftLeft_eq]
    have : 2 ^ k ≤ 2 ^ 7 := Nat.pow_le_pow_right (by decide) hk7
    omega
  rw [hsmall]
  dsimp only
  rw [or_marker d k hd, if_neg (by omega)]
  obtain ⟨_, hhi, _⟩ := marker_bytes d k hd hk7
  rw [hhi]
  by_cases h8 : k + 2 ≥ 8
  · rw [if_pos h8, if_pos h8]
    by_cases h7 : k = 7
    · rw [if_pos (by omega), if_neg (by omega), if_pos h7]
    · rw [if_neg (by omega), if_neg h7]
  · rw [if_neg h8, if_neg h8, if_neg (by omega)]

/-- `finish` on a clean one-byte sanitised tail `(d, 0)` with `k` data bits and room for 2
bytes: the little-endian bytes of `d + 3·2^k`, one byte unless the marker needs a second -/
theorem finish_one_byte_tail (s : State) (d k cap : Nat) (hs : s.last_byte_sanitized = true)
    (hl : s.last_bytes_len = 1) (hlb : s.last_bytes = (d, 0)) (hk : s.last_byte_bit_offset = k)
    (hd : d < 2 ^ k) (hk7 : k ≤ 7) (hcap : 2 ≤ cap) :
    ∃ st, finish s cap = ok ⟨st, SUCCESS, 0,
      if k = 7 then [(d + 3 * 2 ^ k) % 256, (d + 3 * 2 ^ k) / 256] else [d + 3 * 2 ^ k]⟩ := by
  unfold finish
  rw [if_pos ⟨hs, by omega⟩, appendEof_value s d k hs hl hlb hk hd hk7]
  simp only [bind_ok]
  have c0 : ¬ (([] : List Nat).length = cap) := by simp; omega
  have c1 : ∀ x : Nat, ¬ (([] ++ [x] : List Nat).length = cap) := by intro x; simp; omega
  have p0 : ([] : List Nat).length < cap := by simp; omega
  have p1 : ∀ x : Nat, ([] ++ [x] : List Nat).length < cap := by intro x; simp; omega
  by_cases h7 : k = 7
  · simp only [h7, if_true]
    simp only [finishLoop, c0, c1, if_false, push, p0, p1, if_true, bind_ok]
    exact ⟨_, rfl⟩
  · simp only [h7, if_false]
    have hlt := (marker_bytes d k hd hk7).2.2 (by omega)
    simp only [finishLoop, c0, if_false, push, p0, if_true, bind_ok, Nat.mod_eq_of_lt hlt]
    exact ⟨_, rfl⟩

/-! ### bit-string view -/

theorem bitsOf_length (n v : Nat) : (bitsOf n v).length = n := by
  induction n generalizing v with
  | zero => rfl
  | succ n ih => simp [bitsOf, ih]

theorem bitsOf_zero (n : Nat) : bitsOf n 0 = List.replicate n false := by
  induction n with
  | zero => rfl
  | succ n ih => simp [bitsOf, ih, List.replicate_succ]

theorem bitsOf_append (a b v : Nat) : bitsOf (a + b) v = bitsOf a v ++ bitsOf b (v / 2 ^ a) := by
  induction a generalizing v with
  | zero => simp [bitsOf]
  | succ a ih =>
    have e : a + 1 + b = (a + b) + 1 := by omega
    rw [e]
    simp only [bitsOf, List.cons_append, List.cons.injEq, true_and]
    rw [ih (v / 2), Nat.div_div_eq_div_mul, Nat.pow_succ, Nat.mul_comm]

theorem bitsOf_mod (a v : Nat) : bitsOf a (v % 2 ^ a) = bitsOf a v := by
  induction a generalizing v with
  | zero => rfl
  | succ a ih =>
    simp only [bitsOf]
    have h1 : v % 2 ^ (a + 1) % 2 = v % 2 := by
      rw [Nat.pow_succ, Nat.mul_comm]; exact Nat.mod_mul_right_mod v 2 (2 ^ a)
    have h2 : v % 2 ^ (a + 1) / 2 = (v / 2) % 2 ^ a := by
      rw [Nat.pow_succ, Nat.mul_comm]; exact Nat.mod_mul_right_div_self v 2 (2 ^ a)
    rw [h1, h2, ih]

/-- a marked tail, as a bit string: data bits, the two marker bits, zero padding -/
theorem Marked.bits {T n D : Nat} (h : Marked T n D) (m : Nat) (hm : n + 2 ≤ m) :
    bitsOf m T = bitsOf n D ++ [true, true] ++ List.replicate (m - n - 2) false := by
  have e : m = n + (2 + (m - n - 2)) := by omega
  have hmod : T % 2 ^ n = D := by
    rw [h.eq, Nat.add_mul_mod_self_right, Nat.mod_eq_of_lt h.lt]
  have hdiv : T / 2 ^ n = 3 := by rw [← Nat.shiftRight_eq_div_pow]; exact h.shr
  conv => lhs; rw [e]
  rw [bitsOf_append, bitsOf_append, ← bitsOf_mod n T, hmod, hdiv]
  have h3 : bitsOf 2 3 = [true, true] := by decide
  have h4 : 3 / 2 ^ 2 = 0 := by decide
  rw [h3, h4, bitsOf_zero, List.append_assoc]

theorem bytesToBits_one (a : Nat) : bytesToBits [a] = bitsOf 8 a := by simp [bytesToBits]
theorem bytesToBits_two (a b : Nat) : bytesToBits [a, b] = bitsOf 8 a ++ bitsOf 8 b := by simp [bytesToBits]

/-- the little-endian bytes of `T` (one byte if `T < 256`, else two) read as `T`'s bits -/
theorem bits_le1 (T : Nat) : bytesToBits [T] = bitsOf 8 T := bytesToBits_one T
theorem bits_le2 (T : Nat) : bytesToBits [T % 256, T / 256] = bitsOf 16 T := by
  rw [bytesToBits_two, show (16 : Nat) = 8 + 8 by rfl, bitsOf_append,
    show (256 : Nat) = 2 ^ 8 by decide, bitsOf_mod]

/-- strip (with room) then `finish`, for EVERY marker alignment: what the two calls emit
together is the little-endian bytes of the original tail value `T = D + 3·2^n` -/
theorem strip_then_finish_gen (s : State) (n D cap : Nat) (hn : n + 2 ≤ 16) (hD : D < 2 ^ n) (hcap : 2 ≤ cap) :
    (∃ st, finish (stripped s n D) cap = ok ⟨st, SUCCESS, 0,
      if n < 8 then (if n = 7 then [(D + 3 * 2 ^ n) % 256, (D + 3 * 2 ^ n) / 256] else [D + 3 * 2 ^ n])
      else [(D + 3 * 2 ^ n) / 256]⟩) ∧
    (8 ≤ n → D % 256 = (D + 3 * 2 ^ n) % 256) := by
  by_cases h8 : n < 8
  · rw [if_pos h8]
    refine ⟨?_, fun h => by omega⟩
    refine finish_one_byte_tail (stripped s n D) D n cap ?_ ?_ ?_ ?_ hD (by omega) hcap <;> simp [stripped, h8]
  · rw [if_neg h8]
    have hk : n - 8 ≤ 6 := by omega
    have e : 2 ^ n = 256 * 2 ^ (n - 8) := by
      rw [show (256 : Nat) = 2 ^ 8 by decide, ← Nat.pow_add]; congr 1; omega
    have hd : D / 256 < 2 ^ (n - 8) := by
      apply Nat.div_lt_of_lt_mul; rw [← e]; exact hD
    have hT : (D + 3 * 2 ^ n) / 256 = D / 256 + 3 * 2 ^ (n - 8) := by omega
    refine ⟨?_, fun _ => by omega⟩
    obtain ⟨st, hst⟩ := finish_one_byte_tail (stripped s n D) (D / 256) (n - 8) cap
      (by simp [stripped, h8]) (by simp [stripped, h8]) (by simp [stripped, h8]) (by simp [stripped, h8]) hd
      (by omega) hcap
    rw [if_neg (by omega)] at hst
    exact ⟨st, by rw [hst, hT]⟩

end BV.Concat
