import BV.Model.Ledger
/-!
Facts about the spec-side judge (`BV.Ledger.judge`): how a run of `alloc` events of fresh blocks and
a run of `free` events of live blocks change its state.
-/
namespace BV.Ledger

theorem judge_append (log evs : List Ev) : judge (log ++ evs) = evs.foldl Judge.step (judge log) := by
  simp [judge, List.foldl_append]

/-- the counters that record misbehaviour -/
def Judge.bad (j : Judge) : Nat := j.foreign + j.double + j.unknown + j.realloc

theorem clean_iff_bad (j : Judge) : j.clean = true ↔ j.bad = 0 := by
  simp [Judge.clean, Judge.bad]

theorem mem_fresh {a next k : Nat} {b : BlockId} :
    b ∈ fresh a next k ↔ b.alloc = a ∧ next ≤ b.n ∧ b.n < next + k := by
  induction k generalizing next with
  | zero => simp [fresh]
  | succ k ih =>
    simp only [fresh, List.mem_cons, ih]
    constructor
    · rintro (h | ⟨h1, h2, h3⟩)
      · subst h; simp
      · exact ⟨h1, by omega, by omega⟩
    · rintro ⟨h1, h2, h3⟩
      by_cases hn : b.n = next
      · left
        cases b
        simp_all
      · right
        exact ⟨h1, by omega, by omega⟩

theorem count_fresh_le_one (a next k : Nat) (b : BlockId) : (fresh a next k).count b ≤ 1 := by
  induction k generalizing next with
  | zero => simp [fresh]
  | succ k ih =>
    simp only [fresh, List.count_cons]
    by_cases h : (⟨a, next⟩ : BlockId) = b
    · have : b ∉ fresh a (next + 1) k := by
        intro hm
        have := (mem_fresh.mp hm).2.1
        subst h
        simp at this
        omega
      have h0 : (fresh a (next + 1) k).count b = 0 := List.count_eq_zero.mpr this
      simp [h, h0]
    · have := ih (next + 1)
      simp [h]
      exact this

/-- what the judge's state looks like relative to a starting state: only `live`, `seen`, `allocs`,
    `frees` move; nothing bad is recorded -/
structure AllocRun (j j' : Judge) (bs : List BlockId) : Prop where
  live : ∀ b, j'.live.count b = j.live.count b + bs.count b
  seen : ∀ b, b ∈ j'.seen ↔ b ∈ j.seen ∨ b ∈ bs
  bad : j'.bad = j.bad

theorem alloc_run (a : Nat) (k : Nat) : ∀ (next : Nat) (j : Judge), (∀ b ∈ j.seen, b.n < next) →
    AllocRun j (((fresh a next k).map Ev.alloc).foldl Judge.step j) (fresh a next k) := by
  induction k with
  | zero => intro next j _; exact ⟨by simp [fresh], by simp [fresh], rfl⟩
  | succ k ih =>
    intro next j hs
    have hns : (⟨a, next⟩ : BlockId) ∉ j.seen := fun hm => by have := hs _ hm; simp at this
    simp only [fresh, List.map_cons, List.foldl_cons]
    have hstep : Judge.step j (Ev.alloc ⟨a, next⟩) =
        { j with live := ⟨a, next⟩ :: j.live, seen := ⟨a, next⟩ :: j.seen, allocs := j.allocs + 1 } := by
      simp [Judge.step, hns]
    rw [hstep]
    have h2 := ih (next + 1) { j with live := ⟨a, next⟩ :: j.live, seen := ⟨a, next⟩ :: j.seen, allocs := j.allocs + 1 }
      (by
        intro b hb
        simp only [List.mem_cons] at hb
        rcases hb with hb | hb
        · subst hb; simp
        · have := hs b hb; omega)
    refine ⟨?_, ?_, ?_⟩
    · intro b
      rw [h2.live b]
      simp only [List.count_cons]
      omega
    · intro b
      rw [h2.seen b]
      simp only [List.mem_cons]
      constructor
      · rintro ((h | h) | h)
        · exact Or.inr (Or.inl h)
        · exact Or.inl h
        · exact Or.inr (Or.inr h)
      · rintro (h | h | h)
        · exact Or.inl (Or.inr h)
        · exact Or.inl (Or.inl h)
        · exact Or.inr h
    · rw [h2.bad]
      rfl

structure FreeRun (j j' : Judge) (bs : List BlockId) : Prop where
  live : ∀ b, j'.live.count b = j.live.count b - bs.count b
  seen : j'.seen = j.seen
  bad : j'.bad = j.bad
  nodup : j'.live.Nodup

theorem free_run (via : Nat) : ∀ (bs : List BlockId) (j : Judge), j.live.Nodup →
    (∀ b, bs.count b ≤ j.live.count b) → (∀ b ∈ bs, b.alloc = via) →
    FreeRun j ((bs.map (Ev.free via)).foldl Judge.step j) bs := by
  intro bs
  induction bs with
  | nil => intro j hn _ _; exact ⟨by simp, rfl, rfl, hn⟩
  | cons x xs ih =>
    intro j hn hc ha
    have hx : x ∈ j.live := by
      have := hc x
      simp only [List.count_cons_self] at this
      exact List.count_pos_iff.mp (by omega)
    have hvx : via = x.alloc := (ha x (by simp)).symm
    simp only [List.map_cons, List.foldl_cons]
    have hstep : Judge.step j (Ev.free via x) = { j with live := j.live.erase x, frees := j.frees + 1 } := by
      simp [Judge.step, hx, hvx]
    rw [hstep]
    have hn' : (j.live.erase x).Nodup := hn.erase x
    have hcount : ∀ b, (j.live.erase x).count b = j.live.count b - (if x = b then 1 else 0) := by
      intro b
      by_cases hb : x = b
      · subst hb; simp [List.count_erase_self]
      · have : (b == x) = false := by simp; exact fun h => hb h.symm
        simp [List.count_erase_of_ne (Ne.symm hb), hb]
    have h2 := ih { j with live := j.live.erase x, frees := j.frees + 1 } hn'
      (by
        intro b
        have h1 := hc b
        simp only [List.count_cons] at h1
        show xs.count b ≤ (j.live.erase x).count b
        rw [hcount b]
        by_cases hb : x = b
        · simp [hb] at h1 ⊢; omega
        · have hbe : (x == b) = false := by simp [hb]
          simp [hb, hbe] at h1 ⊢; exact h1)
      (fun b hb => ha b (by simp [hb]))
    refine ⟨?_, ?_, ?_, h2.nodup⟩
    · intro b
      rw [h2.live b]
      show (j.live.erase x).count b - xs.count b = j.live.count b - (x :: xs).count b
      rw [hcount b]
      simp only [List.count_cons]
      by_cases hb : x = b
      · simp [hb]; omega
      · have hbe : (x == b) = false := by simp [hb]
        simp [hb, hbe]
    · rw [h2.seen]
    · rw [h2.bad]; rfl

theorem step_live_sub_seen (j : Judge) (ev : Ev) (h : ∀ b ∈ j.live, b ∈ j.seen) :
    ∀ b ∈ (j.step ev).live, b ∈ (j.step ev).seen := by
  intro b hb
  cases ev with
  | alloc x =>
    by_cases hx : x ∈ j.seen
    · simp [Judge.step, hx] at hb ⊢; exact h b hb
    · simp [Judge.step, hx] at hb ⊢
      rcases hb with hb | hb
      · exact Or.inl hb
      · exact Or.inr (h b hb)
  | free via x =>
    simp only [Judge.step] at hb ⊢
    split at hb
    · split at hb <;> simp_all <;> exact h b (List.mem_of_mem_erase hb)
    · split at hb <;> simp_all
  | drop x => simp [Judge.step] at hb ⊢; exact h b hb

theorem foldl_live_sub_seen (evs : List Ev) : ∀ (j : Judge), (∀ b ∈ j.live, b ∈ j.seen) →
    ∀ b ∈ (evs.foldl Judge.step j).live, b ∈ (evs.foldl Judge.step j).seen := by
  induction evs with
  | nil => intro j h; simpa using h
  | cons e es ih => intro j h; simpa using ih (j.step e) (step_live_sub_seen j e h)

theorem live_sub_seen (log : List Ev) (b : BlockId) (h : b ∈ (judge log).live) : b ∈ (judge log).seen :=
  foldl_live_sub_seen log {} (by simp) b h

end BV.Ledger
