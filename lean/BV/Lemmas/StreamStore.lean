import BV.Lemmas.StreamRunHist
/-
`storage_` is never indexed past its end: the invariant `StoreOK` (the pending bytes lie inside
`storage_` behind the cursor, with two bytes of slack while a padding block may still be appended
behind them), its preservation by every atomic step, and — with `TinyOK` — the fact `OutOk` that
the C-ABI proofs (C13) assume of every state a stream call hands back.
-/
namespace BV.Stream
open BV.Bits

/-- when the output cursor points into `storage_`: the pending bytes fit behind it — with room for a
padding block (at most 2 bytes for a carry below 8 bits) as long as one can still be appended behind
them — and the carry is below 8 bits -/
structure StoreOK (s : St) : Prop where
  fits : ∀ off, s.nextOut = .dyn off →
    off + s.pending.length + (if s.lastBytesBits = 0 ∨ s.pending.length = 0 then 0 else 2) ≤ s.storageSize
  carry : ∀ off, s.nextOut = .dyn off → s.lastBytesBits < 8

/-- the pending bytes lie inside the buffer `next_out_` points into (`OutOk` of Lemmas/FFIStream) -/
def PendingInBuffer (s : St) : Prop :=
  match s.nextOut with
  | .dyn off => off + s.pending.length ≤ s.storageSize
  | .tiny off => off + s.pending.length ≤ 16
  | .none => True

theorem pendingInBuffer_of {s : St} (hS : StoreOK s) (hT : TinyOK s) : PendingInBuffer s := by
  unfold PendingInBuffer
  cases hn : s.nextOut with
  | dyn off => have := hS.fits off hn; simp only; omega
  | tiny off => exact (hT.fits off hn).1
  | none => trivial

theorem storeOK_of_eq {s s' : St} (hS : StoreOK s) (h1 : s'.nextOut = s.nextOut) (h2 : s'.pending = s.pending)
    (h3 : s'.lastBytesBits = s.lastBytesBits) (h4 : s.storageSize ≤ s'.storageSize) : StoreOK s' := by
  refine ⟨?_, ?_⟩
  · intro off ho
    have := hS.fits off (h1 ▸ ho)
    rw [h2, h3]
    omega
  · intro off ho
    rw [h3]; exact hS.carry off (h1 ▸ ho)

theorem storeOK_notDyn {s : St} (h : ∀ off, s.nextOut ≠ .dyn off) : StoreOK s :=
  ⟨fun off ho => absurd ho (h off), fun off ho => absurd ho (h off)⟩

/-- the padding block: appended behind pending output in `storage_` only after its bound check -/
theorem pad_store {s s1 : St} (hS : StoreOK s) (h : injectBytePaddingBlock s = .ok s1) : StoreOK s1 := by
  unfold injectBytePaddingBlock at h
  split at h
  · split at h
    · rename_i off hno
      split at h
      · simp at h
      · rename_i hok
        simp only [Out.ok.injEq] at h
        subst h
        refine ⟨?_, ?_⟩
        · intro off' ho
          simp only [padResult] at ho ⊢
          rw [hno] at ho
          injection ho with ho
          subst ho
          simp only [List.length_append, sealBytes, List.length_map, List.length_range, true_or, ↓reduceIte]
          omega
        · intro off' _; simp [padResult]
    · rename_i off hno
      split at h
      · simp at h
      · simp only [Out.ok.injEq] at h
        subst h
        apply storeOK_notDyn
        intro off' ho
        simp [padResult, hno] at ho
    · simp at h
  · simp only [Out.ok.injEq] at h
    subst h
    apply storeOK_notDyn
    intro off' ho
    simp [padResult] at ho

/-- handing out pending bytes -/
theorem push_store {s s1 : St} {io io1 : Io} {b : Bool} (hS : StoreOK s) (hc : ¬ PadDue s)
    (h : injectFlushOrPushOutput s io = .ok (s1, io1, b)) : StoreOK s1 := by
  rcases push_shape hc h with rfl | ⟨h1, h2, h3, _, _, _⟩
  · exact hS
  · have hst : s1.storageSize = s.storageSize := (push_frame h).2.2.2.2.1
    refine ⟨?_, ?_⟩
    · intro off ho
      rw [h1] at ho
      cases hno : s.nextOut with
      | none => rw [hno] at ho; simp [nextOutIncrement] at ho
      | tiny o => rw [hno] at ho; simp [nextOutIncrement] at ho
      | dyn o =>
        rw [hno] at ho
        simp only [nextOutIncrement, NextOut.dyn.injEq] at ho
        have hf := hS.fits o hno
        have hm := Nat.mod_le (o + min s.pending.length io.availOut) two32
        have hle : min s.pending.length io.availOut ≤ s.pending.length := Nat.min_le_left _ _
        rw [h2, h3, hst, List.length_drop, ← ho]
        split at hf <;> split <;> omega
    · intro off ho
      rw [h1] at ho
      cases hno : s.nextOut with
      | none => rw [hno] at ho; simp [nextOutIncrement] at ho
      | tiny o => rw [hno] at ho; simp [nextOutIncrement] at ho
      | dyn o => rw [h3]; exact hS.carry o hno

theorem wholeBytes_length_le (w : Writer) : (wholeBytes w).length ≤ w.length / 8 := wholeBytes_length w

/-- `encode_data` -/
theorem encode_store {o : Oracle} {s s' : St} {site : Nat} {il ff : Bool} {req : Req} (hS : StoreOK s)
    (hpend : s.pending = []) (h : encodeData o s site il ff = .ok (s', true, req)) : StoreOK s' := by
  obtain ⟨_, _, hdr, hM, hpay⟩ := encodeData_spec h
  obtain ⟨_, hw2, hcase⟩ := encPayload_spec hpay
  have hst : s'.storageSize = (encMid s il).1.storageSize := (encPayload_frame hpay).2.2.2.1
  rcases hcase with ⟨_, c1, _, c3, _, _, c7⟩ | ⟨_, c1, _, c3, _, _, c7, c8⟩
  · -- only what the skeleton wrote is handed out
    rcases hM.shape with ⟨a1, a2, _, a4⟩ | ⟨a1, a2, _, _, a5⟩
    · -- something was written: cursor at `storage_[0]`, the carry is the tail of `w`
      have hlen : s'.pending.length ≤ (encMid s il).2.length / 8 := by
        rw [c1, List.length_take]
        exact Nat.le_trans (Nat.min_le_right _ _) (wholeBytes_length_le _)
      refine ⟨?_, fun _ _ => by rw [c3, a4]; exact (carryOf_lt _).2⟩
      intro off ho
      rw [c7, a1] at ho
      injection ho with ho
      rw [hst, ← ho]
      split <;> omega
    · -- nothing written: nothing pending, cursor and carry untouched
      have hp0 : s'.pending.length = 0 := by rw [c1, a2]; simp
      refine ⟨?_, ?_⟩
      · intro off ho
        have hf := hS.fits off (by rw [← a1, ← c7]; exact ho)
        rw [hpend] at hf
        simp only [List.length_nil, Nat.add_zero, or_true, ↓reduceIte] at hf
        have := hM.grow
        rw [hst, hp0]
        simp only [or_true, ↓reduceIte]
        omega
      · intro off ho
        rw [c3, a5]
        exact hS.carry off (by rw [← a1, ← c7]; exact ho)
  · -- the whole meta-block is staged at `storage_[0]`
    refine ⟨?_, ?_⟩
    · intro off ho
      rw [c7] at ho
      injection ho with ho
      have := wholeBytes_length_le (wFullOf (o s.nEnc (reqOf s site il ff)) s.carry (encMid s il).2)
      rw [c1, hst, ← ho]
      split <;> omega
    · intro _ _
      rw [c3]; exact (carryOf_lt _).2

/-- one block of the one-shot path: staged in `storage_` after its capacity check, or written in place -/
theorem fastEncode_store {s1 : St} (io : Io) (ans : Ans) (req : Req) (bs : Nat) (ip il ff : Bool) (hS1 : StoreOK s1)
    (hp : s1.pending = []) (hfit : ip = false → (s1.lastBytesBits + ans.bits.length) / 8 + 2 ≤ s1.storageSize) :
    StoreOK (fastEncode s1 io ans req bs ip il ff).1 := by
  cases ip
  · have hfit' := hfit rfl
    refine ⟨?_, ?_⟩
    · intro off ho
      simp only [fastEncode, Bool.false_eq_true, ↓reduceIte] at ho ⊢
      injection ho with ho
      have hl := wholeBytes_length_le (bitsOf s1.lastBytesBits s1.lastBytes ++ ans.bits)
      rw [List.length_append, bitsOf_length] at hl
      rw [← ho]
      split <;> omega
    · intro off _
      simp only [fastEncode, Bool.false_eq_true, ↓reduceIte]
      exact (carryOf_lt _).2
  · refine ⟨?_, ?_⟩
    · intro off ho
      simp only [fastEncode, ↓reduceIte] at ho ⊢
      have hf := hS1.fits off ho
      rw [hp] at hf ⊢
      simp only [List.length_nil, Nat.add_zero, or_true, ↓reduceIte] at hf ⊢
      exact hf
    · intro off _
      simp only [fastEncode, ↓reduceIte]
      exact (carryOf_lt _).2

set_option maxRecDepth 4000 in
/-- **`StoreOK` is preserved by every atomic step** -/
theorem step_storeOK {o : Oracle} {op : Nat} {s s' : St} {io io' : Io} {e : Ev} (hS : StoreOK s)
    (h : Step o op (s, io) e (s', io')) : StoreOK s' := by
  cases h with
  | init hf =>
    apply storeOK_notDyn
    intro off ho
    obtain ⟨p, rfl⟩ := hf
    simp [ensureInitialized, St.new] at ho
  | copy hI hw hop hnf hst hrm hc hn h =>
    obtain ⟨_, _, _, _, _, _, _, _, c9, _, c11, c12, c13, _⟩ := copy_fields hI.init h
    exact storeOK_of_eq hS c12 c9 c11 (by rw [c13]; exact Nat.le_refl _)
  | pad hI hc hz h => exact pad_store hS h
  | push hI hc h => exact push_store hS hc h
  | encSlow hI hop hnf hrm hnc hnp hpend hst hgo h =>
    rename_i s2 req
    obtain ⟨_, _, _, _, _, _, _, _, _, _, _, _, u13, u14, _⟩ := updateSizeHint_fields s io.availIn
    have hno : (updateSizeHint s io.availIn).nextOut = s.nextOut := by
      by_cases hh : s.params.sizeHint = 0 <;> simp [updateSizeHint, hh]
    have hss : (updateSizeHint s io.availIn).storageSize = s.storageSize := by
      by_cases hh : s.params.sizeHint = 0 <;> simp [updateSizeHint, hh]
    have h1 := storeOK_of_eq hS hno u13 u14 (by rw [hss]; exact Nat.le_refl _)
    have h2 := encode_store h1 (by rw [u13, hpend]) h
    obtain ⟨_, _, _, _, _, _, _, k8, k9, _⟩ := markAfterEncode_fields s2 (slowIl op io) (slowFf op io)
    have kno : (markAfterEncode s2 (slowIl op io) (slowFf op io)).nextOut = s2.nextOut := by
      unfold markAfterEncode; cases slowIl op io <;> cases slowFf op io <;> rfl
    have kss : (markAfterEncode s2 (slowIl op io) (slowFf op io)).storageSize = s2.storageSize := by
      unfold markAfterEncode; cases slowIl op io <;> cases slowFf op io <;> rfl
    exact storeOK_of_eq h2 kno k8 k9 (by rw [kss]; exact Nat.le_refl _)
  | cfc hI hop hrm hnp hfl =>
    unfold checkFlushComplete
    split
    · apply storeOK_notDyn; intro off ho; simp at ho
    · exact hS
  | fastFlush hI hfm hrm hnp hpend hst hop1 hz => exact storeOK_of_eq hS rfl rfl rfl (Nat.le_refl _)
  | fastBlock hI hfm hop hrm hnp hpend hst hgo hnf hcap hin hfit =>
    obtain ⟨f1, _, f3, _, _, _, f7, f8, _⟩ := fastStorage_fields s (fastInplace s io) (fastMaxOut s io)
    have hS1 : StoreOK (fastS1 s io) := storeOK_of_eq hS f7 f1 f3 f8
    have hp1 : (fastS1 s io).pending = [] := by unfold fastS1; rw [f1, hpend]
    have hlbb : (fastS1 s io).lastBytesBits = s.lastBytesBits := f3
    refine fastEncode_store io _ _ _ _ _ _ hS1 hp1 ?_
    intro hip
    have hcap' : fastCap (fastS1 s io) io (fastInplace s io) = (fastS1 s io).storageSize := by
      unfold fastCap; rw [hip]; rfl
    rw [hcap'] at hfit
    rw [hlbb]
    omega
  | mdEnter hI hop hentry =>
    obtain ⟨_, _, _, _, _, _, _, _, _, _, _, _, u13, u14, _⟩ := updateSizeHint_fields s 0
    obtain ⟨m1, _, m3, _⟩ := mdEnter_fields (updateSizeHint s 0) io.availIn
    have hno : (mdEnter (updateSizeHint s 0) io.availIn).nextOut = s.nextOut := by
      unfold mdEnter
      by_cases hh : s.params.sizeHint = 0 <;> split <;> simp [updateSizeHint, hh]
    have hss : (mdEnter (updateSizeHint s 0) io.availIn).storageSize = s.storageSize := by
      unfold mdEnter
      by_cases hh : s.params.sizeHint = 0 <;> split <;> simp [updateSizeHint, hh]
    exact storeOK_of_eq hS hno (m1.trans u13) (m3.trans u14) (by rw [hss]; exact Nat.le_refl _)
  | mdEnc hM hop hpend hne h => exact encode_store hS hpend h
  | mdHead hM hop hpend hlf hst hok =>
    apply storeOK_notDyn; intro off ho; simp [mdHeadSt] at ho
  | mdDone hM hop hpend hlf hst hz => exact storeOK_of_eq hS rfl rfl rfl (Nat.le_refl _)
  | mdOut hM hop hpend hlf hst hnz hao hle => exact storeOK_of_eq hS rfl rfl rfl (Nat.le_refl _)
  | mdTiny hM hop hpend hlf hst hnz hao hle =>
    apply storeOK_notDyn; intro off ho; simp [mdTinySt] at ho

theorem steps_storeOK {o : Oracle} {op : Nat} {c c' : St × Io} {evs : List Ev} (h : Steps o op c evs c')
    (hS : StoreOK c.1) : StoreOK c'.1 :=
  Steps.induct (fun c => StoreOK c.1) (fun c e c1 hP hs => by
    obtain ⟨s, io⟩ := c
    obtain ⟨s1, io1⟩ := c1
    exact step_storeOK hP hs) h hS

theorem storeOK_fresh {s : St} (h : IsFresh s) : StoreOK s := by
  apply storeOK_notDyn
  intro off ho
  obtain ⟨p, rfl⟩ := h
  simp [St.new] at ho

/-- **`StoreOK` is preserved by every call** — accepted or refused, whatever the oracle answers -/
theorem storeOK_call {o : Oracle} {fuel op cap : Nat} {input : Bytes} {s s' : St} {io' : Io} {r : Bool}
    (hop : op ≤ 3) (hR : IsFresh s ∨ Inv s) (hw : s.inputPos + input.length < two64) (hS : StoreOK s)
    (h : compressStream o fuel s op input cap = .ok (s', io', r)) : StoreOK s' := by
  have key : ∀ si, Inv si → StoreOK si → si.inputPos + input.length < two64 →
      compressStream o fuel si op input cap = .ok (s', io', r) → StoreOK s' := by
    intro si hI hSi hwi hc
    cases r
    · rcases (refused_unchanged hop hI hwi hc).1 with rfl | rfl
      · exact hSi
      · obtain ⟨_, _, _, _, _, _, _, _, _, _, _, _, u13, u14, _⟩ := updateSizeHint_fields si 0
        have hno : (updateSizeHint si 0).nextOut = si.nextOut := by
          by_cases hh : si.params.sizeHint = 0 <;> simp [updateSizeHint, hh]
        have hss : (updateSizeHint si 0).storageSize = si.storageSize := by
          by_cases hh : si.params.sizeHint = 0 <;> simp [updateSizeHint, hh]
        exact storeOK_of_eq hSi hno u13 u14 (by rw [hss]; exact Nat.le_refl _)
    · obtain ⟨evs, hsteps⟩ := call_steps hop hI hwi hc
      exact steps_storeOK hsteps hSi
  rcases hR with hf | hI
  · rw [compressStream_ensure] at h
    have hIe := (inv_fresh hf).1
    have hSe : StoreOK (ensureInitialized s) := by
      apply storeOK_notDyn
      intro off ho
      obtain ⟨p, rfl⟩ := hf
      simp [ensureInitialized, St.new] at ho
    have hipe : (ensureInitialized s).inputPos = 0 := by
      obtain ⟨p, rfl⟩ := hf
      simp [ensureInitialized, St.new]
    exact key _ hIe hSe (by rw [hipe]; have := (isFresh_fields hf).2.2.1; omega) h
  · exact key s hI hS hw h

/-- `take_output` keeps `StoreOK` -/
theorem storeOK_take {s s' : St} {size : Nat} {out : Bytes} (hS : StoreOK s) (h : takeOutput s size = .ok (s', out)) :
    StoreOK s' := by
  unfold takeOutput at h
  split at h
  · simp at h
  · split at h
    · simp only [Out.ok.injEq, Prod.mk.injEq] at h
      obtain ⟨rfl, _⟩ := h
      have hc : takeCount s size ≤ s.pending.length := by unfold takeCount; split <;> omega
      generalize takeCount s size = c at hc
      have h1 : StoreOK (takeAdvance s c) := by
        refine ⟨?_, ?_⟩
        · intro off ho
          simp only [takeAdvance] at ho ⊢
          cases hno : s.nextOut with
          | none => rw [hno] at ho; simp [nextOutIncrement] at ho
          | tiny o => rw [hno] at ho; simp [nextOutIncrement] at ho
          | dyn o =>
            rw [hno] at ho
            simp only [nextOutIncrement, NextOut.dyn.injEq] at ho
            have hf := hS.fits o hno
            have hm := Nat.mod_le (o + c) two32
            simp only [List.length_drop]
            rw [← ho]
            split at hf <;> split <;> omega
        · intro off ho
          simp only [takeAdvance] at ho ⊢
          cases hno : s.nextOut with
          | none => rw [hno] at ho; simp [nextOutIncrement] at ho
          | tiny o => rw [hno] at ho; simp [nextOutIncrement] at ho
          | dyn o => exact hS.carry o hno
      unfold checkFlushComplete
      split
      · apply storeOK_notDyn; intro off ho; simp at ho
      · exact h1
    · simp only [Out.ok.injEq, Prod.mk.injEq] at h
      obtain ⟨rfl, _⟩ := h
      exact hS

end BV.Stream
