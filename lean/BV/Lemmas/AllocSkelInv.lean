import BV.Model.AllocSkel
import BV.Lemmas.LedgerJudge
/-!
The ledger-level reading of the skeleton semantics `BV.Skel.run`: along ANY path of ANY skeleton the
event log it writes stays consistent with the store of tracked places —

* the spec-side judge (`BV.Ledger.judge`, an independent replay of the raw alloc / free events) has
  recorded nothing bad (no double free, no free of an unknown / foreign block, no identity handed out twice),
* **the live set of the event log is exactly the multiset of blocks held by tracked places plus the blocks
  lost** (overwritten or gone out of scope without `free_cell`),
* serial numbers are fresh, live blocks are distinct, held blocks belong to the instance's allocator.

This needs no checker: it is the analogue of `BV.Ledger.Inv.act` (slot model) for the path model.  Together
with `chk_sound` (nothing is lost, the store is empty again) it turns `skeleton_balanced` into a statement
about alloc / free EVENTS (`BV.Props.C09Skel.skeleton_balanced_events`).
-/
namespace BV.Skel
open BV.Ledger

structure SInv (s : St) : Prop where
  bad : (judge s.log).bad = 0
  live : ∀ b, (judge s.log).live.count b = s.held.count b + s.lost.count b
  ser : ∀ b ∈ (judge s.log).seen, b.n < s.next
  nodup : (judge s.log).live.Nodup
  own : ∀ b, 0 < s.held.count b → b.alloc = s.m8

/-- splitting a store by a predicate and its complement splits the multiset of held blocks -/
theorem count_split (l : List (Var × BlockId)) (p q : Var × BlockId → Bool) (hq : ∀ x, q x = !p x) (b : BlockId) :
    ((l.filter p).map (·.2)).count b + ((l.filter q).map (·.2)).count b = (l.map (·.2)).count b := by
  induction l with
  | nil => simp
  | cons x xs ih =>
    simp only [List.filter_cons, hq x, List.map_cons, List.count_cons]
    cases hp : p x <;> simp [List.count_cons] <;> omega

theorem at_without (s : St) (v : Var) (b : BlockId) :
    (s.at v).count b + ((s.without v).map (·.2)).count b = s.held.count b := by
  have := count_split s.store (fun p => decide (p.1 = v)) (fun p => decide (p.1 ≠ v)) (by intro x; simp) b
  simpa [St.at, St.without, St.held] using this

/-- an operation that writes no event and only re-partitions blocks between places and `lost` -/
theorem SInv.repartition {s s' : St} (h : SInv s) (hlog : s'.log = s.log) (hnext : s'.next = s.next)
    (hm8 : s'.m8 = s.m8) (hsum : ∀ b, s'.held.count b + s'.lost.count b = s.held.count b + s.lost.count b)
    (hle : ∀ b, s'.held.count b ≤ s.held.count b) : SInv s' := by
  refine ⟨by rw [hlog]; exact h.bad, ?_, by rw [hlog, hnext]; exact h.ser, by rw [hlog]; exact h.nodup, ?_⟩
  · intro b; rw [hlog, h.live b, hsum b]
  · intro b hb
    rw [hm8]
    exact h.own b (by have := hle b; omega)

theorem SInv.doAlloc {s : St} (h : SInv s) (v : Var) (nz : Bool) : SInv (doAlloc s v nz) := by
  cases nz with
  | false =>
    apply h.repartition (s' := BV.Skel.doAlloc s v false) rfl rfl rfl
    · intro b
      have := at_without s v b
      simp [BV.Skel.doAlloc, St.held, List.count_append] at this ⊢
      omega
    · intro b
      have := at_without s v b
      simp [BV.Skel.doAlloc, St.held] at this ⊢
      omega
  | true =>
    have hfresh : fresh s.m8 s.next 1 = [⟨s.m8, s.next⟩] := rfl
    have hr := alloc_run s.m8 1 s.next (judge s.log) h.ser
    rw [hfresh] at hr
    have hj : judge (BV.Skel.doAlloc s v true).log = ([Ev.alloc ⟨s.m8, s.next⟩]).foldl Judge.step (judge s.log) := by
      simp [BV.Skel.doAlloc, judge_append]
    have hheld : ∀ b, (BV.Skel.doAlloc s v true).held.count b =
        ((s.without v).map (·.2)).count b + [(⟨s.m8, s.next⟩ : BlockId)].count b := by
      intro b; simp [BV.Skel.doAlloc, St.held, List.count_append]
    have hr' : AllocRun (judge s.log) (judge (BV.Skel.doAlloc s v true).log) [⟨s.m8, s.next⟩] := by
      rw [hj]; simpa using hr
    refine ⟨?_, ?_, ?_, ?_, ?_⟩
    · rw [hr'.bad]; exact h.bad
    · intro b
      rw [hr'.live b, h.live b, hheld b]
      have := at_without s v b
      simp [BV.Skel.doAlloc, List.count_append] at this ⊢
      omega
    · intro b hb
      rcases (hr'.seen b).mp hb with hb | hb
      · have := h.ser b hb
        simp [BV.Skel.doAlloc]; omega
      · simp at hb; subst hb; simp [BV.Skel.doAlloc]
    · apply List.nodup_iff_count.mpr
      intro b
      rw [hr'.live b]
      have h1 := List.nodup_iff_count.mp h.nodup b
      by_cases hb : b = ⟨s.m8, s.next⟩
      · subst hb
        have hnl : (⟨s.m8, s.next⟩ : BlockId) ∉ (judge s.log).live := by
          intro hl
          have := h.ser _ (live_sub_seen s.log _ hl)
          simp at this
        have : (judge s.log).live.count ⟨s.m8, s.next⟩ = 0 := List.count_eq_zero.mpr hnl
        simp [this]
      · have : [(⟨s.m8, s.next⟩ : BlockId)].count b = 0 := by
          apply List.count_eq_zero.mpr; simp [hb]
        omega
    · intro b hb
      rw [hheld b] at hb
      have hm : (BV.Skel.doAlloc s v true).m8 = s.m8 := rfl
      rw [hm]
      by_cases hn : b = ⟨s.m8, s.next⟩
      · subst hn; rfl
      · have h0 : [(⟨s.m8, s.next⟩ : BlockId)].count b = 0 := by
          apply List.count_eq_zero.mpr; simp [hn]
        have := at_without s v b
        exact h.own b (by omega)

theorem SInv.doFree {s : St} (h : SInv s) (v : Var) : SInv (doFree s v) := by
  have hle : ∀ b, (s.at v).count b ≤ (judge s.log).live.count b := by
    intro b
    have := at_without s v b
    rw [h.live b]; omega
  have hown : ∀ b ∈ s.at v, b.alloc = s.m8 := by
    intro b hb
    apply h.own
    have := at_without s v b
    have := List.count_pos_iff.mpr hb
    omega
  have hr := free_run s.m8 (s.at v) (judge s.log) h.nodup hle hown
  have hj : judge (BV.Skel.doFree s v).log = ((s.at v).map (Ev.free s.m8)).foldl Judge.step (judge s.log) := by
    simp [BV.Skel.doFree, judge_append]
  have hheld : ∀ b, (BV.Skel.doFree s v).held.count b = ((s.without v).map (·.2)).count b := by
    intro b; simp [BV.Skel.doFree, St.held]
  refine ⟨?_, ?_, ?_, ?_, ?_⟩
  · rw [hj, hr.bad]; exact h.bad
  · intro b
    rw [hj, hr.live b, h.live b, hheld b]
    have := at_without s v b
    have hl : (BV.Skel.doFree s v).lost = s.lost := rfl
    rw [hl]
    omega
  · intro b hb
    rw [hj, hr.seen] at hb
    exact h.ser b hb
  · rw [hj]; exact hr.nodup
  · intro b hb
    rw [hheld b] at hb
    have hm : (BV.Skel.doFree s v).m8 = s.m8 := rfl
    rw [hm]
    have := at_without s v b
    exact h.own b (by omega)

theorem SInv.doMove {s : St} (h : SInv s) (src dst : Var) : SInv (doMove s src dst) := by
  by_cases he : src = dst
  · simpa [BV.Skel.doMove, he] using h
  · have hsplit : ∀ b, ((s.store.filter (fun p => isPre dst p.1)).map (·.2)).count b +
        ((s.store.filter (fun p => !isPre dst p.1)).map (·.2)).count b = s.held.count b := by
      intro b
      simpa [St.held] using count_split s.store (fun p => isPre dst p.1) (fun p => !isPre dst p.1) (by intro x; rfl) b
    have hheld : ∀ b, (BV.Skel.doMove s src dst).held.count b =
        ((s.store.filter (fun p => !isPre dst p.1)).map (·.2)).count b := by
      intro b
      simp [BV.Skel.doMove, he, St.held, List.map_map, Function.comp_def]
    apply h.repartition (s' := BV.Skel.doMove s src dst)
    · simp [BV.Skel.doMove, he]
    · simp [BV.Skel.doMove, he]
    · simp [BV.Skel.doMove, he]
    · intro b
      rw [hheld b]
      have := hsplit b
      simp [BV.Skel.doMove, he, List.count_append] at this ⊢
      omega
    · intro b
      rw [hheld b]
      have := hsplit b
      omega

theorem SInv.doExit {s : St} (h : SInv s) (tag : Nat) : SInv (doExit s tag) := by
  have hsplit : ∀ b, ((s.store.filter (fun p => decide (p.1.head? = some tag))).map (·.2)).count b +
      ((s.store.filter (fun p => decide (p.1.head? ≠ some tag))).map (·.2)).count b = s.held.count b := by
    intro b
    simpa [St.held] using count_split s.store (fun p => decide (p.1.head? = some tag))
      (fun p => decide (p.1.head? ≠ some tag)) (by intro x; simp) b
  apply h.repartition (s' := BV.Skel.doExit s tag) rfl rfl rfl
  · intro b
    have := hsplit b
    simp [BV.Skel.doExit, St.held, List.count_append] at this ⊢
    omega
  · intro b
    have := hsplit b
    simp [BV.Skel.doExit, St.held] at this ⊢
    omega

theorem SInv.iter (f : St × List Nat → Res) (hf : ∀ s sc, SInv s → SInv (f (s, sc)).st) :
    ∀ (n : Nat) (s : St) (sc : List Nat), SInv s → SInv (iter f n (s, sc)).st := by
  intro n
  induction n with
  | zero => intro s sc h; exact h
  | succ n ih =>
    intro s sc h
    simp only [BV.Skel.iter]
    split
    · exact hf s sc h
    · exact ih _ _ (hf s sc h)

/-- **the path semantics keeps the books**: whatever skeleton, whatever script -/
theorem SInv.run (sk : Sk) : ∀ (s : St) (sc : List Nat), SInv s → SInv (run sk (s, sc)).st := by
  induction sk with
  | skip => intro s sc h; exact h
  | alloc ty v => intro s sc h; exact h.doAlloc v _
  | free ty v => intro s sc h; exact h.doFree v
  | move a b => intro s sc h; exact h.doMove a b
  | seq a b iha ihb =>
    intro s sc h
    simp only [BV.Skel.run]
    split
    · exact iha s sc h
    · exact ihb _ _ (iha s sc h)
  | alt a b iha ihb =>
    intro s sc h
    simp only [BV.Skel.run]
    split
    · exact iha _ _ h
    · exact ihb _ _ h
  | loop b ihb => intro s sc h; exact SInv.iter (BV.Skel.run b) ihb _ _ _ h
  | ret => intro s sc h; exact h
  | scope tag b ihb => intro s sc h; exact (ihb s sc h).doExit tag
  | call f site binds => intro s sc h; exact h
  | «opaque» f => intro s sc h; exact h

/-! ### the run only appends events -/

theorem doAlloc_log (s : St) (v : Var) (nz : Bool) : ∃ evs, (doAlloc s v nz).log = s.log ++ evs := by
  cases nz
  · exact ⟨[], by simp [BV.Skel.doAlloc]⟩
  · exact ⟨[Ev.alloc ⟨s.m8, s.next⟩], by simp [BV.Skel.doAlloc]⟩

theorem doMove_log (s : St) (a b : Var) : (doMove s a b).log = s.log := by
  unfold BV.Skel.doMove; split <;> rfl

theorem iter_log (f : St × List Nat → Res) (hf : ∀ s sc, ∃ evs, (f (s, sc)).st.log = s.log ++ evs) :
    ∀ (n : Nat) (s : St) (sc : List Nat), ∃ evs, (iter f n (s, sc)).st.log = s.log ++ evs := by
  intro n
  induction n with
  | zero => intro s sc; exact ⟨[], by simp [BV.Skel.iter]⟩
  | succ n ih =>
    intro s sc
    simp only [BV.Skel.iter]
    split
    · exact hf s sc
    · obtain ⟨e1, h1⟩ := hf s sc
      obtain ⟨e2, h2⟩ := ih (f (s, sc)).st (f (s, sc)).script
      exact ⟨e1 ++ e2, by rw [h2, h1, List.append_assoc]⟩

/-- the event log after a run is the log before it followed by the events of the run -/
theorem run_log_prefix (sk : Sk) : ∀ (s : St) (sc : List Nat), ∃ evs, (run sk (s, sc)).st.log = s.log ++ evs := by
  induction sk with
  | skip => intro s sc; exact ⟨[], by simp [BV.Skel.run]⟩
  | alloc ty v => intro s sc; exact doAlloc_log s v _
  | free ty v => intro s sc; exact ⟨_, rfl⟩
  | move a b => intro s sc; exact ⟨[], by simp [BV.Skel.run, doMove_log]⟩
  | seq a b iha ihb =>
    intro s sc
    simp only [BV.Skel.run]
    split
    · exact iha s sc
    · obtain ⟨e1, h1⟩ := iha s sc
      obtain ⟨e2, h2⟩ := ihb (BV.Skel.run a (s, sc)).st (BV.Skel.run a (s, sc)).script
      exact ⟨e1 ++ e2, by rw [h2, h1, List.append_assoc]⟩
  | alt a b iha ihb =>
    intro s sc
    simp only [BV.Skel.run]
    split
    · exact iha _ _
    · exact ihb _ _
  | loop b ihb => intro s sc; exact iter_log (BV.Skel.run b) ihb _ _ _
  | ret => intro s sc; exact ⟨[], by simp [BV.Skel.run]⟩
  | scope tag b ihb =>
    intro s sc
    obtain ⟨e, h⟩ := ihb s sc
    exact ⟨e, by simpa [BV.Skel.run, BV.Skel.doExit] using h⟩
  | call f site binds => intro s sc; exact ⟨[], by simp [BV.Skel.run]⟩
  | «opaque» f => intro s sc; exact ⟨[], by simp [BV.Skel.run]⟩

/-- a fresh ledger -/
theorem SInv.init (m8 : Nat) : SInv { m8 := m8 } := by
  refine ⟨rfl, ?_, ?_, ?_, ?_⟩ <;> simp [judge, St.held]

end BV.Skel
