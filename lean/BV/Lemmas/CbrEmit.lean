import BV.Lemmas.MatchCmd
import BV.Model.Cbr
import BV.Model.MetaBlock
/-! One emitted command of `CreateBackwardReferences`: the RFC decoder step on it, and `cmdOK`. -/
namespace BV.Cbr
open BV.Hasher BV.MatchFinder BV.Recoder BV.PrefixArith BV.MetaBlock

/-! ### the text: `hist ++ mb`; the decoder has produced `hist ++ mb.take cursor` -/

theorem getD_take_of_lt (l : Bytes) (n i : Nat) (h : i < n) : (l.take n).getD i 0 = l.getD i 0 := by
  simp only [List.getD_eq_getElem?_getD, List.getElem?_take, h, if_true]

theorem out_extend (hist mb : Bytes) (c n : Nat) :
    (hist ++ mb.take c) ++ (mb.drop c).take n = hist ++ mb.take (c + n) := by
  rw [List.append_assoc, List.take_add]

theorem out_is_take (hist mb : Bytes) (c : Nat) : hist ++ mb.take c = (hist ++ mb).take (hist.length + c) :=
  (List.take_length_add_append c).symm

/-- **a sound copy found at `pos` becomes a command the RFC decoder executes correctly**:
the decoder stands `ins` literals before `pos` (`pos` = text length there), the ring buffer holds
the text, the match is a copy in the sense of `match_sound_*`. -/
theorem emit_copy (w : WordOracle) (np nd window : Nat) (hp : np ≤ 3) (hnd : nd ≤ 120)
    (data : ByteArray) (k tail : Nat) (hist mb : Bytes) (lo : Nat)
    (hv : RingView data k tail (hist ++ mb) lo (hist.length + mb.length)) (htail : tail ≤ 2 ^ k)
    (hmt : mb.length ≤ tail)
    (d : DecSt) (hout : d.out = hist ++ mb.take d.cursor) (hcur : d.cursor ≤ mb.length)
    (pos ins : Nat) (hpos : pos = hist.length + d.cursor + ins) (sr : SR)
    (c0 c1 c2 c3 : Int) (rest : List Int) (hring : d.ring = [c0, c1, c2, c3])
    (hc : CacheI32 (c0 :: c1 :: c2 :: c3 :: rest))
    (hins : ins < 2 ^ 32) (hroom : d.cursor + ins < mb.length) (hfit : d.cursor + ins + sr.len ≤ mb.length)
    (hlen : sr.len < 2 ^ 25) (hx : sr.lenXCode = 0)
    (hd1 : 0 < sr.distance) (hdw : sr.distance ≤ min pos window) (hd31 : sr.distance + 15 < 2 ^ 31)
    (hlo : lo ≤ pos - sr.distance)
    (hag : Agree data ((pos - sr.distance) % 2 ^ k) (pos % 2 ^ k) sr.len) :
    ∃ cmd cache', emitCommand np nd pos window ins sr (c0 :: c1 :: c2 :: c3 :: rest) = some (cmd, cache') ∧
      decStep w np nd window mb d cmd
        = some ⟨hist ++ mb.take (d.cursor + ins + sr.len), cache'.take 4, d.cursor + ins + sr.len⟩ ∧
      cache'.take 4 = cache'.take 4 ∧ CacheI32 cache' ∧ 4 ≤ cache'.length := by
  have hlenout : d.out.length = hist.length + d.cursor := by
    rw [hout, List.length_append, List.length_take]; omega
  have hposd : pos = d.out.length + ins := by rw [hlenout]; exact hpos
  have hdle : sr.distance ≤ pos := Nat.le_trans hdw (Nat.min_le_left _ _)
  have htext := ring_match_is_text_match hv htail hdle hlo (by rw [hpos]; omega) (by omega) hag
  have hpre : d.out ++ (mb.drop d.cursor).take (ins + sr.len) = hist ++ mb.take (d.cursor + (ins + sr.len)) := by
    rw [hout]; exact out_extend hist mb d.cursor (ins + sr.len)
  have hpre' : hist ++ mb.take (d.cursor + (ins + sr.len))
      = (hist ++ mb).take (hist.length + (d.cursor + (ins + sr.len))) := out_is_take _ _ _
  obtain ⟨cmd, cache', he, hs⟩ := decStep_emitCommand w np nd window hp hnd mb d sr ins c0 c1 c2 c3 rest hring hc
    hins hroom hfit hlen hx hd1 (by rw [← hposd]; exact hdw) hd31 (by
      intro j hj
      rw [hpre, hpre', getD_take_of_lt _ _ _ (by omega), getD_take_of_lt _ _ _ (by omega), ← hposd]
      exact (htext j hj).symm)
  rw [← hposd] at he
  refine ⟨cmd, cache', he, ?_, rfl, ?_, ?_⟩
  · rw [hs, hpre, Nat.add_assoc]
  · -- the updated cache is a cache of i32s again
    unfold emitCommand at he
    simp only [] at he
    cases hcd : computeDistanceCode sr.distance (min pos window) (c0 :: c1 :: c2 :: c3 :: rest) with
    | none => simp only [hcd] at he; cases he
    | some code =>
      simp only [hcd, Option.some.injEq, Prod.mk.injEq] at he
      obtain ⟨_, rfl⟩ := he
      split
      · intro x hx'
        simp only [List.take_succ_cons, List.take_zero, List.mem_cons, List.not_mem_nil, or_false] at hx'
        rcases hx' with rfl | rfl | rfl | rfl
        · rw [BV.Recoder.toI32_small sr.distance (by omega)]; omega
        · exact hc _ (by simp)
        · exact hc _ (by simp)
        · exact hc _ (by simp)
      · exact hc
  · unfold emitCommand at he
    simp only [] at he
    cases hcd : computeDistanceCode sr.distance (min pos window) (c0 :: c1 :: c2 :: c3 :: rest) with
    | none => simp only [hcd] at he; cases he
    | some code =>
      simp only [hcd, Option.some.injEq, Prod.mk.injEq] at he
      obtain ⟨_, rfl⟩ := he
      split <;> simp

/-! ### `cmdOK` of the emitted commands (NPOSTFIX = NDIRECT = 0) -/

theorem combine_ge_128 : ∀ (ic cc : Fin 24), combineLengthCodes ic.val cc.val false ≥ 128 := by
  decide +kernel

theorem nbits_le_24 (dc : Nat) (hdc : dc < 2 ^ 26 + 12) : (prefixEncodeCopyDistance dc 0 0).nbits ≤ 24 := by
  unfold prefixEncodeCopyDistance
  split
  · simp
  · simp only [BV.Lemmas.PrefixArith.short_codes_is_16]
    have hlt : 2 ^ (0 + 2) + (dc - 16 - 0) < 2 ^ 26 := by
      have : (2:Nat) ^ 26 = 67108864 := by decide
      omega
    have hne : 2 ^ (0 + 2) + (dc - 16 - 0) ≠ 0 := by omega
    have := (Nat.log2_lt hne).mpr hlt
    unfold log2Floor
    omega

/-- `cmdOK` of a command built by `Command::init` (standard or large-window alphabet, no postfix
bits / direct codes): insert length and copy code in range, distance code within the alphabet -/
theorem cmdOK_commandInit (large : Bool) (ins len delta code : Nat) (hins : ins ≤ 2 ^ 24)
    (hlen : len < 2 ^ 25) (hdelta : delta < 64) (hc2 : 2 ≤ len + delta) (hcu : len + delta < 2 ^ 24 + 2118)
    (hcode : code < 2 ^ 31) (hstd : large = false → code < 2 ^ 26 + 12) :
    cmdOK (distAlphabetSize large 0 0) 0 0 (commandInit 0 0 ins len (len + delta) code) = true := by
  obtain ⟨f1, f2, f3, f4⟩ := commandInit_fields 0 0 ins len code (by omega) (by omega) hcode (by omega) hlen delta hdelta
  have p24 : (2 : Nat) ^ 24 = 16777216 := by decide
  have hnb := BV.Props.C18.dist_nbits_le 0 0 code hcode (by omega)
  -- symbol / nbits / extra of the distance code
  have hpk : (commandInit 0 0 ins len (len + delta) code).distPrefix
      = (prefixEncodeCopyDistance code 0 0).nbits * 1024 + (prefixEncodeCopyDistance code 0 0).sym ∧
      (prefixEncodeCopyDistance code 0 0).sym < 1024 := by
    have hs : (prefixEncodeCopyDistance code 0 0).sym < 1024 := by rw [← f3]; exact Nat.mod_lt _ (by decide)
    refine ⟨?_, hs⟩
    simp only [commandInit, DistCode.packed]
    rw [BV.Lemmas.PrefixArith.or_eq_add_of_lt _ _ hs]
    exact Nat.mod_eq_of_lt (by omega)
  obtain ⟨hpk1, hsym⟩ := hpk
  have hdiv : (commandInit 0 0 ins len (len + delta) code).distPrefix / 1024 = (prefixEncodeCopyDistance code 0 0).nbits := by
    rw [hpk1]; omega
  have hflag : ((commandInit 0 0 ins len (len + delta) code).distPrefix % 1024 == 0)
      = ((prefixEncodeCopyDistance code 0 0).packed &&& 0x3ff == 0) := by
    rw [f3]
    have : (prefixEncodeCopyDistance code 0 0).packed &&& 0x3ff = (prefixEncodeCopyDistance code 0 0).sym := by
      rw [show (0x3ff : Nat) = 2 ^ 10 - 1 by decide, Nat.and_two_pow_sub_one_eq_mod]
      have := f3; simp only [commandInit] at this; exact this
    rw [this]
  obtain ⟨i1, _, _⟩ := BV.Props.C18.ins_code_exact ins (by omega)
  obtain ⟨c1, _, _⟩ := BV.Props.C18.copy_code_exact (len + delta) hc2 (by omega)
  unfold cmdOK
  simp only [f1, f2, f3, f4, hdiv, Bool.and_eq_true, decide_eq_true_eq, Bool.or_eq_true]
  refine ⟨⟨⟨⟨⟨⟨⟨?_, by omega⟩, hc2⟩, by omega⟩, ?_⟩, ?_⟩, ?_⟩, ?_⟩
  · -- the command symbol
    simp only [commandInit]
    rw [← f3]
    simp only [commandInit]
    congr 1
    have : (prefixEncodeCopyDistance code 0 0).packed &&& 0x3ff = (prefixEncodeCopyDistance code 0 0).packed % 1024 := by
      rw [show (0x3ff : Nat) = 2 ^ 10 - 1 by decide, Nat.and_two_pow_sub_one_eq_mod]
    rw [this]
  · -- a command symbol below 128 carries distance symbol 0
    by_cases hz : (prefixEncodeCopyDistance code 0 0).sym = 0
    · right; simp [hz]
    · left
      have hb : ((prefixEncodeCopyDistance code 0 0).packed &&& 0x3ff == 0) = false := by
        have : (prefixEncodeCopyDistance code 0 0).packed &&& 0x3ff = (prefixEncodeCopyDistance code 0 0).sym := by
          rw [show (0x3ff : Nat) = 2 ^ 10 - 1 by decide, Nat.and_two_pow_sub_one_eq_mod]
          have := f3; simp only [commandInit] at this; exact this
        rw [this]; simp [hz]
      simp only [commandInit, hb, getLengthCode]
      exact combine_ge_128 ⟨_, i1⟩ ⟨_, c1⟩
  · -- inside the distance alphabet
    by_cases hdir : code < 16 + 0
    · rw [(BV.Props.C18.dist_direct_exact 0 0 code hdir).1]
      simp only [distAlphabetSize]; split <;> omega
    · cases large with
      | true =>
        have := BV.Props.C18.dist_symbol_lt_alphabet 0 0 code (by omega) 30 hnb
        simp only [distAlphabetSize, if_true]; omega
      | false =>
        have h24 := nbits_le_24 code (hstd rfl)
        have := BV.Props.C18.dist_symbol_lt_alphabet 0 0 code (by omega) 24 h24
        simp only [distAlphabetSize]; simp; omega
  · rw [hpk1]; omega
  · right
    by_cases hdir : code < 16 + 0
    · have e := (BV.Props.C18.dist_direct_exact 0 0 code hdir).1
      rw [e]
      simp only []
      rw [if_pos (by omega)]
      simp
    · obtain ⟨e1, e2, e3, e4, e5⟩ := BV.Props.C18.dist_encode_exact 0 0 code (by omega)
      rw [if_neg (by omega)]
      simp only [Bool.and_eq_true, decide_eq_true_eq]
      exact ⟨⟨e1, e3⟩, by omega⟩

end BV.Cbr
