import BV.Lemmas.MatchCmd
import BV.Model.Cbr
import BV.Model.MetaBlock
/-! One emitted command of `CreateBackwardReferences`: the RFC decoder step on it, and `cmdOK`. -/
namespace BV.Cbr
open BV.Hasher BV.MatchFinder BV.Recoder BV.PrefixArith BV.MetaBlock

/-! ### the text: `hist ++ mb`; the decoder has produced `hist ++ mb.take cursor` -/

theorem getD_take_of_lt (l : Bytes) (n i : Nat) (h : i < n) : (l.take n).getD i 0 = l.getD i 0 := by
  simp only [List.getD_eq_getElem?_getD, List.getElem?_take, h, if_true]

theorem out_extend (hist mb : Bytes) (c n : Nat) :
    (hist ++ mb.take c) ++ (mb.drop c).take n = hist ++ mb.take (c + n) := by
  rw [List.append_assoc, List.take_add]

theorem out_is_take (hist mb : Bytes) (c : Nat) : hist ++ mb.take c = (hist ++ mb).take (hist.length + c) :=
  (List.take_length_add_append c).symm

/-- **a sound copy found at `pos` becomes a command the RFC decoder executes correctly**:
the decoder stands `ins` literals before `pos` (`pos` = text length there), the ring buffer holds
the text, the match is a copy in the sense of `match_sound_*`. -/
theorem emit_copy (w : WordOracle) (np nd window : Nat) (hp : np ≤ 3) (hnd : nd ≤ 120)
    (data : ByteArray) (k : Nat) (hist mb : Bytes) (lo : Nat)
    (hv : RingView data k (hist ++ mb) lo (hist.length + mb.length))
    (d : DecSt) (hout : d.out = hist ++ mb.take d.cursor) (hcur : d.cursor ≤ mb.length)
    (pos ins : Nat) (hpos : pos = hist.length + d.cursor + ins) (sr : SR)
    (c0 c1 c2 c3 : Int) (rest : List Int) (hring : d.ring = [c0, c1, c2, c3])
    (hc : CacheI32 (c0 :: c1 :: c2 :: c3 :: rest))
    (hins : ins < 2 ^ 32) (hroom : d.cursor + ins < mb.length) (hfit : d.cursor + ins + sr.len ≤ mb.length)
    (hlen : sr.len < 2 ^ 25) (hx : sr.lenXCode = 0)
    (hd1 : 0 < sr.distance) (hdw : sr.distance ≤ min pos window) (hd31 : sr.distance + 15 < 2 ^ 31)
    (hlo : lo ≤ pos - sr.distance)
    (hag : Agree data ((pos - sr.distance) % 2 ^ k) (pos % 2 ^ k) sr.len) :
    ∃ cmd cache', emitCommand np nd pos window ins sr (c0 :: c1 :: c2 :: c3 :: rest) = some (cmd, cache') ∧
      decStep w np nd window mb d cmd
        = some ⟨hist ++ mb.take (d.cursor + ins + sr.len), cache'.take 4, d.cursor + ins + sr.len⟩ ∧
      cache'.take 4 = cache'.take 4 ∧ CacheI32 cache' ∧ 4 ≤ cache'.length := by
  have hlenout : d.out.length = hist.length + d.cursor := by
    rw [hout, List.length_append, List.length_take]; omega
  have hposd : pos = d.out.length + ins := by rw [hlenout]; exact hpos
  have hdle : sr.distance ≤ pos := Nat.le_trans hdw (Nat.min_le_left _ _)
  have htext := ring_match_is_text_match hv hdle hlo (by rw [hpos]; omega) hag
  have hpre : d.out ++ (mb.drop d.cursor).take (ins + sr.len) = hist ++ mb.take (d.cursor + (ins + sr.len)) := by
    rw [hout]; exact out_extend hist mb d.cursor (ins + sr.len)
  have hpre' : hist ++ mb.take (d.cursor + (ins + sr.len))
      = (hist ++ mb).take (hist.length + (d.cursor + (ins + sr.len))) := out_is_take _ _ _
  obtain ⟨cmd, cache', he, hs⟩ := decStep_emitCommand w np nd window hp hnd mb d sr ins c0 c1 c2 c3 rest hring hc
    hins hroom hfit hlen hx hd1 (by rw [← hposd]; exact hdw) hd31 (by
      intro j hj
      rw [hpre, hpre', getD_take_of_lt _ _ _ (by omega), getD_take_of_lt _ _ _ (by omega), ← hposd]
      exact (htext j hj).symm)
  rw [← hposd] at he
  refine ⟨cmd, cache', he, ?_, rfl, ?_, ?_⟩
  · rw [hs, hpre, Nat.add_assoc]
  · -- the updated cache is a cache of i32s again
    unfold emitCommand at he
    simp only [] at he
    cases hcd : computeDistanceCode sr.distance (min pos window) (c0 :: c1 :: c2 :: c3 :: rest) with
    | none => simp only [hcd] at he; cases he
    | some code =>
      simp only [hcd, Option.some.injEq, Prod.mk.injEq] at he
      obtain ⟨_, rfl⟩ := he
      split
      · intro x hx'
        simp only [List.take_succ_cons, List.take_zero, List.mem_cons, List.not_mem_nil, or_false] at hx'
        rcases hx' with rfl | rfl | rfl | rfl
        · rw [BV.Recoder.toI32_small sr.distance (by omega)]; omega
        · exact hc _ (by simp)
        · exact hc _ (by simp)
        · exact hc _ (by simp)
      · exact hc
  · unfold emitCommand at he
    simp only [] at he
    cases hcd : computeDistanceCode sr.distance (min pos window) (c0 :: c1 :: c2 :: c3 :: rest) with
    | none => simp only [hcd] at he; cases he
    | some code =>
      simp only [hcd, Option.some.injEq, Prod.mk.injEq] at he
      obtain ⟨_, rfl⟩ := he
      split <;> simp

end BV.Cbr
