/-
C01 / greedy builder, part 8: the histograms of a finished splitter cover the symbols emitted under them (`Covers`),
for the block type sequence the writer derives from the split (`remTypes`).
-/
import BV.Lemmas.GreedyResult

namespace BV.Greedy
open BV.Bits BV.Recoder BV.MetaBlock

/-- one symbol is covered by the histogram the context map selects for block type `t` -/
def Cov1 (histos : List (List Nat)) (eff : List Nat) (m t : Nat) (p : Nat × Nat) : Prop :=
  (histos.getD (eff.getD (t * m + p.1) 0) []).getD p.2 0 ≠ 0

theorem covers_last (histos : List (List Nat)) (eff : List Nat) (m t : Nat) : ∀ (n : Nat) (ss : List (Nat × Nat)),
    ss.length ≤ n → (∀ p ∈ ss, Cov1 histos eff m t p) → Covers histos eff m (List.replicate n t) ss
  | _, [], _, _ => by simp [Covers]
  | 0, _ :: _, h, _ => by simp at h
  | n + 1, p :: ss, h, hc => by
    rw [List.replicate_succ]
    exact ⟨hc p List.mem_cons_self, covers_last histos eff m t n ss (by simpa using h)
      (fun q hq => hc q (List.mem_cons_of_mem _ hq))⟩

theorem covers_exact (histos : List (List Nat)) (eff : List Nat) (m t : Nat) (R : List Nat) (s2 : List (Nat × Nat)) :
    ∀ (ss : List (Nat × Nat)), (∀ p ∈ ss, Cov1 histos eff m t p) → Covers histos eff m R s2 →
      Covers histos eff m (List.replicate ss.length t ++ R) (ss ++ s2)
  | [], _, h => by simpa using h
  | p :: ss, hc, h => by
    rw [List.length_cons, List.replicate_succ]
    exact ⟨hc p List.mem_cons_self, covers_exact histos eff m t R s2 ss (fun q hq => hc q (List.mem_cons_of_mem _ hq)) h⟩

/-- the block type of every symbol position: the blocks oldest first -/
def typeSeq (fb : List Blk) : List Nat := fb.flatMap (fun b => List.replicate b.len b.t)

theorem covers_blocks (histos : List (List Nat)) (eff : List Nat) (m : Nat) (φ : Nat × Nat → Nat × Nat)
    (R : List Nat) (s2 : List (Nat × Nat)) (hR : Covers histos eff m R s2) :
    ∀ (fb : List Blk) (spec : List (Nat × Nat)), spec.map φ = (fb.map (fun b => b.chunk)).flatten →
      (∀ b ∈ fb, b.chunk.length = b.len) → (∀ b ∈ fb, ∀ p ∈ spec, φ p ∈ b.chunk → Cov1 histos eff m b.t p) →
      Covers histos eff m (typeSeq fb ++ R) (spec ++ s2)
  | [], spec, hm, _, _ => by
    simp only [List.map_nil, List.flatten_nil, List.map_eq_nil_iff] at hm
    subst hm; simpa [typeSeq] using hR
  | b :: fb, spec, hm, hx, hc => by
    simp only [List.map_cons, List.flatten_cons] at hm
    obtain ⟨l1, l2, rfl, h1, h2⟩ := List.map_eq_append_iff.mp hm
    have ih := covers_blocks histos eff m φ R s2 hR fb l2 h2 (fun c hc' => hx c (List.mem_cons_of_mem _ hc'))
      (fun c hc' p hp => hc c (List.mem_cons_of_mem _ hc') p (List.mem_append_right _ hp))
    have hl : l1.length = b.len := by
      rw [← hx b List.mem_cons_self, ← h1, List.length_map]
    have := covers_exact histos eff m b.t (typeSeq fb ++ R) (l2 ++ s2) l1
      (fun p hp => hc b List.mem_cons_self p (List.mem_append_left _ hp) (by rw [← h1]; exact List.mem_map_of_mem hp)) ih
    rw [hl] at this
    simpa [typeSeq, List.append_assoc] using this

theorem flatMap_zip_map : ∀ (fb : List Blk),
    ((fb.map (fun b => b.t)).zip (fb.map (fun b => b.len))).flatMap (fun tl => List.replicate tl.2 tl.1)
      = fb.flatMap (fun b => List.replicate b.len b.t)
  | [] => rfl
  | c :: cs => by simp only [List.map_cons, List.zip_cons_cons, List.flatMap_cons, flatMap_zip_map cs]

/-- `remTypes` of a split whose blocks are `fb` -/
theorem remTypes_typeSeq (nt nb : Nat) : ∀ (fb : List Blk), fb ≠ [] →
    remTypes ⟨nt, nb, fb.map (fun b => b.t), fb.map (fun b => b.len)⟩ 0 ((fb.map (fun b => b.len)).getD 0 0) = typeSeq fb
  | [], h => absurd rfl h
  | b :: fb, _ => by
    unfold remTypes typeSeq
    simp only [List.map_cons, List.getD_cons_zero, Nat.zero_add, List.zip_cons_cons, List.drop_succ_cons, List.drop_zero,
      List.flatMap_cons]
    rw [flatMap_zip_map fb]

/-- **the histograms cover the symbols**: `spec` is the symbol stream as the writer sees it (`(context, symbol)`), `g`
sends a context to the static context the builder counted it under (`fun _ => 0` for a plain splitter), `eff` is a
context map with `eff[t · m + c] = t · K + g c`. -/
theorem covers_result {F : Type} {N A K HH : Nat} {s : BS F} {rb : List Blk} {slack : Nat}
    (h : Inv N A K HH s rb [] slack) (hne : rb ≠ []) (hnb : s.splitNumBlocks = rb.length)
    (eff : List Nat) (m : Nat) (g : Nat → Nat) (spec : List (Nat × Nat))
    (hspec : flat rb = spec.map (fun p => (g p.1, p.2)))
    (heff : ∀ t c, t < s.numTypes → c < m → eff.getD (t * m + c) 0 = t * K + g c)
    (hm : ∀ p ∈ spec, p.1 < m) :
    Covers s.flat eff m (remTypes s.toSplit 0 (s.toSplit.lengths.getD 0 0)) spec := by
  have hT : s.toSplit.types = (rb.reverse.map (fun b => b.t)) := by
    show s.types.take s.splitNumBlocks = _; rw [hnb, h.typesEq, List.map_reverse]
  have hL : s.toSplit.lengths = (rb.reverse.map (fun b => b.len)) := by
    show s.lengths.take s.splitNumBlocks = _; rw [hnb, h.lensEq, List.map_reverse]
  have hsp : s.toSplit = ⟨s.numTypes, s.splitNumBlocks, rb.reverse.map (fun b => b.t), rb.reverse.map (fun b => b.len)⟩ := by
    have : s.toSplit = ⟨s.toSplit.numTypes, s.toSplit.numBlocks, s.toSplit.types, s.toSplit.lengths⟩ := rfl
    rw [this, hT, hL]; rfl
  rw [hsp, remTypes_typeSeq _ _ rb.reverse (by simpa using hne)]
  -- the covering fact per symbol
  have hcov : ∀ b ∈ rb, ∀ p, p ∈ spec → (g p.1, p.2) ∈ b.chunk → Cov1 s.flat eff m b.t p := by
    intro b hb p hp hq
    have hc := h.cov b hb _ hq
    unfold Cov1
    rw [heff b.t p.1 (h.tlt b hb) (hm p hp), flat_getD h b.t (g p.1) (by rw [← h.ncEq]; exact hc.1)]
    exact hc.2
  obtain ⟨b0, rest, rfl⟩ : ∃ b0 rest, rb = b0 :: rest := by
    cases rb with
    | nil => exact absurd rfl hne
    | cons b0 rest => exact ⟨b0, rest, rfl⟩
  rw [flat_cons] at hspec
  obtain ⟨l1, l2, rfl, h1, h2⟩ := List.map_eq_append_iff.mp hspec.symm
  have hlast : Covers s.flat eff m (List.replicate b0.len b0.t) l2 := by
    apply covers_last
    · have := h.chunkHead b0 rfl
      rw [← h2, List.length_map] at this; omega
    · intro p hp
      exact hcov b0 List.mem_cons_self p (List.mem_append_right _ hp) (by rw [← h2]; exact List.mem_map_of_mem (f := fun p => (g p.1, p.2)) hp)
  have := covers_blocks s.flat eff m (fun p => (g p.1, p.2)) (List.replicate b0.len b0.t) l2 hlast rest.reverse l1
    (by rw [h1]; rfl)
    (fun b hb => h.chunkTail b (by simpa using hb))
    (fun b hb p hp hq => by
      have hb' : b ∈ rest := by simpa using hb
      exact hcov b (List.mem_cons_of_mem _ hb') p (List.mem_append_left _ hp) hq)
  simpa [typeSeq, List.reverse_cons, List.flatMap_append] using this

end BV.Greedy
