/-
Helper lemmas for C07, part 10: the programs the property quantifies over — sequences of
batches (≤ MAX_THREADS spawns, then the joins of exactly these jobs in ANY order, then `u`),
followed by `d` — satisfy the decidable caller contract.
-/
import BV.Model.Pool

namespace BV.Lemmas.Pool
open BV.Gen BV.Pool

/-- one batch: spawn jobs with the given `index` arguments, join them in the order `order`
(positions within the batch; `base` = number of jobs spawned before the batch), retrieve
the input -/
def batchOps (base : Nat) (idxs order : List Nat) : List Op :=
  idxs.map Op.spawn ++ order.map (fun i => Op.join (base + i)) ++ [.unwrapInput]

/-- a sequence of batches on the same pool -/
def batchesOps : Nat → List (List Nat × List Nat) → List Op
  | _, [] => []
  | base, (idxs, order) :: bs => batchOps base idxs order ++ batchesOps (base + idxs.length) bs

/-- each batch has at most `MAX_THREADS` jobs and joins each of its jobs exactly once -/
def BatchesOk (bs : List (List Nat × List Nat)) : Prop :=
  ∀ b, b ∈ bs → b.1.length ≤ MAX_THREADS ∧ b.2.Perm (List.range b.1.length)

theorem contract_spawns (nsp : Nat) (joined : List Nat) (l : List Nat) (rest : List Op)
    (h : nsp + l.length ≤ joined.length + MAX_THREADS) :
    contractFrom nsp joined false (l.map Op.spawn ++ rest)
      = contractFrom (nsp + l.length) joined false rest := by
  induction l generalizing nsp with
  | nil => simp
  | cons a t ih =>
    simp only [List.map_cons, List.cons_append, contractFrom, List.length_cons] at h ⊢
    have hlt : nsp < joined.length + MAX_THREADS := by omega
    rw [ih (nsp + 1) (by omega)]
    simp [hlt]
    congr 1; omega

theorem contract_joins (nsp base : Nat) (joined : List Nat) (order : List Nat) (rest : List Op)
    (hnd : order.Nodup) (hlt : ∀ i, i ∈ order → base + i < nsp)
    (hnj : ∀ i, i ∈ order → base + i ∉ joined) :
    contractFrom nsp joined false (order.map (fun i => Op.join (base + i)) ++ rest)
      = contractFrom nsp ((order.map (base + ·)).reverse ++ joined) false rest := by
  induction order generalizing joined with
  | nil => simp
  | cons a t ih =>
    have hnd' := List.nodup_cons.mp hnd
    simp only [List.map_cons, List.cons_append, contractFrom]
    have h1 : base + a < nsp := hlt a List.mem_cons_self
    have h2 : base + a ∉ joined := hnj a List.mem_cons_self
    rw [ih ((base + a) :: joined) hnd'.2 (fun i hi => hlt i (List.mem_cons_of_mem _ hi)) ?_]
    · simp [h1, h2]
    · intro i hi hm
      rcases List.mem_cons.mp hm with e | hm
      · have : i = a := by omega
        subst this; exact hnd'.1 hi
      · exact hnj i (List.mem_cons_of_mem _ hi) hm

theorem contract_batches (base : Nat) (joined : List Nat) (bs : List (List Nat × List Nat))
    (hok : BatchesOk bs) (hlen : joined.length = base) (hbd : ∀ x, x ∈ joined → x < base)
    (tail : List Op) (ht : ∀ nsp j, contractFrom nsp j false tail = true) :
    contractFrom base joined false (batchesOps base bs ++ tail) = true := by
  induction bs generalizing base joined with
  | nil => simpa [batchesOps] using ht base joined
  | cons b bs ih =>
    obtain ⟨idxs, order⟩ := b
    obtain ⟨hk, hperm⟩ := hok (idxs, order) List.mem_cons_self
    simp only at hk hperm
    simp only [batchesOps, batchOps, List.append_assoc]
    rw [contract_spawns base joined idxs _ (by omega)]
    have hmem : ∀ i, i ∈ order → i < idxs.length := fun i hi => by
      simpa using hperm.subset hi
    rw [contract_joins (base + idxs.length) base joined order _
      (hperm.nodup_iff.mpr List.nodup_range)
      (fun i hi => by have := hmem i hi; omega)
      (fun i hi hm => by have := hbd _ hm; omega)]
    simp only [List.cons_append, List.nil_append, contractFrom]
    apply ih _ _ (fun b hb => hok b (List.mem_cons_of_mem _ hb))
    · simp [hlen, hperm.length_eq]; omega
    · intro x hx
      rcases List.mem_append.mp hx with hx | hx
      · obtain ⟨i, hi, rfl⟩ := List.mem_map.mp (List.mem_reverse.mp hx)
        have := hmem i hi; omega
      · have := hbd x hx; omega

/-- every sequence of well-formed batches followed by `d` obeys the contract -/
theorem contract_of_batches (bs : List (List Nat × List Nat)) (hok : BatchesOk bs) :
    contract (batchesOps 0 bs ++ [.dropPool]) = true := by
  unfold contract
  apply contract_batches 0 [] bs hok rfl (by simp)
  intro nsp j
  simp [contractFrom]

end BV.Lemmas.Pool
