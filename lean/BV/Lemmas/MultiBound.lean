/-
Helper lemmas for C02 `multi_succeeds_when_sized`: the arithmetic of
`BrotliEncoderMaxCompressedSize(+Multi)` against per-job size bounds.
-/
import BV.Lemmas.MultiRange

namespace BV.Lemmas.Multi
open BV.Multi

/-- `Σ_{i<k} f i` -/
def sumTo (f : Nat → Nat) : Nat → Nat
  | 0 => 0
  | k + 1 => sumTo f k + f k

theorem sumTo_le (f g : Nat → Nat) : ∀ k, (∀ i, i < k → f i ≤ g i) → sumTo f k ≤ sumTo g k := by
  intro k
  induction k with
  | zero => intro _; exact Nat.le_refl _
  | succ k ih =>
    intro h
    have := ih fun i hi => h i (by omega)
    have := h k (by omega)
    simp only [sumTo]; omega

/-- length of piece `i` -/
def piece (t n i : Nat) : Nat := bnd t n (i + 1) - bnd t n i

theorem sum_piece (t n : Nat) : ∀ k, sumTo (piece t n) k = bnd t n k := by
  intro k
  induction k with
  | zero => simp [sumTo, bnd_zero]
  | succ k ih =>
    have hm : bnd t n k ≤ bnd t n (k + 1) := bnd_mono t n (show k ≤ k + 1 by omega)
    simp only [sumTo, ih, piece]
    generalize bnd t n k = a at hm ⊢
    generalize bnd t n (k + 1) = c at hm ⊢
    omega

theorem blocks_step (a c x : Nat) (h : a ≤ c) (hx : x ≤ a / 16384) : x + (c - a) / 16384 ≤ c / 16384 := by
  omega

/-- whole 16 KiB blocks of the pieces never outnumber those of the whole -/
theorem sum_piece_blocks (t n : Nat) : ∀ k, sumTo (fun i => piece t n i / 16384) k ≤ bnd t n k / 16384 := by
  intro k
  induction k with
  | zero => simp [sumTo]
  | succ k ih =>
    have hm : bnd t n k ≤ bnd t n (k + 1) := bnd_mono t n (show k ≤ k + 1 by omega)
    simp only [sumTo, piece]
    exact blocks_step _ _ _ hm ih

/-- below 2^62 nothing wraps and the bound is at least `n + 4·(n ≫ 14) + 22` (it is `+ 23` when
the `tail` quirk fires, i.e. for every `n ≥ 2^14`) -/
theorem maxCompressedSize_ge (n : Nat) (h : n < 2 ^ 62) (hn : 0 < n) :
    n + 4 * (n / 16384) + 22 ≤ maxCompressedSize n := by
  unfold maxCompressedSize
  simp only [Nat.shiftRight_eq_div_pow, U64]
  have hd : n / 2 ^ 14 < 2 ^ 48 := by
    apply Nat.div_lt_of_lt_mul
    have : (2 : Nat) ^ 14 * 2 ^ 48 = 2 ^ 62 := by decide
    omega
  have e14 : (2 : Nat) ^ 14 = 16384 := by decide
  rw [e14] at hd ⊢
  have h48 : (2 : Nat) ^ 48 = 281474976710656 := by decide
  have h62 : (2 : Nat) ^ 62 = 4611686018427387904 := by decide
  have h64 : (2 : Nat) ^ 64 = 18446744073709551616 := by decide
  rw [h48] at hd
  rw [h62] at h
  rw [h64]
  rw [if_neg (by omega)]
  split <;> (rw [Nat.mod_eq_of_lt (a := 4 * (n / 16384)) (by omega)]) <;>
    (first
      | (rw [Nat.mod_eq_of_lt (a := 2 + 4 * (n / 16384) + 4 + 1) (by omega),
            Nat.mod_eq_of_lt (a := n + (2 + 4 * (n / 16384) + 4 + 1)) (by omega)]
         rw [if_neg (by omega)]; omega)
      | (rw [Nat.mod_eq_of_lt (a := 2 + 4 * (n / 16384) + 3 + 1) (by omega),
            Nat.mod_eq_of_lt (a := n + (2 + 4 * (n / 16384) + 3 + 1)) (by omega)]
         rw [if_neg (by omega)]; omega))

theorem maxCompressedSize_zero : maxCompressedSize 0 = 17 := by decide

/-- Σ of per-job bounds ≤ the advertised multi bound.  `c0` / `ci`: what job 0 (which may carry
the magic header) / a job `i > 0` may add to `piece + 4·(piece ≫ 14)`. -/
theorem sized_arith (t n c0 ci : Nat) (len : Nat → Nat) (ht : 0 < t) (hn : n < 2 ^ 62) (hn0 : 0 < n)
    (hc : c0 + ci * (t - 1) + 1 ≤ 22 + 8 * t)
    (h0 : len 0 ≤ piece t n 0 + 4 * (piece t n 0 / 16384) + c0)
    (hi : ∀ i, 0 < i → i < t → len i ≤ piece t n i + 4 * (piece t n i / 16384) + ci) :
    sumTo len t + 1 ≤ maxCompressedSizeMulti n t := by
  -- Σ len ≤ Σ piece + 4 Σ blocks + c0 + ci (t-1)
  have key : ∀ k, 0 < k → k ≤ t →
      sumTo len k ≤ sumTo (piece t n) k + 4 * sumTo (fun i => piece t n i / 16384) k + c0 + ci * (k - 1) := by
    intro k
    induction k with
    | zero => intro h; omega
    | succ k ih =>
      intro _ hk
      by_cases hk0 : k = 0
      · subst hk0; simp only [sumTo]; omega
      · have := ih (by omega) (by omega)
        have := hi k (by omega) (by omega)
        have e : ci * (k + 1 - 1) = ci * (k - 1) + ci := by
          have : k + 1 - 1 = (k - 1) + 1 := by omega
          rw [this, Nat.mul_add, Nat.mul_one]
        simp only [sumTo]; omega
  have h1 := key t ht (Nat.le_refl t)
  rw [sum_piece, bnd_top t n ht] at h1
  have h2 := sum_piece_blocks t n t
  rw [bnd_top t n ht] at h2
  have h3 := maxCompressedSize_ge n hn hn0
  unfold maxCompressedSizeMulti
  omega

/-- the same without the spare byte: Σ of per-job bounds ≤ the advertised multi bound -/
theorem sized_arith' (t n c0 ci : Nat) (len : Nat → Nat) (ht : 0 < t) (hn : n < 2 ^ 62) (hn0 : 0 < n)
    (hc : c0 + ci * (t - 1) ≤ 22 + 8 * t)
    (h0 : len 0 ≤ piece t n 0 + 4 * (piece t n 0 / 16384) + c0)
    (hi : ∀ i, 0 < i → i < t → len i ≤ piece t n i + 4 * (piece t n i / 16384) + ci) :
    sumTo len t ≤ maxCompressedSizeMulti n t := by
  have key : ∀ k, 0 < k → k ≤ t →
      sumTo len k ≤ sumTo (piece t n) k + 4 * sumTo (fun i => piece t n i / 16384) k + c0 + ci * (k - 1) := by
    intro k
    induction k with
    | zero => intro h; omega
    | succ k ih =>
      intro _ hk
      by_cases hk0 : k = 0
      · subst hk0; simp only [sumTo]; omega
      · have := ih (by omega) (by omega)
        have := hi k (by omega) (by omega)
        have e : ci * (k + 1 - 1) = ci * (k - 1) + ci := by
          have : k + 1 - 1 = (k - 1) + 1 := by omega
          rw [this, Nat.mul_add, Nat.mul_one]
        simp only [sumTo]; omega
  have h1 := key t ht (Nat.le_refl t)
  rw [sum_piece, bnd_top t n ht] at h1
  have h2 := sum_piece_blocks t n t
  rw [bnd_top t n ht] at h2
  have h3 := maxCompressedSize_ge n hn hn0
  unfold maxCompressedSizeMulti
  omega

theorem sumTo_congr (f g : Nat → Nat) : ∀ k, (∀ i, i < k → f i = g i) → sumTo f k = sumTo g k := by
  intro k
  induction k with
  | zero => intro _; rfl
  | succ k ih => intro h; simp only [sumTo, ih fun i hi => h i (by omega), h k (by omega)]

theorem sumTo_take (l : List (List Nat)) : ∀ k, k ≤ l.length →
    sumTo (fun i => (l.getD i []).length) k = ((l.take k).map List.length).sum := by
  intro k
  induction k with
  | zero => intro _; rfl
  | succ k ih =>
    intro hk
    have hlt : k < l.length := by omega
    have e := ih (by omega)
    rw [List.take_succ, List.getElem?_eq_getElem hlt]
    simp only [sumTo, List.map_append, List.sum_append, Option.toList, List.map_cons, List.map_nil,
      List.sum_cons, List.sum_nil, Nat.add_zero]
    rw [e]
    simp [List.getD_eq_getElem?_getD, List.getElem?_eq_getElem hlt]

/-- `Σ_{i < |l|} |l[i]|` is the sum of the lengths -/
theorem sumTo_lengths (l : List (List Nat)) :
    sumTo (fun i => (l.getD i []).length) l.length = (l.map List.length).sum := by
  rw [sumTo_take l l.length (Nat.le_refl _), List.take_length]

end BV.Lemmas.Multi
