/-
Helper lemmas for C02 `multi_succeeds_when_sized`: one `stream` call of the concatenator
never produces more than its input plus 7 bytes (partial correctness: nothing is claimed about
panicking calls, so no invariant is needed).
-/
import BV.Lemmas.ConcatBasic

namespace BV.Concat
open Outcome BV.Gen

/-- partial correctness: if the computation returns, the value satisfies `P` -/
def Outcome.pc {α} (x : Outcome α) (P : α → Prop) : Prop := ∀ v, x = ok v → P v

theorem pc_ok {α} {v : α} {P : α → Prop} (h : P v) : (ok v).pc P := by
  intro w e; cases e; exact h

theorem pc_panic {α} (t : Site) (P : α → Prop) : (Outcome.panic t : Outcome α).pc P := by
  intro w e; cases e

theorem pc_ite {α} {c : Prop} [Decidable c] {a b : Outcome α} {P : α → Prop}
    (h1 : c → a.pc P) (h2 : ¬ c → b.pc P) : (if c then a else b).pc P := by
  by_cases hc : c
  · rw [if_pos hc]; exact h1 hc
  · rw [if_neg hc]; exact h2 hc

theorem pc_bind {α β} {x : Outcome α} {f : α → Outcome β} {P : β → Prop} (Q : α → Prop)
    (hx : x.pc Q) (hf : ∀ v, Q v → (f v).pc P) : (x.bind f).pc P := by
  cases x with
  | panic t => exact pc_panic t P
  | ok v => exact hf v (hx v rfl)

theorem pc_mono {α} {x : Outcome α} {P Q : α → Prop} (hx : x.pc P) (h : ∀ v, P v → Q v) : x.pc Q :=
  fun v e => h v (hx v e)

theorem pc_true {α} (x : Outcome α) : x.pc (fun _ => True) := fun _ _ => trivial

theorem push_pc (site : Site) (out : List Nat) (cap b : Nat) :
    (push site out cap b).pc (fun o => o.length = out.length + 1) := by
  unfold push
  exact pc_ite (fun _ => pc_ok (by simp)) (fun _ => pc_panic _ _)

/-! ### flush_previous_stream: at most one byte -/

theorem flushFin_pc (s : State) (out : List Nat) (index : Nat) :
    (flushFin s out index).pc (fun r => r.2.1 = out) := by
  unfold flushFin
  dsimp only
  exact pc_ite (fun _ => pc_panic _ _) (fun _ => pc_ok rfl)

theorem flushStrip_pc (s : State) (out : List Nat) (cap lb index : Nat) :
    (flushStrip s out cap lb index).pc (fun r => r.2.1.length ≤ out.length + 1) := by
  unfold flushStrip
  refine pc_ite (fun _ => pc_ok (by simp)) (fun _ => ?_)
  refine pc_ite (fun _ => pc_panic _ _) (fun _ => ?_)
  dsimp only
  refine pc_ite (fun _ => ?_) (fun _ => ?_)
  · refine pc_ite (fun _ => ?_) (fun _ => pc_ok (by simp))
    refine pc_bind _ (push_pc _ _ _ _) ?_
    intro o ho
    refine pc_ite (fun _ => pc_panic _ _) (fun _ => ?_)
    refine pc_mono (flushFin_pc _ _ _) ?_
    intro r hr; rw [hr, ho]; exact Nat.le_refl _
  · refine pc_mono (flushFin_pc _ _ _) ?_
    intro r hr; rw [hr]; omega

theorem flush_pc (s : State) (out : List Nat) (cap : Nat) :
    (flushPreviousStream s out cap).pc (fun r => r.2.1.length ≤ out.length + 1) := by
  unfold flushPreviousStream
  refine pc_ite (fun _ => ?_) (fun _ => pc_ok (by simp))
  refine pc_ite (fun _ => pc_ok (by simp)) (fun _ => ?_)
  dsimp only
  refine pc_ite (fun _ => pc_panic _ _) (fun _ => ?_)
  refine pc_ite (fun _ => pc_panic _ _) (fun _ => ?_)
  refine pc_bind _ (pc_true _) ?_
  intro index _
  refine pc_ite (fun _ => pc_ok (by simp)) (fun _ => ?_)
  refine pc_ite (fun _ => pc_ok (by simp)) (fun _ => ?_)
  exact flushStrip_pc _ _ _ _ _

/-! ### shift_and_check_new_stream_header: at most six bytes -/

theorem shiftCopyOut_pc (s : State) (nsp : NewStreamData) (out : List Nat) (cap : Nat) :
    (shiftCopyOut s nsp out cap).pc (fun r => r.2.1.length ≤ out.length + 5) := by
  unfold shiftCopyOut
  cases hw : nsp.num_bytes_written with
  | none => exact pc_panic _ _
  | some w =>
    dsimp only
    rw [hdr5]
    refine pc_ite (fun _ => pc_panic _ _) (fun _ => ?_)
    refine pc_ite (fun _ => pc_panic _ _) (fun _ => ?_)
    refine pc_ite (fun _ => pc_panic _ _) (fun _ => ?_)
    refine pc_ite (fun _ => pc_panic _ _) (fun hsplit => ?_)
    refine pc_ite (fun _ => pc_panic _ _) (fun _ => ?_)
    have hlen : (out ++ List.take (min (cap - out.length) (nsp.num_bytes_read - w))
        (List.drop w nsp.bytes_so_far.toList)).length ≤ out.length + 5 := by
      rw [List.length_append, List.length_take]
      have : min (min (cap - out.length) (nsp.num_bytes_read - w)) (List.drop w nsp.bytes_so_far.toList).length
          ≤ min (cap - out.length) (nsp.num_bytes_read - w) := Nat.min_le_left _ _
      omega
    refine pc_ite (fun _ => pc_ok hlen) (fun _ => ?_)
    split
    · exact pc_panic _ _
    · refine pc_ite (fun _ => pc_panic _ _) (fun _ => pc_ok ?_)
      show (List.dropLast _).length ≤ _
      rw [List.length_dropLast]
      omega

theorem forRange_pc_true {α} (f : Nat → α → Outcome α) (n start : Nat) (a : α) :
    (forRange f n start a).pc (fun _ => True) := pc_true _

theorem shiftRealign_pc (s : State) (nsp : NewStreamData) (wo vo : Nat) (out : List Nat) (cap : Nat) :
    (shiftRealign s nsp wo vo out cap).pc (fun r => r.2.2.length = out.length + 1) := by
  unfold shiftRealign
  dsimp only
  refine pc_bind _ (pc_true _) ?_
  intro bsf _
  refine pc_ite (fun _ => pc_panic _ _) (fun _ => ?_)
  refine pc_ite (fun _ => pc_panic _ _) (fun _ => ?_)
  refine pc_bind _ (pc_true _) ?_
  intro rh _
  refine pc_ite (fun _ => pc_panic _ _) (fun _ => ?_)
  refine pc_ite (fun _ => pc_panic _ _) (fun _ => ?_)
  refine pc_bind _ (pc_true _) ?_
  intro rh2 _
  refine pc_bind _ (pc_true _) ?_
  intro rh0 _
  refine pc_bind _ (push_pc _ _ _ _) ?_
  intro o ho
  refine pc_ite (fun _ => pc_panic _ _) (fun _ => ?_)
  split
  · exact pc_panic _ _
  · exact pc_ok ho

theorem shiftAndCheck_pc (s : State) (nsp : NewStreamData) (out : List Nat) (cap : Nat) :
    (shiftAndCheckNewStreamHeader s nsp out cap).pc (fun r => r.2.1.length ≤ out.length + 6) := by
  unfold shiftAndCheckNewStreamHeader
  cases hw : nsp.num_bytes_written with
  | some w =>
    dsimp only
    refine pc_ite (fun _ => pc_panic _ _) (fun _ => ?_)
    exact pc_mono (shiftCopyOut_pc _ _ _ _) (fun r hr => by omega)
  | none =>
    dsimp only
    refine pc_ite (fun _ => pc_panic _ _) (fun _ => ?_)
    refine pc_bind _ (pc_true _) ?_
    intro pw _
    cases pw with
    | none => exact pc_ok (by simp)
    | some p =>
      obtain ⟨windowSize, windowOffset⟩ := p
      dsimp only
      refine pc_ite (fun _ => ?_) (fun _ => ?_)
      · refine pc_ite (fun _ => pc_panic _ _) (fun _ => ?_)
        refine pc_bind _ (push_pc _ _ _ _) ?_
        intro o ho
        exact pc_mono (shiftCopyOut_pc _ _ _ _) (fun r hr => by omega)
      · refine pc_ite (fun _ => pc_ok (by simp)) (fun _ => ?_)
        refine pc_ite (fun _ => pc_ok (by simp)) (fun _ => ?_)
        refine pc_bind _ (pc_true _) ?_
        intro vo _
        cases vo with
        | none => exact pc_ok (by simp)
        | some v =>
          dsimp only
          refine pc_ite (fun _ => pc_ok (by simp)) (fun _ => ?_)
          refine pc_bind _ (shiftRealign_pc _ _ _ _ _ _) ?_
          intro r hr
          exact pc_mono (shiftCopyOut_pc _ _ _ _) (fun r' hr' => by omega)

/-! ### the pass-through: what is written is what is read -/

theorem streamCopy_pc (s : State) (inp : List Nat) (inOff : Nat) (out : List Nat) (cap : Nat) :
    (streamCopy s inp inOff out cap).pc (fun r => r.produced.length ≤ out.length + (inp.length - inOff)) := by
  unfold streamCopy
  refine pc_ite (fun _ => pc_ok (by simp)) (fun _ => ?_)
  refine pc_ite (fun _ => pc_ok (by simp)) (fun hne => ?_)
  refine pc_ite (fun _ => pc_panic _ _) (fun _ => ?_)
  refine pc_ite (fun _ => pc_panic _ _) (fun hlt => ?_)
  dsimp only
  refine pc_ite (fun _ => pc_panic _ _) (fun _ => ?_)
  refine pc_ite (fun _ => ?_) (fun _ => ?_)
  · refine pc_bind _ (push_pc _ _ _ _) ?_
    intro o ho
    refine pc_bind _ (pc_true _) ?_
    intro b _
    refine pc_ite (fun _ => pc_ok ?_) (fun _ => pc_ok ?_) <;> (show o.length ≤ _; omega)
  · refine pc_ite (fun _ => pc_panic _ _) (fun _ => ?_)
    refine pc_ite (fun _ => pc_panic _ _) (fun _ => ?_)
    refine pc_ite (fun _ => pc_panic _ _) (fun _ => ?_)
    split
    · refine pc_ite (fun _ => pc_panic _ _) (fun _ => ?_)
      refine pc_ite (fun _ => pc_panic _ _) (fun hl => ?_)
      have hl' : (List.take (min (cap - out.length) (inp.length - inOff) - 2)
          (List.take (min (cap - out.length) (inp.length - inOff)) (List.drop inOff inp))).length
          = min (cap - out.length) (inp.length - inOff) - 2 := by simpa using hl
      have hb : (out ++ [s.last_bytes.1, s.last_bytes.2] ++ List.take (min (cap - out.length) (inp.length - inOff) - 2)
          (List.take (min (cap - out.length) (inp.length - inOff)) (List.drop inOff inp))).length
          ≤ out.length + (inp.length - inOff) := by
        rw [List.length_append, List.length_append, hl']
        simp only [List.length_cons, List.length_nil]
        omega
      refine pc_ite (fun _ => pc_ok hb) (fun _ => pc_ok hb)
    · exact pc_panic _ _

theorem streamTail_pc (s : State) (inp : List Nat) (inOff : Nat) (out : List Nat) (cap : Nat) :
    (streamTail s inp inOff out cap).pc (fun r => r.produced.length ≤ out.length + (inp.length - inOff)) := by
  unfold streamTail
  refine pc_ite (fun _ => pc_panic _ _) (fun _ => ?_)
  refine pc_ite (fun _ => ?_) (fun _ => streamCopy_pc _ _ _ _ _)
  refine pc_ite (fun _ => pc_ok (by simp)) (fun _ => ?_)
  refine pc_ite (fun _ => pc_ok (by simp)) (fun _ => ?_)
  refine pc_bind _ (pc_true _) ?_
  intro b _
  refine pc_bind _ (pc_true _) ?_
  intro lb _
  dsimp only
  refine pc_ite (fun _ => pc_panic _ _) (fun _ => ?_)
  refine pc_ite (fun _ => ?_) (fun _ => ?_)
  · refine pc_ite (fun _ => pc_ok (by simp)) (fun _ => ?_)
    refine pc_ite (fun _ => pc_ok (by simp)) (fun _ => ?_)
    refine pc_bind _ (pc_true _) ?_
    intro b2 _
    refine pc_bind _ (pc_true _) ?_
    intro lb2 _
    refine pc_ite (fun _ => pc_panic _ _) (fun _ => ?_)
    exact pc_mono (streamCopy_pc _ _ _ _ _) (fun r hr => by omega)
  · exact pc_mono (streamCopy_pc _ _ _ _ _) (fun r hr => by omega)

/-- `stream_growth`: a call never produces more than its input + 7 bytes (one stripped-marker byte,
six realigned header bytes, and the pass-through writes exactly what it reads) -/
theorem stream_growth (s : State) (inp : List Nat) (cap : Nat) (r : Ret) (h : stream s inp cap = ok r) :
    r.produced.length ≤ inp.length + 7 := by
  have key : (stream s inp cap).pc (fun r => r.produced.length ≤ inp.length + 7) := by
    unfold stream
    cases hp : s.new_stream_pending with
    | none =>
      dsimp only
      exact pc_mono (streamTail_pc _ _ _ _ _) (fun r hr => by simp at hr; omega)
    | some nsp0 =>
      dsimp only
      refine pc_bind _ (flush_pc _ _ _) ?_
      intro fr hfr
      obtain ⟨s1, out1, code⟩ := fr
      dsimp only at hfr ⊢
      simp only [List.length_nil] at hfr
      refine pc_ite (fun _ => pc_ok (by show out1.length ≤ _; omega)) (fun _ => ?_)
      refine pc_bind (fun _ => True) (pc_true _) ?_
      intro x _
      obtain ⟨nsp, inOff, s2⟩ := x
      dsimp only
      refine pc_ite (fun _ => pc_ok (by show out1.length ≤ _; omega)) (fun _ => ?_)
      refine pc_ite (fun _ => pc_ok (by show out1.length ≤ _; omega)) (fun _ => ?_)
      refine pc_bind _ (shiftAndCheck_pc _ _ _ _) ?_
      intro sr hsr
      obtain ⟨s3, out3, code3⟩ := sr
      dsimp only at hsr ⊢
      refine pc_ite (fun _ => pc_ok (by show out3.length ≤ _; omega)) (fun _ => ?_)
      refine pc_ite (fun _ => pc_ok (by show out3.length ≤ _; omega)) (fun _ => ?_)
      exact pc_mono (streamTail_pc _ _ _ _ _) (fun r hr => by omega)
  exact key r h

end BV.Concat
