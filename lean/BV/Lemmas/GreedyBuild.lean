/-
C01 / greedy builder, part 9: the command loop of `BrotliBuildMetaBlockGreedyInternal` feeds the three splitters with
exactly the three symbol streams the writer will emit (`litSymsOf`, the command symbols, `distSymsOf`).
-/
import BV.Lemmas.GreedyCovers

namespace BV.Greedy
open BV.Bits BV.Recoder BV.MetaBlock

/-- the static context a literal context id is counted under -/
def gOf (plain : Bool) (scm : List Nat) (c : Nat) : Nat := if plain then 0 else scm.getD c 0

def phi (plain : Bool) (scm : List Nat) (p : Nat × Nat) : Nat × Nat := (gOf plain scm p.1, p.2)

/-- position bookkeeping: every command stays inside the meta-block -/
def Book (n : Nat) : Nat → List Cmd → Prop
  | _, [] => True
  | k, c :: cs => k + c.insertLen + copyLen c ≤ n ∧ Book n (k + c.insertLen + copyLen c) cs

theorem lockstep_le (wo : WordOracle) (np nd window : Nat) (mb : Bytes) : ∀ (cmds : List Cmd) (s : DecSt) (pos : Nat),
    lockstep wo np nd window mb s pos cmds = true → pos ≤ mb.length ∧ Book mb.length pos cmds
  | [], s, pos, h => by
    simp only [lockstep, Bool.and_eq_true, decide_eq_true_eq] at h
    exact ⟨by omega, trivial⟩
  | c :: cs, s, pos, h => by
    simp only [lockstep, Bool.and_eq_true, decide_eq_true_eq] at h
    obtain ⟨_, h⟩ := h
    cases hd : decStep wo np nd window mb s c with
    | none => rw [hd] at h; simp at h
    | some s' =>
      rw [hd] at h
      simp only at h
      by_cases he : pos + c.insertLen = mb.length
      · rw [if_pos he] at h
        simp only [Bool.and_eq_true, decide_eq_true_eq, List.isEmpty_iff] at h
        obtain ⟨h1, h2⟩ := h
        subst h1
        exact ⟨by omega, by rw [Book, h2]; exact ⟨by omega, trivial⟩⟩
      · rw [if_neg he] at h
        simp only [Bool.and_eq_true, decide_eq_true_eq] at h
        have := lockstep_le wo np nd window mb cs s' _ h.2
        exact ⟨by omega, this⟩

theorem feed_cons_ok {F : Type} (ops : FOps F) (s s' : BS F) (p : Nat × Nat) (ps : List (Nat × Nat))
    (h : feed ops s (p :: ps) = .ok s') : ∃ s1, addSymbol ops s p.2 p.1 = .ok s1 ∧ feed ops s1 ps = .ok s' := by
  simp only [feed] at h
  cases ha : addSymbol ops s p.2 p.1 with
  | ok s1 => rw [ha] at h; exact ⟨s1, rfl, h⟩
  | panic => rw [ha] at h; cases h
  | fuel => rw [ha] at h; cases h

theorem feed_append_ok {F : Type} (ops : FOps F) (s s' : BS F) (a b : List (Nat × Nat))
    (h : feed ops s (a ++ b) = .ok s') : ∃ s1, feed ops s a = .ok s1 ∧ feed ops s1 b = .ok s' := by
  rw [feed_append] at h
  cases ha : feed ops s a with
  | ok s1 => rw [ha] at h; exact ⟨s1, rfl, h⟩
  | panic => rw [ha] at h; cases h
  | fuel => rw [ha] at h; cases h

/-- what is fixed during the command loop -/
structure GEnv where
  ring : Bytes
  mask : Nat
  start : Nat
  mb : Bytes
  hist : Bytes
  mode : Nat
  scm : List Nat
  plain : Bool

structure GEnv.OK (E : GEnv) : Prop where
  ring : RingHolds E.ring E.mask E.start E.mb
  bytes : ∀ b ∈ E.mb, b < 256
  hbytes : ∀ b ∈ E.hist, b < 256
  mode : E.mode < 4
  scm : E.plain = false → 64 ≤ E.scm.length
  h64 : E.start + E.mb.length < two64

theorem greedyLits_sim {F : Type} (ops : FOps F) (E : GEnv) (hE : E.OK) : ∀ (n k : Nat) (st : GSt F) (out : Bytes) (lit' : BS F),
    k + n ≤ E.mb.length → st.pos = posOf E.start k → (∀ b ∈ out, b < 256) → st.prev = lastB out → st.prev2 = last2B out →
    feed ops st.lit ((litCtxs E.mode out ((E.mb.drop k).take n)).map (phi E.plain E.scm)) = .ok lit' →
    ∃ st', greedyLits ops E.ring E.mask E.mode E.scm E.plain n st = .ok st' ∧ st'.lit = lit' ∧ st'.cmd = st.cmd ∧
      st'.dist = st.dist ∧ st'.pos = posOf E.start (k + n) ∧ st'.prev = lastB (out ++ (E.mb.drop k).take n) ∧
      st'.prev2 = last2B (out ++ (E.mb.drop k).take n) := by
  intro n
  induction n with
  | zero =>
    intro k st out lit' _ hp _ h1 h2 hf
    simp only [List.take_zero, litCtxs, List.map_nil, feed, Out.ok.injEq] at hf
    exact ⟨st, rfl, hf, rfl, rfl, by simpa using hp, by simpa using h1, by simpa using h2⟩
  | succ n ih =>
    intro k st out lit' hk hp hout h1 h2 hf
    have hk' : k < E.mb.length := by omega
    rw [drop_take_succ E.mb k n hk'] at hf ⊢
    obtain ⟨bl, hbl⟩ : ∃ bl, bl = E.mb.getD k 0 := ⟨_, rfl⟩
    rw [← hbl] at hf ⊢
    have hb256 : bl < 256 := by rw [hbl]; exact hE.bytes _ (getD_mem _ _ hk')
    obtain ⟨cx1, cx2⟩ := contextOf_eq (lastB out) (last2B out) E.mode (lastB_lt out hout) (last2B_lt out hout)
    simp only [litCtxs, List.map_cons] at hf
    obtain ⟨lit1, a1, a2⟩ := feed_cons_ok ops _ _ _ _ hf
    have hread : getAt E.ring (st.pos &&& E.mask) = .ok bl := by rw [hp, hbl]; exact hE.ring k hk'
    have hlit : (if E.plain then addSymbol ops st.lit bl 0 else
        (contextOf st.prev st.prev2 E.mode).bind fun context => (getAt E.scm context).bind fun sc =>
          addSymbol ops st.lit bl sc) = .ok lit1 := by
      cases hpl : E.plain with
      | true =>
        simp only [phi, gOf, hpl, if_true] at a1
        exact a1
      | false =>
        simp only [phi, gOf, hpl] at a1
        rw [h1, h2, cx1]
        simp only [Bool.false_eq_true, if_false, Out.bind]
        rw [getAt_getD' _ _ 0 (by have := hE.scm hpl; omega)]
        exact a1
    obtain ⟨st', b1, b2, b3, b4, b5, b6, b7⟩ := ih (k + 1)
      { st with lit := lit1, prev2 := st.prev, prev := bl, pos := (st.pos + 1) % two64 } (out ++ [bl]) lit' (by omega)
      (by dsimp only; rw [hp]; exact posOf_add _ _ _)
      (by intro b hb; rcases List.mem_append.mp hb with h | h
          · exact hout b h
          · simp only [List.mem_singleton] at h; rw [h]; exact hb256)
      (by dsimp only; rw [lastB_snoc]) (by dsimp only; rw [last2B_snoc, h1]) a2
    refine ⟨st', ?_, b2, b3, b4, by rw [b5, Nat.add_assoc, Nat.add_comm 1 n], ?_, ?_⟩
    · simp only [greedyLits]
      rw [hread, Out.bind_ok]
      have : (if E.plain = true then addSymbol ops st.lit bl 0 else do
          let context ← contextOf st.prev st.prev2 E.mode
          let sc ← getAt E.scm context
          addSymbol ops st.lit bl sc) = .ok lit1 := hlit
      rw [this, Out.bind_ok]
      exact b1
    · rw [b6, List.append_assoc]; rfl
    · rw [b7, List.append_assoc]; rfl

theorem distSymsOf_cons (c : Cmd) (cs : List Cmd) : distSymsOf (c :: cs) =
    (if hasDist c then [(distanceContext c, c.distPrefix % 1024)] else []) ++ distSymsOf cs := by
  unfold distSymsOf
  rw [List.filter_cons]
  split <;> simp

theorem greedyCmds_sim {F : Type} (ops : FOps F) (E : GEnv) (hE : E.OK) : ∀ (cmds : List Cmd) (k : Nat) (st : GSt F)
    (lit' cmd' dist' : BS F), Book E.mb.length k cmds → (∀ c ∈ cmds, copyLen c ≠ 0 → 2 ≤ copyLen c) →
    st.pos = posOf E.start k → st.prev = lastB (E.hist ++ E.mb.take k) → st.prev2 = last2B (E.hist ++ E.mb.take k) →
    feed ops st.lit ((litSymsOf E.mode E.hist E.mb k cmds).map (phi E.plain E.scm)) = .ok lit' →
    feed ops st.cmd (cmds.map fun c => (0, c.cmdPrefix)) = .ok cmd' →
    feed ops st.dist ((distSymsOf cmds).map fun p => (0, p.2)) = .ok dist' →
    ∃ st', greedyCmds ops E.ring E.mask E.mode E.scm E.plain cmds st = .ok st' ∧ st'.lit = lit' ∧ st'.cmd = cmd' ∧
      st'.dist = dist' := by
  intro cmds
  induction cmds with
  | nil =>
    intro k st lit' cmd' dist' _ _ _ _ _ h1 h2 h3
    simp only [litSymsOf, List.map_nil, feed, Out.ok.injEq] at h1 h2
    simp only [distSymsOf, List.filter_nil, List.map_nil, feed, Out.ok.injEq] at h3
    exact ⟨st, rfl, h1, h2, h3⟩
  | cons c cs ih =>
    intro k st lit' cmd' dist' hbk hcl hp hv1 hv2 h1 h2 h3
    obtain ⟨hb1, hb2⟩ := hbk
    have hout : ∀ b ∈ E.hist ++ E.mb.take k, b < 256 := by
      intro b hb
      rcases List.mem_append.mp hb with h | h
      · exact hE.hbytes b h
      · exact hE.bytes b (List.mem_of_mem_take h)
    -- the command symbol
    simp only [List.map_cons] at h2
    obtain ⟨cmd1, c1, c2⟩ := feed_cons_ok ops _ _ _ _ h2
    -- the literals
    simp only [litSymsOf, List.map_append] at h1
    obtain ⟨lit1, l1, l2⟩ := feed_append_ok ops _ _ _ _ h1
    obtain ⟨st1, s1, s2, s3, s4, s5, s6, s7⟩ := greedyLits_sim ops E hE c.insertLen k { st with cmd := cmd1 }
      (E.hist ++ E.mb.take k) lit1 (by omega) hp hout hv1 hv2 l1
    have htk : E.hist ++ E.mb.take k ++ (E.mb.drop k).take c.insertLen = E.hist ++ E.mb.take (k + c.insertLen) := by
      rw [List.append_assoc, List.take_add]
    rw [htk] at s6 s7
    -- the copy
    rw [distSymsOf_cons, List.map_append] at h3
    obtain ⟨dist1, d1, d2⟩ := feed_append_ok ops _ _ _ _ h3
    have hpos' : (st1.pos + copyLen c) % two64 = posOf E.start (k + c.insertLen + copyLen c) := by
      rw [s5]; exact posOf_add _ _ _
    have hcopy : ∃ st2, greedyCopy ops E.ring E.mask c st1 = .ok st2 ∧ st2.lit = lit1 ∧ st2.cmd = cmd1 ∧ st2.dist = dist1 ∧
        st2.pos = posOf E.start (k + c.insertLen + copyLen c) ∧
        st2.prev = lastB (E.hist ++ E.mb.take (k + c.insertLen + copyLen c)) ∧
        st2.prev2 = last2B (E.hist ++ E.mb.take (k + c.insertLen + copyLen c)) := by
      unfold greedyCopy
      dsimp only
      rw [hpos']
      by_cases hz : copyLen c = 0
      · rw [if_neg (by simpa using hz)]
        have hnd : hasDist c = false := by simp [hasDist, hz]
        rw [hnd] at d1
        simp only [Bool.false_eq_true, if_false, List.map_nil, feed, Out.ok.injEq] at d1
        refine ⟨_, rfl, s2, by rw [s3], by rw [s4]; exact d1, rfl, ?_, ?_⟩
        · dsimp only; rw [s6, hz, Nat.add_zero]
        · dsimp only; rw [s7, hz, Nat.add_zero]
      · rw [if_pos hz]
        have h2c := hcl c List.mem_cons_self hz
        have hk2 : 2 ≤ k + c.insertLen + copyLen c := by omega
        have epos : posOf E.start (k + c.insertLen + copyLen c) = E.start + (k + c.insertLen + copyLen c) := by
          unfold posOf; exact Nat.mod_eq_of_lt (by have := hE.h64; omega)
        have r2 := ring_back E.ring E.mask E.start E.mb hE.ring hE.h64 (k + c.insertLen + copyLen c) 2 hk2 (by decide) hb1
        have r1 := ring_back E.ring E.mask E.start E.mb hE.ring hE.h64 (k + c.insertLen + copyLen c) 1 (by omega) (by decide) hb1
        rw [if_pos (by rw [epos]; omega), r2, Out.bind_ok, r1, Out.bind_ok]
        by_cases h128 : c.cmdPrefix ≥ 128
        · rw [if_pos h128]
          have hd : hasDist c = true := by simp [hasDist, hz, h128]
          rw [hd] at d1
          simp only [if_true, List.map_cons, List.map_nil] at d1
          obtain ⟨dist2, d3, d4⟩ := feed_cons_ok ops _ _ _ _ d1
          simp only [feed, Out.ok.injEq] at d4
          rw [s4, d3, Out.bind_ok]
          refine ⟨_, rfl, s2, by rw [s3], d4, rfl, ?_, ?_⟩
          · dsimp only; rw [lastB_take _ _ _ (by omega) hb1]
          · dsimp only; rw [last2B_take _ _ _ hk2 hb1]
        · rw [if_neg h128]
          have hnd : hasDist c = false := by simp [hasDist, h128]
          rw [hnd] at d1
          simp only [Bool.false_eq_true, if_false, List.map_nil, feed, Out.ok.injEq] at d1
          refine ⟨_, rfl, s2, by rw [s3], by rw [s4]; exact d1, rfl, ?_, ?_⟩
          · dsimp only; rw [lastB_take _ _ _ (by omega) hb1]
          · dsimp only; rw [last2B_take _ _ _ hk2 hb1]
    obtain ⟨st2, e1, e2, e3, e4, e5, e6, e7⟩ := hcopy
    obtain ⟨st', f1, f2, f3, f4⟩ := ih (k + c.insertLen + copyLen c) st2 lit' cmd' dist' hb2
      (fun x hx => hcl x (List.mem_cons_of_mem _ hx)) e5 e6 e7 (by rw [e2]; exact l2) (by rw [e3]; exact c2)
      (by rw [e4]; exact d2)
    refine ⟨st', ?_, f2, f3, f4⟩
    simp only [greedyCmds, greedyCmd]
    rw [c1, Out.bind_ok, s1, Out.bind_ok, e1, Out.bind_ok]
    exact f1

end BV.Greedy
