/-
C01 / meta-block writers, part 3: literals.  The literal loop of `StoreDataWithHuffmanCodes` over a ring
buffer that holds the meta-block bytes, read back by `readLiterals`.
-/
import BV.Lemmas.MetaBlockCmd

namespace BV.MetaBlock
open BV.Gen BV.Bits BV.Huffman BV.PrefixArith BV.Recoder

/-- the writer's `pos` after `k` bytes of the meta-block (`wrapping_add` on `usize`) -/
def posOf (start k : Nat) : Nat := (start + k) % two64

theorem posOf_add (start k n : Nat) : (posOf start k + n) % two64 = posOf start (k + n) := by
  unfold posOf
  rw [Nat.mod_add_mod, Nat.add_assoc]

theorem posOf_zero (start : Nat) (h : start < two64) : posOf start 0 = start := by
  unfold posOf; rw [Nat.add_zero, Nat.mod_eq_of_lt h]

/-- the ring buffer holds the meta-block bytes `mb` at the (wrapped) positions `start, start + 1, …` -/
def RingHolds (ring : Bytes) (mask start : Nat) (mb : Bytes) : Prop :=
  ∀ k, k < mb.length → getAt ring (posOf start k &&& mask) = .ok (mb.getD k 0)

theorem getD_mem (l : List Nat) (k : Nat) (h : k < l.length) : l.getD k 0 ∈ l := by
  rw [List.getD_eq_getElem?_getD, List.getElem?_eq_getElem h]
  simp

theorem drop_take_succ (l : List Nat) (k n : Nat) (h : k < l.length) :
    (l.drop k).take (n + 1) = l.getD k 0 :: (l.drop (k + 1)).take n := by
  rw [List.drop_eq_getElem_cons h, List.take_succ_cons]
  congr 1
  rw [List.getD_eq_getElem?_getD, List.getElem?_eq_getElem h]
  rfl

/-- the literal loop writes the code words of `mb[k .. k+n)`, and `readLiterals` reads them back -/
theorem storeLits_ok (ring : Bytes) (mask start : Nat) (mb : Bytes) (litD litB : List Nat) (lit : Code)
    (hR : RingHolds ring mask start mb) :
    ∀ (n k : Nat) (w : Writer), k + n ≤ mb.length → (∀ b ∈ (mb.drop k).take n, SymIO litD litB lit b) →
      ∃ lb, storeLits ring mask litD litB n (posOf start k) w = .ok (w ++ lb, posOf start (k + n)) ∧
        ∀ acc rest, readLiterals lit n acc (lb ++ rest) = some (acc ++ (mb.drop k).take n, rest) := by
  intro n
  induction n with
  | zero =>
    intro k w _ _
    refine ⟨[], by simp [storeLits], ?_⟩
    intro acc rest
    simp [readLiterals]
  | succ n ih =>
    intro k w hk hS
    have hk' : k < mb.length := by omega
    rw [drop_take_succ mb k n hk'] at hS
    obtain ⟨sb, hs, hr⟩ := hS (mb.getD k 0) (List.mem_cons_self ..)
    obtain ⟨lb, h1, h2⟩ := ih (k + 1) (w ++ sb) (by omega) (fun b hb => hS b (List.mem_cons_of_mem _ hb))
    refine ⟨sb ++ lb, ?_, ?_⟩
    · unfold storeLits
      rw [hR k hk', Out.bind_ok, hs w, Out.bind_ok, posOf_add, h1]
      rw [List.append_assoc, show k + 1 + n = k + (n + 1) by omega]
    · intro acc rest
      unfold readLiterals
      rw [List.append_assoc, hr]
      simp only
      rw [h2, drop_take_succ mb k n hk']
      simp

/-- the literal bytes of a command array: `mb[k .. k + insert_len)` per command, `k` advancing by
`insert_len + copy_len()` -/
def litsOf (mb : Bytes) : Nat → List Cmd → List Nat
  | _, [] => []
  | k, c :: cs => (mb.drop k).take c.insertLen ++ litsOf mb (k + c.insertLen + copyLen c) cs

end BV.MetaBlock

namespace BV.MetaBlock
open BV.Gen BV.Bits BV.Huffman BV.PrefixArith BV.Recoder
open BV.Lemmas.HuffmanRead (takeBits_bitsOf)

/-- the insert half of a command, reader side, on the three bit segments the writer produces -/
theorem readInsert_ok (lit cmd : Code) (mlen k : Nat) (out : Bytes) (sym ic cc ib ie cb ce ins clc : Nat)
    (sb lb rest : List Bool) (L : Bytes)
    (hread : ∀ r, cmd.read (sb ++ r) = some (sym, r)) (hsym : sym < 704)
    (hic : (rfcCmdDecode sym).1 = ic) (hcc : (rfcCmdDecode sym).2.1 = cc)
    (hit : rfcInsTable[ic]? = some (ib, ie)) (hct : rfcCopyTable[cc]? = some (cb, ce))
    (hib : ib ≤ ins) (hie : ins - ib < 2 ^ ie) (hcb : cb ≤ clc) (hce : clc - cb < 2 ^ ce)
    (hk : ins ≤ mlen - k)
    (hlits : ∀ acc r, readLiterals lit ins acc (lb ++ r) = some (acc ++ L, r)) :
    readInsert lit cmd mlen k out (sb ++ ((bitsOf ie (ins - ib) ++ bitsOf ce (clc - cb)) ++ (lb ++ rest)))
      = some (ins, clc, (rfcCmdDecode sym).2.2, out ++ L, rest) := by
  unfold readInsert
  rw [hread]
  simp only [show ¬ sym ≥ 704 by omega, if_false, hic, hcc, hit, hct]
  rw [List.append_assoc, takeBits_bitsOf ie _ _ hie]
  simp only
  rw [takeBits_bitsOf ce _ _ hce]
  simp only
  have e1 : ib + (ins - ib) = ins := by omega
  have e2 : cb + (clc - cb) = clc := by omega
  rw [e1, e2, if_neg (by omega), hlits]
  simp

end BV.MetaBlock

namespace BV.MetaBlock
open BV.Recoder BV.Bits

/-- `hIP` made concrete: with a ring of exactly `mask + 1` bytes (the encoder's ring buffer: a power of two)
and a meta-block not longer than the ring, both slices of `InputPairFromMaskedInput` are inside the buffer -/
theorem inputPairCheck_ok (ring : Bytes) (start len mask : Nat) (hr : ring.length = mask + 1)
    (hl : len ≤ ring.length) : inputPairCheck ring start len mask = .ok () := by
  have hm : start &&& mask ≤ mask := Nat.and_le_right
  have key : inputPairFromMaskedInput ring start len mask ≠ none := by
    unfold inputPairFromMaskedInput
    simp only
    by_cases hwrap : (start &&& mask) + len > mask + 1
    · rw [if_pos hwrap, if_pos ⟨by omega, by omega⟩]; simp
    · rw [if_neg hwrap, if_pos (by omega)]; simp
  unfold inputPairCheck
  cases h : inputPairFromMaskedInput ring start len mask with
  | none => exact absurd h key
  | some p => rfl

end BV.MetaBlock
