/-
`wmbi_reads` (BV/Lemmas/MetaBlockWmbi.lean) with the reader's FINAL STATE exposed: after `WriteMetaBlockInternal` the RFC
reader is in the state the compressed attempt leads to when the attempt is kept, and in `⟨out ++ data, ring unchanged⟩` when
the block ends up stored (verdict false, or attempt longer than input + 4) — the case in which `encode_data` rolls
`dist_cache_` back to `saved_dist_cache_`.  Same proof as `wmbi_reads`, the witness is named.
-/
import BV.Lemmas.MetaBlockWmbi

namespace BV.MetaBlock
open BV.Gen BV.Bits BV.Huffman BV.PrefixArith BV.Recoder BV.HeaderSpec BV.Stored BV.Header

/-- did `WriteMetaBlockInternal` end up with the stored representation? -/
def wmbiStored (data : List Nat) (o : MbOracle) (w : Writer) : Bool :=
  !o.shouldCompress || decide (data.length + 4 + w.length >>> 3 < (w ++ o.attempt).length >>> 3)

theorem wmbi_reads_state (wo : WordOracle) (window : Nat) (large : Bool) (appendable catable actualIsLast : Bool)
    (data : List Nat) (o : MbOracle) (w : Writer) (s s' : RdSt)
    (hcat : catable = true → appendable = true) (h1 : 1 ≤ data.length) (h2 : data.length ≤ 2 ^ 24)
    (hw : w.length < 256) (hb : ∀ b ∈ data, b < 256)
    (hatt : o.shouldCompress = true → ReadsTo wo window large w.length s o.attempt
      (if appendable then false else actualIsLast) (w.length + o.attempt.length) s') :
    ∃ r bits, writeMetaBlockInternal appendable catable actualIsLast data o w = .ok r ∧ r.fin = w ++ bits ∧
      (actualIsLast = true → ∀ rest f, readMetaBlocks wo window large (f + 2) w.length s (bits ++ rest)
        = some (if wmbiStored data o w then ⟨s.out ++ data, s.ring⟩ else s', rest)) ∧
      (actualIsLast = false → ReadsTo wo window large w.length s bits false (w.length + bits.length)
        (if wmbiStored data o w then ⟨s.out ++ data, s.ring⟩ else s')) := by
  obtain ⟨l1, l8, l17, l18⟩ := wmbi_lits
  have hnc : (!appendable && catable) = false := by
    cases appendable <;> cases catable <;> simp at hcat ⊢
  obtain ⟨rS, bitsS, eS, fS, aS, bS⟩ := wmbi_stored wo window large appendable actualIsLast data w s h1 h2 hb
  unfold writeMetaBlockInternal
  simp only [hnc, Bool.false_eq_true, if_false, l1, show ¬ data.length = 0 by omega, l8, l17, l18]
  by_cases hsc : o.shouldCompress = true
  · simp only [hsc, Bool.not_true, Bool.false_eq_true, if_false]
    by_cases hbig : data.length + 4 + w.length >>> 3 < (w ++ o.attempt).length >>> 3
    · have hst : wmbiStored data o w = true := by unfold wmbiStored; rw [decide_eq_true hbig, Bool.or_true]
      rw [if_pos hbig, if_neg (by rw [Nat.mod_eq_of_lt hw]; simp), hst]
      exact ⟨rS, bitsS, eS, fS, aS, bS⟩
    · have hst : wmbiStored data o w = false := by unfold wmbiStored; rw [decide_eq_false hbig, hsc]; rfl
      rw [if_neg hbig, hst]
      simp only [Bool.false_eq_true, if_false]
      have hr := hatt hsc
      cases hal : actualIsLast
      · subst hal
        simp only [Bool.false_eq_true, if_false, ite_self] at hr
        refine ⟨⟨w ++ o.attempt, w ++ o.attempt⟩, o.attempt, ?_, rfl, (fun h => by cases h), fun _ => hr⟩
        simp only [Bool.false_eq_true, if_false, ite_self, bne_self_eq_false]
      · subst hal
        cases happ : appendable
        · subst happ
          simp only [Bool.false_eq_true, if_false] at hr
          refine ⟨⟨w ++ o.attempt, w ++ o.attempt⟩, o.attempt, ?_, rfl, ?_, (fun h => by cases h)⟩
          · simp only [Bool.false_eq_true, if_false, bne_self_eq_false]
          · intro _ rest f
            exact readMetaBlocks_one wo window large _ _ s s' _ rest (f + 1) hr
        · subst happ
          simp only [if_true] at hr
          refine ⟨⟨w ++ o.attempt, w ++ o.attempt ++ emptyLastBits (w ++ o.attempt).length⟩,
            o.attempt ++ emptyLastBits (w ++ o.attempt).length, ?_, by simp [List.append_assoc], ?_,
            (fun h => by cases h)⟩
          · simp only [if_true, show (true != false) = true by rfl]
            rw [writeEmptyLast_ok, obind_ok]
          · intro _ rest f
            rw [List.append_assoc]
            have her := emptyLast_reads wo window large (w ++ o.attempt).length s'
            rw [List.length_append] at her
            exact readMetaBlocks_two wo window large _ _ _ s s' s' _ _ rest f hr (by rw [List.length_append]; exact her)
  · have hf : o.shouldCompress = false := by simpa using hsc
    have hst : wmbiStored data o w = true := by unfold wmbiStored; rw [hf]; rfl
    simp only [hf, Bool.not_false, if_true, hst]
    exact ⟨rS, bitsS, eS, fS, aS, bS⟩

end BV.MetaBlock
