import BV.Lemmas.AdaptersCopy
/-
`short_reads_transparent` / `short_writes_transparent` for the copy function, strong form: two runs
that differ only in the scripts of the wrapped reader AND of the wrapped writer (all scripts free
of hard errors, premature `Ok(0)` reads and zero-length writes) make the same encoder calls, hand
the same bytes to the sink and return the same result — by simulation.
-/
namespace BV.Adapters
variable {σ : Type}

/-- the drain loop over a wrapped writer that never fails hands everything over -/
theorem copyDrain_faultFree (s : Sink) (rest : Bytes) (hf : s.faultFree) :
    (copyDrain s rest).2 = .ok () ∧ (copyDrain s rest).1.got = s.got ++ rest ∧ (copyDrain s rest).1.faultFree := by
  fun_induction copyDrain s rest
  case case1 s => simp [hf]
  case case2 s rest hb s' c hx =>
    obtain ⟨k, hk, _⟩ := Sink.write_faultFree_ok s rest hf hb
    rw [hx] at hk; simp at hk
  case case3 s rest hb s' k hx hk ih =>
    have hf' : s'.faultFree := by have := Sink.write_faultFree s rest hf; rwa [hx] at this
    obtain ⟨i1, i2, i3⟩ := ih hf'
    obtain ⟨_, _, _, hle, hg⟩ := Sink.write_cases _ _ _ _ hx
    refine ⟨i1, ?_, i3⟩
    rw [i2, hg, List.append_assoc, List.take_append_drop]
  case case4 s rest hb s' k hx hk =>
    obtain ⟨k', hk', hpos⟩ := Sink.write_faultFree_ok s rest hf hb
    rw [hx] at hk'; simp at hk'; omega

/-- equal up to the scripts / logs of both wrapped streams and the bytes of the input buffer
outside the window -/
structure Copy.Sim (a b : Copy σ) : Prop where
  ilen : a.ibuf.length = b.ibuf.length
  nextIn : a.nextIn = b.nextIn
  avail : a.availableIn = b.availableIn
  window : a.window = b.window
  obuf : a.obufSize = b.obufSize
  pending : a.pending = b.pending
  eof : a.eof = b.eof
  readErr : a.readErr = b.readErr
  enc : a.enc = b.enc
  totalOut : a.totalOut = b.totalOut
  elog : a.elog = b.elog
  data : a.src.data = b.src.data
  got : a.sink.got = b.sink.got
  ffra : a.src.faultFree
  ffrb : b.src.faultFree
  ffwa : a.sink.faultFree
  ffwb : b.sink.faultFree
  fits : a.nextIn + a.availableIn ≤ a.ibuf.length

theorem refill_sim {a b : Copy σ} (h : Copy.Sim a b) : Copy.Sim a.refill b.refill := by
  unfold Copy.refill
  by_cases hc : a.availableIn = 0 ∧ a.eof = false
  · have hc' : b.availableIn = 0 ∧ b.eof = false := by rw [← h.avail, ← h.eof]; exact hc
    rw [if_pos hc, if_pos hc']
    have ha0 : ({ a with nextIn := 0 } : Copy σ).availableIn ≤ ({ a with nextIn := 0 } : Copy σ).ibuf.length := by
      show a.availableIn ≤ a.ibuf.length; rw [hc.1]; exact Nat.zero_le _
    have hb0 : ({ b with nextIn := 0 } : Copy σ).availableIn ≤ ({ b with nextIn := 0 } : Copy σ).ibuf.length := by
      show b.availableIn ≤ b.ibuf.length; rw [hc'.1]; exact Nat.zero_le _
    obtain ⟨a1, a2, a3, a4, a5, a6, a7⟩ := Copy.fill_faultFree { a with nextIn := 0 } ha0 h.ffra
    obtain ⟨b1, b2, b3, b4, b5, b6, b7⟩ := Copy.fill_faultFree { b with nextIn := 0 } hb0 h.ffrb
    simp only at a1 a2 a3 a4 a5 a6 a7 b1 b2 b3 b4 b5 b6 b7
    have hfa : ∀ (c : Copy σ), c.fill.nextIn = c.nextIn ∧ c.fill.obufSize = c.obufSize ∧ c.fill.pending = c.pending ∧
        c.fill.enc = c.enc ∧ c.fill.totalOut = c.totalOut ∧ c.fill.elog = c.elog ∧ c.fill.sink = c.sink := by
      intro c; unfold Copy.fill; simp only; split <;> exact ⟨rfl, rfl, rfl, rfl, rfl, rfl, rfl⟩
    obtain ⟨p1, p2, p3, p4, p5, p6, p7⟩ := hfa { a with nextIn := 0 }
    obtain ⟨q1, q2, q3, q4, q5, q6, q7⟩ := hfa { b with nextIn := 0 }
    simp only at p1 p2 p3 p4 p5 p6 p7 q1 q2 q3 q4 q5 q6 q7
    have hm : fillAmount a.ibuf.length a.availableIn a.eof a.src.data.length = fillAmount b.ibuf.length b.availableIn b.eof b.src.data.length := by
      rw [h.ilen, h.avail, h.eof, h.data]
    have hmle : fillAmount a.ibuf.length a.availableIn a.eof a.src.data.length ≤ a.ibuf.length := by
      unfold fillAmount; split <;> omega
    constructor
    · rw [a2, b2]; exact h.ilen
    · rw [p1, q1]
    · rw [a3, b3, hm, h.avail]
    · unfold Copy.window
      rw [p1, q1, List.drop_zero, List.drop_zero, a4, b4]
      rw [hc.1, hc'.1] at hm ⊢
      rw [hm, h.data]; simp
    · rw [p2, q2]; exact h.obuf
    · rw [p3, q3]; exact h.pending
    · rw [a6, b6, h.eof, h.data, h.ilen, h.avail]
    · rw [a1, b1]; exact h.readErr
    · rw [p4, q4]; exact h.enc
    · rw [p5, q5]; exact h.totalOut
    · rw [p6, q6]; exact h.elog
    · rw [a5, b5, hm, h.data]
    · rw [p7, q7]; exact h.got
    · exact a7
    · exact b7
    · rw [p7]; exact h.ffwa
    · rw [q7]; exact h.ffwb
    · rw [p1, a3, a2]; rw [hc.1] at hmle ⊢; simpa using hmle
  · have hc' : ¬ (b.availableIn = 0 ∧ b.eof = false) := by rw [← h.avail, ← h.eof]; exact hc
    rw [if_neg hc, if_neg hc']
    exact h

def CIter.Sim : CIter σ → CIter σ → Prop
  | .stop a o, .stop b o' => o = o' ∧ (o ≠ .panic → Copy.Sim a b)
  | .cont a, .cont b => Copy.Sim a b
  | _, _ => False

theorem Copy.afterStep_sim (E : Enc σ) {a b : Copy σ} (h : Copy.Sim a b)
    (hc : (E.step a.enc a.nextOp a.window (a.obufSize - a.pending.length)).2.consumed ≤ a.availableIn) :
    Copy.Sim (a.afterStep E) (b.afterStep E) := by
  obtain ⟨a1, a2, a3, a4, a5, a6, a7, a8, a9, a10, a11⟩ := Copy.afterStep_spec E a _ rfl
  obtain ⟨b1, b2, b3, b4, b5, b6, b7, b8, b9, b10, b11⟩ := Copy.afterStep_spec E b _ rfl
  have hop : b.nextOp = a.nextOp := by unfold Copy.nextOp; rw [h.avail]
  have hst : E.step b.enc b.nextOp b.window (b.obufSize - b.pending.length) = E.step a.enc a.nextOp a.window (a.obufSize - a.pending.length) := by
    rw [hop, ← h.enc, ← h.window, ← h.obuf, ← h.pending]
  rw [hst] at b1 b2 b3 b4 b5
  constructor
  · rw [a6, b6]; exact h.ilen
  · rw [a3, b3, h.nextIn]
  · rw [a4, b4, h.avail]
  · unfold Copy.window
    rw [a6, b6, a3, b3, a4, b4, ← h.nextIn, ← h.avail]
    have e1 : ∀ (c : Copy σ) (k : Nat), (c.ibuf.drop (c.nextIn + k)).take (c.availableIn - k) = c.window.drop k := by
      intro c k; unfold Copy.window; rw [List.drop_take, List.drop_drop]
    rw [e1 a, h.nextIn, h.avail, e1 b, h.window]
  · rw [a7, b7]; exact h.obuf
  · rw [a5, b5, h.pending]
  · rw [a10, b10]; exact h.eof
  · rw [a11, b11]; exact h.readErr
  · rw [a1, b1]
  · show (if _ then _ else _) = (if _ then _ else _)
    have := hst
    simp only [Copy.nextOp, Copy.window] at this
    rw [this, h.totalOut]
  · rw [a2, b2, hop, h.window, h.obuf, h.pending, h.elog]
  · rw [a8, b8]; exact h.data
  · rw [a9, b9]; exact h.got
  · rw [a8]; exact h.ffra
  · rw [b8]; exact h.ffrb
  · rw [a9]; exact h.ffwa
  · rw [b9]; exact h.ffwb
  · rw [a3, a4, a6]; have := h.fits; omega

theorem Copy.Sim.set_sink {a b : Copy σ} (h : Copy.Sim a b) (sa sb : Sink) (hg : sa.got = sb.got)
    (fa : sa.faultFree) (fb : sb.faultFree) :
    Copy.Sim { a with sink := sa, pending := [] } { b with sink := sb, pending := [] } :=
  ⟨h.ilen, h.nextIn, h.avail, h.window, h.obuf, rfl, h.eof, h.readErr, h.enc, h.totalOut, h.elog, h.data, hg,
   h.ffra, h.ffrb, fa, fb, h.fits⟩

theorem Copy.iter_sim (E : Enc σ) {a b : Copy σ} (h : Copy.Sim a b) :
    CIter.Sim (Copy.iter E a) (Copy.iter E b) := by
  have h1 := refill_sim h
  unfold Copy.iter
  simp only
  generalize a.refill = a1 at h1
  generalize b.refill = b1 at h1
  have hwl := Copy.window_length a1 h1.fits
  have hop : (if b1.availableIn = 0 then Op.finish else Op.process) = (if a1.availableIn = 0 then Op.finish else Op.process) := by rw [h1.avail]
  have hin : (b1.ibuf.drop b1.nextIn).take b1.availableIn = (a1.ibuf.drop a1.nextIn).take a1.availableIn := h1.window.symm
  rw [hop, hin, ← h1.enc, ← h1.obuf, ← h1.pending, ← h1.avail]
  generalize hst : E.step a1.enc (if a1.availableIn = 0 then Op.finish else Op.process) ((a1.ibuf.drop a1.nextIn).take a1.availableIn) (a1.obufSize - a1.pending.length) = st
  by_cases hins : st.2.consumed > ((a1.ibuf.drop a1.nextIn).take a1.availableIn).length ∨ st.2.produced.length > a1.obufSize - a1.pending.length ∨
      ((a1.ibuf.drop a1.nextIn).take a1.availableIn).length ≠ a1.availableIn ∨ a1.pending.length > a1.obufSize
  · rw [if_pos hins, if_pos hins]
    exact ⟨rfl, fun hne => absurd rfl hne⟩
  · rw [if_neg hins, if_neg hins]
    have hc : (E.step a1.enc a1.nextOp a1.window (a1.obufSize - a1.pending.length)).2.consumed ≤ a1.availableIn := by
      have : E.step a1.enc a1.nextOp a1.window (a1.obufSize - a1.pending.length) = st := hst
      rw [this]
      have hwl' : ((a1.ibuf.drop a1.nextIn).take a1.availableIn).length = a1.availableIn := hwl
      omega
    have h2 := Copy.afterStep_sim E h1 hc
    generalize a1.afterStep E = a2 at h2
    generalize b1.afterStep E = b2 at h2
    have e_enc := h2.enc
    have e_pend := h2.pending
    have e_obuf := h2.obuf
    -- the tail of the iteration, from related post-drain states
    have tail : ∀ (a3 b3 : Copy σ), Copy.Sim a3 b3 →
        CIter.Sim
          (if (!st.2.ok) = true then CIter.stop a3 (.done (.error (match a3.readErr with | some re => re | none => Err.unexpectedEof)))
           else if E.isFinished a2.enc = true then
             (match a3.readErr with | some re => CIter.stop a3 (.done (.error re)) | none => CIter.stop a3 (.done (.ok a3.totalOut)))
           else CIter.cont a3)
          (if (!st.2.ok) = true then CIter.stop b3 (.done (.error (match b3.readErr with | some re => re | none => Err.unexpectedEof)))
           else if E.isFinished b2.enc = true then
             (match b3.readErr with | some re => CIter.stop b3 (.done (.error re)) | none => CIter.stop b3 (.done (.ok b3.totalOut)))
           else CIter.cont b3) := by
      intro a3 b3 h3
      rw [← e_enc, ← h3.readErr, ← h3.totalOut]
      split
      · exact ⟨rfl, fun _ => h3⟩
      · split
        · split
          · exact ⟨rfl, fun _ => h3⟩
          · exact ⟨rfl, fun _ => h3⟩
        · exact h3
    by_cases ca : a2.pending.length = a2.obufSize ∨ E.isFinished a2.enc = true
    · have cb : b2.pending.length = b2.obufSize ∨ E.isFinished b2.enc = true := by rw [← e_pend, ← e_obuf, ← e_enc]; exact ca
      rw [if_pos ca, if_pos cb]
      obtain ⟨x1, x2, x3⟩ := copyDrain_faultFree a2.sink a2.pending h2.ffwa
      obtain ⟨y1, y2, y3⟩ := copyDrain_faultFree b2.sink b2.pending h2.ffwb
      cases hda : copyDrain a2.sink a2.pending with
      | mk sa ra =>
        cases hdb : copyDrain b2.sink b2.pending with
        | mk sb rb =>
          rw [hda] at x1 x2 x3; rw [hdb] at y1 y2 y3
          simp only at x1 x2 x3 y1 y2 y3
          subst x1 y1
          simp only
          exact tail _ _ (h2.set_sink sa sb (by rw [x2, y2, h2.got, e_pend]) x3 y3)
    · have cb : ¬ (b2.pending.length = b2.obufSize ∨ E.isFinished b2.enc = true) := by rw [← e_pend, ← e_obuf, ← e_enc]; exact ca
      rw [if_neg ca, if_neg cb]
      simp only
      exact tail a2 b2 h2

/-- the loop of the copy function does not see the scripts of wrapped streams that never fail -/
theorem Copy.loop_sim (E : Enc σ) : ∀ (fuel : Nat) {a b : Copy σ}, Copy.Sim a b →
    (Copy.loop E fuel a).2 = (Copy.loop E fuel b).2 ∧
    ((Copy.loop E fuel a).2 ≠ .panic → Copy.Sim (Copy.loop E fuel a).1 (Copy.loop E fuel b).1) := by
  intro fuel
  induction fuel with
  | zero => intro a b h; exact ⟨rfl, fun _ => h⟩
  | succ fuel ih =>
    intro a b h
    have hi := Copy.iter_sim E h
    simp only [Copy.loop]
    cases ha : Copy.iter E a with
    | stop a' o =>
      cases hb : Copy.iter E b with
      | stop b' o' => rw [ha, hb] at hi; exact ⟨hi.1, hi.2⟩
      | cont b' => rw [ha, hb] at hi; exact absurd hi (by simp [CIter.Sim])
    | cont a' =>
      cases hb : Copy.iter E b with
      | stop b' o' => rw [ha, hb] at hi; exact absurd hi (by simp [CIter.Sim])
      | cont b' => rw [ha, hb] at hi; exact ih hi

end BV.Adapters
