/-
The loop theorem of `CreateBackwardReferences` in OPEN form (w-compose, on top of w-hasher's BV/Lemmas/CbrLoop.lean):
what the decoder state is after the commands of one call BEFORE the meta-block is closed — in particular that the
decoder's distance ring is the encoder's `dist_cache` the call returns, and that every emitted command is a real copy
that does not end the (local) meta-block.  Needed to chain calls: several calls merged into one meta-block
(`openSteps_embed`), several meta-blocks of one catable member (ring threading in BV/Props/C03Catable.lean).
-/
import BV.Lemmas.CbrDict

namespace BV.Cbr
open BV.Hasher BV.MatchFinder BV.Recoder BV.PrefixArith BV.MetaBlock

/-- `decSteps` restricted to commands that copy and whose insert part does not complete the meta-block
(what every command emitted inside the loop is; the closing insert-only command is the only exception) -/
def openSteps (w : WordOracle) (np nd window : Nat) (mb : Bytes) : DecSt → List Cmd → Option DecSt
  | s, [] => some s
  | s, c :: cs =>
    if s.cursor + c.insertLen ≠ mb.length ∧ copyLen c ≠ 0 then
      match decStep w np nd window mb s c with
      | none => none
      | some s' => if s'.cursor = s.cursor + c.insertLen + copyLen c then openSteps w np nd window mb s' cs else none
    else none

theorem openSteps_dec (w : WordOracle) (np nd window : Nat) (mb : Bytes) :
    ∀ (cmds : List Cmd) (s s' : DecSt), openSteps w np nd window mb s cmds = some s' →
      decSteps w np nd window mb s cmds = some s' := by
  intro cmds
  induction cmds with
  | nil => intro s s' h; simpa [openSteps, decSteps] using h
  | cons c cs ih =>
    intro s s' h
    simp only [openSteps] at h
    simp only [decSteps]
    split at h
    · cases hd : decStep w np nd window mb s c with
      | none => rw [hd] at h; cases h
      | some s1 =>
        rw [hd] at h
        simp only at h ⊢
        split at h
        · exact ih s1 s' h
        · cases h
    · cases h

theorem openSteps_append (w : WordOracle) (np nd window : Nat) (mb : Bytes) :
    ∀ (xs ys : List Cmd) (d d' : DecSt), openSteps w np nd window mb d xs = some d' →
      openSteps w np nd window mb d (xs ++ ys) = openSteps w np nd window mb d' ys := by
  intro xs
  induction xs with
  | nil => intro ys d d' h; simp only [openSteps, Option.some.injEq] at h; subst h; rfl
  | cons x xs ih =>
    intro ys d d' h
    simp only [openSteps, List.cons_append] at h ⊢
    split at h
    · rename_i hc
      rw [if_pos hc]
      cases hx : decStep w np nd window mb d x with
      | none => rw [hx] at h; cases h
      | some d1 =>
        rw [hx] at h
        simp only at h ⊢
        split at h
        · rename_i hcur; rw [if_pos hcur]; exact ih ys d1 d' h
        · cases h
    · cases h

/-- `lockstep` of open commands followed by a tail reduces to `lockstep` of the tail -/
theorem lockstep_open (w : WordOracle) (np nd window : Nat) (mb : Bytes) :
    ∀ (cmds tail : List Cmd) (d d' : DecSt), openSteps w np nd window mb d cmds = some d' →
      lockstep w np nd window mb d d.cursor (cmds ++ tail) = lockstep w np nd window mb d' d'.cursor tail := by
  intro cmds
  induction cmds with
  | nil => intro tail d d' h; simp only [openSteps, Option.some.injEq] at h; subst h; rfl
  | cons c cs ih =>
    intro tail d d' h
    simp only [openSteps] at h
    split at h
    · rename_i hc
      cases hx : decStep w np nd window mb d c with
      | none => rw [hx] at h; cases h
      | some d1 =>
        rw [hx] at h
        simp only at h
        split at h
        · rename_i hcur
          rw [List.cons_append, lockstep_cons w np nd window mb d d1 c _ hx hc.1 hc.2 hcur]
          exact ih tail d1 d' h
        · cases h
    · cases h

/-- the whole loop, open form -/
theorem loop_open {H : Type} {slotOK : DictItem → Prop} {ops : HasherOps H} {p : Params} {C : Ctx} {Good : Cmd → Prop}
    (hops : OpsOK slotOK ops p C.data C.k) (hemit : EmitHyp slotOK C p Good) (storeEnd : Nat)
    (h64 : C.hist.length + C.mb.length < 2 ^ 64) :
    ∀ (fuel : Nat) (s s' : St H) (d : DecSt) (cmds : List Cmd),
      loop ops p (C.hist.length + C.mb.length) storeEnd fuel s = some (cmds, s') → Sync C s d →
      ∃ d', Sync C s' d' ∧ (∀ c ∈ cmds, Good c) ∧
        openSteps C.w p.npostfix p.ndirect (maxBackwardLimit p) C.mb d cmds = some d' := by
  intro fuel
  induction fuel with
  | zero =>
    intro s s' d cmds h hs
    rw [loop] at h
    simp only [Option.some.injEq, Prod.mk.injEq] at h
    obtain ⟨rfl, rfl⟩ := h
    exact ⟨d, hs, fun c hc => (by cases hc), rfl⟩
  | succ fuel ih =>
    intro s s' d cmds h hs
    rw [loop] at h
    by_cases hcond : s.position + ops.hashTypeLength < C.hist.length + C.mb.length
    · rw [if_pos hcond] at h
      cases hst : step ops p (C.hist.length + C.mb.length) storeEnd s with
      | none => simp only [hst] at h; cases h
      | some r =>
        obtain ⟨oc, s1⟩ := r
        simp only [hst] at h
        cases hl : loop ops p (C.hist.length + C.mb.length) storeEnd fuel s1 with
        | none => simp only [hl] at h; cases h
        | some r2 =>
          obtain ⟨cs, s2⟩ := r2
          simp only [hl, Option.some.injEq, Prod.mk.injEq] at h
          obtain ⟨rfl, rfl⟩ := h
          have hg := step_inv hops hemit h64 hs hcond hst
          cases oc with
          | none =>
            obtain ⟨d', a, b, ds⟩ := ih s1 s2 d cs hl hg
            exact ⟨d', a, by simpa using b, by simpa using ds⟩
          | some cmd =>
            obtain ⟨d1, e1, e2, e3, e4, e5, e6⟩ := hg
            obtain ⟨d', a, b, ds⟩ := ih s1 s2 d1 cs hl e2
            refine ⟨d', a, ?_, ?_⟩
            · intro x hx
              simp only [Option.toList, List.singleton_append, List.mem_cons] at hx
              rcases hx with rfl | hx
              · exact e6
              · exact b x hx
            · simp only [Option.toList, List.singleton_append, openSteps, e1]
              rw [if_pos ⟨e3, e4⟩, if_pos e5]
              exact ds
    · rw [if_neg hcond] at h
      simp only [Option.some.injEq, Prod.mk.injEq] at h
      obtain ⟨rfl, rfl⟩ := h
      exact ⟨d, hs, fun c hc => (by cases hc), rfl⟩

/-- **one `CreateBackwardReferences` call, open form** (abstract hasher): the RFC decoder started at
`⟨hist, dist_cache[0..4], 0⟩` executes the emitted commands — every one a copy that does not complete the block — and
arrives at cursor `|mb| − last_insert_len` having produced `hist ++ mb[..cursor]`, with its distance ring EQUAL to the
first four entries of the `dist_cache` the call returns (which is again a list of ≥ 4 `i32`s). -/
theorem cbr_open {H : Type} {slotOK : DictItem → Prop} {ops : HasherOps H} {p : Params} {C : Ctx} {Good : Cmd → Prop}
    (hops : OpsOK slotOK ops p C.data C.k) (hemit : EmitHyp slotOK C p Good)
    (numBytes position : Nat) (h0 : H) (cache : List Int) (lastInsertLen numLiterals : Nat)
    (res : Result H)
    (hpos : position = C.hist.length + lastInsertLen) (hmb : C.mb.length = lastInsertLen + numBytes)
    (h64 : C.hist.length + C.mb.length < 2 ^ 64)
    (hc : CacheI32 cache) (hcl : 4 ≤ cache.length)
    (h : createBackwardReferences ops p numBytes position h0 cache lastInsertLen numLiterals = some res) :
    ∃ d', openSteps C.w p.npostfix p.ndirect (maxBackwardLimit p) C.mb ⟨C.hist, cache.take 4, 0⟩ res.cmds = some d' ∧
      d'.out = C.hist ++ C.mb.take d'.cursor ∧ d'.cursor + res.lastInsertLen = C.mb.length ∧
      d'.ring = res.cache.take 4 ∧ CacheI32 res.cache ∧ 4 ≤ res.cache.length ∧ (∀ c ∈ res.cmds, Good c) := by
  unfold createBackwardReferences at h
  simp only [] at h
  cases hp : ops.prepareCache cache with
  | none => simp only [hp] at h; cases h
  | some cache1 =>
    simp only [hp] at h
    have hpe : position + numBytes = C.hist.length + C.mb.length := by omega
    rw [hpe] at h
    cases hl : loop ops p (C.hist.length + C.mb.length)
        (if numBytes ≥ ops.storeLookahead then C.hist.length + C.mb.length - ops.storeLookahead + 1 else position)
        (numBytes + 1) ⟨h0, position, lastInsertLen, position + literalSpree p, cache1, numLiterals⟩ with
    | none => simp only [hl] at h; cases h
    | some r =>
      obtain ⟨cmds, s'⟩ := r
      simp only [hl, Option.some.injEq] at h
      subst h
      obtain ⟨pt, plen⟩ := hops.prepare _ _ hp
      have hs0 : Sync C (⟨h0, position, lastInsertLen, position + literalSpree p, cache1, numLiterals⟩ : St H)
          ⟨C.hist, cache.take 4, 0⟩ :=
        ⟨by simp, by simp only []; omega, by simp only []; omega, by simp only []; exact pt.symm,
          cacheI32_of_take pt hc, by simp only []; omega⟩
      obtain ⟨d', hs', hgood, hds⟩ := loop_open hops hemit _ h64 _ _ _ _ _ hl hs0
      refine ⟨d', hds, hs'.out, ?_, hs'.ring, hs'.cache, hs'.clen, hgood⟩
      have := hs'.pos; have := hs'.le
      simp only []
      omega

/-- closing an open run: the insert-only command (if any literals are pending) takes the decoder to the end of the
meta-block and leaves the ring alone -/
theorem decSteps_close (w : WordOracle) (np nd window : Nat) (hist mb : Bytes) (d : DecSt)
    (hout : d.out = hist ++ mb.take d.cursor) (hle : d.cursor ≤ mb.length) (h32 : mb.length < 2 ^ 32) :
    decSteps w np nd window mb d (closeMetaBlock [] (mb.length - d.cursor)) = some ⟨hist ++ mb, d.ring, mb.length⟩ := by
  unfold closeMetaBlock
  by_cases hl : mb.length - d.cursor > 0
  · rw [if_pos hl]
    have hU : U32 = 4294967296 := rfl
    have hins : (initInsert (mb.length - d.cursor)).insertLen = mb.length - d.cursor := by
      simp only [initInsert]; exact Nat.mod_eq_of_lt (by omega)
    have hdec : decStep w np nd window mb d (initInsert (mb.length - d.cursor))
        = some { d with out := d.out ++ (mb.drop d.cursor).take (mb.length - d.cursor), cursor := mb.length } := by
      unfold decStep
      simp only [hins]
      rw [if_neg (by omega), if_neg (by omega), if_pos (by omega)]
      congr 2
      omega
    simp only [List.nil_append, decSteps, hdec, Option.some.injEq, DecSt.mk.injEq, and_true]
    rw [hout, out_extend, show d.cursor + (mb.length - d.cursor) = mb.length by omega, List.take_length]
  · rw [if_neg hl]
    simp only [decSteps, Option.some.injEq]
    have hc : d.cursor = mb.length := by omega
    cases d with
    | mk o r c =>
      simp only at hout hc ⊢
      subst hc
      rw [hout, List.take_length]

theorem closeMetaBlock_split (cmds : List Cmd) (l : Nat) : closeMetaBlock cmds l = cmds ++ closeMetaBlock [] l := by
  unfold closeMetaBlock; split <;> simp

end BV.Cbr
