/-
C01 / fragment writers, part 12: `CreateCommands` (two-pass) RETURNS under the callers' sizes — no slice index
leaves the input, the hash table or the command / literal buffers, and the model's fuel suffices.
-/
import BV.Lemmas.FragmentCC3
namespace BV.Fragment
open BV.Bits BV.MetaBlock BV.Huffman BV.PrefixArith BV.Recoder

theorem hashAt_lt (v off shift len tb : Nat) (hs : shift = 64 - tb) (htb : tb ≤ 64) :
    hashAt v off shift len < 2 ^ tb := by
  unfold hashAt
  apply Nat.lt_of_le_of_lt (Nat.mod_le _ _)
  rw [Nat.div_lt_iff_lt_mul (Nat.pow_pos (by decide)), ← Nat.pow_add, hs,
    show tb + (64 - tb) = 64 by omega]
  exact Nat.mod_lt _ (by decide)

theorem load64_total (a : Array Nat) (i : Nat) (h : i + 8 ≤ a.size) : ∃ v, load64 a i = .ok v := by
  unfold load64; rw [if_pos h]; exact ⟨_, rfl⟩

theorem load32_total (a : Array Nat) (i : Nat) (h : i + 4 ≤ a.size) : ∃ v, load32 a i = .ok v := by
  unfold load32; rw [if_pos h]; exact ⟨_, rfl⟩

theorem isMatch_total (a : Array Nat) (i j len : Nat) (hi : i + 7 ≤ a.size) (hj : j + 7 ≤ a.size) :
    ∃ m, isMatch a i j len = .ok m := by
  unfold isMatch
  rw [if_neg (by omega)]
  obtain ⟨x, hx⟩ := load32_total a i (by omega)
  obtain ⟨y, hy⟩ := load32_total a j (by omega)
  rw [hx, hy]
  simp only [bind_ok']
  by_cases h1 : x ≠ y
  · rw [if_pos h1]; exact ⟨_, rfl⟩
  rw [if_neg h1]
  by_cases h2 : len = 4
  · rw [if_pos h2]; exact ⟨_, rfl⟩
  rw [if_neg h2, if_pos ⟨by omega, by omega⟩]
  exact ⟨_, rfl⟩

theorem tset_total (t : Array Int) (h v : Nat) (hh : h < t.size) :
    ∃ t', tset t h v = .ok t' ∧ t'.size = t.size := by
  unfold tset; rw [if_pos hh]; exact ⟨_, rfl, by simp⟩

theorem tget_total (t : Array Int) (h : Nat) (hh : h < t.size) : ∃ c, tget t h = .ok c := by
  unfold tget; rw [if_pos hh]; exact ⟨_, rfl⟩

theorem findMatchLength_total (a : Array Nat) (i j limit : Nat) (hi : i + limit ≤ a.size) (hj : j + limit ≤ a.size) :
    ∃ n, findMatchLength a i j limit = .ok n := by
  unfold findMatchLength; rw [if_neg (by omega)]; exact ⟨_, rfl⟩

theorem pushCmd_total (capCmd : Nat) (c : CC) (w : Nat) (h : c.cmds.size < capCmd) :
    pushCmd capCmd c w = .ok { c with cmds := c.cmds.push w } := by
  unfold pushCmd; rw [if_pos h]

theorem pushLits_total (capLit : Nat) (inp : Array Nat) (c : CC) (start n : Nat) (h1 : c.lits.size + n ≤ capLit)
    (h2 : start + n ≤ inp.size) :
    pushLits capLit inp c start n = .ok { c with lits := c.lits ++ inp.extract start (start + n) } := by
  unfold pushLits; rw [if_neg (by omega)]

/-- sizes of one call: the block `[ii, ii + mlen)` inside `input_size` bytes from `ii`, inside the input; the
search limit `ipLimit` keeps the 16-byte margin; the table has a slot for every hash; buffers hold one block -/
structure Sz (inp : Array Nat) (ii mlen inputSize minMatch ipLimit shift T capCmd capLit : Nat) : Prop where
  hmm : minMatch = 4 ∨ minMatch = 6
  h16 : 16 ≤ mlen
  hin : mlen ≤ inputSize
  hsz : ii + inputSize ≤ inp.size
  h31 : inp.size < 2147483648
  hlim : ipLimit + minMatch ≤ ii + mlen
  hmar : ipLimit + 16 ≤ ii + inputSize
  hT : ∀ v off, hashAt v off shift minMatch < T
  hcc : mlen ≤ capCmd
  hcl : mlen ≤ capLit

theorem scan_total (inp : Array Nat) (ii mlen inputSize minMatch ipLimit shift T capCmd capLit : Nat)
    (sz : Sz inp ii mlen inputSize minMatch ipLimit shift T capCmd capLit) :
    ∀ (f skip nextIp nextHash : Nat) (c : CC),
      c.table.size = T → nextHash < T → TB c.table nextIp → 32 ≤ skip → skip + f ≤ 4294967295 →
      (c.lastDist = -1 ∨ (0 < c.lastDist ∧ c.lastDist ≤ (nextIp : Int))) →
      1 ≤ f → ipLimit + 2 ≤ nextIp + f →
      ∃ c' r, scan inp shift minMatch ipLimit f skip nextIp nextHash c = .ok (c', r) ∧ c'.table.size = T := by
  have e32 : two32 = 4294967296 := rfl
  have e64 : two64 = 18446744073709551616 := rfl
  obtain ⟨hmm, h16, hin, hsz, h31, hlim, hmar, hT, hcc, hcl⟩ := sz
  intro f
  induction f with
  | zero => intro skip nextIp nextHash c _ _ _ _ _ _ h1; omega
  | succ f ih =>
  intro skip nextIp nextHash c hts hnh htb hskip hfuel hld _ hmeas
  rw [scan_succ]
  by_cases hexit : nextIp + skip / 32 > ipLimit
  · rw [if_pos hexit]; exact ⟨_, _, rfl, hts⟩
  rw [if_neg hexit]
  have hbt : 1 ≤ skip / 32 := by omega
  have hsk : (skip + 1) % two32 = skip + 1 := Nat.mod_eq_of_lt (by omega)
  obtain ⟨v, hv⟩ := load64_total inp (nextIp + skip / 32) (by omega)
  rw [hv, bind_ok']
  have hcand : wsub nextIp (i32AsUsize c.lastDist) ≤ nextIp + 1 := by
    rcases hld with hld | ⟨h0, h1⟩
    · rw [hld, i32AsUsize_neg1, e64]
      unfold wsub
      rw [e64]
      omega
    · obtain ⟨d, hd⟩ : ∃ d : Nat, c.lastDist = (d : Int) := ⟨c.lastDist.toNat, by omega⟩
      rw [hd, i32AsUsize_nat, wsub_le nextIp d (by omega) (by omega)]
      omega
  obtain ⟨m, hm⟩ := isMatch_total inp nextIp (wsub nextIp (i32AsUsize c.lastDist)) minMatch (by omega) (by omega)
  rw [hm, bind_ok']
  obtain ⟨t, ht, hts'⟩ := tset_total c.table nextHash nextIp (by omega)
  have htb' : TB t (nextIp + 1) := tset_TB c.table t nextHash nextIp (nextIp + 1) ht (htb.mono (by omega))
    (by omega) (by omega)
  have hrec : ∃ c' r, scan inp shift minMatch ipLimit f ((skip + 1) % two32) (nextIp + skip / 32)
      (hashAt v 0 shift minMatch) { c with table := t, ip := nextIp } = .ok (c', r) ∧ c'.table.size = T := by
    rw [hsk]
    exact ih (skip + 1) (nextIp + skip / 32) _ _ (by simp only []; omega) (hT v 0)
      (htb'.mono (by omega)) (by omega) (by omega)
      (by rcases hld with hld | ⟨h0, h1⟩
          · exact Or.inl hld
          · exact Or.inr ⟨h0, by simp only []; omega⟩) (by omega) (by omega)
  by_cases hfirst : m = true ∧ wsub nextIp (i32AsUsize c.lastDist) < nextIp
  · rw [if_pos hfirst, ht, bind_ok']
    by_cases hfar : wsub nextIp (wsub nextIp (i32AsUsize c.lastDist)) > 262128
    · rw [if_pos hfar]; exact hrec
    · rw [if_neg hfar]; exact ⟨_, _, rfl, by simp only []; omega⟩
  · rw [if_neg hfirst]
    obtain ⟨cand, hg⟩ := tget_total c.table nextHash (by omega)
    rw [hg, bind_ok', ht, bind_ok']
    have hc := tget_TB c.table nextHash cand nextIp hg htb
    obtain ⟨m2, hm2⟩ := isMatch_total inp nextIp cand minMatch (by omega) (by omega)
    rw [hm2, bind_ok']
    by_cases hm2t : m2 = true
    · rw [if_pos hm2t]
      by_cases hfar : wsub nextIp cand > 262128
      · rw [if_pos hfar]; exact hrec
      · rw [if_neg hfar]; exact ⟨_, _, rfl, by simp only []; omega⟩
    · rw [if_neg hm2t]; exact hrec

theorem rehash_total (inp : Array Nat) (shift minMatch T : Nat) (first : Bool) (c : CC)
    (hT : ∀ v off, hashAt v off shift minMatch < T) (hts : c.table.size = T) (h5 : 5 ≤ c.ip)
    (hin : c.ip + 8 ≤ inp.size) :
    ∃ c' cand', rehash inp shift minMatch first c = .ok (c', cand') ∧ c'.table.size = T := by
  unfold rehash
  simp only []
  by_cases h4 : minMatch = 4
  · rw [if_pos h4, if_neg (by omega)]
    obtain ⟨v, hv⟩ := load64_total inp (c.ip - 3) (by omega)
    rw [hv, bind_ok']
    obtain ⟨t1, ht1, s1⟩ := tset_total c.table (hashAt v 0 shift minMatch) (wsub c.ip 3) (by rw [hts]; exact hT _ _)
    rw [ht1, bind_ok']
    obtain ⟨t2, ht2, s2⟩ := tset_total t1 (hashAt v 1 shift minMatch) (wsub c.ip 2) (by rw [s1, hts]; exact hT _ _)
    rw [ht2, bind_ok']
    obtain ⟨t3, ht3, s3⟩ := tset_total t2 (hashAt v (if first = true then 0 else 2) shift minMatch) (wsub c.ip 1)
      (by rw [s2, s1, hts]; exact hT _ _)
    rw [ht3, bind_ok']
    obtain ⟨cd, hcd⟩ := tget_total t3 (hashAt v 3 shift minMatch) (by rw [s3, s2, s1, hts]; exact hT _ _)
    rw [hcd, bind_ok']
    obtain ⟨t4, ht4, s4⟩ := tset_total t3 (hashAt v 3 shift minMatch) c.ip (by rw [s3, s2, s1, hts]; exact hT _ _)
    rw [ht4, bind_ok']
    exact ⟨_, _, rfl, by simp only []; rw [s4, s3, s2, s1, hts]⟩
  · rw [if_neg h4, if_neg (by omega)]
    obtain ⟨v, hv⟩ := load64_total inp (c.ip - 5) (by omega)
    rw [hv, bind_ok']
    obtain ⟨t1, ht1, s1⟩ := tset_total c.table (hashAt v 0 shift minMatch) (wsub c.ip 5) (by rw [hts]; exact hT _ _)
    rw [ht1, bind_ok']
    obtain ⟨t2, ht2, s2⟩ := tset_total t1 (hashAt v 1 shift minMatch) (wsub c.ip 4) (by rw [s1, hts]; exact hT _ _)
    rw [ht2, bind_ok']
    obtain ⟨t3, ht3, s3⟩ := tset_total t2 (hashAt v 2 shift minMatch) (wsub c.ip 3) (by rw [s2, s1, hts]; exact hT _ _)
    rw [ht3, bind_ok']
    obtain ⟨v', hv'⟩ := load64_total inp (c.ip - 2) (by omega)
    rw [hv', bind_ok']
    obtain ⟨t4, ht4, s4⟩ := tset_total t3 (hashAt v' 0 shift minMatch) (wsub c.ip 2) (by rw [s3, s2, s1, hts]; exact hT _ _)
    rw [ht4, bind_ok']
    obtain ⟨t5, ht5, s5⟩ := tset_total t4 (hashAt v' 1 shift minMatch) (wsub c.ip 1)
      (by rw [s4, s3, s2, s1, hts]; exact hT _ _)
    rw [ht5, bind_ok']
    obtain ⟨cd, hcd⟩ := tget_total t5 (hashAt v' 2 shift minMatch) (by rw [s5, s4, s3, s2, s1, hts]; exact hT _ _)
    rw [hcd, bind_ok']
    obtain ⟨t6, ht6, s6⟩ := tset_total t5 (hashAt v' 2 shift minMatch) c.ip (by rw [s5, s4, s3, s2, s1, hts]; exact hT _ _)
    rw [ht6, bind_ok']
    exact ⟨_, _, rfl, by simp only []; rw [s6, s5, s4, s3, s2, s1, hts]⟩

/-- what `chain` leaves behind (besides returning) -/
structure ChainPost (ii ipLimit ipEnd T : Nat) (c c' : CC) (rem : Bool) : Prop where
  ts : c'.table.size = T
  cm : c'.cmds.size ≤ c'.ip - ii
  li : c'.lits = c.lits
  ld : c'.lastDist = c.lastDist ∨ (0 < c'.lastDist ∧ c'.lastDist ≤ (c'.ip : Int))
  mono : c.ip ≤ c'.ip
  tb : TB c'.table (c'.ip + 1)
  ne : c'.nextEmit = c'.ip
  le : c'.ip ≤ ipEnd
  lim : rem = false → c'.ip < ipLimit

theorem chain_total (inp : Array Nat) (ii mlen inputSize minMatch ipLimit shift T capCmd capLit : Nat)
    (sz : Sz inp ii mlen inputSize minMatch ipLimit shift T capCmd capLit) :
    ∀ (f cand : Nat) (c : CC),
      c.table.size = T → TB c.table (c.ip + 1) → cand < c.ip → c.nextEmit = c.ip → ii ≤ c.ip → c.ip < ipLimit →
      5 ≤ c.ip → c.cmds.size ≤ c.ip - ii → 1 ≤ f → ipLimit + 1 ≤ c.ip + f →
      ∃ c' rem, chain inp capCmd shift minMatch (ii + mlen) ipLimit f cand c = .ok (c', rem) ∧
        ChainPost ii ipLimit (ii + mlen) T c c' rem := by
  have e32 : two32 = 4294967296 := rfl
  have sz' := sz
  obtain ⟨hmm, h16, hin, hsz, h31, hlim, hmar, hT, hcc, hcl⟩ := sz
  intro f
  induction f with
  | zero => intro cand c _ _ _ _ _ _ _ _ h1; omega
  | succ f ih =>
  intro cand c hts htb hcand hne hii hlt h5 hcm _ hmeas
  rw [chain_succ]
  have hstay : ChainPost ii ipLimit (ii + mlen) T c c false :=
    ⟨hts, hcm, rfl, Or.inl rfl, Nat.le_refl _, htb, hne, by omega, fun _ => hlt⟩
  by_cases hfar : wsub c.ip cand > 262128
  · rw [if_pos hfar]; exact ⟨_, _, rfl, hstay⟩
  rw [if_neg hfar]
  obtain ⟨m, hm⟩ := isMatch_total inp c.ip cand minMatch (by omega) (by omega)
  rw [hm, bind_ok']
  by_cases hnm : (!m) = true
  · rw [if_pos hnm]; exact ⟨_, _, rfl, hstay⟩
  rw [if_neg hnm]
  have hw1 : wsub (ii + mlen) c.ip = ii + mlen - c.ip := wsub_le _ _ (by omega) (by omega)
  have hw2 : wsub (ii + mlen - c.ip) minMatch = ii + mlen - c.ip - minMatch := wsub_le _ _ (by omega) (by omega)
  obtain ⟨n, hn⟩ := findMatchLength_total inp (cand + minMatch) (c.ip + minMatch) (wsub (wsub (ii + mlen) c.ip) minMatch)
    (by rw [hw1, hw2]; omega) (by rw [hw1, hw2]; omega)
  obtain ⟨hnl, _⟩ := findMatchLength_ok inp _ _ _ n hn
  rw [hw1, hw2] at hnl
  rw [hn, bind_ok']
  rw [wsub_le c.ip cand (by omega) (by omega)] at hfar ⊢
  rw [asI32_small _ (by omega), i32AsUsize_nat, Nat.mod_eq_of_lt (by omega)]
  rw [pushCmd_total capCmd _ _ (by simp only []; omega), bind_ok']
  obtain ⟨w, hw, _⟩ := distance_word (c.ip - cand) (by omega) (by omega)
  rw [hw]
  dsimp only
  rw [bind_ok', pushCmd_total capCmd _ _ (by simp only [Array.size_push]; omega), bind_ok']
  dsimp only
  have hmm4 : 4 ≤ minMatch := by omega
  by_cases hex : c.ip + (minMatch + n) ≥ ipLimit
  · rw [if_pos hex]
    refine ⟨_, _, rfl, ⟨hts, ?_, rfl, Or.inr ⟨?_, ?_⟩, ?_, htb.mono ?_, rfl, ?_, fun h => by cases h⟩⟩
    · simp only [Array.size_push]; omega
    · simp only []; omega
    · simp only []; omega
    · simp only []; omega
    · simp only []; omega
    · simp only []; omega
  rw [if_neg hex, if_neg (by omega)]
  obtain ⟨c5, cand', hr, hs5⟩ := rehash_total inp shift minMatch T false
    { table := c.table, lits := c.lits, cmds := (c.cmds.push (emitCopyLenQ1 (minMatch + n))).push w,
      ip := c.ip + (minMatch + n), nextEmit := c.ip + (minMatch + n), lastDist := ((c.ip - cand : Nat) : Int) }
    hT hts (by simp only []; omega) (by simp only []; omega)
  obtain ⟨r1, r2, r3, r4, r5, r6, r7⟩ := rehash_ok inp shift minMatch false _ c5 cand' hr
    (by simp only []; exact htb.mono (by omega)) (by simp only []; omega) (by simp only []; omega)
  simp only [] at r1 r2 r3 r4 r5 r6 r7
  rw [hr, bind_ok']
  dsimp only
  obtain ⟨c', rem, hch, p⟩ := ih cand' c5 hs5 (by rw [r3]; exact r6) (by rw [r3]; exact r7) (by rw [r4, r3])
    (by rw [r3]; omega) (by rw [r3]; omega) (by rw [r3]; omega)
    (by rw [r2, r3]; simp only [Array.size_push]; omega) (by omega) (by rw [r3]; omega)
  refine ⟨c', rem, hch, ⟨p.ts, p.cm, by rw [p.li, r1], ?_, by have := p.mono; rw [r3] at this; omega, p.tb, p.ne,
    p.le, p.lim⟩⟩
  rcases p.ld with h | h
  · right
    rw [h, r5]
    have := p.mono
    rw [r3] at this
    exact ⟨by omega, by omega⟩
  · exact Or.inr h

theorem pushCmds_total (capCmd : Nat) : ∀ (ws : List Nat) (c : CC), c.cmds.size + ws.length ≤ capCmd →
    pushCmds capCmd c ws = .ok { c with cmds := c.cmds ++ ws.toArray }
  | [], c, _ => by rw [pushCmds]; simp
  | w :: ws, c, h => by
    simp only [List.length_cons] at h
    rw [pushCmds, pushCmd_total capCmd c w (by omega), bind_ok',
      pushCmds_total capCmd ws _ (by simp only [Array.size_push]; omega)]
    simp

theorem cpl_length (n : Nat) : (emitCopyLenLastDistanceQ1 n).length ≤ 2 := by
  unfold emitCopyLenLastDistanceQ1
  split
  · simp
  · split
    · simp
    · split
      · simp
      · split <;> simp

set_option hygiene false in
macro "ml_rest" : tactic => `(tactic| (
  have hcl2 := cpl_length (minMatch + n)
  rw [pushCmds_total capCmd _ _ (by simp only [Array.size_push]; omega), bind_ok']
  dsimp only
  have hsize : ((c1.cmds.push (emitInsertLenQ1 (c1.ip - c1.nextEmit))).push dW ++
      (emitCopyLenLastDistanceQ1 (minMatch + n)).toArray).size ≤ c1.ip + (minMatch + n) - ii := by
    simp only [Array.size_append, Array.size_push, List.size_toArray]; omega
  have hlsize : (c1.lits ++ inp.extract c1.nextEmit (c1.nextEmit + (c1.ip - c1.nextEmit))).size
      ≤ c1.ip + (minMatch + n) - ii := by
    simp only [Array.size_append, Array.size_extract]; omega
  by_cases hex : c1.ip + (minMatch + n) ≥ ipLimit
  · rw [if_pos hex]
    exact ⟨_, rfl, hsize, hlsize, by simp only []; omega, by simp only []; omega⟩
  rw [if_neg hex]
  obtain ⟨c6, cand', hr, hs6⟩ := rehash_total inp shift minMatch T true
    { table := c1.table, lits := c1.lits ++ inp.extract c1.nextEmit (c1.nextEmit + (c1.ip - c1.nextEmit)),
      cmds := (c1.cmds.push (emitInsertLenQ1 (c1.ip - c1.nextEmit))).push dW ++
        (emitCopyLenLastDistanceQ1 (minMatch + n)).toArray,
      ip := c1.ip + (minMatch + n), nextEmit := c1.ip + (minMatch + n), lastDist := ((c1.ip - cand : Nat) : Int) }
    hT hts1 (by simp only []; omega) (by simp only []; omega)
  obtain ⟨r1, r2, r3, r4, r5, r6, r7⟩ := rehash_ok inp shift minMatch true _ c6 cand' hr
    (by simp only []; exact s5.mono (by omega)) (by simp only []; omega) (by simp only []; omega)
  simp only [] at r1 r2 r3 r4 r5 r6 r7
  rw [hr, bind_ok']
  dsimp only
  obtain ⟨c7, rem, hch, p⟩ := chain_total inp ii mlen inputSize minMatch ipLimit shift T capCmd capLit sz'
    (ii + mlen + 2) cand' c6 hs6 (by rw [r3]; exact r6) (by rw [r3]; exact r7) (by rw [r4, r3]) (by rw [r3]; omega)
    (by rw [r3]; omega) (by rw [r3]; omega) (by rw [r2, r3]; exact hsize) (by omega) (by omega)
  rw [hch, bind_ok']
  dsimp only
  have hmono := p.mono
  rw [r3] at hmono
  have hl7 : c7.lits.size ≤ c7.nextEmit - ii := by
    rw [p.li, r1, p.ne]
    exact Nat.le_trans hlsize (by omega)
  by_cases hrem : rem = true
  · rw [if_pos hrem]
    exact ⟨_, rfl, by rw [p.ne]; exact p.cm, hl7, by rw [p.ne]; omega, by rw [p.ne]; exact p.le⟩
  rw [if_neg hrem]
  have hremf : rem = false := by cases rem <;> simp at hrem ⊢
  have hlim7 := p.lim hremf
  obtain ⟨v, hv⟩ := load64_total inp (c7.ip + 1) (by omega)
  rw [hv, bind_ok']
  exact ih _ { c7 with ip := c7.ip + 1 } p.ts (hT v 0) p.tb (by simp only []; rw [p.ne]; omega)
    (by simp only []; rw [p.ne]; omega) (by simp only []; omega) (by simp only []; rw [p.ne]; exact p.cm)
    (by simp only []; exact hl7)
    (by simp only []
        rcases p.ld with h | h
        · right; rw [h, r5]; exact ⟨by omega, by omega⟩
        · right; exact ⟨h.1, by omega⟩) (by omega) (by simp only []; omega)

  ))

theorem matchLoop_total (inp : Array Nat) (ii mlen inputSize minMatch ipLimit shift T capCmd capLit : Nat)
    (sz : Sz inp ii mlen inputSize minMatch ipLimit shift T capCmd capLit) :
    ∀ (f nh : Nat) (c : CC),
      c.table.size = T → nh < T → TB c.table c.ip → c.nextEmit < c.ip → ii ≤ c.nextEmit → c.ip ≤ ii + mlen →
      c.cmds.size ≤ c.nextEmit - ii → c.lits.size ≤ c.nextEmit - ii →
      (c.lastDist = -1 ∨ (0 < c.lastDist ∧ c.lastDist ≤ (c.ip : Int))) → 1 ≤ f → ii + mlen + 1 ≤ c.ip + f →
      ∃ c', matchLoop inp capCmd capLit shift minMatch (ii + mlen) ipLimit f nh c = .ok c' ∧
        c'.cmds.size ≤ c'.nextEmit - ii ∧ c'.lits.size ≤ c'.nextEmit - ii ∧ ii ≤ c'.nextEmit ∧
        c'.nextEmit ≤ ii + mlen := by
  have e32 : two32 = 4294967296 := rfl
  have sz' := sz
  obtain ⟨hmm, h16, hin, hsz, h31, hlim, hmar, hT, hcc, hcl⟩ := sz
  intro f
  induction f with
  | zero => intro nh c _ _ _ _ _ _ _ _ _ h1; omega
  | succ f ih =>
  intro nh c hts hnh htb hne hii hip hcm hli hld _ hmeas
  rw [matchLoop_succ]
  have hmm4 : 4 ≤ minMatch := by omega
  obtain ⟨c1, r, hx, hts1⟩ := scan_total inp ii mlen inputSize minMatch ipLimit shift T capCmd capLit sz' (ii + mlen + 2)
    32 c.ip nh c hts hnh htb (by omega) (by omega) hld (by omega) (by omega)
  obtain ⟨s1, s2, s3, s4, s5, s6, s7, s8⟩ := scan_ok inp shift minMatch ipLimit (ii + mlen) (by omega) (by omega)
    _ _ _ _ c c1 r hx htb (by omega) (by omega) hip
  rw [hx, bind_ok']
  dsimp only
  cases r with
  | none =>
    dsimp only
    exact ⟨_, rfl, by rw [s1, s3]; exact hcm, by rw [s2, s3]; exact hli, by omega, by omega⟩
  | some cand =>
  dsimp only
  obtain ⟨hc1, hc2, hc3, hc4⟩ := s8 cand rfl
  have hw1 : wsub (ii + mlen) c1.ip = ii + mlen - c1.ip := wsub_le _ _ (by omega) (by omega)
  have hw2 : wsub (ii + mlen - c1.ip) minMatch = ii + mlen - c1.ip - minMatch := wsub_le _ _ (by omega) (by omega)
  obtain ⟨n, hn⟩ := findMatchLength_total inp (cand + minMatch) (c1.ip + minMatch)
    (wsub (wsub (ii + mlen) c1.ip) minMatch) (by rw [hw1, hw2]; omega) (by rw [hw1, hw2]; omega)
  obtain ⟨hnl, _⟩ := findMatchLength_ok inp _ _ _ n hn
  rw [hw1, hw2] at hnl
  rw [hn, bind_ok']
  rw [wsub_le c1.ip cand (by omega) (by omega), wsub_le c1.ip c1.nextEmit (by omega) (by omega),
    asI32_small (c1.ip - cand) (by omega), asI32_small (c1.ip - c1.nextEmit) (by omega), i32AsUsize_nat, i32AsUsize_nat,
    Nat.mod_eq_of_lt (show c1.ip - cand < two32 by omega), Nat.mod_eq_of_lt (show c1.ip - c1.nextEmit < two32 by omega)]
  have hcm1 : c1.cmds.size ≤ c1.nextEmit - ii := by rw [s1, s3]; exact hcm
  have hli1 : c1.lits.size ≤ c1.nextEmit - ii := by rw [s2, s3]; exact hli
  rw [pushCmd_total capCmd _ _ (by simp only []; omega), bind_ok']
  dsimp only
  rw [pushLits_total capLit inp _ _ _ (by simp only []; omega) (by omega), bind_ok']
  dsimp only
  -- the distance word: 64 (last distance) or an explicit code; both branches continue identically
  have hdpos : (0 : Int) < ((c1.ip - cand : Nat) : Int) := by omega
  by_cases heq : ((c1.ip - cand : Nat) : Int) = c1.lastDist
  case pos =>
    rw [if_pos heq, pushCmd_total capCmd _ _ (by simp only [Array.size_push]; omega), bind_ok']
    dsimp only
    rw [← heq]
    generalize (64 : Nat) = dW
    ml_rest
  case neg =>
    obtain ⟨dW, hw, _⟩ := distance_word (c1.ip - cand) (by omega) (by omega)
    rw [if_neg heq, hw]
    dsimp only
    rw [bind_ok', pushCmd_total capCmd _ _ (by simp only [Array.size_push]; omega), bind_ok', bind_ok']
    dsimp only
    ml_rest

theorem final_total (inp : Array Nat) (ii mlen capCmd capLit : Nat) (c : CC) (hcc : mlen ≤ capCmd) (hcl : mlen ≤ capLit)
    (hsz : ii + mlen ≤ inp.size) (h31 : inp.size < 2147483648)
    (hcm : c.cmds.size ≤ c.nextEmit - ii) (hli : c.lits.size ≤ c.nextEmit - ii) (hii : ii ≤ c.nextEmit)
    (hle : c.nextEmit ≤ ii + mlen) :
    ∃ r, ((if c.nextEmit < ii + mlen then
        pushCmd capCmd c (emitInsertLenQ1 ((ii + mlen - c.nextEmit) % two32)) >>= fun c1 =>
        pushLits capLit inp c1 c1.nextEmit ((ii + mlen - c.nextEmit) % two32)
      else Out.ok c) >>= fun c => Out.ok (c.table, c.lits.toList, c.cmds.toList)) = .ok r := by
  have e32 : two32 = 4294967296 := rfl
  by_cases h : c.nextEmit < ii + mlen
  · rw [if_pos h, Nat.mod_eq_of_lt (by omega), pushCmd_total capCmd c _ (by omega), bind_ok']
    dsimp only
    rw [pushLits_total capLit inp _ _ _ (by simp only []; omega) (by omega), bind_ok']
    exact ⟨_, rfl⟩
  · rw [if_neg h, bind_ok']
    exact ⟨_, rfl⟩

end BV.Fragment
