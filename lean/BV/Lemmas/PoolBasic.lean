/-
Helper lemmas for C07, part 2: basic facts about the pool model — sums over the
worker list, projections of the state-update helpers, inversion of `step`.
-/
import BV.Model.Pool
import BV.Lemmas.PoolFixedQueue

namespace BV.Lemmas.Pool
open BV.Gen BV.FixedQueue BV.Pool BV.Lemmas.FixedQueue

/-! ### sums over the worker list -/

/-- `Σ_{worker w} g (pc w)` -/
def wsum (g : WPc → Nat) (ws : List WPc) : Nat := (ws.map g).sum

@[simp] theorem wsum_nil (g : WPc → Nat) : wsum g [] = 0 := rfl
@[simp] theorem wsum_cons (g : WPc → Nat) (p : WPc) (ws : List WPc) :
    wsum g (p :: ws) = g p + wsum g ws := by simp [wsum]

theorem wsum_set (g : WPc → Nat) {ws : List WPc} {i : Nat} {p : WPc} (p' : WPc)
    (h : ws[i]? = some p) : wsum g (ws.set i p') + g p = wsum g ws + g p' := by
  induction ws generalizing i with
  | nil => simp at h
  | cons a t ih =>
    cases i with
    | zero =>
      simp only [List.getElem?_cons_zero, Option.some.injEq] at h
      subst h; simp; omega
    | succ i =>
      simp only [List.getElem?_cons_succ] at h
      have := ih h
      simp only [List.set_cons_succ, wsum_cons]; omega

theorem wsum_map_wake (g : WPc → Nat) (hg : ∀ p, g p.wake = g p) (ws : List WPc) :
    wsum g (ws.map WPc.wake) = wsum g ws := by
  induction ws with
  | nil => rfl
  | cons a t ih => simp [hg, ih]

theorem wsum_set_wake (g : WPc → Nat) (hg : ∀ p, g p.wake = g p) {ws : List WPc} {i : Nat}
    {p : WPc} (p' : WPc) (h : ws[i]? = some p) :
    wsum g ((ws.map WPc.wake).set i p') + g p = wsum g ws + g p' := by
  have h' : (ws.map WPc.wake)[i]? = some p.wake := by simp [h]
  have := wsum_set g p' h'
  rw [wsum_map_wake g hg, hg] at this
  exact this

theorem wsum_replicate (g : WPc → Nat) (n : Nat) (p : WPc) : wsum g (List.replicate n p) = n * g p := by
  induction n with
  | zero => simp
  | succ n ih => simp [List.replicate_succ, ih, Nat.succ_mul]; omega

theorem wsum_le (g g' : WPc → Nat) (h : ∀ p, g p ≤ g' p) (ws : List WPc) : wsum g ws ≤ wsum g' ws := by
  induction ws with
  | nil => simp
  | cons a t ih => simp only [wsum_cons]; have := h a; omega

theorem wsum_pos_of_mem (g : WPc → Nat) {ws : List WPc} {i : Nat} {p : WPc} (h : ws[i]? = some p) :
    g p ≤ wsum g ws := by
  induction ws generalizing i with
  | nil => simp at h
  | cons a t ih =>
    cases i with
    | zero => simp at h; subst h; simp
    | succ i => simp at h; have := ih h; simp only [wsum_cons]; omega

theorem wsum_eq_zero (g : WPc → Nat) {ws : List WPc} (h : wsum g ws = 0) {p : WPc} (hp : p ∈ ws) :
    g p = 0 := by
  obtain ⟨i, hi, rfl⟩ := List.mem_iff_getElem.mp hp
  have := wsum_pos_of_mem g (List.getElem?_eq_getElem hi)
  omega

/-- job in progress on this worker (counted in `num_in_progress`) -/
def busy : WPc → Nat
  | .atRun _ => 1
  | .atLockB _ => 1
  | _ => 0

/-- the worker still owns its `possible_job` (and the `Arc` clone inside) -/
def holdsArc : WPc → Nat
  | .atRun _ => 1
  | _ => 0

/-- indicator of `a = b` (a definition, so that `simp` cannot change the `Decidable`
instance and `omega` sees one atom) -/
def eqInd (a b : Nat) : Nat := if a = b then 1 else 0

/-- indicator of `id < cur` -/
def below (id cur : Nat) : Nat := if id < cur then 1 else 0

theorem eqInd_self (a : Nat) : eqInd a a = 1 := by simp [eqInd]
theorem eqInd_ne {a b : Nat} (h : a ≠ b) : eqInd a b = 0 := by simp [eqInd, h]
theorem eqInd_le (a b : Nat) : eqInd a b ≤ 1 := by unfold eqInd; split <;> omega
theorem below_le (a b : Nat) : below a b ≤ 1 := by unfold below; split <;> omega
theorem below_succ (id cur : Nat) : below id (cur + 1) = below id cur + eqInd cur id := by
  unfold below eqInd
  by_cases c1 : cur = id
  · subst c1; simp
  · by_cases c2 : id < cur
    · have : id < cur + 1 := by omega
      simp [c1, c2, this]
    · have : ¬ id < cur + 1 := by omega
      simp [c1, c2, this]
theorem below_zero (id : Nat) : below id 0 = 0 := by simp [below]
theorem below_pos {id cur : Nat} (h : below id cur = 1) : id < cur := by
  unfold below at h; split at h <;> simp_all
theorem below_of_lt {id cur : Nat} (h : id < cur) : below id cur = 1 := by simp [below, h]
theorem below_of_ge {id cur : Nat} (h : cur ≤ id) : below id cur = 0 := by
  have : ¬ id < cur := by omega
  simp [below, this]

/-- the worker is working on job `id` -/
def hasId (id : Nat) : WPc → Nat
  | .atRun j => eqInd j.workId id
  | .atLockB r => eqInd r.workId id
  | _ => 0

/-- the worker has run job `id` and not yet published it -/
def hasIdB (id : Nat) : WPc → Nat
  | .atLockB r => eqInd r.workId id
  | _ => 0

def isExited : WPc → Nat
  | .exited => 1
  | _ => 0

@[simp] theorem busy_wake (p : WPc) : busy p.wake = busy p := by cases p <;> rfl
@[simp] theorem holdsArc_wake (p : WPc) : holdsArc p.wake = holdsArc p := by cases p <;> rfl
@[simp] theorem hasId_wake (id : Nat) (p : WPc) : hasId id p.wake = hasId id p := by cases p <;> rfl
@[simp] theorem hasIdB_wake (id : Nat) (p : WPc) : hasIdB id p.wake = hasIdB id p := by cases p <;> rfl
@[simp] theorem isExited_wake (p : WPc) : isExited p.wake = isExited p := by cases p <;> rfl

theorem wake_ne_waiting (p : WPc) : p.wake ≠ .waiting := by cases p <;> simp [WPc.wake]
theorem wake_eq_exited {p : WPc} (h : p.wake = .exited) : p = .exited := by
  cases p <;> simp [WPc.wake] at h ⊢

/-! ### ghost history -/

/-- work ids whose `join` has returned -/
def joinedIds : List (Nat × Ev) → List Nat
  | [] => []
  | (_, .join id _) :: h => id :: joinedIds h
  | _ :: h => joinedIds h

/-- how many times job `id` has been run -/
def runCount (id : Nat) : List (Nat × Ev) → Nat
  | [] => 0
  | (_, .run id') :: h => eqInd id' id + runCount id h
  | _ :: h => runCount id h

/-- number of jobs with work id `id` in a list -/
def cntJ (id : Nat) (l : List Job) : Nat := l.countP (fun j => j.workId == id)
def cntR (id : Nat) (l : List Reply) : Nat := l.countP (fun r => r.workId == id)

/-! ### projections of the update helpers -/

section proj
variable (s : State) (i : Nat) (p : WPc) (t : Nat) (e : Ev) (q : SPc)

@[simp] theorem setW_jobs : (s.setW i p).jobs = s.jobs := rfl
@[simp] theorem setW_results : (s.setW i p).results = s.results := rfl
@[simp] theorem setW_nip : (s.setW i p).numInProgress = s.numInProgress := rfl
@[simp] theorem setW_imm : (s.setW i p).immediateShutdown = s.immediateShutdown := rfl
@[simp] theorem setW_shutdown : (s.setW i p).shutdown = s.shutdown := rfl
@[simp] theorem setW_cur : (s.setW i p).curWorkId = s.curWorkId := rfl
@[simp] theorem setW_arc : (s.setW i p).arc = s.arc := rfl
@[simp] theorem setW_workers : (s.setW i p).workers = s.workers.set i p := rfl
@[simp] theorem setW_spc : (s.setW i p).spc = s.spc := rfl
@[simp] theorem setW_prog : (s.setW i p).prog = s.prog := rfl
@[simp] theorem setW_spawned : (s.setW i p).spawned = s.spawned := rfl
@[simp] theorem setW_hist : (s.setW i p).hist = s.hist := rfl

@[simp] theorem log_jobs : (s.log t e).jobs = s.jobs := rfl
@[simp] theorem log_results : (s.log t e).results = s.results := rfl
@[simp] theorem log_nip : (s.log t e).numInProgress = s.numInProgress := rfl
@[simp] theorem log_imm : (s.log t e).immediateShutdown = s.immediateShutdown := rfl
@[simp] theorem log_shutdown : (s.log t e).shutdown = s.shutdown := rfl
@[simp] theorem log_cur : (s.log t e).curWorkId = s.curWorkId := rfl
@[simp] theorem log_arc : (s.log t e).arc = s.arc := rfl
@[simp] theorem log_workers : (s.log t e).workers = s.workers := rfl
@[simp] theorem log_spc : (s.log t e).spc = s.spc := rfl
@[simp] theorem log_prog : (s.log t e).prog = s.prog := rfl
@[simp] theorem log_spawned : (s.log t e).spawned = s.spawned := rfl
@[simp] theorem log_hist : (s.log t e).hist = (t, e) :: s.hist := rfl

@[simp] theorem notifyAll_jobs : s.notifyAll.jobs = s.jobs := rfl
@[simp] theorem notifyAll_results : s.notifyAll.results = s.results := rfl
@[simp] theorem notifyAll_nip : s.notifyAll.numInProgress = s.numInProgress := rfl
@[simp] theorem notifyAll_imm : s.notifyAll.immediateShutdown = s.immediateShutdown := rfl
@[simp] theorem notifyAll_shutdown : s.notifyAll.shutdown = s.shutdown := rfl
@[simp] theorem notifyAll_cur : s.notifyAll.curWorkId = s.curWorkId := rfl
@[simp] theorem notifyAll_arc : s.notifyAll.arc = s.arc := rfl
@[simp] theorem notifyAll_workers : s.notifyAll.workers = s.workers.map WPc.wake := rfl
@[simp] theorem notifyAll_spc : s.notifyAll.spc = s.spc.wake := rfl
@[simp] theorem notifyAll_prog : s.notifyAll.prog = s.prog := rfl
@[simp] theorem notifyAll_spawned : s.notifyAll.spawned = s.spawned := rfl
@[simp] theorem notifyAll_hist : s.notifyAll.hist = s.hist := rfl

@[simp] theorem setSpc_jobs : (s.setSpc q).jobs = s.jobs := rfl
@[simp] theorem setSpc_results : (s.setSpc q).results = s.results := rfl
@[simp] theorem setSpc_nip : (s.setSpc q).numInProgress = s.numInProgress := rfl
@[simp] theorem setSpc_imm : (s.setSpc q).immediateShutdown = s.immediateShutdown := rfl
@[simp] theorem setSpc_shutdown : (s.setSpc q).shutdown = s.shutdown := rfl
@[simp] theorem setSpc_cur : (s.setSpc q).curWorkId = s.curWorkId := rfl
@[simp] theorem setSpc_arc : (s.setSpc q).arc = s.arc := rfl
@[simp] theorem setSpc_workers : (s.setSpc q).workers = s.workers := rfl
@[simp] theorem setSpc_spc : (s.setSpc q).spc = q := rfl
@[simp] theorem setSpc_prog : (s.setSpc q).prog = s.prog := rfl
@[simp] theorem setSpc_spawned : (s.setSpc q).spawned = s.spawned := rfl
@[simp] theorem setSpc_hist : (s.setSpc q).hist = s.hist := rfl
end proj

/-! ### `drop`'s loop over the join handles -/

theorem firstLive_some {l : List WPc} {t t' : Nat} (h : firstLive l t = some t') :
    t ≤ t' ∧ t' - t < l.length ∧ l[t' - t]? ≠ some .exited ∧ ∀ k, k < t' - t → l[k]? = some .exited := by
  induction l generalizing t with
  | nil => simp [firstLive] at h
  | cons a r ih =>
    unfold firstLive at h
    by_cases c : a = .exited
    · simp only [c, if_true] at h
      obtain ⟨h1, h2, h3, h4⟩ := ih h
      have e : t' - t = (t' - (t + 1)) + 1 := by omega
      refine ⟨by omega, by simp; omega, ?_, ?_⟩
      · rw [e]; simpa using h3
      · intro k hk
        cases k with
        | zero => simp [c]
        | succ k => simp only [List.getElem?_cons_succ]; exact h4 k (by omega)
    · simp only [c, if_false, Option.some.injEq] at h
      subst h
      refine ⟨Nat.le_refl _, by simp, by simpa using c, fun k hk => by omega⟩

theorem firstLive_none {l : List WPc} {t : Nat} (h : firstLive l t = none) : ∀ p, p ∈ l → p = .exited := by
  induction l generalizing t with
  | nil => simp
  | cons a r ih =>
    unfold firstLive at h
    by_cases c : a = .exited
    · simp only [c, if_true] at h
      intro p hp
      rcases List.mem_cons.mp hp with rfl | hp
      · exact c
      · exact ih h p hp
    · simp [c] at h

/-- the two outcomes of `joinFrom` -/
theorem joinFrom_cases (s : State) (tid : Nat) (rest : List Op) (first : Bool) (htid : 1 ≤ tid) :
    (∃ t, tid ≤ t ∧ t ≤ s.workers.length ∧ s.workers[t - 1]? ≠ some .exited ∧
        (∃ p, s.workers[t - 1]? = some p) ∧
        (∀ k, tid ≤ k → k < t → s.workers[k - 1]? = some .exited) ∧
        joinFrom s tid rest first =
          { s with spc := .joining t }.log 0 (if first then .drop false else .joinW false)) ∨
    ((∀ k, tid ≤ k → k ≤ s.workers.length → s.workers[k - 1]? = some .exited) ∧
        joinFrom s tid rest first =
          { s with spc := .ready, prog := rest }.log 0 (if first then .drop true else .joinW true)) := by
  unfold joinFrom
  cases hfl : firstLive (s.workers.drop (tid - 1)) tid with
  | some t =>
    left
    obtain ⟨h1, h2, h3, h4⟩ := firstLive_some hfl
    simp only [List.length_drop] at h2
    have e : tid - 1 + (t - tid) = t - 1 := by omega
    rw [List.getElem?_drop, e] at h3
    refine ⟨t, h1, by omega, h3, ?_, ?_, rfl⟩
    · exact ⟨s.workers[t - 1]'(by omega), List.getElem?_eq_getElem (by omega)⟩
    · intro k hk1 hk2
      have := h4 (k - tid) (by omega)
      rw [List.getElem?_drop] at this
      have e2 : tid - 1 + (k - tid) = k - 1 := by omega
      rwa [e2] at this
  | none =>
    right
    refine ⟨?_, rfl⟩
    intro k hk1 hk2
    have hm := firstLive_none hfl
    have hlt : k - 1 < s.workers.length := by omega
    rw [List.getElem?_eq_getElem hlt]
    congr 1
    apply hm
    have : s.workers[k - 1] = (s.workers.drop (tid - 1))[k - tid]'(by simp; omega) := by
      simp only [List.getElem_drop]; congr 1; omega
    rw [this]
    exact List.getElem_mem _

/-! ### inversion of `step` -/

/-- every successful step is one of these 17 transitions -/
theorem step_elim {s s' : State} {c : Choice} (h : step s c = .ok s') {motive : Prop}
    (exitA : ∀ i, c = .run (i + 1) → s.workers[i]? = some .atLockA → s.immediateShutdown = true →
      s' = (s.setW i .exited).log (i + 1) .exit → motive)
    (pop : ∀ i j jobs', c = .run (i + 1) → s.workers[i]? = some .atLockA →
      s.immediateShutdown = false → s.jobs.pop = (some j, jobs') →
      s' = (({ s with jobs := jobs', numInProgress := s.numInProgress + 1 }.notifyAll).setW i
        (.atRun j)).log (i + 1) (.pop j.workId) → motive)
    (exitS : ∀ i jobs', c = .run (i + 1) → s.workers[i]? = some .atLockA →
      s.immediateShutdown = false → s.jobs.pop = (none, jobs') → s.shutdown = true →
      s' = ({ s with jobs := jobs' }.setW i .exited).log (i + 1) .exit → motive)
    (waitW : ∀ i jobs', c = .run (i + 1) → s.workers[i]? = some .atLockA →
      s.immediateShutdown = false → s.jobs.pop = (none, jobs') → s.shutdown = false →
      s' = ({ s with jobs := jobs' }.setW i .waiting).log (i + 1) .wait → motive)
    (run : ∀ i j, c = .run (i + 1) → s.workers[i]? = some (.atRun j) →
      s' = ({ s with arc := s.arc - 1 }.setW i (.atLockB ⟨j.workId, j.index⟩)).log (i + 1)
        (.run j.workId) → motive)
    (publish : ∀ i r results', c = .run (i + 1) → s.workers[i]? = some (.atLockB r) →
      s.numInProgress ≠ 0 → s.results.push r = some results' →
      s' = (({ s with numInProgress := s.numInProgress - 1, results := results' }.notifyAll).setW i
        .atLockA).log (i + 1) (.publish r.workId) → motive)
    (wake : ∀ i, c = .run (i + 1) → s.workers[i]? = some .woken →
      s' = (s.setW i .atLockA).log (i + 1) .wake → motive)
    (spawn : ∀ idx rest jobs', c = .run 0 → (s.spc = .ready ∨ s.spc = .woken) →
      s.prog = .spawn idx :: rest →
      s.jobs.size + s.numInProgress + s.results.size ≤ MAX_THREADS →
      s.jobs.push ⟨s.curWorkId, idx⟩ = some jobs' →
      s' = (({ s with jobs := jobs', curWorkId := s.curWorkId + 1, arc := s.arc + 1,
                      spawned := s.spawned ++ [Job.mk s.curWorkId idx],
                      prog := rest }.notifyAll).setSpc .ready).log 0 (.spawn s.curWorkId) → motive)
    (spawnWait : ∀ idx rest, c = .run 0 → (s.spc = .ready ∨ s.spc = .woken) →
      s.prog = .spawn idx :: rest →
      ¬ s.jobs.size + s.numInProgress + s.results.size ≤ MAX_THREADS →
      s' = { s with spc := .waiting }.log 0 .wait → motive)
    (join : ∀ n rest j r results', c = .run 0 → (s.spc = .ready ∨ s.spc = .woken) →
      s.prog = .join n :: rest → s.spawned[n]? = some j →
      s.results.remove (matchId j.workId) = some (some r, results') →
      s' = { s with results := results', spc := .ready, prog := rest }.log 0
        (.join j.workId r.value) → motive)
    (joinWait : ∀ n rest j results', c = .run 0 → (s.spc = .ready ∨ s.spc = .woken) →
      s.prog = .join n :: rest → s.spawned[n]? = some j →
      s.results.remove (matchId j.workId) = some (none, results') →
      s' = { s with results := results', spc := .waiting }.log 0 .wait → motive)
    (unwrap : ∀ rest, c = .run 0 → (s.spc = .ready ∨ s.spc = .woken) →
      s.prog = .unwrapInput :: rest →
      s' = { s with spc := .ready, prog := rest }.log 0 (.unwrap (s.arc == 1)) → motive)
    (drop : ∀ rest, c = .run 0 → (s.spc = .ready ∨ s.spc = .woken) →
      s.prog = .dropPool :: rest →
      s' = joinFrom ({ s with immediateShutdown := true }.notifyAll) 1 rest true → motive)
    (joinW : ∀ t rest, c = .run 0 → s.spc = .joining t → s.prog = .dropPool :: rest →
      s.workers[t - 1]? = some .exited → s' = joinFrom s (t + 1) rest false → motive)
    (spurS : c = .spurious 0 → s.spc = .waiting →
      s' = { s with spc := .woken }.log 0 .spurious → motive)
    (spurW : ∀ tid, c = .spurious tid → tid ≠ 0 → s.workers[tid - 1]? = some .waiting →
      s' = (s.setW (tid - 1) .woken).log tid .spurious → motive) : motive := by
  cases c with
  | run tid =>
    cases tid with
    | zero =>
      simp only [step, stepSub] at h
      cases hspc : s.spc with
      | waiting => simp [hspc] at h
      | joining t =>
        simp only [hspc] at h
        cases hp : s.prog with
        | nil => simp [hp] at h
        | cons op rest =>
          cases op with
          | dropPool =>
            simp only [hp] at h
            by_cases hw : s.workers[t - 1]? = some .exited
            · simp only [hw, if_true, Except.ok.injEq] at h
              exact joinW t rest rfl hspc hp hw h.symm
            · simp [hw] at h
          | spawn _ => simp [hp] at h
          | join _ => simp [hp] at h
          | unwrapInput => simp [hp] at h
      | ready =>
        have hs : s.spc = .ready ∨ s.spc = .woken := .inl hspc
        simp only [hspc] at h
        cases hp : s.prog with
        | nil => simp [hp] at h
        | cons op rest =>
          simp only [hp] at h
          cases op with
          | spawn idx =>
            simp only [stepSpawn] at h
            by_cases hc : s.jobs.size + s.numInProgress + s.results.size ≤ MAX_THREADS
            · simp only [hc, if_true] at h
              cases hpush : s.jobs.push ⟨s.curWorkId, idx⟩ with
              | none => simp [hpush] at h
              | some jobs' =>
                simp only [hpush, Except.ok.injEq] at h
                exact spawn idx rest jobs' rfl hs hp hc hpush h.symm
            · simp only [hc, if_false, Except.ok.injEq] at h
              exact spawnWait idx rest rfl hs hp hc h.symm
          | join n =>
            simp only [stepJoin] at h
            cases hsp : s.spawned[n]? with
            | none => simp [hsp] at h
            | some j =>
              simp only [hsp] at h
              cases hrm : s.results.remove (matchId j.workId) with
              | none => simp [hrm] at h
              | some pr =>
                obtain ⟨ro, results'⟩ := pr
                cases ro with
                | none =>
                  simp only [hrm, Except.ok.injEq] at h
                  exact joinWait n rest j results' rfl hs hp hsp hrm h.symm
                | some r =>
                  simp only [hrm, Except.ok.injEq] at h
                  exact join n rest j r results' rfl hs hp hsp hrm h.symm
          | unwrapInput =>
            simp only [Except.ok.injEq] at h
            exact unwrap rest rfl hs hp h.symm
          | dropPool =>
            simp only [stepDrop, Except.ok.injEq] at h
            exact drop rest rfl hs hp h.symm
      | woken =>
        have hs : s.spc = .ready ∨ s.spc = .woken := .inr hspc
        simp only [hspc] at h
        cases hp : s.prog with
        | nil => simp [hp] at h
        | cons op rest =>
          simp only [hp] at h
          cases op with
          | spawn idx =>
            simp only [stepSpawn] at h
            by_cases hc : s.jobs.size + s.numInProgress + s.results.size ≤ MAX_THREADS
            · simp only [hc, if_true] at h
              cases hpush : s.jobs.push ⟨s.curWorkId, idx⟩ with
              | none => simp [hpush] at h
              | some jobs' =>
                simp only [hpush, Except.ok.injEq] at h
                exact spawn idx rest jobs' rfl hs hp hc hpush h.symm
            · simp only [hc, if_false, Except.ok.injEq] at h
              exact spawnWait idx rest rfl hs hp hc h.symm
          | join n =>
            simp only [stepJoin] at h
            cases hsp : s.spawned[n]? with
            | none => simp [hsp] at h
            | some j =>
              simp only [hsp] at h
              cases hrm : s.results.remove (matchId j.workId) with
              | none => simp [hrm] at h
              | some pr =>
                obtain ⟨ro, results'⟩ := pr
                cases ro with
                | none =>
                  simp only [hrm, Except.ok.injEq] at h
                  exact joinWait n rest j results' rfl hs hp hsp hrm h.symm
                | some r =>
                  simp only [hrm, Except.ok.injEq] at h
                  exact join n rest j r results' rfl hs hp hsp hrm h.symm
          | unwrapInput =>
            simp only [Except.ok.injEq] at h
            exact unwrap rest rfl hs hp h.symm
          | dropPool =>
            simp only [stepDrop, Except.ok.injEq] at h
            exact drop rest rfl hs hp h.symm
    | succ i =>
      simp only [step, stepWorker] at h
      cases hw : s.workers[i]? with
      | none => simp [hw] at h
      | some p =>
        simp only [hw] at h
        cases p with
        | atLockA =>
          simp only [stepLockA] at h
          by_cases himm : s.immediateShutdown = true
          · simp only [himm, if_true, Except.ok.injEq] at h
            exact exitA i rfl hw himm h.symm
          · have himm' : s.immediateShutdown = false := by simpa using himm
            rw [if_neg himm] at h
            cases hpop : s.jobs.pop with
            | mk ro jobs' =>
              cases ro with
              | some j =>
                simp only [hpop, Except.ok.injEq] at h
                exact pop i j jobs' rfl hw himm' hpop h.symm
              | none =>
                simp only [hpop] at h
                by_cases hsd : s.shutdown = true
                · rw [if_pos hsd] at h
                  simp only [Except.ok.injEq] at h
                  exact exitS i jobs' rfl hw himm' hpop hsd h.symm
                · have hsd' : s.shutdown = false := by simpa using hsd
                  rw [if_neg hsd] at h
                  simp only [Except.ok.injEq] at h
                  exact waitW i jobs' rfl hw himm' hpop hsd' h.symm
        | atRun j =>
          simp only [stepRun, Except.ok.injEq] at h
          exact run i j rfl hw h.symm
        | atLockB r =>
          simp only [stepLockB] at h
          by_cases hn : s.numInProgress = 0
          · simp [hn] at h
          · simp only [hn, if_false] at h
            cases hpush : s.results.push r with
            | none => simp [hpush] at h
            | some results' =>
              simp only [hpush, Except.ok.injEq] at h
              exact publish i r results' rfl hw hn hpush h.symm
        | woken =>
          simp only [stepWoken, Except.ok.injEq] at h
          exact wake i rfl hw h.symm
        | waiting => simp at h
        | exited => simp at h
  | spurious tid =>
    simp only [step, stepSpurious] at h
    by_cases h0 : tid = 0
    · subst h0
      simp only [if_true] at h
      by_cases hs : s.spc = .waiting
      · simp only [hs, if_true, Except.ok.injEq] at h
        exact spurS rfl hs h.symm
      · simp [hs] at h
    · simp only [h0, if_false] at h
      by_cases hw : s.workers[tid - 1]? = some .waiting
      · simp only [hw, if_true, Except.ok.injEq] at h
        exact spurW tid rfl h0 hw h.symm
      · simp [hw] at h

/-- the only ways `step` can report a panic -/
def PanicCases (s : State) (site : PanicSite) : Prop :=
    (∃ (i : Nat) (r : Reply), s.workers[i]? = some (WPc.atLockB r) ∧
      ((s.numInProgress = 0 ∧ site = .nipUnderflow) ∨
       (s.numInProgress ≠ 0 ∧ s.results.push r = none ∧ site = .resultsPush))) ∨
    (∃ idx rest, s.prog = .spawn idx :: rest ∧
      s.jobs.size + s.numInProgress + s.results.size ≤ MAX_THREADS ∧
      s.jobs.push ⟨s.curWorkId, idx⟩ = none ∧ site = .jobsPush) ∨
    (∃ n rest j, s.prog = .join n :: rest ∧ s.spawned[n]? = some j ∧
      s.results.remove (matchId j.workId) = none ∧ site = .removeAssert)

theorem step_panic_cases {s : State} {c : Choice} {site : PanicSite}
    (h : step s c = .error (.panic site)) : PanicCases s site := by
  unfold PanicCases
  cases c with
  | run tid =>
    cases tid with
    | zero =>
      simp only [step, stepSub] at h
      have sub : ∀ (hh : (match s.prog with
          | [] => (.error .badChoice : Except Err State)
          | .spawn idx :: rest => stepSpawn s idx rest
          | .join n :: rest => stepJoin s n rest
          | .unwrapInput :: rest =>
            .ok ({ s with spc := .ready, prog := rest }.log 0 (.unwrap (s.arc == 1)))
          | .dropPool :: rest => stepDrop s rest) = .error (.panic site)), PanicCases s site := by
        intro hh
        unfold PanicCases
        cases hp : s.prog with
        | nil => simp [hp] at hh
        | cons op rest =>
          simp only [hp] at hh
          cases op with
          | spawn idx =>
            simp only [stepSpawn] at hh
            by_cases hc : s.jobs.size + s.numInProgress + s.results.size ≤ MAX_THREADS
            · simp only [hc, if_true] at hh
              cases hpush : s.jobs.push ⟨s.curWorkId, idx⟩ with
              | none =>
                simp only [hpush, Except.error.injEq, Err.panic.injEq] at hh
                exact Or.inr (Or.inl ⟨idx, rest, rfl, hc, hpush, hh.symm⟩)
              | some jobs' => simp [hpush] at hh
            · simp [hc] at hh
          | join n =>
            simp only [stepJoin] at hh
            cases hsp : s.spawned[n]? with
            | none => simp [hsp] at hh
            | some j =>
              simp only [hsp] at hh
              cases hrm : s.results.remove (matchId j.workId) with
              | none =>
                simp only [hrm, Except.error.injEq, Err.panic.injEq] at hh
                exact Or.inr (Or.inr ⟨n, rest, j, rfl, hsp, hrm, hh.symm⟩)
              | some pr =>
                obtain ⟨ro, results'⟩ := pr
                cases ro <;> simp [hrm] at hh
          | unwrapInput => simp at hh
          | dropPool => simp [stepDrop] at hh
      cases hspc : s.spc with
      | waiting => simp [hspc] at h
      | joining t =>
        simp only [hspc] at h
        cases hp : s.prog with
        | nil => simp [hp] at h
        | cons op rest =>
          cases op <;> simp only [hp] at h <;> try (simp at h)
          split at h <;> simp at h
      | ready => simp only [hspc] at h; exact sub h
      | woken => simp only [hspc] at h; exact sub h
    | succ i =>
      simp only [step, stepWorker] at h
      cases hw : s.workers[i]? with
      | none => simp [hw] at h
      | some p =>
        simp only [hw] at h
        cases p with
        | atLockA =>
          simp only [stepLockA] at h
          split at h
          · simp at h
          · split at h
            · simp at h
            · split at h <;> simp at h
        | atRun j => simp [stepRun] at h
        | atLockB r =>
          left
          refine ⟨i, r, hw, ?_⟩
          simp only [stepLockB] at h
          by_cases hn : s.numInProgress = 0
          · simp only [hn, if_true, Except.error.injEq, Err.panic.injEq] at h
            exact .inl ⟨hn, h.symm⟩
          · simp only [hn, if_false] at h
            cases hpush : s.results.push r with
            | none =>
              simp only [hpush, Except.error.injEq, Err.panic.injEq] at h
              exact .inr ⟨hn, rfl, h.symm⟩
            | some results' => simp [hpush] at h
        | woken => simp [stepWoken] at h
        | waiting => simp at h
        | exited => simp at h
  | spurious tid =>
    simp only [step, stepSpurious] at h
    split at h
    · split at h <;> simp at h
    · split at h <;> simp at h

end BV.Lemmas.Pool
