import BV.Lemmas.StreamRing2
/-
Whole histories: `run` over a list of calls has a LOG (list of events) that determines the
delivered bit stream, the positions and the request list.
-/
namespace BV.Stream
open BV.Bits

/-- a state a history can be in: fresh or initialised-with-invariant, and framed -/
structure RunOK (s : St) : Prop where
  inv : IsFresh s ∨ Inv s
  frame : FrameInv s

theorem frameInv_isFresh {s : St} (h : IsFresh s) : FrameInv s := by
  obtain ⟨p, rfl⟩ := h
  refine ⟨by simp [CarryOK, St.new], ?_⟩
  intro hb; simp [St.new] at hb

theorem runOK_fresh {s : St} (h : IsFresh s) : RunOK s := ⟨Or.inl h, frameInv_isFresh h⟩

theorem isFresh_fields {s : St} (h : IsFresh s) :
    s.isInitialized = false ∧ s.pending = [] ∧ s.inputPos = 0 ∧ s.nextOut = .none ∧ s.lastBytesBits = 0 := by
  obtain ⟨p, rfl⟩ := h
  simp [St.new]

theorem logPos_ip_le (p : Pos) (log : List Ev) : (logPos p log).ip ≤ p.ip + logUsed log := by
  induction log generalizing p with
  | nil => simp [logPos, logUsed]
  | cons e es ih =>
    have h1 := ih (e.step p)
    have h2 : (e.step p).ip ≤ p.ip + e.used := by
      cases e <;> simp [Ev.step, Ev.used]
    show (logPos (e.step p) es).ip ≤ p.ip + logUsed (e :: es)
    simp only [logUsed, List.map_cons, List.sum_cons] at h1 ⊢
    omega

/-- `take_output` on the emitted stream, the positions and the invariants -/
theorem take_facts {s s' : St} {size : Nat} {out : Bytes} (hR : RunOK s) (h : takeOutput s size = .ok (s', out)) (d : Bytes) :
    RunOK s' ∧ emitted (d ++ out) s' = emitted d s ∧ s'.pos = s.pos ∧ s'.isInitialized = s.isInitialized
    ∧ s'.params = s.params ∧ s'.ring = s.ring := by
  rcases hR.inv with hf | hI
  · obtain ⟨_, hp, _, hno, _⟩ := isFresh_fields hf
    have : takeOutput s size = .ok (s, []) := by
      unfold takeOutput takeSliceOk takeCount
      rw [hno, hp]
      simp
    rw [this] at h
    simp only [Out.ok.injEq, Prod.mk.injEq] at h
    obtain ⟨rfl, rfl⟩ := h
    exact ⟨hR, by rw [List.append_nil], rfl, rfl, rfl, rfl⟩
  · obtain ⟨hI', hp, _, hst⟩ := takeOutput_spec hI h
    have hlb : s'.lastBytes = s.lastBytes ∧ s'.lastBytesBits = s.lastBytesBits ∧ s'.pos = s.pos ∧ s'.params = s.params ∧ s'.ring = s.ring := by
      unfold takeOutput at h
      split at h
      · simp at h
      · split at h
        · simp only [Out.ok.injEq, Prod.mk.injEq] at h
          obtain ⟨rfl, _⟩ := h
          obtain ⟨k1, _, _, _, _, _, _, _, k9, k10, _⟩ := checkFlushComplete_frame (takeAdvance s (takeCount s size))
          have hcr : (checkFlushComplete (takeAdvance s (takeCount s size))).ring = (takeAdvance s (takeCount s size)).ring := by
            unfold checkFlushComplete; split <;> rfl
          exact ⟨k9, k10, by rw [checkFlushComplete_pos]; rfl, k1, hcr⟩
        · simp only [Out.ok.injEq, Prod.mk.injEq] at h
          obtain ⟨rfl, _⟩ := h
          exact ⟨rfl, rfl, rfl, rfl, rfl⟩
    have hpos := hlb.2.2.1
    have hip : s'.inputPos = s.inputPos := congrArg Pos.ip hpos
    have hlf : s'.lastFlushPos = s.lastFlushPos := congrArg Pos.lf hpos
    refine ⟨⟨Or.inr hI', ⟨carryOK_eq hR.frame.carry hlb.1 hlb.2.1, ?_⟩⟩, ?_, hpos, by rw [hI'.init, hI.init], hlb.2.2.2.1, hlb.2.2.2.2⟩
    · intro hb
      rcases hst with h1 | ⟨_, _, h1⟩
      · rw [hlb.2.1, hip, hlf]; exact hR.frame.body (h1 ▸ hb)
      · rw [h1] at hb; cases hb
    · rw [emitted_def, emitted_def, hlb.1, hlb.2.1, hp, List.append_assoc]

/-- the stream header is emitted once, by the first `compress_stream` call -/
def WinShape (s0 s : St) (log : List Ev) : Prop :=
  (s0.isInitialized = false ∧ s.isInitialized = false ∧ log = []) ∨
  (s0.isInitialized = false ∧ s.isInitialized = true ∧ ∃ b rest, log = .window b :: rest ∧ NoWindow rest) ∨
  (s0.isInitialized = true ∧ s.isInitialized = true ∧ NoWindow log)

theorem winShape_nil {s0 s : St} (h : s.isInitialized = s0.isInitialized) : WinShape s0 s [] := by
  cases hi : s0.isInitialized
  · exact Or.inl ⟨hi, by rw [h, hi], rfl⟩
  · exact Or.inr (Or.inr ⟨hi, by rw [h, hi], fun _ he => by cases he⟩)

theorem winShape_trans {s0 s1 s2 : St} {l1 l2 : List Ev} (h1 : WinShape s0 s1 l1) (h2 : WinShape s1 s2 l2) :
    WinShape s0 s2 (l1 ++ l2) := by
  rcases h1 with ⟨a1, a2, a3⟩ | ⟨a1, a2, b, r, a3, a4⟩ | ⟨a1, a2, a3⟩
  · subst a3
    rcases h2 with ⟨b1, b2, b3⟩ | ⟨b1, b2, b3⟩ | ⟨b1, _, _⟩
    · exact Or.inl ⟨a1, b2, by rw [b3]; rfl⟩
    · exact Or.inr (Or.inl ⟨a1, b2, b3⟩)
    · rw [a2] at b1; cases b1
  · rcases h2 with ⟨b1, _, _⟩ | ⟨b1, _, _⟩ | ⟨_, b2, b3⟩
    · rw [a2] at b1; cases b1
    · rw [a2] at b1; cases b1
    · exact Or.inr (Or.inl ⟨a1, b2, b, r ++ l2, by rw [a3]; rfl, noWindow_append a4 b3⟩)
  · rcases h2 with ⟨b1, _, _⟩ | ⟨b1, _, _⟩ | ⟨_, b2, b3⟩
    · rw [a2] at b1; cases b1
    · rw [a2] at b1; cases b1
    · exact Or.inr (Or.inr ⟨a1, b2, noWindow_append a3 b3⟩)

/-- the ring buffer of an encoder in a history: untouched while fresh, else holding `inp` -/
def RingSt (s : St) (inp : Bytes) : Prop := (IsFresh s ∧ inp = []) ∨ RingInv s inp

theorem logCopy_append (a b : List Ev) : logCopy (a ++ b) = logCopy a ++ logCopy b := by
  induction a with
  | nil => rfl
  | cons e es ih => rw [List.cons_append, logCopy_cons, logCopy_cons, ih, List.append_assoc]

/-- everything the log of a history says -/
structure RunFacts (o : Oracle) (s0 : St) (t0 : Trace) (s : St) (t : Trace) (log : List Ev) : Prop where
  ok : RunOK s
  bits : deliveredBits t s = deliveredBits t0 s0 ++ logBits o log
  pos : s.pos = logPos s0.pos log
  lok : LogOK s0.pos log
  reqs : t.reqs = t0.reqs ++ logReqs log
  win : WinShape s0 s log
  q : s0.isInitialized = true → s.q01 = s0.q01
  cl : LogCl o s.q01 s0.pos log
  closed : t.closed = t0.closed ++ closedFlags o s.q01 s0.nEnc (logReqs log)
  ring : ∀ inp, RingSt s0 inp → RingSt s (inp ++ logCopy log)

theorem logPos_k' (p : Pos) (log : List Ev) : (logPos p log).k = p.k + (logReqs log).length := by
  induction log generalizing p with
  | nil => rfl
  | cons e es ih =>
    show (logPos (e.step p) es).k = p.k + (logReqs (e :: es)).length
    rw [ih]
    cases e <;> simp [Ev.step, logReqs, Ev.req, List.filterMap_cons] <;> omega

theorem RunFacts.refl (o : Oracle) {s : St} (t : Trace) (h : RunOK s) : RunFacts o s t s t [] :=
  ⟨h, by simp [logBits], rfl, trivial, by simp [logReqs], winShape_nil rfl, fun _ => rfl, trivial, by simp [logReqs, closedFlags],
    fun inp hh => by simpa [logCopy] using hh⟩

theorem RunFacts.trans {o : Oracle} {s0 s1 s2 : St} {t0 t1 t2 : Trace} {l1 l2 : List Ev}
    (h1 : RunFacts o s0 t0 s1 t1 l1) (h2 : RunFacts o s1 t1 s2 t2 l2) : RunFacts o s0 t0 s2 t2 (l1 ++ l2) := by
  -- either nothing has happened before `s1` was initialised, or the quality class is fixed from `s1` on
  have hq12 : l1 = [] ∨ s2.q01 = s1.q01 := by
    cases hi : s1.isInitialized
    · left
      rcases h1.win with ⟨_, _, a3⟩ | ⟨_, a2, _⟩ | ⟨_, a2, _⟩
      · exact a3
      · rw [hi] at a2; cases a2
      · rw [hi] at a2; cases a2
    · exact Or.inr (h2.q hi)
  have hk : s1.nEnc = s0.nEnc + (logReqs l1).length := by
    have := congrArg Pos.k h1.pos
    rw [logPos_k'] at this
    exact this
  refine ⟨h2.ok, ?_, ?_, ?_, ?_, winShape_trans h1.win h2.win, ?_, ?_, ?_,
    fun inp hh => by rw [logCopy_append, ← List.append_assoc]; exact h2.ring _ (h1.ring _ hh)⟩
  rotate_left 4
  · intro hi0
    have hi1 : s1.isInitialized = true := by
      rcases h1.win with ⟨a1, _, _⟩ | ⟨a1, _, _⟩ | ⟨_, a2, _⟩
      · rw [hi0] at a1; cases a1
      · rw [hi0] at a1; cases a1
      · exact a2
    rw [h2.q hi1, h1.q hi0]
  · rcases hq12 with rfl | hq
    · have : s1.pos = s0.pos := h1.pos
      rw [← this]; exact h2.cl
    · refine logCl_append (by rw [hq]; exact h1.cl) ?_
      rw [← h1.pos]; exact h2.cl
  · rw [h2.closed, h1.closed, logReqs_append, closedFlags_append, List.append_assoc, hk]
    rcases hq12 with rfl | hq
    · simp [logReqs, closedFlags]
    · rw [hq]
  · rw [h2.bits, h1.bits, logBits_append, List.append_assoc]
  · rw [h2.pos, h1.pos, logPos_append]
  · exact logOK_append h1.lok (by rw [← h1.pos]; exact h2.lok)
  · rw [h2.reqs, h1.reqs, logReqs_append, List.append_assoc]

/-- a call of a history is well-formed: operation code in range, no 64-bit wrap of the input position -/
def CallOK (s : St) : Call → Prop
  | .stream op chunk _ => op ≤ 3 ∧ s.inputPos + chunk.length < two64
  | _ => True

/-- **one call of a history** -/
theorem runCall_facts {o : Oracle} {fuel : Nat} {s s' : St} {t t' : Trace} {c : Call} (hR : RunOK s) (hc : CallOK s c)
    (h : runCall o fuel s t c = .ok (s', t')) :
    s'.inputPos ≤ s.inputPos + c.len ∧ ∃ log, RunFacts o s t s' t' log := by
  cases c with
  | setParam id v =>
    simp only [runCall, Out.ok.injEq, Prod.mk.injEq] at h
    obtain ⟨rfl, rfl⟩ := h
    rcases hR.inv with hf | hI
    · have hf' := setParameter_fresh hf id v
      obtain ⟨_, hp, hip, _, hl⟩ := isFresh_fields hf
      obtain ⟨_, hp', hip', _, hl'⟩ := isFresh_fields hf'
      refine ⟨by rw [hip', hip]; exact Nat.zero_le _, [], runOK_fresh hf', ?_, ?_, trivial, by simp [logReqs],
        winShape_nil (by rw [isFreshInit hf, isFreshInit hf']), (fun hi => by rw [isFreshInit hf] at hi; cases hi), trivial,
        by simp [logReqs, closedFlags], fun inp hh => by
          simp only [logCopy, List.append_nil]
          rcases hh with ⟨_, hi⟩ | hi
          · exact Or.inl ⟨hf', hi⟩
          · have := hi.init; rw [isFreshInit hf] at this; cases this⟩
      · simp only [deliveredBits, logBits, List.flatMap_nil, List.append_nil]
        rw [hp, hp']
        unfold St.carry
        rw [hl, hl']
        rfl
      · obtain ⟨p, rfl⟩ := hf
        obtain ⟨p', hp'⟩ := hf'
        rw [hp']; rfl
    · have : setParameter s id v = (s, false) := by simp [setParameter, hI.init]
      rw [this]
      exact ⟨Nat.le_add_right _ _, [], hR, by simp [deliveredBits, logBits], rfl, trivial, by simp [logReqs], winShape_nil rfl,
        (fun _ => rfl), trivial, by simp [logReqs, closedFlags], fun inp hh => by simpa [logCopy] using hh⟩
  | take size =>
    simp only [runCall] at h
    split at h
    · rename_i s1 out htake
      simp only [Out.ok.injEq, Prod.mk.injEq] at h
      obtain ⟨rfl, rfl⟩ := h
      obtain ⟨hR', hb, hp, hini, hpar, hring⟩ := take_facts hR htake t.delivered
      have hipe : s1.inputPos = s.inputPos := congrArg Pos.ip hp
      refine ⟨by rw [hipe]; exact Nat.le_add_right _ _, [], hR', ?_, hp, trivial, by simp [logReqs], winShape_nil hini,
        (fun _ => by unfold St.q01; rw [hpar]), trivial, by simp [logReqs, closedFlags], fun inp hh => by
          simp only [logCopy, List.append_nil]
          rcases hh with ⟨hf, hi⟩ | hi
          · left
            have hs1 : s1 = s := by
              obtain ⟨_, hp0, _, hno, _⟩ := isFresh_fields hf
              have : takeOutput s size = .ok (s, []) := by
                unfold takeOutput takeSliceOk takeCount
                rw [hno, hp0]
                simp
              rw [this] at htake
              simp only [Out.ok.injEq, Prod.mk.injEq] at htake
              exact htake.1.symm
            rw [hs1]; exact ⟨hf, hi⟩
          · right
            exact ringInv_of_eq hi hring (by rw [hpar]) hini⟩
      simp only [deliveredBits, logBits, List.flatMap_nil, List.append_nil]
      exact hb
    · simp at h
    · simp at h
  | stream op chunk cap =>
    obtain ⟨hop, hw⟩ := hc
    simp only [runCall] at h
    split at h
    · rename_i s1 io r hcs
      simp only [Out.ok.injEq, Prod.mk.injEq] at h
      obtain ⟨rfl, rfl⟩ := h
      -- reduce to an initialised state, possibly after the `init` atom
      have key : ∀ (si : St), Inv si → FrameInv si → si.inputPos + chunk.length < two64 →
          compressStream o fuel si op chunk cap = .ok (s1, io, r) →
          ∃ log, RunOK s1 ∧ emitted (t.delivered ++ io.out) s1 = emitted t.delivered si ++ logBits o log
            ∧ s1.pos = logPos si.pos log ∧ LogOK si.pos log ∧ io.reqs = logReqs log
            ∧ s1.inputPos ≤ si.inputPos + chunk.length ∧ NoWindow log ∧ s1.isInitialized = true
            ∧ s1.q01 = si.q01 ∧ LogCl o si.q01 si.pos log
            ∧ (∀ inp, RingInv si inp → RingInv s1 (inp ++ logCopy log)) := by
        intro si hI hF hw' hcs'
        cases r
        · obtain ⟨hs, hio⟩ := refused_unchanged hop hI hw' hcs'
          subst hio
          rcases hs with rfl | rfl
          · exact ⟨[], ⟨Or.inr hI, hF⟩, by simp [logBits, Io.start], rfl, trivial, by simp [logReqs, Io.start], Nat.le_add_right _ _,
              (fun _ he => by cases he), hI.init, rfl, trivial, fun inp hh => by simpa [logCopy] using hh⟩
          · obtain ⟨_, _, _, _, _, u6, _, _, u9, u10, _, _, u13, u14, u15⟩ := updateSizeHint_fields si 0
            refine ⟨[], ⟨Or.inr (inv_updateSizeHint hI 0), frameInv_of_eq hF u15 u14 u9 u6 u10⟩, ?_,
              by rw [updateSizeHint_pos]; rfl, trivial, by simp [logReqs, Io.start], by rw [u6]; exact Nat.le_add_right _ _,
              (fun _ he => by cases he), (inv_updateSizeHint hI 0).init, q01_congr (updateSizeHint_fields si 0).2.1, trivial,
              fun inp hh => by
                simp only [logCopy, List.append_nil]
                have hur : (updateSizeHint si 0).ring = si.ring := by
                  by_cases h0 : si.params.sizeHint = 0 <;> simp [updateSizeHint, h0]
                exact ringInv_of_eq hh hur (updateSizeHint_fields si 0).1 (updateSizeHint_fields si 0).2.2.2.2.2.2.2.1⟩
            simp only [logBits, List.flatMap_nil, List.append_nil, Io.start]
            exact emitted_eq rfl u13 u15 u14
        · obtain ⟨log, hsteps⟩ := call_steps hop hI hw' hcs'
          have f := steps_facts hsteps hF t.delivered
          have hI1 := ((compressStream_refines hop hI hw' hcs').2 rfl).1
          obtain ⟨cq, ccl⟩ := steps_cl (o := o) hsteps hI.init
          refine ⟨log, ⟨Or.inr hI1, f.frame⟩, ?_, f.pos, f.ok, ?_, ?_, (f.initd hI.init).2, hI1.init, cq, ccl,
            fun inp hh => steps_ring hsteps hh⟩
          rotate_left 2
          · have h1 := logPos_ip_le si.pos log
            have h2 := f.used
            have h3 : s1.inputPos = (logPos si.pos log).ip := congrArg Pos.ip f.pos
            have h4 : (Io.start chunk cap).input.length = chunk.length := rfl
            have h5 : si.pos.ip = si.inputPos := rfl
            simp only at h2
            omega
          · have := f.bits
            simp only [Io.start, List.append_nil] at this
            exact this
          · have := f.reqs
            simp only [Io.start, List.nil_append] at this
            exact this
      rcases hR.inv with hf | hI
      · -- fresh: `ensure_initialized` first
        rw [compressStream_ensure] at hcs
        obtain ⟨hini, hp, hip, _, hl⟩ := isFresh_fields hf
        have hIe := (inv_fresh hf).1
        have hFe := frameInv_fresh hf
        have hipe : (ensureInitialized s).inputPos = 0 := by
          obtain ⟨p, rfl⟩ := hf
          simp [ensureInitialized, St.new]
        obtain ⟨log, k1, k2, k3, k4, k5, k6, k7, k8, k9, k10, k11⟩ := key (ensureInitialized s) hIe hFe (by rw [hipe]; rw [hip] at hw; exact hw) hcs
        have hinit : Step o op (s, Io.start chunk cap) (.window (ensureInitialized s).carry) (ensureInitialized s, Io.start chunk cap) :=
          Step.init hf
        have hb0 := step_emitted hR.frame hinit t.delivered
        obtain ⟨q1, q2, _⟩ := step_pos hinit
        refine ⟨by rw [hipe] at k6; rw [hip]; exact k6, .window (ensureInitialized s).carry :: log, k1, ?_, ?_, ⟨q2, by rw [← q1]; exact k4⟩, ?_,
          Or.inr (Or.inl ⟨hini, k8, _, _, rfl, k7⟩), (fun hi => by rw [hini] at hi; cases hi), ⟨trivial, ?_⟩, ?_,
          fun inp hh => by
            rw [logCopy_cons]
            simp only [Ev.copied, List.nil_append]
            rcases hh with ⟨_, hi⟩ | hi
            · subst hi
              right
              obtain ⟨r1, r2⟩ := ring_ok_fresh hf
              have := k11 [] ⟨hIe.init, r1, r2, ring_alloc_fresh hf⟩
              simpa using this
            · have := hi.init; rw [hini] at this; cases this⟩
        rotate_left 3
        · rw [← q1, k9]; exact k10
        · have hk : (ensureInitialized s).nEnc = s.nEnc := by
            have := congrArg Pos.k q1
            exact this
          simp only [Trace.afterStream]
          rw [k5, k9, hk]
          simp [logReqs, Ev.req, List.filterMap_cons]
        · simp only [deliveredBits, Trace.afterStream]
          show emitted (t.delivered ++ io.out) s1 = emitted t.delivered s ++ logBits o (.window (ensureInitialized s).carry :: log)
          rw [k2]
          simp only [Io.start, List.append_nil] at hb0
          rw [hb0]
          simp [logBits, List.append_assoc]
        · rw [k3, q1]; rfl
        · simp only [Trace.afterStream]
          rw [k5]
          simp [logReqs, Ev.req, List.filterMap_cons]
      · obtain ⟨log, k1, k2, k3, k4, k5, k6, k7, k8, k9, k10, k11⟩ := key s hI hR.frame hw hcs
        refine ⟨k6, log, k1, ?_, k3, k4, ?_, Or.inr (Or.inr ⟨hI.init, k8, k7⟩), (fun _ => k9), by rw [k9]; exact k10, ?_,
          fun inp hh => by
            right
            rcases hh with ⟨hf, _⟩ | hi
            · have := isFreshInit hf; rw [hI.init] at this; cases this
            · exact k11 inp hi⟩
        rotate_left 2
        · simp only [Trace.afterStream]
          rw [ensureInitialized_id hI.init, k5, k9]
        · simp only [deliveredBits, Trace.afterStream]
          exact k2
        · simp only [Trace.afterStream]
          rw [k5]
    · simp at h
    · simp at h

/-- **a whole history has a log** that determines the delivered bits, the positions and the requests -/
theorem run_facts {o : Oracle} {fuel : Nat} {calls : List Call} {s0 s : St} {t0 t : Trace} (hR : RunOK s0)
    (hops : HistOK calls) (hw : s0.inputPos + histLen calls < two64)
    (h : run o fuel calls s0 t0 = .ok (s, t)) : ∃ log, RunFacts o s0 t0 s t log := by
  induction calls generalizing s0 t0 with
  | nil =>
    simp only [run, Out.ok.injEq, Prod.mk.injEq] at h
    obtain ⟨rfl, rfl⟩ := h
    exact ⟨[], RunFacts.refl o t0 hR⟩
  | cons c cs ih =>
    simp only [run] at h
    split at h
    · rename_i s1 t1 hc
      have hcok : CallOK s0 c := by
        cases c with
        | stream op chunk cap =>
          simp only [histLen, Call.len] at hw
          exact ⟨hops.1, by omega⟩
        | setParam id v => trivial
        | take n => trivial
      obtain ⟨hip, l1, f1⟩ := runCall_facts hR hcok hc
      have hops' : HistOK cs := by
        cases c with
        | stream op chunk cap => exact hops.2
        | setParam id v => exact hops
        | take n => exact hops
      have hw' : s1.inputPos + histLen cs < two64 := by
        simp only [histLen] at hw
        omega
      obtain ⟨l2, f2⟩ := ih f1.ok hops' hw' h
      exact ⟨l1 ++ l2, f1.trans f2⟩
    · simp at h
    · simp at h

end BV.Stream
