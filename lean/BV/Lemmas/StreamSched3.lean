import BV.Lemmas.StreamSched2
/-
Schedule independence (C05), part 3: runs of a request under arbitrary output schedules.
-/
namespace BV.Stream
open BV.Bits

/-- the abstract configuration between two calls: core state, everything produced, input left -/
def absR (s : St) (rem del : Bytes) : Abs := ⟨core s, del ++ s.pending, rem, rem.length⟩

/-- what holds of the encoder between two calls of a request `(op, …)` -/
structure Bnd (op : Nat) (s : St) (rem : Bytes) : Prop where
  inv : IsFresh s ∨ Inv s
  nopad : ¬ PadDue s
  nonproc : s.streamState ≠ .processing → rem = []
  rm : s.isInitialized = true → s.remainingMetadata = u32Max
  wrap : s.inputPos + rem.length < two64
  noflush : op = 0 → s.streamState ≠ .flushRequested

set_option maxRecDepth 4000 in
/-- a PROCESS request never asks for a flush -/
theorem step_op0 {o : Oracle} {s s' : St} {io io' : Io} {e : Ev}
    (h : Step o 0 (s, io) e (s', io')) (hn : s.streamState ≠ .flushRequested) : s'.streamState ≠ .flushRequested := by
  cases h with
  | init hf =>
    obtain ⟨p, rfl⟩ := hf
    simp [ensureInitialized, St.new]
  | copy hI hw hop hnf hst hrm hc hn' h =>
    obtain ⟨_, _, _, _, c5, _⟩ := copy_fields hI.init h
    rw [c5]; exact hn
  | pad hI hc hz h => exact absurd hc.1 hn
  | push hI hc h =>
    obtain ⟨f, _⟩ := push_frame h
    rw [St.frame_eq_iff] at f
    rw [f.2.2.2.1]; exact hn
  | encSlow hI hop hnf hrm hnc hnp hpend hst hgo h =>
    obtain ⟨f, _⟩ := encodeData_frame h
    rw [St.frame_eq_iff] at f
    obtain ⟨_, _, _, _, _, _, _, _, _, k10⟩ := markAfterEncode_fields _ (slowIl 0 io) (slowFf 0 io)
    have u9 := (updateSizeHint_fields s io.availIn).2.2.2.2.2.2.2.2.1
    rw [k10, f.2.2.2.1, u9, hst]
    simp [slowIl, slowFf]
  | cfc hI hop hrm hnp hfl =>
    rw [checkFlushComplete_state]
    split
    · simp
    · exact hn
  | fastFlush hI hfm hrm hnp hpend hst hop1 hz => omega
  | fastBlock hI hfm hop hrm hnp hpend hst hgo hnf hcap hin hfit =>
    obtain ⟨_, _, _, f4, _⟩ := fastStorage_fields s (fastInplace s io) (fastMaxOut s io)
    have e8 := (fastEncode_fields (fastS1 s io) io (o s.nEnc (fastReq 0 s io)) (fastReq 0 s io) (fastBs s io) (fastInplace s io)
      (fastReq 0 s io).isLast (fastReq 0 s io).forceFlush).2.2.2.2.2.2.2.1
    show (fastRes o 0 s io).1.streamState ≠ .flushRequested
    unfold fastRes
    rw [e8]
    unfold fastS1
    rw [f4, hst]
    simp [fastReq]
  | mdEnter hI hop hentry => omega
  | mdEnc hM hop hpend hne h => omega
  | mdHead hM hop hpend hlf hst hok => omega
  | mdDone hM hop hpend hlf hst hz => omega
  | mdOut hM hop hpend hlf hst hnz hao hle => omega
  | mdTiny hM hop hpend hlf hst hnz hao hle => omega

theorem steps_op0 {o : Oracle} {c c' : St × Io} {evs : List Ev} (h : Steps o 0 c evs c')
    (hn : c.1.streamState ≠ .flushRequested) : c'.1.streamState ≠ .flushRequested := by
  induction h with
  | nil c => exact hn
  | @cons c c1 c2 e es hs _ ih =>
    obtain ⟨s, io⟩ := c
    obtain ⟨s1, io1⟩ := c1
    exact ih (step_op0 hs hn)

/-- `input_pos_` plus the input left never grows -/
theorem steps_sum {o : Oracle} {op : Nat} {c c' : St × Io} {evs : List Ev} (h : Steps o op c evs c') :
    c'.1.inputPos + c'.2.input.length ≤ c.1.inputPos + c.2.input.length := by
  induction h with
  | nil c => exact Nat.le_refl _
  | @cons c c1 c2 e es hs _ ih =>
    obtain ⟨s, io⟩ := c
    obtain ⟨s1, io1⟩ := c1
    obtain ⟨p1, _, _, p4, p5⟩ := step_pos hs
    have hip : s1.inputPos = (e.step s.pos).ip := congrArg Pos.ip p1
    have hle : (e.step s.pos).ip ≤ s.inputPos + e.used := by
      cases e <;> simp [Ev.step, Ev.used, St.pos]
    have hlen : io1.input.length = io.input.length - e.used := by rw [p4, List.length_drop]
    simp only at ih ⊢
    omega

/-- has this call completed the request's flush?  (for FLUSH / FINISH requests: it returned in
PROCESSING with nothing pending — `check_flush_complete` fired at its end) -/
def callDone (op : Nat) (s' : St) : Bool :=
  decide (op ≠ 0) && decide (s'.streamState = .processing) && decide (s'.pending.length = 0)

/-- has this `take_output` completed the flush? -/
def takeDone (s s' : St) : Bool := decide (s.streamState = .flushRequested ∧ s'.streamState = .processing)

theorem absOf_start (s : St) (rem : Bytes) (cap : Nat) (del : Bytes) : absOf s (Io.start rem cap) del = absR s rem del := by
  simp [absOf, absR, Io.start]

/-- the final `check_flush_complete` of a call, on abstract configurations -/
theorem cfc_abs {o : Oracle} {op : Nat} {s1 : St} {io : Io} (hop2 : op ≤ 2) (del : Bytes)
    (h : Step o op (s1, io) (.tau 0) (checkFlushComplete s1, io)) :
    (¬ (s1.streamState = .flushRequested ∧ s1.pending.length = 0) ∧ checkFlushComplete s1 = s1) ∨
    ((s1.streamState = .flushRequested ∧ s1.pending.length = 0)
      ∧ ustep o op (absOf s1 io del) = some (absOf (checkFlushComplete s1) io del)
      ∧ FlushStep (absOf s1 io del) (absOf (checkFlushComplete s1) io del)) := by
  by_cases hfc : s1.streamState = .flushRequested ∧ s1.pending.length = 0
  · right
    refine ⟨hfc, ?_, hfc.1, ?_⟩
    · rcases step_abs h hop2 del with heq | hu
      · exfalso
        have := congrArg (fun a => a.s.streamState) heq
        simp only [absOf, core_state, checkFlushComplete_state, if_pos hfc] at this
        rw [hfc.1] at this; cases this
      · exact hu
    · show (checkFlushComplete s1).streamState = .processing
      rw [checkFlushComplete_state, if_pos hfc]
  · left
    refine ⟨hfc, ?_⟩
    unfold checkFlushComplete
    rw [if_neg hfc]

/-- **one accepted call of a request**, on abstract configurations -/
theorem call_abs {o : Oracle} {fuel op cap : Nat} {rem del : Bytes} {s s' : St} {io' : Io}
    (hop2 : op ≤ 2) (hB : Bnd op s rem)
    (h : compressStream o fuel s op rem cap = .ok (s', io', true)) :
    RPath o op (absR s rem del) (absR s' io'.input (del ++ io'.out)) (callDone op s') ∧ Bnd op s' io'.input
    ∧ (callDone op s' = true → s'.pending = [] ∧ s'.streamState = .processing) := by
  -- reduce to an initialised start state `si`, reached from `s` by `n0` abstract steps
  have red : ∃ si n0, Inv si ∧ UPath o op (absR s rem del) n0 (absR si rem del)
      ∧ compressStream o fuel si op rem cap = .ok (s', io', true) ∧ si.inputPos + rem.length < two64
      ∧ si.remainingMetadata = u32Max ∧ (op = 0 → si.streamState ≠ .flushRequested) := by
    rcases hB.inv with hf | hI
    · have hIe := (inv_fresh hf).1
      have hinit : Step o op (s, Io.start rem cap) (.window (ensureInitialized s).carry) (ensureInitialized s, Io.start rem cap) :=
        Step.init hf
      have hne : Ev.window (ensureInitialized s).carry ≠ .tau 0 := fun hh => by cases hh
      rcases step_abs hinit hop2 del with heq | hu
      · exfalso
        have := congrArg (fun a => a.s.isInitialized) heq
        simp only [absOf, core_init] at this
        rw [hIe.init, isFreshInit hf] at this; cases this
      · refine ⟨ensureInitialized s, 1, hIe, ?_, by rw [← compressStream_ensure]; exact h, ?_, ?_, ?_⟩
        · rw [absOf_start, absOf_start] at hu
          exact .cons hu (by rw [← absOf_start s rem cap del, ← absOf_start (ensureInitialized s) rem cap del]; exact step_noflush hinit hne hop2 del) (.nil _)
        · obtain ⟨p, rfl⟩ := hf
          have : (ensureInitialized { St.new with params := p }).inputPos = 0 := by simp [ensureInitialized, St.new]
          rw [this]; have := hB.wrap; simp [St.new] at this; omega
        · obtain ⟨p, rfl⟩ := hf
          simp [ensureInitialized, St.new]
        · intro _
          obtain ⟨p, rfl⟩ := hf
          simp [ensureInitialized, St.new]
    · exact ⟨s, 0, hI, .nil _, h, hB.wrap, hB.rm hI.init, hB.noflush⟩
  obtain ⟨si, n0, hI, hp0, hcall, hw, hrm, hnfl⟩ := red
  obtain ⟨evs, s1, hsteps, hnt, hcfc, hs', hx⟩ := call_steps2 hop2 hI hw hcall
  obtain ⟨n1, hp1⟩ := steps_upath hsteps hnt hop2 del
  simp only [absOf_start] at hp1
  have hpath : UPath o op (absR s rem del) (n0 + n1) (absOf s1 io' del) := hp0.append hp1
  have hin : io'.availIn = io'.input.length := steps_inOK hsteps hop2 rfl
  have habs : ∀ t : St, absOf t io' del = absR t io'.input (del ++ io'.out) := by
    intro t; simp [absOf, absR, hin]
  have hsum := steps_sum hsteps
  simp only [Io.start] at hsum
  have hI' := ((compressStream_refines (by omega) hI hw hcall).2 rfl).1
  -- facts about the pre-`check_flush_complete` state, from the atom
  have hcfc' := hcfc
  rw [hs'] at hcfc'
  have hpre : Inv s1 ∧ s1.remainingMetadata = u32Max ∧ ¬ PadDue s1 ∧ (s1.streamState ≠ .processing → io'.availIn = 0) := by
    cases hcfc' with
    | cfc a1 a2 a3 a4 a5 => exact ⟨a1, a3, a4, a5⟩
  obtain ⟨hI1, hrm1, hnp1, hfl1⟩ := hpre
  obtain ⟨k1, k2, k3, _, _, _, _, k8, _, k10, _⟩ := checkFlushComplete_frame s1
  have hst' := checkFlushComplete_state s1
  have hnfl1 : op = 0 → s1.streamState ≠ .flushRequested := by
    intro h0
    subst h0
    exact steps_op0 hsteps (hnfl rfl)
  have hbnd : Bnd op s' io'.input := by
    rw [hs']
    refine ⟨Or.inr (hs' ▸ hI'), ?_, ?_, fun _ => k3.trans hrm1, ?_, ?_⟩
    · intro hpd
      unfold PadDue at hpd
      rw [hst', k10] at hpd
      split at hpd
      · cases hpd.1
      · exact hnp1 hpd
    · intro hnp
      have : s1.streamState ≠ .processing := by
        intro hh
        rw [hst', hh] at hnp
        simp at hnp
      have hz := hfl1 this
      rw [hin] at hz
      exact List.eq_nil_of_length_eq_zero hz
    · rw [k2]; omega
    · intro h0
      rw [hst']
      split
      · simp
      · exact hnfl1 h0
  rcases cfc_abs hop2 del hcfc' with ⟨hnfc, hid⟩ | ⟨hfc, hu, hfl⟩
  · -- no flush completed at the end of this call
    have hd : callDone op s' = false := by
      rw [hs', hid]
      unfold callDone
      by_cases h0 : op = 0
      · simp [h0]
      · by_cases hpr : s1.streamState = .processing
        · by_cases hpe : s1.pending.length = 0
          · exact absurd ⟨hpe, hpr⟩ (hx.nonzero h0)
          · simp [hpe]
        · simp [hpr]
    rw [hd]
    refine ⟨⟨n0 + n1, ?_⟩, hbnd, fun hh => by cases hh⟩
    rw [hs', hid, ← habs]
    exact hpath
  · have h0 : op ≠ 0 := fun hh => hnfl1 hh hfc.1
    have hd : callDone op s' = true := by
      rw [hs']
      unfold callDone
      rw [hst', if_pos hfc, k8]
      simp [h0, hfc.2]
    rw [hd]
    refine ⟨⟨n0 + n1, absOf s1 io' del, hpath, ?_, ?_⟩, hbnd, fun _ => ?_⟩
    · rw [hs', ← habs]; exact hu
    · rw [hs', ← habs]; exact hfl
    · rw [hs']
      refine ⟨?_, by rw [hst', if_pos hfc]⟩
      rw [k8]; exact List.eq_nil_of_length_eq_zero hfc.2

/-- **`take_output` of a request**, on abstract configurations: nothing changes, or the flush completes -/
theorem take_abs {o : Oracle} {op size : Nat} {rem del out : Bytes} {s s' : St}
    (hop2 : op ≤ 2) (hB : Bnd op s rem) (h : takeOutput s size = .ok (s', out)) :
    ((takeDone s s' = false ∧ absR s' rem (del ++ out) = absR s rem del) ∨
     (takeDone s s' = true ∧ ustep o op (absR s rem del) = some (absR s' rem (del ++ out))
        ∧ FlushStep (absR s rem del) (absR s' rem (del ++ out)) ∧ s'.pending = [] ∧ s'.streamState = .processing))
    ∧ Bnd op s' rem := by
  rcases hB.inv with hf | hI
  · obtain ⟨_, hp, _, hno, _⟩ := isFresh_fields hf
    have : takeOutput s size = .ok (s, []) := by
      unfold takeOutput takeSliceOk takeCount
      rw [hno, hp]
      simp
    rw [this] at h
    simp only [Out.ok.injEq, Prod.mk.injEq] at h
    obtain ⟨rfl, rfl⟩ := h
    refine ⟨Or.inl ⟨?_, by rw [List.append_nil]⟩, hB⟩
    unfold takeDone
    obtain ⟨p, rfl⟩ := hf
    simp [St.new]
  · unfold takeOutput at h
    split at h
    · simp at h
    · split at h
      · simp only [Out.ok.injEq, Prod.mk.injEq] at h
        obtain ⟨rfl, rfl⟩ := h
        generalize hc : takeCount s size = c
        -- the state after handing out `c` bytes, before `check_flush_complete`
        have hI1 : Inv (takeAdvance s c) := hI.of_frame rfl rfl rfl rfl
        have hst1 : (takeAdvance s c).streamState = s.streamState := rfl
        have hlbb1 : (takeAdvance s c).lastBytesBits = s.lastBytesBits := rfl
        have hnp1 : ¬ PadDue (takeAdvance s c) := hB.nopad
        have hcfc : Step o op (takeAdvance s c, Io.start rem 0) (.tau 0) (checkFlushComplete (takeAdvance s c), Io.start rem 0) :=
          Step.cfc hI1 hop2 (hB.rm hI.init) hnp1 (fun hh => by
            have := hB.nonproc hh
            simp [Io.start, this])
        have habs1 : absOf (takeAdvance s c) (Io.start rem 0) (del ++ s.pending.take c) = absR s rem del := by
          simp [absOf, absR, Io.start, takeAdvance, core, List.append_assoc]
        have habs2 : absOf (checkFlushComplete (takeAdvance s c)) (Io.start rem 0) (del ++ s.pending.take c)
            = absR (checkFlushComplete (takeAdvance s c)) rem (del ++ s.pending.take c) := by
          simp [absOf, absR, Io.start]
        obtain ⟨k1, k2, k3, k4, _, _, _, k8, _, k10, _⟩ := checkFlushComplete_frame (takeAdvance s c)
        have hstc := checkFlushComplete_state (takeAdvance s c)
        have hbnd : Bnd op (checkFlushComplete (takeAdvance s c)) rem := by
          refine ⟨Or.inr (inv_checkFlushComplete hI1), ?_, ?_, fun _ => k3.trans (hB.rm hI.init), by rw [k2]; exact hB.wrap, ?_⟩
          · intro hpd
            unfold PadDue at hpd
            rw [hstc, k10] at hpd
            split at hpd
            · cases hpd.1
            · exact hnp1 hpd
          · intro hnp
            apply hB.nonproc
            intro hh
            rw [hstc, hst1, hh] at hnp
            simp at hnp
          · intro h0
            rw [hstc]
            split
            · simp
            · rw [hst1]; exact hB.noflush h0
        refine ⟨?_, hbnd⟩
        rcases cfc_abs hop2 (del ++ s.pending.take c) hcfc with ⟨hnfc, hid⟩ | ⟨hfc, hu, hfl⟩
        · left
          refine ⟨?_, by rw [hid, ← habs1]; simp [absOf, absR, Io.start]⟩
          unfold takeDone
          rw [hid, hst1]
          by_cases hh : s.streamState = .flushRequested <;> simp [hh]
        · right
          rw [habs1, habs2] at hu hfl
          refine ⟨?_, hu, hfl, ?_, by rw [hstc, if_pos hfc]⟩
          · unfold takeDone
            rw [hstc, if_pos hfc, ← hst1, hfc.1]
            simp
          · rw [k8]; exact List.eq_nil_of_length_eq_zero hfc.2
      · simp only [Out.ok.injEq, Prod.mk.injEq] at h
        obtain ⟨rfl, rfl⟩ := h
        refine ⟨Or.inl ⟨?_, by rw [List.append_nil]⟩, hB⟩
        unfold takeDone
        by_cases hh : s.streamState = .flushRequested <;> simp [hh]

/-! ### runs of a request -/

inductive SchedStep where
  | call (cap : Nat)       -- `compress_stream(op, what is left of the chunk, cap)`
  | take (size : Nat)      -- `take_output(size)`
deriving Repr, DecidableEq

/-- a request `(op, chunk)` driven under an output schedule: every `call` offers what is left of
the chunk with the given output capacity, every `take` drains through `take_output`.  Result: the
state, the input left, everything delivered, and whether the request's flush has completed.
`none`: a call was refused, panicked or ran out of fuel — or the schedule calls `compress_stream`
again after the flush has completed (a complete request is not re-issued). -/
def driveReq (o : Oracle) (fuel op : Nat) : List SchedStep → St → Bytes → Bytes → Bool → Option (St × Bytes × Bytes × Bool)
  | [], s, rem, del, d => some (s, rem, del, d)
  | .call cap :: rest, s, rem, del, d =>
    if d then none else
    match compressStream o fuel s op rem cap with
    | .ok (s', io', true) => driveReq o fuel op rest s' io'.input (del ++ io'.out) (callDone op s')
    | _ => none
  | .take size :: rest, s, rem, del, d =>
    match takeOutput s size with
    | .ok (s', out) => driveReq o fuel op rest s' rem (del ++ out) (d || takeDone s s')
    | _ => none

/-- **every run of a request walks along the trajectory of the abstract machine** -/
theorem drive_rpath {o : Oracle} {fuel op : Nat} (hop2 : op ≤ 2) (a : Abs) :
    ∀ (sched : List SchedStep) (s : St) (rem del : Bytes) (d : Bool) (s' : St) (rem' del' : Bytes) (d' : Bool),
      Bnd op s rem → RPath o op a (absR s rem del) d → (d = true → s.pending = [] ∧ s.streamState = .processing) →
      driveReq o fuel op sched s rem del d = some (s', rem', del', d') →
      RPath o op a (absR s' rem' del') d' ∧ Bnd op s' rem' ∧ (d' = true → s'.pending = [] ∧ s'.streamState = .processing) := by
  intro sched
  induction sched with
  | nil =>
    intro s rem del d s' rem' del' d' hB hR hd h
    simp only [driveReq, Option.some.injEq, Prod.mk.injEq] at h
    obtain ⟨rfl, rfl, rfl, rfl⟩ := h
    exact ⟨hR, hB, hd⟩
  | cons st rest ih =>
    intro s rem del d s' rem' del' d' hB hR hd h
    cases st with
    | call cap =>
      simp only [driveReq] at h
      cases d with
      | true => simp at h
      | false =>
        simp only [Bool.false_eq_true, ↓reduceIte] at h
        split at h
        · rename_i s1 io1 hcall
          obtain ⟨r1, b1, c1⟩ := call_abs (del := del) hop2 hB hcall
          obtain ⟨n0, p0⟩ := hR
          have hR1 : RPath o op a (absR s1 io1.input (del ++ io1.out)) (callDone op s1) := by
            cases hcd : callDone op s1
            · rw [hcd] at r1
              obtain ⟨n1, p1⟩ := r1
              exact ⟨n0 + n1, p0.append p1⟩
            · rw [hcd] at r1
              obtain ⟨n1, x, p1, u1, f1⟩ := r1
              exact ⟨n0 + n1, x, p0.append p1, u1, f1⟩
          exact ih _ _ _ _ _ _ _ _ b1 hR1 c1 h
        all_goals simp at h
    | take size =>
      simp only [driveReq] at h
      split at h
      · rename_i s1 out htake
        obtain ⟨hcase, b1⟩ := take_abs (o := o) (del := del) hop2 hB htake
        cases d with
        | true =>
          -- the flush has completed: nothing is pending, `take_output` hands out nothing
          obtain ⟨hp, hst⟩ := hd rfl
          have htd : takeDone s s1 = false := by
            unfold takeDone; rw [hst]; simp
          rcases hcase with ⟨_, heq⟩ | ⟨h1, _⟩
          · have hs1 : s1.pending = [] ∧ s1.streamState = .processing := by
              have e1 := congrArg (fun x => x.s.streamState) heq
              simp only [absR, core_state] at e1
              have e2 := congrArg Abs.out heq
              simp only [absR] at e2
              unfold takeOutput at htake
              split at htake
              · simp at htake
              · split at htake
                · rename_i hne
                  exfalso
                  unfold takeCount at hne
                  rw [hp] at hne
                  simp at hne
                · simp only [Out.ok.injEq, Prod.mk.injEq] at htake
                  obtain ⟨rfl, _⟩ := htake
                  exact ⟨hp, hst⟩
            refine ih _ _ _ _ _ _ _ _ b1 ?_ (fun _ => hs1) h
            simp only [Bool.true_or]
            rw [heq]; exact hR
          · rw [htd] at h1; cases h1
        | false =>
          rcases hcase with ⟨h1, heq⟩ | ⟨h1, hu, hfl, hp1, hst1⟩
          · refine ih _ _ _ _ _ _ _ _ b1 ?_ (fun hh => by rw [h1] at hh; cases hh) h
            rw [h1, heq]; exact hR
          · obtain ⟨n0, p0⟩ := hR
            refine ih _ _ _ _ _ _ _ _ b1 ?_ (fun _ => ⟨hp1, hst1⟩) h
            rw [h1]
            exact ⟨n0, _, p0, hu, hfl⟩
      all_goals simp at h

/-- **a checkable completion criterion**: a call that returns with nothing pending has completed its
request — the flush is done, or the abstract machine has nothing left to do -/
theorem call_final {o : Oracle} {fuel op cap : Nat} {rem : Bytes} {s s' : St} {io' : Io}
    (hop2 : op ≤ 2) (hB : Bnd op s rem)
    (h : compressStream o fuel s op rem cap = .ok (s', io', true)) (hp : s'.pending = []) (d : Bytes) :
    callDone op s' = true ∨ ustep o op (absR s' io'.input d) = none := by
  have red : ∃ si, Inv si ∧ compressStream o fuel si op rem cap = .ok (s', io', true) ∧ si.inputPos + rem.length < two64
      ∧ (op = 0 → si.streamState ≠ .flushRequested) := by
    rcases hB.inv with hf | hI
    · refine ⟨ensureInitialized s, (inv_fresh hf).1, by rw [← compressStream_ensure]; exact h, ?_, ?_⟩
      · obtain ⟨p, rfl⟩ := hf
        have : (ensureInitialized { St.new with params := p }).inputPos = 0 := by simp [ensureInitialized, St.new]
        rw [this]; have := hB.wrap; simp [St.new] at this; omega
      · intro _
        obtain ⟨p, rfl⟩ := hf
        simp [ensureInitialized, St.new]
    · exact ⟨s, hI, h, hB.wrap, hB.noflush⟩
  obtain ⟨si, hI, hcall, hw, hnfl⟩ := red
  obtain ⟨evs, s1, hsteps, _, hcfc, hs', hx⟩ := call_steps2 hop2 hI hw hcall
  have hin : io'.availIn = io'.input.length := steps_inOK hsteps hop2 rfl
  obtain ⟨_, _, _, _, _, _, _, k8, _⟩ := checkFlushComplete_frame s1
  have hp1 : s1.pending.length = 0 := by
    rw [hs', k8] at hp; rw [hp]; rfl
  have hst' := checkFlushComplete_state s1
  have hpre : Inv s1 ∧ ¬ PadDue s1 := by
    rw [hs'] at hcfc
    cases hcfc with
    | cfc a1 a2 a3 a4 a5 => exact ⟨a1, a4⟩
  obtain ⟨hI1, hnp1⟩ := hpre
  by_cases hfl : s1.streamState = .flushRequested
  · left
    have h0 : op ≠ 0 := by
      intro hh; subst hh
      exact steps_op0 hsteps (hnfl rfl) hfl
    unfold callDone
    rw [hs', hst', if_pos ⟨hfl, hp1⟩, k8]
    simp [h0, hp1]
  · right
    have hid : checkFlushComplete s1 = s1 := by
      unfold checkFlushComplete
      rw [if_neg (fun hh => hfl hh.1)]
    rw [hs', hid]
    have hi : ¬ ((absR s1 io'.input d).s.isInitialized = false) := by
      show ¬ (s1.isInitialized = false); rw [hI1.init]; simp
    have hnp' : ¬ PadDue (absR s1 io'.input d).s := hnp1
    have hnfl' : ¬ ((absR s1 io'.input d).s.streamState = .flushRequested) := hfl
    have hav : (absR s1 io'.input d).availIn = io'.availIn := by
      show io'.input.length = io'.availIn; rw [hin]
    unfold ustep
    rw [if_neg hi]
    rcases hx with ⟨hfm, hc⟩ | ⟨hnf, hc1, hc2⟩
    · have hfm' : fastMode (absR s1 io'.input d).s.params := hfm
      have hc' : ¬ ((absR s1 io'.input d).s.streamState = .processing ∧ ((absR s1 io'.input d).availIn ≠ 0 ∨ op ≠ 0)) := by
        rw [hav]; intro hh; exact hc ⟨hp1, hh.1, hh.2⟩
      rw [if_pos hfm', if_neg hnp', if_neg hc', if_neg hnfl']
    · have hnf' : ¬ fastMode (absR s1 io'.input d).s.params := hnf
      have hc1' : ¬ (remainingInputBlockSize (absR s1 io'.input d).s ≠ 0 ∧ (absR s1 io'.input d).availIn ≠ 0) := by
        rw [hav]; exact hc1
      have hc2' : ¬ ((absR s1 io'.input d).s.streamState = .processing ∧ (remainingInputBlockSize (absR s1 io'.input d).s = 0 ∨ op ≠ 0)) := by
        intro hh; exact hc2 ⟨hp1, hh.1, hh.2⟩
      rw [if_neg hnf', if_neg hc1', if_neg hnp', if_neg hc2', if_neg hnfl']

/-- a final abstract configuration is not in FLUSH_REQUESTED -/
theorem final_noflush {o : Oracle} {op : Nat} {s : St} {rem del : Bytes} (hB : Bnd op s rem)
    (h : ustep o op (absR s rem del) = none) : s.streamState ≠ .flushRequested ∧ s.isInitialized = true := by
  have hi : s.isInitialized = true := by
    cases hh : s.isInitialized
    · exfalso
      unfold ustep at h
      have : (absR s rem del).s.isInitialized = false := hh
      rw [if_pos this] at h
      cases h
    · rfl
  refine ⟨?_, hi⟩
  intro hfl
  have hrem := hB.nonproc (by rw [hfl]; simp)
  have hi' : ¬ ((absR s rem del).s.isInitialized = false) := by
    show ¬ (s.isInitialized = false); rw [hi]; simp
  have hnp' : ¬ PadDue (absR s rem del).s := hB.nopad
  have hst' : (absR s rem del).s.streamState = .flushRequested := hfl
  have hav : (absR s rem del).availIn = 0 := by show rem.length = 0; rw [hrem]; rfl
  unfold ustep at h
  rw [if_neg hi'] at h
  by_cases hfm : fastMode (absR s rem del).s.params
  · have hc : ¬ ((absR s rem del).s.streamState = .processing ∧ ((absR s rem del).availIn ≠ 0 ∨ op ≠ 0)) := by
      intro hh; rw [hst'] at hh; cases hh.1
    rw [if_pos hfm, if_neg hnp', if_neg hc, if_pos hst'] at h
    cases h
  · have hc1 : ¬ (remainingInputBlockSize (absR s rem del).s ≠ 0 ∧ (absR s rem del).availIn ≠ 0) := by
      intro hh; exact hh.2 hav
    have hc2 : ¬ ((absR s rem del).s.streamState = .processing ∧ (remainingInputBlockSize (absR s rem del).s = 0 ∨ op ≠ 0)) := by
      intro hh; rw [hst'] at hh; cases hh.1
    rw [if_neg hfm, if_neg hc1, if_neg hnp', if_neg hc2, if_pos hst'] at h
    cases h

/-- the boundary invariant carries over to the next request (given the caller keeps the contract:
no input outside PROCESSING, no 64-bit wrap) -/
theorem bnd_next {o : Oracle} {op op2 : Nat} {s : St} {rem del chunk2 : Bytes} {d : Bool} (hB : Bnd op s rem)
    (hd : d = true → s.pending = [] ∧ s.streamState = .processing)
    (hfin : d = true ∨ ustep o op (absR s rem del) = none)
    (hc : s.streamState ≠ .processing → chunk2 = []) (hw : s.inputPos + chunk2.length < two64) : Bnd op2 s chunk2 := by
  refine ⟨hB.inv, hB.nopad, hc, hB.rm, hw, ?_⟩
  intro _
  rcases hfin with h1 | h1
  · rw [(hd h1).2]; simp
  · exact (final_noflush hB h1).1

/-- a fresh encoder is at a call boundary -/
theorem bnd_fresh {op : Nat} {s : St} {chunk : Bytes} (hf : IsFresh s) (hw : chunk.length < two64) : Bnd op s chunk := by
  obtain ⟨p, rfl⟩ := hf
  refine ⟨Or.inl ⟨p, rfl⟩, ?_, ?_, ?_, ?_, ?_⟩
  · intro hh; simp [PadDue, St.new] at hh
  · intro hh; simp [St.new] at hh
  · intro hh; simp [St.new] at hh
  · simp [St.new]; exact hw
  · intro _; simp [St.new]

end BV.Stream
