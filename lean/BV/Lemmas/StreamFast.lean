import BV.Lemmas.StreamSlow
/-
Refinement of the contract automaton by the quality 0/1 loop (`compress_stream_fast`).
-/
namespace BV.Stream
open BV.Bits

theorem fastEncode_fields (s : St) (io : Io) (ans : Ans) (req : Req) (bs : Nat) (ip il ff : Bool) :
    (fastEncode s io ans req bs ip il ff).1.params = s.params
    ∧ (fastEncode s io ans req bs ip il ff).1.inputPos = s.inputPos
    ∧ (fastEncode s io ans req bs ip il ff).1.remainingMetadata = s.remainingMetadata
    ∧ (fastEncode s io ans req bs ip il ff).1.isInitialized = s.isInitialized
    ∧ (fastEncode s io ans req bs ip il ff).1.lastFlushPos = s.lastFlushPos
    ∧ (fastEncode s io ans req bs ip il ff).1.lastProcessedPos = s.lastProcessedPos
    ∧ (fastEncode s io ans req bs ip il ff).1.isLastBlockEmitted = s.isLastBlockEmitted
    ∧ (fastEncode s io ans req bs ip il ff).1.streamState = (if il then .finished else if ff then .flushRequested else s.streamState)
    ∧ (fastEncode s io ans req bs ip il ff).2.availIn = io.availIn - bs := by
  unfold fastEncode
  cases ip <;> simp

theorem fastStep_spec {o : Oracle} {op : Nat} {s s' : St} {io io' : Io} {b : Bool} (hI : Inv s)
    (hfm : fastMode s.params)
    (h : fastStep o op s io = .ok (s', io', b)) :
    Inv s' ∧ s'.remainingMetadata = s.remainingMetadata ∧ io'.availIn ≤ io.availIn ∧ StateMove op s s' io'
    ∧ s'.inputPos = s.inputPos
    ∧ (s.streamState = .finished → s'.pending.length ≤ s.pending.length)
    ∧ s'.params = s.params := by
  unfold fastStep at h
  split at h
  · simp at h
  · simp at h
  · rename_i s1 io1 hp
    simp only [Out.ok.injEq, Prod.mk.injEq] at h
    obtain ⟨rfl, rfl, rfl⟩ := h
    obtain ⟨f, _, _, _, _, _, _, _, fa, _⟩ := push_frame hp
    rw [St.frame_eq_iff] at f
    refine ⟨inv_push hI hp, f.2.2.1, by rw [fa]; exact Nat.le_refl _, Or.inl f.2.2.2.1, f.2.1, ?_, f.1⟩
    intro hfin
    exact (push_pending_le (by rw [hfin]; simp) hp).1
  · rename_i s1 io1 hp
    obtain ⟨e1, e2, _, _⟩ := push_false hp
    have e1' := e1.symm; have e2' := e2.symm
    subst e1' e2'
    split at h
    · rename_i hcond
      simp only at h
      split at h
      · rename_i hff
        simp only [Out.ok.injEq, Prod.mk.injEq] at h
        obtain ⟨rfl, rfl, rfl⟩ := h
        have hff1 : io.availIn = min (2 ^ s.params.lgwin.toNat) io.availIn ∧ op = 1 := by simpa using hff.1
        have hz : io.availIn = 0 := by rw [hff1.1]; exact hff.2
        refine ⟨?_, rfl, Nat.le_refl _, Or.inr ⟨hcond.2.1, hz, Or.inl ⟨hff1.2, rfl⟩⟩, rfl, ?_, rfl⟩
        · refine hI.transfer rfl rfl rfl rfl ?_ hI.fl_le hI.lp_le (Nat.le_refl _) ?_ hI.q01 (fun _ => Or.inr hfm)
          · simp only; rw [hcond.2.1]; rfl
          · intro hle
            have := hI.lastFin hle
            rw [hcond.2.1] at this; cases this
        · intro hfin; rw [hcond.2.1] at hfin; cases hfin
      · split at h
        · simp at h
        · split at h
          · simp at h
          · split at h
            · simp at h
            · simp only [Out.ok.injEq, Prod.mk.injEq] at h
              obtain ⟨rfl, rfl, rfl⟩ := h
              generalize hbs : min (2 ^ s.params.lgwin.toNat) io.availIn = bs at *
              generalize hil : decide (io.availIn = bs ∧ op = 2) = il at *
              generalize hfl : decide (io.availIn = bs ∧ op = 1) = ffl at *
              generalize hipl : decide ((2 * bs + 503) % two64 ≤ io.availOut) = ipl at *
              have hs1f : (fastStorage s ipl ((2 * bs + 503) % two64)).frame = s.frame
                  ∧ (fastStorage s ipl ((2 * bs + 503) % two64)).lastFlushPos = s.lastFlushPos
                  ∧ (fastStorage s ipl ((2 * bs + 503) % two64)).lastProcessedPos = s.lastProcessedPos
                  ∧ (fastStorage s ipl ((2 * bs + 503) % two64)).isLastBlockEmitted = s.isLastBlockEmitted := by
                unfold fastStorage
                split
                · exact ⟨rfl, rfl, rfl, rfl⟩
                · obtain ⟨g1, g2, g3, g4, _⟩ := growStorage_frame s ((2 * bs + 503) % two64)
                  exact ⟨g1, g2, g3, g4⟩
              generalize fastStorage s ipl ((2 * bs + 503) % two64) = s1 at *
              obtain ⟨g1, g2, g3, g4⟩ := hs1f
              rw [St.frame_eq_iff] at g1
              obtain ⟨e1, e2, e3, e4, e5, e6, e7, e8, e9⟩ :=
                fastEncode_fields s1 io (o s.nEnc { site := 2, lo := bs, hi := s.inputPos, isLast := il, forceFlush := ffl })
                  { site := 2, lo := bs, hi := s.inputPos, isLast := il, forceFlush := ffl } bs ipl il ffl
              refine ⟨?_, ?_, ?_, ?_, ?_, ?_, e1.trans g1.1⟩
              · refine hI.transfer (by rw [e1, g1.1]) (e2.trans g1.2.1) (e3.trans g1.2.2.1) (e4.trans g1.2.2.2.2.1) ?_ ?_ ?_ ?_ ?_ ?_ ?_
                · rw [e8, g1.2.2.2.1, hcond.2.1]
                  cases il <;> cases ffl <;> rfl
                · rw [e5, e6, g2, g3]; exact hI.fl_le
                · rw [e6, e2, g3, g1.2.1]; exact hI.lp_le
                · rw [e6, g3]; exact Nat.le_refl _
                · intro hle
                  rw [e7, g4] at hle
                  have := hI.lastFin hle
                  rw [hcond.2.1] at this; cases this
                · rw [e1, g1.1, e5, e6, g2, g3]; exact hI.q01
                · intro _; right; rw [e1, g1.1]; exact hfm
              · exact e3.trans g1.2.2.1
              · rw [e9]; omega
              · unfold StateMove
                rw [e8, g1.2.2.2.1, hcond.2.1, e9]
                cases hil2 : il
                · cases hfl2 : ffl
                  · exact Or.inl rfl
                  · rw [hfl2] at hfl
                    have : io.availIn = bs ∧ op = 1 := by simpa using hfl
                    exact Or.inr ⟨rfl, by omega, Or.inl ⟨this.2, rfl⟩⟩
                · rw [hil2] at hil
                  have : io.availIn = bs ∧ op = 2 := by simpa using hil
                  exact Or.inr ⟨rfl, by omega, Or.inr ⟨this.2, rfl⟩⟩
              · exact e2.trans g1.2.1
              · intro hfin; rw [hcond.2.1] at hfin; cases hfin
    · simp only [Out.ok.injEq, Prod.mk.injEq] at h
      obtain ⟨rfl, rfl, rfl⟩ := h
      exact ⟨hI, rfl, Nat.le_refl _, Or.inl rfl, rfl, fun _ => Nat.le_refl _, rfl⟩

theorem fastLoop_induct {o : Oracle} {op : Nat} (P : St → Io → Prop)
    (hstep : ∀ s io s' io' b, P s io → fastStep o op s io = .ok (s', io', b) → P s' io') :
    ∀ fuel s io s' io', P s io → fastLoop o op fuel s io = .ok (s', io') → P s' io' := by
  intro fuel
  induction fuel with
  | zero => intro s io s' io' _ h; simp [fastLoop] at h
  | succ k ih =>
    intro s io s' io' hP h
    unfold fastLoop at h
    split at h
    · simp at h
    · simp at h
    · rename_i s1 io1 hs
      exact ih _ _ _ _ (hstep _ _ _ _ _ hP hs) h
    · rename_i s1 io1 hs
      simp only [Out.ok.injEq, Prod.mk.injEq] at h
      obtain ⟨rfl, rfl⟩ := h
      exact hstep _ _ _ _ _ hP hs

/-- loop invariant of `compress_stream_fast` relative to the stream state `c0` at entry -/
structure FastInv (op : Nat) (c0 : SState) (n : Nat) (s : St) (io : Io) : Prop where
  inv : Inv s
  fm : fastMode s.params
  rm : s.remainingMetadata = u32Max
  availLe : io.availIn ≤ n
  nonproc : c0 ≠ .processing → io.availIn = 0
  st : s.streamState = c0 ∨ (c0 = .processing ∧ io.availIn = 0 ∧
        ((op = 1 ∧ s.streamState = .flushRequested) ∨ (op = 2 ∧ s.streamState = .finished)))

theorem fastInv_step {o : Oracle} {op : Nat} {c0 : SState} {n : Nat} {s s' : St} {io io' : Io} {b : Bool}
    (hP : FastInv op c0 n s io) (h : fastStep o op s io = .ok (s', io', b)) :
    FastInv op c0 n s' io' := by
  obtain ⟨i1, i4, i5, i6, _, _, i9⟩ := fastStep_spec hP.inv hP.fm h
  refine ⟨i1, by rw [i9]; exact hP.fm, i4.trans hP.rm, Nat.le_trans i5 hP.availLe, ?_, ?_⟩
  · intro hc
    have := hP.nonproc hc
    omega
  · rcases i6 with h6 | ⟨h6, h7, h8⟩
    · rcases hP.st with h9 | ⟨h9, h10, h11⟩
      · exact Or.inl (h6.trans h9)
      · refine Or.inr ⟨h9, by omega, ?_⟩
        rw [h6]; exact h11
    · rcases hP.st with h9 | ⟨h9, h10, h11⟩
      · exact Or.inr ⟨h9.symm.trans h6, h7, h8⟩
      · rcases h11 with ⟨_, h12⟩ | ⟨_, h12⟩ <;> rw [h6] at h12 <;> cases h12

/-- `compress_stream_fast` refines the contract -/
theorem fast_refines {o : Oracle} {op fuel : Nat} {s s' : St} {io io' : Io} {r : Bool}
    (hop : op ≤ 2) (hI : Inv s) (hrm : s.remainingMetadata = u32Max)
    (hfm : fastMode s.params)
    (hacc : s.streamState ≠ .processing → io.availIn = 0)
    (h : compressStreamFast o fuel op s io = .ok (s', io', r)) :
    r = true ∧ Inv s' ∧ s'.remainingMetadata = u32Max ∧ io'.availIn ≤ io.availIn
    ∧ (s.streamState = .finished → s'.streamState = .finished ∧ s'.pending.length ≤ s.pending.length)
    ∧ Contract.succ (absC s) op io.availIn (io.availIn - io'.availIn) (absC s') := by
  unfold compressStreamFast at h
  split at h
  · rename_i hq'; rcases hfm.1 with hq | hq <;> rw [hq] at hq' <;> simp at hq'
  · split at h
    · rename_i s1 io1 hl
      simp only [Out.ok.injEq, Prod.mk.injEq] at h
      obtain ⟨rfl, rfl, rfl⟩ := h
      let P : St → Io → Prop := fun t tio =>
        FastInv op s.streamState io.availIn t tio ∧ (s.streamState = .finished → t.pending.length ≤ s.pending.length)
      have hP0 : P s io := ⟨⟨hI, hfm, hrm, Nat.le_refl _, hacc, Or.inl rfl⟩, fun _ => Nat.le_refl _⟩
      have hstep : ∀ t tio t' tio' b, P t tio → fastStep o op t tio = .ok (t', tio', b) → P t' tio' := by
        intro t tio t' tio' b hPt hs
        refine ⟨fastInv_step hPt.1 hs, ?_⟩
        intro hfin
        have htst : t.streamState = .finished := by
          rcases hPt.1.st with h1 | ⟨h1, _⟩
          · rw [h1]; exact hfin
          · rw [hfin] at h1; cases h1
        exact Nat.le_trans ((fastStep_spec hPt.1.inv hPt.1.fm hs).2.2.2.2.2.1 htst) (hPt.2 hfin)
      obtain ⟨hS, hpend⟩ := fastLoop_induct P hstep fuel s io s1 io1 hP0 hl
      have hI1 := inv_checkFlushComplete hS.inv
      obtain ⟨k1, k2, k3, k4, k5, k6, k7, k8, _⟩ := checkFlushComplete_frame s1
      have hst1 := checkFlushComplete_state s1
      refine ⟨rfl, hI1, k3.trans hS.rm, hS.availLe, ?_, exit_contract hop hI hrm hS.inv hS.rm hS.availLe hacc hS.st hpend⟩
      intro hfin
      have h1 : s1.streamState = .finished := by
        rcases hS.st with h1 | ⟨h1, _⟩
        · rw [h1]; exact hfin
        · rw [hfin] at h1; cases h1
      refine ⟨?_, ?_⟩
      · rw [hst1, h1]; simp
      · rw [k8]; exact hpend hfin
    · simp at h
    · simp at h

end BV.Stream
