/-
Schedule independence of a whole member from `new_brotli_file` on: every complete protocol
run over the same bytes ends in the same class (strip failed / look-ahead incomplete /
header refused / header accepted) with the same observable result.
-/
import BV.Lemmas.ConcatMember

namespace BV.Concat
open Outcome BV.Gen

/-- what every complete run of a member's bytes `x` from the header-phase state `s` amounts to -/
inductive MemberSpec (s : State) (x acc : List Nat) (R : Run) : Prop where
  | failed (nsp0 : NewStreamData) (s1 : State) (o1 : List Nat)
      (hp : s.new_stream_pending = some nsp0) (hw : nsp0.num_bytes_written = none)
      (hf : flushPreviousStream s [] 1 = ok (s1, o1, NOT_CRAFTED_FOR_APPEND))
      (hR : R = ⟨s, NOT_CRAFTED_FOR_APPEND, acc⟩)
  | partly (nsp0 : NewStreamData) (s1 : State) (o1 : List Nat) (nspX : NewStreamData) (k : Nat)
      (hp : s.new_stream_pending = some nsp0) (hw : nsp0.num_bytes_written = none)
      (hf : flushPreviousStream s [] 1 = ok (s1, o1, SUCCESS))
      (hl : headerLoop nsp0 x 0 = ok (nspX, k)) (hins : nspX.sufficient = false)
      (hR : R = ⟨{ s1 with new_stream_pending := some nspX }, NEEDS_MORE_INPUT, acc ++ o1⟩)
  | rejected (nsp0 : NewStreamData) (s1 : State) (o1 : List Nat) (nspX : NewStreamData) (k c : Nat)
      (hp : s.new_stream_pending = some nsp0) (hw : nsp0.num_bytes_written = none)
      (hf : flushPreviousStream s [] 1 = ok (s1, o1, SUCCESS))
      (hl : headerLoop nsp0 x 0 = ok (nspX, k)) (hsuf : nspX.sufficient = true)
      (hh : shiftHead { s1 with new_stream_pending := some nspX } nspX = ok (.inl c))
      (hR : R = ⟨{ s1 with new_stream_pending := some nspX }, c, acc ++ o1⟩)
  | accepted (nsp0 : NewStreamData) (s1 : State) (o1 : List Nat) (nspF : NewStreamData) (k : Nat)
      (s' : State) (n' : NewStreamData) (q : List Nat) (w : Nat)
      (plan : HdrPlan s x nsp0 s1 o1 nspF k s' n' q w) (run : MemberRun acc o1 q n' w x k s' R)

/-- the part of a run's result that a caller can observe or that later calls depend on -/
def ObsEq (R1 R2 : Run) : Prop :=
  R1.emitted = R2.emitted ∧ R1.code = R2.code ∧ held R1.st = held R2.st ∧
  R1.st.last_bytes_len = R2.st.last_bytes_len ∧ R1.st.new_stream_pending = R2.st.new_stream_pending ∧
  R1.st.window_size = R2.st.window_size

theorem ObsEq.refl' {R1 R2 : Run} (h : R1 = R2) : ObsEq R1 R2 := by
  subst h; exact ⟨rfl, rfl, rfl, rfl, rfl, rfl⟩

theorem memberRun_unique {acc o1 q : List Nat} {n' : NewStreamData} {w : Nat} {x : List Nat} {k : Nat} {s' : State}
    {R1 R2 : Run} (c1 : MemberRun acc o1 q n' w x k s' R1) (c2 : MemberRun acc o1 q n' w x k s' R2) :
    ObsEq R1 R2 := by
  have hl : (held R1.st).length = (held R2.st).length := by
    rw [held_length R1.st c1.pending c1.inv.len_le, held_length R2.st c2.pending c2.inv.len_le, c1.len, c2.len]
  have he : R1.emitted ++ held R1.st = R2.emitted ++ held R2.st := by rw [c1.cons, c2.cons]
  obtain ⟨e1, e2⟩ := List.append_inj' he hl
  exact ⟨e1, by rw [c1.code, c2.code], e2, by rw [c1.len, c2.len], by rw [c1.pending, c2.pending],
    by rw [c1.ws, c2.ws]⟩

/-- the class and its data are functions of `(s, x)`: two runs agree -/
theorem memberSpec_unique (s : State) (x acc : List Nat) (R1 R2 : Run)
    (h1 : MemberSpec s x acc R1) (h2 : MemberSpec s x acc R2) : ObsEq R1 R2 := by
  cases h1 with
  | failed nsp0 s1 o1 hp hw hf hR =>
    cases h2 with
    | failed nsp0' s1' o1' hp' hw' hf' hR' => exact ObsEq.refl' (by rw [hR, hR'])
    | partly nsp0' s1' o1' nspX' k' hp' hw' hf' hl' hins' hR' => rw [hf] at hf'; simp at hf'
    | rejected nsp0' s1' o1' nspX' k' c' hp' hw' hf' hl' hsuf' hh' hR' => rw [hf] at hf'; simp at hf'
    | accepted nsp0' s1' o1' nspF' k' s'' n'' q' w' plan' run' => have := plan'.strip; rw [hf] at this; simp at this
  | partly nsp0 s1 o1 nspX k hp hw hf hl hins hR =>
    cases h2 with
    | failed nsp0' s1' o1' hp' hw' hf' hR' => rw [hf] at hf'; simp at hf'
    | partly nsp0' s1' o1' nspX' k' hp' hw' hf' hl' hins' hR' =>
      rw [hp] at hp'; simp only [Option.some.injEq] at hp'; subst hp'
      rw [hf] at hf'; simp only [Outcome.ok.injEq, Prod.mk.injEq] at hf'; obtain ⟨rfl, rfl, _⟩ := hf'
      rw [hl] at hl'; simp only [Outcome.ok.injEq, Prod.mk.injEq] at hl'; obtain ⟨rfl, rfl⟩ := hl'
      exact ObsEq.refl' (by rw [hR, hR'])
    | rejected nsp0' s1' o1' nspX' k' c' hp' hw' hf' hl' hsuf' hh' hR' =>
      rw [hp] at hp'; simp only [Option.some.injEq] at hp'; subst hp'
      rw [hl] at hl'; simp only [Outcome.ok.injEq, Prod.mk.injEq] at hl'; obtain ⟨rfl, rfl⟩ := hl'
      rw [hins] at hsuf'; simp at hsuf'
    | accepted nsp0' s1' o1' nspF' k' s'' n'' q' w' plan' run' =>
      have hp' := plan'.pending
      rw [hp] at hp'; simp only [Option.some.injEq] at hp'; subst hp'
      have hl' := plan'.look
      rw [hl] at hl'; simp only [Outcome.ok.injEq, Prod.mk.injEq] at hl'; obtain ⟨rfl, rfl⟩ := hl'
      have := plan'.suff; rw [hins] at this; simp at this
  | rejected nsp0 s1 o1 nspX k c hp hw hf hl hsuf hh hR =>
    cases h2 with
    | failed nsp0' s1' o1' hp' hw' hf' hR' => rw [hf] at hf'; simp at hf'
    | partly nsp0' s1' o1' nspX' k' hp' hw' hf' hl' hins' hR' =>
      rw [hp] at hp'; simp only [Option.some.injEq] at hp'; subst hp'
      rw [hl] at hl'; simp only [Outcome.ok.injEq, Prod.mk.injEq] at hl'; obtain ⟨rfl, rfl⟩ := hl'
      rw [hins'] at hsuf; simp at hsuf
    | rejected nsp0' s1' o1' nspX' k' c' hp' hw' hf' hl' hsuf' hh' hR' =>
      rw [hp] at hp'; simp only [Option.some.injEq] at hp'; subst hp'
      rw [hf] at hf'; simp only [Outcome.ok.injEq, Prod.mk.injEq] at hf'; obtain ⟨rfl, rfl, _⟩ := hf'
      rw [hl] at hl'; simp only [Outcome.ok.injEq, Prod.mk.injEq] at hl'; obtain ⟨rfl, rfl⟩ := hl'
      rw [hh] at hh'; simp only [Outcome.ok.injEq, Sum.inl.injEq] at hh'; subst hh'
      exact ObsEq.refl' (by rw [hR, hR'])
    | accepted nsp0' s1' o1' nspF' k' s'' n'' q' w' plan' run' =>
      have hp' := plan'.pending
      rw [hp] at hp'; simp only [Option.some.injEq] at hp'; subst hp'
      have hf' := plan'.strip
      rw [hf] at hf'; simp only [Outcome.ok.injEq, Prod.mk.injEq] at hf'; obtain ⟨rfl, rfl, _⟩ := hf'
      have hl' := plan'.look
      rw [hl] at hl'; simp only [Outcome.ok.injEq, Prod.mk.injEq] at hl'; obtain ⟨rfl, rfl⟩ := hl'
      have := plan'.head; rw [hh] at this; simp at this
  | accepted nsp0 s1 o1 nspF k s' n' q w plan run =>
    cases h2 with
    | failed nsp0' s1' o1' hp' hw' hf' hR' => have := plan.strip; rw [hf'] at this; simp at this
    | partly nsp0' s1' o1' nspX' k' hp' hw' hf' hl' hins' hR' =>
      have hp := plan.pending
      rw [hp] at hp'; simp only [Option.some.injEq] at hp'; subst hp'
      have hl := plan.look
      rw [hl] at hl'; simp only [Outcome.ok.injEq, Prod.mk.injEq] at hl'; obtain ⟨rfl, rfl⟩ := hl'
      have := plan.suff; rw [hins'] at this; simp at this
    | rejected nsp0' s1' o1' nspX' k' c' hp' hw' hf' hl' hsuf' hh' hR' =>
      have hp := plan.pending
      rw [hp] at hp'; simp only [Option.some.injEq] at hp'; subst hp'
      have hf := plan.strip
      rw [hf] at hf'; simp only [Outcome.ok.injEq, Prod.mk.injEq] at hf'; obtain ⟨rfl, rfl, _⟩ := hf'
      have hl := plan.look
      rw [hl] at hl'; simp only [Outcome.ok.injEq, Prod.mk.injEq] at hl'; obtain ⟨rfl, rfl⟩ := hl'
      have := plan.head; rw [hh'] at this; simp at this
    | accepted nsp0' s1' o1' nspF' k' s'' n'' q' w' plan' run' =>
      have hp := plan.pending
      have hp' := plan'.pending
      rw [hp] at hp'; simp only [Option.some.injEq] at hp'; subst hp'
      have hf := plan.strip
      have hf' := plan'.strip
      rw [hf] at hf'; simp only [Outcome.ok.injEq, Prod.mk.injEq] at hf'; obtain ⟨rfl, rfl, _⟩ := hf'
      have hl := plan.look
      have hl' := plan'.look
      rw [hl] at hl'; simp only [Outcome.ok.injEq, Prod.mk.injEq] at hl'; obtain ⟨rfl, rfl⟩ := hl'
      have hh := plan.head
      have hh' := plan'.head
      rw [hh] at hh'; simp only [Outcome.ok.injEq, Sum.inr.injEq, Prod.mk.injEq] at hh'
      obtain ⟨rfl, rfl, rfl⟩ := hh'
      have hw := plan.written
      have hw' := plan'.written
      rw [hw] at hw'; simp only [Option.some.injEq] at hw'; subst hw'
      exact memberRun_unique run run'

/-- a member in its header phase: look-ahead pending, nothing of the header accepted yet -/
def HeaderPhase (s : State) : Prop :=
  ∃ nsp0, s.new_stream_pending = some nsp0 ∧ nsp0.num_bytes_written = none

theorem feedBuffer_failed (fuel : Nat) (s : State) (x caps acc : List Nat) (R : Run) (nsp0 : NewStreamData)
    (s1 : State) (o1 : List Nat) (hp : s.new_stream_pending = some nsp0)
    (hf : flushPreviousStream s [] 1 = ok (s1, o1, NOT_CRAFTED_FOR_APPEND))
    (h : feedBuffer fuel s x caps acc = some R) : R = ⟨s, NOT_CRAFTED_FOR_APPEND, acc⟩ := by
  cases fuel with
  | zero => simp [feedBuffer] at h
  | succ f =>
    unfold feedBuffer at h
    dsimp only at h
    have hst : stream s x (caps.headD (x.length + 8)) = ok ⟨s, NOT_CRAFTED_FOR_APPEND, 0, []⟩ := by
      unfold stream
      rw [hp]
      dsimp only
      rw [flush_fail_any_cap s s1 o1 _ hf]
      simp
    rw [hst] at h
    dsimp only at h
    rw [if_pos (by decide)] at h
    simp only [List.append_nil, Option.some.injEq] at h
    exact h.symm

/-- every complete run over one buffer from a header-phase state falls into its class -/
theorem feedBuffer_spec (fuel : Nat) (s : State) (x caps acc : List Nat) (R : Run) (hI : Inv s) (hS : Started s)
    (hph : HeaderPhase s) (h : feedBuffer fuel s x caps acc = some R) : MemberSpec s x acc R := by
  obtain ⟨nsp0, hp, hw⟩ := hph
  obtain ⟨fr, hfeq, hfp, hI1⟩ := sat_iff.mp (flush_inv s [] 1 hI (Nat.zero_le _) (by rw [hp]; rfl))
  obtain ⟨s1, o1, code⟩ := fr
  dsimp only at hI1
  rcases hfp.code with c0 | c2 | c124
  · dsimp only at c0; subst c0
    obtain ⟨hr50, _⟩ := hI.pend nsp0 hp
    obtain ⟨lr, hleq, hls⟩ := sat_iff.mp (headerLoop_sat x nsp0 0 hr50)
    obtain ⟨nspX, k⟩ := lr
    obtain ⟨hwX, hr5X, _, _, _, _⟩ := hls
    dsimp only at hwX hr5X
    cases hsf : nspX.sufficient with
    | false =>
      obtain ⟨hR, _⟩ := feedBuffer_partial fuel s x caps acc R nsp0 s1 o1 nspX k hp hw hfeq hleq hsf hI h
      exact MemberSpec.partly nsp0 s1 o1 nspX k hp hw hfeq hleq hsf hR
    | true =>
      have hsan1 : s1.last_byte_sanitized = true := hfp.sanit rfl
      have hp1 : s1.new_stream_pending = some nsp0 := by rw [← hp]; exact hfp.pending
      have hwX' : nspX.num_bytes_written = none := by rw [hwX]; exact hw
      have hI2 : Inv { s1 with new_stream_pending := some nspX } :=
        hI1.with_pending nspX (by rw [hp1]; rfl) hr5X hwX'
      -- the header decision cannot panic
      have hsat := shiftAndCheck_sat { s1 with new_stream_pending := some nspX } nspX [] 1 hI2 hsan1 rfl
        (fun _ => hsf) (by simp)
      rw [shiftAndCheck_factor _ nspX [] 1 hwX' (by simp)] at hsat
      cases hh : shiftHead { s1 with new_stream_pending := some nspX } nspX with
      | panic t => rw [hh] at hsat; simp at hsat
      | ok hd =>
        cases hd with
        | inl c =>
          have hR := feedBuffer_rejected fuel s x caps acc R nsp0 s1 o1 nspX k c hp hw hfeq hleq hsf hh hI hS h
          exact MemberSpec.rejected nsp0 s1 o1 nspX k c hp hw hfeq hleq hsf hh hR
        | inr t =>
          obtain ⟨s', n', q⟩ := t
          obtain ⟨⟨w, hw', _⟩, _⟩ := shiftHead_inr _ nspX s' n' q hI2 hr5X hsf hh
          have plan : HdrPlan s x nsp0 s1 o1 nspX k s' n' q w := ⟨hp, hw, hfeq, hleq, hsf, hh, hw'⟩
          exact MemberSpec.accepted nsp0 s1 o1 nspX k s' n' q w plan
            (feedBuffer_member fuel s x caps acc R nsp0 s1 o1 nspX k s' n' q w plan hI hS h)
  · exfalso
    have := hfp.full c2
    simp at this
  · dsimp only at c124; subst c124
    exact MemberSpec.failed nsp0 s1 o1 hp hw hfeq (feedBuffer_failed fuel s x caps acc R nsp0 s1 o1 hp hfeq h)

/-! ### several input buffers -/

theorem headerLoop_extend_suff (nsp0 nspX : NewStreamData) (b y : List Nat) (k : Nat)
    (hl : headerLoop nsp0 b 0 = ok (nspX, k)) (hs : nspX.sufficient = true) :
    headerLoop nsp0 (b ++ y) 0 = ok (nspX, k) := by
  rw [headerLoop_append, hl]
  simp only [bind_ok]
  exact headerLoop_sufficient nspX hs y k

theorem headerLoop_extend (nsp0 nspA nspY : NewStreamData) (b y : List Nat) (j : Nat)
    (hl : headerLoop nsp0 b 0 = ok (nspA, b.length)) (hl' : headerLoop nspA y 0 = ok (nspY, j)) :
    headerLoop nsp0 (b ++ y) 0 = ok (nspY, b.length + j) := by
  rw [headerLoop_append, hl]
  simp only [bind_ok]
  have := headerLoop_offset y nspA b.length 0
  rw [Nat.add_zero] at this
  rw [this, hl']
  rfl

theorem drop_append_len (b y : List Nat) (j : Nat) : (b ++ y).drop (b.length + j) = y.drop j := by
  rw [List.drop_append]; simp

/-- the first buffer ended inside the look-ahead; the rest of the member continues from there -/
theorem spec_after_partial (s s1 : State) (o1 : List Nat) (nsp0 nspA : NewStreamData) (b y acc : List Nat) (R : Run)
    (hp : s.new_stream_pending = some nsp0) (hw : nsp0.num_bytes_written = none)
    (hf : flushPreviousStream s [] 1 = ok (s1, o1, SUCCESS)) (hsan1 : s1.last_byte_sanitized = true)
    (hl : headerLoop nsp0 b 0 = ok (nspA, b.length))
    (h : MemberSpec { s1 with new_stream_pending := some nspA } y (acc ++ o1) R) :
    MemberSpec s (b ++ y) acc R := by
  have hfA := flush_sanitized { s1 with new_stream_pending := some nspA } [] 1 hsan1
  cases h with
  | failed nsp0' s1' o1' hp' hw' hf' hR => rw [hfA] at hf'; simp at hf'
  | partly nsp0' s1' o1' nspY j hp' hw' hf' hl' hins hR =>
    simp only [Option.some.injEq] at hp'; subst hp'
    rw [hfA] at hf'; simp only [Outcome.ok.injEq, Prod.mk.injEq] at hf'; obtain ⟨rfl, rfl, _⟩ := hf'
    exact MemberSpec.partly nsp0 s1 o1 nspY (b.length + j) hp hw hf (headerLoop_extend _ _ _ _ _ _ hl hl') hins
      (by rw [hR]; simp)
  | rejected nsp0' s1' o1' nspY j c hp' hw' hf' hl' hsuf hh hR =>
    simp only [Option.some.injEq] at hp'; subst hp'
    rw [hfA] at hf'; simp only [Outcome.ok.injEq, Prod.mk.injEq] at hf'; obtain ⟨rfl, rfl, _⟩ := hf'
    exact MemberSpec.rejected nsp0 s1 o1 nspY (b.length + j) c hp hw hf (headerLoop_extend _ _ _ _ _ _ hl hl') hsuf hh
      (by rw [hR]; simp)
  | accepted nsp0' s1' o1' nspF j s' n' q w plan run =>
    have hp' := plan.pending
    simp only [Option.some.injEq] at hp'; subst hp'
    have hf' := plan.strip
    rw [hfA] at hf'; simp only [Outcome.ok.injEq, Prod.mk.injEq] at hf'; obtain ⟨rfl, rfl, _⟩ := hf'
    refine MemberSpec.accepted nsp0 s1 o1 nspF (b.length + j) s' n' q w
      ⟨hp, hw, hf, headerLoop_extend _ _ _ _ _ _ hl plan.look, plan.suff, plan.head, plan.written⟩
      ⟨?_, run.code, run.pending, ?_, run.inv, run.ws⟩
    · rw [run.cons]; unfold planOwed; rw [drop_append_len]; simp [List.append_assoc]
    · rw [run.len]; simp only [List.length_append]; congr 2; omega

/-- the first buffer completed the header; the remaining buffers are pass-through -/
theorem spec_after_accept (s : State) (b fl acc : List Nat) (r R : Run) (nsp0 : NewStreamData) (s1 : State)
    (o1 : List Nat) (nspF : NewStreamData) (k : Nat) (s' : State) (n' : NewStreamData) (q : List Nat) (w : Nat)
    (plan : HdrPlan s b nsp0 s1 o1 nspF k s' n' q w) (hk : k ≤ b.length)
    (run : MemberRun acc o1 q n' w b k s' r) (hR : RunCons r.st fl r.emitted R) :
    MemberSpec s (b ++ fl) acc R := by
  refine MemberSpec.accepted nsp0 s1 o1 nspF k s' n' q w
    ⟨plan.pending, plan.fresh, plan.strip, headerLoop_extend_suff _ _ _ _ _ plan.look plan.suff, plan.suff,
      plan.head, plan.written⟩
    ⟨?_, hR.code, hR.pending, ?_, hR.inv, by rw [hR.ws, run.ws]⟩
  · rw [hR.cons, run.cons]
    unfold planOwed
    rw [List.drop_append_of_le_length hk]
    simp [List.append_assoc]
  · rw [hR.len]
    have hb : baseLen r.st = r.st.last_bytes_len := by unfold baseLen; rw [run.pending]
    rw [hb, run.len]
    simp only [List.length_append]
    omega

theorem runAll_spec (fuel : Nat) : ∀ (bufs : List (List Nat)) (s : State) (caps acc : List Nat) (R : Run),
    Inv s → Started s → HeaderPhase s → bufs ≠ [] → runAll fuel s bufs caps acc = some R →
    MemberSpec s bufs.flatten acc R := by
  intro bufs
  induction bufs with
  | nil => intro s caps acc R _ _ _ hne; exact absurd rfl hne
  | cons b bs ih =>
    intro s caps acc R hI hS hph _ h
    unfold runAll at h
    cases hf : feedBuffer fuel s b caps acc with
    | none => rw [hf] at h; simp at h
    | some r =>
      rw [hf] at h
      dsimp only at h
      have hspec := feedBuffer_spec fuel s b caps acc r hI hS hph hf
      simp only [List.flatten_cons]
      cases hspec with
      | failed nsp0 s1 o1 hp hw hfl hR =>
        have hterm : isTerminal r.code = true := by rw [hR]; rfl
        rw [hterm] at h
        simp only [if_true, Option.some.injEq] at h
        subst h
        exact MemberSpec.failed nsp0 s1 o1 hp hw hfl hR
      | rejected nsp0 s1 o1 nspX k c hp hw hfl hl hsuf hh hR =>
        have hcode := shiftHead_inl_code _ _ c hh
        have hterm : isTerminal r.code = true := by
          rw [hR]; rcases hcode with e | e | e <;> rw [e] <;> rfl
        rw [hterm] at h
        simp only [if_true, Option.some.injEq] at h
        subst h
        exact MemberSpec.rejected nsp0 s1 o1 nspX k c hp hw hfl
          (headerLoop_extend_suff _ _ _ _ _ hl hsuf) hsuf hh hR
      | partly nsp0 s1 o1 nspA k hp hw hfl hl hins hR =>
        have hnt : isTerminal r.code = false := by rw [hR]; rfl
        rw [hnt] at h
        simp only [Bool.false_eq_true, if_false] at h
        obtain ⟨_, hkb⟩ := feedBuffer_partial fuel s b caps acc r nsp0 s1 o1 nspA k hp hw hfl hl hins hI hf
        subst hkb
        have hfi := flush_inv s [] 1 hI (Nat.zero_le _) (by rw [hp]; rfl)
        rw [hfl, sat_ok] at hfi
        obtain ⟨hfp, hI1⟩ := hfi
        have hsan1 : s1.last_byte_sanitized = true := hfp.sanit rfl
        have hp1 : s1.new_stream_pending = some nsp0 := by rw [← hp]; exact hfp.pending
        obtain ⟨hr50, _⟩ := hI.pend nsp0 hp
        have hls := headerLoop_sat b nsp0 0 hr50
        rw [hl, sat_ok] at hls
        have hwA : nspA.num_bytes_written = none := by rw [hls.1]; exact hw
        cases bs with
        | nil =>
          simp only [runAll, Option.some.injEq] at h
          simp only [List.flatten_nil, List.append_nil]
          refine MemberSpec.partly nsp0 s1 o1 nspA b.length hp hw hfl hl hins ?_
          rw [← h, hR]
        | cons b2 bs2 =>
          rw [hR] at h
          dsimp only at h
          have hIA : Inv { s1 with new_stream_pending := some nspA } :=
            Inv.with_pending hI1 nspA (by rw [hp1]; rfl) hls.2.1 hwA
          have hSA : Started { s1 with new_stream_pending := some nspA } := fun _ => rfl
          have := ih { s1 with new_stream_pending := some nspA } [] (acc ++ o1) R hIA hSA ⟨nspA, rfl, hwA⟩
            (by simp) h
          exact spec_after_partial s s1 o1 nsp0 nspA b _ acc R hp hw hfl hsan1 hl this
      | accepted nsp0 s1 o1 nspF k s' n' q w plan run =>
        have hnt : isTerminal r.code = false := by rw [run.code]; decide
        rw [hnt] at h
        simp only [Bool.false_eq_true, if_false] at h
        obtain ⟨hr50, _⟩ := hI.pend nsp0 plan.pending
        have hls := headerLoop_sat b nsp0 0 hr50
        rw [plan.look, sat_ok] at hls
        have hkb : k ≤ b.length := by simpa using hls.2.2.2.1
        cases bs with
        | nil =>
          simp only [runAll, Option.some.injEq] at h
          simp only [List.flatten_nil, List.append_nil]
          have : R = r := by
            rw [← h]; cases r; simp only [Run.mk.injEq, true_and]; exact ⟨run.code.symm, trivial⟩
          rw [this]
          exact MemberSpec.accepted nsp0 s1 o1 nspF k s' n' q w plan run
        | cons b2 bs2 =>
          -- the rest is pass-through
          have hfi := flush_inv s [] 1 hI (Nat.zero_le _) (by rw [plan.pending]; rfl)
          rw [plan.strip, sat_ok] at hfi
          have hI2 : Inv { s1 with new_stream_pending := some nspF } :=
            Inv.with_pending hfi.2 nspF (by rw [hfi.1.pending, plan.pending]; rfl) hls.2.1
              (by rw [hls.1]; exact plan.fresh)
          obtain ⟨_, _, _, _, hwsne, _⟩ := shiftHead_inr _ nspF s' n' q hI2 hls.2.1 plan.suff plan.head
          have hS' : Started r.st := fun e => by rw [run.ws] at e; exact absurd e hwsne
          have hR := runAll_cons fuel (b2 :: bs2) r.st [] r.emitted R run.inv hS' (Or.inl run.pending) (by simp) h
          exact spec_after_accept s b _ acc r R nsp0 s1 o1 nspF k s' n' q w plan hkb run hR

/-- FULL schedule independence for a member from its header phase on -/
theorem member_slicing_irrelevant (f1 f2 : Nat) (s : State) (bufs1 bufs2 : List (List Nat))
    (caps1 caps2 acc : List Nat) (R1 R2 : Run) (hI : Inv s) (hS : Started s) (hph : HeaderPhase s)
    (hne1 : bufs1 ≠ []) (hne2 : bufs2 ≠ []) (hsame : bufs1.flatten = bufs2.flatten)
    (h1 : runAll f1 s bufs1 caps1 acc = some R1) (h2 : runAll f2 s bufs2 caps2 acc = some R2) :
    ObsEq R1 R2 := by
  have c1 := runAll_spec f1 bufs1 s caps1 acc R1 hI hS hph hne1 h1
  have c2 := runAll_spec f2 bufs2 s caps2 acc R2 hI hS hph hne2 h2
  rw [hsame] at c1
  exact memberSpec_unique s _ acc R1 R2 c1 c2

end BV.Concat
