/-
C01 / fragment writers, part 7: tools for `BuildAndStoreCommandPrefixCode` (two-pass):
* order embedding (`canon_embed`): the RFC canonical code of a symbol depends only on the non-zero lengths and
  their order, not on where the zero entries are;
* naturality of the `memcpy` / scatter steps (`q1Perm_map`, `q1Bits_map`, `q1Scatter_map`): they only MOVE
  entries, so what they do to an arbitrary depth array is what they do to the array of labels 0..127
  (`perm_labels`, `scatter_labels`, `bits_labels`: kernel-evaluated), mapped through the array.
-/
import BV.Lemmas.FragmentBlock
namespace BV.Fragment
open BV.Bits BV.Huffman
open BV.Lemmas.HuffmanCanon (canonicalCodes_getD countLen_append)

/-- the non-zero entries, in order -/
def nz (l : List Nat) : List Nat := l.filter (· ≠ 0)

theorem countLen_nz (l : List Nat) (k : Nat) (hk : k ≠ 0) : countLen l k = countLen (nz l) k := by
  unfold countLen nz
  rw [List.filter_filter]
  congr 1
  apply List.filter_congr
  intro x _
  by_cases h : x = k
  · subst h; simp [hk]
  · simp [h]

theorem firstCode_nz (a b : List Nat) (h : nz a = nz b) : ∀ l, firstCode a l = firstCode b l := by
  intro l
  induction l with
  | zero => rfl
  | succ l ih =>
    unfold firstCode
    rw [ih]
    by_cases h0 : l = 0
    · simp [h0]
    · simp only [h0, if_false]
      rw [countLen_nz a l h0, countLen_nz b l h0, h]

/-- **order embedding**: two length vectors with the same non-zero entries in the same order give a
symbol the same canonical code, wherever the zero entries are -/
theorem canon_embed (a b : List Nat) (i j : Nat) (hi : i < a.length) (hj : j < b.length)
    (hall : nz a = nz b) (hpre : nz (a.take i) = nz (b.take j)) (hv : a.getD i 0 = b.getD j 0) :
    (canonicalCodes a).getD i 0 = (canonicalCodes b).getD j 0 := by
  rw [canonicalCodes_getD a i hi, canonicalCodes_getD b j hj, hv]
  by_cases h0 : b.getD j 0 = 0
  · rw [if_pos h0, if_pos h0]
  · rw [if_neg h0, if_neg h0, firstCode_nz a b hall, countLen_nz _ _ h0, countLen_nz (b.take j) _ h0, hpre]

theorem kraftSum_nz (L : Nat) (l : List Nat) : kraftSum L l = kraftSum L (nz l) := by
  unfold kraftSum nz
  induction l with
  | nil => rfl
  | cons x xs ih =>
    by_cases h : x = 0
    · subst h
      simp [ih]
    · simp [h, ih]

theorem nz_length_eq (l : List Nat) : (nz l).length = (l.filter (· ≠ 0)).length := rfl

/-- entries that a gather maps to zero can be dropped from the index list -/
theorem nz_map_filter (f : Nat → Nat) (p : Nat → Bool) : ∀ (l : List Nat), (∀ k ∈ l, p k = false → f k = 0) →
    nz (l.map f) = nz ((l.filter p).map f)
  | [], _ => rfl
  | k :: ks, h => by
    have ih := nz_map_filter f p ks (fun x hx => h x (List.mem_cons_of_mem _ hx))
    by_cases hp : p k = true
    · simp only [List.map_cons, List.filter_cons, hp, if_true]
      unfold nz at ih ⊢
      simp only [List.filter_cons, ih]
    · have hp' : p k = false := by simpa using hp
      have hz := h k (by simp) hp'
      simp only [List.map_cons, List.filter_cons, hp', Bool.false_eq_true, if_false]
      unfold nz at ih ⊢
      simp only [List.filter_cons, hz, ne_eq, not_true_eq_false, decide_false, Bool.false_eq_true, if_false, ih]

theorem memcpyL_map (f : Nat → Nat) (dst : List Nat) (dOff : Nat) (src : List Nat) (sOff n : Nat) (r : List Nat)
    (h : memcpyL dst dOff src sOff n = .ok r) :
    memcpyL (dst.map f) dOff (src.map f) sOff n = .ok (r.map f) := by
  unfold memcpyL at h ⊢
  simp only [List.length_map]
  split at h
  · cases h
  · rename_i hc
    rw [if_neg hc]
    injection h with h
    subst h
    simp [List.map_append, List.map_take, List.map_drop]

theorem getAt_map (f : Nat → Nat) (l : List Nat) (i v : Nat) (h : getAt l i = .ok v) :
    getAt (l.map f) i = .ok (f v) := by
  unfold getAt at h ⊢
  rw [List.getElem?_map]
  cases hl : l[i]? with
  | none => rw [hl] at h; cases h
  | some x => rw [hl] at h; injection h with h; subst h; rfl

theorem setAt_map (f : Nat → Nat) (l : List Nat) (i v : Nat) (r : List Nat) (h : setAt l i v = .ok r) :
    setAt (l.map f) i (f v) = .ok (r.map f) := by
  unfold setAt at h ⊢
  rw [List.length_map]
  split at h
  · rename_i hc
    rw [if_pos hc]
    injection h with h
    subst h
    rw [List.map_set]
  · cases h

theorem bind_ok_iff {α β : Type} (x : Out α) (g : α → Out β) (b : β) :
    (x >>= g) = .ok b ↔ ∃ a, x = .ok a ∧ g a = .ok b := by
  cases x <;> simp

theorem scatter8_map (f : Nat → Nat) (base : Nat) (src : List Nat) (off : Nat) :
    ∀ (k : Nat) (dst r : List Nat), scatter8 dst base src off k = .ok r →
      scatter8 (dst.map f) base (src.map f) off k = .ok (r.map f)
  | 0, dst, r, h => by
    simp only [scatter8] at h ⊢
    injection h with h; subst h; rfl
  | k + 1, dst, r, h => by
    simp only [scatter8] at h ⊢
    obtain ⟨d1, h1, h⟩ := (bind_ok_iff _ _ _).mp h
    obtain ⟨v, h2, h3⟩ := (bind_ok_iff _ _ _).mp h
    rw [scatter8_map f base src off k dst d1 h1, bind_ok', getAt_map f src _ v h2, bind_ok']
    exact setAt_map f d1 _ v r h3

theorem q1Perm_map (f : Nat → Nat) (depth cd r : List Nat) (h : q1Perm depth cd = .ok r) :
    q1Perm (depth.map f) (cd.map f) = .ok (r.map f) := by
  unfold q1Perm at h ⊢
  obtain ⟨c1, h1, h⟩ := (bind_ok_iff _ _ _).mp h
  obtain ⟨c2, h2, h⟩ := (bind_ok_iff _ _ _).mp h
  obtain ⟨c3, h3, h⟩ := (bind_ok_iff _ _ _).mp h
  obtain ⟨c4, h4, h⟩ := (bind_ok_iff _ _ _).mp h
  obtain ⟨c5, h5, h⟩ := (bind_ok_iff _ _ _).mp h
  rw [memcpyL_map f _ _ _ _ _ _ h1, bind_ok', memcpyL_map f _ _ _ _ _ _ h2, bind_ok',
    memcpyL_map f _ _ _ _ _ _ h3, bind_ok', memcpyL_map f _ _ _ _ _ _ h4, bind_ok',
    memcpyL_map f _ _ _ _ _ _ h5, bind_ok', memcpyL_map f _ _ _ _ _ _ h]

theorem q1Bits_map (f : Nat → Nat) (bits cb r : List Nat) (h : q1Bits bits cb = .ok r) :
    q1Bits (bits.map f) (cb.map f) = .ok (r.map f) := by
  unfold q1Bits at h ⊢
  obtain ⟨c1, h1, h⟩ := (bind_ok_iff _ _ _).mp h
  obtain ⟨c2, h2, h⟩ := (bind_ok_iff _ _ _).mp h
  obtain ⟨c3, h3, h⟩ := (bind_ok_iff _ _ _).mp h
  obtain ⟨c4, h4, h⟩ := (bind_ok_iff _ _ _).mp h
  obtain ⟨c5, h5, h⟩ := (bind_ok_iff _ _ _).mp h
  rw [memcpyL_map f _ _ _ _ _ _ h1, bind_ok', memcpyL_map f _ _ _ _ _ _ h2, bind_ok',
    memcpyL_map f _ _ _ _ _ _ h3, bind_ok', memcpyL_map f _ _ _ _ _ _ h4, bind_ok',
    memcpyL_map f _ _ _ _ _ _ h5, bind_ok', memcpyL_map f _ _ _ _ _ _ h]

theorem q1Scatter_map (f : Nat → Nat) (depth cd z64 r : List Nat) (h : q1Scatter depth cd z64 = .ok r) :
    q1Scatter (depth.map f) (cd.map f) (z64.map f) = .ok (r.map f) := by
  unfold q1Scatter at h ⊢
  simp only [] at h ⊢
  obtain ⟨c1, h1, h⟩ := (bind_ok_iff _ _ _).mp h
  obtain ⟨c2, h2, h⟩ := (bind_ok_iff _ _ _).mp h
  obtain ⟨c3, h3, h⟩ := (bind_ok_iff _ _ _).mp h
  obtain ⟨c4, h4, h⟩ := (bind_ok_iff _ _ _).mp h
  obtain ⟨c5, h5, h⟩ := (bind_ok_iff _ _ _).mp h
  obtain ⟨c6, h6, h⟩ := (bind_ok_iff _ _ _).mp h
  obtain ⟨c7, h7, h⟩ := (bind_ok_iff _ _ _).mp h
  have e : z64.map f ++ (cd.map f).drop 64 = (z64 ++ cd.drop 64).map f := by
    rw [List.map_append, List.map_drop]
  rw [e, memcpyL_map f _ _ _ _ _ _ h1, bind_ok', memcpyL_map f _ _ _ _ _ _ h2, bind_ok',
    memcpyL_map f _ _ _ _ _ _ h3, bind_ok', memcpyL_map f _ _ _ _ _ _ h4, bind_ok',
    memcpyL_map f _ _ _ _ _ _ h5, bind_ok', scatter8_map f _ _ _ _ _ _ h6, bind_ok',
    scatter8_map f _ _ _ _ _ _ h7, bind_ok', scatter8_map f _ _ _ _ _ _ h]

/-! ### the index lists (labels: entry `k < 128` of the depth array; 128 = "zero") -/

/-- `cmd_depth[0..64]` for the bit patterns: which command code sits at each position -/
def idxP : List Nat :=
  List.range' 24 24 ++ List.range' 0 8 ++ List.range' 48 8 ++ List.range' 8 8 ++ List.range' 56 8 ++ List.range' 16 8

/-- which command code the stored 704-entry vector holds at symbol `s` (128 = none) -/
def invSym (s : Nat) : Nat :=
  if s < 8 then 24 + s
  else if 64 ≤ s ∧ s < 72 then 32 + (s - 64)
  else if s = 128 then 0
  else if 128 < s ∧ s < 136 then 40 + (s - 128)
  else if 136 ≤ s ∧ s < 192 ∧ s % 8 = 0 then (s - 128) / 8
  else if 192 ≤ s ∧ s < 200 then 48 + (s - 192)
  else if 256 ≤ s ∧ s < 320 ∧ s % 8 = 0 then 8 + (s - 256) / 8
  else if 384 ≤ s ∧ s < 392 then 56 + (s - 384)
  else if 448 ≤ s ∧ s < 512 ∧ s % 8 = 0 then 16 + (s - 448) / 8
  else 128

/-- `bits[0..64]`: which position of the permuted bit patterns each command code reads -/
def idxB : List Nat :=
  List.range' 24 8 ++ List.range' 40 8 ++ List.range' 56 8 ++ List.range' 0 24 ++ List.range' 32 8 ++ List.range' 48 8

theorem perm_labels : q1Perm (List.range 128) (List.replicate 704 128) = .ok (idxP ++ List.replicate 640 128) := by
  decide +kernel

theorem scatter_labels : q1Scatter (List.range 128) (idxP ++ List.replicate 640 128) (List.replicate 64 128)
    = .ok ((List.range 704).map invSym) := by decide +kernel

theorem bits_labels : q1Bits (List.replicate 128 64) (List.range 64)
    = .ok (idxB ++ (List.range' 40 8 ++ List.replicate 56 64)) := by decide +kernel

end BV.Fragment
