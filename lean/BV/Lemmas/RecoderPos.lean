/-
C14, position bookkeeping without any assumption on the commands: `num_bytes_encoded` grows by exactly what
`mb_len` shrinks, in every branch of `process_command_queue` (copy, dictionary word, truncated dictionary word).
-/
import BV.Lemmas.RecoderSim
namespace BV.Recoder
open BV.PrefixArith

/-- what `copy_part` does to `mb_len`, for every branch (copy, dictionary word, truncated dictionary word) -/
theorem copyPart_len (e : Env) (cache : List Int) (interim : Pair) (mbLen : Nat) (out : List IR) (idx : Nat) (off : Int)
    (fd maxd copyLen actual mbLen' : Nat) (cache' : List Int) (out' : List IR)
    (hm : copyPart e cache interim mbLen out idx off fd maxd copyLen = some (actual, mbLen', cache', out')) :
    mbLen' + min actual mbLen = mbLen := by
  unfold copyPart at hm
  split at hm
  · split at hm
    · cases hm
    · simp only at hm
      split at hm
      · cases hm
      · split at hm
        · cases hm
        · split at hm
          · split at hm
            · cases hm; omega
            · cases hm
          · split at hm
            · cases hm; omega
            · cases hm; omega
  · simp only at hm
    cases hm
    omega

/-- invariant of the recoder loop that needs no well-formedness of the commands -/
structure Pos (mb : Bytes) (s : St) : Prop where
  rep : Rep mb s.iter (mb.length - s.mbLen)
  iterLen : s.iter.len = s.mbLen
  le : s.mbLen ≤ mb.length

theorem rep_empty_tail (mb : Bytes) (p : Pair) (c : Nat) (hl : p.len = 0) (hc : c ≤ mb.length) : Rep mb p c := by
  have ha : p.a.data = [] := List.length_eq_zero_iff.mp (by unfold Pair.len at hl; omega)
  have hb : p.b.data = [] := List.length_eq_zero_iff.mp (by unfold Pair.len at hl; omega)
  exact ⟨by simp [Pair.bytes, ha, hb, hl], by omega, fun h => absurd ha h, fun h => absurd hb h⟩

/-- **position bookkeeping of one iteration, for EVERY command** (no assumption on the command, the block
splits or the dictionary): `num_bytes_encoded` grows by exactly what `mb_len` shrinks -/
theorem step_position (mb : Bytes) (h32 : mb.length < 2 ^ 32) (e : Env) (s s' : St) (cmd : Cmd)
    (hp : Pos mb s) (hm : step e s cmd = some s') :
    Pos mb s' ∧ s'.nbe + s'.mbLen = s.nbe + s.mbLen := by
  have hk : min (cmd.insertLen % 2 ^ 32) s.mbLen ≤ s.iter.len := by rw [hp.iterLen]; omega
  generalize hkd : min (cmd.insertLen % 2 ^ 32) s.mbLen = k at *
  obtain ⟨rIns, rInt⟩ := hp.rep.splitAt k hk
  obtain ⟨lIns, lInt⟩ := s.iter.splitAt_len k
  have lIns' : (s.iter.splitAt k).1.len = k := by rw [lIns]; omega
  unfold step at hm
  simp only [hkd] at hm
  cases hdi : distanceIndexAndOffset cmd e.dp with
  | none => rw [hdi] at hm; cases hm
  | some io =>
    obtain ⟨idx, off⟩ := io
    rw [hdi] at hm
    simp only at hm
    cases hfd : finalDistance s.cache idx off with
    | none => rw [hfd] at hm; cases hm
    | some fd =>
      rw [hfd] at hm
      simp only at hm
      split at hm
      · cases hm
      cases hlp : litPart e s (s.iter.splitAt k).1 with
      | none => rw [hlp] at hm; cases hm
      | some lp =>
        obtain ⟨lsub, lc, mbLen1, out1⟩ := lp
        rw [hlp] at hm
        simp only at hm
        obtain ⟨_, _, em1, _⟩ := litPart_spec (fun _ _ _ => none) 0 mb h32 e s _ _ lsub lc mbLen1 out1 rIns hlp
        rw [lIns'] at em1
        cases hcp : copyPart e s.cache (s.iter.splitAt k).2 mbLen1 out1 idx off fd
            (min (s.nbe + (s.iter.splitAt k).1.len) (windowSize e.lgwin)) (copyLenCode cmd.copyLenField) with
        | none => rw [hcp] at hm; cases hm
        | some cp =>
          obtain ⟨actual, mbLen2, cache2, out2⟩ := cp
          rw [hcp] at hm
          simp only at hm
          have hlen2 := copyPart_len e _ _ _ _ _ _ _ _ _ _ _ _ _ hcp
          cases hb1 : bumpBlock e.btc IR.bsc s.csub s.cc out2 with
          | none => rw [hb1] at hm; cases hm
          | some b1 =>
            obtain ⟨csub, cc, out3⟩ := b1
            rw [hb1] at hm
            simp only at hm
            cases hb2 : (if copyLenCode cmd.copyLenField ≠ 0 ∧ cmd.cmdPrefix ≥ 128 then bumpBlock e.btd IR.bsd s.dsub s.dc out3
                else some (s.dsub, s.dc, out3)) with
            | none => rw [hb2] at hm; cases hm
            | some b2 =>
              obtain ⟨dsub, dc, out4⟩ := b2
              rw [hb2] at hm
              simp only at hm
              cases hm
              have hint : (s.iter.splitAt k).2.len = mbLen1 := by rw [lInt, hp.iterLen]; omega
              obtain ⟨lC, lR⟩ := (s.iter.splitAt k).2.splitAt_len actual
              have hle := hp.le
              refine ⟨⟨?_, ?_, ?_⟩, ?_⟩
              · show Rep mb ((s.iter.splitAt k).2.splitAt actual).2 (mb.length - mbLen2)
                by_cases hact : actual ≤ (s.iter.splitAt k).2.len
                · have := (rInt.splitAt actual hact).2
                  have e1 : mb.length - s.mbLen + k + actual = mb.length - mbLen2 := by omega
                  rw [e1] at this
                  exact this
                · exact rep_empty_tail mb _ _ (by rw [lR]; omega) (by omega)
              · show ((s.iter.splitAt k).2.splitAt actual).2.len = mbLen2
                rw [lR, hint]; omega
              · show mbLen2 ≤ mb.length
                omega
              · show s.nbe + (s.iter.splitAt k).1.len + ((s.iter.splitAt k).2.splitAt actual).1.len + mbLen2 = s.nbe + s.mbLen
                rw [lIns', lC, hint]; omega

theorem stepAll_position (mb : Bytes) (h32 : mb.length < 2 ^ 32) (e : Env) :
    ∀ (cmds : List Cmd) (s s' : St), Pos mb s → stepAll e s cmds = some s' →
      Pos mb s' ∧ s'.nbe + s'.mbLen = s.nbe + s.mbLen := by
  intro cmds
  induction cmds with
  | nil => intro s s' hp hm; simp [stepAll] at hm; subst hm; exact ⟨hp, rfl⟩
  | cons c cs ih =>
    intro s s' hp hm
    unfold stepAll at hm
    cases h1 : step e s c with
    | none => rw [h1] at hm; cases hm
    | some s1 =>
      rw [h1] at hm
      obtain ⟨p1, e1⟩ := step_position mb h32 e s s1 c hp h1
      obtain ⟨p2, e2⟩ := ih s1 s' p1 hm
      exact ⟨p2, by omega⟩

end BV.Recoder
