import BV.Model.Adapters
/-
Facts about the scripted wrapped streams (`retryCall`, `Sink.write`, `Source.read`) and about
`write_all` of writer.rs.  No oracle involved.
-/
namespace BV.Adapters

/-- a log entry that records a hard error, or a zero-length answer to a non-empty write -/
def LogE.faulty (e : LogE) : Bool :=
  match e.res with
  | .err _ => true
  | .n 0 => e.kind == 0 && e.req != 0
  | _ => false

def Beh.faultFree : Beh → Bool
  | .full => true
  | .atMost k => k != 0
  | .intr => true
  | .err _ => false
  | .zero => false

def Tail.faultFree : Tail → Bool
  | .full => true
  | .atMost k => k != 0
  | .err _ => false
  | .zero => false

/-- a wrapped writer that may be slow (short writes, `Interrupted`) but never fails and never
answers `Ok(0)` -/
def Sink.faultFree (s : Sink) : Prop := (∀ b ∈ s.script, b.faultFree = true) ∧ s.tail.faultFree = true

/-! ### retryCall -/

theorem retryCall_le (tail : Tail) (kind req avail : Nat) (script : List Beh) (log : List LogE) :
    ∀ k, (retryCall tail kind req avail script log).2.2 = .ok k → k ≤ avail := by
  induction script generalizing log with
  | nil =>
    intro k h
    cases tail <;> simp [retryCall, tailRes] at h <;> omega
  | cons b rest ih =>
    intro k h
    cases b with
    | full => simp [retryCall, behRes] at h; omega
    | atMost m => simp [retryCall, behRes] at h; omega
    | intr => simp only [retryCall, behRes] at h; exact ih _ k h
    | err c => simp [retryCall, behRes] at h
    | zero => simp [retryCall, behRes] at h; omega

/-- the log only grows, by entries of this call: zero or more `intr`, then the final answer -/
theorem retryCall_log (tail : Tail) (kind req avail : Nat) (script : List Beh) (log : List LogE) :
    ∃ pre : List LogE,
      (retryCall tail kind req avail script log).2.1 =
        ⟨kind, req, exceptToRes (retryCall tail kind req avail script log).2.2⟩ :: (pre ++ log) ∧
      ∀ e ∈ pre, e = ⟨kind, req, .intr⟩ := by
  induction script generalizing log with
  | nil => exact ⟨[], by simp [retryCall], by simp⟩
  | cons b rest ih =>
    cases b with
    | full => exact ⟨[], by simp [retryCall, behRes, exceptToRes], by simp⟩
    | atMost m => exact ⟨[], by simp [retryCall, behRes, exceptToRes], by simp⟩
    | err c => exact ⟨[], by simp [retryCall, behRes, exceptToRes], by simp⟩
    | zero => exact ⟨[], by simp [retryCall, behRes, exceptToRes], by simp⟩
    | intr =>
      obtain ⟨pre, h1, h2⟩ := ih (⟨kind, req, .intr⟩ :: log)
      refine ⟨pre ++ [⟨kind, req, .intr⟩], ?_, ?_⟩
      · simp only [retryCall, behRes]
        rw [h1]; simp
      · intro e he
        rcases List.mem_append.mp he with h | h
        · exact h2 e h
        · simpa using h

/-- the remaining script is a suffix of the script -/
theorem retryCall_script (tail : Tail) (kind req avail : Nat) (script : List Beh) (log : List LogE) :
    ∃ used, script = used ++ (retryCall tail kind req avail script log).1 := by
  induction script generalizing log with
  | nil => exact ⟨[], by simp [retryCall]⟩
  | cons b rest ih =>
    cases b with
    | full => exact ⟨[.full], by simp [retryCall, behRes]⟩
    | atMost m => exact ⟨[.atMost m], by simp [retryCall, behRes]⟩
    | err c => exact ⟨[.err c], by simp [retryCall, behRes]⟩
    | zero => exact ⟨[.zero], by simp [retryCall, behRes]⟩
    | intr =>
      obtain ⟨used, h⟩ := ih (⟨kind, req, .intr⟩ :: log)
      refine ⟨.intr :: used, ?_⟩
      simp only [retryCall, behRes]
      rw [List.cons_append, ← h]

/-- over a fault-free script the call succeeds and moves at least one byte if it can -/
theorem retryCall_faultFree (tail : Tail) (kind req avail : Nat) (script : List Beh) (log : List LogE)
    (hs : ∀ b ∈ script, b.faultFree = true) (ht : tail.faultFree = true) (ha : 0 < avail) :
    ∃ k, (retryCall tail kind req avail script log).2.2 = .ok k ∧ 0 < k := by
  induction script generalizing log with
  | nil =>
    cases tail with
    | full => exact ⟨avail, by simp [retryCall, tailRes], ha⟩
    | atMost m =>
      have : m ≠ 0 := by simpa [Tail.faultFree] using ht
      exact ⟨min avail m, by simp [retryCall, tailRes], by omega⟩
    | err c => simp [Tail.faultFree] at ht
    | zero => simp [Tail.faultFree] at ht
  | cons b rest ih =>
    have hb := hs b (List.mem_cons_self ..)
    have hr : ∀ b ∈ rest, b.faultFree = true := fun b h => hs b (List.mem_cons_of_mem _ h)
    cases b with
    | full => exact ⟨avail, by simp [retryCall, behRes], ha⟩
    | atMost m =>
      have : m ≠ 0 := by simpa [Beh.faultFree] using hb
      exact ⟨min avail m, by simp [retryCall, behRes], by omega⟩
    | intr => simpa only [retryCall, behRes] using ih _ hr
    | err c => simp [Beh.faultFree] at hb
    | zero => simp [Beh.faultFree] at hb

/-! ### Sink.write -/

theorem Sink.write_le (s : Sink) (data : Bytes) :
    ∀ k, (s.write data).2 = .ok k → k ≤ data.length := by
  intro k h
  unfold Sink.write at h
  have hle := retryCall_le s.tail 0 data.length data.length s.script s.log
  split at h
  · next sc lg k' heq => simp at h; subst h; exact hle k' (by rw [heq])
  · next sc lg c heq => simp at h

/-- what a successful `write` does to the received bytes -/
theorem Sink.write_got_ok (s : Sink) (data : Bytes) (k : Nat) (h : (s.write data).2 = .ok k) :
    (s.write data).1.got = s.got ++ data.take k := by
  unfold Sink.write at h ⊢
  split
  · next sc lg k' heq => simp [heq] at h ⊢; subst h; rfl
  · next sc lg c heq => simp [heq] at h

theorem Sink.write_got_err (s : Sink) (data : Bytes) (c : Nat) (h : (s.write data).2 = .error c) :
    (s.write data).1.got = s.got := by
  unfold Sink.write at h ⊢
  split
  · next sc lg k' heq => simp [heq] at h
  · next sc lg c heq => rfl

theorem Sink.write_tail (s : Sink) (data : Bytes) : (s.write data).1.tail = s.tail := by
  unfold Sink.write; split <;> rfl

theorem Sink.write_fscript (s : Sink) (data : Bytes) : (s.write data).1.fscript = s.fscript := by
  unfold Sink.write; split <;> rfl

/-- the log grows by `intr` entries followed by the entry of the final answer -/
theorem Sink.write_log (s : Sink) (data : Bytes) :
    ∃ pre : List LogE,
      (s.write data).1.log =
        ⟨0, data.length, exceptToRes (s.write data).2⟩ :: (pre ++ s.log) ∧
      ∀ e ∈ pre, e = ⟨0, data.length, .intr⟩ := by
  obtain ⟨pre, h1, h2⟩ := retryCall_log s.tail 0 data.length data.length s.script s.log
  refine ⟨pre, ?_, h2⟩
  unfold Sink.write
  split
  · next sc lg k heq => simp only [heq] at h1; simpa using h1
  · next sc lg c heq => simp only [heq] at h1; simpa using h1

theorem Sink.write_faultFree (s : Sink) (data : Bytes) (hf : s.faultFree) :
    (s.write data).1.faultFree := by
  obtain ⟨used, hu⟩ := retryCall_script s.tail 0 data.length data.length s.script s.log
  constructor
  · intro b hb
    apply hf.1
    have : (s.write data).1.script = (retryCall s.tail 0 data.length data.length s.script s.log).1 := by
      unfold Sink.write; split <;> simp_all
    rw [hu]; rw [this] at hb
    exact List.mem_append_right _ hb
  · rw [Sink.write_tail]; exact hf.2

theorem Sink.write_faultFree_ok (s : Sink) (data : Bytes) (hf : s.faultFree) (hd : data ≠ []) :
    ∃ k, (s.write data).2 = .ok k ∧ 0 < k := by
  have hpos : 0 < data.length := List.length_pos_iff.mpr hd
  obtain ⟨k, hk, hk0⟩ := retryCall_faultFree s.tail 0 data.length data.length s.script s.log hf.1 hf.2 hpos
  refine ⟨k, ?_, hk0⟩
  unfold Sink.write
  split
  · next sc lg k' heq => simp [heq] at hk; simp [hk]
  · next sc lg c heq => simp [heq] at hk

/-- entries that are not faulty -/
theorem intr_not_faulty (kind req : Nat) : (LogE.faulty ⟨kind, req, .intr⟩) = false := rfl

end BV.Adapters
