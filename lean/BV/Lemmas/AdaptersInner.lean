import BV.Model.Adapters
/-
Facts about the scripted wrapped streams (`retryCall`, `Sink.write`, `Source.read`) and about
`write_all` of writer.rs.  No oracle involved.
-/
namespace BV.Adapters

/-- a log entry that records a hard error, or a zero-length answer to a non-empty write -/
def LogE.faulty (e : LogE) : Bool :=
  match e.res with
  | .err _ => true
  | .n 0 => e.kind == 0 && e.req != 0
  | _ => false

def Beh.faultFree : Beh → Bool
  | .full => true
  | .atMost k => k != 0
  | .intr => true
  | .err _ => false
  | .zero => false

def Tail.faultFree : Tail → Bool
  | .full => true
  | .atMost k => k != 0
  | .err _ => false
  | .zero => false

/-- a wrapped writer that may be slow (short writes, `Interrupted`) but never fails and never
answers `Ok(0)` -/
def Sink.faultFree (s : Sink) : Prop := (∀ b ∈ s.script, b.faultFree = true) ∧ s.tail.faultFree = true

/-! ### retryCall -/

theorem retryCall_le (tail : Tail) (kind req avail : Nat) (script : List Beh) (log : List LogE) :
    ∀ k, (retryCall tail kind req avail script log).2.2 = .ok k → k ≤ avail := by
  induction script generalizing log with
  | nil =>
    intro k h
    cases tail <;> simp [retryCall, tailRes] at h <;> omega
  | cons b rest ih =>
    intro k h
    cases b with
    | full => simp [retryCall, behRes] at h; omega
    | atMost m => simp [retryCall, behRes] at h; omega
    | intr => simp only [retryCall, behRes] at h; exact ih _ k h
    | err c => simp [retryCall, behRes] at h
    | zero => simp [retryCall, behRes] at h; omega

/-- the log only grows, by entries of this call: zero or more `intr`, then the final answer -/
theorem retryCall_log (tail : Tail) (kind req avail : Nat) (script : List Beh) (log : List LogE) :
    ∃ pre : List LogE,
      (retryCall tail kind req avail script log).2.1 =
        ⟨kind, req, exceptToRes (retryCall tail kind req avail script log).2.2⟩ :: (pre ++ log) ∧
      ∀ e ∈ pre, e = ⟨kind, req, .intr⟩ := by
  induction script generalizing log with
  | nil => exact ⟨[], by simp [retryCall], by simp⟩
  | cons b rest ih =>
    cases b with
    | full => exact ⟨[], by simp [retryCall, behRes, exceptToRes], by simp⟩
    | atMost m => exact ⟨[], by simp [retryCall, behRes, exceptToRes], by simp⟩
    | err c => exact ⟨[], by simp [retryCall, behRes, exceptToRes], by simp⟩
    | zero => exact ⟨[], by simp [retryCall, behRes, exceptToRes], by simp⟩
    | intr =>
      obtain ⟨pre, h1, h2⟩ := ih (⟨kind, req, .intr⟩ :: log)
      refine ⟨pre ++ [⟨kind, req, .intr⟩], ?_, ?_⟩
      · simp only [retryCall, behRes]
        rw [h1]; simp
      · intro e he
        rcases List.mem_append.mp he with h | h
        · exact h2 e h
        · simpa using h

/-- the remaining script is a suffix of the script -/
theorem retryCall_script (tail : Tail) (kind req avail : Nat) (script : List Beh) (log : List LogE) :
    ∃ used, script = used ++ (retryCall tail kind req avail script log).1 := by
  induction script generalizing log with
  | nil => exact ⟨[], by simp [retryCall]⟩
  | cons b rest ih =>
    cases b with
    | full => exact ⟨[.full], by simp [retryCall, behRes]⟩
    | atMost m => exact ⟨[.atMost m], by simp [retryCall, behRes]⟩
    | err c => exact ⟨[.err c], by simp [retryCall, behRes]⟩
    | zero => exact ⟨[.zero], by simp [retryCall, behRes]⟩
    | intr =>
      obtain ⟨used, h⟩ := ih (⟨kind, req, .intr⟩ :: log)
      refine ⟨.intr :: used, ?_⟩
      simp only [retryCall, behRes]
      rw [List.cons_append, ← h]

/-- over a fault-free script the call succeeds and moves at least one byte if it can -/
theorem retryCall_faultFree (tail : Tail) (kind req avail : Nat) (script : List Beh) (log : List LogE)
    (hs : ∀ b ∈ script, b.faultFree = true) (ht : tail.faultFree = true) (ha : 0 < avail) :
    ∃ k, (retryCall tail kind req avail script log).2.2 = .ok k ∧ 0 < k := by
  induction script generalizing log with
  | nil =>
    cases tail with
    | full => exact ⟨avail, by simp [retryCall, tailRes], ha⟩
    | atMost m =>
      have : m ≠ 0 := by simpa [Tail.faultFree] using ht
      exact ⟨min avail m, by simp [retryCall, tailRes], by omega⟩
    | err c => simp [Tail.faultFree] at ht
    | zero => simp [Tail.faultFree] at ht
  | cons b rest ih =>
    have hb := hs b (List.mem_cons_self ..)
    have hr : ∀ b ∈ rest, b.faultFree = true := fun b h => hs b (List.mem_cons_of_mem _ h)
    cases b with
    | full => exact ⟨avail, by simp [retryCall, behRes], ha⟩
    | atMost m =>
      have : m ≠ 0 := by simpa [Beh.faultFree] using hb
      exact ⟨min avail m, by simp [retryCall, behRes], by omega⟩
    | intr => simpa only [retryCall, behRes] using ih _ hr
    | err c => simp [Beh.faultFree] at hb
    | zero => simp [Beh.faultFree] at hb

/-! ### Sink.write -/

theorem Sink.write_le (s : Sink) (data : Bytes) :
    ∀ k, (s.write data).2 = .ok k → k ≤ data.length := by
  intro k h
  unfold Sink.write at h
  have hle := retryCall_le s.tail 0 data.length data.length s.script s.log
  split at h
  · next sc lg k' heq => simp at h; subst h; exact hle k' (by rw [heq])
  · next sc lg c heq => simp at h

/-- what a successful `write` does to the received bytes -/
theorem Sink.write_got_ok (s : Sink) (data : Bytes) (k : Nat) (h : (s.write data).2 = .ok k) :
    (s.write data).1.got = s.got ++ data.take k := by
  unfold Sink.write at h ⊢
  split
  · next sc lg k' heq => simp [heq] at h ⊢; subst h; rfl
  · next sc lg c heq => simp [heq] at h

theorem Sink.write_got_err (s : Sink) (data : Bytes) (c : Nat) (h : (s.write data).2 = .error c) :
    (s.write data).1.got = s.got := by
  unfold Sink.write at h ⊢
  split
  · next sc lg k' heq => simp [heq] at h
  · next sc lg c heq => rfl

theorem Sink.write_tail (s : Sink) (data : Bytes) : (s.write data).1.tail = s.tail := by
  unfold Sink.write; split <;> rfl

theorem Sink.write_fscript (s : Sink) (data : Bytes) : (s.write data).1.fscript = s.fscript := by
  unfold Sink.write; split <;> rfl

/-- the log grows by `intr` entries followed by the entry of the final answer -/
theorem Sink.write_log (s : Sink) (data : Bytes) :
    ∃ pre : List LogE,
      (s.write data).1.log =
        ⟨0, data.length, exceptToRes (s.write data).2⟩ :: (pre ++ s.log) ∧
      ∀ e ∈ pre, e = ⟨0, data.length, .intr⟩ := by
  obtain ⟨pre, h1, h2⟩ := retryCall_log s.tail 0 data.length data.length s.script s.log
  refine ⟨pre, ?_, h2⟩
  unfold Sink.write
  split
  · next sc lg k heq => simp only [heq] at h1; simpa using h1
  · next sc lg c heq => simp only [heq] at h1; simpa using h1

theorem Sink.write_faultFree (s : Sink) (data : Bytes) (hf : s.faultFree) :
    (s.write data).1.faultFree := by
  obtain ⟨used, hu⟩ := retryCall_script s.tail 0 data.length data.length s.script s.log
  constructor
  · intro b hb
    apply hf.1
    have : (s.write data).1.script = (retryCall s.tail 0 data.length data.length s.script s.log).1 := by
      unfold Sink.write; split <;> simp_all
    rw [hu]; rw [this] at hb
    exact List.mem_append_right _ hb
  · rw [Sink.write_tail]; exact hf.2

theorem Sink.write_faultFree_ok (s : Sink) (data : Bytes) (hf : s.faultFree) (hd : data ≠ []) :
    ∃ k, (s.write data).2 = .ok k ∧ 0 < k := by
  have hpos : 0 < data.length := List.length_pos_iff.mpr hd
  obtain ⟨k, hk, hk0⟩ := retryCall_faultFree s.tail 0 data.length data.length s.script s.log hf.1 hf.2 hpos
  refine ⟨k, ?_, hk0⟩
  unfold Sink.write
  split
  · next sc lg k' heq => simp [heq] at hk; simp [hk]
  · next sc lg c heq => simp [heq] at hk

/-- entries that are not faulty -/
theorem intr_not_faulty (kind req : Nat) : (LogE.faulty ⟨kind, req, .intr⟩) = false := rfl

/-! ### write_all (writer.rs) -/

theorem Sink.write_cases (s s' : Sink) (data : Bytes) (r : Except Nat Nat) (h : s.write data = (s', r)) :
    s'.tail = s.tail ∧ s'.fscript = s.fscript ∧
    (∃ pre, s'.log = ⟨0, data.length, exceptToRes r⟩ :: (pre ++ s.log) ∧ ∀ e ∈ pre, e = ⟨0, data.length, .intr⟩) ∧
    (match r with
     | .ok k => k ≤ data.length ∧ s'.got = s.got ++ data.take k
     | .error _ => s'.got = s.got) := by
  have h1 : (s.write data).1 = s' := by rw [h]
  have h2 : (s.write data).2 = r := by rw [h]
  refine ⟨?_, ?_, ?_, ?_⟩
  · rw [← h1, Sink.write_tail]
  · rw [← h1, Sink.write_fscript]
  · obtain ⟨pre, hp, hq⟩ := Sink.write_log s data
    exact ⟨pre, by rw [← h1, ← h2]; exact hp, hq⟩
  · cases r with
    | ok k => exact ⟨Sink.write_le s data k h2, by rw [← h1]; exact Sink.write_got_ok s data k h2⟩
    | error c => simp only; rw [← h1]; exact Sink.write_got_err s data c h2

theorem faulty_n_pos (kind req k : Nat) (hk : k ≠ 0) : LogE.faulty ⟨kind, req, .n k⟩ = false := by
  cases k with
  | zero => exact absurd rfl hk
  | succ n => rfl

/-- bytes accounted for by the `Ok(k)` entries of a log -/
def bytesOf : List LogE → Nat
  | [] => 0
  | e :: rest => (match e.res with | .n k => k | _ => 0) + bytesOf rest

/-- number of calls that were not `Interrupted` -/
def answered : List LogE → Nat
  | [] => 0
  | e :: rest => (match e.res with | .intr => 0 | _ => 1) + answered rest

theorem bytesOf_append (a b : List LogE) : bytesOf (a ++ b) = bytesOf a + bytesOf b := by
  induction a with
  | nil => simp [bytesOf]
  | cons e r ih => simp [bytesOf, ih]; omega

theorem answered_append (a b : List LogE) : answered (a ++ b) = answered a + answered b := by
  induction a with
  | nil => simp [answered]
  | cons e r ih => simp [answered, ih]; omega

theorem bytesOf_intr (pre : List LogE) (kind req : Nat) (h : ∀ e ∈ pre, e = ⟨kind, req, .intr⟩) :
    bytesOf pre = 0 ∧ answered pre = 0 := by
  induction pre with
  | nil => simp [bytesOf, answered]
  | cons e r ih =>
    have he := h e (List.mem_cons_self ..)
    have hr := ih (fun e' h' => h e' (List.mem_cons_of_mem _ h'))
    subst he
    simp [bytesOf, answered, hr.1, hr.2]

theorem writeAll_spec (ez ei : Bool) (s : Sink) (buf : Bytes) :
    ∃ (new : List LogE) (p : Bytes),
      (writeAll ez ei s buf).2.2.1.log = new ++ s.log ∧
      (writeAll ez ei s buf).2.2.1.got = s.got ++ p ∧ p <+: buf ∧
      (writeAll ez ei s buf).2.2.1.tail = s.tail ∧
      (writeAll ez ei s buf).2.2.1.fscript = s.fscript ∧
      bytesOf new = p.length ∧ answered new ≤ p.length + 1 ∧
      ((writeAll ez ei s buf).2.2.2 = .ok () → (ez = true ∨ ei = true) →
          p = buf ∧ (∀ e ∈ new, e.faulty = false) ∧
          (writeAll ez ei s buf).1 = ez ∧ (writeAll ez ei s buf).2.1 = ei) := by
  fun_induction writeAll ez ei s buf
  case case1 s => exact ⟨[], [], by simp [bytesOf, answered]⟩
  case case2 s buf hb s' c hx =>
    obtain ⟨ht, hf, ⟨pre, hl, hp⟩, hg⟩ := Sink.write_cases _ _ _ _ hx
    have hz := bytesOf_intr pre _ _ hp
    refine ⟨⟨0, buf.length, .err c⟩ :: pre, [], by simpa [exceptToRes] using hl, by simpa using hg, List.nil_prefix, ht, hf,
      by simp [bytesOf, hz.1], by simp [answered, hz.2], ?_⟩
    intro h; simp at h
  case case3 s buf hb s' k hx hk ih =>
    obtain ⟨ht, hf, ⟨pre, hl, hp⟩, hle, hg⟩ := Sink.write_cases _ _ _ _ hx
    obtain ⟨new', p', i1, i2, i3, i4, i5, ib, ia, i6⟩ := ih
    have hz := bytesOf_intr pre _ _ hp
    have hkpos : 0 < k := Nat.pos_of_ne_zero hk
    refine ⟨new' ++ ⟨0, buf.length, .n k⟩ :: pre, buf.take k ++ p', ?_, ?_, ?_, by rw [i4, ht], by rw [i5, hf], ?_, ?_, ?_⟩
    · rw [i1, hl]; simp [exceptToRes]
    · rw [i2, hg]; simp
    · have : buf = buf.take k ++ buf.drop k := (List.take_append_drop k buf).symm
      conv => rhs; rw [this]
      exact (List.prefix_append_right_inj _).mpr i3
    · rw [bytesOf_append]; simp [bytesOf, hz.1, ib, List.length_take]; omega
    · rw [answered_append]; simp [answered, hz.2, List.length_take]; omega
    · intro hok harm
      obtain ⟨j1, j2, j3, j4⟩ := i6 hok harm
      refine ⟨by rw [j1, List.take_append_drop], ?_, j3, j4⟩
      intro e he
      rcases List.mem_append.mp he with h | h
      · exact j2 e h
      · rcases List.mem_cons.mp h with h | h
        · subst h; exact faulty_n_pos _ _ _ hk
        · rw [hp e h]; rfl
  case case4 s buf hb s' k hx hk hez =>
    obtain ⟨ht, hf, ⟨pre, hl, hp⟩, hle, hg⟩ := Sink.write_cases _ _ _ _ hx
    have hk0 : k = 0 := by simpa using hk
    subst hk0
    have hz := bytesOf_intr pre _ _ hp
    refine ⟨⟨0, buf.length, .n 0⟩ :: pre, [], by simpa [exceptToRes] using hl, by simpa using hg, List.nil_prefix, ht, hf,
      by simp [bytesOf, hz.1], by simp [answered, hz.2], ?_⟩
    intro h; simp at h
  case case5 s buf hb s' k hx hk hez hei =>
    obtain ⟨ht, hf, ⟨pre, hl, hp⟩, hle, hg⟩ := Sink.write_cases _ _ _ _ hx
    have hk0 : k = 0 := by simpa using hk
    subst hk0
    have hz := bytesOf_intr pre _ _ hp
    refine ⟨⟨0, buf.length, .n 0⟩ :: pre, [], by simpa [exceptToRes] using hl, by simpa using hg, List.nil_prefix, ht, hf,
      by simp [bytesOf, hz.1], by simp [answered, hz.2], ?_⟩
    intro h; simp at h
  case case6 s buf hb s' k hx hk hez hei =>
    obtain ⟨ht, hf, ⟨pre, hl, hp⟩, hle, hg⟩ := Sink.write_cases _ _ _ _ hx
    have hk0 : k = 0 := by simpa using hk
    subst hk0
    have hz := bytesOf_intr pre _ _ hp
    refine ⟨⟨0, buf.length, .n 0⟩ :: pre, [], by simpa [exceptToRes] using hl, by simpa using hg, List.nil_prefix, ht, hf,
      by simp [bytesOf, hz.1], by simp [answered, hz.2], ?_⟩
    intro _ harm
    rcases harm with h | h
    · exact absurd h hez
    · exact absurd h hei
/-- over a wrapped writer that never fails `write_all` hands over everything, whatever the
state of the error slots -/
theorem writeAll_faultFree (ez ei : Bool) (s : Sink) (buf : Bytes) (hf : s.faultFree) :
    (writeAll ez ei s buf).1 = ez ∧ (writeAll ez ei s buf).2.1 = ei ∧
    (writeAll ez ei s buf).2.2.2 = .ok () ∧
    (writeAll ez ei s buf).2.2.1.got = s.got ++ buf ∧
    (writeAll ez ei s buf).2.2.1.faultFree := by
  fun_induction writeAll ez ei s buf
  case case1 s => simp [hf]
  case case2 s buf hb s' c hx =>
    obtain ⟨k, hk, _⟩ := Sink.write_faultFree_ok s buf hf hb
    rw [hx] at hk; simp at hk
  case case3 s buf hb s' k hx hk ih =>
    have hf' : s'.faultFree := by have := Sink.write_faultFree s buf hf; rwa [hx] at this
    obtain ⟨i1, i2, i3, i4, i5⟩ := ih hf'
    obtain ⟨_, _, _, hle, hg⟩ := Sink.write_cases _ _ _ _ hx
    refine ⟨i1, i2, i3, ?_, i5⟩
    rw [i4, hg, List.append_assoc, List.take_append_drop]
  case case4 s buf hb s' k hx hk hez =>
    obtain ⟨k', hk', hpos⟩ := Sink.write_faultFree_ok s buf hf hb
    rw [hx] at hk'; simp at hk'; omega
  case case5 s buf hb s' k hx hk hez hei =>
    obtain ⟨k', hk', hpos⟩ := Sink.write_faultFree_ok s buf hf hb
    rw [hx] at hk'; simp at hk'; omega
  case case6 s buf hb s' k hx hk hez hei =>
    obtain ⟨k', hk', hpos⟩ := Sink.write_faultFree_ok s buf hf hb
    rw [hx] at hk'; simp at hk'; omega

end BV.Adapters
