import BV.Lemmas.StreamRunFrame
/-
Framing per atomic step: `FrameInv` is preserved and the emitted bit stream grows by exactly
the bits of the step's event.
-/
namespace BV.Stream
open BV.Bits

theorem push_conserve' {s s' : St} {io io' : Io} {b : Bool} (hc : ¬ PadDue s)
    (h : injectFlushOrPushOutput s io = .ok (s', io', b)) :
    io'.out ++ s'.pending = io.out ++ s.pending ∧ s'.streamState = s.streamState
    ∧ s'.lastBytes = s.lastBytes ∧ s'.lastBytesBits = s.lastBytesBits
    ∧ s'.inputPos = s.inputPos ∧ s'.lastFlushPos = s.lastFlushPos := by
  unfold injectFlushOrPushOutput at h
  rw [if_neg (show ¬ (s.streamState = .flushRequested ∧ s.lastBytesBits ≠ 0) from hc)] at h
  simp only at h
  split_all h
  all_goals first
    | (simp at h; done)
    | (simp only [Out.ok.injEq, Prod.mk.injEq] at h; obtain ⟨rfl, rfl, rfl⟩ := h
       simp only [List.append_assoc, List.take_append_drop, and_self])

theorem fastStorage_fields (s : St) (ip : Bool) (n : Nat) :
    (fastStorage s ip n).pending = s.pending ∧ (fastStorage s ip n).lastBytes = s.lastBytes
    ∧ (fastStorage s ip n).lastBytesBits = s.lastBytesBits ∧ (fastStorage s ip n).streamState = s.streamState
    ∧ (fastStorage s ip n).inputPos = s.inputPos ∧ (fastStorage s ip n).lastFlushPos = s.lastFlushPos
    ∧ (fastStorage s ip n).nextOut = s.nextOut ∧ s.storageSize ≤ (fastStorage s ip n).storageSize
    ∧ (ip = false → n ≤ (fastStorage s ip n).storageSize) := by
  unfold fastStorage
  split
  · rename_i h; exact ⟨rfl, rfl, rfl, rfl, rfl, rfl, rfl, Nat.le_refl _, fun hh => by rw [h] at hh; cases hh⟩
  · obtain ⟨g1, g2, _, _, g5, g6, _, g8, g9, _, _, g12, g13⟩ := growStorage_frame s n
    rw [St.frame_eq_iff] at g1
    exact ⟨g5, g8, g9, g1.2.2.2.1, g1.2.1, g2, g6, g12, fun _ => g13⟩

theorem mdEnter_state (s : St) (n : Nat) :
    (mdEnter s n).streamState = if s.streamState = .processing then .metadataHead else s.streamState := by
  unfold mdEnter
  split <;> simp_all

theorem padToByte_aligned (w : Writer) : (padToByte w).length % 8 = 0 := by
  unfold padToByte
  rw [List.length_append, List.length_replicate]
  omega

theorem metadataHeaderBits_split (n : Nat) (hn : n ≤ 16777216) (s : St) :
    metadataHeaderBits n s.carry = s.carry ++ mdHeaderTail n s.lastBytesBits := by
  rw [metadataHeaderBits_eq n hn]
  unfold padToByte mdHeaderTail
  have hc : s.carry.length = s.lastBytesBits := by unfold St.carry; exact bitsOf_length _ _
  rw [List.length_append, hc, List.append_assoc]

/-- the emitted stream after one quality 0/1 block: the oracle's bits behind the carry, on either path -/
theorem emitted_fastEncode (d : Bytes) (s : St) (io : Io) (ans : Ans) (req : Req) (bs : Nat) (ip il ff : Bool)
    (hp : s.pending = []) :
    emitted (d ++ (fastEncode s io ans req bs ip il ff).2.out) (fastEncode s io ans req bs ip il ff).1
      = emitted (d ++ io.out) s ++ ans.bits := by
  have e0 : ∀ (x : Bytes) (t : St), emitted x t = bytesBits (x ++ t.pending) ++ bitsOf t.lastBytesBits t.lastBytes := fun _ _ => rfl
  rw [e0, e0, hp, List.append_nil]
  cases ip
  · simp only [fastEncode, Bool.false_eq_true, ↓reduceIte]
    rw [bytesBits_append, List.append_assoc, pack_unpack, List.append_assoc]
  · simp only [fastEncode, ↓reduceIte, hp, List.append_nil]
    rw [← List.append_assoc, bytesBits_append, List.append_assoc, pack_unpack, List.append_assoc]

theorem fastEncode_carryOK (s : St) (io : Io) (ans : Ans) (req : Req) (bs : Nat) (ip il ff : Bool) :
    CarryOK (fastEncode s io ans req bs ip il ff).1 := by
  unfold fastEncode
  cases ip
  · simp only [Bool.false_eq_true, ↓reduceIte]
    exact carryOK_of_carryOf rfl rfl
  · simp only [↓reduceIte]
    exact carryOK_of_carryOf rfl rfl

set_option maxRecDepth 4000 in
/-- **`FrameInv` is preserved by every atomic step** -/
theorem step_frameInv {o : Oracle} {op : Nat} {s s' : St} {io io' : Io} {e : Ev} (hF : FrameInv s)
    (h : Step o op (s, io) e (s', io')) : FrameInv s' := by
  cases h with
  | init hf => exact frameInv_fresh hf
  | copy hI hw hop hnf hst hrm hc hn h =>
    obtain ⟨_, _, _, _, c5, _, _, _, _, c10, c11, _⟩ := copy_fields hI.init h
    refine ⟨carryOK_eq hF.carry c10 c11, ?_⟩
    intro hb; rw [c5, hst] at hb; cases hb
  | pad hI hc hz h =>
    obtain ⟨nx, rfl⟩ := pad_result h
    refine ⟨by simp [CarryOK, padResult], ?_⟩
    intro hb
    have : (padResult s nx).streamState = s.streamState := rfl
    rw [this, hc.1] at hb; cases hb
  | push hI hc h =>
    obtain ⟨_, c2, c3, c4, c5, c6⟩ := push_conserve' hc h
    exact frameInv_of_eq hF c3 c4 c2 c5 c6
  | encSlow hI hop hnf hrm hnc hnp hpend hst hgo h =>
    obtain ⟨_, _, _, _, _, u6, _, _, u9, u10, _, _, _, u14, u15⟩ := updateSizeHint_fields s io.availIn
    have hc1 : CarryOK (updateSizeHint s io.availIn) := carryOK_eq hF.carry u15 u14
    have hc2 := encodeData_carryOK hc1 h
    obtain ⟨_, _, _, _, _, _, _, _, k9, k10⟩ := markAfterEncode_fields _ (slowIl op io) (slowFf op io)
    have klb : ∀ (t : St) (a b : Bool), (markAfterEncode t a b).lastBytes = t.lastBytes := by
      intro t a b; unfold markAfterEncode; cases a <;> cases b <;> rfl
    refine ⟨carryOK_eq hc2 (klb _ _ _) k9, ?_⟩
    intro hb
    rw [k10] at hb
    have hst2 := (encodeData_frame h).1
    rw [St.frame_eq_iff] at hst2
    rw [hst2.2.2.2.1, u9, hst] at hb
    cases hil : slowIl op io <;> cases hff : slowFf op io <;> simp [hil, hff] at hb
  | cfc hI hop hrm hnp hfl =>
    obtain ⟨_, c2, _, _, c5, _, _, _, c9, c10, _⟩ := checkFlushComplete_frame s
    refine ⟨carryOK_eq hF.carry c9 c10, ?_⟩
    intro hb
    rw [checkFlushComplete_state] at hb
    split at hb
    · cases hb
    · rw [c10, c2, c5]; exact hF.body hb
  | fastFlush hI hfm hrm hnp hpend hst hop1 hz =>
    refine ⟨hF.carry, ?_⟩
    intro hb; cases hb
  | fastBlock hI hfm hop hrm hnp hpend hst hgo hnf hcap hin hfit =>
    obtain ⟨_, _, _, f4, _⟩ := fastStorage_fields s (fastInplace s io) (fastMaxOut s io)
    refine ⟨?_, ?_⟩
    · exact fastEncode_carryOK _ _ _ _ _ _ _ _
    · intro hb
      have e8 := (fastEncode_fields (fastS1 s io) io (o s.nEnc (fastReq op s io)) (fastReq op s io) (fastBs s io) (fastInplace s io)
        (fastReq op s io).isLast (fastReq op s io).forceFlush).2.2.2.2.2.2.2.1
      have hb' : (fastRes o op s io).1.streamState = .metadataBody := hb
      unfold fastRes at hb'
      rw [e8] at hb'
      have hb := hb'
      unfold fastS1 at hb
      rw [f4, hst] at hb
      cases h1 : (fastReq op s io).isLast <;> cases h2 : (fastReq op s io).forceFlush <;> simp [h1, h2] at hb
  | mdEnter hI hop hentry =>
    obtain ⟨_, _, _, _, _, u6, _, _, u9, u10, _, _, _, u14, u15⟩ := updateSizeHint_fields s 0
    obtain ⟨_, m2, m3, m4, m5⟩ := mdEnter_fields (updateSizeHint s 0) io.availIn
    refine ⟨carryOK_eq hF.carry (m2.trans u15) (m3.trans u14), ?_⟩
    intro hb
    rw [mdEnter_state] at hb
    split at hb
    · cases hb
    · rw [m3, m4, m5, u14, u6, u10]; exact hF.body (u9 ▸ hb)
  | mdEnc hM hop hpend hne h =>
    have hf := (encodeData_frame h).1
    rw [St.frame_eq_iff] at hf
    refine ⟨encodeData_carryOK hF.carry h, ?_⟩
    intro hb
    rw [hf.2.2.2.1] at hb
    exact absurd (hF.body hb).2 hne
  | mdHead hM hop hpend hlf hst hok =>
    refine ⟨by simp [CarryOK, mdHeadSt], ?_⟩
    intro _
    exact ⟨rfl, hlf⟩
  | mdDone hM hop hpend hlf hst hz =>
    refine ⟨hF.carry, ?_⟩
    intro hb; cases hb
  | mdOut hM hop hpend hlf hst hnz hao hle => exact ⟨hF.carry, fun hb => hF.body hb⟩
  | mdTiny hM hop hpend hlf hst hnz hao hle => exact ⟨hF.carry, fun hb => hF.body hb⟩

theorem emitted_def (x : Bytes) (t : St) : emitted x t = bytesBits (x ++ t.pending) ++ bitsOf t.lastBytesBits t.lastBytes := rfl

theorem carry_nil_of_lbb {s : St} (h : s.lastBytesBits = 0) : bitsOf s.lastBytesBits s.lastBytes = [] := by
  rw [h]; rfl

set_option maxRecDepth 4000 in
/-- **framing of one atomic step**: the emitted stream grows by exactly the bits of the event -/
theorem step_emitted {o : Oracle} {op : Nat} {s s' : St} {io io' : Io} {e : Ev} (hF : FrameInv s)
    (h : Step o op (s, io) e (s', io')) (d : Bytes) :
    emitted (d ++ io'.out) s' = emitted (d ++ io.out) s ++ e.bits o := by
  cases h with
  | init hf =>
    obtain ⟨p, rfl⟩ := hf
    rw [emitted_def, emitted_def]
    simp [ensureInitialized, St.new, Ev.bits, St.carry, bitsOf]
  | copy hI hw hop hnf hst hrm hc hn h =>
    obtain ⟨_, _, _, _, _, _, _, _, c9, c10, c11, _⟩ := copy_fields hI.init h
    rw [emitted_eq rfl c9 c10 c11]
    simp [Ev.bits]
  | pad hI hc hz h =>
    obtain ⟨nx, rfl⟩ := pad_result h
    rw [emitted_def, emitted_def]
    have hp : (padResult s nx).pending = s.pending ++ sealBytes (s.lastBytes ||| (6 * 2 ^ s.lastBytesBits)) ((s.lastBytesBits + 6 + 7) / 8) := rfl
    have h1 : (padResult s nx).lastBytesBits = 0 := rfl
    rw [hp, h1, ← List.append_assoc, bytesBits_append, seal_bits _ _ hF.carry]
    simp [Ev.bits, bitsOf, List.append_assoc]
  | push hI hc h =>
    obtain ⟨c1, _, c3, c4, _⟩ := push_conserve' hc h
    rw [emitted_def, emitted_def, c3, c4, List.append_assoc, c1, List.append_assoc]
    simp [Ev.bits]
  | encSlow hI hop hnf hrm hnc hnp hpend hst hgo h =>
    obtain ⟨_, _, _, _, _, _, _, _, _, _, _, _, u13, u14, u15⟩ := updateSizeHint_fields s io.availIn
    have hp : (updateSizeHint s io.availIn).pending = [] := by rw [u13, hpend]
    have h1 := emitted_encode (d := d ++ io.out) h hp
    obtain ⟨_, _, _, _, _, _, _, k8, k9, _⟩ := markAfterEncode_fields _ (slowIl op io) (slowFf op io)
    have klb : ∀ (t : St) (a b : Bool), (markAfterEncode t a b).lastBytes = t.lastBytes := by
      intro t a b; unfold markAfterEncode; cases a <;> cases b <;> rfl
    rw [emitted_eq rfl k8 (klb _ _ _) k9, h1, emitted_eq rfl u13 u15 u14]
  | cfc hI hop hrm hnp hfl =>
    obtain ⟨_, _, _, _, _, _, _, c8, c9, c10, _⟩ := checkFlushComplete_frame s
    rw [emitted_eq rfl c8 c9 c10]
    simp [Ev.bits]
  | fastFlush hI hfm hrm hnp hpend hst hop1 hz =>
    simp only [Ev.bits, List.append_nil]
    exact emitted_eq rfl rfl rfl rfl
  | fastBlock hI hfm hop hrm hnp hpend hst hgo hnf hcap hin hfit =>
    obtain ⟨f1, f2, f3, _⟩ := fastStorage_fields s (fastInplace s io) (fastMaxOut s io)
    have hp1 : (fastS1 s io).pending = [] := by unfold fastS1; rw [f1, hpend]
    have h1 := emitted_fastEncode d (fastS1 s io) io (o s.nEnc (fastReq op s io)) (fastReq op s io) (fastBs s io) (fastInplace s io)
      (fastReq op s io).isLast (fastReq op s io).forceFlush hp1
    have h2 : emitted (d ++ io.out) (fastS1 s io) = emitted (d ++ io.out) s := emitted_eq rfl f1 f2 f3
    rw [h2] at h1
    exact h1
  | mdEnter hI hop hentry =>
    obtain ⟨_, _, _, _, _, _, _, _, _, _, _, _, u13, u14, u15⟩ := updateSizeHint_fields s 0
    obtain ⟨m1, m2, m3, _⟩ := mdEnter_fields (updateSizeHint s 0) io.availIn
    rw [emitted_eq rfl (m1.trans u13) (m2.trans u15) (m3.trans u14)]
    simp [Ev.bits]
  | mdEnc hM hop hpend hne h =>
    exact emitted_encode (d := d ++ io.out) h hpend
  | mdHead hM hop hpend hlf hst hok =>
    rw [emitted_def, emitted_def, hpend]
    have hp : (mdHeadSt s).pending = toBytes (metadataHeaderBits s.remainingMetadata s.carry) := rfl
    have h1 : (mdHeadSt s).lastBytesBits = 0 := rfl
    have hal : (metadataHeaderBits s.remainingMetadata s.carry).length % 8 = 0 := by
      rw [metadataHeaderBits_eq _ hM.rmLe]; exact padToByte_aligned _
    rw [hp, h1, bytesBits_append, bytesBits_toBytes _ hal, metadataHeaderBits_split _ hM.rmLe]
    simp [Ev.bits, bitsOf, St.carry, List.append_assoc]
  | mdDone hM hop hpend hlf hst hz =>
    simp only [Ev.bits, List.append_nil]
    exact emitted_eq rfl rfl rfl rfl
  | mdOut hM hop hpend hlf hst hnz hao hle =>
    have hc := carry_nil_of_lbb (hF.body hst).1
    rw [emitted_def, emitted_def, hpend]
    have hp : (mdOutSt s io).pending = s.pending := rfl
    have h1 : (mdOutSt s io).lastBytesBits = s.lastBytesBits := rfl
    have h2 : (mdOutSt s io).lastBytes = s.lastBytes := rfl
    have ho : (mdOutIo s io).out = io.out ++ io.input.take (mdOutN s io) := rfl
    rw [hp, h1, h2, ho, hpend, hc]
    simp [Ev.bits, bytesBits_append, List.append_assoc]
  | mdTiny hM hop hpend hlf hst hnz hao hle =>
    have hc := carry_nil_of_lbb (hF.body hst).1
    rw [emitted_def, emitted_def, hpend]
    have hp : (mdTinySt s io).pending = io.input.take (mdTinyN s) := rfl
    have h1 : (mdTinySt s io).lastBytesBits = s.lastBytesBits := rfl
    have h2 : (mdTinySt s io).lastBytes = s.lastBytes := rfl
    have ho : (mdTinyIo s io).out = io.out := rfl
    rw [hp, h1, h2, ho, hc]
    simp [Ev.bits, bytesBits_append, List.append_assoc]

end BV.Stream
