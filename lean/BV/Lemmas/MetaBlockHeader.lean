/-
C01 / meta-block writers, part 1: `StoreCompressedMetaBlockHeader` is read back by the RFC 7932
§9.2 header reader `BV.HeaderSpec.readMetaBlock` (written for C08/C15, independent of the writers),
plus the small bit-stream lemmas shared by the other `MetaBlock*` lemma files.
-/
import BV.Model.MetaBlock
import BV.Lemmas.HeaderBits
import BV.Lemmas.HuffmanRead
import BV.Props.C18

namespace BV.MetaBlock
open BV.Gen BV.Bits BV.Huffman BV.PrefixArith BV.Recoder BV.HeaderSpec
open BV.Header (writeBits_ok takeVal_bitsOf bitsOf_add skipPad_pad length_bitsOf)
open BV.Lemmas.HuffmanRead (takeBits_bitsOf bitsOf_length valOf_bitsOf)

theorem bind_eq_ok {α β : Type} (x : Out α) (f : α → Out β) (b : β) :
    (x >>= f) = .ok b ↔ ∃ a, x = .ok a ∧ f a = .ok b := by
  cases x <;> simp

/-- a successful `writeBits` appends exactly `bitsOf n v`, and `v < 2^n`, `n ≤ 56` -/
theorem writeBits_inv {n v : Nat} {w w' : Writer} (h : writeBits n v w = .ok w') :
    w' = w ++ bitsOf n v ∧ v < 2 ^ n ∧ n ≤ 56 := by
  unfold writeBits at h
  split at h
  · cases h
  · split at h
    · cases h
    · rename_i h1 h2
      injection h with h
      refine ⟨h.symm, ?_, by omega⟩
      have hp : 0 < 2 ^ n := Nat.pow_pos (by decide)
      have : v / 2 ^ n = 0 := by simpa using h1
      exact (Nat.div_eq_zero_iff_lt hp).mp this

theorem bitsOf_one_one : bitsOf 1 1 = [true] := by decide
theorem bitsOf_one_zero : bitsOf 1 0 = [false] := by decide

/-- the bits `StoreCompressedMetaBlockHeader` writes -/
def headerBits (isLast : Bool) (length : Nat) : List Bool :=
  (if isLast then [true, false] else [false]) ++ bitsOf 2 (encodeMlen length).2.2 ++
    bitsOf (encodeMlen length).2.1 (encodeMlen length).1 ++ (if isLast then [] else [false])

theorem storeHeader_ok (isLast : Bool) (length : Nat) (w : Writer) (h1 : 1 ≤ length)
    (h2 : length ≤ 2 ^ 24) :
    storeCompressedMetaBlockHeader isLast length w = .ok (w ++ headerBits isLast length) := by
  obtain ⟨e1, e2, e3, e4, _⟩ := BV.Props.C18.mlen_exact length h1 h2
  have p24 : (2 : Nat) ^ 24 = 16777216 := by decide
  have hm : length % two32 = length := Nat.mod_eq_of_lt (by unfold two32; omega)
  have hnb : (encodeMlen length).2.1 ≤ 24 := by omega
  have hnb' : (encodeMlen length).2.1 % 256 = (encodeMlen length).2.1 := Nat.mod_eq_of_lt (by omega)
  have hnib : (encodeMlen length).2.2 < 2 ^ 2 := by omega
  unfold storeCompressedMetaBlockHeader headerBits
  cases isLast
  · simp only [Bool.false_eq_true, if_false, hm]
    rw [writeBits_ok 1 0 w (by decide) (by decide)]
    simp only [Out.bind_ok, show ¬ (length = 0 ∨ length > 16777216) by omega, if_false, hnb']
    rw [writeBits_ok 2 _ _ hnib (by decide)]
    simp only [Out.bind_ok]
    rw [writeBits_ok _ _ _ e4 (by omega)]
    simp only [Out.bind_ok]
    rw [writeBits_ok 1 0 _ (by decide) (by decide)]
    simp [bitsOf_one_zero, List.append_assoc]
  · simp only [if_true, hm]
    rw [writeBits_ok 1 1 w (by decide) (by decide)]
    simp only [Out.bind_ok]
    rw [writeBits_ok 1 0 _ (by decide) (by decide)]
    simp only [Out.bind_ok, show ¬ (length = 0 ∨ length > 16777216) by omega, if_false, hnb']
    rw [writeBits_ok 2 _ _ hnib (by decide)]
    simp only [Out.bind_ok]
    rw [writeBits_ok _ _ _ e4 (by omega)]
    simp [bitsOf_one_one, bitsOf_one_zero, List.append_assoc]

theorem headerBits_length (isLast : Bool) (length : Nat) :
    (headerBits isLast length).length = (if isLast then 2 else 1) + 2 + (encodeMlen length).2.1 +
      (if isLast then 0 else 1) := by
  unfold headerBits
  cases isLast <;> simp [bitsOf_length] <;> omega

/-- the §9.2 reader on the header bits: a compressed meta-block of `length` bytes, ISLAST as
written, positioned exactly behind the header -/
theorem readHeader_ok (isLast : Bool) (length pos : Nat) (rest : List Bool) (h1 : 1 ≤ length)
    (h2 : length ≤ 2 ^ 24) :
    readMetaBlock pos (headerBits isLast length ++ rest)
      = some (MetaBlock.compressed length isLast, pos + (headerBits isLast length).length, rest) := by
  obtain ⟨e1, e2, e3, e4, e5⟩ := BV.Props.C18.mlen_exact length h1 h2
  have hl := headerBits_length isLast length
  generalize hmn : (encodeMlen length).2.2 = mn at *
  generalize hnb : (encodeMlen length).2.1 = nb at *
  generalize hx : (encodeMlen length).1 = x at *
  have hne : ¬ (4 + mn > 4 ∧ x / 2 ^ (4 * (4 + mn - 1)) = 0) := by
    rintro ⟨a, b⟩
    have hp : 0 < 2 ^ (4 * (4 + mn - 1)) := Nat.pow_pos (by decide)
    have := (Nat.div_eq_zero_iff_lt hp).mp b
    have h5 := e5 (by omega)
    rw [show 4 * (mn + 3) = 4 * (4 + mn - 1) by omega] at h5
    omega
  have hnb4 : nb = 4 * (4 + mn) := by omega
  subst hnb4
  rw [hl]
  unfold headerBits
  rw [hmn, hnb, hx]
  cases isLast
  · simp only [Bool.false_eq_true, if_false, List.append_assoc, List.cons_append, List.nil_append,
      readMetaBlock]
    rw [takeVal_bitsOf 2 mn _ (by omega)]
    simp only [show ¬ mn = 3 by omega, if_false]
    rw [takeVal_bitsOf (4 * (4 + mn)) x _ e4]
    simp only [hne, if_false]
    simp
    omega
  · simp only [if_true, List.append_assoc, List.cons_append, List.nil_append, readMetaBlock]
    rw [takeVal_bitsOf 2 mn _ (by omega)]
    simp only [show ¬ mn = 3 by omega, if_false]
    rw [takeVal_bitsOf (4 * (4 + mn)) x _ e4]
    simp only [hne, if_false, List.append_nil]
    simp
    omega

end BV.MetaBlock
