import BV.Lemmas.LedgerEntry
/-!
Interleavings: a block's identity contains the allocator that produced it, so the judge's verdict on
a log is determined by the per-allocator sub-logs, in whatever way they are interleaved.
-/
namespace BV.Ledger

def Ev.block : Ev → BlockId
  | .alloc b => b
  | .free _ b => b
  | .drop b => b

/-- the sub-log of the events about blocks of allocator `a` -/
def proj (a : Nat) (log : List Ev) : List Ev := log.filter (fun e => e.block.alloc == a)

def restrict (a : Nat) (l : List BlockId) : List BlockId := l.filter (fun b => b.alloc == a)

theorem mem_restrict {a : Nat} {l : List BlockId} {b : BlockId} : b ∈ restrict a l ↔ b ∈ l ∧ b.alloc = a := by
  simp [restrict]

theorem restrict_cons_same {a : Nat} {x : BlockId} (l : List BlockId) (h : x.alloc = a) :
    restrict a (x :: l) = x :: restrict a l := by simp [restrict, h]

theorem restrict_cons_other {a : Nat} {x : BlockId} (l : List BlockId) (h : x.alloc ≠ a) :
    restrict a (x :: l) = restrict a l := by simp [restrict, h]

theorem restrict_erase_same {a : Nat} {x : BlockId} (h : x.alloc = a) : ∀ l : List BlockId,
    restrict a (l.erase x) = (restrict a l).erase x := by
  intro l
  induction l with
  | nil => simp [restrict]
  | cons y ys ih =>
    by_cases hyx : y = x
    · subst hyx
      simp [restrict_cons_same _ h]
    · have h1 : (y :: ys).erase x = y :: ys.erase x := by simp [List.erase_cons, hyx]
      rw [h1]
      by_cases hy : y.alloc = a
      · rw [restrict_cons_same _ hy, restrict_cons_same _ hy, ih]
        simp [List.erase_cons, hyx]
      · rw [restrict_cons_other _ hy, restrict_cons_other _ hy, ih]

theorem restrict_erase_other {a : Nat} {x : BlockId} (h : x.alloc ≠ a) : ∀ l : List BlockId,
    restrict a (l.erase x) = restrict a l := by
  intro l
  induction l with
  | nil => simp [restrict]
  | cons y ys ih =>
    by_cases hyx : y = x
    · subst hyx
      simp [restrict_cons_other _ h]
    · have h1 : (y :: ys).erase x = y :: ys.erase x := by simp [List.erase_cons, hyx]
      rw [h1]
      by_cases hy : y.alloc = a
      · rw [restrict_cons_same _ hy, restrict_cons_same _ hy, ih]
      · rw [restrict_cons_other _ hy, restrict_cons_other _ hy, ih]

/-- `ja` is what the judge `j` of the whole log knows about allocator `a` -/
structure Rel (a : Nat) (j ja : Judge) : Prop where
  live : ja.live = restrict a j.live
  seen : ja.seen = restrict a j.seen

/-- an event about another allocator does not change what is known about `a` -/
theorem rel_step_other {a : Nat} {j ja : Judge} (ev : Ev) (h : Rel a j ja) (hne : ev.block.alloc ≠ a) :
    Rel a (j.step ev) ja := by
  cases ev with
  | alloc x =>
    simp only [Ev.block] at hne
    by_cases hx : x ∈ j.seen
    · simp [Judge.step, hx]; exact ⟨h.live, h.seen⟩
    · simp [Judge.step, hx]
      exact ⟨by simp [restrict_cons_other _ hne, h.live], by simp [restrict_cons_other _ hne, h.seen]⟩
  | free via x =>
    simp only [Ev.block] at hne
    simp only [Judge.step]
    split
    · split <;> exact ⟨by simp [restrict_erase_other hne, h.live], h.seen⟩
    · split <;> exact ⟨h.live, h.seen⟩
  | drop x => exact ⟨h.live, h.seen⟩

/-- an event about allocator `a` has the same effect, and the same verdict, on both judges -/
theorem rel_step_same {a : Nat} {j ja : Judge} (ev : Ev) (h : Rel a j ja) (he : ev.block.alloc = a) :
    Rel a (j.step ev) (ja.step ev) ∧ (j.step ev).bad + ja.bad = (ja.step ev).bad + j.bad := by
  cases ev with
  | alloc x =>
    simp only [Ev.block] at he
    have hs : x ∈ ja.seen ↔ x ∈ j.seen := by rw [h.seen, mem_restrict]; simp [he]
    by_cases hx : x ∈ j.seen
    · have hx' := hs.mpr hx
      simp [Judge.step, hx, hx', Judge.bad]
      exact ⟨⟨h.live, h.seen⟩, by omega⟩
    · have hx' : x ∉ ja.seen := fun hh => hx (hs.mp hh)
      simp [Judge.step, hx, hx', Judge.bad]
      exact ⟨⟨by simp [restrict_cons_same _ he, h.live], by simp [restrict_cons_same _ he, h.seen]⟩, by omega⟩
  | free via x =>
    simp only [Ev.block] at he
    have hl : x ∈ ja.live ↔ x ∈ j.live := by rw [h.live, mem_restrict]; simp [he]
    have hs : x ∈ ja.seen ↔ x ∈ j.seen := by rw [h.seen, mem_restrict]; simp [he]
    by_cases hx : x ∈ j.live
    · have hx' := hl.mpr hx
      by_cases hv : via = x.alloc
      · simp [Judge.step, hx, hx', hv, Judge.bad]
        exact ⟨⟨by simp [restrict_erase_same he, h.live], h.seen⟩, by omega⟩
      · simp [Judge.step, hx, hx', hv, Judge.bad]
        exact ⟨⟨by simp [restrict_erase_same he, h.live], h.seen⟩, by omega⟩
    · have hx' : x ∉ ja.live := fun hh => hx (hl.mp hh)
      by_cases hxs : x ∈ j.seen
      · have hxs' := hs.mpr hxs
        simp [Judge.step, hx, hx', hxs, hxs', Judge.bad]
        exact ⟨⟨h.live, h.seen⟩, by omega⟩
      · have hxs' : x ∉ ja.seen := fun hh => hxs (hs.mp hh)
        simp [Judge.step, hx, hx', hxs, hxs', Judge.bad]
        exact ⟨⟨h.live, h.seen⟩, by omega⟩
  | drop x =>
    simp [Judge.step, Judge.bad]
    exact ⟨⟨h.live, h.seen⟩, by omega⟩

theorem proj_cons (a : Nat) (e : Ev) (log : List Ev) :
    proj a (e :: log) = if e.block.alloc = a then e :: proj a log else proj a log := by
  by_cases h : e.block.alloc = a <;> simp [proj, h]

/-- the whole log against the family of per-allocator sub-logs, from related starting states -/
theorem interleave_fold (log : List Ev) : ∀ (j : Judge) (ja : Nat → Judge), (∀ a, Rel a j (ja a)) →
    (∀ a, Rel a (log.foldl Judge.step j) ((proj a log).foldl Judge.step (ja a))) ∧
    ((log.foldl Judge.step j).bad = j.bad ↔ ∀ a, ((proj a log).foldl Judge.step (ja a)).bad = (ja a).bad) := by
  induction log with
  | nil => intro j ja h; exact ⟨by simpa [proj] using h, by simp [proj]⟩
  | cons e log ih =>
    intro j ja h
    let a0 := e.block.alloc
    let ja1 : Nat → Judge := fun a => if a0 = a then (ja a).step e else ja a
    have hrel1 : ∀ a, Rel a (j.step e) (ja1 a) := by
      intro a
      by_cases ha : a0 = a
      · simp only [ja1, ha, if_true]
        exact (rel_step_same e (h a) ha).1
      · simp only [ja1, ha, if_false]
        exact rel_step_other e (h a) ha
    have hfold : ∀ a, (proj a (e :: log)).foldl Judge.step (ja a) = (proj a log).foldl Judge.step (ja1 a) := by
      intro a
      rw [proj_cons]
      by_cases ha : a0 = a
      · have ha' : e.block.alloc = a := ha
        simp [ja1, ha, ha']
      · have ha' : ¬ e.block.alloc = a := ha
        simp [ja1, ha, ha']
    obtain ⟨ih1, ih2⟩ := ih (j.step e) ja1 hrel1
    refine ⟨?_, ?_⟩
    · intro a
      rw [hfold a]
      exact ih1 a
    · simp only [List.foldl_cons]
      have hm1 := step_bad_mono j e
      have hm2 := foldl_bad_mono log (j.step e)
      have hsame := (rel_step_same e (h a0) rfl).2
      have hm3 := step_bad_mono (ja a0) e
      have hm4 := foldl_bad_mono (proj a0 log) ((ja a0).step e)
      have hja1 : ja1 a0 = (ja a0).step e := by simp [ja1]
      constructor
      · intro hb a
        have h1 : (j.step e).bad = j.bad := by omega
        have h2 : (log.foldl Judge.step (j.step e)).bad = (j.step e).bad := by omega
        have h3 := ih2.mp h2 a
        rw [hfold a, h3]
        by_cases ha : a0 = a
        · subst ha
          rw [hja1]
          omega
        · simp [ja1, ha]
      · intro hall
        have h0 := hall a0
        rw [hfold a0, hja1] at h0
        have h1 : ((ja a0).step e).bad = (ja a0).bad := by omega
        have h2 : (j.step e).bad = j.bad := by omega
        have h3 : ∀ a, ((proj a log).foldl Judge.step (ja1 a)).bad = (ja1 a).bad := by
          intro a
          have := hall a
          rw [hfold a] at this
          by_cases ha : a0 = a
          · subst ha
            rw [hja1] at this ⊢
            omega
          · simp only [ja1, ha, if_false] at this ⊢
            exact this
        have := ih2.mpr h3
        omega

theorem rel_init (a : Nat) : Rel a {} {} := ⟨by simp [restrict], by simp [restrict]⟩

/-- **any interleaving is clean and balanced iff every per-allocator sub-log is** -/
theorem interleaving_clean (log : List Ev) :
    ((judge log).bad = 0 ∧ (judge log).live = []) ↔
      ∀ a, (judge (proj a log)).bad = 0 ∧ (judge (proj a log)).live = [] := by
  obtain ⟨hrel, hbad⟩ := interleave_fold log {} (fun _ => {}) rel_init
  have hbad' : (judge log).bad = 0 ↔ ∀ a, (judge (proj a log)).bad = 0 := by
    simpa [judge, Judge.bad] using hbad
  have hlive : (judge log).live = [] ↔ ∀ a, (judge (proj a log)).live = [] := by
    constructor
    · intro hl a
      have := (hrel a).live
      simp only [judge] at hl ⊢
      rw [this, hl]; rfl
    · intro hall
      apply List.eq_nil_iff_forall_not_mem.mpr
      intro b hb
      have := (hrel b.alloc).live
      have hm : b ∈ restrict b.alloc (judge log).live := mem_restrict.mpr ⟨hb, rfl⟩
      have h0 := hall b.alloc
      simp only [judge] at this h0 hm
      rw [← this, h0] at hm
      simp at hm
  constructor
  · rintro ⟨h1, h2⟩ a
    exact ⟨hbad'.mp h1 a, hlive.mp h2 a⟩
  · intro h
    exact ⟨hbad'.mpr (fun a => (h a).1), hlive.mpr (fun a => (h a).2)⟩

end BV.Ledger
