/-
C01 / fragment writers, part 8: the RFC replay (`replayGo` / `stepQ1`) on the word groups `CreateCommands`
emits: (A) insert word + distance word (or 64 = last distance) + `EmitCopyLenLastDistance` words, (B) `EmitCopyLen`
word + distance word, (C) the final insert word — each for a copy whose source was compared byte by byte with the
input (`hmatch`).  Positions are absolute indices into the fragment input `I`; the reader's output is
`hist ++ I.take position`.
-/
import BV.Lemmas.FragmentEmit
namespace BV.Fragment
open BV.Bits BV.MetaBlock BV.Huffman BV.PrefixArith BV.Recoder

def lowChk (c : Nat) : Bool := !impl0 c && cpBase c == 2

theorem low_all' : (List.range 24).all lowChk = true := by decide +kernel

theorem low_all (c : Nat) (h : c < 24) : impl0 c = false ∧ cpBase c = 2 := by
  have := List.all_eq_true.mp low_all' c (List.mem_range.mpr h)
  simpa [lowChk] using this

/-- `stepQ1` on a copy word (`24 ≤ code < 64`, `code ≠ 40`) -/
theorem stepQ1_copy (wo : WordOracle) (window mlen cmd : Nat) (cs lits : List Nat) (done : Nat) (st : RdSt)
    (h24 : 24 ≤ cmd % 256) (h64 : cmd % 256 < 64) (h40 : cmd % 256 ≠ 40)
    (hex : cmd / 256 < 2 ^ kNumExtraBits.getD (cmd % 256) 0) (hd : done < mlen) :
    stepQ1 wo window mlen cmd cs lits done st
      = stepTail wo window mlen (impl0 (cmd % 256)) cs lits done (cpBase (cmd % 256) + cmd / 256) st.out st.ring := by
  have htab := tab_all (cmd % 256) h64
  unfold tabOK at htab
  unfold stepQ1 cpBase impl0
  simp only []
  rw [if_neg (by omega)]
  cases hti : rfcInsTable[(rfcCmdDecode (q1Symbol (cmd % 256))).1]? with
  | none => rw [hti] at htab; simp at htab
  | some ibie =>
  cases htc : rfcCopyTable[(rfcCmdDecode (q1Symbol (cmd % 256))).2.1]? with
  | none => rw [hti, htc] at htab; simp at htab
  | some cbce =>
  obtain ⟨ib, ie⟩ := ibie
  obtain ⟨cb, ce⟩ := cbce
  rw [hti, htc] at htab
  have hn : ¬ cmd % 256 < 24 := by omega
  simp only [hn, if_false, Bool.and_eq_true, beq_iff_eq, decide_eq_true_eq] at htab ⊢
  obtain ⟨_, ⟨_, _⟩, hib⟩ := htab
  subst hib
  rw [if_neg (by omega)]
  simp

/-- `stepQ1` on an insert word (`0 < code < 24`) -/
theorem stepQ1_ins (wo : WordOracle) (window mlen cmd : Nat) (cs lits : List Nat) (done : Nat) (st : RdSt)
    (h24 : cmd % 256 < 24) (h0 : cmd % 256 ≠ 0)
    (hex : cmd / 256 < 2 ^ kNumExtraBits.getD (cmd % 256) 0) (hd : done < mlen)
    (hl : kInsertOffset.getD (cmd % 256) 0 + cmd / 256 ≤ lits.length)
    (hm : kInsertOffset.getD (cmd % 256) 0 + cmd / 256 ≤ mlen - done) :
    stepQ1 wo window mlen cmd cs lits done st
      = stepTail wo window mlen false cs (lits.drop (kInsertOffset.getD (cmd % 256) 0 + cmd / 256))
          (done + (kInsertOffset.getD (cmd % 256) 0 + cmd / 256)) 2
          (st.out ++ lits.take (kInsertOffset.getD (cmd % 256) 0 + cmd / 256)) st.ring := by
  have htab := tab_all (cmd % 256) (by omega)
  obtain ⟨hi0, hc2⟩ := low_all (cmd % 256) h24
  unfold tabOK at htab
  unfold cpBase at hc2
  unfold impl0 at hi0
  unfold stepQ1
  simp only []
  rw [if_neg (by omega)]
  cases hti : rfcInsTable[(rfcCmdDecode (q1Symbol (cmd % 256))).1]? with
  | none => rw [hti] at htab; simp at htab
  | some ibie =>
  cases htc : rfcCopyTable[(rfcCmdDecode (q1Symbol (cmd % 256))).2.1]? with
  | none => rw [hti, htc] at htab; simp at htab
  | some cbce =>
  obtain ⟨ib, ie⟩ := ibie
  obtain ⟨cb, ce⟩ := cbce
  rw [hti, htc] at htab
  rw [htc] at hc2
  simp only [] at hc2
  subst hc2
  simp only [h24, if_true, Bool.and_eq_true, beq_iff_eq, decide_eq_true_eq] at htab ⊢
  obtain ⟨_, ⟨⟨⟨_, _⟩, hib⟩, _⟩, _⟩ := htab
  subst hib
  rw [if_neg (by omega), hi0]

theorem rfcDistance_long (ring : List Int) (ds extra : Nat) (h : 16 ≤ ds) :
    rfcDistance 0 0 ring ds extra = some (((rfcDistDecode 0 0 ds extra : Nat) : Int), true) := by
  obtain ⟨k, rfl⟩ : ∃ k, ds = k + 16 := ⟨ds - 16, by omega⟩
  rfl

/-- copying `n` bytes from `d` back reproduces any continuation `X` of the output that repeats the text at
distance `d` (same statement as `BV.MatchFinder.copyBytes_of_match`; restated to keep this file's imports small) -/
theorem copyBytes_of_match' : ∀ (n d : Nat) (out X : Bytes), X.length = n → 1 ≤ d → d ≤ out.length →
    (∀ k, k < n → (out ++ X).getD (out.length + k) 0 = (out ++ X).getD (out.length - d + k) 0) →
    copyBytes n d out = out ++ X := by
  intro n
  induction n with
  | zero => intro d out X hX _ _ _; simp [copyBytes, List.length_eq_zero_iff.mp hX]
  | succ n ih =>
    intro d out X hX hd1 hdl hm
    cases X with
    | nil => simp at hX
    | cons x X' =>
      have h0 := hm 0 (by omega)
      simp only [Nat.add_zero] at h0
      have hx : out.getD (out.length - d) 0 = x := by
        simp only [List.getD_eq_getElem?_getD] at h0 ⊢
        rw [List.getElem?_append_right (Nat.le_refl _),
          List.getElem?_append_left (by omega)] at h0
        simp only [Nat.sub_self, List.getElem?_cons_zero, Option.getD_some] at h0
        exact h0.symm
      rw [copyBytes, hx]
      have := ih d (out ++ [x]) X' (by simpa using hX) hd1 (by simp; omega) (fun k hk => by
        have hk1 := hm (k + 1) (by omega)
        simp only [List.append_assoc, List.singleton_append, List.length_append, List.length_singleton]
        rw [show out.length + 1 + k = out.length + (k + 1) by omega,
          show out.length + 1 - d + k = out.length - d + (k + 1) by omega]
        exact hk1)
      rw [this]; simp

theorem getD_hist_take (hist I : List Nat) (m j : Nat) (hj : j < m) (hm : m ≤ I.length) :
    (hist ++ I.take m).getD (hist.length + j) 0 = I.getD j 0 := by
  simp only [List.getD_eq_getElem?_getD]
  rw [List.getElem?_append_right (by omega), Nat.add_sub_cancel_left, List.getElem?_take, if_pos hj]

/-- an LZ77 copy of `n` bytes at distance `p − cand` continues `hist ++ I.take p` to `hist ++ I.take (p + n)`
when the input repeats: `I[cand + k] = I[p + k]` for `k < n` -/
theorem copy_from_input (hist I : List Nat) (p cand n : Nat) (hc : cand < p) (hp : p + n ≤ I.length)
    (hmatch : ∀ k, k < n → I.getD (cand + k) 0 = I.getD (p + k) 0) :
    copyBytes n (p - cand) (hist ++ I.take p) = hist ++ I.take (p + n) := by
  have hlen : (hist ++ I.take p).length = hist.length + p := by
    rw [List.length_append, List.length_take]; omega
  have hX : hist ++ I.take p ++ (I.drop p).take n = hist ++ I.take (p + n) := by
    rw [List.append_assoc, ← List.take_add]
  rw [← hX]
  apply copyBytes_of_match'
  · rw [List.length_take, List.length_drop]; omega
  · omega
  · rw [hlen]; omega
  · intro k hk
    rw [hX, hlen, Nat.add_assoc, getD_hist_take hist I (p + n) (p + k) (by omega) hp]
    have : hist.length + p - (p - cand) + k = hist.length + (cand + k) := by omega
    rw [this, getD_hist_take hist I (p + n) (cand + k) (by omega) hp]
    exact (hmatch k hk).symm

theorem hist_length (hist I : List Nat) (p : Nat) (hp : p ≤ I.length) :
    (hist ++ I.take p).length = hist.length + p := by
  rw [List.length_append, List.length_take]; omega

/-- a copy with an explicit long distance symbol whose source repeats the input -/
theorem applyCopy_explicit (wo : WordOracle) (window mlen ii : Nat) (hist I : List Nat) (p cand n : Nat)
    (ring : List Int) (ds extra : Nat) (hds : 16 ≤ ds) (hdec : rfcDistDecode 0 0 ds extra = p - cand)
    (hc : cand < p) (hw : p - cand ≤ window) (hii : ii ≤ p) (hp : p + n ≤ ii + mlen) (hI : ii + mlen ≤ I.length)
    (hmatch : ∀ k, k < n → I.getD (cand + k) 0 = I.getD (p + k) 0) :
    applyCopy wo window 0 0 mlen (p - ii) n (hist ++ I.take p) ring ds extra
      = some (n, ⟨hist ++ I.take (p + n), ((p - cand : Nat) : Int) :: ring.take 3⟩) := by
  unfold applyCopy
  rw [rfcDistance_long ring ds extra hds, hdec]
  simp only []
  rw [if_neg (by omega), Int.toNat_natCast, hist_length hist I p (by omega), if_pos (by omega),
    if_neg (by omega), copy_from_input hist I p cand n hc (by omega) hmatch]
  simp

/-- a copy with distance symbol 0 (last distance) whose source repeats the input -/
theorem applyCopy_last (wo : WordOracle) (window mlen ii : Nat) (hist I : List Nat) (p cand n : Nat)
    (ring : List Int) (hr : ring[0]? = some ((p - cand : Nat) : Int))
    (hc : cand < p) (hw : p - cand ≤ window) (hii : ii ≤ p) (hp : p + n ≤ ii + mlen) (hI : ii + mlen ≤ I.length)
    (hmatch : ∀ k, k < n → I.getD (cand + k) 0 = I.getD (p + k) 0) :
    applyCopy wo window 0 0 mlen (p - ii) n (hist ++ I.take p) ring 0 0
      = some (n, ⟨hist ++ I.take (p + n), ring⟩) := by
  unfold applyCopy rfcDistance
  simp only [hr, Option.map_some]
  rw [if_neg (by omega), Int.toNat_natCast, hist_length hist I p (by omega), if_pos (by omega),
    if_neg (by omega), copy_from_input hist I p cand n hc (by omega) hmatch]
  simp

theorem take_drop_len (I : List Nat) (e n : Nat) (h : e + n ≤ I.length) : ((I.drop e).take n).length = n := by
  rw [List.length_take, List.length_drop]; omega

theorem ne64 : kNumExtraBits.getD 64 0 = 0 := by decide

/-- (A) insert + (distance | last distance) + `EmitCopyLenLastDistance`: two RFC commands; `ring'` = the reader's
distance ring afterwards (unchanged for the code 64, pushed for an explicit distance) -/
theorem replay_groupA (wo : WordOracle) (window mlen ii : Nat) (hist I : List Nat) (e base cand matched : Nat)
    (ring ring' : List Int) (dW : Nat)
    (hwin : 262128 ≤ window) (he : ii ≤ e) (heb : e < base) (hc : cand < base) (hd : base - cand ≤ 262128)
    (hm4 : 4 ≤ matched) (hend : base + matched ≤ ii + mlen) (hI : ii + mlen ≤ I.length) (hsmall : mlen < 16777216)
    (hmatch : ∀ k, k < matched → I.getD (cand + k) 0 = I.getD (base + k) 0)
    (hdW : (dW = 64 ∧ ring[0]? = some ((base - cand : Nat) : Int) ∧ ring' = ring) ∨
      (emitDistanceQ1 (base - cand) = some dW ∧ ring' = ((base - cand : Nat) : Int) :: ring.take 3)) :
    ring'[0]? = some ((base - cand : Nat) : Int) ∧ ∀ (f : Nat) (C L : List Nat),
      replayGo wo window mlen (f + 2) (emitInsertLenQ1 (base - e) :: dW :: (emitCopyLenLastDistanceQ1 matched ++ C))
        ((I.drop e).take (base - e) ++ L) (e - ii) ⟨hist ++ I.take e, ring⟩
      = replayGo wo window mlen f C L (base + matched - ii) ⟨hist ++ I.take (base + matched), ring'⟩ := by
  have hr0 : ring'[0]? = some ((base - cand : Nat) : Int) := by
    rcases hdW with ⟨_, hr, rfl⟩ | ⟨_, rfl⟩
    · exact hr
    · rfl
  refine ⟨hr0, ?_⟩
  intro f C L
  obtain ⟨i1, i2, i3, i4⟩ := insert_word (base - e) (by omega)
  have hXl := take_drop_len I e (base - e) (by omega)
  -- the state after the first RFC command (insert, copy 2)
  have hstep1 :
      stepQ1 wo window mlen (emitInsertLenQ1 (base - e)) (dW :: (emitCopyLenLastDistanceQ1 matched ++ C))
        ((I.drop e).take (base - e) ++ L) (e - ii) ⟨hist ++ I.take e, ring⟩
      = some (.inr (emitCopyLenLastDistanceQ1 matched ++ C, L, base + 2 - ii, ⟨hist ++ I.take (base + 2), ring'⟩)) := by
    have hins := stepQ1_ins wo window mlen (emitInsertLenQ1 (base - e)) (dW :: (emitCopyLenLastDistanceQ1 matched ++ C))
      ((I.drop e).take (base - e) ++ L) (e - ii) ⟨hist ++ I.take e, ring⟩ i1 (i4 (by omega)) i3 (by omega)
      (by rw [i2, List.length_append, hXl]; omega) (by rw [i2]; omega)
    rw [i2] at hins
    have hdrop : ((I.drop e).take (base - e) ++ L).drop (base - e) = L := by
      rw [List.drop_append_of_le_length (by omega), List.drop_of_length_le (by omega), List.nil_append]
    have htake : ((I.drop e).take (base - e) ++ L).take (base - e) = (I.drop e).take (base - e) := by
      rw [List.take_append_of_le_length (by omega), List.take_of_length_le (by omega)]
    have hout : hist ++ I.take e ++ (I.drop e).take (base - e) = hist ++ I.take base := by
      rw [List.append_assoc, ← List.take_add]
      congr 2; omega
    have hpos : e - ii + (base - e) = base - ii := by omega
    rw [hdrop, htake, hpos] at hins
    simp only [hout] at hins
    rw [hins]
    unfold stepTail
    rw [if_neg (by omega)]
    simp only [Bool.false_eq_true, if_false]
    have hm2 : ∀ k, k < 2 → I.getD (cand + k) 0 = I.getD (base + k) 0 := fun k hk => hmatch k (by omega)
    have hp2 : base - ii + 2 = base + 2 - ii := by omega
    rcases hdW with ⟨rfl, hr, hrr⟩ | ⟨hdW, hrr⟩
    · rw [hrr]
      have : ¬ (64 % 256 < 64 ∨ 64 % 256 ≥ 128 ∨ 64 / 256 ≥ 2 ^ kNumExtraBits.getD (64 % 256) 0) := by
        rw [show 64 % 256 = 64 from rfl, ne64]; decide
      rw [if_neg this]
      have := applyCopy_last wo window mlen ii hist I base cand 2 ring hr hc (by omega) (by omega) (by omega) hI hm2
      rw [show 64 % 256 - 64 = 0 from rfl, show 64 / 256 = 0 from rfl, this]
      simp only [hp2]
    · rw [hrr]
      obtain ⟨w, hw, d1, d2, d3, d4⟩ := distance_word (base - cand) (by omega) (by omega)
      rw [hw] at hdW
      injection hdW with hdW
      subst hdW
      rw [if_neg (by omega)]
      have := applyCopy_explicit wo window mlen ii hist I base cand 2 ring (w % 256 - 64) (w / 256) (by omega) d4 hc
        (by omega) (by omega) (by omega) hI hm2
      rw [this]
      simp only [hp2]
  rw [show f + 2 = (f + 1) + 1 from rfl, replayGo, hstep1]
  simp only []
  -- the second RFC command: the remaining `matched − 2` bytes at the last distance
  have hm' : ∀ k, k < matched - 2 → I.getD (cand + 2 + k) 0 = I.getD (base + 2 + k) 0 := fun k hk => by
    have := hmatch (2 + k) (by omega)
    rw [Nat.add_assoc, Nat.add_assoc]; exact this
  have hcp := applyCopy_last wo window mlen ii hist I (base + 2) (cand + 2) (matched - 2) ring'
    (by rw [show base + 2 - (cand + 2) = base - cand by omega]; exact hr0) (by omega) (by omega) (by omega)
    (by omega) hI hm'
  have hfin : base + 2 + (matched - 2) = base + matched := by omega
  rw [hfin] at hcp
  have hok := copy_last_word matched hm4 (by omega)
  unfold cplOK at hok
  split at hok
  · rename_i w hw
    simp only [Bool.and_eq_true, decide_eq_true_eq] at hok
    obtain ⟨⟨⟨⟨⟨_, c1⟩, c2⟩, c3⟩, c4⟩, c5⟩ := hok
    rw [hw, List.singleton_append, replayGo,
      stepQ1_copy wo window mlen w C L (base + 2 - ii) _ c1 (by omega) (by omega) c3 (by omega), c5]
    unfold stepTail
    rw [if_neg (by omega)]
    simp only [if_true]
    rw [show cpBase (w % 256) + w / 256 = matched - 2 by omega, hcp]
    simp only []
    congr 1
    omega
  · rename_i w d hw
    simp only [Bool.and_eq_true, decide_eq_true_eq, Bool.not_eq_true'] at hok
    obtain ⟨⟨⟨⟨⟨⟨_, rfl⟩, c1⟩, c2⟩, c3⟩, c4⟩, c5⟩ := hok
    rw [hw, show [w, 64] ++ C = w :: 64 :: C from rfl, replayGo,
      stepQ1_copy wo window mlen w (64 :: C) L (base + 2 - ii) _ (by omega) c2 (by omega) c3 (by omega), c5]
    unfold stepTail
    rw [if_neg (by omega)]
    simp only [Bool.false_eq_true, if_false]
    have : ¬ (64 % 256 < 64 ∨ 64 % 256 ≥ 128 ∨ 64 / 256 ≥ 2 ^ kNumExtraBits.getD (64 % 256) 0) := by
      rw [show 64 % 256 = 64 from rfl, ne64]; decide
    rw [if_neg this, show 64 % 256 - 64 = 0 from rfl, show 64 / 256 = 0 from rfl,
      show cpBase (w % 256) + w / 256 = matched - 2 by omega, hcp]
    simp only []
    congr 1
    omega
  · simp at hok

/-- (B) `EmitCopyLen` + `EmitDistance`: one RFC command (insert length 0, explicit distance) -/
theorem replay_groupB (wo : WordOracle) (window mlen ii : Nat) (hist I : List Nat) (base cand matched : Nat)
    (ring : List Int) (dW f : Nat) (C L : List Nat)
    (hwin : 262128 ≤ window) (he : ii ≤ base) (hc : cand < base) (hd : base - cand ≤ 262128)
    (hm4 : 4 ≤ matched) (hend : base + matched ≤ ii + mlen) (hI : ii + mlen ≤ I.length) (hsmall : mlen < 16777216)
    (hmatch : ∀ k, k < matched → I.getD (cand + k) 0 = I.getD (base + k) 0)
    (hdW : emitDistanceQ1 (base - cand) = some dW) :
    replayGo wo window mlen (f + 1) (emitCopyLenQ1 matched :: dW :: C) L (base - ii) ⟨hist ++ I.take base, ring⟩
      = replayGo wo window mlen f C L (base + matched - ii)
          ⟨hist ++ I.take (base + matched), ((base - cand : Nat) : Int) :: ring.take 3⟩ := by
  obtain ⟨c1, c2, c3, c4, c5⟩ := copy_word matched hm4 (by omega)
  obtain ⟨w, hw, d1, d2, d3, d4⟩ := distance_word (base - cand) (by omega) (by omega)
  rw [hw] at hdW
  injection hdW with hdW
  subst hdW
  rw [replayGo, stepQ1_copy wo window mlen _ (w :: C) L (base - ii) _ (by omega) c2 (by omega) c3 (by omega), c5]
  unfold stepTail
  rw [if_neg (by omega)]
  simp only [Bool.false_eq_true, if_false]
  rw [if_neg (by omega), c4,
    applyCopy_explicit wo window mlen ii hist I base cand matched ring (w % 256 - 64) (w / 256) (by omega) d4 hc
      (by omega) he hend hI hmatch]
  simp only []
  congr 1
  omega

/-- (C) the final insert word completes the meta-block -/
theorem replay_final (wo : WordOracle) (window mlen ii : Nat) (hist I : List Nat) (e : Nat) (ring : List Int) (f : Nat)
    (he : ii ≤ e) (hlt : e < ii + mlen) (hI : ii + mlen ≤ I.length) (hsmall : mlen < 16777216) :
    replayGo wo window mlen (f + 1) [emitInsertLenQ1 (ii + mlen - e)] ((I.drop e).take (ii + mlen - e)) (e - ii)
        ⟨hist ++ I.take e, ring⟩ = some ⟨hist ++ I.take (ii + mlen), ring⟩ := by
  obtain ⟨i1, i2, i3, i4⟩ := insert_word (ii + mlen - e) (by omega)
  have hXl := take_drop_len I e (ii + mlen - e) (by omega)
  have hins := stepQ1_ins wo window mlen (emitInsertLenQ1 (ii + mlen - e)) [] ((I.drop e).take (ii + mlen - e)) (e - ii)
    ⟨hist ++ I.take e, ring⟩ i1 (i4 (by omega)) i3 (by omega) (by rw [i2, hXl]; omega) (by rw [i2]; omega)
  rw [i2] at hins
  have hout : hist ++ I.take e ++ (I.drop e).take (ii + mlen - e) = hist ++ I.take (ii + mlen) := by
    rw [List.append_assoc, ← List.take_add]
    congr 2; omega
  rw [List.drop_of_length_le (Nat.le_of_eq hXl), List.take_of_length_le (Nat.le_of_eq hXl)] at hins
  simp only [hout] at hins
  rw [replayGo, hins]
  unfold stepTail
  rw [if_pos (by omega)]
  simp

/-- more fuel does not change an accepted replay -/
theorem replayGo_mono (wo : WordOracle) (window mlen : Nat) : ∀ (f f' : Nat) (cmds lits : List Nat) (done : Nat)
    (st fin : RdSt), replayGo wo window mlen f cmds lits done st = some fin → f ≤ f' →
    replayGo wo window mlen f' cmds lits done st = some fin := by
  intro f
  induction f with
  | zero => intro f' cmds lits done st fin h; simp [replayGo] at h
  | succ f ih =>
    intro f' cmds lits done st fin h hf
    obtain ⟨f'', rfl⟩ : ∃ f'', f' = f'' + 1 := ⟨f' - 1, by omega⟩
    cases cmds with
    | nil => simpa [replayGo] using h
    | cons cmd cs =>
      rw [replayGo] at h ⊢
      cases hs : stepQ1 wo window mlen cmd cs lits done st with
      | none => rw [hs] at h; cases h
      | some r =>
        rw [hs] at h
        cases r with
        | inl fin' => exact h
        | inr t =>
          obtain ⟨cs', lits', done', st'⟩ := t
          exact ih f'' cs' lits' done' st' fin h (by omega)

end BV.Fragment
