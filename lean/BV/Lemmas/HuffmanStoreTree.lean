/-
Lemmas for C17 part 7: `BrotliStoreHuffmanTree` as a whole, read back by the
RFC 7932 §3.5 reader (`readPrefixCode`).
-/
import BV.Lemmas.HuffmanStoreIO
import BV.Lemmas.HuffmanHeader
import BV.Lemmas.HuffmanCreate

namespace BV.Lemmas.HuffmanStoreTree
open BV.Gen BV.Bits BV.Huffman BV.Lemmas.HuffmanBits BV.Lemmas.HuffmanCanon BV.Lemmas.HuffmanPrefix
open BV.Lemmas.HuffmanRead BV.Lemmas.HuffmanRle BV.Lemmas.HuffmanStoreRead BV.Lemmas.HuffmanStoreIO
open BV.Lemmas.HuffmanHeader BV.Lemmas.HuffmanMerge BV.Lemmas.HuffmanCreate

/-! ### shape of the entries -/

/-- a literal length with no extra bits, or a repeat code with its extra bits in range -/
def EntryShape (e : Nat × Nat) : Prop :=
  (e.1 < 16 ∧ e.2 = 0) ∨ (e.1 = 16 ∧ e.2 < 4) ∨ (e.1 = 17 ∧ e.2 < 8)

theorem shape_zeros (reps : Nat) : ∀ e ∈ writeRepsZeros reps, EntryShape e := by
  intro e he
  unfold writeRepsZeros at he
  by_cases h11 : reps = 11
  · subst h11
    simp only [↓reduceIte, show ¬ (10 < 3) by decide, List.mem_append, List.mem_cons,
      List.not_mem_nil, or_false, List.mem_map, List.mem_reverse] at he
    rcases he with rfl | ⟨x, hx, rfl⟩
    · left; simp
    · right; right; exact ⟨rfl, repDigits3_lt _ x hx⟩
  · simp only [h11, ↓reduceIte, List.nil_append] at he
    by_cases h3 : reps < 3
    · simp only [h3, ↓reduceIte] at he
      rw [List.mem_replicate] at he; rw [he.2]; left; simp
    · simp only [h3, ↓reduceIte, List.mem_map, List.mem_reverse] at he
      obtain ⟨x, hx, rfl⟩ := he
      right; right; exact ⟨rfl, repDigits3_lt _ x hx⟩

theorem shape_tail (v r : Nat) (hv : v < 16) : ∀ e ∈ writeRepsTail v r, EntryShape e := by
  intro e he
  unfold writeRepsTail at he
  by_cases h7 : r = 7
  · subst h7
    simp only [↓reduceIte, show ¬ (6 < 3) by decide, List.mem_append, List.mem_cons,
      List.not_mem_nil, or_false, List.mem_map, List.mem_reverse] at he
    rcases he with rfl | ⟨x, hx, rfl⟩
    · left; exact ⟨hv, rfl⟩
    · right; left; exact ⟨rfl, repDigits2_lt _ x hx⟩
  · simp only [h7, ↓reduceIte, List.nil_append] at he
    by_cases h3 : r < 3
    · simp only [h3, ↓reduceIte] at he
      rw [List.mem_replicate] at he; rw [he.2]; left; exact ⟨hv, rfl⟩
    · simp only [h3, ↓reduceIte, List.mem_map, List.mem_reverse] at he
      obtain ⟨x, hx, rfl⟩ := he
      right; left; exact ⟨rfl, repDigits2_lt _ x hx⟩

theorem shape_reps (prev v reps : Nat) (hv : v < 16) : ∀ e ∈ writeReps prev v reps, EntryShape e := by
  intro e he
  rw [writeReps_eq, List.mem_append] at he
  rcases he with he | he
  · split at he
    · simp at he; subst he; left; exact ⟨hv, rfl⟩
    · simp at he
  · exact shape_tail v _ hv e he

theorem shape_writeLoop (useNZ useZ : Bool) :
    ∀ (n : Nat) (l : List Nat), l.length = n → (∀ x ∈ l, x < 16) → ∀ prev,
      ∀ e ∈ writeLoop useNZ useZ prev l, EntryShape e := by
  intro n
  induction n using Nat.strongRecOn with
  | _ n ih =>
    intro l hn hlt prev e he
    cases l with
    | nil => rw [writeLoop] at he; simp at he
    | cons v rest =>
      rw [writeLoop] at he
      generalize hreps :
        (if (v ≠ 0 ∧ useNZ = true) ∨ (v = 0 ∧ useZ = true) then 1 + runLen v rest else 1) = reps
        at he
      have hrl := runLen_le v rest
      have hreps1 : 1 ≤ reps := by rw [← hreps]; split <;> omega
      have hdl : (rest.drop (reps - 1)).length < n := by
        rw [List.length_drop, ← hn]; simp; omega
      have hrest : ∀ x ∈ rest.drop (reps - 1), x < 16 := fun x hx =>
        hlt x (List.mem_cons_of_mem _ (List.mem_of_mem_drop hx))
      have hv : v < 16 := hlt v (by simp)
      by_cases hv0 : v = 0
      · simp only [hv0, ↓reduceIte, List.mem_append] at he
        rcases he with he | he
        · exact shape_zeros reps e he
        · exact ih _ hdl _ rfl hrest prev e he
      · simp only [hv0, ↓reduceIte, List.mem_append] at he
        rcases he with he | he
        · exact shape_reps prev v reps hv e he
        · exact ih _ hdl _ rfl hrest v e he

/-! ### the histogram of the code length symbols -/

theorem histoLoop_spec (ss : List Nat) : ∀ (h : List Nat), h.length = 18 →
    (∀ s ∈ ss, s < 18) → (∀ l, l < 18 → h.getD l 0 + countLen ss l < u32) →
    ∃ h', histoLoop ss h = .ok h' ∧ h'.length = 18 ∧
      ∀ l, l < 18 → h'.getD l 0 = h.getD l 0 + countLen ss l := by
  induction ss with
  | nil => intro h hlen _ _; exact ⟨h, rfl, hlen, by simp [countLen]⟩
  | cons d ds ih =>
    intro h hlen hds hb
    have hd : d < 18 := hds d (by simp)
    have hdl : d < h.length := by omega
    simp only [histoLoop, getAt_getD h d hdl, Out.bind_ok]
    have hbd := hb d hd
    rw [countLen_cons] at hbd
    simp only [↓reduceIte] at hbd
    have hm : (h.getD d 0 + 1) % u32 = h.getD d 0 + 1 := Nat.mod_eq_of_lt (by omega)
    rw [hm]
    obtain ⟨h', h1, h2, h3⟩ := ih (h.set d (h.getD d 0 + 1)) (by simp [hlen])
      (fun x hx => hds x (List.mem_cons_of_mem _ hx))
      (by
        intro l hl
        rw [getD_set _ _ _ _ hdl]
        have := hb l hl
        rw [countLen_cons] at this
        by_cases hdl' : d = l
        · subst hdl'; simp only [↓reduceIte] at this ⊢; omega
        · simp only [hdl', ↓reduceIte] at this ⊢; omega)
    refine ⟨h', h1, h2, ?_⟩
    intro l hl
    rw [h3 l hl, getD_set _ _ _ _ hdl, countLen_cons]
    by_cases hdl' : d = l
    · subst hdl'; simp only [↓reduceIte]; omega
    · simp only [hdl', ↓reduceIte]; omega

/-! ### `num_codes` -/

theorem numCodes_one_state (hs : List Nat) : ∀ (i c : Nat),
    numCodesLoop hs i 1 c = if hs.all (· == 0) then (1, c) else (2, c) := by
  induction hs with
  | nil => intro i c; rfl
  | cons h t ih =>
    intro i c
    simp only [numCodesLoop]
    by_cases h0 : h = 0
    · simp [h0, ih]
    · simp [h0]

theorem nz_cons (h : Nat) (t : List Nat) :
    ((h :: t).filter (· ≠ 0)).length = (if h = 0 then 0 else 1) + (t.filter (· ≠ 0)).length := by
  by_cases h0 : h = 0
  · simp [h0]
  · simp [h0]; omega

theorem nz_of_all_zero (t : List Nat) (h : t.all (· == 0) = true) : (t.filter (· ≠ 0)).length = 0 := by
  induction t with
  | nil => rfl
  | cons x xs ih =>
    simp only [List.all_cons, Bool.and_eq_true, beq_iff_eq] at h
    rw [nz_cons, if_pos h.1, ih h.2]

/-- two or more non-zero entries: `num_codes = 2` -/
theorem numCodes_two (hs : List Nat) : ∀ (i c : Nat), 2 ≤ (hs.filter (· ≠ 0)).length →
    (numCodesLoop hs i 0 c).1 = 2 := by
  induction hs with
  | nil => intro i c h; simp at h
  | cons h t ih =>
    intro i c h2
    rw [nz_cons] at h2
    simp only [numCodesLoop]
    by_cases h0 : h = 0
    · simp only [h0, ne_eq, not_true_eq_false, ↓reduceIte]
      apply ih
      simpa [h0] using h2
    · simp only [ne_eq, h0, not_false_eq_true, ↓reduceIte]
      rw [numCodes_one_state]
      have hne : ¬ (t.all (· == 0)) = true := by
        intro hall
        have := nz_of_all_zero t hall
        simp only [h0, ↓reduceIte] at h2
        omega
      simp [hne]

/-- exactly one non-zero entry, at offset `p`: `num_codes = 1`, `code = i + p` -/
theorem numCodes_one (hs : List Nat) : ∀ (i c p : Nat), p < hs.length → hs.getD p 0 ≠ 0 →
    (∀ q, q < hs.length → q ≠ p → hs.getD q 0 = 0) → numCodesLoop hs i 0 c = (1, i + p) := by
  induction hs with
  | nil => intro i c p hp; simp at hp
  | cons h t ih =>
    intro i c p hp hnz hz
    simp only [numCodesLoop]
    cases p with
    | zero =>
      have h0 : h ≠ 0 := by simpa using hnz
      simp only [ne_eq, h0, not_false_eq_true, ↓reduceIte, Nat.add_zero]
      rw [numCodes_one_state]
      have : (t.all (· == 0)) = true := by
        rw [List.all_eq_true]
        intro x hx
        obtain ⟨k, hk, hkx⟩ := List.getElem_of_mem hx
        have := hz (k + 1) (by simp; omega) (by omega)
        rw [List.getD_cons_succ, List.getD_eq_getElem?_getD, List.getElem?_eq_getElem hk] at this
        simp only [Option.getD_some] at this
        simp [← hkx, this]
      simp [this]
    | succ p =>
      have h0 : h = 0 := by simpa using hz 0 (by simp) (by omega)
      simp only [h0, ne_eq, not_true_eq_false, ↓reduceIte]
      have := ih (i + 1) c p (by simpa using hp) (by simpa using hnz)
        (fun q hq hqp => by
          have := hz (q + 1) (by simp; omega) (by omega)
          simpa using this)
      rw [this]; congr 1; omega

/-! ### Kraft sums at two limits -/

theorem kraft_scale (L k : Nat) (l : List Nat) (h : ∀ x ∈ l, x ≤ L) :
    kraftSum (L + k) l = 2 ^ k * kraftSum L l := by
  induction l with
  | nil => simp [kraftSum]
  | cons x xs ih =>
    have hx := h x (by simp)
    have ih' := ih (fun y hy => h y (List.mem_cons_of_mem _ hy))
    unfold kraftSum at ih' ⊢
    simp only [List.map_cons, List.sum_cons, ih', Nat.mul_add]
    by_cases h0 : x = 0
    · simp [h0]
    · simp only [h0, ↓reduceIte]
      have : L + k - x = k + (L - x) := by omega
      rw [this, Nat.pow_add]


/-! ### pieces of `BrotliStoreHuffmanTree` -/

theorem writeHuffmanTree_eq (d : List Nat) (h704 : d.length ≤ 704) :
    writeHuffmanTree d d.length 704 =
      .ok ((writeHuffmanTreeWith (rleSwitches d).1 (rleSwitches d).2 d).map (·.1),
           (writeHuffmanTreeWith (rleSwitches d).1 (rleSwitches d).2 d).map (·.2)) := by
  unfold writeHuffmanTree
  have h1 := trim_length_le d
  have h2 := writeLoop_length (rleSwitches d).1 (rleSwitches d).2 _ (trimTrailingZeros d) rfl
    (by unfold u64; omega) 8
  have h3 : (writeHuffmanTreeWith (rleSwitches d).1 (rleSwitches d).2 d).length ≤ 704 := by
    unfold writeHuffmanTreeWith; omega
  simp only [Nat.lt_irrefl, gt_iff_lt, ↓reduceIte, List.take_length,
    show ¬ 704 < (writeHuffmanTreeWith (rleSwitches d).1 (rleSwitches d).2 d).length by omega]

theorem sum_le_mul (l : List Nat) (b : Nat) (h : ∀ x ∈ l, x ≤ b) : l.sum ≤ l.length * b := by
  induction l with
  | nil => simp
  | cons x xs ih =>
    have := ih (fun y hy => h y (List.mem_cons_of_mem _ hy))
    have hx := h x (by simp)
    simp only [List.sum_cons, List.length_cons, Nat.add_mul, Nat.one_mul]
    omega

theorem eq_singleton_of_nodup (l : List Nat) (a : Nat) (hn : l.Nodup) (hm : ∀ v, v ∈ l ↔ v = a) :
    l = [a] := by
  cases l with
  | nil => exact absurd ((hm a).mpr rfl) (by simp)
  | cons x xs =>
    have hx : x = a := (hm x).mp (by simp)
    subst hx
    cases xs with
    | nil => rfl
    | cons y ys =>
      have hy : y = x := (hm y).mp (by simp)
      subst hy
      simp at hn

/-- the code-length code of a histogram with a single used symbol: depth 1 for it -/
theorem create_single (histo : List Nat) (s0 : Nat) (tree : List Node) (hl : histo.length = 18)
    (hs0 : s0 < 18) (hnz : histo.getD s0 0 ≠ 0)
    (hz : ∀ q, q < 18 → q ≠ s0 → histo.getD q 0 = 0) (htl : 37 ≤ tree.length) :
    createHuffmanTree histo 18 5 tree (List.replicate 18 0)
      = .ok ((List.replicate 18 0).set s0 1) := by
  have hdesc : descNZ histo 18 = [s0] := by
    apply eq_singleton_of_nodup _ _ (nodup_descNZ histo 18)
    intro v
    rw [mem_descNZ]
    constructor
    · rintro ⟨h1, h2⟩
      by_cases hv : v = s0
      · exact hv
      · exact absurd (hz v h1 hv) h2
    · rintro rfl; exact ⟨hs0, hnz⟩
  obtain ⟨tree1, hc1, hc2, _, hc4⟩ := collectLeaves_spec histo 1 18 tree 0 (by omega) (by omega)
    (by rw [hdesc]; simp; omega)
  rw [hdesc] at hc1 hc4
  have h0 := hc4 0 (by simp)
  simp only [Nat.zero_add, List.length_cons, List.length_nil, List.getD_cons_zero] at hc1 h0
  unfold createHuffmanTree
  have hf : createFuel = 33 + 1 := rfl
  rw [hf, createLoop]
  simp only [hc1, Out.bind_ok, ↓reduceIte]
  have hg : getAt tree1 0 = .ok (leafNode histo 1 s0) := by
    simp [getAt, h0]
  rw [hg]
  simp only [Out.bind_ok, leafNode, BV.Lemmas.HuffmanShape.asUsize_natCast]
  rw [setAt_of_lt _ s0 _ (by simp; omega)]
  rfl


/-- the single-symbol code-length code, all 18 possibilities checked -/
theorem single_facts : ∀ s0 : Fin 18,
    convertBitDepthsToSymbols ((List.replicate 18 0).set s0.val 1) 18 (List.replicate 18 0)
      = .ok (List.replicate 18 0) ∧
    kraftSum 5 ((List.replicate 18 0).set s0.val 1) = 16 ∧
    (List.range 18).filter (fun t => ((List.replicate 18 0).set s0.val 1).getD t 0 != 0) = [s0.val] ∧
    ((List.replicate 18 0).set s0.val 1).set s0.val 0 = List.replicate 18 0 ∧
    (∀ x ∈ (List.replicate 18 0).set s0.val 1, x ≤ 5) := by decide

theorem filter_range_getD (l : List Nat) (q : Nat → Bool) :
    ((List.range l.length).filter fun t => q (l.getD t 0)).length = (l.filter q).length := by
  have h : (List.range l.length).map (fun s => l.getD s 0) = l := by
    have := map_range_getD l id
    simpa using this
  conv => rhs; rw [← h, List.filter_map, List.length_map]
  rfl

theorem countLen_pos_of_mem (l : List Nat) (x : Nat) (h : x ∈ l) : 1 ≤ countLen l x := by
  unfold countLen
  apply List.length_pos_iff.mpr
  intro hf
  have : x ∈ l.filter (· == x) := List.mem_filter.mpr ⟨h, by simp⟩
  rw [hf] at this; simp at this


theorem forall_mem_of_getD (l : List Nat) (b : Nat) (h : ∀ v, v < l.length → l.getD v 0 ≤ b) :
    ∀ x ∈ l, x ≤ b := by
  intro x hx
  obtain ⟨i, hi, hix⟩ := List.getElem_of_mem hx
  have := h i hi
  rw [List.getD_eq_getElem?_getD, List.getElem?_eq_getElem hi] at this
  simpa [hix] using this

theorem nz_count_eq (cl histo : List Nat) (hc : cl.length = 18) (hh : histo.length = 18)
    (hsupp : ∀ t, t < 18 → (cl.getD t 0 ≠ 0 ↔ histo.getD t 0 ≠ 0)) :
    ((List.range cl.length).filter fun t => cl.getD t 0 != 0).length
      = (histo.filter (· ≠ 0)).length := by
  have e2 := filter_range_getD histo (fun x => x != 0)
  have hfun : (fun x : Nat => x != 0) = (fun x : Nat => decide (x ≠ 0)) := by
    funext x; by_cases hx : x = 0 <;> simp [hx]
  rw [hfun] at e2
  rw [← e2, hc, hh]
  congr 1
  apply List.filter_congr
  intro t ht
  have := hsupp t (List.mem_range.mp ht)
  generalize cl.getD t 0 = a at this
  generalize histo.getD t 0 = b at this
  by_cases ha : a = 0
  · by_cases hb : b = 0
    · rw [ha, hb]
    · exact absurd ha (this.mpr hb)
  · by_cases hb : b = 0
    · exact absurd hb (this.mp ha)
    · have h1 : (a != 0) = true := by simpa using ha
      have h2 : (b != 0) = true := by simpa using hb
      rw [h1, h2]

theorem one_nz (l : List Nat) : ∀ i, i < l.length → l.getD i 0 ≠ 0 → 1 ≤ (l.filter (· ≠ 0)).length := by
  induction l with
  | nil => intro i hi; simp at hi
  | cons h t ih =>
    intro i hi hne
    rw [nz_cons]
    cases i with
    | zero =>
      have : h ≠ 0 := by simpa using hne
      simp only [this, ↓reduceIte]; omega
    | succ i =>
      have := ih i (by simpa using hi) (by simpa using hne)
      omega

theorem two_nz (l : List Nat) : ∀ i j, i < j → j < l.length → l.getD i 0 ≠ 0 → l.getD j 0 ≠ 0 →
    2 ≤ (l.filter (· ≠ 0)).length := by
  induction l with
  | nil => intro i j _ hj; simp at hj
  | cons h t ih =>
    intro i j hij hj hi0 hj0
    rw [nz_cons]
    obtain ⟨j', rfl⟩ : ∃ j', j = j' + 1 := ⟨j - 1, by omega⟩
    cases i with
    | zero =>
      have : h ≠ 0 := by simpa using hi0
      have h1 := one_nz t j' (by simpa using hj) (by simpa using hj0)
      simp only [this, ↓reduceIte]; omega
    | succ i =>
      have := ih i j' (by omega) (by simpa using hj) (by simpa using hi0) (by simpa using hj0)
      omega

/-- reading a complex prefix code description: HSKIP, the code length code
lengths, then the code length symbols -/
theorem readPrefixCode_complex (A hskip : Nat) (cl d : List Nat) (body ebits : List Bool)
    (h4 : hskip < 4) (h1 : hskip ≠ 1)
    (hcl : readClLens (kStorageOrder.drop hskip) 32 (List.replicate 18 0) (body ++ ebits)
      = some (cl, ebits))
    (rest : List Bool)
    (hgo : readLensGo cl A (A + 1) ⟨[], 8, none⟩ ebits = some (d, rest)) :
    readPrefixCode A (bitsOf 2 hskip ++ (body ++ ebits)) = some (d, rest) := by
  have ho : rfcClOrder = kStorageOrder := by decide
  unfold readPrefixCode
  rw [takeBits_bitsOf 2 hskip _ (by omega)]
  simp only [Option.bind_eq_bind, Option.bind_some, h1, ↓reduceIte, ho, hcl, hgo]

/-- `BrotliStoreHuffmanTree` on a Kraft-complete depth vector, in a bit-stream context
(`w` already written, `rest` following), read back by the RFC reader with an alphabet
size `A` that may be smaller than the vector (zero from `A` on) -/
theorem store_tree_roundtrip_ctx0 (d : List Nat) (A : Nat) (tree : List Node) (w rest : List Bool)
    (h704 : d.length ≤ 704)
    (hd : ∀ x ∈ d, x ≤ 15) (hk : kraftSum 15 d = 32768) (htl : 37 ≤ tree.length)
    (hA : A ≤ d.length) (hz : ∀ i, A ≤ i → i < d.length → d.getD i 0 = 0) :
    ∃ bits, storeHuffmanTree d d.length tree w = .ok (w ++ bits) ∧
      readPrefixCode A (bits ++ rest) = some (d.take A, rest) := by
  have h64 : d.length < 2 ^ 64 := by
    have : (704 : Nat) < 2 ^ 64 := by decide
    omega
  obtain ⟨E, hE⟩ : ∃ E, E = writeHuffmanTreeWith (rleSwitches d).1 (rleSwitches d).2 d := ⟨_, rfl⟩
  have hd' : ∀ x ∈ trimTrailingZeros d, x < 16 :=
    trim_lt d (fun x hx => Nat.lt_succ_of_le (hd x hx))
  have hshape : ∀ e ∈ E, EntryShape e := by
    rw [hE]; exact shape_writeLoop _ _ _ _ rfl hd' 8
  have hElen : E.length ≤ 704 := by
    have h1 := trim_length_le d
    have h2 := writeLoop_length (rleSwitches d).1 (rleSwitches d).2 _ (trimTrailingZeros d) rfl
      (by unfold u64; omega) 8
    rw [hE]; unfold writeHuffmanTreeWith; omega
  -- the symbols and their histogram
  have hsyms18 : ∀ s ∈ E.map (·.1), s < 18 := by
    intro s hs
    obtain ⟨e, he, rfl⟩ := List.mem_map.mp hs
    rcases hshape e he with h | h | h <;> omega
  obtain ⟨histo, hh1, hh2, hh3⟩ := histoLoop_spec (E.map (·.1)) (List.replicate 18 0) (by simp)
    hsyms18 (by
      intro l _
      have := countLen_le (E.map (·.1)) l
      rw [replicate_getD]; simp at this; unfold u32; omega)
  have hhist : ∀ l, l < 18 → histo.getD l 0 = countLen (E.map (·.1)) l := by
    intro l hl; rw [hh3 l hl, replicate_getD, Nat.zero_add]
  have hh704 : ∀ x ∈ histo, x ≤ 704 := by
    apply forall_mem_of_getD
    intro v hv
    rw [hhist v (by omega)]
    have := countLen_le (E.map (·.1)) v
    simp at this; omega
  have hused : ∀ e ∈ E, histo.getD e.1 0 ≠ 0 := by
    intro e he
    have h18 : e.1 < 18 := hsyms18 e.1 (List.mem_map.mpr ⟨e, he, rfl⟩)
    rw [hhist e.1 h18]
    have := countLen_pos_of_mem (E.map (·.1)) e.1 (List.mem_map.mpr ⟨e, he, rfl⟩)
    omega
  have hzip : (E.map (·.1)).zip (E.map (·.2)) = E := by
    rw [List.zip_map', List.map_id'' (by intro x; rfl)]
  -- E is not empty (the vector has a non-zero length)
  have hEne : E ≠ [] := by
    intro h
    have hrt := writeLoop_roundtrip (rleSwitches d).1 (rleSwitches d).2 _ (trimTrailingZeros d) rfl
      (by unfold u64; have := trim_length_le d; omega) hd' 8 ⟨[], 8, none⟩ rfl (by intro x _; rfl)
    have hkt : kraftSum 15 (trimTrailingZeros d) = 32768 := by rw [kraftSum_trim]; exact hk
    have he : writeLoop (rleSwitches d).1 (rleSwitches d).2 8 (trimTrailingZeros d) = [] := by
      rw [hE] at h; exact h
    rw [he] at hrt
    simp only [run_nil, List.nil_append] at hrt
    rw [← hrt] at hkt
    simp [kraftSum] at hkt
  have hnz1 : 1 ≤ (histo.filter (· ≠ 0)).length := by
    obtain ⟨e, he⟩ := List.exists_mem_of_ne_nil E hEne
    have h18 : e.1 < 18 := hsyms18 e.1 (List.mem_map.mpr ⟨e, he, rfl⟩)
    have hne := hused e he
    apply List.length_pos_iff.mpr
    intro hf
    have : histo.getD e.1 0 ∈ histo.filter (· ≠ 0) := by
      apply List.mem_filter.mpr
      refine ⟨?_, by simpa using hne⟩
      rw [List.getD_eq_getElem?_getD, List.getElem?_eq_getElem (by omega)]; simp
    rw [hf] at this; simp at this
  -- unfold the function up to the code-length code
  unfold storeHuffmanTree
  rw [writeHuffmanTree_eq d h704, ← hE]
  simp only [Out.bind_ok, hh1, hzip]
  by_cases hnz2 : 2 ≤ (histo.filter (· ≠ 0)).length
  · -- the ordinary case: a complete code-length code
    have hnum := numCodes_two histo 0 0 hnz2
    cases hpair : numCodesLoop histo 0 0 0 with
    | mk nc code =>
    rw [hpair] at hnum
    simp only at hnum
    subst hnum
    simp only
    have hf : BV.Lemmas.HuffmanFib.fib (5 + 3) = 21 := by decide
    have hsum := sum_le_mul histo 704 hh704
    rw [hh2] at hsum
    obtain ⟨cl, hcl1, hcl2, hcl3, hcl4, hcl5⟩ := create_total histo 5 13 (by decide) (by omega)
      hnz2 tree (by omega) (by decide) (by rw [hh2]; omega) (by rw [hf, hh2]; omega)
    rw [hh2] at hcl1 hcl2 hcl3 hcl4
    have hcl1' : createHuffmanTree histo 18 5 tree (List.replicate 18 0) = .ok cl := hcl1
    rw [hcl1']
    simp only [Out.bind_ok]
    have hcl5m : ∀ x ∈ cl, x ≤ 5 := forall_mem_of_getD cl 5 (by rw [hcl2]; exact hcl4)
    have hcl15 : ∀ x ∈ cl, x ≤ 15 := fun x hx => by have := hcl5m x hx; omega
    obtain ⟨clBits, hb1, hb2, _, hb4⟩ := convert_spec cl (List.replicate 18 0) hcl15 (by omega)
      (by simp; omega)
    rw [hcl2] at hb1 hb4
    rw [hb1]
    simp only [Out.bind_ok]
    have hk5 : kraftSum 5 cl = 32 := hcl5
    have hcode : ClCode cl clBits :=
      { hlen := hcl2, hblen := by simpa using hb2, hall := hcl15,
        hk := by
          have := kraft_scale 5 10 cl hcl5m
          rw [show 5 + 10 = 15 from rfl, hk5] at this
          rw [this]; decide,
        h2 := by
          rw [nz_count_eq cl histo hcl2 hh2 hcl3]; exact hnz2,
        hbits := by
          intro s hs hne
          rw [hb4 s hs, if_pos hne] }
    have hio := symIO_of_clCode cl clBits hcode
    have hvalid : ∀ e ∈ writeHuffmanTreeWith (rleSwitches d).1 (rleSwitches d).2 d,
        ValidEntryU (fun s => cl.getD s 0 ≠ 0) e := by
      rw [← hE]
      intro e he
      have h18 : e.1 < 18 := hsyms18 e.1 (List.mem_map.mpr ⟨e, he, rfl⟩)
      refine ⟨h18, (hcl3 e.1 h18).mpr (hused e he), ?_, ?_⟩
      · intro h16; rcases hshape e he with h | h | h <;> omega
      · intro h17; rcases hshape e he with h | h | h <;> omega
    obtain ⟨hskip, body, hw, hs4, hs1, hrd⟩ := header_roundtrip cl hcl2 hcl5m 2
      (Or.inl ⟨by decide, hk5⟩) w
      ((E.map (entryBitsU fun s => bitsOf (cl.getD s 0) (clBits.getD s 0))).flatten ++ rest)
    rw [hw]
    simp only [Out.bind_ok, show ¬ (2 = 1) by decide, ↓reduceIte]
    obtain ⟨hst, hgo⟩ := store_entries_roundtripA hio d A hd h64 hk hA hz (rleSwitches d).1
      (rleSwitches d).2 hvalid (w ++ (bitsOf 2 hskip ++ body)) rest
    rw [← hE] at hst hgo
    refine ⟨bitsOf 2 hskip ++ body ++
      (E.map (entryBitsU fun s => bitsOf (cl.getD s 0) (clBits.getD s 0))).flatten, ?_, ?_⟩
    · rw [hst]; simp only [List.append_assoc]
    · simp only [List.append_assoc]
      exact readPrefixCode_complex A hskip cl (d.take A) body _ hs4 hs1 hrd rest hgo
  · -- a single code-length symbol in use: its code word has zero length
    obtain ⟨e0, he0⟩ := List.exists_mem_of_ne_nil E hEne
    have hs0 : e0.1 < 18 := hsyms18 e0.1 (List.mem_map.mpr ⟨e0, he0, rfl⟩)
    have hs0nz := hused e0 he0
    have hothers : ∀ q, q < 18 → q ≠ e0.1 → histo.getD q 0 = 0 := by
      intro q hq hne
      by_cases hz : histo.getD q 0 = 0
      · exact hz
      · exfalso
        apply hnz2
        rcases Nat.lt_or_gt_of_ne hne with h | h
        · exact two_nz histo q e0.1 h (by omega) hz hs0nz
        · exact two_nz histo e0.1 q h (by omega) hs0nz hz
    generalize e0.1 = s0 at hs0 hs0nz hothers
    have hpair := numCodes_one histo 0 0 s0 (by omega) hs0nz
      (fun q hq hne => hothers q (by omega) hne)
    rw [hpair]
    simp only [Nat.zero_add]
    rw [create_single histo s0 tree hh2 hs0 hs0nz hothers htl]
    simp only [Out.bind_ok]
    obtain ⟨hcv, hk16, hfilt, hset, h5⟩ := single_facts ⟨s0, hs0⟩
    simp only at hcv hk16 hfilt hset h5
    rw [hcv]
    simp only [Out.bind_ok]
    have hcl18 : ((List.replicate 18 0).set s0 1).length = 18 := by simp
    have hio : SymIO (List.replicate 18 0) ((List.replicate 18 0).set s0 1) (List.replicate 18 0)
        (fun _ => []) (fun s => s = s0) :=
      { hlenW := by simp, hlenB := by simp,
        hw := by
          intro s w _ _
          simp only [replicate_getD]
          exact writeBits_ok 0 0 w (by decide) (by decide),
        hr := by
          intro s rest _ hs
          subst hs
          unfold readSym
          rw [hcl18, hfilt]
          rfl }
    have hvalid : ∀ e ∈ writeHuffmanTreeWith (rleSwitches d).1 (rleSwitches d).2 d,
        ValidEntryU (fun s => s = s0) e := by
      rw [← hE]
      intro e he
      have h18 : e.1 < 18 := hsyms18 e.1 (List.mem_map.mpr ⟨e, he, rfl⟩)
      refine ⟨h18, ?_, ?_, ?_⟩
      · by_cases hes : e.1 = s0
        · exact hes
        · exact absurd (hothers e.1 h18 hes) (hused e he)
      · intro h16; rcases hshape e he with h | h | h <;> omega
      · intro h17; rcases hshape e he with h | h | h <;> omega
    obtain ⟨hskip, body, hw, hs4, hs1, hrd⟩ := header_roundtrip ((List.replicate 18 0).set s0 1)
      hcl18 h5 1 (Or.inr ⟨by decide, by rw [hk16]; decide⟩) w
      ((E.map (entryBitsU fun _ => [])).flatten ++ rest)
    rw [hw]
    simp only [Out.bind_ok, ↓reduceIte]
    rw [setAt_of_lt _ s0 0 (by simp; omega), hset]
    simp only [Out.bind_ok]
    obtain ⟨hst, hgo⟩ := store_entries_roundtripA hio d A hd h64 hk hA hz (rleSwitches d).1
      (rleSwitches d).2 hvalid (w ++ (bitsOf 2 hskip ++ body)) rest
    rw [← hE] at hst hgo
    refine ⟨bitsOf 2 hskip ++ body ++ (E.map (entryBitsU fun _ => [])).flatten, ?_, ?_⟩
    · rw [hst]; simp only [List.append_assoc]
    · simp only [List.append_assoc]
      exact readPrefixCode_complex A hskip _ (d.take A) body _ hs4 hs1 hrd rest hgo


/-- `BrotliStoreHuffmanTree` on a Kraft-complete depth vector, read back by the RFC reader -/
theorem store_tree_roundtrip (d : List Nat) (tree : List Node) (h704 : d.length ≤ 704)
    (hd : ∀ x ∈ d, x ≤ 15) (hk : kraftSum 15 d = 32768) (htl : 37 ≤ tree.length) :
    ∃ w, storeHuffmanTree d d.length tree [] = .ok w ∧
      readPrefixCode d.length w = some (d, []) := by
  obtain ⟨bits, h1, h2⟩ := store_tree_roundtrip_ctx0 d d.length tree [] [] h704 hd hk htl
    (Nat.le_refl _) (fun i h1 h2 => by omega)
  refine ⟨bits, by simpa using h1, ?_⟩
  simpa using h2

/-- `BrotliStoreHuffmanTree(depths, num, …)` only looks at `depths[..num]` -/
theorem storeHuffmanTree_take (depths : List Nat) (num : Nat) (tree : List Node) (w : Writer)
    (h : num ≤ depths.length) :
    storeHuffmanTree depths num tree w = storeHuffmanTree (depths.take num) num tree w := by
  have hl : (depths.take num).length = num := by rw [List.length_take]; omega
  unfold storeHuffmanTree writeHuffmanTree
  have h1 : ¬ num > depths.length := by omega
  have h2 : ¬ num > (depths.take num).length := by omega
  simp only [h1, h2, ↓reduceIte, List.take_take, Nat.min_self]

/-- general form: any `num ≤ depths.len()`, the first `num` depths complete -/
theorem store_tree_roundtrip_gen (depths : List Nat) (num : Nat) (tree : List Node)
    (hnum : num ≤ depths.length) (h704 : num ≤ 704) (hd : ∀ x ∈ depths.take num, x ≤ 15)
    (hk : kraftSum 15 (depths.take num) = 32768) (htl : 37 ≤ tree.length) :
    ∃ w, storeHuffmanTree depths num tree [] = .ok w ∧
      readPrefixCode num w = some (depths.take num, []) := by
  have hl : (depths.take num).length = num := by rw [List.length_take]; omega
  have := store_tree_roundtrip (depths.take num) tree (by omega) hd hk htl
  rw [hl] at this
  rw [storeHuffmanTree_take depths num tree [] hnum]
  exact this


/-- `store_tree_roundtrip` in a bit-stream context: `w` already written, `rest` following,
the reader's alphabet size `A ≤ num` with `depths[A..num]` zero (e.g. the distance code:
140 histogram entries stored, 64 symbols read) -/
theorem store_tree_roundtrip_ctx (depths : List Nat) (num A : Nat) (tree : List Node)
    (w rest : List Bool) (hnum : num ≤ depths.length) (h704 : num ≤ 704)
    (hd : ∀ x ∈ depths.take num, x ≤ 15) (hk : kraftSum 15 (depths.take num) = 32768)
    (htl : 37 ≤ tree.length) (hA : A ≤ num)
    (hz : ∀ i, A ≤ i → i < num → depths.getD i 0 = 0) :
    ∃ bits, storeHuffmanTree depths num tree w = .ok (w ++ bits) ∧
      readPrefixCode A (bits ++ rest) = some (depths.take A, rest) := by
  have hl : (depths.take num).length = num := by rw [List.length_take]; omega
  obtain ⟨bits, h1, h2⟩ := store_tree_roundtrip_ctx0 (depths.take num) A tree w rest (by omega) hd hk
    htl (by omega) (by
      intro i hi1 hi2
      rw [hl] at hi2
      have := hz i hi1 hi2
      rw [List.getD_eq_getElem?_getD, List.getElem?_take, if_pos hi2, ← List.getD_eq_getElem?_getD]
      exact this)
  rw [hl] at h1
  refine ⟨bits, by rw [storeHuffmanTree_take depths num tree w hnum]; exact h1, ?_⟩
  rw [h2, List.take_take, Nat.min_eq_left hA]

end BV.Lemmas.HuffmanStoreTree
