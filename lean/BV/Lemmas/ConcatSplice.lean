/-
The header realignment of `shift_and_check_new_stream_header` at the bit level (C03).
-/
import BV.Lemmas.ConcatBits
import BV.Lemmas.ConcatShift
namespace BV.Concat
open Outcome BV.Gen

/-- byte `j` of the little-endian representation of `Y` -/
def leByte (Y j : Nat) : Nat := (Y >>> (8 * j)) % 256

theorem or_shr_shl_self (A k : Nat) : A ||| ((A >>> k) <<< k) = A := by
  apply Nat.eq_of_testBit_eq
  intro j
  rw [Nat.testBit_or, Nat.testBit_shiftLeft, Nat.testBit_shiftRight]
  by_cases h : j ≥ k
  · have : k + (j - k) = j := by omega
    simp [h, this]
  · simp [h]

theorem k_cases (k : Nat) (hk : k < 8) : k = 0 ∨ k = 1 ∨ k = 2 ∨ k = 3 ∨ k = 4 ∨ k = 5 ∨ k = 6 ∨ k = 7 := by omega

/-- first realigned byte: the `k` tail bits, then the first `8-k` bits of `X` -/
theorem realign_first (t X k : Nat) (hk : k < 8) (ht : t < 2 ^ k) :
    t ||| (((X &&& ((1 <<< (8 - k)) - 1)) <<< k) % 256) = leByte (t + X * 2 ^ k) 0 := by
  unfold leByte
  rw [Nat.one_shiftLeft, Nat.and_two_pow_sub_one_eq_mod]
  simp only [Nat.mul_zero, Nat.shiftRight_zero]
  have hlt : (X % 2 ^ (8 - k)) <<< k < 256 := by
    rw [Nat.shiftLeft_eq]
    rcases k_cases k hk with rfl | rfl | rfl | rfl | rfl | rfl | rfl | rfl <;> simp <;> omega
  rw [Nat.mod_eq_of_lt hlt, Nat.or_comm, ← Nat.shiftLeft_add_eq_or_of_lt ht, Nat.shiftLeft_eq]
  rcases k_cases k hk with rfl | rfl | rfl | rfl | rfl | rfl | rfl | rfl <;> simp at ht ⊢ <;> omega

/-- a later realigned byte: OR-ing in the low part of the next source byte adds nothing new -/
theorem realign_next (x k : Nat) (hk : k < 8) :
    ((x >>> (8 - k)) % 256) ||| ((((x >>> 8) &&& ((1 <<< (8 - k)) - 1)) <<< k) % 256) = (x >>> (8 - k)) % 256 := by
  have key : (((x >>> 8) &&& ((1 <<< (8 - k)) - 1)) <<< k) % 256 = (((x >>> (8 - k)) % 256) >>> k) <<< k := by
    rw [Nat.one_shiftLeft, Nat.and_two_pow_sub_one_eq_mod]
    simp only [Nat.shiftLeft_eq, Nat.shiftRight_eq_div_pow]
    rcases k_cases k hk with rfl | rfl | rfl | rfl | rfl | rfl | rfl | rfl <;> simp <;> omega
  rw [key, or_shr_shl_self]

/-- …and it is the corresponding byte of `t + X·2^k` -/
theorem realign_byte (t X k j : Nat) (hk : k < 8) (ht : t < 2 ^ k) :
    ((X >>> (8 * j)) >>> (8 - k)) % 256 = leByte (t + X * 2 ^ k) (j + 1) := by
  unfold leByte
  simp only [Nat.shiftRight_eq_div_pow]
  have e : 2 ^ (8 * (j + 1)) = 2 ^ k * (2 ^ (8 * j) * 2 ^ (8 - k)) := by
    rw [← Nat.pow_add, ← Nat.pow_add]; congr 1; omega
  rw [e, ← Nat.div_div_eq_div_mul, Nat.div_div_eq_div_mul X]
  have : (t + X * 2 ^ k) / 2 ^ k = X := by
    rw [Nat.add_comm, Nat.mul_comm, Nat.mul_add_div (Nat.pow_pos (by decide)), Nat.div_eq_of_lt ht, Nat.add_zero]
  rw [this]


/-- loop invariant of the realignment loop before iteration `i`: bytes below `i` are final,
byte `i` holds the bits already known (`t` for the first, the final value afterwards), the
rest is still zero -/
structure RealignInv (Y t : Nat) (i : Nat) (rh : List Nat) : Prop where
  len : rh.length = 6
  below : ∀ j, j < i → rh[j]? = some (leByte Y j)
  cur : rh[i]? = some (if i = 0 then t else leByte Y i)
  above : ∀ j, i < j → j < 6 → rh[j]? = some 0

theorem realignStep_inv (t X k i : Nat) (rh : List Nat) (hk : k < 8) (ht : t < 2 ^ k) (hi : i < 5)
    (h : RealignInv (t + X * 2 ^ k) t i rh) :
    (realignStep X k i rh).sat (RealignInv (t + X * 2 ^ k) t (i + 1)) := by
  unfold realignStep
  refine sat_ite (fun _ => by omega) (fun _ => ?_)
  dsimp only
  refine sat_ite (fun _ => by omega) (fun _ => ?_)
  have hlen := h.len
  simp only [idx, h.cur, bind_ok, setAt]
  rw [if_pos (by omega)]
  simp only [bind_ok]
  rw [if_pos (by simp; omega)]
  rw [sat_ok]
  -- value written at position i
  have hval : ((if i = 0 then t else leByte (t + X * 2 ^ k) i) |||
      (((X >>> (i * 8)) &&& ((1 <<< (8 - k)) - 1)) <<< k) % 256) = leByte (t + X * 2 ^ k) i := by
    by_cases h0 : i = 0
    · subst h0; simp only [if_true, Nat.zero_mul, Nat.shiftRight_zero]; exact realign_first t X k hk ht
    · rw [if_neg h0]
      obtain ⟨j, rfl⟩ : ∃ j, i = j + 1 := ⟨i - 1, by omega⟩
      rw [← realign_byte t X k j hk ht]
      have e : X >>> ((j + 1) * 8) = (X >>> (8 * j)) >>> 8 := by
        rw [← Nat.shiftRight_add]; congr 1; omega
      rw [e]
      exact realign_next (X >>> (8 * j)) k hk
  have hnext : (X >>> (i * 8)) >>> (8 - k) % 256 = leByte (t + X * 2 ^ k) (i + 1) := by
    have := realign_byte t X k i hk ht
    rw [Nat.mul_comm] at this; exact this
  rw [hval, hnext]
  refine ⟨by simp [hlen], ?_, ?_, ?_⟩
  · intro j hj
    rw [List.getElem?_set, List.getElem?_set]
    by_cases e1 : i + 1 = j
    · omega
    · rw [if_neg e1]
      by_cases e2 : i = j
      · subst e2; rw [if_pos rfl, if_pos (by omega)]
      · rw [if_neg e2]; exact h.below j (by omega)
  · rw [List.getElem?_set, if_pos rfl, if_pos (by simp; omega)]
    simp
  · intro j hj hj6
    rw [List.getElem?_set, List.getElem?_set, if_neg (by omega), if_neg (by omega)]
    exact h.above j (by omega) hj6

theorem realignLoop_inv (t X k n : Nat) (rh : List Nat) (hk : k < 8) (ht : t < 2 ^ k) (hn : n ≤ 5)
    (h : RealignInv (t + X * 2 ^ k) t 0 rh) :
    (forRange (realignStep X k) n 0 rh).sat (RealignInv (t + X * 2 ^ k) t n) := by
  have := forRange_sat (realignStep X k) (RealignInv (t + X * 2 ^ k) t) n 0 rh h
    (fun i a _ hi hI => realignStep_inv t X k i a hk ht (by omega) hI)
  simpa using this


/-! ### the whole-byte copy and the assembled header -/

theorem B5.ofList?_toList (l : List Nat) (b : B5) (h : B5.ofList? l = some b) : b.toList = l := by
  match l, h with
  | [a0, a1, a2, a3, a4], h => simp only [B5.ofList?, Option.some.injEq] at h; subst h; rfl

theorem B5.get?_eq (b : B5) (i : Nat) : b.get? i = b.toList[i]? := by
  match i with
  | 0 => rfl | 1 => rfl | 2 => rfl | 3 => rfl | 4 => rfl
  | n + 5 => simp [B5.get?, B5.toList]

structure CopyInv (b : B5) (src dst : Nat) (rh0 : List Nat) (a : Nat) (rh : List Nat) : Prop where
  len : rh.length = 6
  below : ∀ j, j < dst → rh[j]? = rh0[j]?
  done : ∀ c, c < a → rh[dst + c]? = b.toList[src + c]?

theorem copyWholeLoop_inv (b : B5) (src dst n : Nat) (rh0 : List Nat) (hs : src + n ≤ 5) (hd : dst + n ≤ 6)
    (hl : rh0.length = 6) :
    (copyWholeLoop b src dst n rh0).sat (CopyInv b src dst rh0 n) := by
  unfold copyWholeLoop
  refine sat_mono (forRange_sat _ (CopyInv b src dst rh0) n 0 rh0
    ⟨hl, fun _ _ => rfl, fun c hc => by omega⟩ ?_) (fun r h => by simpa using h)
  intro i rh _ hi hI
  obtain ⟨v, hv⟩ := B5.get?_lt b (src + i) (by omega)
  rw [hv]
  dsimp only
  unfold setAt
  rw [if_pos (by rw [hI.len]; omega), sat_ok]
  refine ⟨by simp [hI.len], fun j hj => ?_, fun c hc => ?_⟩
  · rw [List.getElem?_set, if_neg (by omega)]; exact hI.below j hj
  · rw [List.getElem?_set]
    by_cases e : dst + i = dst + c
    · rw [if_pos e, if_pos (by rw [hI.len]; omega)]
      have : c = i := by omega
      subst this
      rw [← B5.get?_eq, hv]
    · rw [if_neg e]; exact hI.done c (by omega)

/-- The realigned header, byte by byte.  With `k` tail bits `t`, window field of `wo` bits,
first meta-block header ending at bit `v`, `H` the little-endian value of the look-ahead
bytes and `X = (H >> wo) mod 2^(v-wo)` the member's header bits between the window field and
`v`: the first `dest = ⌈(k + v - wo)/8⌉` bytes written are the little-endian bytes of
`t + X·2^k` (tail bits, then the header bits, then zero padding), and they are followed by
the member's look-ahead bytes from `⌈v/8⌉` on, unchanged.  `R` = the byte pushed to the
output followed by the bytes left in `bytes_so_far` for copy-out. -/
theorem splice_header_gen (s : State) (nsp : NewStreamData) (wo v H : Nat) (out : List Nat) (cap : Nat)
    (hoff : s.last_byte_bit_offset < 8) (ht : s.last_bytes.1 < 2 ^ s.last_byte_bit_offset)
    (hr : nsp.num_bytes_read ≤ 5) (hH : packB5 nsp.bytes_so_far nsp.num_bytes_read = ok H)
    (hwo : wo ≤ 14) (hv : wo + 2 ≤ v) (hsrc : (v + 7) / 8 ≤ nsp.num_bytes_read) (hout : out.length < cap) :
    ∃ r0 nsp', shiftRealign s nsp wo v out cap
        = ok ({ s with any_bytes_emitted := true }, nsp', out ++ [r0]) ∧
      nsp'.num_bytes_written = some 0 ∧
      nsp'.num_bytes_read + 1 = (s.last_byte_bit_offset + v - wo + 7) / 8 + (nsp.num_bytes_read - (v + 7) / 8) ∧
      (∀ j, j < (s.last_byte_bit_offset + v - wo + 7) / 8 →
        (r0 :: nsp'.bytes_so_far.toList.take nsp'.num_bytes_read)[j]? =
          some (leByte (s.last_bytes.1 +
            ((H >>> wo) &&& ((1 <<< (v - wo)) - 1)) * 2 ^ s.last_byte_bit_offset) j)) ∧
      (∀ a, a < nsp.num_bytes_read - (v + 7) / 8 →
        (r0 :: nsp'.bytes_so_far.toList.take nsp'.num_bytes_read)[(s.last_byte_bit_offset + v - wo + 7) / 8 + a]? =
          nsp.bytes_so_far.toList[(v + 7) / 8 + a]?) := by
  unfold shiftRealign
  dsimp only
  rw [hH]
  simp only [bind_ok]
  rw [if_neg (by omega), if_neg (by omega)]
  have hinv0 : RealignInv (s.last_bytes.1 + ((H >>> wo) &&& ((1 <<< (v - wo)) - 1)) * 2 ^ s.last_byte_bit_offset)
      s.last_bytes.1 0 [s.last_bytes.1, 0, 0, 0, 0, 0] := by
    refine ⟨rfl, fun j hj => by omega, by simp, fun j h1 h6 => ?_⟩
    have : j = 1 ∨ j = 2 ∨ j = 3 ∨ j = 4 ∨ j = 5 := by omega
    rcases this with rfl | rfl | rfl | rfl | rfl <;> rfl
  obtain ⟨rh1, e1, inv1⟩ := sat_iff.mp (realignLoop_inv s.last_bytes.1 ((H >>> wo) &&& ((1 <<< (v - wo)) - 1))
    s.last_byte_bit_offset ((v - wo + 7) / 8) _ hoff ht (by omega) hinv0)
  rw [e1]
  simp only [bind_ok]
  rw [if_neg (by omega), if_neg (by omega)]
  obtain ⟨rh2, e2, inv2⟩ := sat_iff.mp (copyWholeLoop_inv nsp.bytes_so_far ((v + 7) / 8)
    ((s.last_byte_bit_offset + v - wo + 7) / 8) (nsp.num_bytes_read - (v + 7) / 8) rh1 (by omega) (by omega) inv1.len)
  rw [e2]
  simp only [bind_ok]
  -- every byte below `dest` of rh1 is final
  have hfinal : ∀ j, j < (s.last_byte_bit_offset + v - wo + 7) / 8 → rh2[j]? = some (leByte
      (s.last_bytes.1 + ((H >>> wo) &&& ((1 <<< (v - wo)) - 1)) * 2 ^ s.last_byte_bit_offset) j) := by
    intro j hj
    rw [inv2.below j hj]
    by_cases hjn : j < (v - wo + 7) / 8
    · exact inv1.below j hjn
    · have : j = (v - wo + 7) / 8 := by omega
      subst this
      rw [inv1.cur, if_neg (by omega)]
  have h0 := hfinal 0 (by omega)
  simp only [idx, h0, bind_ok, push]
  rw [if_pos hout]
  simp only [bind_ok]
  have hsum : (s.last_byte_bit_offset + v - wo + 7) / 8 + (nsp.num_bytes_read - (v + 7) / 8) < 256 := by omega
  rw [Nat.mod_eq_of_lt hsum, if_neg (by omega)]
  obtain ⟨b5, hb5⟩ := B5.ofList?_len5 (rh2.drop 1) (by simp [inv2.len])
  rw [hb5]
  have hb5l := B5.ofList?_toList _ _ hb5
  refine ⟨_, _, rfl, rfl, by dsimp only; omega, ?_, ?_⟩
  · intro j hj
    dsimp only
    rw [hb5l]
    cases j with
    | zero => simp
    | succ j' =>
      rw [List.getElem?_cons_succ, List.getElem?_take, if_pos (by omega), List.getElem?_drop]
      rw [Nat.add_comm 1 j']
      exact hfinal (j' + 1) hj
  · intro a ha
    dsimp only
    rw [hb5l]
    have hd1 : 1 ≤ (s.last_byte_bit_offset + v - wo + 7) / 8 := by omega
    obtain ⟨dd, hdd⟩ : ∃ dd, (s.last_byte_bit_offset + v - wo + 7) / 8 = dd + 1 := ⟨_, (Nat.sub_add_cancel hd1).symm⟩
    have e : dd + 1 + a = (dd + a) + 1 := by omega
    rw [hdd, e, List.getElem?_cons_succ, List.getElem?_take, if_pos (by omega), List.getElem?_drop]
    have := inv2.done a ha
    rw [hdd] at this
    rw [← this]
    congr 1; omega


/-! ### bit-string view of the assembled header -/

theorem leByte_succ (Y j : Nat) : leByte Y (j + 1) = leByte (Y / 256) j := by
  unfold leByte
  rw [Nat.shiftRight_eq_div_pow, Nat.shiftRight_eq_div_pow, Nat.div_div_eq_div_mul]
  have : 2 ^ (8 * (j + 1)) = 256 * 2 ^ (8 * j) := by
    rw [show 8 * (j + 1) = 8 + 8 * j by omega, Nat.pow_add]
  rw [this]

/-- bytes that are the little-endian bytes of `Y` read, as bits, like `Y` itself -/
theorem bytesToBits_le : ∀ (n : Nat) (R : List Nat) (Y : Nat),
    (∀ j, j < n → R[j]? = some (leByte Y j)) → bytesToBits (R.take n) = bitsOf (8 * n) Y := by
  intro n
  induction n with
  | zero => intro R Y _; simp [bytesToBits, bitsOf]
  | succ n ih =>
    intro R Y h
    cases R with
    | nil => have := h 0 (by omega); simp at this
    | cons r R' =>
      have h0 := h 0 (by omega)
      simp only [List.getElem?_cons_zero, Option.some.injEq] at h0
      have hrest : ∀ j, j < n → R'[j]? = some (leByte (Y / 256) j) := by
        intro j hj
        have := h (j + 1) (by omega)
        rw [List.getElem?_cons_succ, leByte_succ] at this
        exact this
      have e : 8 * (n + 1) = 8 + 8 * n := by omega
      rw [List.take_succ_cons, e, bitsOf_append]
      have := ih R' (Y / 256) hrest
      unfold bytesToBits at this ⊢
      rw [List.flatMap_cons, this, h0]
      unfold leByte
      simp only [Nat.mul_zero, Nat.shiftRight_zero]
      rw [show (256 : Nat) = 2 ^ 8 by decide, bitsOf_mod]

/-- `t + X·2^k` as bits: the `k` tail bits, the `d` bits of `X`, zero padding -/
theorem spliced_bits (t X k d m : Nat) (ht : t < 2 ^ k) (hX : X < 2 ^ d) (hm : k + d ≤ m) :
    bitsOf m (t + X * 2 ^ k) = bitsOf k t ++ bitsOf d X ++ List.replicate (m - k - d) false := by
  have e : m = k + (d + (m - k - d)) := by omega
  have hmod : (t + X * 2 ^ k) % 2 ^ k = t := by
    rw [Nat.add_mul_mod_self_right, Nat.mod_eq_of_lt ht]
  have hdiv : (t + X * 2 ^ k) / 2 ^ k = X := by
    rw [Nat.add_comm, Nat.mul_comm, Nat.mul_add_div (Nat.pow_pos (by decide)), Nat.div_eq_of_lt ht, Nat.add_zero]
  conv => lhs; rw [e]
  rw [bitsOf_append, ← bitsOf_mod k, hmod, hdiv, bitsOf_append, Nat.div_eq_of_lt hX, bitsOf_zero,
    List.append_assoc]

/-- the bits `wo ..< wo + d` of `H` -/
theorem field_bits (H wo d : Nat) :
    bitsOf d ((H >>> wo) &&& ((1 <<< d) - 1)) = ((bitsOf (wo + d) H).drop wo) := by
  rw [Nat.one_shiftLeft, Nat.and_two_pow_sub_one_eq_mod, bitsOf_mod, bitsOf_append, Nat.shiftRight_eq_div_pow,
    List.drop_left' (bitsOf_length wo H)]

theorem or_shl_add (acc b i : Nat) (h : acc < 2 ^ i) : acc ||| (b <<< i) = acc + b * 2 ^ i := by
  rw [Nat.or_comm, ← Nat.shiftLeft_add_eq_or_of_lt h, Nat.shiftLeft_eq, Nat.add_comm]

/-- the look-ahead bytes packed by the `u64` loop are their little-endian value -/
theorem packB5_value (b : B5) (n : Nat) (hn : n ≤ 5) (h0 : b.b0 < 256) (h1 : b.b1 < 256) (h2 : b.b2 < 256)
    (h3 : b.b3 < 256) (h4 : b.b4 < 256) :
    ∃ H, packB5 b n = ok H ∧ ∀ j, j < n → b.toList[j]? = some (leByte H j) := by
  have hn' : n = 0 ∨ n = 1 ∨ n = 2 ∨ n = 3 ∨ n = 4 ∨ n = 5 := by omega
  have e0 : (0 ||| b.b0 <<< 0) = b.b0 := by simp
  have e1 : b.b0 ||| b.b1 <<< 8 = b.b0 + b.b1 * 2 ^ 8 := or_shl_add _ _ _ (by omega)
  have e2 : (b.b0 + b.b1 * 2 ^ 8) ||| b.b2 <<< 16 = b.b0 + b.b1 * 2 ^ 8 + b.b2 * 2 ^ 16 :=
    or_shl_add _ _ _ (by omega)
  have e3 : (b.b0 + b.b1 * 2 ^ 8 + b.b2 * 2 ^ 16) ||| b.b3 <<< 24
      = b.b0 + b.b1 * 2 ^ 8 + b.b2 * 2 ^ 16 + b.b3 * 2 ^ 24 := or_shl_add _ _ _ (by omega)
  have e4 : (b.b0 + b.b1 * 2 ^ 8 + b.b2 * 2 ^ 16 + b.b3 * 2 ^ 24) ||| b.b4 <<< 32
      = b.b0 + b.b1 * 2 ^ 8 + b.b2 * 2 ^ 16 + b.b3 * 2 ^ 24 + b.b4 * 2 ^ 32 := or_shl_add _ _ _ (by omega)
  rcases hn' with rfl | rfl | rfl | rfl | rfl | rfl
  · exact ⟨0, rfl, fun j hj => by omega⟩
  all_goals
    simp only [packB5, forRange, B5.get?, bind_ok, Nat.zero_add, Nat.reduceAdd, Nat.reduceMul, Nat.reduceLeDiff,
      ge_iff_le, if_false, e0, e1, e2, e3, e4]
    refine ⟨_, rfl, fun j hj => ?_⟩
    unfold leByte
    simp only [Nat.shiftRight_eq_div_pow, B5.toList]
    have hj' : j = 0 ∨ j = 1 ∨ j = 2 ∨ j = 3 ∨ j = 4 := by omega
    rcases hj' with rfl | rfl | rfl | rfl | rfl <;> simp <;> omega

theorem bitsOf_take (a b H : Nat) : (bitsOf (a + b) H).take a = bitsOf a H := by
  rw [bitsOf_append, List.take_left' (bitsOf_length a H)]

/-- The realigned header as an LSB-first bit string: the `k` tail bits, then the member's
header bits from the end of its window field (`wo`) up to `v`, then zero padding to the
byte boundary; after these `dest` bytes the member's look-ahead bytes from `⌈v/8⌉` on follow
unchanged. -/
theorem splice_header_bits (s : State) (nsp : NewStreamData) (wo v : Nat) (out : List Nat) (cap : Nat)
    (hoff : s.last_byte_bit_offset < 8) (ht : s.last_bytes.1 < 2 ^ s.last_byte_bit_offset)
    (hr : nsp.num_bytes_read ≤ 5)
    (h0 : nsp.bytes_so_far.b0 < 256) (h1 : nsp.bytes_so_far.b1 < 256) (h2 : nsp.bytes_so_far.b2 < 256)
    (h3 : nsp.bytes_so_far.b3 < 256) (h4 : nsp.bytes_so_far.b4 < 256)
    (hwo : wo ≤ 14) (hv : wo + 2 ≤ v) (hsrc : (v + 7) / 8 ≤ nsp.num_bytes_read) (hout : out.length < cap) :
    ∃ r0 nsp', shiftRealign s nsp wo v out cap
        = ok ({ s with any_bytes_emitted := true }, nsp', out ++ [r0]) ∧
      nsp'.num_bytes_written = some 0 ∧ nsp'.num_bytes_read ≤ 5 ∧
      bytesToBits ((r0 :: nsp'.bytes_so_far.toList.take nsp'.num_bytes_read).take
          ((s.last_byte_bit_offset + v - wo + 7) / 8))
        = bitsOf s.last_byte_bit_offset s.last_bytes.1 ++
          ((bytesToBits (nsp.bytes_so_far.toList.take nsp.num_bytes_read)).drop wo).take (v - wo) ++
          List.replicate (8 * ((s.last_byte_bit_offset + v - wo + 7) / 8) - s.last_byte_bit_offset - (v - wo)) false ∧
      (r0 :: nsp'.bytes_so_far.toList.take nsp'.num_bytes_read).drop ((s.last_byte_bit_offset + v - wo + 7) / 8)
        = (nsp.bytes_so_far.toList.take nsp.num_bytes_read).drop ((v + 7) / 8) := by
  obtain ⟨H, hH, hHb⟩ := packB5_value nsp.bytes_so_far nsp.num_bytes_read hr h0 h1 h2 h3 h4
  obtain ⟨r0, nsp', e, hw, hrd, hlow, hhigh⟩ :=
    splice_header_gen s nsp wo v H out cap hoff ht hr hH hwo hv hsrc hout
  refine ⟨r0, nsp', e, hw, by omega, ?_, ?_⟩
  · rw [bytesToBits_le _ _ _ hlow]
    have hX : ((H >>> wo) &&& ((1 <<< (v - wo)) - 1)) < 2 ^ (v - wo) := by
      rw [Nat.one_shiftLeft, Nat.and_two_pow_sub_one_eq_mod]
      exact Nat.mod_lt _ (Nat.pow_pos (by decide))
    rw [spliced_bits _ _ _ (v - wo) _ ht hX (by omega), field_bits]
    have hbits : bytesToBits (nsp.bytes_so_far.toList.take nsp.num_bytes_read) = bitsOf (8 * nsp.num_bytes_read) H :=
      bytesToBits_le _ _ _ hHb
    rw [hbits]
    have e1 : wo + (v - wo) = v := by omega
    have e2 : 8 * nsp.num_bytes_read = v + (8 * nsp.num_bytes_read - v) := by omega
    rw [e1, ← List.drop_take]
    rw [e2, bitsOf_take]
  · apply List.ext_getElem?
    intro i
    have hlen : (r0 :: nsp'.bytes_so_far.toList.take nsp'.num_bytes_read).length = nsp'.num_bytes_read + 1 := by
      simp only [List.length_cons, List.length_take, B5.toList_length]; omega
    rw [List.getElem?_drop, List.getElem?_drop]
    by_cases hi : i < nsp.num_bytes_read - (v + 7) / 8
    · rw [hhigh i hi, List.getElem?_take, if_pos (by omega)]
    · rw [List.getElem?_eq_none (by rw [hlen]; omega), List.getElem?_eq_none]
      simp only [List.length_take, B5.toList_length]; omega

end BV.Concat
