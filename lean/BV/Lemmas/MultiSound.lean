/-
Helper lemmas for C02: `CompressMulti` returns `Ok` exactly when every job is `Ok` and the
reference splice of the job outputs (index order) succeeds.
-/
import BV.Lemmas.MultiRun

namespace BV.Lemmas.Multi
open BV.Multi BV.Multi.Res

theorem joinedList_length (sp : Spawner) (t : Nat) (jobs : Nat → JobRes) : (joinedList sp t jobs).length = t - 1 := by
  simp [joinedList]

theorem joinedList_get (sp : Spawner) (t : Nat) (jobs : Nat → JobRes) (i : Nat) (hi : i < t - 1) :
    (joinedList sp t jobs)[i]? = some (joined sp (jobs i)) := by
  simp [joinedList, List.getElem?_map, List.getElem?_range hi]

/-- `bs` lists the outputs of the jobs `0 .. t-1` -/
def JobsAre (jobs : Nat → JobRes) (bs : List (List Nat)) : Prop := ∀ i b, bs[i]? = some b → jobs i = .ok b

theorem tailRun_ok_sound {sp : Spawner} {t : Nat} {jobs : Nat → JobRes} {cap : Nat} {r : MultiRet} {k : Nat}
    (ht : t ≠ 0) (h : tailRun cap (joinedList sp t jobs) (jobs (t - 1)) = ok r) (hk : r.result = .ok k) :
    ∃ bs : List (List Nat), bs.length = t ∧ JobsAre jobs bs ∧ spliceAll cap bs = some r.out ∧
      k = r.out.length ∧ r.returned = true := by
  unfold tailRun at h
  obtain ⟨x, hx, h⟩ := bind_eq_ok h
  cases x with
  | inr e => simp only [ok.injEq] at h; subst h; cases hk
  | inl a =>
    dsimp only at h
    obtain ⟨a2, hl, hf⟩ := bind_eq_ok h
    obtain ⟨hok2, hfin, hklen, hret⟩ := finishUp_ok hf hk
    obtain ⟨hok1, bytes, hlast, hsl⟩ := stitchLast_ok hl hok2
    obtain ⟨_, bs', hjs, hsp, _⟩ := stitch_sound cap _ acc0 a hx hok1
    have hlen' : bs'.length = t - 1 := by
      have := congrArg List.length hjs
      rw [joinedList_length, List.length_map] at this
      exact this.symm
    refine ⟨bs' ++ [bytes], by simp [hlen']; omega, ?_, ?_, hklen, hret⟩
    · intro i b hb
      by_cases hi : i < bs'.length
      · rw [List.getElem?_append_left hi] at hb
        have h1 : (joinedList sp t jobs)[i]? = some (Joined.ok b) := by
          rw [hjs, List.getElem?_map, hb]; rfl
        rw [joinedList_get sp t jobs i (by omega)] at h1
        injection h1 with h1
        exact (joined_ok_iff sp _ b).mp h1
      · have hi' : bs'.length ≤ i := Nat.le_of_not_lt hi
        rw [List.getElem?_append_right hi'] at hb
        have h0 : i - bs'.length = 0 := by
          cases hd : i - bs'.length with
          | zero => rfl
          | succ m => rw [hd] at hb; simp at hb
        rw [h0] at hb
        simp only [List.getElem?_cons_zero, Option.some.injEq] at hb
        subst hb
        have : i = t - 1 := by omega
        rw [this]; exact hlast
    · unfold spliceAll
      rw [spliceMembers_append]
      have : spliceMembers cap bs' BV.Concat.State.new [] = some (a.cat, a.out) := hsp
      rw [this]
      simp only [Option.bind]
      rw [hsl]
      exact hfin

theorem tailRun_ok_complete {sp : Spawner} {t : Nat} {jobs : Nat → JobRes} {cap : Nat}
    (bs : List (List Nat)) (out : List Nat) (hlen : bs.length = t) (ht : t ≠ 0) (hj : JobsAre jobs bs)
    (hs : spliceAll cap bs = some out) :
    tailRun cap (joinedList sp t jobs) (jobs (t - 1)) = ok ⟨.ok out.length, out, true⟩ := by
  -- split off the last member
  have hne : bs ≠ [] := by intro h; subst h; simp at hlen; omega
  obtain ⟨bs', bl, rfl⟩ : ∃ bs' bl, bs = bs' ++ [bl] :=
    ⟨bs.dropLast, bs.getLast hne, (List.dropLast_concat_getLast hne).symm⟩
  have hlen' : bs'.length = t - 1 := by simp at hlen; omega
  have hlast : jobs (t - 1) = .ok bl := by
    apply hj (t - 1) bl
    rw [List.getElem?_append_right (by omega)]
    simp [hlen']
  have hjl : joinedList sp t jobs = bs'.map Joined.ok := by
    apply List.ext_getElem?
    intro i
    by_cases hi : i < t - 1
    · rw [joinedList_get sp t jobs i hi, List.getElem?_map]
      have hb : (bs' ++ [bl])[i]? = some bs'[i] := by
        rw [List.getElem?_append_left (by omega)]; exact List.getElem?_eq_getElem (by omega)
      rw [hj i _ hb, List.getElem?_eq_getElem (by omega)]
      rfl
    · rw [List.getElem?_eq_none (by rw [joinedList_length]; omega),
        List.getElem?_eq_none (by rw [List.length_map]; omega)]
  unfold spliceAll at hs
  rw [spliceMembers_append] at hs
  cases h1 : spliceMembers cap bs' BV.Concat.State.new [] with
  | none => rw [h1] at hs; simp at hs
  | some p =>
    obtain ⟨s1, o1⟩ := p
    rw [h1] at hs
    simp only [Option.bind] at hs
    cases h2 : spliceMembers cap [bl] s1 o1 with
    | none => rw [h2] at hs; simp at hs
    | some q =>
      obtain ⟨s2, o2⟩ := q
      rw [h2] at hs
      dsimp only at hs
      obtain ⟨k1, hst, _⟩ := stitch_complete cap bs' acc0 s1 o1 ⟨0, rfl⟩ h1
      obtain ⟨k2, hst2, hk2⟩ := stitch_complete cap [bl] ⟨.ok k1, o1, s1⟩ s2 o2 ⟨k1, rfl⟩ h2
      have hk2' := hk2 (by simp)
      subst hk2'
      -- the single-member loop is the last arm
      have hlastArm : stitchLast cap ⟨.ok k1, o1, s1⟩ (.ok bl) = ok ⟨.ok o2.length, o2, s2⟩ := by
        simp only [List.map_cons, List.map_nil, stitch] at hst2
        obtain ⟨a', ha', hb'⟩ := bind_eq_ok hst2
        simp only [ok.injEq, Sum.inl.injEq] at hb'
        subst hb'
        exact ha'
      unfold tailRun
      rw [hjl, hst, bind_ok]
      dsimp only
      rw [hlast, hlastArm, bind_ok]
      -- finish
      unfold spliceFinish at hs
      unfold finishUp
      dsimp only
      cases hf : BV.Concat.finish s2 (cap - o2.length) with
      | panic s => rw [hf] at hs; simp at hs
      | ok f =>
        rw [hf] at hs
        dsimp only at hs ⊢
        by_cases hc : f.code = BV.Concat.SUCCESS
        · rw [if_pos hc] at hs
          simp only [Option.some.injEq] at hs
          subst hs
          simp only [finishRes, if_pos hc]
        · rw [if_neg hc] at hs; simp at hs

end BV.Lemmas.Multi
