/-
Lemmas for C17: the RFC 7932 §3.2 canonical assignment is prefix-free, and
fits in the code lengths when the Kraft sum does not exceed 1.
-/
import BV.Lemmas.HuffmanCanon

namespace BV.Lemmas.HuffmanPrefix
open BV.Huffman BV.Lemmas.HuffmanCanon

/-- `Σ_{0 < j < l} (number of codes of length j) * 2^(L - j)`: the part of the
code space `[0, 2^L)` used by the codes shorter than `l` -/
def used (lens : List Nat) (L : Nat) : Nat → Nat
  | 0 => 0
  | l + 1 => used lens L l + cnt' lens l * 2 ^ (L - l)

theorem used_mono (lens : List Nat) (L : Nat) {a b : Nat} (h : a ≤ b) :
    used lens L a ≤ used lens L b := by
  induction b with
  | zero => have : a = 0 := by omega
            subst this; exact Nat.le_refl _
  | succ b ih =>
    by_cases hab : a = b + 1
    · subst hab; exact Nat.le_refl _
    · have := ih (by omega)
      simp only [used]; omega

/-- the first code of length `l`, scaled to `L` bits, starts where the shorter codes end -/
theorem firstCode_scaled (lens : List Nat) (L l : Nat) (h : l ≤ L) :
    firstCode lens l * 2 ^ (L - l) = used lens L l := by
  induction l with
  | zero => simp [firstCode, used]
  | succ l ih =>
    rw [firstCode_succ, used, ← ih (by omega), Nat.mul_assoc]
    have : 2 * 2 ^ (L - (l + 1)) = 2 ^ (L - l) := by
      have e : L - l = (L - (l + 1)) + 1 := by omega
      rw [e, Nat.pow_succ]; omega
    rw [this, Nat.add_mul]

theorem cnt'_cons (x : Nat) (xs : List Nat) (l : Nat) :
    cnt' (x :: xs) l = (if x = l ∧ l ≠ 0 then 1 else 0) + cnt' xs l := by
  unfold cnt'
  by_cases hl : l = 0
  · simp [hl]
  · simp only [hl, ↓reduceIte, countLen_cons, ne_eq, not_false_eq_true, and_true]

theorem used_cons (x : Nat) (xs : List Nat) (L l : Nat) :
    used (x :: xs) L l = used xs L l + (if x ≠ 0 ∧ x < l then 2 ^ (L - x) else 0) := by
  induction l with
  | zero => simp [used]
  | succ l ih =>
    simp only [used, ih, cnt'_cons, Nat.add_mul]
    by_cases hx : x = l
    · subst hx
      by_cases h0 : x = 0
      · subst h0
        rw [if_neg (by omega), if_neg (by omega), if_neg (by omega)]
        omega
      · rw [if_neg (by omega), if_pos ⟨rfl, h0⟩, if_pos ⟨h0, by omega⟩]
        omega
    · have h1 : ¬ (x = l ∧ l ≠ 0) := fun h => hx h.1
      rw [if_neg h1]
      by_cases h3 : x ≠ 0 ∧ x < l
      · rw [if_pos h3, if_pos ⟨h3.1, by omega⟩]
        omega
      · rw [if_neg h3, if_neg (fun h => h3 ⟨h.1, by omega⟩)]
        omega

/-- the Kraft sum (over symbols) is the code space used by all lengths `≤ L` -/
theorem kraftSum_eq_used (lens : List Nat) (L : Nat) (h : ∀ x ∈ lens, x ≤ L) :
    kraftSum L lens = used lens L (L + 1) := by
  induction lens with
  | nil =>
    have : ∀ l, used [] L l = 0 := by
      intro l; induction l with
      | zero => rfl
      | succ l ih => simp [used, ih, cnt', countLen]
    simp [kraftSum, this]
  | cons x xs ih =>
    have hx := h x (by simp)
    rw [used_cons, ← ih (fun y hy => h y (List.mem_cons_of_mem _ hy))]
    simp only [kraftSum, List.map_cons, List.sum_cons]
    by_cases h0 : x = 0
    · rw [if_pos h0, if_neg (fun h => h.1 h0)]; omega
    · rw [if_neg h0, if_pos ⟨h0, by omega⟩]; omega

theorem countLen_take_mono (lens : List Nat) (l : Nat) {a b : Nat} (h : a ≤ b) :
    countLen (lens.take a) l ≤ countLen (lens.take b) l := by
  have : lens.take b = lens.take a ++ (lens.take b).drop a := by
    have e : lens.take a = (lens.take b).take a := by
      rw [List.take_take]; congr 1; omega
    rw [e, List.take_append_drop]
  rw [this, countLen_append]; omega

theorem countLen_take_succ (lens : List Nat) (i : Nat) (hi : i < lens.length) :
    countLen (lens.take (i + 1)) (lens.getD i 0) = countLen (lens.take i) (lens.getD i 0) + 1 := by
  rw [List.take_add_one, countLen_append, List.getD_eq_getElem?_getD,
    List.getElem?_eq_getElem hi]
  simp [countLen]

/-- rank of symbol `i` among the symbols of its length is below their number -/
theorem rank_lt (lens : List Nat) (i : Nat) (hi : i < lens.length) :
    countLen (lens.take i) (lens.getD i 0) < countLen lens (lens.getD i 0) := by
  have h1 := countLen_take_succ lens i hi
  have h2 := countLen_take_mono lens (lens.getD i 0) (show i + 1 ≤ lens.length by omega)
  rw [List.take_length] at h2
  omega

/-- the scaled interval of symbol `i` ends within the space used by lengths `≤ lens[i]` -/
theorem code_end_le (lens : List Nat) (L i : Nat) (hi : i < lens.length)
    (h0 : lens.getD i 0 ≠ 0) (hL : lens.getD i 0 ≤ L) :
    ((canonicalCodes lens).getD i 0 + 1) * 2 ^ (L - lens.getD i 0)
      ≤ used lens L (lens.getD i 0 + 1) := by
  rw [canonicalCodes_getD lens i hi, if_neg h0, used, ← firstCode_scaled lens L _ hL,
    ← Nat.add_mul]
  apply Nat.mul_le_mul_right
  have := rank_lt lens i hi
  unfold cnt'
  rw [if_neg h0]
  omega

/-- every canonical code fits in its length when the Kraft sum is at most 1 -/
theorem code_lt (lens : List Nat) (L i : Nat) (hi : i < lens.length)
    (hall : ∀ x ∈ lens, x ≤ L) (hk : kraftSum L lens ≤ 2 ^ L) (h0 : lens.getD i 0 ≠ 0) :
    (canonicalCodes lens).getD i 0 < 2 ^ lens.getD i 0 := by
  have hmem : lens.getD i 0 ∈ lens := by
    rw [List.getD_eq_getElem?_getD, List.getElem?_eq_getElem hi]; simp
  have hL := hall _ hmem
  have h1 := code_end_le lens L i hi h0 hL
  have h2 := used_mono lens L (show lens.getD i 0 + 1 ≤ L + 1 by omega)
  rw [← kraftSum_eq_used lens L hall] at h2
  have h3 : ((canonicalCodes lens).getD i 0 + 1) * 2 ^ (L - lens.getD i 0)
      ≤ 2 ^ lens.getD i 0 * 2 ^ (L - lens.getD i 0) := by
    rw [← Nat.pow_add]
    have : lens.getD i 0 + (L - lens.getD i 0) = L := by omega
    rw [this]; omega
  have hp : 0 < 2 ^ (L - lens.getD i 0) := Nat.pow_pos (by decide)
  have := Nat.le_of_mul_le_mul_right h3 hp
  omega

/-- canonical codes are prefix-free: the code of `i` is not the `lens[i]`-bit
prefix of the (not shorter) code of another symbol `j` -/
theorem prefix_free (lens : List Nat) (L i j : Nat) (hi : i < lens.length) (hj : j < lens.length)
    (hall : ∀ x ∈ lens, x ≤ L) (hij : i ≠ j)
    (hi0 : lens.getD i 0 ≠ 0) (hle : lens.getD i 0 ≤ lens.getD j 0) :
    (canonicalCodes lens).getD j 0 / 2 ^ (lens.getD j 0 - lens.getD i 0)
      ≠ (canonicalCodes lens).getD i 0 := by
  have hj0 : lens.getD j 0 ≠ 0 := by omega
  by_cases heq : lens.getD i 0 = lens.getD j 0
  · rw [← heq, Nat.sub_self, Nat.pow_zero, Nat.div_one, canonicalCodes_getD lens j hj,
      canonicalCodes_getD lens i hi, if_neg hi0, ← heq, if_neg hi0]
    intro h
    have hr : countLen (lens.take j) (lens.getD i 0) = countLen (lens.take i) (lens.getD i 0) := by
      omega
    rcases Nat.lt_or_gt_of_ne hij with hlt | hlt
    · have h1 := countLen_take_succ lens i hi
      have h2 := countLen_take_mono lens (lens.getD i 0) (show i + 1 ≤ j by omega)
      omega
    · have h1 := countLen_take_succ lens j hj
      rw [← heq] at h1
      have h2 := countLen_take_mono lens (lens.getD i 0) (show j + 1 ≤ i by omega)
      omega
  · intro h
    have hlt : lens.getD i 0 < lens.getD j 0 := by omega
    have hmemj : lens.getD j 0 ∈ lens := by
      rw [List.getD_eq_getElem?_getD, List.getElem?_eq_getElem hj]; simp
    have hLj := hall _ hmemj
    -- scaled start of `j` is at least the end of the space of lengths `≤ lens[i]`
    have hstart : used lens L (lens.getD i 0 + 1)
        ≤ (canonicalCodes lens).getD j 0 * 2 ^ (L - lens.getD j 0) := by
      have h1 := used_mono lens L (show lens.getD i 0 + 1 ≤ lens.getD j 0 by omega)
      rw [← firstCode_scaled lens L _ hLj] at h1
      rw [canonicalCodes_getD lens j hj, if_neg hj0, Nat.add_mul]
      omega
    have hend := code_end_le lens L i hi hi0 (by omega)
    -- from the prefix equation: c_j < (c_i + 1) * 2^(l_j - l_i)
    have hp : 0 < 2 ^ (lens.getD j 0 - lens.getD i 0) := Nat.pow_pos (by decide)
    have hlt2 : (canonicalCodes lens).getD j 0
        < ((canonicalCodes lens).getD i 0 + 1) * 2 ^ (lens.getD j 0 - lens.getD i 0) := by
      rw [← h]
      have := Nat.lt_div_mul_add (a := (canonicalCodes lens).getD j 0) hp
      rw [Nat.add_mul, Nat.one_mul]
      omega
    have hpow : 2 ^ (lens.getD j 0 - lens.getD i 0) * 2 ^ (L - lens.getD j 0)
        = 2 ^ (L - lens.getD i 0) := by
      rw [← Nat.pow_add]; congr 1; omega
    have hq : 0 < 2 ^ (L - lens.getD j 0) := Nat.pow_pos (by decide)
    have := Nat.mul_lt_mul_of_pos_right hlt2 hq
    rw [Nat.mul_assoc, hpow] at this
    omega

end BV.Lemmas.HuffmanPrefix
