import BV.Model.Hasher
/-! Lemmas about `forRange` (the model's `for i in a..b`), windows and ring masks. -/
namespace BV.Hasher

theorem forRange_zero {σ : Type} (f : Nat → σ → Option σ) (s : Nat) (x : σ) :
    forRange f s 0 x = some x := rfl

theorem forRange_succ {σ : Type} (f : Nat → σ → Option σ) (s n : Nat) (x : σ) :
    forRange f s (n + 1) x = (f s x).bind (forRange f (s + 1) n) := by
  simp only [forRange]
  cases f s x <;> rfl

theorem forRange_add {σ : Type} (f : Nat → σ → Option σ) (n m : Nat) :
    ∀ (s : Nat) (x : σ), forRange f s (n + m) x = (forRange f s n x).bind (forRange f (s + n) m) := by
  induction n with
  | zero => intro s x; simp [forRange_zero]
  | succ n ih =>
    intro s x
    rw [show n + 1 + m = (n + m) + 1 by omega, forRange_succ, forRange_succ]
    cases h : f s x with
    | none => rfl
    | some y =>
      simp only [Option.bind_some]
      rw [ih (s + 1) y, show s + 1 + n = s + (n + 1) by omega]

theorem forRange_congr {σ : Type} {f g : Nat → σ → Option σ} (n : Nat) :
    ∀ (s : Nat) (x : σ), (∀ i y, s ≤ i → i < s + n → f i y = g i y) →
      forRange f s n x = forRange g s n x := by
  induction n with
  | zero => intro s x _; rfl
  | succ n ih =>
    intro s x h
    rw [forRange_succ, forRange_succ, h s x (Nat.le_refl _) (by omega)]
    cases g s x with
    | none => rfl
    | some y =>
      simp only [Option.bind_some]
      exact ih (s + 1) y (fun i z h1 h2 => h i z (by omega) (by omega))

/-- `for k in 0..n { f(a + k) }` is `for i in a..a+n { f(i) }` -/
theorem forRange_shift {σ : Type} (f : Nat → σ → Option σ) (a n : Nat) :
    ∀ (s : Nat) (x : σ), forRange (fun k y => f (a + k) y) s n x = forRange f (a + s) n x := by
  induction n with
  | zero => intro s x; rfl
  | succ n ih =>
    intro s x
    rw [forRange_succ, forRange_succ]
    cases f (a + s) x with
    | none => rfl
    | some y => simp only [Option.bind_some]; rw [ih (s + 1) y]; rfl

/-- a loop over `n` chunks of `k` positions each is the loop over the `n * k` positions -/
theorem forRange_chunks {σ : Type} (f : Nat → σ → Option σ) (k s n : Nat) :
    ∀ (c0 : Nat) (x : σ),
      forRange (fun c y => forRange f (s + c * k) k y) c0 n x = forRange f (s + c0 * k) (n * k) x := by
  induction n with
  | zero => intro c0 x; simp [forRange_zero]
  | succ n ih =>
    intro c0 x
    rw [forRange_succ, show (n + 1) * k = k + n * k by rw [Nat.add_mul]; omega, forRange_add]
    cases forRange f (s + c0 * k) k x with
    | none => rfl
    | some y =>
      simp only [Option.bind_some]
      rw [ih (c0 + 1) y, show s + (c0 + 1) * k = s + c0 * k + k by rw [Nat.add_mul]; omega]

/-- a loop whose last step fails on every state fails -/
theorem forRange_last_none {σ : Type} (f : Nat → σ → Option σ) (n : Nat) :
    ∀ (s : Nat) (x : σ), (∀ y, f (s + n) y = none) → forRange f s (n + 1) x = none := by
  induction n with
  | zero => intro s x h; rw [forRange_succ, show f s x = none from h x]; rfl
  | succ n ih =>
    intro s x h
    rw [forRange_succ]
    cases f s x with
    | none => rfl
    | some y =>
      simp only [Option.bind_some]
      exact ih (s + 1) y (fun z => by rw [show s + 1 + n = s + (n + 1) by omega]; exact h z)

/-- invariants are carried through a loop -/
theorem forRange_inv {σ : Type} {f : Nat → σ → Option σ} {I : σ → Prop}
    (hI : ∀ i x y, I x → f i x = some y → I y) (n : Nat) :
    ∀ (s : Nat) (x y : σ), I x → forRange f s n x = some y → I y := by
  induction n with
  | zero => intro s x y hx h; simp [forRange_zero] at h; exact h ▸ hx
  | succ n ih =>
    intro s x y hx h
    rw [forRange_succ] at h
    cases hf : f s x with
    | none => simp [hf] at h
    | some z => simp [hf] at h; exact ih (s + 1) z y (hI s x z hx hf) h

theorem forRange_four {σ : Type} (f : Nat → σ → Option σ) (s : Nat) (x : σ) :
    forRange f s 4 x =
      (f s x).bind fun x1 => (f (s + 1) x1).bind fun x2 => (f (s + 2) x2).bind fun x3 =>
        f (s + 3) x3 := by
  rw [forRange_succ]
  cases f s x with
  | none => rfl
  | some x1 =>
    simp only [Option.bind_some]
    rw [forRange_succ]
    cases f (s + 1) x1 with
    | none => rfl
    | some x2 =>
      simp only [Option.bind_some]
      rw [forRange_succ]
      cases f (s + 1 + 1) x2 with
      | none => rfl
      | some x3 =>
        simp only [Option.bind_some]
        rw [forRange_succ]
        cases f (s + 1 + 1 + 1) x3 <;> rfl

/-! ### windows -/

theorem win_eq_some {data : ByteArray} {p n : Nat} {w : List Nat} (h : win data p n = some w) :
    p + n ≤ data.size ∧ w = (List.range n).map fun k => (data.get! (p + k)).toNat := by
  unfold win at h
  split at h
  · exact ⟨by assumption, by injection h with h; exact h.symm⟩
  · exact absurd h (by simp)

theorem win_eq_none {data : ByteArray} {p n : Nat} : win data p n = none ↔ data.size < p + n := by
  unfold win
  split <;> simp <;> omega

theorem win_length {data : ByteArray} {p n : Nat} {w : List Nat} (h : win data p n = some w) :
    w.length = n := by
  rw [(win_eq_some h).2]; simp

theorem win_lt {data : ByteArray} {p n : Nat} {w : List Nat} (h : win data p n = some w) :
    ∀ b ∈ w, b < 256 := by
  rw [(win_eq_some h).2]
  intro b hb
  simp only [List.mem_map] at hb
  obtain ⟨k, _, rfl⟩ := hb
  exact UInt8.toNat_lt _

/-- a window inside a window -/
theorem win_sub {data : ByteArray} {p n : Nat} {w : List Nat} (h : win data p n = some w)
    (a m : Nat) (ham : a + m ≤ n) : win data (p + a) m = some ((w.drop a).take m) := by
  obtain ⟨hsz, rfl⟩ := win_eq_some h
  unfold win
  rw [if_pos (by omega)]
  congr 1
  apply List.ext_getElem
  · simp; omega
  · intro k h1 h2
    simp [Nat.add_assoc]

/-- the window a longer read would need does not exist either -/
theorem win_none_of_le {data : ByteArray} {p n q m : Nat} (h : win data p n = none)
    (hle : p + n ≤ q + m) : win data q m = none := by
  rw [win_eq_none] at *; omega

/-! ### ring masks `2^k - 1` -/

theorem and_ringmask (ix k : Nat) : ix &&& (2 ^ k - 1) = ix % 2 ^ k :=
  Nat.and_two_pow_sub_one_eq_mod ix k

/-- inside a non-straddling chunk the masked offsets are consecutive -/
theorem ringmask_consecutive (ix k j : Nat) (h : ¬ (2 ^ k - 1 - (ix &&& (2 ^ k - 1)) < 3)) (hj : j ≤ 3) :
    (ix + j) &&& (2 ^ k - 1) = (ix &&& (2 ^ k - 1)) + j := by
  rw [and_ringmask, and_ringmask] at *
  have hp : 0 < 2 ^ k := Nat.pow_pos (by decide)
  have hlt : ix % 2 ^ k < 2 ^ k := Nat.mod_lt _ hp
  rw [Nat.add_mod, Nat.mod_eq_of_lt (a := j) (by omega), Nat.mod_eq_of_lt (by omega)]

end BV.Hasher
