/-
Helper lemmas for C18 (kept apart from the property statements in BV/Props/C18.lean).
-/
import BV.Model.PrefixArith

namespace BV.Lemmas.PrefixArith
open BV.Gen BV.PrefixArith

theorem short_codes_is_16 : BROTLI_NUM_DISTANCE_SHORT_CODES = 16 := by decide

theorem log2_bounds (n : Nat) (h : n ≠ 0) : 2 ^ log2Floor n ≤ n ∧ n < 2 ^ (log2Floor n + 1) :=
  ⟨Nat.log2_self_le h, Nat.lt_log2_self⟩

theorem log2_eq_of_bounds {n k : Nat} (h1 : 2 ^ k ≤ n) (h2 : n < 2 ^ (k + 1)) : log2Floor n = k := by
  have hn : n ≠ 0 := by
    have : 0 < 2 ^ k := Nat.pow_pos (by decide)
    omega
  have a := Nat.le_log2 hn |>.mpr h1
  have b := (Nat.log2_lt hn).mpr h2
  unfold log2Floor; omega

/-- the value `n` lies in the bucket of copy code `c` -/
def CopyBucket (n c : Nat) : Prop :=
  c < 24 ∧ kCopyBase.getD c 0 ≤ n ∧ n < kCopyBase.getD c 0 + 2 ^ kCopyExtra.getD c 0

/-- the value `n` lies in the bucket of insert code `c` -/
def InsBucket (n c : Nat) : Prop :=
  c < 24 ∧ kInsBase.getD c 0 ≤ n ∧ n < kInsBase.getD c 0 + 2 ^ kInsExtra.getD c 0

theorem quot_two_or_three {m k : Nat} (h1 : 2 ^ (k+1) ≤ m) (h2 : m < 2 ^ (k+2)) :
    m / 2 ^ k = 2 ∨ m / 2 ^ k = 3 := by
  have hp : 0 < 2 ^ k := Nat.pow_pos (by decide)
  have e1 : 2 ^ (k+1) = 2 * 2 ^ k := by rw [Nat.pow_succ]; omega
  have e2 : 2 ^ (k+2) = 4 * 2 ^ k := by rw [Nat.pow_succ, Nat.pow_succ]; omega
  have a : 2 ≤ m / 2 ^ k := (Nat.le_div_iff_mul_le hp).mpr (by omega)
  have b : m / 2 ^ k < 4 := (Nat.div_lt_iff_lt_mul hp).mpr (by omega)
  omega

theorem ins_small (n : Nat) (h6 : 6 ≤ n) (h : n < 130) : InsBucket n (getInsertLengthCode n) := by
  have fin : ∀ k, 1 ≤ k → k ≤ 5 → 2 ^ (k+1) ≤ n - 2 → n - 2 < 2 ^ (k + 2) →
      InsBucket n (getInsertLengthCode n) := by
    intro k hk1 hk5 h1 h2
    have e : getInsertLengthCode n = 2 * k + (n - 2) / 2 ^ k + 2 := by
      have := log2_eq_of_bounds h1 h2
      unfold getInsertLengthCode
      simp only [this]
      have a : ¬ n < 6 := by omega
      simp [a, h]
    rw [e]
    have hq := quot_two_or_three h1 h2
    have hk : k = 1 ∨ k = 2 ∨ k = 3 ∨ k = 4 ∨ k = 5 := by omega
    rcases hk with rfl | rfl | rfl | rfl | rfl <;>
    · rcases hq with e | e <;> rw [e] <;> simp [InsBucket, kInsBase, kInsExtra] <;> simp at h1 h2 <;> omega
  by_cases c1 : n < 10
  · exact fin 1 (by omega) (by omega) (by simp; omega) (by simp; omega)
  by_cases c2 : n < 18
  · exact fin 2 (by omega) (by omega) (by simp; omega) (by simp; omega)
  by_cases c3 : n < 34
  · exact fin 3 (by omega) (by omega) (by simp; omega) (by simp; omega)
  by_cases c4 : n < 66
  · exact fin 4 (by omega) (by omega) (by simp; omega) (by simp; omega)
  · exact fin 5 (by omega) (by omega) (by simp; omega) (by simp; omega)

theorem ins_mid (n : Nat) (h6 : 130 ≤ n) (h : n < 2114) : InsBucket n (getInsertLengthCode n) := by
  have fin : ∀ k, 6 ≤ k → k ≤ 10 → 2 ^ k ≤ n - 66 → n - 66 < 2 ^ (k + 1) →
      InsBucket n (getInsertLengthCode n) := by
    intro k hk1 hk5 h1 h2
    have e : getInsertLengthCode n = k + 10 := by
      have := log2_eq_of_bounds h1 h2
      unfold getInsertLengthCode
      simp only [this]
      have a : ¬ n < 6 := by omega
      have b : ¬ n < 130 := by omega
      simp [a, b, h]
    rw [e]
    have hk : k = 6 ∨ k = 7 ∨ k = 8 ∨ k = 9 ∨ k = 10 := by omega
    rcases hk with rfl | rfl | rfl | rfl | rfl <;>
    · simp [InsBucket, kInsBase, kInsExtra] <;> simp at h1 h2 <;> omega
  by_cases c1 : n < 194
  · exact fin 6 (by omega) (by omega) (by simp; omega) (by simp; omega)
  by_cases c2 : n < 322
  · exact fin 7 (by omega) (by omega) (by simp; omega) (by simp; omega)
  by_cases c3 : n < 578
  · exact fin 8 (by omega) (by omega) (by simp; omega) (by simp; omega)
  by_cases c4 : n < 1090
  · exact fin 9 (by omega) (by omega) (by simp; omega) (by simp; omega)
  · exact fin 10 (by omega) (by omega) (by simp; omega) (by simp; omega)



theorem copy_small (n : Nat) (h6 : 10 ≤ n) (h : n < 134) : CopyBucket n (getCopyLengthCode n) := by
  have fin : ∀ k, 1 ≤ k → k ≤ 5 → 2 ^ (k+1) ≤ n - 6 → n - 6 < 2 ^ (k + 2) →
      CopyBucket n (getCopyLengthCode n) := by
    intro k hk1 hk5 h1 h2
    have e : getCopyLengthCode n = 2 * k + (n - 6) / 2 ^ k + 4 := by
      have := log2_eq_of_bounds h1 h2
      unfold getCopyLengthCode
      simp only [this]
      have a : ¬ n < 10 := by omega
      simp [a, h]
    rw [e]
    have hq := quot_two_or_three h1 h2
    have hk : k = 1 ∨ k = 2 ∨ k = 3 ∨ k = 4 ∨ k = 5 := by omega
    rcases hk with rfl | rfl | rfl | rfl | rfl <;>
    · rcases hq with e | e <;> rw [e] <;> simp [CopyBucket, kCopyBase, kCopyExtra] <;> simp at h1 h2 <;> omega
  by_cases c1 : n < 14
  · exact fin 1 (by omega) (by omega) (by simp; omega) (by simp; omega)
  by_cases c2 : n < 22
  · exact fin 2 (by omega) (by omega) (by simp; omega) (by simp; omega)
  by_cases c3 : n < 38
  · exact fin 3 (by omega) (by omega) (by simp; omega) (by simp; omega)
  by_cases c4 : n < 70
  · exact fin 4 (by omega) (by omega) (by simp; omega) (by simp; omega)
  · exact fin 5 (by omega) (by omega) (by simp; omega) (by simp; omega)


theorem copy_mid (n : Nat) (h6 : 134 ≤ n) (h : n < 2118) : CopyBucket n (getCopyLengthCode n) := by
  have fin : ∀ k, 6 ≤ k → k ≤ 10 → 2 ^ k ≤ n - 70 → n - 70 < 2 ^ (k + 1) →
      CopyBucket n (getCopyLengthCode n) := by
    intro k hk1 hk5 h1 h2
    have e : getCopyLengthCode n = k + 12 := by
      have := log2_eq_of_bounds h1 h2
      unfold getCopyLengthCode
      simp only [this]
      have a : ¬ n < 10 := by omega
      have b : ¬ n < 134 := by omega
      simp [a, b, h]
    rw [e]
    have hk : k = 6 ∨ k = 7 ∨ k = 8 ∨ k = 9 ∨ k = 10 := by omega
    rcases hk with rfl | rfl | rfl | rfl | rfl <;>
    · simp [CopyBucket, kCopyBase, kCopyExtra] <;> simp at h1 h2 <;> omega
  by_cases c1 : n < 198
  · exact fin 6 (by omega) (by omega) (by simp; omega) (by simp; omega)
  by_cases c2 : n < 326
  · exact fin 7 (by omega) (by omega) (by simp; omega) (by simp; omega)
  by_cases c3 : n < 582
  · exact fin 8 (by omega) (by omega) (by simp; omega) (by simp; omega)
  by_cases c4 : n < 1094
  · exact fin 9 (by omega) (by omega) (by simp; omega) (by simp; omega)
  · exact fin 10 (by omega) (by omega) (by simp; omega) (by simp; omega)




def blOff (c : Nat) : Nat := (kBlockLengthPrefixCode.getD c (0, 0)).1
def blBits (c : Nat) : Nat := (kBlockLengthPrefixCode.getD c (0, 0)).2

theorem bl_contiguous : ∀ i : Fin 25, blOff (i.val + 1) = blOff i.val + 2 ^ blBits i.val := by
  decide +kernel

theorem walk_spec (len : Nat) : ∀ fuel code, code ≤ 25 → 26 ≤ fuel + code → blOff code ≤ len →
    code ≤ blockLenWalk len fuel code ∧ blockLenWalk len fuel code ≤ 25 ∧
    blOff (blockLenWalk len fuel code) ≤ len ∧
    (blockLenWalk len fuel code = 25 ∨ len < blOff (blockLenWalk len fuel code + 1)) := by
  intro fuel
  induction fuel with
  | zero => intro code h1 h2; omega
  | succ f ih =>
    intro code h1 h2 h3
    unfold blockLenWalk
    by_cases hc : code < 25 ∧ len ≥ (kBlockLengthPrefixCode.getD (code + 1) (0, 0)).1
    · simp only [hc, and_self, if_true]
      have := ih (code + 1) (by omega) (by omega) hc.2
      omega
    · simp only [hc, if_false]
      refine ⟨Nat.le_refl _, h1, h3, ?_⟩
      by_cases h25 : code < 25
      · right
        have : ¬ len ≥ (kBlockLengthPrefixCode.getD (code + 1) (0, 0)).1 := fun h => hc ⟨h25, h⟩
        unfold blOff; omega
      · left; omega


/-- pure arithmetic core of the distance round trip -/
theorem dist_core (P N q r d : Nat) (_hP : 0 < P) (hN : 2 ≤ N) (hq : q = 2 ∨ q = 3)
    (hd : 4 * P + d = q * (P * N) + r) :
    ((2 + q % 2) * N - 4 + r / P) * P + r % P = d := by
  have hr := Nat.div_add_mod r P
  have hcomm : P * (r / P) = r / P * P := Nat.mul_comm _ _
  rcases hq with rfl | rfl
  · have e : ((2 + 2 % 2) * N - 4 + r / P) * P = 2 * (P * N) - 4 * P + r / P * P := by
      have h3 : 2 + 2 % 2 = 2 := rfl
      rw [h3]
      simp only [Nat.add_mul, Nat.sub_mul]
      have : 2 * N * P = 2 * (P * N) := by rw [Nat.mul_assoc, Nat.mul_comm N P]
      simp [this]
    have : 4 * P ≤ 2 * (P * N) := by
      have := Nat.mul_le_mul_left P hN
      omega
    omega
  · have e : ((2 + 3 % 2) * N - 4 + r / P) * P = 3 * (P * N) - 4 * P + r / P * P := by
      have h3 : 2 + 3 % 2 = 3 := rfl
      rw [h3]
      simp only [Nat.add_mul, Nat.sub_mul]
      have : 3 * N * P = 3 * (P * N) := by rw [Nat.mul_assoc, Nat.mul_comm N P]
      simp [this]
    have : 4 * P ≤ 3 * (P * N) := by
      have := Nat.mul_le_mul_left P hN
      omega
    omega

/-- facts about the long branch of `prefixEncodeCopyDistance`, in terms of
`P = 2^p`, `N = 2^nbits`, `q ∈ {2,3}`, `r = dist % 2^bucket` -/
theorem dist_long_decomp (p d : Nat) :
    ∃ nb q r, 1 ≤ nb ∧ (q = 2 ∨ q = 3) ∧ r < 2 ^ p * 2 ^ nb ∧
      log2Floor (2 ^ (p + 2) + d) - 1 = p + nb ∧
      (2 ^ (p + 2) + d) / 2 ^ (p + nb) = q ∧
      (2 ^ (p + 2) + d) % 2 ^ (p + nb) = r ∧
      4 * 2 ^ p + d = q * (2 ^ p * 2 ^ nb) + r := by
  obtain ⟨dist, hdist⟩ : ∃ x, x = 2 ^ (p + 2) + d := ⟨_, rfl⟩
  rw [← hdist]
  have hpos : dist ≠ 0 := by
    have : 0 < 2 ^ (p + 2) := Nat.pow_pos (by decide)
    omega
  obtain ⟨hlo, hhi⟩ := log2_bounds dist hpos
  obtain ⟨L, hL⟩ : ∃ x, x = log2Floor dist := ⟨_, rfl⟩
  rw [← hL] at hlo hhi ⊢
  have hLge : p + 2 ≤ L := by
    have h : 2 ^ (p + 2) ≤ dist := by omega
    have := (Nat.le_log2 hpos).mpr h
    unfold log2Floor at hL; omega
  refine ⟨L - 1 - p, dist / 2 ^ (L - 1), dist % 2 ^ (L - 1), by omega, ?_, ?_, by omega, ?_, ?_, ?_⟩
  · have e1 : L = (L - 1) + 1 := by omega
    have e2 : L + 1 = (L - 1) + 2 := by omega
    rw [e1] at hlo; rw [e2] at hhi
    exact quot_two_or_three hlo hhi
  · have : 2 ^ p * 2 ^ (L - 1 - p) = 2 ^ (L - 1) := by rw [← Nat.pow_add]; congr 1; omega
    rw [this]; exact Nat.mod_lt _ (Nat.pow_pos (by decide))
  · have : p + (L - 1 - p) = L - 1 := by omega
    rw [this]
  · have : p + (L - 1 - p) = L - 1 := by omega
    rw [this]
  · have e : 2 ^ p * 2 ^ (L - 1 - p) = 2 ^ (L - 1) := by rw [← Nat.pow_add]; congr 1; omega
    rw [e]
    have h4 : 4 * 2 ^ p = 2 ^ (p + 2) := by rw [Nat.pow_succ, Nat.pow_succ]; omega
    have := Nat.div_add_mod dist (2 ^ (L - 1))
    rw [Nat.mul_comm] at this
    omega

theorem mod_pow_of_mod_pow_mul (x p nb : Nat) : x % 2 ^ (p + nb) % 2 ^ p = x % 2 ^ p := by
  rw [Nat.pow_add]; exact Nat.mod_mul_right_mod x (2 ^ p) (2 ^ nb)


theorem or_eq_add_of_lt (nb sym : Nat) (h : sym < 1024) : (nb * 1024 ||| sym) = nb * 1024 + sym := by
  have := Nat.two_pow_add_eq_or_of_lt (i := 10) (b := sym) (by simpa using h) nb
  simp at this
  rw [Nat.mul_comm] at this
  exact this.symm

/-- `restore_distance_code` computes the RFC reading of the stored fields (+15), as long as
nothing wraps in 32 bits -/
theorem restore_eq_rfc (p nd sym nb e : Nat) (h1 : 16 + nd ≤ sym) (h2 : sym < 1024) (h3 : nb < 64)
    (h4 : nb = rfcDistNBits p nd sym) (h5 : 1 ≤ nb) (h6 : e < 2 ^ 32)
    (hoff : (2 + (sym - nd - 16) / 2 ^ p % 2) * 2 ^ nb < 2 ^ 32)
    (hfit : rfcDistDecode p nd sym e + 15 < 2 ^ 32) :
    restoreDistanceCode ((nb * 1024 ||| sym) % 65536) (e % 2 ^ 32) nd p
      = rfcDistDecode p nd sym e + 15 := by
  have h16 := short_codes_is_16
  have hP : 0 < 2 ^ p := Nat.pow_pos (by decide)
  rw [or_eq_add_of_lt nb sym h2]
  have hpk : (nb * 1024 + sym) % 65536 = nb * 1024 + sym := Nat.mod_eq_of_lt (by omega)
  rw [hpk, Nat.mod_eq_of_lt h6]
  have hd : (nb * 1024 + sym) % 1024 = sym := by omega
  have hn : (nb * 1024 + sym) / 1024 = nb := by omega
  have hnlt : ¬ sym < 16 + nd := by omega
  unfold restoreDistanceCode rfcDistDecode
  simp only [h16, hd, hn, hnlt, if_false, ← h4]
  have hM : (2:Nat) ^ 32 = 4294967296 := by decide
  have hnd : nd < 4294967296 := by omega
  have hbase : (sym + 2 ^ 32 - nd % 2 ^ 32 + 2 ^ 32 - 16) % 2 ^ 32 = sym - nd - 16 := by
    rw [hM, Nat.mod_eq_of_lt hnd]; omega
  rw [hbase]
  obtain ⟨A, hA⟩ : ∃ A, A = (2 + (sym - nd - 16) / 2 ^ p % 2) * 2 ^ nb := ⟨_, rfl⟩
  rw [← hA] at hoff ⊢
  have hA4 : 4 ≤ A := by
    have : 2 ^ 1 ≤ 2 ^ nb := Nat.pow_le_pow_right (by decide) h5
    have h2' : 2 * 2 ^ nb ≤ (2 + (sym - nd - 16) / 2 ^ p % 2) * 2 ^ nb := Nat.mul_le_mul_right _ (by omega)
    rw [hA]; simp at this; omega
  have hoffs : (A % 2 ^ 32 + 2 ^ 32 - 4) % 2 ^ 32 = A - 4 := by
    rw [hM] at *; rw [Nat.mod_eq_of_lt hoff]; omega
  rw [hoffs]
  -- no wrap in the final expression
  unfold rfcDistDecode at hfit
  simp only [hnlt, if_false, ← h4, ← hA] at hfit
  have hle : (A - 4 + e) * 2 ^ p ≤ (A - 4 + e) * 2 ^ p + (sym - nd - 16) % 2 ^ p + nd + 1 + 15 := by omega
  have h1' : (A - 4 + e) * 2 ^ p < 2 ^ 32 := by omega
  have h2' : A - 4 + e < 2 ^ 32 := by
    have : A - 4 + e ≤ (A - 4 + e) * 2 ^ p := Nat.le_mul_of_pos_right _ hP
    omega
  rw [Nat.mod_eq_of_lt h2', Nat.mod_eq_of_lt h1']
  rw [Nat.mod_eq_of_lt (by omega)]

end BV.Lemmas.PrefixArith
