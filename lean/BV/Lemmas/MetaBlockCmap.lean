/-
C01 / meta-block writers, part 13: `EncodeContextMap` round-trips.  Move-to-front transform vs the inverse
transform of RFC 7932 §7.3, the zero-run-length coding `RunLengthCodeZeros` vs the reader's expansion of the
run symbols `1..RLEMAX`, and the whole description (NTREES, RLEMAX, prefix code, symbols, IMTF bit) against
`readContextMap`.
-/
import BV.Lemmas.MetaBlockCodeN
import BV.Model.MetaBlockFull

namespace BV.MetaBlock
open BV.Gen BV.Bits BV.Huffman BV.PrefixArith BV.Recoder
open BV.Header (writeBits_ok)
open BV.Lemmas.HuffmanRead (takeBits_bitsOf)

/-! ### move-to-front -/

/-- index of the first occurrence (length if none) -/
def firstIdx (x : Nat) : List Nat → Nat
  | [] => 0
  | y :: ys => if y = x then 0 else firstIdx x ys + 1

theorem firstIdx_lt (x : Nat) (l : List Nat) (h : x ∈ l) : firstIdx x l < l.length := by
  induction l with
  | nil => simp at h
  | cons y ys ih =>
    simp only [firstIdx]
    by_cases hy : y = x
    · simp [hy]
    · simp only [hy, if_false, List.length_cons]
      have : x ∈ ys := by
        rcases List.mem_cons.mp h with h | h
        · exact absurd h.symm hy
        · exact h
      have := ih this
      omega

theorem firstIdx_get (x : Nat) (l : List Nat) (h : x ∈ l) : l.getD (firstIdx x l) 0 = x := by
  induction l with
  | nil => simp at h
  | cons y ys ih =>
    simp only [firstIdx]
    by_cases hy : y = x
    · simp [hy]
    · simp only [hy, if_false, List.getD_cons_succ]
      have : x ∈ ys := by
        rcases List.mem_cons.mp h with h | h
        · exact absurd h.symm hy
        · exact h
      exact ih this

theorem indexOf_go (v : List Nat) (value : Nat) : ∀ (cnt i : Nat), i + cnt ≤ v.length →
    indexOf.go v value cnt i = .ok (i + min cnt (firstIdx value (v.drop i))) := by
  intro cnt
  induction cnt with
  | zero => intro i _; simp [indexOf.go]
  | succ cnt ih =>
    intro i hi
    have hil : i < v.length := by omega
    unfold indexOf.go
    rw [getAt_getD v i hil, Out.bind_ok, List.drop_eq_getElem_cons hil]
    have hg : v.getD i 0 = v[i] := by
      rw [List.getD_eq_getElem?_getD, List.getElem?_eq_getElem hil]; rfl
    rw [hg]
    by_cases hx : v[i] = value
    · simp [hx, firstIdx]
    · rw [if_neg hx, ih (i + 1) (by omega)]
      simp only [firstIdx, hx, if_false]
      congr 1
      omega

/-- the position list after moving index `k` to the front -/
def mtfMove (l : List Nat) (k : Nat) : List Nat := l.getD k 0 :: (l.take k ++ l.drop (k + 1))

theorem mtfMove_perm (l : List Nat) (k : Nat) (hk : k < l.length) : (mtfMove l k).Perm l := by
  unfold mtfMove
  have h1 : l = l.take k ++ (l.getD k 0 :: l.drop (k + 1)) := by
    conv => lhs; rw [← List.take_append_drop k l, List.drop_eq_getElem_cons hk]
    congr 2
    rw [List.getD_eq_getElem?_getD, List.getElem?_eq_getElem hk]; rfl
  conv => rhs; rw [h1]
  exact (List.perm_middle).symm

theorem mtfMove_length (l : List Nat) (k : Nat) (hk : k < l.length) : (mtfMove l k).length = l.length :=
  (mtfMove_perm l k hk).length_eq

/-- moving inside the first `K` positions of `P ++ T` -/
theorem mtfMove_append (P T : List Nat) (k : Nat) (hk : k < P.length) :
    mtfMove (P ++ T) k = mtfMove P k ++ T := by
  unfold mtfMove
  have h1 : (P ++ T).getD k 0 = P.getD k 0 := by
    simp [List.getD_eq_getElem?_getD, List.getElem?_append_left hk]
  rw [h1, List.take_append_of_le_length (by omega), List.drop_append_of_le_length (by omega)]
  simp

theorem moveToFront_eq (v : List Nat) (k : Nat) (hk : k < v.length) : moveToFront v k = .ok (mtfMove v k) := by
  unfold moveToFront mtfMove
  rw [getAt_getD v k hk, Out.bind_ok]

/-- the forward transform over a position list whose first `K` entries `P` are distinct and contain
every value; the inverse transform over any list with the same first `K` entries returns the values -/
theorem mtf_inverse (K : Nat) : ∀ (xs P Tw Tr accw accr : List Nat), P.length = K → P.Nodup →
    (∀ x ∈ xs, x < 256 ∧ x ∈ P) →
    ∃ idxs, moveToFrontTransform.go (K - 1) xs (P ++ Tw) accw = .ok (accw.reverse ++ idxs) ∧
      idxs.length = xs.length ∧ (∀ i ∈ idxs, i < K) ∧
      inverseMtf.go idxs (P ++ Tr) accr = accr.reverse ++ xs := by
  intro xs
  induction xs with
  | nil =>
    intro P Tw Tr accw accr _ _ _
    exact ⟨[], by simp [moveToFrontTransform.go], rfl, by simp, by simp [inverseMtf.go]⟩
  | cons x xs ih =>
    intro P Tw Tr accw accr hP hnd hx
    obtain ⟨hx256, hxP⟩ := hx x (by simp)
    have hK : 1 ≤ K := by rw [← hP]; exact List.length_pos_iff.mpr (List.ne_nil_of_mem hxP)
    have hidx := firstIdx_lt x P hxP
    have hget := firstIdx_get x P hxP
    have hfi : firstIdx x (P ++ Tw) = firstIdx x P := by
      clear hget hidx hnd hP ih hx
      induction P with
      | nil => simp at hxP
      | cons y ys ihp =>
        simp only [List.cons_append, firstIdx]
        by_cases hy : y = x
        · simp [hy]
        · simp only [hy, if_false]
          have : x ∈ ys := by
            rcases List.mem_cons.mp hxP with h | h
            · exact absurd h.symm hy
            · exact h
          rw [ihp this]
    have hio : indexOf (P ++ Tw) (K - 1 + 1) (x % 256) = .ok (firstIdx x P) := by
      unfold indexOf
      rw [indexOf_go _ _ _ 0 (by rw [List.length_append]; omega), Nat.mod_eq_of_lt hx256]
      simp only [List.drop_zero, Nat.zero_add, hfi]
      rw [Nat.min_eq_right (by omega)]
    have hPm : (mtfMove P (firstIdx x P)).length = K := by rw [mtfMove_length _ _ hidx, hP]
    have hndm : (mtfMove P (firstIdx x P)).Nodup := (mtfMove_perm P _ hidx).nodup_iff.mpr hnd
    obtain ⟨idxs, h1, h2, h3, h4⟩ := ih (mtfMove P (firstIdx x P)) Tw Tr (firstIdx x P :: accw) (x :: accr) hPm hndm
      (fun y hy => ⟨(hx y (List.mem_cons_of_mem _ hy)).1,
        (mtfMove_perm P _ hidx).mem_iff.mpr (hx y (List.mem_cons_of_mem _ hy)).2⟩)
    refine ⟨firstIdx x P :: idxs, ?_, by simp [h2], ?_, ?_⟩
    · unfold moveToFrontTransform.go
      rw [hio, Out.bind_ok, moveToFront_eq _ _ (by rw [List.length_append]; omega), Out.bind_ok,
        mtfMove_append P Tw _ hidx, h1]
      simp
    · intro i hi
      rcases List.mem_cons.mp hi with rfl | hi
      · omega
      · exact h3 i hi
    · unfold inverseMtf.go
      have hv : (P ++ Tr).getD (firstIdx x P) 0 = x := by
        rw [List.getD_eq_getElem?_getD, List.getElem?_append_left hidx, ← List.getD_eq_getElem?_getD]; exact hget
      have hm := mtfMove_append P Tr _ hidx
      unfold mtfMove at hm
      rw [hv] at hm ⊢
      rw [hget] at hm
      simp only
      rw [hm]
      have := h4
      unfold mtfMove at this
      rw [hget] at this
      rw [this]
      simp

theorem le_foldl_max (l : List Nat) : ∀ (a : Nat), a ≤ l.foldl max a ∧ ∀ x ∈ l, x ≤ l.foldl max a := by
  induction l with
  | nil => intro a; simp
  | cons y ys ih =>
    intro a
    obtain ⟨h1, h2⟩ := ih (max a y)
    simp only [List.foldl_cons]
    refine ⟨by omega, ?_⟩
    intro x hx
    rcases List.mem_cons.mp hx with rfl | hx
    · omega
    · exact h2 x hx

theorem foldl_max_lt (l : List Nat) (n : Nat) (hn : 0 < n) (h : ∀ x ∈ l, x < n) : ∀ a, a < n → l.foldl max a < n := by
  induction l with
  | nil => intro a ha; simpa using ha
  | cons y ys ih =>
    intro a ha
    simp only [List.foldl_cons]
    exact ih (fun x hx => h x (List.mem_cons_of_mem _ hx)) _ (by have := h y (by simp); omega)

/-- **move-to-front round trip**: `MoveToFrontTransform` on a map with entries `< 256`, undone by the inverse
transform of RFC 7932 §7.3 (which starts from the identity on 0..255) -/
theorem mtf_roundtrip (m : List Nat) (h1 : 1 ≤ m.length) (hm : ∀ x ∈ m, x < 256) :
    ∃ idxs, moveToFrontTransform m m.length = .ok idxs ∧ idxs.length = m.length ∧ (∀ i ∈ idxs, i < 256) ∧
      (∀ i ∈ idxs, i ≤ m.foldl max 0) ∧ inverseMtf idxs = m := by
  have hmax := foldl_max_lt m 256 (by decide) hm 0 (by decide)
  obtain ⟨_, hle⟩ := le_foldl_max m 0
  generalize hM : m.foldl max 0 = M at *
  have hr : List.range 256 = List.range (M + 1) ++ (List.range (255 - M)).map (M + 1 + ·) := by
    have : 256 = (M + 1) + (255 - M) := by omega
    rw [this, List.range_add]
  obtain ⟨idxs, e1, e2, e3, e4⟩ := mtf_inverse (M + 1) m (List.range (M + 1)) (List.replicate (255 - M) 0)
    ((List.range (255 - M)).map (M + 1 + ·)) [] [] (by simp) List.nodup_range
    (fun x hx => ⟨hm x hx, List.mem_range.mpr (by have := hle x hx; omega)⟩)
  refine ⟨idxs, ?_, e2, fun i hi => by have := e3 i hi; omega, fun i hi => by have := e3 i hi; omega, ?_⟩
  · unfold moveToFrontTransform
    rw [if_neg (by omega), if_neg (by omega), List.take_length, hM, if_neg (by omega)]
    simpa using e1
  · unfold inverseMtf
    rw [hr]
    simpa using e4

/-! ### zero-run-length coding -/

/-- what the reader makes of one packed run-length symbol `sym + (extra << 9)` -/
def rleDec (rlemax s : Nat) : List Nat :=
  if s % 512 = 0 then [0]
  else if s % 512 ≤ rlemax then List.replicate (2 ^ (s % 512) + s / 512) 0
  else [s % 512 - rlemax]

/-- a packed symbol the writer and the reader handle consistently -/
def RleOK (P s : Nat) : Prop :=
  s % 512 < 256 + P ∧ (0 < s % 512 → s % 512 ≤ P → s / 512 < 2 ^ (s % 512))

theorem log2_pow_bounds (r : Nat) (h : r ≠ 0) : 2 ^ log2Floor r ≤ r ∧ r < 2 * 2 ^ log2Floor r := by
  obtain ⟨a, b⟩ := BV.Lemmas.PrefixArith.log2_bounds r h
  rw [Nat.pow_succ] at b
  omega

theorem zeroRunSymbols_spec (P : Nat) (hP : P ≤ 6) : ∀ (f reps : Nat), reps < f →
    ((zeroRunSymbols P f reps).flatMap (rleDec P) = List.replicate reps 0) ∧
    ∀ s ∈ zeroRunSymbols P f reps, RleOK P s := by
  have hP2 : 2 ^ P ≤ 64 := by
    have : 2 ^ P ≤ 2 ^ 6 := Nat.pow_le_pow_right (by decide) hP
    simpa using this
  have hPpos : 0 < 2 ^ P := Nat.pow_pos (by decide)
  intro f
  induction f with
  | zero => intro reps h; omega
  | succ f ih =>
    intro reps hlt
    unfold zeroRunSymbols
    by_cases h0 : reps = 0
    · simp [h0]
    · rw [if_neg h0]
      obtain ⟨lo, hi⟩ := log2_pow_bounds reps h0
      by_cases hsmall : reps < 2 * 2 ^ P
      · rw [if_pos hsmall]
        have hk : log2Floor reps ≤ P := by
          rcases Nat.lt_or_ge P (log2Floor reps) with h | h
          · have : 2 * 2 ^ P ≤ 2 ^ log2Floor reps := by
              have := Nat.pow_le_pow_right (show 0 < 2 by decide) (show P + 1 ≤ log2Floor reps from h)
              rw [Nat.pow_succ] at this; omega
            omega
          · exact h
        have hk2 : 2 ^ log2Floor reps ≤ 64 := Nat.le_trans (Nat.pow_le_pow_right (by decide) hk) hP2
        generalize hL : log2Floor reps = L at *
        generalize hX : 2 ^ L = X at *
        have hpk : (L + (reps - X) * 512 % two32) % two32 = L + (reps - X) * 512 := by
          unfold two32; omega
        rw [hpk]
        have hm : (L + (reps - X) * 512) % 512 = L := by omega
        have hd : (L + (reps - X) * 512) / 512 = reps - X := by omega
        constructor
        · simp only [List.flatMap_cons, List.flatMap_nil, List.append_nil, rleDec, hm, hd]
          by_cases hL0 : L = 0
          · subst hL0
            have : X = 1 := by rw [← hX]
            have : reps = 1 := by omega
            simp [this]
          · rw [if_neg hL0, if_pos hk, hX]
            congr 1; omega
        · intro s hs
          simp only [List.mem_singleton] at hs
          subst hs
          refine ⟨by rw [hm]; omega, fun _ _ => by rw [hm, hd, hX]; omega⟩
      · rw [if_neg hsmall]
        generalize hX : 2 ^ P = X at *
        have hpk : (P + (X - 1) * 512 % two32) % two32 = P + (X - 1) * 512 := by
          unfold two32; omega
        rw [hpk]
        have hm : (P + (X - 1) * 512) % 512 = P := by omega
        have hd : (P + (X - 1) * 512) / 512 = X - 1 := by omega
        obtain ⟨ih1, ih2⟩ := ih (reps - (2 * X - 1)) (by omega)
        constructor
        · simp only [List.flatMap_cons, ih1, rleDec, hm, hd]
          by_cases hP0 : P = 0
          · subst hP0
            have : X = 1 := by rw [← hX]
            subst this
            simp only [if_true]
            rw [show reps = (reps - (2 * 1 - 1)) + 1 by omega]
            simp [List.replicate_succ]
          · rw [if_neg hP0, if_pos (Nat.le_refl _), hX, List.replicate_append_replicate]
            congr 1; omega
        · intro s hs
          rcases List.mem_cons.mp hs with rfl | hs
          · exact ⟨by rw [hm]; omega, fun _ _ => by rw [hm, hd, hX]; omega⟩
          · exact ih2 s hs

theorem zeroRun_spec (xs : List Nat) : xs = List.replicate (zeroRun xs) 0 ++ xs.drop (zeroRun xs) ∧
    zeroRun xs ≤ xs.length := by
  induction xs with
  | nil => simp [zeroRun]
  | cons y ys ih =>
    cases y with
    | zero =>
      simp only [zeroRun, List.replicate_succ, List.cons_append, List.drop_succ_cons, List.length_cons]
      exact ⟨by rw [← ih.1], by omega⟩
    | succ k => simp [zeroRun]

/-- **`RunLengthCodeZeros` decodes**: expanding the packed symbols the way the reader does returns the
list, whatever `max_run_length_prefix ≤ 6` was chosen -/
theorem rleLoop_spec (P : Nat) (hP : P ≤ 6) : ∀ (f : Nat) (v : List Nat), v.length < f → (∀ x ∈ v, x < 256) →
    ((rleLoop P f v).flatMap (rleDec P) = v) ∧ ∀ s ∈ rleLoop P f v, RleOK P s := by
  intro f
  induction f with
  | zero => intro v h; omega
  | succ f ih =>
    intro v hlen hv
    cases v with
    | nil => simp [rleLoop]
    | cons x xs =>
      unfold rleLoop
      by_cases hx : x ≠ 0
      · rw [if_pos hx]
        have hx256 := hv x (by simp)
        obtain ⟨i1, i2⟩ := ih xs (by simpa using hlen) (fun y hy => hv y (List.mem_cons_of_mem _ hy))
        have hpk : (x + P) % two32 = x + P := by unfold two32; omega
        rw [hpk]
        have hm : (x + P) % 512 = x + P := by omega
        have hd : (x + P) / 512 = 0 := by omega
        constructor
        · simp only [List.flatMap_cons, i1, rleDec, hm]
          rw [if_neg (by omega), if_neg (by omega)]
          simp
        · intro s hs
          rcases List.mem_cons.mp hs with rfl | hs
          · exact ⟨by rw [hm]; omega, fun _ h => by rw [hm] at h; omega⟩
          · exact i2 s hs
      · rw [if_neg hx]
        have hx0 : x = 0 := by simpa using hx
        obtain ⟨z1, z2⟩ := zeroRun_spec xs
        obtain ⟨r1, r2⟩ := zeroRunSymbols_spec P hP (zeroRun xs + 2) (zeroRun xs + 1) (by omega)
        obtain ⟨i1, i2⟩ := ih (xs.drop (zeroRun xs)) (by simp at hlen ⊢; omega)
          (fun y hy => hv y (List.mem_cons_of_mem _ (List.mem_of_mem_drop hy)))
        constructor
        · rw [List.flatMap_append, r1, i1, hx0, List.replicate_succ, List.cons_append, ← z1]
        · intro s hs
          rcases List.mem_append.mp hs with hs | hs
          · exact r2 s hs
          · exact i2 s hs

/-! ### the symbol histogram and the emitted symbols -/

theorem symHisto_inv (n : Nat) : ∀ (syms : List Nat) (h items : List Nat), DataInv h n items →
    (∀ s ∈ syms, s % 512 < n) → items.length + syms.length < two32 →
    ∃ h', syms.foldlM (fun h s => do
        let c ← getAt h (s % 512)
        setAt h (s % 512) ((c + 1) % two32)) h = .ok h' ∧ DataInv h' n (items ++ syms.map (· % 512)) := by
  intro syms
  induction syms with
  | nil => intro h items hi _ _; exact ⟨h, rfl, by simpa using hi⟩
  | cons s ss ih =>
    intro h items hi hs hb
    have hk := hs s (by simp)
    obtain ⟨h1, e1, d1, _⟩ := histoAdd_data ⟨h, 0⟩ n items (s % 512) hi hk (by simp at hb; omega)
    have e1' : (do
        let c ← getAt h (s % 512)
        setAt h (s % 512) ((c + 1) % two32)) = Out.ok h1.data := by
      unfold histoAdd at e1
      have hl : s % 512 < h.length := by rw [hi.len]; exact hk
      rw [List.getElem?_eq_getElem hl] at e1
      simp only at e1
      injection e1 with e1
      rw [getAt_getD h _ hl, Out.bind_ok]
      unfold setAt
      rw [if_pos hl, ← e1]
      simp [List.getD_eq_getElem?_getD, List.getElem?_eq_getElem hl]
    obtain ⟨h', e2, d2⟩ := ih h1.data (items ++ [s % 512]) d1 (fun t ht => hs t (List.mem_cons_of_mem _ ht))
      (by simp at hb ⊢; omega)
    refine ⟨h', ?_, by simpa [List.append_assoc] using d2⟩
    rw [List.foldlM_cons, e1', Out.bind_ok, e2]

theorem readCmapEntries_succ (code : Code) (rlemax size f : Nat) (acc : List Nat) (bs : List Bool) :
    readCmapEntries code rlemax size (f + 1) acc bs =
      if acc.length = size then some (acc, bs)
      else
        match code.read bs with
        | none => none
        | some (sym, bs) =>
          if sym = 0 then readCmapEntries code rlemax size f (acc ++ [0]) bs
          else if sym ≤ rlemax then
            match takeBits sym bs with
            | none => none
            | some (extra, bs) =>
              if acc.length + (2 ^ sym + extra) > size then none
              else readCmapEntries code rlemax size f (acc ++ List.replicate (2 ^ sym + extra) 0) bs
          else readCmapEntries code rlemax size f (acc ++ [sym - rlemax]) bs := by
  simp only [readCmapEntries]
  split
  · rfl
  · cases code.read bs with
    | none => rfl
    | some p =>
      obtain ⟨sym, bs'⟩ := p
      simp only
      split
      · rfl
      · split
        · cases takeBits sym bs' with
          | none => rfl
          | some q => rfl
        · rfl

/-- the symbols of a context map description: what the writer emits for the packed symbols `rle`, and
what `readCmapEntries` makes of it -/
theorem cmapSymbols_roundtrip (depths bits : List Nat) (code : Code) (P size : Nat) (hP : P ≤ 6) :
    ∀ (rle : List Nat) (w : Writer), (∀ s ∈ rle, RleOK P s ∧ SymIO depths bits code (s % 512)) →
    ∃ B, rle.foldlM (fun w s => do
        let w ← storeSym depths bits (s % 512) w
        if s % 512 > 0 ∧ s % 512 ≤ P then writeBits ((s % 512) % 256) (s / 512) w else Out.ok w) w = .ok (w ++ B) ∧
      ∀ (acc : List Nat) (rest : List Bool) (f : Nat), rle.length < f →
        acc.length + (rle.flatMap (rleDec P)).length = size →
        readCmapEntries code P size f acc (B ++ rest) = some (acc ++ rle.flatMap (rleDec P), rest) := by
  intro rle
  induction rle with
  | nil =>
    intro w _
    refine ⟨[], by simp, ?_⟩
    intro acc rest f hf hsz
    obtain ⟨f', rfl⟩ : ∃ f', f = f' + 1 := ⟨f - 1, by simp at hf; omega⟩
    simp at hsz
    simp [readCmapEntries, hsz]
  | cons s ss ih =>
    intro w hall
    obtain ⟨⟨hlt, hext⟩, sb, hs, hr⟩ := hall s (by simp)
    have hex : ∃ E, (∀ w', (if s % 512 > 0 ∧ s % 512 ≤ P then writeBits ((s % 512) % 256) (s / 512) w' else Out.ok w')
          = .ok (w' ++ E)) ∧ 1 ≤ (rleDec P s).length ∧
        ∀ (acc : List Nat) (rest : List Bool) (f : Nat), acc.length + (rleDec P s).length ≤ size →
          readCmapEntries code P size (f + 1) acc (sb ++ (E ++ rest)) =
            readCmapEntries code P size f (acc ++ rleDec P s) rest := by
      by_cases hrun : s % 512 > 0 ∧ s % 512 ≤ P
      · have hx := hext hrun.1 hrun.2
        have hdec : rleDec P s = List.replicate (2 ^ (s % 512) + s / 512) 0 := by
          unfold rleDec; rw [if_neg (by omega), if_pos hrun.2]
        have hpos := Nat.pow_pos (n := s % 512) (show 0 < 2 by decide)
        refine ⟨bitsOf (s % 512) (s / 512), ?_, by rw [hdec, List.length_replicate]; omega, ?_⟩
        · intro w'
          rw [if_pos hrun, Nat.mod_eq_of_lt (show s % 512 < 256 by omega), writeBits_ok _ _ _ hx (by omega)]
        · intro acc rest f hle
          rw [hdec, List.length_replicate] at hle
          rw [hdec, readCmapEntries_succ, if_neg (by omega), hr]
          simp only
          rw [if_neg (by omega), if_pos hrun.2, takeBits_bitsOf _ _ _ hx]
          simp only
          rw [if_neg (by omega)]
      · refine ⟨[], ?_, ?_, ?_⟩
        · intro w'; rw [if_neg hrun]; simp
        · unfold rleDec; split
          · simp
          · split
            · exfalso; omega
            · simp
        · intro acc rest f hle
          by_cases h0 : s % 512 = 0
          · have hdec : rleDec P s = [0] := by unfold rleDec; rw [if_pos h0]
            rw [hdec, List.length_singleton] at hle
            rw [hdec, readCmapEntries_succ, if_neg (by omega), List.nil_append, hr]
            simp only
            rw [if_pos h0]
          · have hdec : rleDec P s = [s % 512 - P] := by
              unfold rleDec; rw [if_neg h0, if_neg (by omega)]
            rw [hdec, List.length_singleton] at hle
            rw [hdec, readCmapEntries_succ, if_neg (by omega), List.nil_append, hr]
            simp only
            rw [if_neg h0, if_neg (by omega)]
    obtain ⟨E, hE, hne, hread⟩ := hex
    obtain ⟨B, hB, hBr⟩ := ih (w ++ sb ++ E) (fun t ht => hall t (List.mem_cons_of_mem _ ht))
    refine ⟨sb ++ (E ++ B), ?_, ?_⟩
    · rw [List.foldlM_cons, hs w, Out.bind_ok, hE, Out.bind_ok, hB]
      simp [List.append_assoc]
    · intro acc rest f hf hsz
      obtain ⟨f', rfl⟩ : ∃ f', f = f' + 1 := ⟨f - 1, by simp at hf; omega⟩
      simp only [List.flatMap_cons, List.length_append] at hsz
      rw [List.append_assoc, List.append_assoc, hread acc (B ++ rest) f' (by omega),
        hBr (acc ++ rleDec P s) rest f' (by simp at hf; omega) (by rw [List.length_append]; omega)]
      simp [List.append_assoc]

/-! ### the whole description -/

/-- `StoreVarLenUint8(k)` for `k < 256` is read back by the §9.2 variable-length code reader -/
theorem varLen8_roundtrip (k : Nat) (hk : k < 256) (w : Writer) :
    ∃ vb, storeVarLenUint8M k w = .ok (w ++ vb) ∧ ∀ rest, readVarLen8 (vb ++ rest) = some (k, rest) := by
  unfold storeVarLenUint8M
  by_cases h0 : k = 0
  · subst h0
    refine ⟨[false], by rw [if_pos rfl, writeBits_ok 1 0 w (by decide) (by decide)]; rfl, ?_⟩
    intro rest; simp [readVarLen8]
  · rw [if_neg h0]
    obtain ⟨lo, hi⟩ := log2_pow_bounds k h0
    have hL : log2Floor k < 8 := by
      rcases Nat.lt_or_ge (log2Floor k) 8 with h | h
      · exact h
      · have := Nat.pow_le_pow_right (show 0 < 2 by decide) h
        have e : (2 : Nat) ^ 8 = 256 := by decide
        omega
    generalize hLL : log2Floor k = L at *
    generalize hX : 2 ^ L = X at *
    have hsub : (k + two64 - X) % two64 = k - X := by
      have : k + two64 - X = (k - X) + two64 := by omega
      rw [this, Nat.add_mod_right, Nat.mod_eq_of_lt (by unfold two64; omega)]
    refine ⟨[true] ++ bitsOf 3 L ++ bitsOf L (k - X), ?_, ?_⟩
    · rw [writeBits_ok 1 1 w (by decide) (by decide), Out.bind_ok,
        writeBits_ok 3 L _ (by omega) (by decide), Out.bind_ok, Nat.mod_eq_of_lt (by omega), hX, hsub,
        writeBits_ok L (k - X) _ (by rw [hX]; omega) (by omega)]
      simp [bitsOf, List.append_assoc]
    · intro rest
      simp only [List.append_assoc, List.cons_append, List.nil_append, readVarLen8]
      rw [takeBits_bitsOf 3 L _ (by omega)]
      simp only
      rw [takeBits_bitsOf L (k - X) _ (by rw [hX]; omega)]
      simp only [hX]
      congr 2
      omega

theorem length_le_flatMap (f : Nat → List Nat) (l : List Nat) (h : ∀ x ∈ l, 1 ≤ (f x).length) :
    l.length ≤ (l.flatMap f).length := by
  induction l with
  | nil => simp
  | cons x xs ih =>
    have := ih (fun y hy => h y (List.mem_cons_of_mem _ hy))
    have := h x (by simp)
    simp only [List.flatMap_cons, List.length_append, List.length_cons]
    omega

theorem rleDec_length_pos (P s : Nat) : 1 ≤ (rleDec P s).length := by
  unfold rleDec
  split
  · simp
  · split
    · rw [List.length_replicate]; have := Nat.pow_pos (n := s % 512) (show 0 < 2 by decide); omega
    · simp

/-- **context_map_roundtrip** (lemma form, with the already written prefix `w` and any following bits):
`EncodeContextMap(context_map, size, num_clusters)` for every map with entries `< num_clusters ≤ 256` does not
panic, and `readContextMap` (NTREES, RLEMAX, the prefix code over NTREES + RLEMAX symbols, the run-length
symbols, the IMTF bit, the inverse move-to-front transform) returns `(num_clusters, context_map)`. -/
theorem encodeContextMap_roundtrip (m : List Nat) (n : Nat) (w : Writer) (h1 : 1 ≤ m.length)
    (hlen : m.length ≤ 2 ^ 24) (hn1 : 1 ≤ n) (hn : n ≤ 256) (hm : ∀ x ∈ m, x < n) :
    ∃ bits, encodeContextMap m m.length n w = .ok (w ++ bits) ∧
      ∀ rest, readContextMap m.length (bits ++ rest) = some (n, m, rest) := by
  have p24 : (2 : Nat) ^ 24 = 16777216 := by decide
  have hn64 : (n + two64 - 1) % two64 = n - 1 := by
    have : n + two64 - 1 = (n - 1) + two64 := by omega
    rw [this, Nat.add_mod_right, Nat.mod_eq_of_lt (by unfold two64; omega)]
  obtain ⟨vb, hv1, hv2⟩ := varLen8_roundtrip (n - 1) (by omega) w
  unfold encodeContextMap
  rw [hn64, hv1, Out.bind_ok]
  by_cases hone : n = 1
  · -- a single tree: the map is all zeros and nothing else is written
    subst hone
    refine ⟨vb, by simp, ?_⟩
    intro rest
    unfold readContextMap
    rw [hv2]
    simp only [show (1 : Nat) - 1 = 0 by rfl, if_true]
    congr 2
    have : m = List.replicate m.length 0 := by
      apply List.ext_getElem
      · simp
      · intro i h1 h2
        have := hm m[i] (List.getElem_mem h1)
        simp; omega
    rw [← this]
  · rw [if_neg hone]
    obtain ⟨idxs, e1, e2, e3, e3', e4⟩ := mtf_roundtrip m h1 (fun x hx => by have := hm x hx; omega)
    rw [e1, Out.bind_ok]
    have hmax : m.foldl max 0 < n := foldl_max_lt m n (by omega) hm 0 (by omega)
    -- the run-length symbols
    obtain ⟨P, hPdef⟩ : ∃ P, P = (runLengthCodeZeros idxs 6).2 := ⟨_, rfl⟩
    have hP6 : P ≤ 6 := by rw [hPdef]; unfold runLengthCodeZeros; exact Nat.min_le_right _ _
    obtain ⟨rle, hrle⟩ : ∃ rle, rle = (runLengthCodeZeros idxs 6).1 := ⟨_, rfl⟩
    have hrl : rle = rleLoop P (idxs.length + 1) idxs := by rw [hrle, hPdef]; rfl
    obtain ⟨r1, r2⟩ := rleLoop_spec P hP6 (idxs.length + 1) idxs (by omega) e3
    rw [← hrl] at r1 r2
    have hpair : runLengthCodeZeros idxs 6 = (rle, P) := by rw [hrle, hPdef]
    rw [hpair]
    simp only
    have hrlen : rle.length ≤ m.length := by
      have := length_le_flatMap (rleDec P) rle (fun x _ => rleDec_length_pos P x)
      rw [r1, e2] at this; exact this
    have hsymlt : ∀ s ∈ rle, s % 512 < n + P := by
      intro s hs
      rcases Nat.lt_or_ge P (s % 512) with hgt | hle
      · have hd : rleDec P s = [s % 512 - P] := by
          unfold rleDec; rw [if_neg (by omega), if_neg (by omega)]
        have hmem : s % 512 - P ∈ idxs := by
          rw [← r1, List.mem_flatMap]
          exact ⟨s, hs, by rw [hd]; simp⟩
        have := e3' _ hmem
        omega
      · omega
    -- the histogram
    obtain ⟨hist, eh, dh⟩ := symHisto_inv 272 rle (List.replicate 272 0) [] (histoInv_zero 272).toData
      (fun s hs => by have := hsymlt s hs; omega) (by unfold two32; simp; omega)
    rw [eh, Out.bind_ok]
    simp only [List.nil_append] at dh
    obtain ⟨f1, hf1d⟩ : ∃ f1 : List Bool, f1 = [decide (P > 0)] := ⟨_, rfl⟩
    obtain ⟨f2, hf2d⟩ : ∃ f2 : List Bool, f2 = if P > 0 then bitsOf 4 (P - 1) else [] := ⟨_, rfl⟩
    have hf1 : ∀ w' : Writer, writeBits 1 (if P > 0 then 1 else 0) w' = Out.ok (w' ++ f1) := by
      intro w'
      by_cases hp : P > 0
      · rw [if_pos hp, writeBits_ok 1 1 _ (by decide) (by decide), hf1d]; simp [hp, bitsOf]
      · rw [if_neg hp, writeBits_ok 1 0 _ (by decide) (by decide), hf1d]; simp [hp, bitsOf]
    have hf2 : ∀ w' : Writer, (if P > 0 then writeBits 4 (P - 1) w' else Out.ok w') = Out.ok (w' ++ f2) := by
      intro w'
      by_cases hp : P > 0
      · rw [if_pos hp, writeBits_ok 4 (P - 1) _ (by omega) (by decide), hf2d, if_pos hp]
      · rw [if_neg hp, hf2d, if_neg hp]; simp
    obtain ⟨fb, hfb⟩ : ∃ fb, fb = f1 ++ f2 := ⟨_, rfl⟩
    have hsum : hist.sum ≤ 2 ^ 25 := by rw [dh.sum]; simp; omega
    have hA64 : (n + P) % two64 = n + P := Nat.mod_eq_of_lt (by unfold two64; omega)
    rw [hA64]
    have hzero : ∀ i, n + P ≤ i → hist.getD i 0 = 0 := by
      intro i hi
      rcases Nat.eq_zero_or_pos (hist.getD i 0) with h0 | h0
      · exact h0
      · exfalso
        have := (dh.mem i).mp (by omega)
        simp only [List.mem_map] at this
        obtain ⟨s, hs, rfl⟩ := this
        have := hsymlt s hs
        omega
    have hAb : n + P ≤ 2 ^ alphabetBits (n + P) := by
      obtain ⟨_, hb⟩ := BV.Lemmas.HuffmanSimple.alphabetBits_facts (n + P) (by omega) (by omega)
      have := hb (n + P - 1) (by omega)
      omega
    obtain ⟨dep, bts, w1, hbt⟩ := build_totalN hist (n + P) (n + P) 272 (w ++ vb ++ f1 ++ f2) (by omega)
      (by rw [dh.len]; omega) (by omega) hsum (by omega) (Nat.le_refl _) hzero
    obtain ⟨⟨cb, code, ec, rc, sc⟩, _⟩ := codeFacts_of_buildN hist (n + P) (n + P) 272 _ w1 dep bts
      (by rw [dh.len]; omega) (by omega) hsum (by omega) (Nat.le_refl _) hzero hAb (by omega) hbt
    obtain ⟨B, hB1, hB2⟩ := cmapSymbols_roundtrip dep bts code P m.length hP6 rle w1 (fun s hs =>
      ⟨r2 s hs, sc (s % 512) (hsymlt s hs) ((dh.mem _).mpr (List.mem_map.mpr ⟨s, hs, rfl⟩))⟩)
    refine ⟨vb ++ (fb ++ (cb ++ (B ++ [true]))), ?_, ?_⟩
    · rw [hf1, Out.bind_ok, hf2, Out.bind_ok, hbt, Out.bind_ok]
      simp only
      rw [hB1, Out.bind_ok, writeBits_ok 1 1 _ (by decide) (by decide), ec, hfb]
      simp [bitsOf, List.append_assoc]
    · intro rest
      unfold readContextMap
      simp only [List.append_assoc]
      rw [hv2]
      simp only
      rw [if_neg (by omega)]
      have hfl : ∀ r : List Bool, (if decide (P > 0) = true then
            Option.map (fun (x : Nat × List Bool) => (x.fst + 1, x.snd)) (takeBits 4 (f2 ++ r)) else some (0, f2 ++ r))
          = some (P, r) := by
        intro r
        by_cases hp : P > 0
        · rw [hf2d, if_pos hp, if_pos (by simpa using hp), takeBits_bitsOf 4 (P - 1) _ (by omega)]
          simp; omega
        · rw [hf2d, if_neg hp, if_neg (by simpa using hp)]
          have : P = 0 := by omega
          simp [this]
      rw [hfb, hf1d]
      simp only [List.append_assoc, List.cons_append, List.nil_append]
      rw [hfl]
      simp only
      have hnA : n - 1 + 1 + P = n + P := by omega
      rw [hnA, rc]
      simp only
      have hrd := hB2 [] (true :: rest) (m.length + 1) (by omega) (by rw [r1, e2]; simp)
      rw [hrd, r1]
      simp only [List.nil_append, List.cons_append, if_true, e4]
      have hall : (m.all fun x => decide (x < n - 1 + 1)) = true := by
        rw [List.all_eq_true]; intro x hx; have := hm x hx; simp; omega
      rw [hall]
      simp
      omega

end BV.MetaBlock
