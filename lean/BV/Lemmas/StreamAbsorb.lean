import BV.Lemmas.StreamTop
/-
Exact behaviour of calls that the contract refuses and of calls in the FINISHED state;
`take_output`; the state a fresh encoder is in after `ensure_initialized`.
-/
namespace BV.Stream
open BV.Bits

/-- a refused call returns the state it got (up to `update_size_hint(0)`, which runs before the
metadata checks) and untouched cursors -/
theorem refused_unchanged {o : Oracle} {fuel op cap : Nat} {input : Bytes} {s s' : St} {io' : Io}
    (hop : op ≤ 3) (hI : Inv s) (hw : s.inputPos + input.length < two64)
    (h : compressStream o fuel s op input cap = .ok (s', io', false)) :
    (s' = s ∨ s' = updateSizeHint s 0) ∧ io' = Io.start input cap := by
  unfold compressStream at h
  rw [ensureInitialized_id hI.init] at h
  simp only at h
  split at h
  · simp only [Out.ok.injEq, Prod.mk.injEq] at h
    obtain ⟨rfl, rfl, _⟩ := h
    exact ⟨Or.inl rfl, rfl⟩
  · rename_i hg
    split at h
    · rename_i hop3
      subst hop3
      have hIu := inv_updateSizeHint hI 0
      obtain ⟨_, _, _, _, _, _, u7, _, u9, _⟩ := updateSizeHint_fields s 0
      have h0 := h
      unfold processMetadata at h
      split at h
      · simp only [Out.ok.injEq, Prod.mk.injEq] at h
        obtain ⟨rfl, rfl, _⟩ := h
        exact ⟨Or.inr rfl, rfl⟩
      · rename_i hle
        split at h
        · rename_i hbad
          simp only [Out.ok.injEq, Prod.mk.injEq] at h
          obtain ⟨rfl, rfl, _⟩ := h
          refine ⟨Or.inr ?_, rfl⟩
          unfold mdEnter
          split
          · rename_i hproc
            exfalso
            unfold mdEnter at hbad
            rw [if_pos hproc] at hbad
            exact hbad.1 rfl
          · rfl
        · rename_i hgood
          -- the loop never returns false
          exfalso
          have hle' : input.length ≤ 16777216 := by simpa using hle
          have hentry : ((updateSizeHint s 0).remainingMetadata ≠ u32Max ∧ input.length = (updateSizeHint s 0).remainingMetadata) ∨
              ((updateSizeHint s 0).remainingMetadata = u32Max ∧ (updateSizeHint s 0).streamState = .processing ∧ input.length ≤ 16777216) := by
            by_cases hrm : s.remainingMetadata = u32Max
            · refine Or.inr ⟨u7.trans hrm, ?_, hle'⟩
              -- the entered state is HEAD or BODY, so the state before was PROCESSING
              by_cases hp : (updateSizeHint s 0).streamState = .processing
              · exact hp
              · exfalso
                have hme : mdEnter (updateSizeHint s 0) input.length = updateSizeHint s 0 := by
                  unfold mdEnter; rw [if_neg hp]
                rw [hme, u9] at hgood
                apply hgood
                constructor
                · intro hh; exact absurd hrm (hI.mdIff.mp (Or.inl hh))
                · intro hh; exact absurd hrm (hI.mdIff.mp (Or.inr hh))
            · refine Or.inl ⟨by rw [u7]; exact hrm, ?_⟩
              rw [u7]
              by_cases hne : input.length = s.remainingMetadata
              · exact hne
              · exact absurd ⟨hrm, Or.inl hne⟩ hg
          have hm := md_refines (o := o) (fuel := fuel) (s := updateSizeHint s 0)
            (io := { input := input, availIn := input.length, availOut := cap }) (s' := s') (io' := io') (r := false) hIu hentry h0
          exact absurd hm.1 (by simp)
    · rename_i hop3
      have hop2 : op ≤ 2 := by omega
      have hrm : s.remainingMetadata = u32Max := by
        by_cases hne : s.remainingMetadata = u32Max
        · exact hne
        · exact absurd ⟨hne, Or.inr hop3⟩ hg
      have hnmd : ¬ (s.streamState = .metadataHead ∨ s.streamState = .metadataBody) := by
        intro hh; exact absurd hrm (hI.mdIff.mp hh)
      rw [if_neg hnmd] at h
      split at h
      · simp only [Out.ok.injEq, Prod.mk.injEq] at h
        obtain ⟨rfl, rfl, _⟩ := h
        exact ⟨Or.inl rfl, rfl⟩
      · rename_i hok
        exfalso
        have hacc : s.streamState ≠ .processing → input.length = 0 := by
          intro hh
          by_cases hne : input.length = 0
          · exact hne
          · exact absurd ⟨hh, hne⟩ hok
        split at h
        · rename_i hfast
          have hfm : fastMode s.params := ⟨hfast.1, by simpa using hfast.2.1, by simpa using hfast.2.2⟩
          have := (fast_refines (io := { input := input, availIn := input.length, availOut := cap }) hop2 hI hrm hfm hacc h).1
          simp at this
        · have := (slow_refines (io := { input := input, availIn := input.length, availOut := cap }) hop2 hI hrm hw hacc h).1
          simp at this

/-! ### the FINISHED state -/

theorem slowStep_idle {o : Oracle} {op : Nat} {s : St} {io : Io}
    (hst : s.streamState = .finished) (hp : s.pending = []) (hin : io.availIn = 0) :
    slowStep o op s io = .ok (s, io, .brk) := by
  unfold slowStep
  simp only
  rw [if_neg (by simp [hin])]
  have hpush : injectFlushOrPushOutput s io = .ok (s, io, false) := by
    unfold injectFlushOrPushOutput
    rw [if_neg (by simp [hst]), if_neg (by simp [hp])]
  rw [hpush]
  simp only
  rw [if_neg (by simp [hst])]

theorem fastStep_idle {o : Oracle} {op : Nat} {s : St} {io : Io}
    (hst : s.streamState = .finished) (hp : s.pending = []) :
    fastStep o op s io = .ok (s, io, false) := by
  unfold fastStep
  have hpush : injectFlushOrPushOutput s io = .ok (s, io, false) := by
    unfold injectFlushOrPushOutput
    rw [if_neg (by simp [hst]), if_neg (by simp [hp])]
  rw [hpush]
  simp only
  rw [if_neg (by simp [hst])]

theorem checkFlushComplete_finished {s : St} (hst : s.streamState = .finished) : checkFlushComplete s = s := by
  unfold checkFlushComplete
  rw [if_neg (by simp [hst])]

/-- FINISHED with nothing pending: an accepted call changes nothing and delivers nothing -/
theorem finished_call_exact {o : Oracle} {fuel op cap : Nat} {s : St}
    (hop : op ≤ 2) (hI : Inv s) (hst : s.streamState = .finished) (hp : s.pending = []) :
    compressStream o (fuel + 1) s op [] cap = .ok (s, Io.start [] cap, true) := by
  have hrm : s.remainingMetadata = u32Max := by
    by_cases hne : s.remainingMetadata = u32Max
    · exact hne
    · rcases hI.mdIff.mpr hne with h | h <;> rw [hst] at h <;> cases h
  unfold compressStream
  rw [ensureInitialized_id hI.init]
  simp only
  rw [if_neg (by simp [hrm]), if_neg (by omega), if_neg (by simp [hst]), if_neg (by simp)]
  split
  · unfold compressStreamFast
    rename_i hfast
    rw [if_neg (by rcases hfast.1 with h | h <;> simp [h])]
    unfold fastLoop
    rw [fastStep_idle hst hp]
    simp only [checkFlushComplete_finished hst, Io.start]
  · unfold slowLoop
    rw [slowStep_idle hst hp rfl]
    simp only [checkFlushComplete_finished hst, Io.start]

/-! ### take_output -/

theorem takeOutput_spec {s s' : St} {size : Nat} {out : Bytes} (hI : Inv s)
    (h : takeOutput s size = .ok (s', out)) :
    Inv s' ∧ s.pending = out ++ s'.pending ∧ s'.remainingMetadata = s.remainingMetadata
    ∧ (s'.streamState = s.streamState ∨
       (s.streamState = .flushRequested ∧ s'.pending = [] ∧ s'.streamState = .processing)) := by
  unfold takeOutput at h
  split at h
  · simp at h
  · split at h
    · simp only [Out.ok.injEq, Prod.mk.injEq] at h
      obtain ⟨rfl, rfl⟩ := h
      generalize takeCount s size = c
      have hI1 : Inv (takeAdvance s c) := hI.of_frame rfl rfl rfl rfl
      have hp1 : (takeAdvance s c).pending = s.pending.drop c := rfl
      have hst1 : (takeAdvance s c).streamState = s.streamState := rfl
      have hrm1 : (takeAdvance s c).remainingMetadata = s.remainingMetadata := rfl
      obtain ⟨k1, k2, k3, k4, k5, k6, k7, k8, _⟩ := checkFlushComplete_frame (takeAdvance s c)
      refine ⟨inv_checkFlushComplete hI1, ?_, k3.trans hrm1, ?_⟩
      · rw [k8, hp1]; exact (List.take_append_drop c s.pending).symm
      · rw [checkFlushComplete_state, k8]
        split
        · rename_i hfc
          exact Or.inr ⟨hst1 ▸ hfc.1, List.eq_nil_of_length_eq_zero hfc.2, rfl⟩
        · exact Or.inl hst1
    · simp only [Out.ok.injEq, Prod.mk.injEq] at h
      obtain ⟨rfl, rfl⟩ := h
      exact ⟨hI, rfl, rfl, Or.inl rfl⟩

/-! ### a fresh encoder -/

/-- an encoder on which only `set_parameter` has been called -/
def IsFresh (s : St) : Prop := ∃ p : Params, s = { St.new with params := p }

theorem setParameter_fresh {s : St} (h : IsFresh s) (id v : Nat) : IsFresh (setParameter s id v).1 := by
  obtain ⟨p, rfl⟩ := h
  have hni : ({ St.new with params := p } : St).isInitialized = false := rfl
  unfold setParameter
  rw [hni]
  simp only [Bool.false_eq_true, ↓reduceIte]
  cases setParamRaw ({ St.new with params := p } : St).params id v with
  | none => exact ⟨p, rfl⟩
  | some p' => exact ⟨p', rfl⟩

theorem inv_fresh {s : St} (h : IsFresh s) : Inv (ensureInitialized s) ∧ absC (ensureInitialized s) = .processing
    ∧ absC s = .fresh := by
  obtain ⟨p, rfl⟩ := h
  have hE : ensureInitialized { St.new with params := p } =
      { St.new with params := { sanitize p with lgblock := computeLgBlock (sanitize p) },
                    remainingMetadata := u32Max,
                    ring := ringSetup { sanitize p with lgblock := computeLgBlock (sanitize p) } {},
                    lastBytes := (encodeWindowBits (if (sanitize p).quality = 0 ∨ (sanitize p).quality = 1 then max (sanitize p).lgwin 18 else (sanitize p).lgwin) (sanitize p).largeWindow).1,
                    lastBytesBits := (encodeWindowBits (if (sanitize p).quality = 0 ∨ (sanitize p).quality = 1 then max (sanitize p).lgwin 18 else (sanitize p).lgwin) (sanitize p).largeWindow).2,
                    isInitialized := true } := by
    simp [ensureInitialized, St.new]
  rw [hE]
  refine ⟨⟨rfl, Nat.le_refl _, Nat.le_refl _, by simp [St.new, two64], by simp [St.new], by simp [St.new], by simp [St.new], by simp, by simp [St.new], by simp [St.new]⟩, ?_, ?_⟩
  · simp [absC, St.new]
  · simp [absC, St.new]

theorem compressStream_ensure (o : Oracle) (fuel : Nat) (s : St) (op : Nat) (input : Bytes) (cap : Nat) :
    compressStream o fuel s op input cap = compressStream o fuel (ensureInitialized s) op input cap := by
  have hidem : ensureInitialized (ensureInitialized s) = ensureInitialized s := by
    by_cases hi : s.isInitialized = true
    · rw [ensureInitialized_id hi, ensureInitialized_id hi]
    · apply ensureInitialized_id
      simp [ensureInitialized, hi]
  unfold compressStream
  rw [hidem]

end BV.Stream
