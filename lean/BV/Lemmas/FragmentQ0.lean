/-
C01 / fragment writers, part 6 (quality 0): the histogram `BuildAndStoreLiteralPrefixCode` builds for a block
of at least 2^15 bytes (the sampled branch) counts EVERY byte value at least once (the `1 +`), so — by the
support-exactness of the fast builder (C17 `fast_build_and_store_good`: depth ≠ 0 ↔ count ≠ 0) — every byte
value gets a code word.  This is what makes merged blocks (`ShouldMergeBlock` → `UpdateBits`), which re-use the
literal code of the first block for data it has not seen, decodable: a merge only happens behind a first block
of `kFirstBlockSize = 3 << 15 ≥ 2^15` bytes.
-/
import BV.Lemmas.FragmentBlock

namespace BV.Fragment
open BV.Bits

theorem sampledGo_length_le (k : Nat) : ∀ (l : List Nat) (i : Nat), (sampledGo k i l).length ≤ l.length
  | [], i => by cases i <;> simp [sampledGo]
  | b :: bs, 0 => by
    simp only [sampledGo, List.length_cons]
    have := sampledGo_length_le k bs (k - 1)
    omega
  | b :: bs, i + 1 => by
    simp only [sampledGo, List.length_cons]
    have := sampledGo_length_le k bs i
    omega

/-- **the sampled literal histogram is positive everywhere** -/
theorem sampled_histogram_positive (input : List Nat) (h : 32768 ≤ input.length)
    (h2 : input.length < 2147483648) (v : Nat) (hv : v < 256) :
    (literalHistogram input).1.getD v 0 ≠ 0 := by
  unfold literalHistogram
  rw [if_neg (by omega)]
  simp only []
  have hsl : (sampled 29 input).length < two32 := by
    have := sampledGo_length_le 29 input 0
    have e : two32 = 4294967296 := rfl
    unfold sampled
    omega
  rw [List.getD_eq_getElem?_getD, List.getElem?_map]
  have hg : (histo 256 (sampled 29 input))[v]? = some ((sampled 29 input).count v) := by
    have := histo_get 256 (sampled 29 input) v hv hsl
    have hl : v < (histo 256 (sampled 29 input)).length := by rw [histo_length]; exact hv
    rw [List.getD_eq_getElem?_getD, List.getElem?_eq_getElem hl] at this
    rw [List.getElem?_eq_getElem hl]
    simpa using this
  rw [hg]
  simp only [Option.map_some, Option.getD_some]
  have hc : (sampled 29 input).count v ≤ (sampled 29 input).length := List.count_le_length
  have hsl2 : (sampled 29 input).length ≤ input.length := sampledGo_length_le 29 input 0
  have hm : min ((sampled 29 input).count v) 11 ≤ 11 := Nat.min_le_right _ _
  have e : two32 = 4294967296 := rfl
  rw [e, Nat.mod_eq_of_lt (by omega)]
  omega

/-- the exact branch, for contrast: a byte value that does not occur gets count 0 (no code word) — a block
coded with such a code must not be extended by a merge -/
theorem exact_histogram_zero (input : List Nat) (h : input.length < 32768) (v : Nat) (hv : v < 256)
    (hnot : v ∉ input) : (literalHistogram input).1.getD v 0 = 0 := by
  unfold literalHistogram
  rw [if_pos h]
  simp only []
  have hsl : input.length < two32 := by
    have e : two32 = 4294967296 := rfl
    omega
  rw [List.getD_eq_getElem?_getD, List.getElem?_map]
  have hl : v < (histo 256 input).length := by rw [histo_length]; exact hv
  have hg := histo_get 256 input v hv hsl
  rw [List.getD_eq_getElem?_getD, List.getElem?_eq_getElem hl] at hg
  rw [List.getElem?_eq_getElem hl]
  simp only [Option.getD_some] at hg
  simp only [Option.map_some, Option.getD_some, hg, List.count_eq_zero.mpr hnot]
  rfl

end BV.Fragment
