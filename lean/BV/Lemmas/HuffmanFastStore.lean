/-
Lemmas for C17 part 7: the serialisation of `BrotliBuildAndStoreHuffmanTreeFast` with more
than four symbols (static code-length code + the precomputed repeat tables
`kZeroReps*` / `kNonZeroReps*`) is read back by the RFC 7932 §3.5 reader.
-/
import BV.Lemmas.HuffmanSimple
import BV.Lemmas.HuffmanFastTabNZ

namespace BV.Lemmas.HuffmanFastStore
open BV.Gen BV.Bits BV.Huffman BV.Lemmas.HuffmanCanon BV.Lemmas.HuffmanRead BV.Lemmas.HuffmanRle
open BV.Lemmas.HuffmanStoreRead BV.Lemmas.HuffmanStoreIO BV.Lemmas.HuffmanHeader
open BV.Lemmas.HuffmanCreate BV.Lemmas.HuffmanEntry BV.Lemmas.HuffmanSimple BV.Lemmas.HuffmanFib
open BV.Lemmas.HuffmanFastTab

/-! ### table rows -/

theorem zero_row (reps : Nat) (h1 : 1 ≤ reps) (h : reps ≤ 703) :
    kZeroRepsDepth.getD reps 0 ≤ 56 ∧ kZeroRepsBits.getD reps 0 < 2 ^ kZeroRepsDepth.getD reps 0 ∧
    bitsOf (kZeroRepsDepth.getD reps 0) (kZeroRepsBits.getD reps 0)
      = ((writeRepsZeros reps).map sBits).flatten := by
  have hl1 : kZeroRepsDepth.length = 704 := by decide +kernel
  have hl2 : kZeroRepsBits.length = 704 := by decide +kernel
  have := chkTab_spec zEntriesF _ 1 zero_table_chk (reps - 1) (by
    rw [List.length_drop, List.length_zip, hl1, hl2]; omega)
  have e : ((kZeroRepsDepth.zip kZeroRepsBits).drop 1).getD (reps - 1) (0, 0)
      = (kZeroRepsDepth.getD reps 0, kZeroRepsBits.getD reps 0) := by
    rw [List.getD_eq_getElem?_getD, List.getElem?_drop, List.getElem?_zip_eq_some.mpr ?_]
    · rfl
    · have e1 : 1 + (reps - 1) = reps := by omega
      rw [e1, List.getD_eq_getElem?_getD, List.getD_eq_getElem?_getD,
        List.getElem?_eq_getElem (by omega), List.getElem?_eq_getElem (by omega)]
      simp
  rw [e] at this
  have e2 : 1 + (reps - 1) = reps := by omega
  rw [e2, zEntriesF_eq reps (by omega)] at this
  exact this

theorem nonzero_row (r : Nat) (h : r ≤ 703) :
    kNonZeroRepsDepth.getD r 0 ≤ 56 ∧
    kNonZeroRepsBits.getD r 0 < 2 ^ kNonZeroRepsDepth.getD r 0 ∧
    bitsOf (kNonZeroRepsDepth.getD r 0) (kNonZeroRepsBits.getD r 0)
      = (((repDigits 2 r).reverse.map fun e => (16, e)).map sBits).flatten := by
  have hl1 : kNonZeroRepsDepth.length = 704 := by decide +kernel
  have hl2 : kNonZeroRepsBits.length = 704 := by decide +kernel
  have := chkTab_spec nzEntriesF _ 0 nonzero_table_chk r (by
    rw [List.length_zip, hl1, hl2]; omega)
  have e : (kNonZeroRepsDepth.zip kNonZeroRepsBits).getD r (0, 0)
      = (kNonZeroRepsDepth.getD r 0, kNonZeroRepsBits.getD r 0) := by
    rw [List.getD_eq_getElem?_getD, List.getElem?_zip_eq_some.mpr ?_]
    · rfl
    · rw [List.getD_eq_getElem?_getD, List.getD_eq_getElem?_getD,
        List.getElem?_eq_getElem (by omega), List.getElem?_eq_getElem (by omega)]
      simp
  rw [e, Nat.zero_add, nzEntriesF_eq r (by omega)] at this
  exact this

end BV.Lemmas.HuffmanFastStore
