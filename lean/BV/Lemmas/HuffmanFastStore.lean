/-
Lemmas for C17 part 7: the serialisation of `BrotliBuildAndStoreHuffmanTreeFast` with more
than four symbols (static code-length code + the precomputed repeat tables
`kZeroReps*` / `kNonZeroReps*`) is read back by the RFC 7932 §3.5 reader.
-/
import BV.Lemmas.HuffmanSimple
import BV.Lemmas.HuffmanFastTabNZ

namespace BV.Lemmas.HuffmanFastStore
open BV.Gen BV.Bits BV.Huffman BV.Lemmas.HuffmanCanon BV.Lemmas.HuffmanRead BV.Lemmas.HuffmanRle
open BV.Lemmas.HuffmanStoreRead BV.Lemmas.HuffmanStoreIO BV.Lemmas.HuffmanHeader
open BV.Lemmas.HuffmanCreate BV.Lemmas.HuffmanEntry BV.Lemmas.HuffmanSimple BV.Lemmas.HuffmanFib
open BV.Lemmas.HuffmanFastTab

/-! ### table rows -/

theorem zero_row (reps : Nat) (h1 : 1 ≤ reps) (h : reps ≤ 703) :
    kZeroRepsDepth.getD reps 0 ≤ 56 ∧ kZeroRepsBits.getD reps 0 < 2 ^ kZeroRepsDepth.getD reps 0 ∧
    bitsOf (kZeroRepsDepth.getD reps 0) (kZeroRepsBits.getD reps 0)
      = ((writeRepsZeros reps).map sBits).flatten := by
  have hl1 : kZeroRepsDepth.length = 704 := by decide +kernel
  have hl2 : kZeroRepsBits.length = 704 := by decide +kernel
  have := chkTab_spec zEntriesF _ 1 zero_table_chk (reps - 1) (by
    rw [List.length_drop, List.length_zip, hl1, hl2]; omega)
  have e : ((kZeroRepsDepth.zip kZeroRepsBits).drop 1).getD (reps - 1) (0, 0)
      = (kZeroRepsDepth.getD reps 0, kZeroRepsBits.getD reps 0) := by
    rw [List.getD_eq_getElem?_getD, List.getElem?_drop, List.getElem?_zip_eq_some.mpr ?_]
    · rfl
    · have e1 : 1 + (reps - 1) = reps := by omega
      rw [e1, List.getD_eq_getElem?_getD, List.getD_eq_getElem?_getD,
        List.getElem?_eq_getElem (by omega), List.getElem?_eq_getElem (by omega)]
      simp
  rw [e] at this
  have e2 : 1 + (reps - 1) = reps := by omega
  rw [e2, zEntriesF_eq reps (by omega)] at this
  exact this

theorem nonzero_row (r : Nat) (h : r ≤ 703) :
    kNonZeroRepsDepth.getD r 0 ≤ 56 ∧
    kNonZeroRepsBits.getD r 0 < 2 ^ kNonZeroRepsDepth.getD r 0 ∧
    bitsOf (kNonZeroRepsDepth.getD r 0) (kNonZeroRepsBits.getD r 0)
      = (((repDigits 2 r).reverse.map fun e => (16, e)).map sBits).flatten := by
  have hl1 : kNonZeroRepsDepth.length = 704 := by decide +kernel
  have hl2 : kNonZeroRepsBits.length = 704 := by decide +kernel
  have := chkTab_spec nzEntriesF _ 0 nonzero_table_chk r (by
    rw [List.length_zip, hl1, hl2]; omega)
  have e : (kNonZeroRepsDepth.zip kNonZeroRepsBits).getD r (0, 0)
      = (kNonZeroRepsDepth.getD r 0, kNonZeroRepsBits.getD r 0) := by
    rw [List.getD_eq_getElem?_getD, List.getElem?_zip_eq_some.mpr ?_]
    · rfl
    · rw [List.getD_eq_getElem?_getD, List.getD_eq_getElem?_getD,
        List.getElem?_eq_getElem (by omega), List.getElem?_eq_getElem (by omega)]
      simp
  rw [e, Nat.zero_add, nzEntriesF_eq r (by omega)] at this
  exact this


/-! ### the entries behind the bits of `fastRleLoop` -/

/-- the code-length symbols (with extra bits) that the fast builder's loop writes -/
def fastEntries : Nat → List Nat → List (Nat × Nat)
  | _, [] => []
  | prev, v :: rest =>
    if v = 0 then
      writeRepsZeros (1 + runLen v rest) ++ fastEntries prev (rest.drop (runLen v rest))
    else
      (if prev ≠ v then [(v, 0)] else []) ++
      (if (if prev ≠ v then 1 + runLen v rest - 1 else 1 + runLen v rest) < 3 then
          List.replicate (if prev ≠ v then 1 + runLen v rest - 1 else 1 + runLen v rest) (v, 0)
        else (repDigits 2 ((if prev ≠ v then 1 + runLen v rest - 1 else 1 + runLen v rest) - 3)).reverse.map
          fun e => (16, e)) ++
      fastEntries v (rest.drop (runLen v rest))
termination_by _ l => l.length
decreasing_by all_goals (simp; omega)

/-- every run is short enough for the 704-entry tables -/
def RunsOK (l : List Nat) : Prop :=
  ∀ k v rest, l.drop k = v :: rest → 1 + runLen v rest ≤ 703

theorem RunsOK.drop {l : List Nat} (h : RunsOK l) (j : Nat) : RunsOK (l.drop j) := by
  intro k v rest hk
  rw [List.drop_drop] at hk
  exact h _ v rest hk

theorem static_sym_fact : ∀ v : Fin 15,
    kCodeLengthDepth.getD v.val 0 ≤ 56 ∧ kCodeLengthDepth.getD v.val 0 ≠ 0 ∧
    kCodeLengthBits.getD v.val 0 < 2 ^ kCodeLengthDepth.getD v.val 0 := by decide

theorem sBits_lit (v : Nat) (hv : v ≤ 14) :
    sBits (v, 0) = bitsOf (kCodeLengthDepth.getD v 0) (kCodeLengthBits.getD v 0) := by
  unfold sBits entryBitsU
  simp only [show ¬ v = 16 by omega, show ¬ v = 17 by omega, ↓reduceIte, List.append_nil]

theorem writeClRepeat_spec (v : Nat) (hv : v ≤ 14) : ∀ (r : Nat) (w : Writer),
    writeClRepeat v r w = .ok (w ++ ((List.replicate r (v, 0)).map sBits).flatten) := by
  obtain ⟨h56, _, hlt⟩ := static_sym_fact ⟨v, by omega⟩
  simp only at h56 hlt
  intro r
  induction r with
  | zero => intro w; simp [writeClRepeat]
  | succ r ih =>
    intro w
    simp only [writeClRepeat]
    rw [getAt_getD kCodeLengthDepth v (by
        have : kCodeLengthDepth.length = 18 := by decide
        omega),
      getAt_getD kCodeLengthBits v (by
        have : kCodeLengthBits.length = 18 := by decide
        omega)]
    simp only [Out.bind_ok, writeBits_ok _ _ w hlt h56, ih]
    simp [List.replicate_succ, sBits_lit v hv, List.append_assoc]

theorem fastRleLoop_spec : ∀ (n : Nat) (l : List Nat), l.length = n → (∀ x ∈ l, x ≤ 14) →
    RunsOK l → ∀ (prev : Nat) (w : Writer),
    fastRleLoop prev l w = .ok (w ++ ((fastEntries prev l).map sBits).flatten) := by
  intro n
  induction n using Nat.strongRecOn with
  | _ n ih =>
    intro l hn hl hr prev w
    cases l with
    | nil => rw [fastRleLoop, fastEntries]; simp
    | cons v rest =>
      rw [fastRleLoop, fastEntries]
      have hrl := runLen_le v rest
      have hreps : 1 + runLen v rest ≤ 703 := hr 0 v rest rfl
      have hdl : (rest.drop (runLen v rest)).length < n := by
        rw [List.length_drop, ← hn]; simp; omega
      have hrest : ∀ x ∈ rest.drop (runLen v rest), x ≤ 14 := fun x hx =>
        hl x (List.mem_cons_of_mem _ (List.mem_of_mem_drop hx))
      have hrok : RunsOK (rest.drop (runLen v rest)) := by
        have := hr.drop (runLen v rest + 1)
        rw [List.drop_succ_cons] at this
        exact this
      have hv : v ≤ 14 := hl v (by simp)
      by_cases hv0 : v = 0
      · simp only [hv0, ↓reduceIte]
        subst hv0
        obtain ⟨h56, hlt, hbits⟩ := zero_row (1 + runLen 0 rest) (by omega) hreps
        rw [getAt_getD kZeroRepsDepth _ (by
            have : kZeroRepsDepth.length = 704 := by decide +kernel
            omega),
          getAt_getD kZeroRepsBits _ (by
            have : kZeroRepsBits.length = 704 := by decide +kernel
            omega)]
        simp only [Out.bind_ok]
        rw [Nat.mod_eq_of_lt (by omega), writeBits_ok _ _ w hlt h56]
        simp only [Out.bind_ok]
        rw [ih _ hdl _ rfl hrest hrok, hbits]
        simp [List.append_assoc]
      · simp only [hv0, ↓reduceIte]
        generalize hr' : (if prev ≠ v then 1 + runLen v rest - 1 else 1 + runLen v rest) = r
        have hr703 : r ≤ 703 := by rw [← hr']; split <;> omega
        -- first literal
        have h1 : (if prev ≠ v then writeClRepeat v 1 w else Out.ok w)
            = .ok (w ++ ((if prev ≠ v then [(v, 0)] else []).map sBits).flatten) := by
          split
          · rw [writeClRepeat_spec v hv 1 w]; rfl
          · simp
        rw [h1]
        simp only [Out.bind_ok]
        -- the repetitions
        by_cases h3 : r < 3
        · simp only [h3, ↓reduceIte]
          rw [writeClRepeat_spec v hv r _]
          simp only [Out.bind_ok]
          rw [ih _ hdl _ rfl hrest hrok]
          simp [List.append_assoc]
        · simp only [h3, ↓reduceIte]
          obtain ⟨h56, hlt, hbits⟩ := nonzero_row (r - 3) (by omega)
          rw [getAt_getD kNonZeroRepsDepth _ (by
              have : kNonZeroRepsDepth.length = 704 := by decide +kernel
              omega),
            getAt_getD kNonZeroRepsBits _ (by
              have : kNonZeroRepsBits.length = 704 := by decide +kernel
              omega)]
          simp only [Out.bind_ok]
          rw [Nat.mod_eq_of_lt (by omega), writeBits_ok _ _ _ hlt h56]
          simp only [Out.bind_ok]
          rw [ih _ hdl _ rfl hrest hrok, hbits]
          simp [List.append_assoc]


/-! ### these entries expand back to the depth vector -/

/-- the repetitions of a non-zero length after the optional first literal, as the fast
builder encodes them (no special case for 7) -/
def tailF (v r : Nat) : List (Nat × Nat) :=
  if r < 3 then List.replicate r (v, 0) else (repDigits 2 (r - 3)).reverse.map fun e => (16, e)

theorem tailBlockF (v r : Nat) (hv0 : v ≠ 0) (hv : v < 16) (s1 : ExpandState)
    (hp1 : s1.prevNonZero = v) (h01 : oldOf s1 v = 0) (hr0 : r = 0 → s1.rep = none) :
    (run s1 (tailF v r)).out = s1.out ++ List.replicate r v ∧
    (run s1 (tailF v r)).prevNonZero = v ∧
    ∀ x, oldOf (run s1 (tailF v r)) x ≠ 0 → x = v ∧ 3 ≤ r := by
  unfold tailF
  by_cases h3 : r < 3
  · simp only [h3, ↓reduceIte]
    rw [blockLit _ _ hv]
    by_cases hr : r = 0
    · subst hr
      simp only [↓reduceIte, List.replicate_zero, List.append_nil, true_and]
      refine ⟨hp1, ?_⟩
      intro x hx
      simp [pendingRepeat, hr0 rfl] at hx
    · simp only [hr, ↓reduceIte, ne_eq, hv0, not_false_eq_true]
      refine ⟨by first | rfl | trivial, by first | rfl | trivial, ?_⟩
      intro x hx; simp [pendingRepeat] at hx
  · simp only [h3, ↓reduceIte]
    rw [block16 _ (repDigits_ne_nil 2 _) _ (by rw [hp1]; exact h01), valD_repDigits2]
    have e : r - 3 + 3 = r := by omega
    rw [e, hp1]
    refine ⟨rfl, rfl, ?_⟩
    intro x hx
    simp only [pendingRepeat] at hx
    split at hx <;> simp_all <;> omega

theorem fastEntries_roundtrip :
    ∀ (n : Nat) (l : List Nat), l.length = n → (∀ x ∈ l, x < 16) →
    ∀ (prev : Nat) (s : ExpandState), s.prevNonZero = prev → Good s l →
      (run s (fastEntries prev l)).out = s.out ++ l := by
  intro n
  induction n using Nat.strongRecOn with
  | _ n ih =>
    intro l hn hlt prev s hp hg
    cases l with
    | nil => rw [fastEntries]; simp
    | cons v rest =>
      rw [fastEntries]
      have hrl := runLen_le v rest
      have hsplit : v :: rest = List.replicate (1 + runLen v rest) v ++ rest.drop (runLen v rest) := by
        have h1 : 1 + runLen v rest = runLen v rest + 1 := by omega
        conv => rhs; rw [h1, List.replicate_succ, ← take_runLen v rest (runLen v rest) (Nat.le_refl _)]
        simp
      have hv : v < 16 := hlt v (by simp)
      have hrest : ∀ x ∈ rest.drop (runLen v rest), x < 16 := fun x hx =>
        hlt x (List.mem_cons_of_mem _ (List.mem_of_mem_drop hx))
      have hdl : (rest.drop (runLen v rest)).length < n := by
        rw [List.length_drop, ← hn]; simp; omega
      have hg0 : oldOf s v = 0 := hg v rfl
      by_cases hv0 : v = 0
      · simp only [hv0, ↓reduceIte, run_append]
        subst hv0
        obtain ⟨ho, hpz, hpost⟩ := zerosBlock (1 + runLen 0 rest) (by omega) s hg0
        rw [ih _ hdl _ rfl hrest prev _ (hpz.trans hp)]
        · rw [ho, List.append_assoc, ← hsplit]
        · intro x hx
          by_cases hox : oldOf (run s (writeRepsZeros (1 + runLen 0 rest))) x = 0
          · exact hox
          · exfalso
            obtain ⟨hx0, _⟩ := hpost x hox
            subst hx0
            exact head_drop_runLen 0 rest hx
      · simp only [hv0, ↓reduceIte, run_append]
        generalize hr' : (if prev ≠ v then 1 + runLen v rest - 1 else 1 + runLen v rest) = r
        have htail : (if r < 3 then List.replicate r (v, 0)
            else (repDigits 2 (r - 3)).reverse.map fun e => (16, e)) = tailF v r := rfl
        rw [htail]
        -- state after the optional literal
        obtain ⟨s1, hs1, hs1o, hs1p, hs1old, hs1rep⟩ : ∃ s1,
            run s (if prev ≠ v then [(v, 0)] else []) = s1 ∧
            s1.out ++ List.replicate r v = s.out ++ List.replicate (1 + runLen v rest) v ∧
            s1.prevNonZero = v ∧ oldOf s1 v = 0 ∧ (r = 0 → s1.rep = none) := by
          by_cases hpv : prev = v
          · refine ⟨s, by simp [hpv], ?_, hp.trans hpv, hg0, ?_⟩
            · rw [← hr']; simp [hpv]
            · intro h0; rw [← hr'] at h0; simp [hpv] at h0
          · refine ⟨⟨s.out ++ [v], v, none⟩, by simp [hpv, stepLit, hv, hv0], ?_, rfl,
              by simp [pendingRepeat], fun _ => rfl⟩
            rw [← hr']
            simp only [ne_eq, hpv, not_false_eq_true, ↓reduceIte, List.append_assoc,
              List.singleton_append, ← List.replicate_succ]
            congr 2; omega
        rw [hs1]
        obtain ⟨ho, hpz, hpost⟩ := tailBlockF v r hv0 hv s1 hs1p hs1old hs1rep
        rw [ih _ hdl _ rfl hrest v _ hpz]
        · rw [ho, hs1o, List.append_assoc, ← hsplit]
        · intro x hx
          by_cases hox : oldOf (run s1 (tailF v r)) x = 0
          · exact hox
          · exfalso
            obtain ⟨hxv, _⟩ := hpost x hox
            subst hxv
            exact head_drop_runLen x rest hx


/-! ### validity and size of the entries -/

theorem zeros_entries (reps : Nat) : ∀ e ∈ writeRepsZeros reps, e = (0, 0) ∨ (e.1 = 17 ∧ e.2 < 8) := by
  intro e he
  unfold writeRepsZeros at he
  by_cases h11 : reps = 11
  · subst h11
    simp only [↓reduceIte, show ¬ (10 < 3) by decide, List.mem_append, List.mem_cons,
      List.not_mem_nil, or_false, List.mem_map, List.mem_reverse] at he
    rcases he with rfl | ⟨x, hx, rfl⟩
    · left; rfl
    · right; exact ⟨rfl, repDigits3_lt _ x hx⟩
  · simp only [h11, ↓reduceIte, List.nil_append] at he
    by_cases h3 : reps < 3
    · simp only [h3, ↓reduceIte] at he
      rw [List.mem_replicate] at he; left; exact he.2
    · simp only [h3, ↓reduceIte, List.mem_map, List.mem_reverse] at he
      obtain ⟨x, hx, rfl⟩ := he
      right; exact ⟨rfl, repDigits3_lt _ x hx⟩

/-- an entry the static code-length code can write -/
def FastOK (e : Nat × Nat) : Prop :=
  (e.1 ≤ 14 ∧ e.2 = 0) ∨ (e.1 = 16 ∧ e.2 < 4) ∨ (e.1 = 17 ∧ e.2 < 8)

theorem fastEntries_ok : ∀ (n : Nat) (l : List Nat), l.length = n → (∀ x ∈ l, x ≤ 14) →
    ∀ prev, (∀ e ∈ fastEntries prev l, FastOK e) ∧ (fastEntries prev l).length ≤ l.length := by
  intro n
  induction n using Nat.strongRecOn with
  | _ n ih =>
    intro l hn hl prev
    cases l with
    | nil => rw [fastEntries]; simp
    | cons v rest =>
      rw [fastEntries]
      have hrl := runLen_le v rest
      have hdl : (rest.drop (runLen v rest)).length < n := by
        rw [List.length_drop, ← hn]; simp; omega
      have hrest : ∀ x ∈ rest.drop (runLen v rest), x ≤ 14 := fun x hx =>
        hl x (List.mem_cons_of_mem _ (List.mem_of_mem_drop hx))
      have hd : (rest.drop (runLen v rest)).length = rest.length - runLen v rest := List.length_drop
      have hv : v ≤ 14 := hl v (by simp)
      by_cases hv0 : v = 0
      · subst hv0
        simp only [↓reduceIte]
        obtain ⟨i1, i2⟩ := ih _ hdl _ rfl hrest prev
        constructor
        · intro e he
          rcases List.mem_append.mp he with he | he
          · rcases zeros_entries _ e he with h | h
            · left; rw [h]; exact ⟨by omega, rfl⟩
            · right; right; exact h
          · exact i1 e he
        · have := writeRepsZeros_length (1 + runLen 0 rest) (by omega)
          simp only [List.length_append, List.length_cons]
          omega
      · simp only [hv0, ↓reduceIte]
        obtain ⟨i1, i2⟩ := ih _ hdl _ rfl hrest v
        generalize hr' : (if prev ≠ v then 1 + runLen v rest - 1 else 1 + runLen v rest) = r
        constructor
        · intro e he
          rcases List.mem_append.mp he with he | he
          · rcases List.mem_append.mp he with he | he
            · split at he
              · simp at he; subst he; left; exact ⟨hv, rfl⟩
              · simp at he
            · split at he
              · rw [List.mem_replicate] at he; rw [he.2]; left; exact ⟨hv, rfl⟩
              · simp only [List.mem_map, List.mem_reverse] at he
                obtain ⟨x, hx, rfl⟩ := he
                right; left; exact ⟨rfl, repDigits2_lt _ x hx⟩
          · exact i1 e he
        · simp only [List.length_append, List.length_cons]
          have h1 : (if prev ≠ v then [(v, 0)] else []).length + r ≤ 1 + runLen v rest := by
            rw [← hr']; split <;> simp <;> omega
          have h2 : (if r < 3 then List.replicate r (v, 0)
              else (repDigits 2 (r - 3)).reverse.map fun e => (16, e)).length ≤ r := by
            split
            · simp
            · have := repDigits_length 2 (r - 3)
              simp only [List.length_map, List.length_reverse]; omega
          omega


/-! ### assembly -/

/-- the scan stops right behind a non-zero entry -/
theorem fastScan_last (histogram : List Nat) : ∀ (hs : List Nat) (total len0 count : Nat)
    (symbols : List Nat) (c' len' : Nat) (s' : List Nat), hs = histogram.drop len0 →
    (total = 0 → len0 = 0 ∨ histogram.getD (len0 - 1) 0 ≠ 0) →
    fastScan hs total len0 count symbols = .ok (c', s', len') →
    len' = 0 ∨ histogram.getD (len' - 1) 0 ≠ 0 := by
  intro hs
  induction hs with
  | nil =>
    intro total len0 count symbols c' len' s' _ h0 h
    simp only [fastScan] at h
    split at h
    · rename_i ht
      injection h with h; injection h with h1 h2; injection h2 with h2 h3
      subst h3; exact h0 ht
    · cases h
  | cons x xs ih =>
    intro total len0 count symbols c' len' s' hdrop h0 h
    have hl0 : len0 < histogram.length := by
      by_cases hlt : len0 < histogram.length
      · exact hlt
      · rw [List.drop_eq_nil_of_le (by omega)] at hdrop; cases hdrop
    have hx : histogram.getD len0 0 = x := by
      rw [List.drop_eq_getElem_cons hl0] at hdrop
      injection hdrop with h1 h2
      rw [List.getD_eq_getElem?_getD, List.getElem?_eq_getElem hl0]; simp [h1]
    have hxs : xs = histogram.drop (len0 + 1) := by
      rw [List.drop_eq_getElem_cons hl0] at hdrop
      injection hdrop with h1 h2
    simp only [fastScan] at h
    by_cases ht : total = 0
    · simp only [ht, ↓reduceIte] at h
      injection h with h; injection h with h1 h2; injection h2 with h2 h3
      subst h3; exact h0 ht
    · simp only [ht, ↓reduceIte] at h
      by_cases hx0 : x = 0
      · simp only [hx0, ne_eq, not_true_eq_false, ↓reduceIte] at h
        exact ih total (len0 + 1) count symbols c' len' s' hxs (fun h => absurd h ht) h
      · simp only [ne_eq, hx0, not_false_eq_true, ↓reduceIte] at h
        apply ih _ (len0 + 1) (count + 1) _ c' len' s' hxs _ h
        intro _
        right
        simp only [Nat.add_sub_cancel]
        rw [hx]; exact hx0

theorem kraftSum_replicate (L n v : Nat) (hv : v ≠ 0) :
    kraftSum L (List.replicate n v) = n * 2 ^ (L - v) := by
  induction n with
  | zero => simp [kraftSum]
  | succ n ih =>
    unfold kraftSum at ih ⊢
    simp only [List.replicate_succ, List.map_cons, List.sum_cons, ih, hv, ↓reduceIte, Nat.add_mul,
      Nat.one_mul]
    omega

theorem static_clcode : ClCode kCodeLengthDepth kCodeLengthBits :=
  { hlen := by decide, hblen := by decide, hall := by decide, hk := by decide, h2 := by decide,
    hbits := by decide }

theorem no_704_flat : ∀ v : Fin 15, v.val ≠ 0 → 704 * 2 ^ (14 - v.val) ≠ 16384 := by decide

/-- a complete vector of at most 704 depths `≤ 14` has no run longer than 703 -/
theorem runsOK_of_kraft (l : List Nat) (hlen : l.length ≤ 704) (h14 : ∀ x ∈ l, x ≤ 14)
    (hk : kraftSum 14 l = 2 ^ 14) : RunsOK l := by
  intro k v rest hd
  have hrl := runLen_le v rest
  have hdl : (l.drop k).length = l.length - k := List.length_drop
  rw [hd] at hdl
  simp only [List.length_cons] at hdl
  by_cases hk0 : k = 0
  · subst hk0
    simp only [List.drop_zero] at hd
    by_cases hfull : 1 + runLen v rest ≤ 703
    · exact hfull
    · exfalso
      -- all 704 depths are equal
      have hrun : runLen v rest = rest.length := by omega
      have hall : l = List.replicate 704 v := by
        rw [hd]
        have := take_runLen v rest rest.length (by omega)
        rw [List.take_length] at this
        rw [this, ← List.replicate_succ]
        congr 1; omega
      have hv14 : v ≤ 14 := h14 v (by rw [hd]; simp)
      by_cases hv0 : v = 0
      · rw [hall, hv0] at hk
        have : kraftSum 14 (List.replicate 704 0) = 0 := kraftSum_replicate_zero 14 704
        rw [this] at hk
        exact absurd hk (by decide)
      · rw [hall, kraftSum_replicate 14 704 v hv0] at hk
        exact no_704_flat ⟨v, by omega⟩ hv0 hk
  · omega


/-- the 40 constant bits of `StoreStaticCodeLengthCode` are what the generic code-length-code
writer produces for the static code (`kCodeLengthDepth`, five or more... two or more codes) -/
theorem static_header_fact :
    storeHuffmanTreeOfHuffmanTreeToBitMask 2 kCodeLengthDepth [] = .ok (bitsOf 40 0xff55555554) ∧
    kraftSum 5 kCodeLengthDepth = 32 ∧ (∀ x ∈ kCodeLengthDepth, x ≤ 5) ∧
    kCodeLengthDepth.length = 18 := by
  refine ⟨by decide +kernel, by decide, by decide, by decide⟩

/-- whatever follows the static code-length-code header is read with the static code -/
theorem header_read_gen (hdr : List Bool)
    (hsf : storeHuffmanTreeOfHuffmanTreeToBitMask 2 kCodeLengthDepth [] = .ok hdr)
    (A : Nat) (ebits rest : List Bool) (d : List Nat)
    (hgo : readLensGo kCodeLengthDepth A (A + 1) ⟨[], 8, none⟩ ebits = some (d, rest)) :
    readPrefixCode A (hdr ++ ebits) = some (d, rest) := by
  obtain ⟨_, hk32, h5, hl18⟩ := static_header_fact
  obtain ⟨hskip, body, hw, hs4', hs1, hrd⟩ := header_roundtrip kCodeLengthDepth hl18 h5 2
    (Or.inl ⟨by decide, hk32⟩) [] ebits
  have hw2 := hsf.symm.trans hw
  injection hw2 with hw2
  rw [List.nil_append] at hw2
  rw [hw2, List.append_assoc]
  exact BV.Lemmas.HuffmanStoreTree.readPrefixCode_complex A hskip kCodeLengthDepth d body ebits hs4' hs1
    hrd rest hgo

theorem sBits_eq : (fun e => sBits e)
    = entryBitsU (fun s => bitsOf (kCodeLengthDepth.getD s 0) (kCodeLengthBits.getD s 0)) := rfl

/-- `BrotliBuildAndStoreHuffmanTreeFast` with five or more symbols in use: static
code-length code, then the depths with the precomputed repeat patterns -/
theorem fast_complex_roundtrip (histogram : List Nat) (total maxBits A : Nat) (depth bits : List Nat)
    (w rest : List Bool) (count length : Nat) (symbols : List Nat)
    (hscan : fastScan histogram total 0 0 [0, 0, 0, 0] = .ok (count, symbols, length))
    (hc : 5 ≤ count) (h704 : histogram.length ≤ 704) (hsum : histogram.sum ≤ 2 ^ 25)
    (hdl : length ≤ depth.length) (hbl : length ≤ bits.length) (hA : length ≤ A) :
    ∃ depth' bits' sbits, buildAndStoreHuffmanTreeFast histogram total maxBits depth bits w
        = .ok (depth', bits', w ++ sbits) ∧
      GoodDepth histogram length 14 (List.replicate length 0 ++ depth.drop length) depth' ∧
      GoodBits length depth' bits bits' ∧
      readPrefixCode A (sbits ++ rest)
        = some (depth'.take length ++ List.replicate (A - length) 0, rest) := by
  obtain ⟨_, hl, hs4, hcnt⟩ := fastScan_spec histogram total 0 0 [0, 0, 0, 0] count length symbols
    rfl hscan
  simp only [Nat.sub_zero, Nat.zero_add] at hl hcnt
  have hlast := fastScan_last histogram histogram total 0 0 [0, 0, 0, 0] count length symbols rfl
    (fun _ => Or.inl rfl) hscan
  have hlen1 : 1 ≤ length := by
    by_cases h0 : length = 0
    · subst h0; simp at hcnt; omega
    · omega
  have hlastnz : histogram.getD (length - 1) 0 ≠ 0 := by
    rcases hlast with h | h
    · omega
    · exact h
  unfold buildAndStoreHuffmanTreeFast
  rw [hscan]
  simp only [Out.bind_ok]
  rw [getAt_getD symbols 0 (by omega)]
  simp only [Out.bind_ok]
  rw [if_neg (by omega)]
  have hzp : zeroPrefix depth length = .ok (List.replicate length 0 ++ depth.drop length) := by
    simp [zeroPrefix, show ¬ length > depth.length by omega]
  rw [hzp]
  simp only [Out.bind_ok]
  have hf : fib 17 = 1597 := by decide
  have e1 : (2:Nat) ^ 16 = 65536 := by decide
  have e2 : (2:Nat) ^ 25 = 33554432 := by decide
  have h1 : length * 2 ^ 16 ≤ 704 * 2 ^ 16 := Nat.mul_le_mul_right _ (by omega)
  have hst := sum_take_le histogram length
  rw [e1] at h1
  rw [e2] at hsum
  obtain ⟨d1, hd1, hg⟩ := fast_total histogram length 16 hl (by omega) (by omega)
    (List.replicate length 0 ++ depth.drop length) (by simp)
    (zeroOff_zeroPrefix _ _ _) (by decide) (by rw [e1]; omega) (by rw [hf, e1]; omega)
  rw [hd1]
  simp only [Out.bind_ok]
  have hd1len : length ≤ d1.length := by rw [hg.hlen]; simp
  have hlt : (d1.take length).length = length := by rw [List.length_take]; omega
  have hd14 : ∀ x ∈ d1.take length, x ≤ 14 := by
    intro x hx
    obtain ⟨i, hi, hxi⟩ := List.getElem_of_mem hx
    rw [hlt] at hi
    have := hg.hlim i hi
    rw [List.getD_eq_getElem?_getD, List.getElem?_eq_getElem (by omega)] at this
    rw [List.getElem_take] at hxi
    simp only [Option.getD_some] at this
    omega
  obtain ⟨b1, hb1, _⟩ := convert_spec (d1.take length) bits
    (fun x hx => by have := hd14 x hx; omega) (by rw [hlt]; omega) (by rw [hlt]; omega)
  have hcv : convertBitDepthsToSymbols d1 length bits = .ok b1 := by
    rw [convert_take d1 length bits hd1len]; exact hb1
  rw [hcv]
  simp only [Out.bind_ok]
  rw [if_neg (by omega)]
  have hgb := goodBits_of_convert d1 bits b1 length 14 (by decide) hd1len hg.hlim (by omega) hbl hcv
  -- the writer
  have hstatic : storeStaticCodeLengthCode w = .ok (w ++ bitsOf 40 0xff55555554) :=
    writeBits_ok 40 0xff55555554 w (by decide) (by decide)
  rw [hstatic]
  simp only [Out.bind_ok]
  rw [if_neg (by omega)]
  have hruns := runsOK_of_kraft (d1.take length) (by rw [hlt]; omega) hd14 hg.hkraft
  rw [fastRleLoop_spec _ (d1.take length) rfl hd14 hruns 8 _]
  simp only [Out.bind_ok]
  refine ⟨d1, b1, bitsOf 40 0xff55555554 ++ ((fastEntries 8 (d1.take length)).map sBits).flatten,
    by rw [List.append_assoc], hg, hgb, ?_⟩
  -- the reader: header
  rw [List.append_assoc]
  apply header_read_gen _ static_header_fact.1 A _ rest
  -- the reader: code length symbols
  have hio := symIO_of_clCode kCodeLengthDepth kCodeLengthBits static_clcode
  obtain ⟨hok, hElen⟩ := fastEntries_ok _ (d1.take length) rfl hd14 8
  have hvalid : ∀ e ∈ fastEntries 8 (d1.take length),
      ValidEntryU (fun s => kCodeLengthDepth.getD s 0 ≠ 0) e := by
    intro e he
    have hnz15 : ∀ v : Fin 15, kCodeLengthDepth.getD v.val 0 ≠ 0 := by decide
    rcases hok e he with ⟨h1, h2⟩ | ⟨h1, h2⟩ | ⟨h1, h2⟩
    · exact ⟨by omega, hnz15 ⟨e.1, by omega⟩, fun h => by omega, fun h => by omega⟩
    · refine ⟨by omega, by rw [h1]; decide, fun _ => h2, fun h => by omega⟩
    · refine ⟨by omega, by rw [h1]; decide, fun h => by omega, fun _ => h2⟩
  have hout : (run ⟨[], 8, none⟩ (fastEntries 8 (d1.take length))).out = d1.take length := by
    have := fastEntries_roundtrip _ (d1.take length) rfl
      (fun x hx => by have := hd14 x hx; omega) 8 ⟨[], 8, none⟩ rfl (by intro x _; rfl)
    simpa using this
  have hk15 : kraftSum 15 (d1.take length) = 32768 := kraft15_of_14 _ hd14 hg.hkraft
  have hne : d1.take length ≠ [] := by
    intro h; rw [h] at hlt; simp at hlt; omega
  have hlastd : (d1.take length).getLast hne ≠ 0 := by
    rw [List.getLast_eq_getElem]
    have hidx : (d1.take length).length - 1 = length - 1 := by rw [hlt]
    have := (hg.hsupp (length - 1) (by omega)).mpr hlastnz
    rw [List.getD_eq_getElem?_getD, List.getElem?_eq_getElem (by omega)] at this
    simp only [Option.getD_some] at this
    simp only [hidx, List.getElem_take]
    exact this
  have hwf : WF ⟨[], 8, none⟩ := fun v c h => by simp at h
  have hpre := prefix_conditions (fastEntries 8 (d1.take length)) ⟨[], 8, none⟩ hwf A
    (by rw [hout]; exact hne) (by simpa [hout] using hlastd)
    (by rw [hout]; intro x hx; have := hd14 x hx; omega)
    (by rw [hout, hlt]; exact hA) (by rw [hout]; exact hk15)
  have hread := readEntriesU hio A (fastEntries 8 (d1.take length)) ⟨[], 8, none⟩ (A + 1) rest hvalid
    (by rw [hlt] at hElen; omega) hpre (by rw [hout, hlt]; exact hA) (by rw [hout]; exact hk15)
  rw [hout, hlt] at hread
  exact hread

end BV.Lemmas.HuffmanFastStore
