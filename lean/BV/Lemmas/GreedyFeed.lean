/-
C01 / greedy builder, part 5: `FinishBlock` as a whole, `AddSymbol`, and a whole symbol stream.
-/
import BV.Lemmas.GreedyMerge

namespace BV.Greedy
open BV.Bits BV.Recoder BV.MetaBlock

/-- the only assumption on the float oracle: `x < x - 20.0` is false (true of IEEE-754 arithmetic for every `x`,
NaN and infinities included).  It is what keeps the "merge with the second-to-last type" branch from being taken
while there is a single block type, where `diff[0]` and `diff[1]` are the same computation. -/
def OracleOK {F : Type} (ops : FOps F) : Prop := ∀ x, ops.lt x (ops.sub x ops.c20) = false

theorem decision_same {F : Type} (ops : FOps F) (hirr : OracleOK ops) (nt mbt : Nat) (thr d : F) :
    decision ops nt mbt thr d d ≠ .mergeSecond := by
  unfold decision
  split
  · simp
  · rw [hirr d]; simp

/-- the part of the state that matters only while symbols are still being added -/
structure Dyn {F : Type} (s : BS F) (rb : List Blk) (pend : List (Nat × Nat)) : Prop where
  bs : s.blockSize = pend.length
  lt : s.blockSize < s.targetBlockSize
  mt : s.minBlockSize ≤ s.targetBlockSize
  tb : s.targetBlockSize ≤ doneCount rb + s.minBlockSize
  hh : s.histosSize = s.slots.length

theorem laterBlock_inv {F : Type} (ops : FOps F) (hirr : OracleOK ops) {N A K HH : Nat} {s : BS F} {rb : List Blk}
    {pend : List (Nat × Nat)} (h : Inv N A K HH s rb pend 0) (hne : rb ≠ []) (hh : s.histosSize = s.slots.length)
    (hl1 : pend.length ≤ s.blockSize) (hl2 : s.minBlockSize ≤ s.blockSize) (hl3 : s.blockSize ≤ pend.length + s.minBlockSize)
    (hmt : s.minBlockSize ≤ s.targetBlockSize) (htb : s.targetBlockSize ≤ 2 ^ 24) :
    ∃ s' rb', laterBlock ops s = .ok s' ∧ Inv N A K HH s' rb' [] (s.blockSize - pend.length) ∧ rb' ≠ [] ∧
      flat rb' = flat rb ++ pend ∧ doneCount rb' = doneCount rb + pend.length ∧
      s'.blockSize = 0 ∧ s'.minBlockSize = s.minBlockSize ∧ s.minBlockSize ≤ s'.targetBlockSize ∧
      s'.targetBlockSize ≤ s.targetBlockSize + s.minBlockSize ∧
      s'.slots.length = s.slots.length ∧ s'.histosSize = s.histosSize := by
  obtain ⟨b0, rest, rfl⟩ : ∃ b0 rest, rb = b0 :: rest := by
    cases rb with
    | nil => exact absurd rfl hne
    | cons b0 rest => exact ⟨b0, rest, rfl⟩
  have hcurr := h.curr hne
  have hcl := curr_lt h
  have hntp := h.ntPos hne
  have hl0 := h.last0 b0 rfl
  have hτ0 : s.last0 < s.numTypes := by rw [hl0]; exact h.tlt b0 (by simp)
  have hτ1 : s.last1 < s.numTypes := by
    cases rest with
    | nil => rw [h.last1' (by simp)]; omega
    | cons b1 r => rw [h.last1 b1 rfl]; exact h.tlt b1 (by simp)
  have hsc := h.shaped _ (slot_mem s s.curr hcl)
  have hs0 := h.shaped _ (slot_mem s s.last0 (by omega))
  have hs1 := h.shaped _ (slot_mem s s.last1 (by omega))
  have hc0 := addSlot_shaped s.nc s.H _ _ hsc hs0
  have hc1 := addSlot_shaped s.nc s.H _ _ hsc hs1
  unfold laterBlock
  rw [getAt_getD' _ _ [] hcl, Out.bind_ok, getAt_getD' _ _ [] (by omega : s.last0 < s.slots.length), Out.bind_ok,
    getAt_getD' _ _ [] (by omega : s.last1 < s.slots.length), Out.bind_ok]
  dsimp only
  generalize hd : decision ops s.numTypes s.maxBlockTypes s.splitThreshold _ _ = d
  cases d with
  | split =>
    have hlt : s.numTypes < s.maxBlockTypes := by
      unfold decision at hd
      split at hd
      · rename_i hc
        simp only [Bool.and_eq_true, decide_eq_true_eq] at hc
        exact hc.1.1
      · split at hd <;> cases hd
    obtain ⟨s', e1, e2, e3, e4, e5, e6, e7⟩ := splitBlock_inv (slotEntropy ops s.alphabetSize (s.slots.getD s.curr [])) h hne hh
      (by rw [slotEntropy_length]; exact hsc.1) hlt hl1 hl2 hl3
    refine ⟨s', _, e1, e2, by simp, by rw [flat_cons], by rw [doneCount_cons]; dsimp only; omega, e3, e4, by omega, by omega, e6, e7⟩
  | mergeSecond =>
    have h2 : 2 ≤ s.numTypes := by
      apply Classical.byContradiction
      intro hn
      have h1 : s.numTypes = 1 := by omega
      have hlen := h.single h1
      have e0 : s.last0 = 0 := by omega
      have e1 : s.last1 = 0 := h.last1' (by omega)
      obtain ⟨e, e', ee, el, eq⟩ := h.ent hne
      have eq' := eq h1
      subst eq'
      have et : s.lastEntropy.take s.nc = e := by rw [ee, ← el]; exact List.take_left' rfl
      have ed : s.lastEntropy.drop s.nc = e := by rw [ee, ← el]; exact List.drop_left' rfl
      rw [e0, e1, et, ed] at hd
      exact decision_same ops hirr _ _ _ _ hd
    obtain ⟨s', e1, e2, e3, e4, e5, e6, e7⟩ := mergeSecondBlock_inv (slotEntropy ops s.alphabetSize
      (addSlot (s.slots.getD s.curr []) (s.slots.getD s.last1 []))) h h2
      (by rw [slotEntropy_length]; exact hc1.1) hl1 hl2 hl3
    refine ⟨s', _, e1, e2, by simp, by rw [flat_cons], by rw [doneCount_cons]; dsimp only; omega, e3, e4, by omega, by omega, e6, e7⟩
  | mergeLast =>
    obtain ⟨s', e1, e2, e3, e4, e5, e5', e6, e7⟩ := mergeLastBlock_inv (slotEntropy ops s.alphabetSize
      (addSlot (s.slots.getD s.curr []) (s.slots.getD s.last0 []))) h
      (by rw [slotEntropy_length]; exact hc0.1) hl1 hl2 hl3 hmt htb
    refine ⟨s', _, e1, e2, by simp, ?_, ?_, e3, e4, e5, e5', e6, e7⟩
    · rw [flat_cons, flat_cons, List.append_assoc]
    · rw [doneCount_cons, doneCount_cons]; dsimp only; rw [List.length_append]; omega

/-- `BlockSplitterFinishBlock` / `ContextBlockSplitterFinishBlock` -/
theorem finishBlock_inv {F : Type} (ops : FOps F) (hirr : OracleOK ops) {N A K HH : Nat} {s : BS F} {rb : List Blk}
    {pend : List (Nat × Nat)} (isFinal : Bool) (h : Inv N A K HH s rb pend 0) (hbs : s.blockSize = pend.length)
    (hh : s.histosSize = s.slots.length) (hmt : s.minBlockSize ≤ s.targetBlockSize) (htb : s.targetBlockSize ≤ 2 ^ 24) :
    ∃ s' rb', finishBlock ops s isFinal = .ok s' ∧ Inv N A K HH s' rb' [] (max pend.length s.minBlockSize - pend.length) ∧
      rb' ≠ [] ∧ flat rb' = flat rb ++ pend ∧ doneCount rb' = doneCount rb + pend.length ∧
      s'.blockSize = 0 ∧ s'.minBlockSize = s.minBlockSize ∧ s.minBlockSize ≤ s'.targetBlockSize ∧
      s'.targetBlockSize ≤ s.targetBlockSize + s.minBlockSize ∧ s'.slots.length = s.slots.length ∧
      (isFinal = false → s'.histosSize = s.histosSize) ∧
      (isFinal = true → s'.histosSize = s'.numTypes ∧ s'.splitNumBlocks = rb'.length) := by
  have hmin := h.min1
  have h1 := h.setBlockSize (max s.blockSize s.minBlockSize)
  have key : ∃ s' rb', (if s.numBlocks = 0 then firstBlock ops { s with blockSize := max s.blockSize s.minBlockSize }
        else if max s.blockSize s.minBlockSize > 0 then laterBlock ops { s with blockSize := max s.blockSize s.minBlockSize }
        else .ok { s with blockSize := max s.blockSize s.minBlockSize }) = .ok s' ∧
      Inv N A K HH s' rb' [] (max pend.length s.minBlockSize - pend.length) ∧
      rb' ≠ [] ∧ flat rb' = flat rb ++ pend ∧ doneCount rb' = doneCount rb + pend.length ∧
      s'.blockSize = 0 ∧ s'.minBlockSize = s.minBlockSize ∧ s.minBlockSize ≤ s'.targetBlockSize ∧
      s'.targetBlockSize ≤ s.targetBlockSize + s.minBlockSize ∧ s'.slots.length = s.slots.length ∧
      s'.histosSize = s.histosSize := by
    by_cases hz : s.numBlocks = 0
    · rw [if_pos hz]
      have hrb : rb = [] := by
        have := h.nb; rw [hz] at this
        exact List.length_eq_zero_iff.mp this.symm
      subst hrb
      obtain ⟨s', e1, e2, e3, e4, e5, e6, e7⟩ := firstBlock_inv ops h1 hh
        (by dsimp only; omega) (by dsimp only; omega) (by dsimp only; omega)
      dsimp only at e2
      rw [hbs] at e2
      refine ⟨s', [⟨0, max pend.length s.minBlockSize, pend⟩], e1, e2, by simp, by rw [flat_cons],
        by simp [doneCount], e3, e4, ?_, ?_, e6, e7⟩
      · rw [e5]; exact hmt
      · rw [e5]; exact Nat.le_add_right _ _
    · rw [if_neg hz, if_pos (by omega)]
      have hne : rb ≠ [] := by
        intro hrb; subst hrb; exact hz h.nb
      obtain ⟨s', rb', e1, e2, e3, e4, e5, e6, e7, e8, e9, e10, e11⟩ := laterBlock_inv ops hirr h1 hne hh
        (by dsimp only; omega) (by dsimp only; omega) (by dsimp only; omega) hmt htb
      dsimp only at e2
      rw [hbs] at e2
      exact ⟨s', rb', e1, e2, e3, e4, e5, e6, e7, e8, e9, e10, e11⟩
  obtain ⟨s', rb', e1, e2, e3, e4, e5, e6, e7, e8, e9, e10, e11⟩ := key
  unfold finishBlock
  dsimp only
  rw [e1, Out.bind_ok]
  cases isFinal with
  | false =>
    exact ⟨s', rb', rfl, e2, e3, e4, e5, e6, e7, e8, e9, e10, fun _ => e11, fun hc => absurd hc (by decide)⟩
  | true =>
    refine ⟨{ s' with histosSize := s'.numTypes, splitNumBlocks := s'.numBlocks }, rb', rfl, { e2 with }, e3, e4, e5, e6, e7, e8,
      e9, e10, fun hc => absurd hc (by decide), fun _ => ⟨rfl, e2.nb⟩⟩

end BV.Greedy
