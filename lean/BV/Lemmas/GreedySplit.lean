/-
C01 / greedy builder, part 2: the invariant of the `BlockSplitter` / `ContextBlockSplitter` state machine.

`rb` is the list of finished blocks, MOST RECENT FIRST: block type, recorded length, and the symbols
`(static context, symbol)` that went into it, in order.  `pend` are the symbols of the current, unfinished block.
`slack` is the padding of the most recent block (`FinishBlock` raises a short last block to `min_block_size`):
non-zero only behind the final call.
-/
import BV.Lemmas.GreedyHist

namespace BV.Greedy
open BV.Bits BV.Recoder BV.MetaBlock

/-! ### lists -/

theorem take_set_snoc {α : Type} (l : List α) (i : Nat) (v : α) (h : i < l.length) :
    (l.set i v).take (i + 1) = l.take i ++ [v] := by
  induction l generalizing i with
  | nil => simp at h
  | cons a l ih =>
    cases i with
    | zero => simp
    | succ i => simp [ih i (by simpa using h)]

theorem take_set_of_le {α : Type} (l : List α) (i n : Nat) (v : α) (h : n ≤ i) : (l.set i v).take n = l.take n := by
  induction l generalizing i n with
  | nil => simp
  | cons a l ih =>
    cases n with
    | zero => simp
    | succ n =>
      cases i with
      | zero => omega
      | succ i => simp [ih i n (by omega)]

theorem take_of_take_succ {α : Type} (l xs : List α) (v : α) (n : Nat) (h : l.take (n + 1) = xs ++ [v]) (hn : xs.length = n) :
    l.take n = xs := by
  subst hn
  have : (l.take (xs.length + 1)).take xs.length = (xs ++ [v]).take xs.length := by rw [h]
  rw [List.take_take, Nat.min_eq_left (by omega), List.take_append_of_le_length (by omega), List.take_length] at this
  exact this

theorem getD_of_take_succ (l xs : List Nat) (v n : Nat) (h : l.take (n + 1) = xs ++ [v]) (hn : xs.length = n) :
    l.getD n 0 = v ∧ n < l.length := by
  have hl : n < l.length := by
    have := congrArg List.length h
    simp [List.length_take] at this
    omega
  refine ⟨?_, hl⟩
  have : (l.take (n + 1))[n]? = (xs ++ [v])[n]? := by rw [h]
  rw [List.getElem?_take_of_lt (by omega), List.getElem?_append_right (by omega), hn] at this
  simp at this
  rw [List.getD_eq_getElem?_getD, this]
  rfl

/-! ### the invariant -/

/-- a finished block -/
structure Blk where
  t : Nat
  len : Nat
  chunk : List (Nat × Nat)

/-- `max_num_blocks` -/
def maxBlocks (N m : Nat) : Nat := N / m + 1

theorem maxBlocks_pos (N m : Nat) : 0 < maxBlocks N m := Nat.succ_pos _

/-- number of symbols in the finished blocks -/
def doneCount (rb : List Blk) : Nat := (rb.map (fun b => b.chunk.length)).sum

structure Inv {F : Type} (N A K HH : Nat) (s : BS F) (rb : List Blk) (pend : List (Nat × Nat)) (slack : Nat) : Prop where
  ncEq : s.nc = K
  hEq : s.H = HH
  nc1 : 1 ≤ s.nc
  min1 : 1 ≤ s.minBlockSize
  mbt1 : 1 ≤ s.maxBlockTypes
  mbt : s.maxBlockTypes ≤ 256
  mbtK : s.maxBlockTypes * s.nc ≤ 256
  bound : N + s.minBlockSize ≤ 2 ^ 24
  AH : A ≤ s.H
  tlen : s.types.length = maxBlocks N s.minBlockSize
  llen : s.lengths.length = maxBlocks N s.minBlockSize
  slen : s.slots.length = min (maxBlocks N s.minBlockSize) (s.maxBlockTypes + 1)
  shaped : ∀ slot ∈ s.slots, Shaped s.nc s.H slot
  zeroAbove : ∀ slot ∈ s.slots, ∀ c x, A ≤ x → cnt slot c x = 0
  nb : s.numBlocks = rb.length
  typesEq : s.types.take rb.length = (rb.map (fun b => b.t)).reverse
  lensEq : s.lengths.take rb.length = (rb.map (fun b => b.len)).reverse
  chunkTail : ∀ b ∈ rb.tail, b.chunk.length = b.len
  chunkHead : ∀ b, rb.head? = some b → b.chunk.length + slack = b.len
  chunkMin : ∀ b ∈ rb, s.minBlockSize ≤ b.len
  slackLe : slack ≤ s.minBlockSize
  total : doneCount rb + pend.length ≤ N
  nt0 : rb = [] → s.numTypes = 0 ∧ s.curr = 0 ∧ s.last0 = 0
  curr : rb ≠ [] → s.curr = s.numTypes
  ntPos : rb ≠ [] → 1 ≤ s.numTypes
  ntMax : s.numTypes ≤ s.maxBlockTypes
  ntNb : s.numTypes ≤ rb.length
  tlt : ∀ b ∈ rb, b.t < s.numTypes
  t0 : ∀ b, rb.getLast? = some b → b.t = 0
  last0 : ∀ b, rb.head? = some b → s.last0 = b.t
  last1 : ∀ b, rb.tail.head? = some b → s.last1 = b.t
  last1' : rb.length ≤ 1 → s.last1 = 0
  single : s.numTypes = 1 → rb.length = 1
  ent : rb ≠ [] → ∃ e e', s.lastEntropy = e ++ e' ∧ e.length = s.nc ∧ (s.numTypes = 1 → e = e')
  cov : ∀ b ∈ rb, ∀ p ∈ b.chunk, p.1 < s.nc ∧ cnt (s.slots.getD b.t []) p.1 p.2 ≠ 0
  pcov : ∀ p ∈ pend, p.1 < s.nc ∧ cnt (s.slots.getD s.curr []) p.1 p.2 ≠ 0
  tot : ∀ t, t < s.numTypes → slotTotal (s.slots.getD t []) ≤ doneCount rb
  ptot : slotTotal (s.slots.getD s.curr []) ≤ pend.length

theorem sum_len_eq : ∀ (l : List Blk), (∀ b ∈ l, b.chunk.length = b.len) →
    (l.map (fun b => b.len)).sum = (l.map (fun b => b.chunk.length)).sum
  | [], _ => rfl
  | c :: cs, h => by
    simp only [List.map_cons, List.sum_cons]
    rw [sum_len_eq cs (fun b hb => h b (List.mem_cons_of_mem _ hb)), h c List.mem_cons_self]

/-- recorded lengths: all symbols plus the padding of the last block -/
theorem lens_sum {F : Type} {N A K HH : Nat} {s : BS F} {rb : List Blk} {pend : List (Nat × Nat)} {slack : Nat}
    (h : Inv N A K HH s rb pend slack) (hne : rb ≠ []) : (rb.map (fun b => b.len)).sum = doneCount rb + slack := by
  cases rb with
  | nil => exact absurd rfl hne
  | cons b rest =>
    have h1 := h.chunkHead b rfl
    have h2 : (rest.map (fun b => b.len)).sum = (rest.map (fun b => b.chunk.length)).sum :=
      sum_len_eq rest (by have ht := h.chunkTail; simpa using ht)
    simp only [doneCount, List.map_cons, List.sum_cons, h2]
    omega

theorem mul_le_sum_of_le (m : Nat) : ∀ (l : List Nat), (∀ x ∈ l, m ≤ x) → l.length * m ≤ l.sum
  | [], _ => by simp
  | a :: l, h => by
    have := mul_le_sum_of_le m l (fun x hx => h x (List.mem_cons_of_mem _ hx))
    have ha := h a List.mem_cons_self
    simp only [List.length_cons, List.sum_cons, Nat.add_mul, Nat.one_mul]
    omega

/-- the number of blocks is bounded through `min_block_size` -/
theorem blocks_le {F : Type} {N A K HH : Nat} {s : BS F} {rb : List Blk} {pend : List (Nat × Nat)} {slack : Nat}
    (h : Inv N A K HH s rb pend slack) : rb.length * s.minBlockSize ≤ doneCount rb + slack := by
  by_cases hne : rb = []
  · subst hne; simp
  · rw [← lens_sum h hne]
    have := mul_le_sum_of_le s.minBlockSize (rb.map (fun b => b.len)) (by
      intro x hx
      obtain ⟨b, hb, rfl⟩ := List.mem_map.mp hx
      exact h.chunkMin b hb)
    simpa using this

/-- with no padding the arrays have room for one more block -/
theorem room {F : Type} {N A K HH : Nat} {s : BS F} {rb : List Blk} {pend : List (Nat × Nat)}
    (h : Inv N A K HH s rb pend 0) : rb.length < maxBlocks N s.minBlockSize := by
  have h1 := blocks_le h
  have h2 := h.total
  have : rb.length ≤ N / s.minBlockSize := by
    rw [Nat.le_div_iff_mul_le h.min1]; omega
  unfold maxBlocks
  omega

theorem curr_lt {F : Type} {N A K HH : Nat} {s : BS F} {rb : List Blk} {pend : List (Nat × Nat)}
    (h : Inv N A K HH s rb pend 0) : s.curr < s.slots.length := by
  rw [h.slen]
  have hr := room h
  by_cases hne : rb = []
  · rw [(h.nt0 hne).2.1]; omega
  · rw [h.curr hne]
    have := h.ntNb
    have := h.ntMax
    omega

theorem slot_mem {F : Type} (s : BS F) (t : Nat) (h : t < s.slots.length) : s.slots.getD t [] ∈ s.slots :=
  getD_mem' s.slots t [] h

/-! ### `InitBlockSplitter` -/

theorem initBS_inv {F : Type} (ops : FOps F) (plain : Bool) (nc H alphabetSize minBlockSize : Nat) (thr : F) (N A : Nat)
    (hnc1 : 1 ≤ nc) (hnc : nc ≤ 13) (hp : plain = true → nc = 1) (hmin : 1 ≤ minBlockSize) (hal : alphabetSize ≤ H)
    (hAH : A ≤ H) (hb : N + minBlockSize ≤ 2 ^ 24) :
    ∃ s, initBS ops plain nc H alphabetSize minBlockSize thr N = .ok s ∧ Inv N A nc H s [] [] 0 ∧
      s.blockSize = 0 ∧ s.targetBlockSize = minBlockSize ∧ s.minBlockSize = minBlockSize ∧ s.nc = nc ∧ s.H = H ∧
      s.plain = plain ∧ s.maxBlockTypes * nc ≤ 256 ∧ s.histosSize = s.slots.length := by
  have hN : (N / minBlockSize + 1) % two64 = N / minBlockSize + 1 := by
    apply Nat.mod_eq_of_lt
    have : N / minBlockSize ≤ N := Nat.div_le_self _ _
    generalize N / minBlockSize = q at this ⊢
    unfold two64; omega
  have hmt : 1 ≤ min (N / minBlockSize + 1) ((if plain then 256 else 256 / nc) + 1) := by
    rw [Nat.le_min]; exact ⟨Nat.succ_le_succ (Nat.zero_le _), Nat.succ_le_succ (Nat.zero_le _)⟩
  unfold initBS
  rw [if_neg (by omega), if_neg (by simp; intro _; omega), if_neg (by simp; intro _; omega), if_neg (by omega)]
  simp only [hN]
  rw [if_neg (by omega)]
  refine ⟨_, rfl, ?_, rfl, rfl, rfl, rfl, rfl, rfl, ?_, by simp⟩
  · refine { ncEq := rfl, hEq := rfl, nc1 := hnc1, min1 := hmin, mbt1 := ?_, mbt := ?_, mbtK := ?_, bound := hb, AH := hAH, tlen := by simp [maxBlocks], llen := by simp [maxBlocks],
             slen := by simp [maxBlocks], shaped := ?_, zeroAbove := ?_, nb := rfl, typesEq := by simp, lensEq := by simp,
             chunkTail := by simp, chunkHead := by simp, chunkMin := by simp, slackLe := by omega,
             total := by simp [doneCount], nt0 := fun _ => ⟨rfl, rfl, rfl⟩, curr := fun h => absurd rfl h,
             ntPos := fun h => absurd rfl h, ntMax := by simp, ntNb := by simp, tlt := by simp, t0 := by simp,
             last0 := by simp, last1 := by simp, last1' := fun _ => rfl, single := by simp,
             ent := fun h => absurd rfl h, cov := by simp, pcov := by simp, tot := by simp, ptot := ?_ }
    · show 1 ≤ (if plain then 256 else 256 / nc)
      split
      · omega
      · rw [Nat.le_div_iff_mul_le (by omega)]; omega
    · show (if plain then 256 else 256 / nc) ≤ 256
      split
      · omega
      · exact Nat.div_le_self _ _
    · show (if plain then 256 else 256 / nc) * nc ≤ 256
      split
      · rename_i h; rw [hp h]; omega
      · exact Nat.div_mul_le_self _ _
    · intro slot hs
      simp only [List.mem_replicate] at hs
      rw [hs.2]; exact zeroSlot_shaped nc H
    · intro slot hs c x _
      simp only [List.mem_replicate] at hs
      rw [hs.2]; exact zeroSlot_cnt nc H c x
    · show slotTotal ((List.replicate _ (zeroSlot nc H)).getD 0 []) ≤ 0
      rw [List.getD_eq_getElem?_getD, List.getElem?_replicate, if_pos (by omega)]
      simp [zeroSlot_total]
  · show (if plain then 256 else 256 / nc) * nc ≤ 256
    split
    · rename_i h; rw [hp h]; omega
    · exact Nat.div_mul_le_self _ _

/-- `Inv` does not mention `block_size_` -/
theorem Inv.setBlockSize {F : Type} {N A K HH : Nat} {s : BS F} {rb : List Blk} {pend : List (Nat × Nat)} {k : Nat}
    (h : Inv N A K HH s rb pend k) (x : Nat) : Inv N A K HH { s with blockSize := x } rb pend k := { h with }

end BV.Greedy
