import BV.Lemmas.ZopfliBack
/-! A concrete instance (non-vacuity of `NodeOK`, `PathOK`, `NodesOK`, `RingAt`, `BackOK`, `AllBack`). -/
namespace BV.Zopfli.ZEx
open BV.Hasher BV.MatchFinder BV.Recoder BV.PrefixArith BV.MetaBlock BV.Cbr BV.Zopfli

/-- `1 2 3 1 2 3 1 2 3 9`: three literals, a copy of 6 from distance 3 (overlapping), one trailing literal -/
def text : Bytes := [1, 2, 3, 1, 2, 3, 1, 2, 3, 9]
def params : Zopfli.Params := ⟨10, 10, 67108860, 0, 0⟩
def stubN : Node Nat := ⟨1, 0, 0, .cost 0⟩
def copyN (u : U Nat) : Node Nat := ⟨6 ||| (9 <<< 25), 3, 3, u⟩
/-- node 9 = "insert 3, copy 6 (length code 6), distance 3, no short code"; node 0 points at it -/
def nodes : Array (Node Nat) :=
  #[⟨0, 0, 0, .next 9⟩, stubN, stubN, stubN, stubN, stubN, stubN, stubN, stubN, copyN (.next 0xffffffff), stubN]
/-- the same array as the dynamic programme leaves it (costs / shortcuts in `u`, no `next` chain yet) -/
def nodesDP : Array (Node Nat) :=
  #[⟨0, 0, 0, .shortcut 0⟩, stubN, stubN, stubN, stubN, stubN, stubN, stubN, stubN, copyN (.cost 7), stubN]

theorem copyN_ok1 :
    NodeOK (fun _ _ _ => none) (Zopfli.maxBackwardLimit params) params.maxDistance ([] ++ text) 3 [4, 11, 15, 16]
      (copyN (.next 0xffffffff)) := by
  refine ⟨by decide, Or.inl (by decide), Or.inl ⟨by decide, by decide, by decide, by decide, ?_⟩⟩
  have : ∀ j, j < 6 → ([] ++ text).getD (3 - 3 + j) 0 = ([] ++ text).getD (3 + j) 0 := by decide
  exact this

theorem copyN_ok2 :
    NodeOK (fun _ _ _ => none) (Zopfli.maxBackwardLimit params) params.maxDistance ([] ++ text) 3 [4, 11, 15, 16]
      (copyN (.cost 7)) := by
  refine ⟨by decide, Or.inl (by decide), Or.inl ⟨by decide, by decide, by decide, by decide, ?_⟩⟩
  have : ∀ j, j < 6 → ([] ++ text).getD (3 - 3 + j) 0 = ([] ++ text).getD (3 + j) 0 := by decide
  exact this

theorem nodes_ok : NodesOK (fun _ _ _ => none) (Zopfli.maxBackwardLimit params) params.maxDistance ([] ++ text) 0 10 nodes
    [4, 11, 15, 16] := by
  refine ⟨_, rfl, ?_⟩
  refine PathOK.step (copyN (.next 0xffffffff)) (by decide) rfl copyN_ok1 (by decide) ?_
  exact PathOK.done (by decide)

theorem run : (zopfliCreateCommands 0 0 10 0 (Zopfli.maxBackwardLimit params) nodes [4, 11, 15, 16] 0 0).map
    (fun r => (r.cmds, r.lastInsertLen, r.cache)) = some ([⟨3, 6, 0, 156, 1041⟩], 1, [3, 4, 11, 15]) := by
  decide +kernel

theorem nodesDP_get (e : Nat) (n : Node Nat) (he : e ≠ 0) (hn : nodesDP[e]? = some n) :
    n = stubN ∨ (e = 9 ∧ n = copyN (.cost 7)) := by
  have h11 : e < 11 := by
    rcases Nat.lt_or_ge e 11 with h | h
    · exact h
    · rw [Array.getElem?_eq_none (by simpa [nodesDP] using h)] at hn; cases hn
  have : e = 1 ∨ e = 2 ∨ e = 3 ∨ e = 4 ∨ e = 5 ∨ e = 6 ∨ e = 7 ∨ e = 8 ∨ e = 9 ∨ e = 10 := by omega
  rcases this with rfl | rfl | rfl | rfl | rfl | rfl | rfl | rfl | rfl | rfl <;>
    simp [nodesDP] at hn <;> subst hn <;> simp

theorem nodesDP_ok : AllBack (fun _ _ _ => none) (Zopfli.maxBackwardLimit params) params.maxDistance ([] ++ text) 0 10
    nodesDP [4, 11, 15, 16] := by
  intro e n he _ hn
  rcases nodesDP_get e n he hn with rfl | ⟨rfl, rfl⟩
  · exact Or.inl ⟨by decide, by decide⟩
  · refine Or.inr ⟨by decide, [4, 11, 15, 16], ?_, copyN_ok2⟩
    have : 9 - ((copyN (.cost 7)).insertLength + (copyN (.cost 7)).copyLength) = 0 := by decide
    rw [this]
    exact RingAt.zero

theorem runDP : (computeShortestPathFromNodes 10 nodesDP).map (fun r => r.2) = some 1 := by
  decide +kernel

end BV.Zopfli.ZEx
