import BV.Model.Adapters
/-
Hypotheses about the streaming encoder (the oracle of M9) under which the C11 theorems are
stated, the ghost-log vocabulary, and a small concrete encoder that satisfies all of them
(non-vacuity).  The harness checks the observable consequences on every answer it records from
the real encoder (`Shadow::step` in harness/src/adapters.rs): consumed ≤ offered, produced ≤
capacity, no "stalled" demanded call, `total_out` bookkeeping.
-/
namespace BV.Adapters

/-- `compress_stream` stays inside the slices it is given -/
structure EncSane (E : Enc σ) : Prop where
  consumed_le : ∀ s op inp cap, (E.step s op inp cap).2.consumed ≤ inp.length
  produced_le : ∀ s op inp cap, (E.step s op inp cap).2.produced.length ≤ cap

/-- a call whose caller will call again unless something moved: PROCESS with input on offer,
FINISH (no input) that did not reach `is_finished`, FLUSH (no input) that left `has_more_output` -/
def Demanded (E : Enc σ) (s' : σ) (op : Op) (inp : Bytes) : Prop :=
  (op = .process ∧ inp ≠ []) ∨ (op = .finish ∧ inp = [] ∧ E.isFinished s' = false) ∨
  (op = .flush ∧ inp = [] ∧ E.hasMore s' = true)

/-- the encoder cannot stall on the request kinds in `ops`: a successful demanded call with output
room that consumed no input strictly decreases a rank of the encoder state (think: pending output
bytes, then "an encode is still due").  Calls that consume input may change the rank arbitrarily.
Each adapter loop needs it only for the operations it issues (`write`: PROCESS; `flush`: FLUSH;
`into_inner`: FINISH; `read` and the copy function: PROCESS and FINISH), and different request
kinds may use different ranks. -/
structure EncProgress (E : Enc σ) (ops : Op → Prop) (rank : σ → Nat) : Prop where
  stall : ∀ s op inp cap, ops op → 0 < cap → (E.step s op inp cap).2.ok = true →
    (E.step s op inp cap).2.consumed = 0 → Demanded E (E.step s op inp cap).1 op inp →
    rank (E.step s op inp cap).1 < rank s

/-- every request kind -/
def allOps : Op → Prop := fun _ => True

/-! ### ghost-log vocabulary (logs are stored newest first) -/

/-- bytes the encoder produced, in call order -/
def emitted (elog : List ERec) : Bytes := (elog.reverse.map (fun r => r.ans.produced)).flatten

/-- bytes the encoder consumed, in call order -/
def fed (elog : List ERec) : Bytes := (elog.reverse.map (fun r => r.input.take r.ans.consumed)).flatten

theorem emitted_append (a b : List ERec) : emitted (a ++ b) = emitted b ++ emitted a := by
  simp [emitted]

theorem fed_append (a b : List ERec) : fed (a ++ b) = fed b ++ fed a := by
  simp [fed]

theorem emitted_cons (r : ERec) (l : List ERec) : emitted (r :: l) = emitted l ++ r.ans.produced := by
  simp [emitted]

theorem fed_cons (r : ERec) (l : List ERec) : fed (r :: l) = fed l ++ r.input.take r.ans.consumed := by
  simp [fed]

@[simp] theorem emitted_nil : emitted [] = [] := rfl
@[simp] theorem fed_nil : fed [] = [] := rfl

/-! ### a concrete encoder meeting the hypotheses: "stored" framing.
State: bytes not yet delivered, and whether the end marker `255` has been appended. -/

structure Toy where
  pending : Bytes
  marked : Bool
deriving DecidableEq, Repr

def toyEnc : Enc Toy where
  step s op inp cap :=
    let s1 : Toy :=
      match op with
      | .process => ⟨s.pending ++ inp, s.marked⟩
      | .flush => ⟨s.pending ++ inp, s.marked⟩
      | .finish => if s.marked then ⟨s.pending ++ inp, true⟩ else ⟨s.pending ++ inp ++ [255], true⟩
    (⟨s1.pending.drop cap, s1.marked⟩, ⟨inp.length, s1.pending.take cap, true, 0⟩)
  hasMore s := s.pending != []
  isFinished s := s.marked && s.pending == []

theorem toy_sane : EncSane toyEnc := by
  constructor
  · intro s op inp cap; simp [toyEnc]
  · intro s op inp cap; simp [toyEnc, List.length_take]; omega

def toyRank (s : Toy) : Nat := s.pending.length + (if s.marked then 0 else 2)

theorem toy_progress : EncProgress toyEnc allOps toyRank := by
  constructor
  intro s op inp cap _ hcap _ hcons hdem
  have hinp : inp = [] := by
    have : inp.length = 0 := by simpa [toyEnc] using hcons
    exact List.eq_nil_of_length_eq_zero this
  subst hinp
  rcases hdem with ⟨_, h⟩ | ⟨hop, _, h⟩ | ⟨hop, _, h⟩
  · exact absurd rfl h
  · subst hop
    cases hm : s.marked
    · simp [toyEnc, toyRank, hm]; omega
    · simp [toyEnc, toyRank, hm] at h ⊢
      have : 0 < s.pending.length := by
        cases hp : s.pending with
        | nil => simp [hp] at h
        | cons a t => simp
      omega
  · subst hop
    simp [toyEnc, toyRank] at h ⊢
    have : 0 < s.pending.length := by
      cases hp : s.pending with
      | nil => simp [hp] at h
      | cons a t => simp
    omega

end BV.Adapters
